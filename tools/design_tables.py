#!/venv/bin/python
"""tools/design_tables.py: rewrite the generated tables of DESIGN.md (seeded-change table from seeded/*/{meta,result}.json,
cost table from .build/logs/*_pass.txt) between their BEGIN/END markers. By-hand aid, not run by any registered command."""
import json, re
from pathlib import Path
V = Path(__file__).resolve().parent.parent
d = (V / "DESIGN.md").read_text()

rows = ["| Seed | Property | Change (one line) | Trigger | Caught by | First run |", "|---|---|---|---|---|---|"]
for p in sorted((V / "seeded").iterdir()):
    m = json.loads((p / "meta.json").read_text()) if (p / "meta.json").exists() else {}
    r = json.loads((p / "result.json").read_text()) if (p / "result.json").exists() else {}
    def cell(x, n):
        x = re.sub(r"\s+", " ", str(x)).replace("|", "/")
        return x if len(x) <= n else x[: n - 1] + "…"
    rows.append(f"| `{p.name}` | {m.get('property','?')} | {cell(m.get("summary",""), 150)} | {cell(m.get("trigger",""), 110)} | {cell(', '.join(r.get('caught_by', [])), 160)} | {cell(r.get('first_run','?'), 200)} |")
notes = []
for p in sorted((V / "seeded").iterdir()):
    r = json.loads((p / "result.json").read_text()) if (p / "result.json").exists() else {}
    if r.get("strengthening"):
        notes.append(f"* `{p.name}` - first run: {r.get('first_run','')}. **Strengthened:** {r['strengthening']}.")
seed = "\n".join(rows) + "\n\nMisses and what was changed because of them (every seed is caught by the quick tier now):\n\n" + "\n".join(notes)
d = re.sub(r"<!-- SEEDED:BEGIN -->.*?<!-- SEEDED:END -->", "<!-- SEEDED:BEGIN -->\n" + seed + "\n<!-- SEEDED:END -->", d, flags=re.S)

def walls(f):
    out = {}
    fp = V / ".build" / "logs" / f
    if fp.exists():
        for l in fp.read_text().splitlines():
            m = re.match(r"(C\d\d) rc=(\d+) (\d+)s", l)
            if m:
                out[m.group(1)] = (int(m.group(3)), int(m.group(2)))
    return out
q, t = walls("quick_pass.txt"), walls("thorough_pass.txt")
ids = [f"C{i:02d}" for i in range(1, 19)]
cost = ["| | " + " | ".join(ids) + " |", "|---|" + "---|" * 18,
        "| quick (s) | " + " | ".join(str(q[i][0]) if i in q else "-" for i in ids) + " |",
        "| thorough (s) | " + " | ".join(str(t[i][0]) if i in t else "-" for i in ids) + " |"]
d = re.sub(r"<!-- COST:BEGIN -->.*?<!-- COST:END -->", "<!-- COST:BEGIN -->\n" + "\n".join(cost) + "\n<!-- COST:END -->", d, flags=re.S)
(V / "DESIGN.md").write_text(d)
print("ok")
