#!/bin/bash
# tools/confirm_seed.sh <seed-dir-name>: confirm a seeded change in a scratch worktree (never /repo): the demonstration exits 0
# without the patch and 1 with it, and the pinned test suite passes with the patch. Removes the worktree afterwards.
set -u
name=$1
d=/var/tmp/conf_$name
git -C /repo worktree remove --force $d 2>/dev/null
git -C /repo worktree add -q --detach $d HEAD || exit 2
demo=$(ls /verif/seeded/$name/demo* | head -1)
rundemo() { (cd $d && FORCE_BINJA_MOCK=1 PYTHONPATH=$d PYTHONDONTWRITEBYTECODE=1 /venv/bin/python $demo >/dev/null 2>&1; echo $?); }
case "$demo" in *.sh) rundemo() { (cd $d && bash $demo >/dev/null 2>&1; echo $?); };; esac
r0=$(rundemo)
git -C $d apply /verif/seeded/$name/patch.diff || { echo "$name: patch does not apply"; git -C /repo worktree remove --force $d; exit 2; }
r1=$(rundemo)
t=$(cd $d && FORCE_BINJA_MOCK=1 PYTHONDONTWRITEBYTECODE=1 /venv/bin/python -m pytest -q -p no:cacheprovider --timeout=900 --continue-on-collection-errors 2>&1 | tail -1)
git -C /repo worktree remove --force $d
echo "confirm seed=$name demo_without=$r0 demo_with=$r1 tests: $t"
