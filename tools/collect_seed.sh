#!/bin/bash
# tools/collect_seed.sh <seed-id>: copy /tmp/seed_<id>/SEED into seeded/<id>, check the patch applies to /repo, remove the worktree
set -u
id=$1
src=/tmp/seed_$id/SEED
[ -f $src/patch.diff ] || { echo "no patch for $id"; exit 1; }
mkdir -p /verif/seeded/$id
cp $src/patch.diff $src/meta.json /verif/seeded/$id/
for f in $src/demo.py $src/demo.sh $src/demo*; do [ -f "$f" ] && cp "$f" /verif/seeded/$id/; done
git -C /repo apply --check /verif/seeded/$id/patch.diff && echo "$id: patch applies" || echo "$id: PATCH DOES NOT APPLY"
git -C /repo worktree remove --force /tmp/seed_$id
ls /verif/seeded/$id
