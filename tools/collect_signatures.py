#!/venv/bin/python
"""tools/collect_signatures.py <Cnn> [tier]: run a check with reporting intercepted and print every distinct signature
with its first witness (a by-hand aid for writing known_findings.json; never run by the registered commands)."""
import importlib
import json
import sys
from pathlib import Path

VERIF = Path(__file__).resolve().parent.parent
sys.path.insert(0, str(VERIF))
sys.path.insert(0, str(VERIF / "lib"))
import common  # noqa: E402

prop = sys.argv[1].upper()
tier = sys.argv[2] if len(sys.argv) > 2 else "quick"
ctx = common.Ctx(prop, tier, 20260925)
seen = {}
orig = ctx.report


def rep(sig, what, case):
    k = json.dumps(sig)
    if k not in seen:
        seen[k] = {"what": what, "case": case, "count": 0, "known": ctx.known_entry(sig) is not None}
    seen[k]["count"] += 1
    return True


ctx.report = rep
ctx.prove = lambda *a, **k: True
importlib.import_module("checks." + prop.lower()).run(ctx)
print(json.dumps({"broken": ctx.broken, "signatures": seen}, indent=1, default=str))
