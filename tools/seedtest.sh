#!/bin/bash
# tools/seedtest.sh <seed-dir-name> <Cnn> [<Cnn> ...] : apply seeded/<name>/patch.diff to /repo, run the quick checks, revert.
# Prints one line per check: <check> rc=<rc> violations=<n> no-input=<n> first replay summary.
set -u
name=$1; shift
patch=/verif/seeded/$name/patch.diff
git -C /repo diff --quiet || { echo "/repo has local changes; refusing"; exit 2; }
git -C /repo apply "$patch" || { echo "patch does not apply"; exit 2; }
trap 'git -C /repo checkout -- . ; rm -f /verif/evidence/replays/*.json; (cd /verif && /venv/bin/python -c "import sys; sys.path.insert(0, \"lib\"); import common; [common.run_translator(t, []) for t in (\"tr_tables\", \"tr_kbd\")]") >/dev/null 2>&1' EXIT
for c in "$@"; do
  out=$(/verif/bin/check $c --tier ${TIER:-quick} 2>&1)
  rc=$?
  nv=$(echo "$out" | grep -c '^VIOLATION')
  nn=$(echo "$out" | grep -c 'no-failing-input-found')
  echo "seed=$name check=$c rc=$rc violations=$nv no_input=$nn :: $(echo "$out" | tail -1)"
  f=$(echo "$out" | grep -m1 '^VIOLATION' | sed 's/.*replay=\([^ ]*\).*/\1/')
  [ -n "$f" ] && [ -f "$f" ] && head -c 700 "$f" | tr '\n' ' ' && echo
done
