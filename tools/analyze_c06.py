#!/venv/bin/python
"""by-hand aid: dump every C06 'results_differ' case with features, to find the root causes"""
import importlib, json, sys
from pathlib import Path
VERIF = Path(__file__).resolve().parent.parent
sys.path.insert(0, str(VERIF)); sys.path.insert(0, str(VERIF / "lib"))
import common
from checks import cpu
seed = int(sys.argv[1]); tier = sys.argv[2] if len(sys.argv) > 2 else "quick"
ctx = common.Ctx("C06", tier, seed)
rows = []
def rep(sig, what, case):
    if ctx.known_entry(sig) is None:
        rows.append((sig, what, case))
    return True
ctx.report = rep
ctx.prove = lambda *a, **k: True
importlib.import_module("checks.c06").run(ctx)
for sig, what, case in rows:
    print(json.dumps({"sig": sig, "mn": sig[-1], "case": case["case"], "py": case["python"], "rs": case["rust"], "fields": case["fields"]}))
