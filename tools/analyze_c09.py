#!/venv/bin/python
import importlib, json, sys, re, collections
from pathlib import Path
VERIF = Path(__file__).resolve().parent.parent
sys.path.insert(0, str(VERIF)); sys.path.insert(0, str(VERIF / "lib"))
import common
seed = int(sys.argv[1]); tier = sys.argv[2] if len(sys.argv) > 2 else "quick"
ctx = common.Ctx("C09", tier, seed)
c = collections.Counter(); ex = {}
def rep(sig, what, case):
    m = re.search(r"`([^`]*)`", what)
    text = m.group(1) if m else ""
    ans = case.get("answer", "") if isinstance(case, dict) else ""
    kind = ans.split(" ")[0] if ans.startswith(("ASMERR", "REDIS")) else "|".join(t for t in ans.split(" | ")[0].split()[1:] if t.endswith("=0"))
    text2 = ans.split("| text2=")[1] if "| text2=" in ans else ""
    d = re.sub(r"\((?!BP\+|PX\+|PY\+)([^()\[\]]+)\)", r"(BP+\1)", text.replace("(PX+", "(BP+").replace("(PY+", "(BP+"))
    k = (sig[1], kind, "defaulted" if text2 == d else ("same" if text2 == text else "other"))
    c[k] += 1; ex.setdefault(k, what[:200])
    return True
ctx.report = rep
ctx.prove = lambda *a, **k: True
importlib.import_module("checks.c09").run(ctx)
for k, v in sorted(c.items()): print(v, k, "::", ex[k][:120] if "-v" in sys.argv else "")
