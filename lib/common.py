"""Shared machinery for /verif checks: paths, builds, evidence, verdicts.

Every check (checks/cNN.py) exposes `run(ctx)`; bin/check drives it.
"""
from __future__ import annotations

import fcntl
import hashlib
import json
import os
import random
import re
import shutil
import subprocess
import sys
import time
from pathlib import Path

VERIF = Path(__file__).resolve().parent.parent
REPO = Path(os.environ.get("VERIF_REPO", "/repo"))
BUILD = VERIF / ".build"
COQ = VERIF / "coq"
PY = "/venv/bin/python"
NCPU = int(os.environ.get("VERIF_JOBS", "16"))

KERNEL_TB = "Coq 8.16.1 kernel (coqc, vm_compute; native_compute not used)"


def log(*a):
    print("[verif]", *a, file=sys.stderr, flush=True)


def py_env(extra: dict | None = None) -> dict:
    env = dict(os.environ)
    env.update(
        PYTHONPATH=f"{REPO}:{VERIF}",
        PYTHONHASHSEED="0",
        FORCE_BINJA_MOCK="1",
        BINJA_ESR_VERIF="1",
        PYTHONDONTWRITEBYTECODE="1",
        VERIF_REPO=str(REPO),
    )
    if extra:
        env.update(extra)
    return env


def write_if_changed(path: Path, text: str) -> bool:
    path.parent.mkdir(parents=True, exist_ok=True)
    if path.exists() and path.read_text() == text:
        return False
    tmp = path.with_suffix(path.suffix + ".tmp%d" % os.getpid())
    tmp.write_text(text)
    os.replace(tmp, path)
    return True


class Lock:
    def __init__(self, name: str):
        BUILD.mkdir(exist_ok=True)
        self.path = BUILD / (name + ".lock")

    def __enter__(self):
        self.f = open(self.path, "w")
        fcntl.flock(self.f, fcntl.LOCK_EX)
        return self

    def __exit__(self, *a):
        fcntl.flock(self.f, fcntl.LOCK_UN)
        self.f.close()


def run(cmd, timeout=None, cwd=None, env=None, input=None):
    t0 = time.time()
    try:
        p = subprocess.run(
            cmd, cwd=cwd, env=env, input=input, timeout=timeout,
            stdout=subprocess.PIPE, stderr=subprocess.STDOUT, text=True,
        )
        return p.returncode, p.stdout, time.time() - t0
    except subprocess.TimeoutExpired as e:
        out = e.stdout or ""
        if isinstance(out, bytes):
            out = out.decode("utf8", "replace")
        return 124, out + "\n[timeout]", time.time() - t0


# --------------------------------------------------------------------------
# Translators (Gen/*.v)
# --------------------------------------------------------------------------

def run_translator(name: str, outputs: list[str]) -> tuple[bool, str]:
    """Run translators/<name>.py under the repo's python; it writes coq/Gen files itself
    (through write_if_changed) and exits non-zero when it cannot understand the source."""
    rc, out, _ = run([PY, str(VERIF / "translators" / (name + ".py"))], env=py_env(), timeout=600)
    if rc != 0:
        return False, out
    for o in outputs:
        if not (COQ / "Gen" / o).exists():
            return False, f"translator {name} did not produce {o}\n{out}"
    return True, out


# --------------------------------------------------------------------------
# Coq build
# --------------------------------------------------------------------------

FORBIDDEN = re.compile(
    r"\b(Admitted|admit|Axiom|Parameter|Conjecture|Unset\s+Guard|bypass_check|Admit\s+Obligations|"
    r"Unset\s+Positivity|Unset\s+Universe|type-in-type|impredicative-set)\b"
)


def coq_sources() -> list[Path]:
    return sorted(p for p in COQ.rglob("*.v"))


def scan_forbidden() -> list[str]:
    bad = []
    for p in coq_sources():
        txt = p.read_text()
        # strip comments (non-nested is enough for our own files)
        txt2 = re.sub(r"\(\*.*?\*\)", "", txt, flags=re.S)
        for m in FORBIDDEN.finditer(txt2):
            bad.append(f"{p.relative_to(VERIF)}: {m.group(0)}")
    # Variable/Hypothesis outside sections: crude check - only allow inside Section..End
    for p in coq_sources():
        depth = 0
        for ln in re.sub(r"\(\*.*?\*\)", "", p.read_text(), flags=re.S).splitlines():
            s = ln.strip()
            if re.match(r"Section\s+\w+", s):
                depth += 1
            elif re.match(r"End\s+\w+", s) and depth > 0:
                depth -= 1
            elif depth == 0 and re.match(r"(Variables?|Hypothes[ie]s|Context)\b", s):
                bad.append(f"{p.relative_to(VERIF)}: {s[:40]} outside a Section")
    return bad


def coq_makefile():
    files = [str(p.relative_to(COQ)) for p in coq_sources()]
    proj = "-Q . BE\n-arg -w -arg -notation-overridden,-deprecated-hint-without-locality,-deprecated-instance-without-locality\n" + "\n".join(files) + "\n"
    changed = write_if_changed(COQ / "_CoqProject", proj)
    if changed or not (COQ / "Makefile").exists():
        rc, out, _ = run(["coq_makefile", "-f", "_CoqProject", "-o", "Makefile"], cwd=COQ)
        if rc != 0:
            raise RuntimeError("coq_makefile failed:\n" + out)


def coq_make(targets: list[str], timeout=1500) -> tuple[bool, str]:
    """Full .vo build of the given targets (paths relative to coq/, .vo)."""
    with Lock("coq"):
        coq_makefile()
        rc, out, dt = run(["make", "-j%d" % NCPU, "-k"] + targets, cwd=COQ, timeout=timeout)
        return rc == 0, out


def coq_failure_site(out: str) -> str:
    """Name the file/lemma a failed build stopped in."""
    m = re.search(r'File "\./([^"]+)", line (\d+)', out)
    if not m:
        m2 = re.search(r"\*\*\* \[([^\]]+)\]", out)
        return m2.group(1) if m2 else "unknown"
    f, line = m.group(1), int(m.group(2))
    name = "?"
    try:
        lines = (COQ / f).read_text().splitlines()
        for i in range(min(line, len(lines)) - 1, -1, -1):
            mm = re.match(r"\s*(Theorem|Lemma|Corollary|Example|Definition|Fixpoint|Fact|Goal)\s+(\w+)", lines[i])
            if mm:
                name = mm.group(2)
                break
    except Exception:
        pass
    return f"{f}:{line} ({name})"


def props_check(prop: str) -> dict:
    """Compile Props/<prop>.v and, when present, Props/<prop>_refuted.v (and deps); return theorems and their assumptions."""
    res = {"ok": False, "theorems": [], "assumptions": {}, "log": "", "site": ""}
    files = [prop] + ([prop + "_refuted"] if (COQ / "Props" / f"{prop}_refuted.v").exists() else [])
    ok, out = coq_make([f"Props/{f}.vo" for f in files])
    if not ok:
        res["log"] = out[-6000:]
        res["site"] = coq_failure_site(out)
        return res
    for f in files:
        # re-run coqc on the property file alone to capture Print Assumptions output
        with Lock("coq"):
            (BUILD / "chk").mkdir(parents=True, exist_ok=True)
            rc, out2, _ = run(["coqc", "-Q", ".", "BE", "-w", "-notation-overridden", "-o", str(BUILD / "chk" / f"{f}.vo"), f"Props/{f}.v"], cwd=COQ, timeout=900)
        if rc != 0:
            res["log"] = out2[-6000:]
            res["site"] = coq_failure_site(out2)
            return res
        src = (COQ / "Props" / f"{f}.v").read_text()
        src_nc = re.sub(r"\(\*.*?\*\)", "", src, flags=re.S)
        thms = re.findall(r"^\s*(?:Theorem|Corollary)\s+(\w+)", src_nc, flags=re.M)
        pa = re.findall(r"Print Assumptions\s+(\w+)", src_nc)
        res["theorems"] += thms
        # parse output: sequence of blocks, one per Print Assumptions, in order
        blocks = re.split(r"(?=Closed under the global context|Axioms:)", out2)
        blocks = [b for b in blocks if b.startswith("Closed under") or b.startswith("Axioms:")]
        for name, b in zip(pa, blocks):
            if b.startswith("Closed under"):
                res["assumptions"][name] = []
            else:
                ax = re.findall(r"^([\w\.]+)\s*:", b, flags=re.M)
                res["assumptions"][name] = ax
        missing = [t for t in thms if t not in res["assumptions"]]
        if missing:
            res["log"] = "Print Assumptions missing for: " + ", ".join(missing)
            res["site"] = f"Props/{f}.v"
            return res
    res["ok"] = True
    return res


ALLOWED_AXIOMS = {
    # standard-library axioms we would tolerate (named in DESIGN.md section 3) - none are expected
    "FunctionalExtensionality.functional_extensionality_dep",
    "Coq.Logic.FunctionalExtensionality.functional_extensionality_dep",
    "Eqdep.Eq_rect_eq.eq_rect_eq",
    "Coq.Logic.Eqdep.Eq_rect_eq.eq_rect_eq",
    "Classical_Prop.classic",
    "Coq.Logic.Classical_Prop.classic",
}


# --------------------------------------------------------------------------
# Extracted model driver
# --------------------------------------------------------------------------

def build_model_driver() -> tuple[bool, str]:
    ok, out = coq_make(["Extract/Extract.vo"])
    if not ok:
        return False, out
    with Lock("ocaml"):
        ext = COQ / "Extract"
        bdir = BUILD / "ocaml"
        bdir.mkdir(parents=True, exist_ok=True)
        srcs = ["model.mli", "model.ml", "driver.ml"]
        h = hashlib.sha256()
        for s in srcs:
            h.update((ext / s).read_bytes())
        stamp = bdir / "stamp"
        exe = bdir / "model_driver"
        if exe.exists() and stamp.exists() and stamp.read_text() == h.hexdigest():
            return True, "up to date"
        for s in srcs:
            shutil.copy(ext / s, bdir / s)
        rc, out, _ = run(["ocamlfind", "ocamlopt", "-O3", "-w", "-a", "-package", "str", "-linkpkg", "model.mli", "model.ml", "driver.ml", "-o", "model_driver"], cwd=bdir, timeout=900)
        if rc != 0:
            rc, out, _ = run(["ocamlfind", "ocamlopt", "-w", "-a", "-package", "str", "-linkpkg", "model.mli", "model.ml", "driver.ml", "-o", "model_driver"], cwd=bdir, timeout=900)
        if rc != 0:
            return False, out
        stamp.write_text(h.hexdigest())
        return True, out


MODEL_DRIVER = BUILD / "ocaml" / "model_driver"


# --------------------------------------------------------------------------
# Rust harness
# --------------------------------------------------------------------------

RUST_CARGO_TOML = """[package]
name = "sc62015-core"
version = "0.1.0"
edition = "2021"

[dependencies]
serde = {{ version = "1.0", features = ["derive"] }}
serde_json = "1.0"
thiserror = "1.0"
zip = {{ path = "{zipshim}", optional = true }}

[features]
default = ["snapshot"]
llama-tests = []
cli = []
perfetto = []
snapshot = ["dep:zip"]
"""

RUST_HARNESS = BUILD / "target" / "release" / "verif-harness"


def build_rust_harness() -> tuple[bool, str]:
    """Copy /repo/sc62015/core to .build/core (never edits /repo), rewrite the copy's manifest
    (optional git/CLI dependencies cannot be fetched offline) and build the harness."""
    with Lock("rust"):
        src = REPO / "sc62015" / "core"
        dst = BUILD / "core"
        dst.mkdir(parents=True, exist_ok=True)
        orig = (src / "Cargo.toml").read_text()
        if 'name = "sc62015-core"' not in orig:
            return False, "unexpected Cargo.toml in sc62015/core"
        # fail closed on new mandatory dependencies
        deps = re.search(r"\[dependencies\](.*?)(\n\[|$)", orig, flags=re.S).group(1)
        for ln in deps.strip().splitlines():
            ln = ln.strip()
            if not ln or ln.startswith("#"):
                continue
            nm = ln.split("=")[0].strip()
            if nm not in ("serde", "serde_json", "thiserror", "zip", "retrobus-perfetto", "crossterm", "sha2"):
                return False, f"sc62015-core has a dependency the offline harness cannot provide: {nm}"
        rc, out, _ = run(["rsync", "-rlc", "--delete", "--exclude", "target", "--exclude", "Cargo.lock", "--exclude", "Cargo.toml", str(src) + "/", str(dst) + "/"])
        if rc != 0:
            return False, out
        write_if_changed(dst / "Cargo.toml", RUST_CARGO_TOML.format(zipshim=VERIF / "harness" / "rust" / "zipshim"))
        hdir = VERIF / "harness" / "rust" / "verif-harness"
        # content stamp: cargo only looks at mtimes, which may move backwards when a mutated tree is
        # replaced by the original; force a rebuild whenever the content differs from the last build
        h = hashlib.sha256()
        for f in sorted(list(dst.rglob("*.rs")) + list(dst.rglob("Cargo.toml")) + list(hdir.rglob("*.rs")) + list((VERIF / "harness" / "rust" / "zipshim").rglob("*.rs"))):
            if "target" in f.parts:
                continue
            h.update(str(f).encode())
            h.update(f.read_bytes())
        stamp = BUILD / "rust.stamp"
        if not (stamp.exists() and stamp.read_text() == h.hexdigest() and RUST_HARNESS.exists()):
            if stamp.exists():
                stamp.unlink()
            os.utime(dst / "src" / "lib.rs", None)
            os.utime(hdir / "src" / "main.rs", None)
        else:
            return True, "up to date"
        env = dict(os.environ, CARGO_NET_OFFLINE="true", CARGO_TARGET_DIR=str(BUILD / "target"))
        rc, out, dt = run(["cargo", "build", "--release", "--offline", "-j", str(NCPU)], cwd=hdir, env=env, timeout=1500)
        if rc == 0:
            stamp.write_text(h.hexdigest())
        return rc == 0, out


# --------------------------------------------------------------------------
# Running executors on a case file
# --------------------------------------------------------------------------

def run_lines(cmd: list[str], lines: list[str], env=None, timeout=1800, cwd=None) -> tuple[list[str], str]:
    inp = "\n".join(lines) + "\n"
    p = subprocess.run(cmd, input=inp, stdout=subprocess.PIPE, stderr=subprocess.PIPE, text=True, env=env, timeout=timeout, cwd=cwd)
    out = p.stdout.splitlines()
    err = p.stderr
    if p.returncode != 0:
        err += f"\n[exit {p.returncode}]"
    return out, err


def run_sharded(cmd: list[str], lines: list[str], shards: int = NCPU, env=None, timeout=3600, cwd=None) -> tuple[list[str], str]:
    """Split lines round-robin over processes; executors answer one line per case and each
    case line is independent (stateful streams must not use this)."""
    if len(lines) < 64 or shards <= 1:
        return run_lines(cmd, lines, env=env, timeout=timeout, cwd=cwd)
    chunks = [lines[i::shards] for i in range(shards)]
    procs = []
    for ch in chunks:
        p = subprocess.Popen(cmd, stdin=subprocess.PIPE, stdout=subprocess.PIPE, stderr=subprocess.PIPE, text=True, env=env, cwd=cwd)
        procs.append(p)
    import threading
    outs = [None] * shards
    errs = [""] * shards

    def work(i):
        o, e = procs[i].communicate("\n".join(chunks[i]) + "\n", timeout=timeout)
        outs[i] = o.splitlines()
        errs[i] = e + (f"\n[exit {procs[i].returncode}]" if procs[i].returncode else "")

    ths = [threading.Thread(target=work, args=(i,)) for i in range(shards)]
    [t.start() for t in ths]
    [t.join() for t in ths]
    res = [None] * len(lines)
    for i in range(shards):
        o = outs[i] or []
        for j, ln in enumerate(o):
            idx = i + j * shards
            if idx < len(res):
                res[idx] = ln
    res = [r if r is not None else "MISSING" for r in res]
    return res, "".join(errs)


# --------------------------------------------------------------------------
# Known findings
# --------------------------------------------------------------------------

def load_known() -> list[dict]:
    p = VERIF / "known_findings.json"
    if not p.exists():
        return []
    return json.loads(p.read_text()).get("entries", [])


# --------------------------------------------------------------------------
# Context / verdict / evidence
# --------------------------------------------------------------------------

class Ctx:
    def __init__(self, prop: str, tier: str, seed: int):
        self.prop = prop
        self.tier = tier
        self.seed = seed
        self.rng = random.Random(seed)
        self.t0 = time.time()
        self.obligations: list[str] = []          # names of obligations
        self.discharged: list[str] = []
        self.broken: list[str] = []               # obligations / correspondence streams that failed
        self.violations: list[dict] = []          # concrete failing inputs (not known)
        self.known_hits: dict[str, dict] = {}     # signature-json -> {entry, count, example}
        self.samples: list = []
        self.evaluations = 0
        self.nontrivial: set = set()
        self.traces = 0
        self.distribution: dict = {}
        self.assumptions: list[str] = []
        self.trusted: list[str] = [KERNEL_TB]
        self.axioms: dict = {}
        self.exhaustive = False
        self.rule = ""
        self.notes: list[str] = []
        self.checker_cmd = f"cd /verif/coq && make Props/{prop}.vo && coqc -Q . BE Props/{prop}.v  (Print Assumptions under every theorem)"
        self.known = [e for e in load_known() if e.get("property") == prop]
        self.extra: dict = {}

    # -- findings ---------------------------------------------------------
    def known_entry(self, signature) -> dict | None:
        for e in self.known:
            if e.get("status", "finding") == "finding" and e.get("signature") == signature:
                return e
        return None

    def report(self, signature, what: str, case) -> bool:
        """Record a concrete failing input. Returns True when it is a listed known finding."""
        sc = self.extra.setdefault("signature_counts", {})
        sc[json.dumps(signature)] = sc.get(json.dumps(signature), 0) + 1
        e = self.known_entry(signature)
        if e is not None:
            k = json.dumps(signature)
            h = self.known_hits.setdefault(k, {"entry": e, "count": 0, "example": case, "what": what})
            h["count"] += 1
            return True
        if len(self.violations) < 50:
            self.violations.append({"signature": signature, "what": what, "case": case})
        else:
            self.extra["violations_truncated"] = self.extra.get("violations_truncated", 0) + 1
        return False

    def broke(self, name: str, detail: str = ""):
        self.broken.append(name + ((": " + detail) if detail else ""))

    def count(self, key: str, n: int = 1):
        self.distribution[key] = self.distribution.get(key, 0) + n

    # -- coq ---------------------------------------------------------------
    def prove(self, extra_obligations: list[str] | None = None) -> bool:
        # regenerate the table files from the current source first: the theorems are re-checked against what the code says now
        for t in sorted((VERIF / "translators").glob("tr_*.py")):
            with Lock("translate"):
                ok, out = run_translator(t.stem, [])
            if not ok:
                self.broke(f"translator:{t.stem}", out[-300:].replace("\n", " | "))
        bad = scan_forbidden()
        if bad:
            self.broke("forbidden-construct-scan", "; ".join(bad[:5]))
        r = props_check(self.prop)
        self.extra["coq_log_tail"] = r["log"][-1500:] if not r["ok"] else ""
        names = []
        for src in (COQ / "Props" / f"{self.prop}.v", COQ / "Props" / f"{self.prop}_refuted.v"):
            if src.exists():
                src_nc = re.sub(r"\(\*.*?\*\)", "", src.read_text(), flags=re.S)
                names += re.findall(r"^\s*(?:Theorem|Corollary)\s+(\w+)", src_nc, flags=re.M)
        names = names + [n for n in (extra_obligations or []) if n.split(" ")[0] not in names]
        self.obligations += names
        if r["ok"]:
            self.discharged += names
            self.axioms = r["assumptions"]
            for t, ax in r["assumptions"].items():
                for a in ax:
                    if a not in ALLOWED_AXIOMS:
                        self.broke(f"axiom-not-allowed:{t}", a)
            allax = sorted({a for ax in r["assumptions"].values() for a in ax})
            self.trusted.append("axioms (Print Assumptions): " + (", ".join(allax) if allax else "none - every property theorem is closed under the global context"))
            return True
        self.broke(f"coq:{r['site']}", r["log"][-400:].replace("\n", " | "))
        return False

    # -- finish --------------------------------------------------------------
    def finish(self) -> int:
        ev_dir = VERIF / "evidence"
        rp_dir = ev_dir / "replays"
        rp_dir.mkdir(parents=True, exist_ok=True)
        lines = []
        for k, h in self.known_hits.items():
            e = h["entry"]
            lines.append(f"KNOWN-FINDING: property={self.prop} {e.get('description', h['what'])} [signature={json.dumps(e['signature'])} hits={h['count']}]")
        rc = 0
        nviol = 0
        if self.violations:
            rc = 1
            for i, v in enumerate(self.violations[:5]):
                path = rp_dir / f"{self.prop}-{i}.json"
                path.write_text(json.dumps({"property": self.prop, "seed": self.seed, "tier": self.tier, **v}, indent=1, default=str))
                lines.append(f"VIOLATION property={self.prop} replay={path}")
                nviol += 1
        elif self.broken:
            rc = 1
            path = rp_dir / f"{self.prop}-unproved.json"
            path.write_text(json.dumps({"property": self.prop, "seed": self.seed, "tier": self.tier, "no_longer_checks": self.broken, "coq_log_tail": self.extra.get("coq_log_tail", "")}, indent=1))
            lines.append(f"VIOLATION property={self.prop} replay={path} no-failing-input-found")
            nviol = 1
        wall = time.time() - self.t0
        cov = {
            "obligations": len(self.obligations),
            "discharged": len(self.discharged),
            "checker_cmd": self.checker_cmd,
            "trusted_base": self.trusted,
            "evaluations": self.evaluations,
            "distinct_nontrivial": len(self.nontrivial),
            "rule": self.rule,
            "samples": self.samples[:12] if self.samples else [{"obligations": self.obligations[:10]}],
            "traces_validated_against_impl": self.traces,
            "exhaustive": self.exhaustive,
            "obligation_names": self.obligations,
            "axioms_per_theorem": self.axioms,
            "input_distribution": self.distribution,
            "broken": self.broken,
            "known_findings_hit": [{"signature": json.loads(k), "hits": h["count"]} for k, h in self.known_hits.items()],
            "notes": self.notes,
        }
        cov.update({k: v for k, v in self.extra.items() if k != "coq_log_tail"})
        ev = {
            "property_id": self.prop,
            "tier": self.tier,
            "seed": self.seed,
            "level": "proof",
            "coverage": cov,
            "assumptions": self.assumptions,
            "wall_s": round(wall, 2),
            "violations": nviol,
        }
        (ev_dir / f"{self.prop}.json").write_text(json.dumps(ev, indent=1, default=str) + "\n")
        for ln in lines:
            print(ln, flush=True)
        print(f"[verif] {self.prop} tier={self.tier} seed={self.seed} obligations={len(self.discharged)}/{len(self.obligations)} evaluations={self.evaluations} nontrivial={len(self.nontrivial)} violations={nviol} known={len(self.known_hits)} wall={wall:.1f}s", flush=True)
        return rc


def diff_streams(ctx: Ctx, name: str, cases: list[str], outs: dict[str, list[str]], max_report=5) -> list[int]:
    """Compare the answer lines of several executors case by case. Returns indices that differ."""
    keys = list(outs)
    n = len(cases)
    bad = []
    for k in keys:
        if len(outs[k]) != n:
            ctx.broke(f"correspondence:{name}", f"executor {k} answered {len(outs[k])} lines for {n} cases")
            return list(range(min(3, n)))
    for i in range(n):
        first = outs[keys[0]][i]
        if any(outs[k][i] != first for k in keys[1:]):
            bad.append(i)
    return bad
