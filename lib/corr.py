"""Correspondence helper: run the same case lines through several executors and compare."""
from __future__ import annotations

import common
from common import PY, VERIF, MODEL_DRIVER, RUST_HARNESS

PYDRV = [PY, str(VERIF / "harness" / "py" / "driver.py")]


def build_all(ctx, need_rust=True, need_model=True):
    okm = okr = True
    if need_model:
        okm, outm = common.build_model_driver()
        if not okm:
            ctx.broke("model-driver-build", outm[-400:])
    if need_rust:
        okr, outr = common.build_rust_harness()
        if not okr:
            ctx.broke("rust-harness-build", outr[-600:])
    return okm, okr


def run_exec(kind: str, prefix: str, lines: list[str], sharded=True, timeout=3600):
    """kind: 'py' | 'rs' | 'model'"""
    cmd = {"py": PYDRV, "rs": [str(RUST_HARNESS)], "model": [str(MODEL_DRIVER)]}[kind]
    env = common.py_env() if kind == "py" else None
    full = [prefix + " " + l for l in lines]
    if sharded:
        return common.run_sharded(cmd, full, env=env, timeout=timeout)
    return common.run_lines(cmd, full, env=env, timeout=timeout)


def run_streams(ctx, lines: list[str], streams: dict, sharded=True) -> dict:
    """streams: name -> (kind, prefix). Returns name -> answers (padded to len(lines))."""
    outs = {}
    n = len(lines)
    for name, (kind, prefix) in streams.items():
        o, e = run_exec(kind, prefix, lines, sharded=sharded)
        if e.strip():
            ctx.notes.append(f"{name} stderr: {e.strip()[-300:]}")
        if len(o) != n:
            ctx.broke(f"correspondence:{name}", f"{len(o)} answers for {n} cases")
            o = (o + ["MISSING"] * n)[:n]
        outs[name] = o
    return outs


def compare(ctx, stream_name: str, lines, outs, pairs, max_report=12) -> int:
    """pairs: list of (impl, model). A disagreement breaks the tie (not by itself a violation)."""
    dis = 0
    for impl, mod in pairs:
        if impl not in outs or mod not in outs:
            continue
        for i, l in enumerate(lines):
            if outs[impl][i] != outs[mod][i]:
                dis += 1
                if dis <= max_report:
                    a, b = outs[impl][i], outs[mod][i]
                    # first differing observation
                    pa, pb = a.split(";"), b.split(";")
                    k = next((j for j in range(min(len(pa), len(pb))) if pa[j] != pb[j]), min(len(pa), len(pb)))
                    ctx.broke(f"correspondence:{stream_name}:{impl}-vs-{mod}",
                              f"case `{l[:300]}` differs at observation {k}: impl={pa[k] if k < len(pa) else None} model={pb[k] if k < len(pb) else None}")
    ctx.extra.setdefault("disagreements", {})[stream_name] = dis
    return dis
