"""Regenerates MANIFEST.json from the CHECKS table below (single source of truth)."""
import json
from pathlib import Path

VERIF = Path(__file__).resolve().parent.parent

CHECKS = {}

def check(pid, text, note, technique, design_ref):
    CHECKS[pid] = dict(text=text, note=note, technique=technique, design_ref=design_ref)

check("C13",
      "Coq theorems over an executable model of both timer implementations (while-loop as fuel recursion proved equal to its closed form): "
      "target strictly in the future after every tick, phase preserved, fires iff target reached, exactly one firing per boundary when ticked every cycle for any number of cycles, "
      "disabled/zero never fire, ISR bit set, Rust(u64 wrapping)=Python firing sequences for op lists of any length. "
      "Model tied to pce500/scheduler.py, PCE500Emulator._tick_timers and timer.rs TimerContext by a correspondence run on every invocation.",
      "Trusted: Coq kernel, extraction (ExtrOcamlBasic), the three harness drivers, generator quality. Modelled not verified: the two advance/tick functions and reset; guard c,p < 2^63.",
      "Coq proof (induction, lia/nia) + extracted-model correspondence vs Python and Rust",
      "DESIGN.md 5 C13")

check("C17",
      "All duplicated tables/constants are re-read from the working tree on every run by a fail-closed translator (Python tables by import, Rust const tables by tokenising the source) into Gen/Tables.v; "
      "each clause (256 opcode entries under the documented Python->Rust mapping, PRE tables, single-addressable sets, four register-size declarations, sub-register layout, IMEM offsets, vectors, address-space constants, view segments, snapshot blob layout) "
      "is a decidable statement closed by vm_compute in the Coq kernel: the finite space is compared completely, no sampling.",
      "Trusted: Coq kernel, translators/tr_tables.py, the mapping entry_to_rust transcribed from scripts/generate_llama_opcodes.py. Known findings: Rust OPCODES 0xBA-0xBE operand width drift; Python RESET intrinsic reads 0xFFFFA.",
      "Coq vm_compute over tables regenerated from source each run (exhaustive)",
      "DESIGN.md 5 C17")

check("C08",
      "Coq theorems over executable models of both register files: read-after-write with truncation to the architectural width, A/B|BA, IL/IH|I, FC/FZ|F overlap, IL clears IH, frame conditions, "
      "snapshot->fresh and 20-byte blob round trips, all for every well-formed state (shown reachable by induction over any write sequence); the Rust hash-map file (separate F/FC/FZ entries, defaults) "
      "is proved to refine the Python file through an abstraction function, hence identical read-backs for op sequences of any length (induction). Both models are tied to Registers/CPURegistersSnapshot and LlamaState/collect/apply/pack by a correspondence run each time.",
      "Trusted: Coq kernel, extraction, harness drivers, generator. Modelled not verified: the get/set/snapshot/blob functions of both sides (bit operations transcribed as mod/div arithmetic). Rust IMR pseudo-register excluded.",
      "Coq proof (refinement + induction, lia) + extracted-model correspondence vs Python and Rust",
      "DESIGN.md 5 C08")

check("C01",
      "Coq theorems over an executable model of the decoder (every operand class's reads and checks in source order, iter_decode/fusion with its one-instruction lookahead, the four consumers): "
      "length bounds (1..7, <= bytes supplied), the consumed bytes re-encode exactly, the result is independent of every byte beyond its length (all instructions except a lone prefix byte), "
      "info-accept implies text/llil/emulator-fetch accept with the same length and instruction for any memory continuation, and no consumer can crash - for all byte strings, no bound. "
      "Table-dependent side conditions are vm_compute facts over the opcode table regenerated from the source each run. The model is tied to the real decoder, arch callbacks and Emulator.decode_instruction by a correspondence run over the structural enumeration.",
      "Trusted: Coq kernel, translator tr_tables.py, extraction, harness/py/dec_cmd.py. Modelled not verified: opcodes.py decode/encode/fusion, arch.py callbacks, Emulator.decode_instruction. Determinism/history independence is by construction in the model and established for the code by in-process re-decoding. Known finding: lone prefix byte.",
      "Coq proof (reader lemmas per operand shape, lifted through lookahead/fusion) + extracted-model correspondence",
      "DESIGN.md 5 C01")
check("C02",
      "Coq theorems: encode (decode bs) = the consumed bytes (prefix byte and ignored bits included, because the model's operand records retain exactly the raw bytes the code retains), decode (encode i ++ t) = i for every tail t, "
      "and the text callback's round-trip guard never rejects a decoded instruction - for all byte strings. Tied to the code by correspondence over the structural enumeration plus every don't-care bit pattern, and by a second-decode comparison of text, length and lifted IL on the implementation.",
      "Trusted: as C01. IL equality on the implementation is compared on the MockLLIL dump with labels renamed by order of appearance.",
      "Coq proof + extracted-model correspondence + implementation round-trip oracle",
      "DESIGN.md 5 C02")

check("C15",
      "Coq theorems over an executable model of the HD61202 pair (chip-select decoding, instruction register, data write/read with the buffered-read column, status, both controllers, both display stitchings): "
      "state invariant for every reachable state (induction over any access sequence), the command-protocol laws (exactly one VRAM cell changes per data write, counter arithmetic, status bits, frame between chips), "
      "Python and Rust controllers observationally equal for access sequences of any length whose writes go to write addresses, and the pixel map: 7680 visible pixels enumerated completely in the kernel (left inverse), "
      "each pixel one VRAM bit, a cell's pixels lie in one display column. Tied to HD61202Controller and LcdController by a correspondence run.",
      "Trusted: Coq kernel, extraction, harness drivers. Modelled not verified: hd61202.py/pipeline.py/controller_wrapper.py and lcd.rs chip+controller+copy_region. Known findings: Rust executes writes sent to READ addresses; display buffers differ (on/off, start line). A CS=BOTH data write changes one cell in each chip (theorem is per chip).",
      "Coq proof (induction + vm_compute over the complete pixel map) + extracted-model correspondence vs Python and Rust",
      "DESIGN.md 5 C15")

check("C14",
      "Coq theorems over an executable model of both keyboard matrices (per-key debounce/repeat step of each implementation, scan over all keys, KIL computation, press/release/inject entry points, register-facing reads, drop-oldest queue, KEYI gate): "
      "KIL shows a row bit iff a debounced (or, on register reads, about-to-debounce held) key of that row is on a strobed column - for every state; a key held on a strobed column is debounced after press_threshold ticks and stays so (induction on ticks, both implementations); "
      "after release it disappears within release_threshold ticks; every scan event is consistent with the debounced flag and, for the Python entry points, any history of a key yields (Press Repeat* Release)*; "
      "the queue equals the newest cap entries offered (bounded, drops only the oldest) for histories of any length and every reachable state; KEYI is raised only when latched, pending and enabled. Key scan order, capacities and defaults are regenerated from the sources each run.",
      "Trusted: Coq kernel, translator tr_kbd.py, extraction, harness drivers. Modelled not verified: keyboard_matrix.py, keyboard_handler.py register layer, keyboard.rs. The ring buffers are modelled as the list fifo_snapshot returns. Known findings: Rust release emits no event; Rust re-press resets debounce.",
      "Coq proof (induction over ticks / op lists) + extracted-model correspondence vs Python and Rust",
      "DESIGN.md 5 C14")

check("C18",
      "Coq theorems over an executable model of AsyncDriver (scripted tasks; the thread-local wake/event channel explicit; run_for with its while loop as fuel recursion, proved total): "
      "one scheduling round moves the clock exactly to the earliest wake cycle, never backwards, and resumes that cycle's tasks in insertion order; a sleep of n at cycle c wakes at c+n; "
      "for every budget list the driver state equals some number of canonical rounds (budget independence), so resumption logs of any two partitions are prefix-comparable; "
      "events are returned exactly once and in emission order - all by induction over budgets/rounds, no bound. Tied to the real AsyncDriver by a correspondence run; the CPU-through-scheduler clause is checked on the real AsyncRuntimeRunner against CoreRuntime::step.",
      "Trusted: Coq kernel, extraction, verif-harness sched_cmd.rs. Modelled not verified: async_driver.rs. Partial: async_cpu/async_runtime equivalence is a correspondence result on generated programs (the CPU step is not modelled here); async_devices.rs and the CLI binary are outside.",
      "Coq proof (simulation by canonical rounds, induction) + extracted-model correspondence vs the Rust AsyncDriver",
      "DESIGN.md 5 C18")

check("C11",
      "Both buses are modelled as configuration-determined address-to-cell maps (read target, write target) over a store of cells; the maps transcribe PCE500Memory/MemoryBus (overlay order, handler/data/read-only rules, card slot, 24-bit mask, internal block kept at the top of the external array) and MemoryImage (canonical address, internal index, overlays, mirror, read-only ranges, and the multi-byte paths exactly as written). "
      "Coq theorems: for ANY such maps read-after-write, frame, swallowed writes, alias agreement, and - by induction over arbitrary write sequences - every cell holds the last value written to it; 24-bit wrap and idempotent mirror fold; plain RAM reads and writes target the same canonical cell; no address ever targets a cell of a read-only overlay (ROM immutable), read-only ranges swallow; Rust internal and external cells are disjoint; little-endian composition for Python (all addresses) and Rust inside the internal block. Tied to both implementations by correspondence over random configurations.",
      "Trusted: Coq kernel, extraction, harness drivers. Modelled not verified: pce500/memory.py + memory_bus.py, memory.rs load/store. Known findings: Python internal block aliases the top of external memory; Rust multi-byte accesses crossing the internal boundary or a mirror block edge are not byte compositions (refuted theorems in Props/C11_refuted.v). Keyboard/LCD overlays and the CPU-facing RuntimeBus are exercised elsewhere.",
      "Coq proof (generic bus laws + induction over write sequences) + extracted-model correspondence vs Python and Rust",
      "DESIGN.md 5 C11")

check("C04",
      "Deep model: the LLIL the Python lifter emits (Model/Lift.v, one clause per Instruction subclass) and the evaluator the emulator runs it with (Model/IL.v: eval_llil handlers, flag post-processing, label/goto loop, intrinsics), plus the documented effect of every instruction written independently from the README tables (Model/Spec.v). "
      "Coq theorems: ADD/SUB at any width and all operands give the documented result, carry/borrow and zero (lia); every 8-bit operation (ADD SUB ADC SBC AND OR XOR PMDF INC DEC ROR ROL SHL SHR SWAP) and the BCD digit emulation are evaluated inside Coq on all 2^8 x 2^8 x carry-in x zero-in inputs and equal the documented functions, and on valid BCD the documented byte function is decimal add/subtract with carry; "
      "instruction level, full strength (every register, flag, memory byte, low-power flag; any address, any state): ADD/SUB/ADC/SBC/AND/OR/XOR/CMP/TEST/MV A,n, ROR/ROL/SHR/SHL/SWAP A, INC/DEC A|BA|I and PUSHU/POPU A|BA|I|X|Y and PUSHU/POPU IL (1-, 2- and 3-byte user-stack pushes and pops) execute to exactly the documented state; so do the internal-memory forms MV r,(n) (r = A, BA, I, X, Y, U, S; widths 1-3), MV (n),r and MV/MVW (n),imm the two-operand transfers MV/MVW/MVP (m),(n) (destination through the prefix's first mode, source through its second), the byte exchange EX (m),(n) (guarded: the first operand is not the BP/PX/PY cell), the ALU forms ADD/SUB/ADC/SBC/AND/OR/XOR A,(n), and the read-modify-write forms ADD/SUB/ADC/SBC/AND/OR/XOR (n),imm | (n),A and INC/DEC (n), with no prefix and with each of the 15 prefixes (cell named by the prefix's mode, BP/PX/PY from the state; byte memory), and the register-indirect forms MV A,[r] / [r++] / [--r] / [r+n] / [r-n] and MV [..],A for r = X, Y, U, S (scratch registers outside the comparison); and counted instructions for EVERY count: MVL (m),(n) and MVLD (m),(n) x 16 prefix choices, I = 0..65535, by induction over the iterations of the lifted label/if/goto loop - the loop terminates within the emulator's fuel and equals the documented wrapping block move. "
      "Tie, every run: IL text of the model lifter vs the Python lifter on every prefix x opcode x mode-byte structure; model evaluator vs Emulator.execute_instruction (registers, written memory, access logs, random TEMPs); extracted documented semantics vs the Python emulator on the same cases and on op A,n for all A x n x carry (2^17 per operation in thorough).",
      "Trusted: Coq kernel (vm_compute for the finite sweeps), extraction, harness drivers, README transcription in Spec.v. Modelled not verified: instructions.py/opcodes.py lifts, eval_llil.py, emulator loop, intrinsics.py. Partial: instruction-level theorems cover 23 register/immediate/stack instructions, 13 internal-memory load/store, 7 internal-memory-source and 16 internal-memory-destination ALU opcodes x 16 prefix choices, MVL/MVLD (m),(n) for every count and 40 register-indirect forms; the other memory forms, counted and stack instructions are decided by the executable documented semantics compared with the implementation on every run (stack frames of CALL/RET/IR/RETI are proved under C05/C12); runs of more than 257 iterations are judged on the implementation by the documented invariants only. Known findings: EXL, decimal shifts, no wrap of counted internal runs, RET page, MV [r3++],r3, BP/PX/PY aliasing; four defects fixed (ADC/SBC carry, JP (n), MVL and EX prefix modes).",
      "Coq proof (lia + exhaustive in-kernel evaluation lifted by forallb_forall + symbolic execution of lifted IL) + IL-text and execution correspondence vs the Python lifter/emulator + executable documented-semantics oracle",
      "DESIGN.md 5 C04")

check("C03",
      "Rendered operands are modelled as (logical operand, addressing mode) pairs exactly as Instruction.render() pairs them (Model/Static.v render_ops, tied to the token text on every run), their meaning by place_of/op_read/op_write (README addressing rules), the IL by Model/Lift.v + Model/IL.v. "
      "Coq theorems: for each of the six internal addressing modes, every n and every memory the address expression evaluates to 0x100000 + (base+n) mod 256 and reads exactly the addressing registers the mode names; reading an internal operand of width 1-3 yields the little-endian content of the denoted cell and reads exactly addressing registers + the w bytes, writes nothing, changes no register; "
      "writing one reads only the addressing registers, writes exactly the w denoted bytes with the value's bytes and leaves every other byte and register alone; the mode render() shows for an operand is the mode the default lift uses (both Instruction._addressing_modes). Counted runs for every count: MVL/MVLD (m),(n) x 16 prefix choices, I = 0..65535, read as data exactly the addressing registers and the I source bytes and write exactly the I destination bytes of the documented access set, in run order (loop induction carrying the access logs). "
      "Every run: documented access sets (den_access, extracted) vs the bytes the Python emulator reads/writes through the Memory callbacks, for all encodings x random BP/PX/PY/pointers/I.",
      "Trusted: Coq kernel, extraction, static_cmd.py token parser, exec_cmd.py access recorder. Modelled not verified: render methods, lifts, evaluator. Partial: operand-level theorems cover internal-memory operands (the BP/PX/PY modes the property singles out); pointer operands, counted runs and the instruction-specific lifts (MVL, multi-byte, CMP, TEST, EX) are decided by the access-set comparison on the implementation. Known findings: EXL single cell, counted runs leaving internal memory, BP/PX/PY aliasing; three render/lift disagreements fixed (EX, MVL, JP (n) prefix modes).",
      "Coq proof (symbolic evaluation of operand IL, lia) + render-text, access-log and documented-access-set correspondence vs the Python lifter/emulator",
      "DESIGN.md 5 C03")

check("C05",
      "analyze() is modelled in Model/Static.v (tied to SC62015.get_instruction_info: length + branch list on every encoding), execution by Model/Lift.v + Model/IL.v. "
      "Coq theorems, for every displacement/target, address and state: all ten relative jumps (JR, JRZ/NZ/C/NC, +n/-n) and the five 16-bit absolute jumps report fall-through = address+length and taken = the computed target, and executing the lifted IL ends with PC equal to the taken target exactly when the flag condition holds and to the fall-through otherwise, every other register, flag and memory byte untouched (run of the label/if IL proved by case analysis on the flag, fuel made explicit). Far and indirect jumps (Proofs/BranchProofs2.v): JPF lmn reports and reaches the 20-bit immediate; JP r3 reports an unresolved branch and loads PC from the selected register (every operand byte; short registers keep the instruction's page); JP (n) x 16 prefix choices reports an unresolved branch and loads PC with the low 20 bits of the denoted 3-byte cell. Calls and returns (Proofs/CallProofs.v): CALLF lmn / CALL mn leave exactly the return address (20 resp. 16 bits, little-endian) below the old S, move S, jump to the target (page of the instruction for CALL) and touch nothing else; from ANY later well-formed state that has S back at the frame and the frame bytes intact (a stack-neutral callee), RETF resumes at the instruction after the CALLF with the caller's S - unconditionally - and RET does so under the guard that it executes in the 64K page of the return address; the unguarded near pair is refuted with a witness (Props/C05_refuted.v); IR pushes next-PC, C|Z<<1 and IMR, clears only IMR.7 and jumps through the vector, and IR ... RETI restores PC, S, carry, zero and IMR from any state with the frame intact. "
      "Every run: reported targets vs the PC the Python emulator reaches for every valid encoding under the actual flags, 'no branch => address+length', 'elsewhere => a branch is reported', and CALL..RET / CALLF..RETF / IR..RETI pairs around stack-neutral bodies at random and page-edge addresses (resume address, S, F, IMR).",
      "Trusted: Coq kernel, extraction, harness drivers. Modelled not verified: analyze methods, lifts, evaluator. Partial: theorems cover immediate jumps and the CALL/RET, CALLF/RETF, IR/RETI pairs (addresses below the top of the address space, stack below the vector); register/memory-indirect jumps and the completeness clause ('continues elsewhere => a branch is reported') are decided on the implementation against the model-tied metadata. Known finding: near CALL whose return address is in the next 64K page. Fixed: JP (n) reported address n as target; JP r3/(n) reported no branch.",
      "Coq proof (symbolic execution of conditional-jump and call/return IL, lia) + branch-metadata and execution correspondence vs get_instruction_info / the Python emulator",
      "DESIGN.md 5 C05")

check("C06",
      "The Python core is the Coq model of C04 (lifter + evaluator, tied to the code by IL text and execution on every run); the Rust evaluator (5000 lines) is not modelled. "
      "Coq theorem: for ANY second step function, agreement on every single state implies that runs of any length agree in final state and in the whole sequence of program counters (lockstep, same bytes consumed), by induction on the number of steps; runs compose (N+M = N then M). "
      "Single-step agreement itself is decided by differential execution: LlamaExecutor::execute over a flat LlamaBus vs Emulator.execute_instruction vs the model, every prefix x opcode x mode-byte structure from random and boundary states (PC, registers, C/Z, low-power state, every written byte), plus generated programs run N steps on both cores.",
      "Trusted: Coq kernel, extraction, verif-harness exec_cmd.rs, exec_cmd.py. Modelled not verified: the Python core (as C04). NOT modelled: eval.rs - the single-step clause is a correspondence result over the sampled states, so the level is partial. 40 known divergence families are listed in known_findings.json (absolute address not masked to 20 bits, F upper bits, register-pair arithmetic, EXL/MVL counters, BCD runs, RESET vector, ...); four Python-side causes fixed.",
      "Coq proof (lockstep from single-step agreement, induction) + three-way differential execution (Coq model of the Python core, Python emulator, Rust core)",
      "DESIGN.md 5 C06")

check("C07",
      "Scratch registers are explicit in the model (TEMP0-13 in the register file of Model/IL.v). Model/TempSafe.v defines a definite-assignment check of an IL program (annotation per program point, validated, not trusted). "
      "Coq theorems: soundness - an IL program that passes the check, run from two states that agree on all architectural state but hold arbitrary scratch registers, ends in architecturally equal states (any fuel, loops and branches included; induction over the run with an agreement invariant per program point); "
      "lifted to one instruction as the emulator executes it (PC update, WAIT fast path, state-dependent fuel); every lift writes a temp before reading it - for no prefix and each of the 15 prefixes, every opcode and every second byte, the decoded instruction's IL passes the check (16 x 65536 decodes evaluated in the kernel); runs split: steps (N+M) = steps N then steps M. "
      "Every run, on both cores: each encoding executed with random vs zero scratch registers; programs run N+M vs N, architectural state carried into a fresh core, then M (drops call bookkeeping, caches, statics); the same cases re-run later in the same process; tsafe on every generated encoding.",
      "Trusted: Coq kernel (vm_compute), extraction, harness drivers. Modelled not verified: Python core as C04. Not modelled: Rust call_page_stack/call_depth, PERF_* statics, cached decoder - covered by the split-run and repeat comparisons on the implementation only. The structural sweep fixes operand bytes 3.. to zero; other immediates are validated per run by the extracted checker.",
      "Coq proof (dataflow soundness by induction over runs + exhaustive in-kernel structural sweep) + differential execution with perturbed hidden state on Python and Rust",
      "DESIGN.md 5 C07")

check("C09",
      "The assembler's grammar, transformer and template matching are not modelled; they are exercised on the implementation for every accepted encoding structure: render -> source text (numbers as 0x literals, named registers by name) -> Assembler.assemble at the same address -> decode, comparing text, lifted IL, second-round stability and byte consumption, plus single-operand templates written in each of the six internal addressing modes. "
      "Coq theorems (over PRE_TABLE, REVERSE_PRE_TABLE, SINGLE_OPERAND_PRE_LOOKUP regenerated from the source each run, decided in the kernel over the whole finite tables): every mode pair the disassembler can show is assembled with the very prefix it was decoded from; every prefix the assembler can select decodes to the pair written; for a lone operand in a first-slot mode the selected prefix has that mode in the slot the decoder applies; the second-slot modes on a lone operand are refuted with a witness.",
      "Trusted: Coq kernel, translator tr_tables.py, harness asm_cmd.py (token text to source). NOT modelled: asm.lark, asm.py, _build_instruction template matching and operand encoding - decided by the round trip on the implementation, so the level is partial. Seven root-cause families of round-trip failure are known findings (direct (n) assembled without prefix, (BP+PX)/(BP+PY) operand byte dropped, pointer-cell modes, 16/24-bit forms without prefix, rejected (BP+PX),(BP+PY) pair, register-pair opcode ambiguity, second-slot modes); one fixed ((BP+m),(BP+n) rejected).",
      "Coq vm_compute over prefix tables regenerated from source (exhaustive) + disassemble/assemble/disassemble round trip on every accepted encoding structure",
      "DESIGN.md 5 C09")

check("C10",
      "Executable model of the two passes of sc_asm.py over statement sizes (Model/AsmLayout.v: section pointers from SECTION_BASE_ADDRESSES, new-section rule, literal/symbolic .ORG, label definition, bss follows data, bss emits nothing, unknown section / duplicate label / undefined symbol errors). "
      "Coq theorems, for programs of any length over the built-in sections with literal .ORGs: every line is seen at the same address by pass one (labels, sizes) and pass two (byte placement) outside .bss (lockstep invariant on the two pointer maps, induction over the program); a label takes the pass-one address of its line; the symbolic-.ORG case is refuted with a witness. "
      "Every run: generated programs (labels with forward/backward references, sections, .ORG, instructions with symbolic operands, defb/defw/defl/defs/defm) assembled by Assembler.assemble and laid out by the extracted model: symbol tables, placements, total image size, each statement's bytes equal to assembling it alone at its address with symbols replaced by values, near JP/CALL to another page rejected, and call histories (same object reused, interleaved programs) against fresh objects.",
      "Trusted: Coq kernel, extraction, harness asm_cmd.py. Modelled not verified: _first_pass/_second_pass/_apply_location. Not modelled: parser, per-instruction encoding (_build_instruction/_encode_statement; compared statement-by-statement on the implementation), bincopy segment handling. Known finding: symbolic .ORG counts as 0 in pass one.",
      "Coq proof (lockstep invariant, induction over programs) + extracted-model correspondence vs Assembler.assemble on generated programs and call histories",
      "DESIGN.md 5 C10")

check("C12",
      "Model/Irq.v: the documented delivery gate (master enable, mask bit, status bit), the gate PCE500Emulator.step actually uses, and the five-byte frame both implementations push (PC, F, IMR below S, master enable cleared, PC := vector). "
      "Coq theorems: the gate needs all three ingredients; the frame lays out exactly IMR, F, PC0..2 below the old S, clears only IMR.7 and touches no other byte; and delivering an interrupt followed by the IL the lifter emits for RETI (run by the model evaluator, symbolic state) restores PC, S, F with both flags, IMR and every architectural register, memory unchanged except the five frame bytes - for every state with a well-formed register file, byte memory and five bytes of stack (F round trip decided over all 256 values in the kernel); the Python gate is refuted with a witness. "
      "Every run, on PCE500Emulator.step and CoreRuntime::step: generated main programs/handlers x 13 initial masks x both timers at periods 2-9 x ON-key presses x matrix-key presses and releases; a trace oracle evaluates the property on each core (gate from the pushed IMR, exact frame, master enable cleared, vector, no re-entry, RETI restores, halted executes nothing and wakes on status, fresh enabled requests taken within 4 steps) and every observed frame is compared with the extracted model frame.",
      "Trusted: Coq kernel, extraction, harness irq_cmd.py / irq_cmd.rs, the trace oracle in checks/c12.py. Modelled and proved: frame + RETI inverse over the IL model. NOT modelled: the controllers' bookkeeping (pending, latched, armed-from-ISR flags) and timer/keyboard event generation in both implementations - decided by the trace oracle, so the level is partial; matrix keys are pressed and released in 30% of the scenarios (all columns strobed first), besides the ON key and both timers. Scenario families also cover a non-zero BP, LCD traffic, a request masked inside a handler and unmasked later, and pairs of runs that differ only in the time spent powered off. Known findings: Python takes KEY/ON-key interrupts with the master enable clear; Python has no powered-off state (timers tick while OFF).",
      "Coq proof (symbolic execution of RETI over the delivery frame, lia; in-kernel sweep for F) + trace-oracle evaluation on Python and Rust machine runs + extracted frame correspondence",
      "DESIGN.md 5 C12")

check("C16",
      "Model/Snap.v: what PCE500Emulator.save_snapshot keeps (register blob of C08, RAM, internal memory, display/keyboard payloads kept abstract, timer and interrupt bookkeeping) and what load_snapshot does to a freshly constructed machine (including the USR bits it forces). "
      "Coq theorems: for every running machine state whose USR bits are in the firmware-visible form, load(save(m)) into any fresh machine gives back m exactly, hence - by induction over any step function and any input list - the same future step for step; "
      "two refuted witnesses (a halted machine restores as running; the key-interrupt latch is dropped). "
      "Every run, on PCE500Emulator and CoreRuntime: the C12 machine scenarios (45% of them with all key columns strobed and matrix keys pressed/released at random steps) with every step index (sampled in quick) as snapshot point, bundle written to disk and loaded into a fresh machine, original and restored continued with the same inputs and compared step for step plus a digest of RAM/internal memory/display; "
      "and cross loading both ways (Rust bundle into the Python loader, Python bundle into the Rust loader), the loader must show the saver's state.",
      "Trusted: Coq kernel, harness irq_cmd.py / irq_cmd.rs (temporary bundles under .build/tmp; Python members re-stored uncompressed for the Rust zip shim). Modelled and proved: the Python save/load field bookkeeping. NOT modelled: the Rust bundle, keyboard/LCD snapshot internals, the step function (a parameter of the theorem) - decided by the continuation comparison, so the level is partial. "
      "Known findings: Python bundles neither write nor read the halted/off state (and drop the key latch); Rust bundles drop the ON-key level and clear the key-interrupt latch on restore; the keyboard metadata schema differs between the implementations (matrix state lost on cross loading, both directions). Fixed: Python rejected every Rust bundle (TEMP<n> keys).",
      "Coq proof (record equality through the C08 blob round trip, induction over inputs; refutations by vm_compute) + snapshot-at-every-step continuation comparison on Python and Rust + cross-implementation loading",
      "DESIGN.md 5 C16")

NOT_APPLICABLE = {}

def build():
    props = [json.loads(l)["id"] for l in (VERIF / "properties.jsonl").read_text().splitlines() if l.strip()]
    checks = []
    for pid in props:
        if pid not in CHECKS:
            continue
        c = CHECKS[pid]
        checks.append({
            "property_id": pid,
            "quick_cmd": f"bin/check {pid} --tier quick",
            "thorough_cmd": f"bin/check {pid} --tier thorough",
            "evidence_file": f"/verif/evidence/{pid}.json",
            "replay_cmd_template": f"bin/check {pid} --replay {{path}}",
            "engine": "coq-model+correspondence",
            "level_claimed": {"category": "proof", "text": c["text"], "design_ref": c["design_ref"]},
            "level_note": c["note"],
            "technique": c["technique"],
        })
    na = []
    for pid in props:
        if pid not in CHECKS:
            na.append({"property_id": pid, "reason": NOT_APPLICABLE.get(pid, "not yet claimed: model and theorems for this property are still being built (see DESIGN.md section 7); the technique applies")})
    m = {
        "version": 1,
        "setup_cmd": "bin/setup",
        "hooks": {
            "guard": "BINJA_ESR_VERIF",
            "enable": "no source hooks are needed: every observation goes through public API (harness sets BINJA_ESR_VERIF=1 for its own processes only)",
            "baseline_off_cmd": "cd /repo && /venv/bin/python -m pytest -ra -q -p no:cacheprovider --timeout=900 --continue-on-collection-errors",
            "source_commits": [],
            "add_only": True,
        },
        "engines": [{
            "name": "coq-model+correspondence",
            "path": "/verif/coq",
            "serves_properties": [c["property_id"] for c in checks],
            "kind_free_text": "Coq 8.16.1 development (models, proofs, one Props/Cnn.v per property) + translators regenerating Gen/*.v from /repo + OCaml-extracted model driver compared with the Python implementation and the Rust core (built from a scratch copy) on every run",
        }],
        "checks": checks,
        "not_applicable": na,
        "notes": "bin/check <id> [--tier quick|thorough] [--replay file]; VERIF_SEED/VERIF_TIER honoured; known findings in /verif/known_findings.json",
    }
    (VERIF / "MANIFEST.json").write_text(json.dumps(m, indent=1) + "\n")

if __name__ == "__main__":
    build()
