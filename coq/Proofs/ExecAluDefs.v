(* Proofs/ExecAluDefs.v -- small shared definitions of the instruction-level ALU proofs (kept apart so that the files that
   use them compile in parallel). *)
From Coq Require Import ZArith NArith List Bool Lia.
From BE Require Import Model.TableTypes Gen.Tables Model.Regs Model.Decode Model.IL Model.Lift Model.Static Model.Spec
  Model.Emu Proofs.AluProofs Proofs.ExecProofs.
Import ListNotations.
Open Scope Z_scope.

Definition flags_of (oc oz : option Z) (s : mstate) : mstate :=
  let s2 := match oc with Some c => set_flag s true c | None => s end in
  match oz with Some z => set_flag s2 false z | None => s2 end.

(* value-level facts: the logic nodes return the bit-wise result unmasked, report C = 0 (ignored by the {Z} flag spec) *)
Lemma il_and_documented a b : eval_binop B_AND 1 a b = Some (r_val (alu_logic Z.land a b), Some 0, r_z (alu_logic Z.land a b)).
Proof. reflexivity. Qed.
Lemma il_or_documented a b : eval_binop B_OR 1 a b = Some (r_val (alu_logic Z.lor a b), Some 0, r_z (alu_logic Z.lor a b)).
Proof. reflexivity. Qed.
Lemma il_xor_documented a b : eval_binop B_XOR 1 a b = Some (r_val (alu_logic Z.lxor a b), Some 0, r_z (alu_logic Z.lxor a b)).
Proof. reflexivity. Qed.
