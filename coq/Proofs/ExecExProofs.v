(* Proofs/ExecExProofs.v -- EX (m),(n): byte exchange between two internal-memory operands, no prefix and each of the 15
   prefixes.  The first operand goes through the prefix's first addressing mode, the second through its second mode, for the
   reads AND for the write-backs.  Hypothesis beyond byte memory and a full scratch-register file: the first operand is not
   one of the BP/PX/PY cells themselves (the lifted IL re-reads them for the second write; that aliasing corner is a recorded
   finding). *)
From Coq Require Import ZArith NArith List Bool Lia.
From BE Require Import Model.TableTypes Gen.Tables Model.Regs Model.Decode Model.IL Model.Lift Model.Static Model.Spec
  Model.Emu Proofs.AluProofs Proofs.ExecProofs Proofs.AccessProofs Proofs.ExecMemProofs Proofs.ExecPtrProofs.
Import ListNotations.
Open Scope Z_scope.

Lemma run_step prog pc s st s1 f :
  nth_error prog pc = Some st -> exec_stmt st s = Some (s1, ONext) -> run (S f) prog pc s = run f prog (S pc) s1.
Proof. intros H1 H2. cbn [run]. rewrite H1, H2. reflexivity. Qed.

Lemma st1_mem s a v x : 0 <= v < 256 -> mem (store 1 s a v) x = if x =? a then v else mem s x.
Proof.
  intros Hv. unfold store. change (N.to_nat 1) with 1%nat. cbn [wr_bytes wr1 mem]. unfold band.
  change 255 with (Z.ones 8). rewrite !Z.land_ones by lia. change (2 ^ 8) with 256. rewrite !(Z.mod_small v 256) by lia. reflexivity.
Qed.

(* the cell an internal operand names depends on memory only through the BP, PX, PY cells *)
Lemma imem_cell_ext s t m n :
  mem s (imem py_imem_BP) = mem t (imem py_imem_BP) -> mem s (imem py_imem_PX) = mem t (imem py_imem_PX) ->
  mem s (imem py_imem_PY) = mem t (imem py_imem_PY) -> imem_cell s m n = imem_cell t m n.
Proof. intros H1 H2 H3. destruct m; cbn [imem_cell]; unfold imem_reg, memb; rewrite ?H1, ?H2, ?H3; reflexivity. Qed.

Lemma rd_imem_ext s t w n m : (forall z, mem s z = mem t z) ->
  rd_place s (place_of s (LIMem w n) m) = rd_place t (place_of t (LIMem w n) m).
Proof.
  intros H. cbn [place_of]. rewrite (imem_cell_ext s t m n) by apply H.
  destruct (imem_cell t m n) as [a rs]. cbn [rd_place]. unfold le_val.
  induction (range a (N.to_nat w)) as [|h l IH]; [reflexivity|]. cbn [fold_right]. rewrite IH. unfold memb. rewrite H. reflexivity.
Qed.

Lemma place_of_imem s w n m : place_of s (LIMem w n) m = PlMem (fst (imem_cell s m n)) w (snd (imem_cell s m n)) None.
Proof. cbn [place_of]. destruct (imem_cell s m n); reflexivity. Qed.

Definition TWx (s : mstate) : Prop := length (y_t (rg s)) = NTEMP.

Lemma getr_set_T6 s v : TWx s -> 0 <= v < 16777216 -> getr (setr s (gTEMP 6) v) (gTEMP 6) = v.
Proof.
  intros HL Hv. unfold getr. rewrite setr_rg. rewrite temp_get_set by (try exact HL; unfold NTEMP; lia).
  rewrite (Z.mod_small v 4294967296) by lia. unfold p24. rewrite N.mod_small by (apply N2Z.inj_lt; rewrite Z2N.id by lia; lia).
  apply Z2N.id. lia.
Qed.

Definition ex_prog (dm sm : imode) (n1 n2 : N) : list stmt :=
  [SSetReg 1 (gTEMP 6) (ELoad 1 (imem_addr dm n1));
   SStore 1 (imem_addr dm n1) (ELoad 1 (imem_addr sm n2));
   SStore 1 (imem_addr sm n2) (EReg 1 (gTEMP 6))].

Lemma ex_final s x y dm sm n1 n2 j : mem_wf s -> TWx s -> (n1 < 256)%N -> (n2 < 256)%N ->
  fst (imem_cell s dm n1) <> imem py_imem_BP -> fst (imem_cell s dm n1) <> imem py_imem_PX -> fst (imem_cell s dm n1) <> imem py_imem_PY ->
  exists s', run (4 + j) (ex_prog dm sm n1 n2) 0 (setr (setr s gPC x) gPC y) = RDone s' /\
    arch_eqT s' (wr_place (wr_place (setr s gPC y) (place_of s (LIMem 1 n1) dm) (rd_place s (place_of s (LIMem 1 n2) sm)))
                          (place_of s (LIMem 1 n2) sm) (rd_place s (place_of s (LIMem 1 n1) dm))).
Proof.
  intros Hwf HT Hn1 Hn2 NB NX NY.
  set (s1 := setr (setr s gPC x) gPC y).
  assert (W1 : mem_wf s1) by (intros z; apply Hwf).
  assert (M1 : forall z, mem s1 z = mem s z) by reflexivity.
  set (va := rd_place s (place_of s (LIMem 1 n1) dm)). set (vb := rd_place s (place_of s (LIMem 1 n2) sm)).
  assert (Hva : 0 <= va < 256).
  { unfold va. cbn [place_of]. destruct (imem_cell s dm n1) as [a0 r0]. cbn [rd_place]. change (N.to_nat 1) with 1%nat. rewrite le_val_1. apply Hwf. }
  assert (Hvb : 0 <= vb < 256).
  { unfold vb. cbn [place_of]. destruct (imem_cell s sm n2) as [a0 r0]. cbn [rd_place]. change (N.to_nat 1) with 1%nat. rewrite le_val_1. apply Hwf. }
  (* statement 1 *)
  destruct (imem_operand_read s1 dm n1 1%N W1 Hn1 ltac:(auto)) as (sa & Ev1 & Ro1). cbv zeta in Ev1.
  rewrite (rd_imem_ext s1 s 1 n1 dm M1) in Ev1. fold va in Ev1.
  destruct Ro1 as (A1 & A2 & A3 & _ & _).
  set (sA := setr sa (gTEMP 6) va).
  assert (MA : forall z, mem sA z = mem s z) by (intros z; change (mem sA z) with (mem sa z); rewrite A2; reflexivity).
  assert (WA : mem_wf sA) by (intros z; rewrite MA; apply Hwf).
  assert (TA : TWx sa).
  { unfold TWx in *. rewrite A1. unfold s1. rewrite !setr_rg. destruct (rg s) as [ba i xx yy u sp pc f t]. cbn [py_set Regs.y_t] in *. exact HT. }
  assert (GA : getr sA (gTEMP 6) = va) by (apply getr_set_T6; [exact TA|lia]).
  (* statement 2 *)
  set (a := fst (imem_cell s dm n1)) in *.
  assert (CA : imem_cell sA dm n1 = imem_cell s dm n1) by (apply imem_cell_ext; apply MA).
  set (sL := logged sA (snd (imem_cell sA dm n1))).
  assert (ML : forall z, mem sL z = mem s z) by (intros z; apply MA).
  assert (WL : mem_wf sL) by (intros z; rewrite ML; apply Hwf).
  destruct (imem_operand_read sL sm n2 1%N WL Hn2 ltac:(auto)) as (sb & Ev2 & Ro2). cbv zeta in Ev2.
  rewrite (rd_imem_ext sL s 1 n2 sm ML) in Ev2. fold vb in Ev2.
  destruct Ro2 as (B1 & B2 & B3 & _ & _).
  set (sB := store 1 sb a vb).
  assert (MB : forall z, mem sB z = if z =? a then vb else mem s z).
  { intros z. unfold sB. rewrite st1_mem by exact Hvb. rewrite B2. rewrite ML. reflexivity. }
  assert (WB : mem_wf sB) by (intros z; rewrite MB; destruct (z =? a); [exact Hvb|apply Hwf]).
  assert (CB : imem_cell sB sm n2 = imem_cell s sm n2).
  { apply imem_cell_ext; rewrite MB; match goal with |- (if ?c =? a then _ else _) = _ => destruct (Z.eqb_spec c a) as [E|E]; [exfalso; congruence|reflexivity] end. }
  set (b := fst (imem_cell s sm n2)) in *.
  assert (GB : getr (logged sB (snd (imem_cell s sm n2))) (gTEMP 6) = va).
  { change (getr (logged sB (snd (imem_cell s sm n2))) (gTEMP 6)) with (getr sb (gTEMP 6)). unfold getr. rewrite B1. exact GA. }
  exists (store 1 (logged sB (snd (imem_cell s sm n2))) b va). split.
  - replace (4 + j)%nat with (S (S (S (S j)))) by lia.
    erewrite (run_step _ 0 s1 _ sA); [| reflexivity |].
    2:{ cbn [exec_stmt]. rewrite Ev1. reflexivity. }
    erewrite (run_step _ 1 sA _ sB); [| reflexivity |].
    2:{ cbn [exec_stmt]. rewrite imem_addr_eval by assumption. fold sL. rewrite Ev2. rewrite CA. reflexivity. }
    erewrite (run_step _ 2 sB _ _); [| reflexivity |].
    2:{ cbn [exec_stmt]. rewrite imem_addr_eval by assumption. rewrite CB. cbn [eval_expr]. rewrite GB. reflexivity. }
    reflexivity.
  - rewrite !place_of_imem. fold a. fold b. cbn [wr_place].
    unfold arch_eqT. split; [|split].
    + change (rg (store 1 (logged sB (snd (imem_cell s sm n2))) b va)) with (rg sb).
      rewrite B1. change (rg sL) with (rg sA). unfold sA. rewrite setr_rg, clear_set_temp. rewrite A1.
      unfold s1. rewrite !setr_rg, py_set_pc_pc. reflexivity.
    + intros z. rewrite st1_mem by exact Hva. change (mem (logged sB (snd (imem_cell s sm n2))) z) with (mem sB z). rewrite MB.
      rewrite st1_mem by exact Hva. rewrite st1_mem by exact Hvb. reflexivity.
    + change (halted (store 1 (logged sB (snd (imem_cell s sm n2))) b va)) with (halted sb). rewrite B3.
      change (halted sL) with (halted sa). rewrite A3. reflexivity.
Qed.

Definition ex_is_spec : Prop :=
  forall c, In c pre_choices -> forall n1 n2, (n1 < 256)%N -> (n2 < 256)%N -> forall addr s, mem_wf s -> TWx s ->
  forall dm, mode_of c false = Some dm ->
  fst (imem_cell s dm n1) <> imem py_imem_BP -> fst (imem_cell s dm n1) <> imem py_imem_PX -> fst (imem_cell s dm n1) <> imem py_imem_PY ->
  exists s' t, exec_decoded (mk_pre c 192 [OIMem 1 n1; OIMem 1 n2] 3) (first_byte c 192) addr s = XOk s' /\
               spec_exec (mk_pre c 192 [OIMem 1 n1; OIMem 1 n2] 3) addr s = Some t /\ arch_eqT s' t.

Ltac ex_case :=
  let n1 := fresh "n1" in let n2 := fresh "n2" in let H1 := fresh "H1" in let H2 := fresh "H2" in
  let addr := fresh "addr" in let s := fresh "s" in let Hwf := fresh "Hwf" in let HT := fresh "HT" in
  let dm0 := fresh "dm0" in let Hdm := fresh "Hdm" in let NB := fresh "NB" in let NX := fresh "NX" in let NY := fresh "NY" in
  intros n1 n2 H1 H2 addr s Hwf HT dm0 Hdm NB NX NY;
  vm_compute in Hdm; injection Hdm as <-;
  lift_mem;
  match goal with |- context [run (fuel_for ?p ?s1) ?p 0 ?s1] =>
    let j := fresh "j" in let Hj := fresh "Hj" in
    destruct (fuel_split p s1 4) as [j Hj]; [cbn; lia|]; rewrite Hj;
    match p with (SSetReg _ _ (ELoad _ (imem_addr ?dm _)) :: SStore _ _ (ELoad _ (imem_addr ?sm _)) :: _) =>
      match s1 with setr (setr _ gPC ?x) gPC ?y =>
        let s' := fresh "s'" in let E := fresh "E" in let AE := fresh "AE" in
        destruct (ex_final s x y dm sm n1 n2 j Hwf HT H1 H2 NB NX NY) as (s' & E & AE);
        change p with (ex_prog dm sm n1 n2); rewrite E;
        eexists; eexists; split; [reflexivity|]; split; [spec_mem I_EX; reflexivity|exact AE]
      end
    end
  end.

Theorem ex_imem_imem : ex_is_spec.
Proof. intros c Hc. cbn [In pre_choices map] in Hc. repeat (destruct Hc as [<- | Hc]; [ex_case|]). destruct Hc. Qed.

Lemma ex_opcode_check : (d_cls (entry_of 192), d_ops (entry_of 192)) = (I_EX, [PIMem 1; PIMem 1]).
Proof. vm_compute. reflexivity. Qed.

(* the side condition is satisfiable, e.g. EX (10h),(20h) under prefix 32h with BP = PX = PY = 0 *)
Example ex_hypotheses_satisfiable :
  let s := Emu.mk_state 0 0 0 0 0 0 0 (repeat 0%N 14) [] 0 in
  mem_wf s /\ TWx s /\ fst (imem_cell s IM_N 16) <> imem py_imem_BP /\ fst (imem_cell s IM_N 16) <> imem py_imem_PX /\
  fst (imem_cell s IM_N 16) <> imem py_imem_PY.
Proof. cbv zeta. split; [intros a; vm_compute; split; [discriminate|reflexivity]|]. split; [reflexivity|]. vm_compute. repeat split; discriminate. Qed.
