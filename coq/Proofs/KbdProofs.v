(* Proofs about Model/Kbd.v (property C14). *)
From Coq Require Import ZArith NArith List Bool Lia ZifyBool ZifyN ZifyNat.
From BE Require Import Gen.KbdTables Model.Kbd.
Import ListNotations.
Open Scope N_scope.

Ltac brk := repeat match goal with |- context [if ?b then _ else _] => destruct b eqn:? end.
Ltac brk_in H := repeat match type of H with context [if ?b then _ else _] => destruct b eqn:? end.

(* ---- one key, one scan tick ------------------------------------------------------------------ *)
(* what an emitted event says about the debounced flag before and after *)
Definition ev_ok (pressed_and_strobed : bool) (before after : bool) (e : option kev) : Prop :=
  match e with
  | Some EvPress => before = false /\ after = true /\ pressed_and_strobed = true
  | Some EvRepeat => before = true /\ after = true /\ pressed_and_strobed = true
  | Some EvRelease => before = true /\ after = false /\ pressed_and_strobed = false
  | None => after = before
  end.

Lemma py_update_ev : forall cfg st k,
  let '(k', e) := py_update cfg st k in
  ev_ok (k_pressed k && st) (k_deb k) (k_deb k') e /\ k_pressed k' = k_pressed k.
Proof.
  intros cfg st k. unfold py_update. destruct k as [p d pt rt rp]; cbn [k_pressed k_deb k_pt k_rt k_rep].
  destruct p, st, d; cbn [andb negb]; brk; cbn; repeat split; reflexivity.
Qed.

Lemma rs_update_ev : forall cfg st k,
  let '(k', e) := rs_update cfg st k in
  ev_ok (k_pressed k && st) (k_deb k) (k_deb k') e /\ k_pressed k' = k_pressed k.
Proof.
  intros cfg st k. unfold rs_update. destruct k as [p d pt rt rp]; cbn [k_pressed k_deb k_pt k_rt k_rep].
  destruct p, st, d; cbn [andb negb]; brk; cbn; repeat split; reflexivity.
Qed.

(* ---- per-key histories (Python semantics of press/release: they never touch the debounced flag) *)
Inductive kstep := STick (strobed : bool) | SPress | SRelease.

Definition py_kpress (cfg : kcfg) (k : kstate) : kstate :=
  if k_pressed k then k else {| k_pressed := true; k_deb := k_deb k; k_pt := 0; k_rt := 0; k_rep := rep_delay cfg |}.
Definition py_krelease (k : kstate) : kstate :=
  {| k_pressed := false; k_deb := k_deb k; k_pt := k_pt k; k_rt := 0; k_rep := k_rep k |}.

Fixpoint py_khist (cfg : kcfg) (k : kstate) (l : list kstep) : kstate * list kev :=
  match l with
  | [] => (k, [])
  | STick st :: t => let '(k1, e) := py_update cfg st k in
                     let '(k2, es) := py_khist cfg k1 t in (k2, match e with Some x => x :: es | None => es end)
  | SPress :: t => py_khist cfg (py_kpress cfg k) t
  | SRelease :: t => py_khist cfg (py_krelease k) t
  end.

(* (Press Repeat* Release)*, possibly unfinished: `down` = a press is open *)
Fixpoint wf_word (down : bool) (l : list kev) : bool :=
  match l with
  | [] => true
  | EvPress :: t => negb down && wf_word true t
  | EvRepeat :: t => down && wf_word true t
  | EvRelease :: t => down && wf_word false t
  end.

Theorem py_events_well_ordered : forall cfg l k,
  let '(k', es) := py_khist cfg k l in wf_word (k_deb k) es = true.
Proof.
  intros cfg. induction l as [|s t IH]; intros k; cbn [py_khist]; [reflexivity|].
  destruct s as [st| |].
  - pose proof (py_update_ev cfg st k) as Hu. destruct (py_update cfg st k) as [k1 e].
    specialize (IH k1). destruct (py_khist cfg k1 t) as [k2 es].
    destruct Hu as [Hev _]. destruct e as [[| |]|]; cbn in Hev; cbn [wf_word].
    + destruct Hev as (Hb & Ha & _). rewrite Hb. rewrite Ha in IH. cbn. exact IH.
    + destruct Hev as (Hb & Ha & _). rewrite Hb. rewrite Ha in IH. cbn. exact IH.
    + destruct Hev as (Hb & Ha & _). rewrite Hb. rewrite Ha in IH. cbn. exact IH.
    + rewrite Hev in IH. exact IH.
  - specialize (IH (py_kpress cfg k)). destruct (py_khist cfg (py_kpress cfg k) t) as [k2 es].
    unfold py_kpress in IH. destruct (k_pressed k); exact IH.
  - specialize (IH (py_krelease k)). destruct (py_khist cfg (py_krelease k) t) as [k2 es]. exact IH.
Qed.

(* ---- debounce: always shown once held for the debounce interval --------------------------- *)
Fixpoint ticks (upd : kcfg -> bool -> kstate -> kstate * option kev) (cfg : kcfg) (st : bool) (n : nat) (k : kstate) : kstate :=
  match n with O => k | S m => ticks upd cfg st m (fst (upd cfg st k)) end.

Lemma py_held_step : forall cfg k, k_pressed k = true ->
  let k' := fst (py_update cfg true k) in
  k_pressed k' = true /\
  (k_deb k = true -> k_deb k' = true) /\
  (k_deb k = false -> (k_deb k' = true \/ (k_deb k' = false /\ k_pt k' = k_pt k + 1 /\ k_pt k' < press_th cfg))).
Proof.
  intros cfg k Hp. unfold py_update. destruct k as [p d pt rt rp]; cbn in Hp; subst p.
  cbn [k_pressed k_deb k_pt k_rt k_rep andb negb]. destruct d; cbn [negb]; brk; cbn; repeat split; try discriminate; auto; try lia.
  all: intros _; right; repeat split; lia.
Qed.

Theorem py_debounce_complete : forall cfg n k,
  1 <= press_th cfg ->
  k_pressed k = true -> (N.to_nat (press_th cfg) <= n)%nat -> k_deb (ticks py_update cfg true n k) = true.
Proof.
  intros cfg n k0 Hth1. revert k0.
  assert (H : forall n k, k_pressed k = true ->
              k_deb (ticks py_update cfg true n k) = true \/
              (k_deb (ticks py_update cfg true n k) = false /\ k_pt (ticks py_update cfg true n k) = k_pt k + N.of_nat n /\
               (n = 0%nat \/ k_pt (ticks py_update cfg true n k) < press_th cfg))).
  { induction n0 as [|m IH]; intros k Hp; cbn [ticks].
    - destruct (k_deb k) eqn:E; [left; reflexivity|right; repeat split; auto; lia].
    - destruct (py_held_step cfg k Hp) as (Hp' & Hd & Hn).
      destruct (k_deb k) eqn:E.
      + specialize (Hd eq_refl). clear Hn.
        (* stays debounced *)
        assert (Hs : forall j x, k_pressed x = true -> k_deb x = true -> k_deb (ticks py_update cfg true j x) = true).
        { induction j as [|j IHj]; intros x Hx Hdx; cbn [ticks]; [exact Hdx|].
          destruct (py_held_step cfg x Hx) as (A & B & _). apply IHj; auto. }
        left. apply Hs; assumption.
      + destruct (Hn eq_refl) as [Hd'|(Hd' & Hpt & Hlt)].
        * left. assert (Hs : forall j x, k_pressed x = true -> k_deb x = true -> k_deb (ticks py_update cfg true j x) = true).
          { induction j as [|j IHj]; intros x Hx Hdx; cbn [ticks]; [exact Hdx|].
            destruct (py_held_step cfg x Hx) as (A & B & _). apply IHj; auto. }
          apply Hs; assumption.
        * destruct (IH _ Hp') as [L|(L1 & L2 & L3)]; [left; exact L|].
          right. split; [exact L1|]. split; [rewrite L2, Hpt; lia|].
          right. destruct L3 as [->|L3]; [cbn [ticks]; exact Hlt|exact L3]. }
  intros k Hp Hn. destruct (H n k Hp) as [L|(L1 & L2 & L3)]; [exact L|].
  exfalso. destruct L3 as [->|L3]; [lia|]. rewrite L2 in L3. lia.
Qed.

(* the same for the Rust counters (u8, saturating), thresholds being u8 values *)
Lemma rs_held_step : forall cfg k, k_pressed k = true -> press_th cfg <= 255 ->
  let k' := fst (rs_update cfg true k) in
  k_pressed k' = true /\
  (k_deb k = true -> k_deb k' = true) /\
  (k_deb k = false -> (k_deb k' = true \/ (k_deb k' = false /\ k_pt k' = k_pt k + 1 /\ k_pt k' < press_th cfg))).
Proof.
  intros cfg k Hp Hth. unfold rs_update, sat8. destruct k as [p d pt rt rp]; cbn in Hp; subst p.
  cbn [k_pressed k_deb k_pt k_rt k_rep andb negb]. destruct d; cbn [negb]; brk; cbn; repeat split; try discriminate; auto; try lia.
  all: intros _; right; repeat split; lia.
Qed.

Theorem rs_debounce_complete : forall cfg n k,
  1 <= press_th cfg -> press_th cfg <= 255 ->
  k_pressed k = true -> (N.to_nat (press_th cfg) <= n)%nat -> k_deb (ticks rs_update cfg true n k) = true.
Proof.
  intros cfg n k Hth1 Hth.
  assert (Hs : forall j x, k_pressed x = true -> k_deb x = true -> k_deb (ticks rs_update cfg true j x) = true).
  { induction j as [|j IHj]; intros x Hx Hdx; cbn [ticks]; [exact Hdx|].
    destruct (rs_held_step cfg x Hx Hth) as (A & B & _). apply IHj; auto. }
  assert (H : forall n k, k_pressed k = true ->
              k_deb (ticks rs_update cfg true n k) = true \/
              (k_deb (ticks rs_update cfg true n k) = false /\ k_pt (ticks rs_update cfg true n k) = k_pt k + N.of_nat n /\
               (n = 0%nat \/ k_pt (ticks rs_update cfg true n k) < press_th cfg))).
  { induction n0 as [|m IH]; intros x Hp; cbn [ticks].
    - destruct (k_deb x) eqn:E; [left; reflexivity|right; repeat split; auto; lia].
    - destruct (rs_held_step cfg x Hp Hth) as (Hp' & Hd & Hn).
      destruct (k_deb x) eqn:E.
      + left. apply Hs; auto.
      + destruct (Hn eq_refl) as [Hd'|(Hd' & Hpt & Hlt)]; [left; apply Hs; assumption|].
        destruct (IH _ Hp') as [L|(L1 & L2 & L3)]; [left; exact L|].
        right. split; [exact L1|]. split; [rewrite L2, Hpt; lia|].
        right. destruct L3 as [->|L3]; [cbn [ticks]; exact Hlt|exact L3]. }
  intros Hp Hn. destruct (H n k Hp) as [L|(L1 & L2 & L3)]; [exact L|].
  exfalso. destruct L3 as [->|L3]; [lia|]. rewrite L2 in L3. lia.
Qed.

(* ---- release: a key that is no longer held-and-strobed stops being shown after the release interval *)
Lemma py_unheld_step : forall cfg k st, (k_pressed k && st) = false -> 1 <= release_th cfg ->
  let k' := fst (py_update cfg st k) in
  (k_deb k = false -> k_deb k' = false) /\
  (k_deb k = true -> (k_deb k' = false \/ (k_deb k' = true /\ k_rt k' = k_rt k + 1 /\ k_rt k' < release_th cfg))) /\
  k_pressed k' = k_pressed k.
Proof.
  intros cfg k st Hc Hth. unfold py_update. destruct k as [p d pt rt rp]; cbn [k_pressed k_deb k_pt k_rt k_rep] in *.
  rewrite Hc. destruct d; brk; cbn; repeat split; try discriminate; auto; try lia.
  all: try (intros _; right; repeat split; lia).
Qed.

Theorem py_release_bounded : forall cfg n k,
  1 <= release_th cfg -> k_pressed k = false -> (N.to_nat (release_th cfg) <= n)%nat ->
  forall sts, length sts = n ->
  k_deb (fold_left (fun x st => fst (py_update cfg st x)) sts k) = false.
Proof.
  intros cfg n k Hth Hp Hn sts Hl.
  assert (H : forall sts x, k_pressed x = false ->
     let y := fold_left (fun x st => fst (py_update cfg st x)) sts x in
     k_pressed y = false /\
     (k_deb y = false \/ (k_deb x = true /\ k_rt y = k_rt x + N.of_nat (length sts) /\ (sts = [] \/ k_rt y < release_th cfg)))).
  { induction sts0 as [|st t IH]; intros x Hx; cbn [fold_left length].
    - split; [exact Hx|]. destruct (k_deb x) eqn:E; [right; repeat split; auto; lia|left; reflexivity].
    - assert (Hc : (k_pressed x && st) = false) by (rewrite Hx; reflexivity).
      destruct (py_unheld_step cfg x st Hc Hth) as (A & B & C).
      assert (Hx' : k_pressed (fst (py_update cfg st x)) = false) by (rewrite C; exact Hx).
      destruct (IH _ Hx') as (P & Q). split; [exact P|].
      destruct (k_deb x) eqn:E.
      + destruct (B eq_refl) as [B1|(B1 & B2 & B3)].
        * (* became not debounced: stays so *)
          left. clear - B1 Hx' Hth.
          revert B1 Hx'. generalize (fst (py_update cfg st x)). induction t as [|s t IHt]; intros z Hz Hpz; cbn [fold_left]; [exact Hz|].
          assert (Hc : (k_pressed z && s) = false) by (rewrite Hpz; reflexivity).
          destruct (py_unheld_step cfg z s Hc Hth) as (A & _ & C). apply IHt; [apply A; exact Hz|rewrite C; exact Hpz].
        * destruct Q as [Q|(Q1 & Q2 & Q3)]; [left; exact Q|].
          right. split; [reflexivity|]. split; [rewrite Q2, B2; lia|].
          right. destruct Q3 as [->|Q3]; [cbn [fold_left]; exact B3|exact Q3].
      + left. specialize (A eq_refl). destruct Q as [Q|(Q1 & _)]; [exact Q|congruence]. }
  destruct (H sts k Hp) as (_ & [L|(L1 & L2 & L3)]); [exact L|].
  exfalso. destruct L3 as [->|L3]; [cbn in Hl; lia|]. rewrite L2, Hl in L3. lia.
Qed.

(* ---- KIL soundness: a row bit is shown only for a debounced (or pending held) key on a strobed column *)
Definition kil_cond (cfg : kcfg) (s : kbd) (pending : bool) (e : N * kstate) : bool :=
  strobed_of cfg s (fst e) &&
  (k_deb (snd e) || (pending && k_pressed (snd e) && (press_th cfg <=? sat8 (k_pt (snd e) + 1)))).

Lemma pow2_testbit : forall a b, N.testbit (2 ^ a) b = (a =? b).
Proof. intros. apply N.pow2_bits_eqb. Qed.

Lemma kil_fold_bits : forall cfg s pending l acc r,
  N.testbit (fold_left (fun acc e => let '(code, k) := e in
      if strobed_of cfg s code && (k_deb k || (pending && k_pressed k && (press_th cfg <=? sat8 (k_pt k + 1))))
      then N.lor acc (2 ^ row_of code) else acc) l acc) r
  = N.testbit acc r || existsb (fun e => kil_cond cfg s pending e && (row_of (fst e) =? r)) l.
Proof.
  intros cfg s pending. induction l as [|[code k] t IH]; intros acc r; cbn [fold_left existsb].
  - rewrite orb_false_r. reflexivity.
  - rewrite IH. unfold kil_cond at 2. cbn [fst snd].
    destruct (strobed_of cfg s code && (k_deb k || pending && k_pressed k && (press_th cfg <=? sat8 (k_pt k + 1)))); cbn [andb].
    + rewrite N.lor_spec, pow2_testbit. rewrite orb_assoc. reflexivity.
    + reflexivity.
Qed.

Theorem kil_sound_complete : forall cfg s pending r,
  N.testbit (kil_of cfg s pending) r = true <->
  exists code k, In (code, k) (keys s) /\ row_of code = r /\ strobed_of cfg s code = true /\
                 (k_deb k = true \/ (pending = true /\ k_pressed k = true /\ press_th cfg <= sat8 (k_pt k + 1))).
Proof.
  intros cfg s pending r. unfold kil_of. rewrite kil_fold_bits. rewrite N.bits_0. cbn [orb].
  rewrite existsb_exists. split.
  - intros ([code k] & Hin & Hc). apply andb_true_iff in Hc. destruct Hc as [Hc Hr].
    unfold kil_cond in Hc. cbn [fst snd] in *. apply andb_true_iff in Hc. destruct Hc as [Hs Hd].
    exists code, k. split; [exact Hin|]. split; [lia|]. split; [exact Hs|].
    apply orb_true_iff in Hd. destruct Hd as [Hd|Hd]; [left; exact Hd|right].
    apply andb_true_iff in Hd. destruct Hd as [Hd H3]. apply andb_true_iff in Hd. destruct Hd as [H1 H2].
    repeat split; auto. lia.
  - intros (code & k & Hin & Hr & Hs & Hd). exists (code, k). split; [exact Hin|].
    apply andb_true_iff. split; [|cbn [fst]; lia].
    unfold kil_cond. cbn [fst snd]. rewrite Hs. cbn [andb].
    destruct Hd as [Hd|(H1 & H2 & H3)]; [rewrite Hd; reflexivity|].
    rewrite H1, H2. cbn [andb]. apply orb_true_iff. right. lia.
Qed.

(* ---- FIFO: bounded, drops only the oldest ------------------------------------------------------ *)
Definition lastn (n : nat) (l : list N) : list N := skipn (length l - n) l.

Lemma fifo_push_lastn : forall cap q b, (1 <= cap)%nat -> (length q <= cap)%nat ->
  fifo_push cap q b = lastn cap (q ++ [b]).
Proof.
  intros cap q b Hc Hl. unfold fifo_push, lastn. rewrite app_length. cbn [length].
  destruct (Nat.ltb_spec cap (length q + 1)) as [H|H].
  - assert (length q = cap) by lia. replace (length q + 1 - cap)%nat with 1%nat by lia.
    destruct q as [|x t]; [cbn in *; lia|]. reflexivity.
  - replace (length q + 1 - cap)%nat with 0%nat by lia. reflexivity.
Qed.

Lemma lastn_length : forall n l, (length (lastn n l) <= n)%nat.
Proof. intros. unfold lastn. rewrite skipn_length. lia. Qed.

Lemma skipn_add : forall A (l : list A) a b, skipn a (skipn b l) = skipn (b + a) l.
Proof.
  intros A. induction l as [|x t IH]; intros a b.
  - rewrite !skipn_nil. reflexivity.
  - destruct b as [|b]; [reflexivity|]. cbn [skipn Nat.add]. apply IH.
Qed.

Lemma lastn_app_lastn : forall n l m, lastn n (lastn n l ++ m) = lastn n (l ++ m).
Proof.
  intros n l m. unfold lastn. rewrite !app_length, skipn_length.
  destruct (Nat.le_gt_cases (length l) n) as [H|H].
  - replace (length l - n)%nat with 0%nat by lia. cbn [skipn]. rewrite Nat.sub_0_r. reflexivity.
  - (* l longer than n: the front of l is dropped either way *)
    set (d := (length l - n)%nat).
    assert (Hd : (d <= length l)%nat) by (unfold d; lia).
    replace (length l - d + length m - n)%nat with (length m) by (unfold d; lia).
    replace (length l + length m - n)%nat with (d + length m)%nat by (unfold d; lia).
    rewrite (skipn_app (d + length m)), <- (skipn_add _ l (length m) d).
    rewrite skipn_app, skipn_length.
    replace (d + length m - length l)%nat with (length m - (length l - d))%nat by lia.
    reflexivity.
Qed.

Theorem fifo_is_suffix : forall cap evs q, (1 <= cap)%nat -> (length q <= cap)%nat ->
  fold_left (fifo_push cap) evs q = lastn cap (q ++ evs) /\
  (length (fold_left (fifo_push cap) evs q) <= cap)%nat.
Proof.
  intros cap. induction evs as [|e t IH]; intros q Hc Hl; cbn [fold_left].
  - rewrite app_nil_r. unfold lastn. replace (length q - cap)%nat with 0%nat by lia. cbn. split; [reflexivity|exact Hl].
  - assert (Hl' : (length (fifo_push cap q e) <= cap)%nat).
    { rewrite fifo_push_lastn by assumption. apply lastn_length. }
    destruct (IH _ Hc Hl') as [A B]. split; [|exact B].
    rewrite A, fifo_push_lastn by assumption. rewrite lastn_app_lastn. rewrite <- app_assoc. reflexivity.
Qed.

(* the FIFO of every reachable state is within capacity (Python 7, Rust 8) *)
Definition py_step (cfg : kcfg) (s : kbd) (o : kop) : kbd :=
  match o with
  | KPress c => py_press cfg s c | KRelease c => py_release s c | KKol v => py_write_kol cfg s v
  | KKoh v => py_write_koh cfg s v | KTick => fst (py_scan cfg s) | KRead => fst (py_read_kil cfg s)
  | KInject c rel => py_inject cfg s c rel | KConsume => py_consume s
  end.
Definition rs_step (cfg : kcfg) (irq : bool) (s : kbd) (o : kop) : kbd :=
  match o with
  | KPress c => rs_press cfg s c | KRelease c => rs_release cfg s c | KKol v => rs_write_kol cfg s v
  | KKoh v => rs_write_koh cfg s v | KTick => rs_assert_keyi (fst (rs_scan cfg s true)) irq | KRead => fst (rs_read_kil cfg s)
  | KInject c rel => rs_inject cfg s c rel irq | KConsume => rs_consume s
  end.

Lemma py_scan_fifo : forall cfg s, (length (fifo s) <= PY_CAP)%nat -> (length (fifo (fst (py_scan cfg s))) <= PY_CAP)%nat.
Proof.
  intros cfg s H. unfold py_scan. destruct (scan_keys py_update cfg s (keys s)) as [ks evs]. cbn.
  apply fifo_is_suffix; [unfold PY_CAP; lia|exact H].
Qed.

Theorem py_fifo_bounded : forall cfg ops s, (length (fifo s) <= PY_CAP)%nat ->
  (length (fifo (fold_left (py_step cfg) ops s)) <= PY_CAP)%nat.
Proof.
  intros cfg. induction ops as [|o t IH]; intros s H; cbn [fold_left]; [exact H|]. apply IH.
  destruct o; cbn [py_step].
  - unfold py_press. destruct (find_key (keys s) code); [destruct (k_pressed k)|]; exact H.
  - exact H.
  - exact H.
  - exact H.
  - apply py_scan_fifo, H.
  - unfold py_read_kil. pose proof (py_scan_fifo cfg s H). destruct (py_scan cfg s). exact H0.
  - unfold py_inject. destruct (find_key (keys s) code); [|exact H]. cbn.
    rewrite fifo_push_lastn; [apply lastn_length|unfold PY_CAP; lia|exact H].
  - cbn. unfold PY_CAP. lia.
Qed.

Lemma rs_scan_fifo : forall cfg s b, (length (fifo s) <= RS_CAP)%nat -> (length (fifo (fst (rs_scan cfg s b))) <= RS_CAP)%nat.
Proof.
  intros cfg s b H. unfold rs_scan. destruct (scan_keys rs_update cfg s (keys s)) as [ks evs]. cbn.
  apply fifo_is_suffix; [unfold RS_CAP; lia|exact H].
Qed.

Lemma rs_assert_fifo : forall s b, fifo (rs_assert_keyi s b) = fifo s.
Proof. intros. unfold rs_assert_keyi. destruct (_ && _ && _); reflexivity. Qed.

Theorem rs_fifo_bounded : forall cfg irq ops s, (length (fifo s) <= RS_CAP)%nat ->
  (length (fifo (fold_left (rs_step cfg irq) ops s)) <= RS_CAP)%nat.
Proof.
  intros cfg irq. induction ops as [|o t IH]; intros s H; cbn [fold_left]; [exact H|]. apply IH.
  destruct o; cbn [rs_step].
  - unfold rs_press. destruct (find_key (keys s) code); exact H.
  - unfold rs_release. destruct (find_key (keys s) code); exact H.
  - exact H.
  - exact H.
  - rewrite rs_assert_fifo. apply rs_scan_fifo, H.
  - unfold rs_read_kil. destruct (rs_scan cfg s false). cbn. unfold RS_CAP. lia.
  - unfold rs_inject. rewrite rs_assert_fifo. cbn.
    rewrite fifo_push_lastn; [apply lastn_length|unfold RS_CAP; lia|exact H].
  - cbn. unfold RS_CAP. lia.
Qed.

(* ---- KEYI gate --------------------------------------------------------------------------------- *)
Theorem rs_keyi_gate : forall s enabled,
  let s' := rs_assert_keyi s enabled in
  (isr s' <> isr s -> keyi_latch s = true /\ fifo s <> [] /\ enabled = true) /\
  (isr s' = isr s \/ isr s' = N.lor (isr s) 4) /\
  fifo s' = fifo s /\ keys s' = keys s /\ latch s' = latch s.
Proof.
  intros s enabled. unfold rs_assert_keyi.
  destruct (keyi_latch s) eqn:E1; destruct (fifo s) eqn:E2; destruct enabled; cbn; repeat split; auto; try congruence;
    try (intros H; exfalso; apply H; reflexivity).
Qed.
