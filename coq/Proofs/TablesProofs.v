(* Decision procedures over the regenerated tables (property C17).  Everything here is
   computable; the theorems in Props/C17.v are closed by vm_compute over what the translator read. *)
From Coq Require Import NArith List String Bool Ascii.
From BE Require Import Model.TableTypes.
Import ListNotations.
Open Scope N_scope.

Scheme Equality for regname.
Scheme Equality for imode.
Scheme Equality for emode.
Scheme Equality for cond.
Scheme Equality for rkind.

Definition opt_eqb {A} (f : A -> A -> bool) (a b : option A) : bool :=
  match a, b with Some x, Some y => f x y | None, None => true | _, _ => false end.

Fixpoint list_eqb {A} (f : A -> A -> bool) (a b : list A) : bool :=
  match a, b with
  | [], [] => true
  | x :: xs, y :: ys => f x y && list_eqb f xs ys
  | _, _ => false
  end.

Definition rshape_eqb (a b : rshape) : bool :=
  match a, b with
  | RReg r w, RReg r' w' => regname_beq r r' && (w =? w')
  | RImm a, RImm b | RIMem a, RIMem b | REMemAddr a, REMemAddr b | REMemReg a, REMemReg b
  | REMemIMem a, REMemIMem b | REMemAddrWidth a, REMemAddrWidth b | REMemAddrWidthOp a, REMemAddrWidthOp b
  | REMemRegWidth a, REMemRegWidth b | REMemRegWidthMode a, REMemRegWidthMode b
  | REMemIMemWidth a, REMemIMemWidth b | RIMemWidth a, RIMemWidth b | RRegPair a, RRegPair b => a =? b
  | RImmOffset, RImmOffset | REMemImemOffsetDestIntMem, REMemImemOffsetDestIntMem
  | REMemImemOffsetDestExtMem, REMemImemOffsetDestExtMem | REMemRegModePostPre, REMemRegModePostPre
  | RRegB, RRegB | RRegIL, RRegIL | RRegIMR, RRegIMR | RRegF, RRegF | RReg3, RReg3
  | RUnknownOp, RUnknownOp | RPlaceholder, RPlaceholder | RImemPtr, RImemPtr => true
  | RRegIMemOffset a, RRegIMemOffset b => Bool.eqb a b
  | _, _ => false
  end.

Definition rentry_eqb (a b : rentry) : bool :=
  (r_opc a =? r_opc b) && rkind_beq (r_kind a) (r_kind b) && String.eqb (r_name a) (r_name b) &&
  opt_eqb cond_beq (r_cond a) (r_cond b) && Bool.eqb (r_rev a) (r_rev b) && list_eqb rshape_eqb (r_ops a) (r_ops b).

(* ---- the documented Python -> Rust mapping (scripts/generate_llama_opcodes.py) ---- *)
Definition kind_of_cls (c : icls) : rkind :=
  match c with
  | I_NOP => K_Nop | I_RETI => K_RetI | I_JP_Abs => K_JpAbs | I_JP_Rel => K_JpRel | I_CALL => K_Call
  | I_RET => K_Ret | I_RETF => K_RetF | I_MV => K_Mv | I_MVL => K_Mvl | I_MVLD => K_Mvld | I_PRE => K_Pre
  | I_PUSHU => K_PushU | I_POPU => K_PopU | I_PUSHS => K_PushS | I_POPS => K_PopS
  | I_ADD => K_Add | I_ADC => K_Adc | I_SUB => K_Sub | I_SBC => K_Sbc | I_ADCL => K_Adc | I_SBCL => K_Sbcl
  | I_DADL => K_Dadl | I_DSBL => K_Dsbl | I_AND => K_And | I_OR => K_Or | I_XOR => K_Xor | I_TEST => K_Test
  | I_CMP => K_Cmp | I_CMPW => K_Cmpw | I_CMPP => K_Cmpp | I_ROR => K_Ror | I_ROL => K_Rol | I_SHL => K_Shl
  | I_SHR => K_Shr | I_DSLL => K_Dsll | I_DSRL => K_Dsrl | I_INC => K_Inc | I_DEC => K_Dec | I_EX => K_Ex
  | I_EXL => K_Exl | I_WAIT => K_Wait | I_PMDF => K_Pmdf | I_SWAP => K_Swap | I_SC => K_Sc | I_RC => K_Rc
  | I_TCL => K_Tcl | I_HALT => K_Halt | I_OFF => K_Off | I_IR => K_Ir | I_RESET => K_Reset | I_Unknown => K_Unknown
  end.

Definition kind_of (c : icls) (o : option optname) : rkind :=
  match o with
  | Some ON_JPF => K_JpAbs | Some ON_CALLF => K_Call | Some ON_MVW => K_Mvw | Some ON_MVP => K_Mvp
  | Some ON_EXW => K_Ex | Some ON_EXP => K_Ex
  | None => kind_of_cls c
  end.

Definition is_post_pre (l : list emode) : bool :=
  list_eqb emode_beq l [EM_POST_INC; EM_PRE_DEC] || list_eqb emode_beq l [EM_PRE_DEC; EM_POST_INC].

Definition shape_to_rust (s : pshape) : rshape :=
  match s with
  | PImm8 => RImm 8 | PImm16 => RImm 16 | PImm20 => RImm 20
  | PImmOffset _ => RImmOffset
  | PIMem w => RIMem (if w =? 3 then 20 else 8 * w)
  | PReg r w => RReg r (8 * w)
  | PRegB => RRegB | PRegIL => RRegIL | PRegIMR => RRegIMR | PRegF => RRegF
  | PRegPC => RUnknownOp
  | PReg3 => RReg3
  | PRegPair n => RRegPair n
  | PEMemAddr w => REMemAddrWidth w
  | PEMemReg w (Some l) => if is_post_pre l then REMemRegModePostPre else REMemRegWidth w
  | PEMemReg w None => REMemRegWidth w
  | PEMemIMem w => REMemIMemWidth w
  | PRegIMemOffset d _ => RRegIMemOffset d
  | PEMemIMemOffset true => REMemImemOffsetDestIntMem
  | PEMemIMemOffset false => REMemImemOffsetDestExtMem
  end.

Definition entry_to_rust (p : pentry) : rentry :=
  {| r_opc := p_opc p; r_kind := kind_of (p_cls p) (p_optname p);
     r_name := match p_optname_s p with Some s => s | None => p_clsname p end;
     r_cond := p_cond p; r_rev := p_rev p; r_ops := map shape_to_rust (p_ops p) |}.

Definition opcode_tables_agree_b (py : list pentry) (rs : list rentry) : bool :=
  list_eqb rentry_eqb (map entry_to_rust py) rs.

(* the same comparison leaving out a listed set of opcodes (used only while a finding is open) *)
Definition opcode_tables_agree_except (skip : list N) (py : list pentry) (rs : list rentry) : bool :=
  list_eqb (fun a b => existsb (N.eqb (r_opc a)) skip && (r_opc a =? r_opc b) || rentry_eqb a b) (map entry_to_rust py) rs.

Definition differing_opcodes (py : list pentry) (rs : list rentry) : list N :=
  map (fun pr => r_opc (snd pr)) (filter (fun pr => negb (rentry_eqb (entry_to_rust (fst pr)) (snd pr))) (combine py rs)).

(* opcodes 0..255 in order *)
Fixpoint opcodes_in_order (n : N) (l : list N) : bool :=
  match l with [] => true | x :: r => (x =? n) && opcodes_in_order (n + 1) r end.

(* ---- set-like comparisons ---- *)
Definition subset {A} (f : A -> A -> bool) (a b : list A) : bool := forallb (fun x => existsb (f x) b) a.
Definition same_set {A} (f : A -> A -> bool) (a b : list A) : bool :=
  subset f a b && subset f b a && (N.of_nat (List.length a) =? N.of_nat (List.length b)).

Definition pre_eqb (a b : N * imode * imode) : bool :=
  match a, b with (o, f, s), (o', f', s') => (o =? o') && imode_beq f f' && imode_beq s s' end.

Fixpoint nodup_N (l : list N) : bool :=
  match l with [] => true | x :: r => negb (existsb (N.eqb x) r) && nodup_N r end.

Definition pre_opcodes_of_table (py : list pentry) : list N :=
  map p_opc (filter (fun e => match p_cls e with I_PRE => true | _ => false end) py).

(* ---- registers ---- *)
Fixpoint lookup_reg {A} (r : regname) (l : list (regname * A)) : option A :=
  match l with [] => None | (k, v) :: t => if regname_beq k r then Some v else lookup_reg r t end.

Definition reg_code_early (r : regname) : N :=
  match r with RA => 0 | RB => 1 | RBA => 2 | RIL => 3 | RIH => 4 | RI => 5 | RX => 6 | RY => 7 | RU => 8 | RS => 9
             | RF => 10 | RPC => 11 | RFC => 12 | RFZ => 13 | RIMR => 14 end.

Definition is20 (r : regname) : bool :=
  match r with RX | RY | RU | RS | RPC => true | _ => false end.

(* the mask the Python emulator applies when a register is written *)
Definition py_effective_mask (pcmask : N) (sizes : list (regname * N)) (subs : list (regname * regname * N * N)) (r : regname) : option N :=
  match find (fun e => match e with (s, _, _, _) => regname_beq s r end) subs with
  | Some (_, _, _, m) => Some m
  | None =>
      match lookup_reg r sizes with
      | Some sz => Some (if is20 r then pcmask else 2 ^ (8 * sz) - 1)
      | None => None
      end
  end.

Definition arch_sizes (l : list (regname * regname * N * N)) : list (regname * N) :=
  map (fun e => match e with (n, _, s, _) => (n, s) end) l.

Definition sizes_agree_on (a b : list (regname * N)) : bool :=
  forallb (fun e => match lookup_reg (fst e) b with Some v => v =? snd e | None => true end) a.

Definition sizes_cover (a b : list (regname * N)) : bool :=
  forallb (fun e => match lookup_reg (fst e) b with Some _ => true | None => false end) a.

Definition rust_masks_agree (pcmask : N) (sizes : list (regname * N)) (subs : list (regname * regname * N * N)) (rs : list (regname * N)) : bool :=
  forallb (fun e => match lookup_reg (fst e) rs, py_effective_mask pcmask sizes subs (fst e) with
                    | Some m, Some m' => m =? m'
                    | _, _ => false
                    end) sizes.

(* the masks observed on the register file itself (all-ones written, value read back) against the Rust masks *)
Definition probed_masks_agree (probed rs : list (regname * N)) : bool :=
  forallb (fun e => match lookup_reg (fst e) rs with Some m => m =? snd e | None => false end) probed.
Definition diag_probed (probed rs : list (regname * N)) : list N :=
  map (fun e => reg_code_early (fst e))
      (filter (fun e => match lookup_reg (fst e) rs with Some m => negb (m =? snd e) | None => true end) probed).

(* sub-register layout: arch (full reg, byte offset) vs emulator (base, shift) *)
Definition subreg_layout_agrees (arch : list (regname * regname * N * N)) (subs : list (regname * regname * N * N)) : bool :=
  forallb (fun e => match e with (n, full, sz, off) =>
             if regname_beq n full then true else
             match find (fun s => match s with (sn, _, _, _) => regname_beq sn n end) subs with
             | Some (_, base, shift, mask) => regname_beq base full && (shift =? 8 * off) && (mask =? 2 ^ (8 * sz) - 1)
             | None => false
             end end) arch.

(* ---- IMEM offsets ---- *)
Fixpoint lookup_str (s : string) (l : list (string * N)) : option N :=
  match l with [] => None | (k, v) :: t => if String.eqb k s then Some v else lookup_str s t end.

Definition imem_offsets_agree_b (py rs : list (string * N)) : bool :=
  forallb (fun e => match lookup_str (fst e) py with Some v => v =? snd e | None => false end) rs.

(* ---- segments ---- *)
Definition seg_inside (limit : N) (s : segment) : bool := (seg_start s + seg_len s <=? limit) && (0 <? seg_len s).
Definition seg_disjoint (a b : segment) : bool :=
  (seg_start a + seg_len a <=? seg_start b) || (seg_start b + seg_len b <=? seg_start a).
Fixpoint pairwise {A} (f : A -> A -> bool) (l : list A) : bool :=
  match l with [] => true | x :: r => forallb (f x) r && pairwise f r end.
Definition has_internal_ram (start len : N) (l : list segment) : bool :=
  existsb (fun s => (seg_start s =? start) && (seg_len s =? len)) l.
Definition segments_ok (limit start len : N) (l : list segment) : bool :=
  forallb (seg_inside limit) l && pairwise seg_disjoint l && has_internal_ram start len l.

Definition layout_eqb (a b : list (regname * N)) : bool :=
  list_eqb (fun x y => regname_beq (fst x) (fst y) && (snd x =? snd y)) a b.

(* ---- diagnostics: for each clause the offending keys (used by the check to name the failing entry) ---- *)
Definition diag_not_in {A} (f : A -> A -> bool) (key : A -> N) (a b : list A) : list N :=
  map key (filter (fun x => negb (existsb (f x) b)) a).

Definition reg_code (r : regname) : N :=
  match r with RA => 0 | RB => 1 | RBA => 2 | RIL => 3 | RIH => 4 | RI => 5 | RX => 6 | RY => 7 | RU => 8 | RS => 9
             | RF => 10 | RPC => 11 | RFC => 12 | RFZ => 13 | RIMR => 14 end.

Definition diag_sizes (a b : list (regname * N)) : list N :=
  map (fun e => reg_code (fst e)) (filter (fun e => match lookup_reg (fst e) b with Some v => negb (v =? snd e) | None => true end) a).

Definition diag_masks (pcmask : N) (sizes : list (regname * N)) (subs : list (regname * regname * N * N)) (rs : list (regname * N)) : list N :=
  map (fun e => reg_code (fst e))
      (filter (fun e => match lookup_reg (fst e) rs, py_effective_mask pcmask sizes subs (fst e) with
                        | Some m, Some m' => negb (m =? m') | _, _ => true end) sizes).

Definition diag_imem (py rs : list (string * N)) : list N :=
  map snd (filter (fun e => match lookup_str (fst e) py with Some v => negb (v =? snd e) | None => true end) rs).

Definition diag_segments (limit : N) (l : list segment) : list N :=
  map seg_start (filter (fun s => negb (seg_inside limit s) || negb (forallb (fun t => (seg_start s =? seg_start t) && (seg_len s =? seg_len t) || seg_disjoint s t) l)) l).
