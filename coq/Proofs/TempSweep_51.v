(* generated shape: one prefix of the C07 structural sweep (see TempSweepDefs.v) *)
From Coq Require Import NArith List Bool.
From BE Require Import Proofs.TempSweepDefs.
Import ListNotations.
Lemma sweep_51 : sweep_pre [51%N] = true.
Proof. vm_compute. reflexivity. Qed.
