(* Proofs about Model/Decode.v (properties C01 and C02). *)
From Coq Require Import Arith NArith List Bool Lia.
From BE Require Import Model.TableTypes Gen.Tables Model.Decode.
Import ListNotations.
Open Scope N_scope.

Arguments is_r3 : simpl never.
Arguments high4 : simpl never.
Arguments N.testbit : simpl never.
Arguments emode_of : simpl never.
Arguments check_allowed : simpl never.
Arguments imem_mode_ok : simpl never.
Arguments imem_mode_has_off : simpl never.
Arguments has_off : simpl never.
Arguments allowed_violation : simpl never.
Opaque py_allowed_mode_violation_is_assert.
Arguments N.add : simpl never.
Arguments N.mul : simpl never.
Arguments N.div : simpl never.
Arguments N.modulo : simpl never.

(* ---- readers --------------------------------------------------------------------------- *)

(* A reader that succeeded consumed a prefix `used`, re-encodes to exactly that prefix, and returns
   the same result on every extension of that prefix. *)
Definition reader_ok (s : pshape) (bs : list byte) (o : operand) (rest : list byte) : Prop :=
  exists used, bs = used ++ rest /\ encode_op o = used /\
               forall rest', decode_shape s (used ++ rest') = ROk o rest'.

Lemma allowed_violation_not_ok : forall A (f : option N -> list byte -> rres A) o r,
  bind allowed_violation f <> ROk o r.
Proof.
  intros A f o r. unfold allowed_violation. destruct py_allowed_mode_violation_is_assert; cbn; discriminate.
Qed.

Lemma rd_off_spec : forall need bs off rest,
  rd_off need bs = ROk off rest ->
  exists used, bs = used ++ rest /\ enc_off off = used /\ forall rest', rd_off need (used ++ rest') = ROk off rest'.
Proof.
  intros need bs off rest H. unfold rd_off in *. destruct need.
  - destruct bs as [|b r]; cbn in H; [discriminate|]. inversion H; subst.
    exists [b]. repeat split; reflexivity.
  - inversion H; subst. exists []. repeat split; reflexivity.
Qed.

Ltac inv H := inversion H; subst; clear H.
(* discriminate the goal only (never a hypothesis about a regenerated table constant) *)
Ltac disc := let Hd := fresh "Hd" in intro Hd; discriminate Hd.

(* case analysis following the reads and checks of a reader, on the goal *)
Ltac crush_goal :=
  repeat match goal with
  | |- context [rd_byte ?l] => destruct l; cbn [rd_byte bind]
  | |- context [rd_word ?l] => destruct l as [|? [|? ?]]; cbn [rd_word bind]
  | |- context [if ?b then _ else _] => destruct b; cbn [bind]
  | |- context [match emode_of ?x with _ => _ end] => destruct (emode_of x); cbn [bind]
  | |- context [rd_off ?a ?b] => unfold rd_off
  end.

Lemma word_bytes : forall lo hi, lo < 256 -> hi < 256 ->
  (lo + 256 * hi) mod 256 = lo /\ ((lo + 256 * hi) / 256) mod 256 = hi.
Proof.
  intros lo hi Hlo Hhi. split.
  - rewrite N.mul_comm, N.mod_add by lia. apply N.mod_small. exact Hlo.
  - rewrite N.mul_comm, N.div_add by lia. rewrite (N.div_small lo 256) by exact Hlo.
    rewrite N.add_0_l. apply N.mod_small. exact Hhi.
Qed.

Definition bytes_ok (bs : list byte) : Prop := Forall (fun b => b < 256) bs.

Theorem shape_spec : forall s bs o rest,
  bytes_ok bs -> decode_shape s bs = ROk o rest -> reader_ok s bs o rest.
Proof.
  intros s bs o rest Hb H. unfold reader_ok.
  destruct s; cbn in H.
  - (* Imm8 *) destruct bs as [|b0 r]; cbn in H; [discriminate|]. inv H. exists [b0]. repeat split; reflexivity.
  - (* Imm16 *) destruct bs as [|b0 [|b1 r]]; cbn in H; try discriminate. inv H.
    inversion Hb as [|? ? H0 Hb']; subst. inversion Hb' as [|? ? H1 _]; subst.
    destruct (word_bytes b0 b1 H0 H1) as [E1 E2].
    exists [b0; b1]. split; [reflexivity|]. split; [cbn; rewrite E1, E2; reflexivity|]. intros; reflexivity.
  - (* Imm20 *) destruct bs as [|b0 [|b1 [|b2 r]]]; cbn in H; try discriminate. inv H.
    exists [b0; b1; b2]. repeat split; reflexivity.
  - (* ImmOffset *) destruct bs as [|b0 r]; cbn in H; [discriminate|]. inv H. exists [b0]. repeat split; reflexivity.
  - (* IMem *) destruct bs as [|b0 r]; cbn in H; [discriminate|]. inv H. exists [b0]. repeat split; reflexivity.
  - inv H. exists []. repeat split; reflexivity.
  - inv H. exists []. repeat split; reflexivity.
  - inv H. exists []. repeat split; reflexivity.
  - inv H. exists []. repeat split; reflexivity.
  - inv H. exists []. repeat split; reflexivity.
  - inv H. exists []. repeat split; reflexivity.
  - (* Reg3 *) destruct bs as [|b0 r]; cbn in H; [discriminate|]. inv H. exists [b0]. repeat split; reflexivity.
  - (* RegPair *) destruct bs as [|b0 r]; cbn in H; [discriminate|].
    destruct (N.testbit b0 7 || N.testbit b0 3) eqn:E; [discriminate|]. inv H.
    exists [b0]. split; [reflexivity|]. split; [reflexivity|]. intros. cbn. rewrite E. reflexivity.
  - (* EMemAddr *) destruct bs as [|b0 [|b1 [|b2 r]]]; cbn in H; try discriminate. inv H.
    exists [b0; b1; b2]. repeat split; reflexivity.
  - (* EMemReg *) destruct bs as [|b0 r]; cbn in H; [discriminate|].
    destruct (negb (is_r3 b0)) eqn:E1; [discriminate|].
    destruct (emode_of (high4 b0)) as [m|] eqn:E2; [|discriminate].
    destruct (negb (check_allowed allowed m)) eqn:E3.
    { exfalso. exact (allowed_violation_not_ok _ _ _ _ H). }
    destruct (rd_off (has_off m) r) as [off r2| | | |] eqn:E4; cbn in H; try discriminate. inv H.
    destruct (rd_off_spec _ _ _ _ E4) as (u & -> & Hu & Hext).
    exists (b0 :: u). split; [reflexivity|]. split; [cbn; rewrite Hu; reflexivity|].
    intros. cbn. rewrite E1, E2, E3, Hext. reflexivity.
  - (* EMemIMem *) destruct bs as [|b0 [|b1 r]]; cbn in H; try discriminate.
    destruct (negb (imem_mode_ok b0)) eqn:E1; [discriminate|].
    destruct (rd_off (imem_mode_has_off b0) r) as [off r2| | | |] eqn:E4; cbn in H; try discriminate. inv H.
    destruct (rd_off_spec _ _ _ _ E4) as (u & -> & Hu & Hext).
    exists (b0 :: b1 :: u). split; [reflexivity|]. split; [cbn; rewrite Hu; reflexivity|].
    intros. cbn. rewrite E1, Hext. reflexivity.
  - (* RegIMemOffset *) destruct bs as [|b0 r]; cbn in H; [discriminate|].
    destruct (negb (is_r3 b0)) eqn:E1; [discriminate|].
    destruct r as [|b1 r]; cbn in H; [discriminate|].
    destruct (emode_of (high4 b0)) as [m|] eqn:E2; [|discriminate].
    destruct (negb (check_allowed allowed m)) eqn:E3.
    { exfalso. exact (allowed_violation_not_ok _ _ _ _ H). }
    destruct (rd_off (has_off m) r) as [off r2| | | |] eqn:E4; cbn in H; try discriminate. inv H.
    destruct (rd_off_spec _ _ _ _ E4) as (u & -> & Hu & Hext).
    exists (b0 :: b1 :: u). split; [reflexivity|]. split; [cbn; rewrite Hu; reflexivity|].
    intros. cbn. rewrite E1, E2, E3, Hext. reflexivity.
  - (* EMemIMemOffset *) destruct bs as [|b0 [|b1 [|b2 r]]]; cbn in H; try discriminate.
    destruct (negb (imem_mode_ok b0)) eqn:E1; [discriminate|].
    destruct (rd_off (imem_mode_has_off b0) r) as [off r2| | | |] eqn:E4; cbn in H; try discriminate. inv H.
    destruct (rd_off_spec _ _ _ _ E4) as (u & -> & Hu & Hext).
    exists (b0 :: b1 :: b2 :: u). split; [reflexivity|]. split; [cbn; rewrite Hu; reflexivity|].
    intros. cbn. rewrite E1, Hext. reflexivity.
Qed.

Lemma bytes_ok_app : forall a b, bytes_ok (a ++ b) -> bytes_ok a /\ bytes_ok b.
Proof. intros a b H. unfold bytes_ok in *. apply Forall_app. exact H. Qed.

(* ---- operand lists ---------------------------------------------------------------------- *)
Theorem ops_spec : forall shapes bs os rest,
  bytes_ok bs -> decode_ops shapes bs = ROk os rest ->
  exists used, bs = used ++ rest /\ flat_map encode_op os = used /\ length os = length shapes /\
               forall rest', decode_ops shapes (used ++ rest') = ROk os rest'.
Proof.
  induction shapes as [|s t IH]; intros bs os rest Hb H; cbn in H.
  - inv H. exists []. repeat split; reflexivity.
  - destruct (decode_shape s bs) as [o r1| | | |] eqn:E1; cbn in H; try discriminate.
    destruct (decode_ops t r1) as [os' r2| | | |] eqn:E2; cbn in H; try discriminate. inv H.
    destruct (shape_spec _ _ _ _ Hb E1) as (u1 & -> & Hu1 & Hext1).
    destruct (bytes_ok_app _ _ Hb) as [_ Hb1].
    destruct (IH _ _ _ Hb1 E2) as (u2 & -> & Hu2 & Hlen & Hext2).
    exists (u1 ++ u2). split; [rewrite app_assoc; reflexivity|].
    split; [cbn; rewrite Hu1, Hu2; reflexivity|].
    split; [cbn; rewrite Hlen; reflexivity|].
    intros rest'. cbn. rewrite <- app_assoc, Hext1. cbn. rewrite Hext2. reflexivity.
Qed.

(* ---- one instruction --------------------------------------------------------------------- *)
Lemma coding_order_inv : forall A rev (l l' : list A),
  coding_order rev l = Some l' -> coding_order rev l' = Some l /\ length l' = length l.
Proof.
  intros A rev l l' H. unfold coding_order in *. destruct rev.
  - destruct l as [|a [|b [|c t]]]; try discriminate. inv H. split; reflexivity.
  - inv H. split; reflexivity.
Qed.

Definition enc_body (i : instr) : option (list byte) :=
  match coding_order (d_rev (i_ent i)) (i_ops i) with
  | None => None
  | Some phys => Some ([i_opc i] ++ flat_map encode_op phys)
  end.

Theorem decode_one_spec : forall bs i rest,
  bytes_ok bs -> decode_one bs = ROk i rest ->
  exists used, bs = used ++ rest /\ length used = i_len i /\ (1 <= i_len i)%nat /\
               i_pre i = None /\ enc_body i = Some used /\ lookup (i_opc i) = Some (i_ent i) /\
               length (i_ops i) = length (d_ops (i_ent i)) /\
               forall rest', decode_one (used ++ rest') = ROk i rest'.
Proof.
  intros bs i rest Hb H. unfold decode_one in H.
  destruct bs as [|opc r0]; [discriminate|].
  destruct (lookup opc) as [e|] eqn:El; [|discriminate].
  destruct (coding_order (d_rev e) (d_ops e)) as [shapes|] eqn:Ec; [|discriminate].
  destruct (decode_ops shapes r0) as [os r1| | | |] eqn:Eo; cbn [bind] in H; try discriminate.
  destruct (coding_order (d_rev e) os) as [tbl|] eqn:Et; [|discriminate]. inv H.
  inversion Hb as [|? ? H0 Hb0]; subst.
  destruct (ops_spec _ _ _ _ Hb0 Eo) as (u & -> & Hu & Hlen & Hext).
  destruct (coding_order_inv _ _ _ _ Et) as [Et' _].
  exists (opc :: u). cbn [i_len i_pre i_opc i_ent i_ops].
  split; [reflexivity|].
  split; [cbn [length app]; rewrite ?app_length; destruct (length rest); lia|].
  split; [cbn [length app]; rewrite ?app_length; destruct (length rest); lia|].
  split; [reflexivity|].
  split; [unfold enc_body; cbn [i_ent i_ops i_opc]; rewrite Et'; cbn; rewrite Hu; reflexivity|].
  split; [exact El|].
  split; [destruct (coding_order_inv _ _ _ _ Ec) as [_ Hc1]; destruct (coding_order_inv _ _ _ _ Et) as [_ Hc2]; rewrite Hc2, Hlen, Hc1; reflexivity|].
  intros rest'. unfold decode_one. cbn [app]. rewrite El, Ec, Hext. cbn. rewrite Et.
  f_equal. f_equal. cbn [length app]. rewrite ?app_length. destruct (length rest), (length rest'); lia.
Qed.

(* the result of decode_one never carries a prefix and is a PRE exactly when its table entry is *)
Lemma encode_unprefixed : forall i, i_pre i = None -> encode i = enc_body i.
Proof.
  intros i H. unfold encode, enc_body. rewrite H. destruct (coding_order _ _); reflexivity.
Qed.

(* ---- the decoder with its lookahead ---------------------------------------------------- *)

(* no AssertionError can arise from a turn of iter_decode: the allowed-modes check rejects with
   InvalidInstruction and every reversed table entry has exactly two operands *)
Definition table_rev_ok : bool :=
  forallb (fun e => if d_rev e then Nat.eqb (length (d_ops e)) 2 else true) py_dec_table.

Lemma bind_av_no_assert : forall A (f : option N -> list byte -> rres A),
  py_allowed_mode_violation_is_assert = false -> bind allowed_violation f <> RAssert.
Proof. intros A f Hf. unfold allowed_violation. rewrite Hf. cbn. disc. Qed.

Lemma decode_shape_no_assert : forall s bs,
  py_allowed_mode_violation_is_assert = false -> decode_shape s bs <> RAssert.
Proof.
  intros s bs Hf. destruct s; cbn [decode_shape]; crush_goal; try disc;
    apply bind_av_no_assert; exact Hf.
Qed.

Lemma decode_ops_no_assert : forall shapes bs,
  py_allowed_mode_violation_is_assert = false -> decode_ops shapes bs <> RAssert.
Proof.
  intros shapes bs Hf. revert bs. induction shapes as [|s t IH]; intros bs; cbn; [disc|].
  pose proof (decode_shape_no_assert s bs Hf) as Hs.
  destruct (decode_shape s bs) as [o r| | | |]; cbn; try disc; [|exfalso; apply Hs; reflexivity].
  specialize (IH r). destruct (decode_ops t r); cbn; try disc. exfalso; apply IH; reflexivity.
Qed.

Lemma decode_one_no_assert : forall bs,
  py_allowed_mode_violation_is_assert = false -> table_rev_ok = true -> decode_one bs <> RAssert.
Proof.
  intros bs Hf Ht. unfold decode_one. destruct bs as [|opc r0]; [disc|].
  destruct (lookup opc) as [e|] eqn:El; [|disc].
  assert (Hrev : d_rev e = true -> length (d_ops e) = 2%nat).
  { intros Hr. unfold table_rev_ok in Ht. rewrite forallb_forall in Ht.
    unfold lookup in El. apply nth_error_In in El. specialize (Ht e El). rewrite Hr in Ht.
    apply Nat.eqb_eq. exact Ht. }
  unfold coding_order at 1. destruct (d_rev e) eqn:Er.
  - specialize (Hrev eq_refl). destruct (d_ops e) as [|a [|b [|c t]]]; cbn in Hrev; try discriminate Hrev.
    pose proof (decode_ops_no_assert [b; a] r0 Hf) as Hn.
    destruct (decode_ops [b; a] r0) as [os r| | | |] eqn:Eo; cbn; try disc; try (exfalso; apply Hn; reflexivity).
    assert (Hl : length os = 2%nat).
    { clear Hn. cbn in Eo.
      destruct (decode_shape b r0); cbn in Eo; try discriminate Eo.
      destruct (decode_shape a rest); cbn in Eo; try discriminate Eo. inv Eo. reflexivity. }
    destruct os as [|x [|y [|z t]]]; cbn in Hl; try discriminate Hl. cbn. disc.
  - pose proof (decode_ops_no_assert (d_ops e) r0 Hf) as Hn.
    destruct (decode_ops (d_ops e) r0) as [os r| | | |]; cbn; try disc. exfalso; apply Hn; reflexivity.
Qed.

Definition no_assert : Prop := py_allowed_mode_violation_is_assert = false /\ table_rev_ok = true.

(* decode never fails with an AssertionError under no_assert *)
Theorem decode_no_assert : forall bs, no_assert -> decode bs <> DAssert.
Proof.
  intros bs [Hf Ht]. unfold decode.
  pose proof (decode_one_no_assert bs Hf Ht) as H1.
  destruct (decode_one bs) as [i1 r1| | | |]; try disc; try (exfalso; apply H1; reflexivity).
  pose proof (decode_one_no_assert r1 Hf Ht) as H2.
  destruct (decode_one r1) as [i2 r2| | | |]; try disc; try (exfalso; apply H2; reflexivity).
  destruct (is_pre i1 && negb (is_pre i2)); [|disc].
  pose proof (decode_one_no_assert r2 Hf Ht) as H3.
  destruct (decode_one r2); cbn; try disc. exfalso; apply H3; reflexivity.
Qed.

Lemma look_assert_false : forall bs, no_assert -> look_assert (decode_one bs) = false.
Proof.
  intros bs [Hf Ht]. pose proof (decode_one_no_assert bs Hf Ht). destruct (decode_one bs); try reflexivity.
  exfalso. apply H. reflexivity.
Qed.

(* a PRE table entry has no operands, so a decoded PRE is one byte long *)
Definition table_pre_ok : bool :=
  forallb (fun e => match d_cls e with I_PRE => match d_ops e with [] => true | _ => false end | _ => true end) py_dec_table.

Lemma firstn_app_exact : forall A (a b : list A), firstn (length a) (a ++ b) = a.
Proof. intros. rewrite firstn_app, Nat.sub_diag, firstn_O, app_nil_r. apply firstn_all. Qed.

Lemma pre_one_byte : forall bs i rest,
  table_pre_ok = true -> bytes_ok bs -> decode_one bs = ROk i rest -> is_pre i = true ->
  bs = i_opc i :: rest /\ i_len i = 1%nat /\ enc_body i = Some [i_opc i].
Proof.
  intros bs i rest Ht Hb H Hp.
  destruct (decode_one_spec _ _ _ Hb H) as (u & -> & Hl & Hpos & Hpre & He & Hk & Hn & Hx).
  unfold table_pre_ok in Ht. rewrite forallb_forall in Ht.
  unfold lookup in Hk. apply nth_error_In in Hk. specialize (Ht _ Hk).
  unfold is_pre in Hp. destruct (d_cls (i_ent i)); try discriminate.
  destruct (d_ops (i_ent i)) as [|x t] eqn:Eo; [|discriminate].
  cbn in Hn. destruct (i_ops i) as [|y t'] eqn:Ei; [|discriminate].
  unfold enc_body in He. rewrite Ei in He. unfold coding_order in He.
  destruct (d_rev (i_ent i)) eqn:Er; [discriminate|]. cbn in He. inv He.
  cbn in Hl. split; [reflexivity|]. split; [symmetry; exact Hl|].
  unfold enc_body. rewrite Ei. unfold coding_order. rewrite Er. reflexivity.
Qed.

Lemma decode_nonpre_first : forall bs i1 r1,
  no_assert -> decode_one bs = ROk i1 r1 -> is_pre i1 = false -> decode bs = DOk i1.
Proof.
  intros bs i1 r1 Hna E1 Hp. unfold decode. rewrite E1.
  destruct Hna as [Hf Ht]. pose proof (decode_one_no_assert r1 Hf Ht) as H2.
  destruct (decode_one r1); try reflexivity; [|exfalso; apply H2; reflexivity].
  rewrite Hp. reflexivity.
Qed.

Definition tables_ok : Prop := no_assert /\ table_pre_ok = true.

Theorem decode_spec : forall bs i,
  tables_ok -> bytes_ok bs -> decode bs = DOk i ->
  (1 <= i_len i <= length bs)%nat /\
  encode i = Some (firstn (i_len i) bs) /\
  (lone_pre i = false -> forall t, decode (firstn (i_len i) bs ++ t) = DOk i).
Proof.
  intros bs i [Hna Htp] Hb H. unfold decode in H.
  destruct (decode_one bs) as [i1 r1| | | |] eqn:E1; try discriminate.
  destruct (decode_one_spec _ _ _ Hb E1) as (u1 & Hbs & Hl1 & Hpos1 & Hp1 & He1 & Hk1 & Hn1 & Hx1).
  subst bs. destruct (bytes_ok_app _ _ Hb) as [Hbu1 Hbr1].
  (* facts used when the first instruction is returned as it is *)
  assert (Hsame : (1 <= i_len i1 <= length (u1 ++ r1))%nat /\
                  encode i1 = Some (firstn (i_len i1) (u1 ++ r1)) /\
                  (lone_pre i1 = false -> forall t, decode (firstn (i_len i1) (u1 ++ r1) ++ t) = DOk i1)).
  { rewrite <- Hl1, firstn_app_exact. split; [rewrite app_length; lia|].
    split; [rewrite encode_unprefixed by exact Hp1; exact He1|].
    intros Hlp t. unfold lone_pre in Hlp. rewrite Hp1 in Hlp. rewrite andb_true_r in Hlp.
    eapply decode_nonpre_first; [exact Hna|apply Hx1|exact Hlp]. }
  destruct (decode_one r1) as [i2 r2| | | |] eqn:E2;
    try (inv H; exact Hsame).
  - destruct (is_pre i1 && negb (is_pre i2)) eqn:Ef; [|inv H; exact Hsame].
    (* fused *)
    rewrite (look_assert_false _ Hna) in H. inv H.
    apply andb_true_iff in Ef. destruct Ef as [Ep1 Ep2]. apply negb_true_iff in Ep2.
    destruct (pre_one_byte _ _ _ Htp Hb E1 Ep1) as (Hu & Hlen1 & Henc1).
    destruct (decode_one_spec _ _ _ Hbr1 E2) as (u2 & -> & Hl2 & Hpos2 & Hp2 & He2 & Hk2 & Hn2 & Hx2).
    assert (Hu1 : u1 = [i_opc i1]).
    { rewrite He1 in Henc1. inv Henc1. reflexivity. }
    subst u1. cbn [fuse i_len]. rewrite Hlen1.
    assert (Hfl : forall t, firstn (1 + i_len i2) ([i_opc i1] ++ u2 ++ t) = [i_opc i1] ++ u2).
    { intros t. cbn [app firstn Nat.add]. f_equal. rewrite <- Hl2. apply firstn_app_exact. }
    split; [cbn [app length]; rewrite app_length; lia|].
    split.
    + rewrite Hfl. unfold enc_body in He2.
      destruct (coding_order (d_rev (i_ent i2)) (i_ops i2)) as [phys|] eqn:Ec2; [|discriminate].
      inv He2. unfold encode, fuse. cbn [i_pre i_opc i_ent i_ops]. rewrite Ec2. reflexivity.
    + intros _ t. rewrite Hfl.
      change (decode ([i_opc i1] ++ (u2 ++ t)) = DOk (fuse i1 i2)).
      unfold decode. unfold byte in *. rewrite (Hx1 (u2 ++ t)). rewrite (Hx2 t). rewrite Ep1, Ep2. cbn [andb negb].
      rewrite (look_assert_false _ Hna). reflexivity.
Qed.

(* ---- consumers ------------------------------------------------------------------------------ *)
Lemma list_eqb_refl : forall l, list_eqb l l = true.
Proof. induction l as [|x t IH]; cbn; [reflexivity|]. rewrite N.eqb_refl, IH. reflexivity. Qed.

Theorem consumers_agree : forall bs n i,
  tables_ok -> bytes_ok bs -> c_info bs = CAccept n i ->
  c_text bs = CAccept n i /\ c_llil bs = CAccept n i /\
  (1 <= n <= length bs)%nat /\ n = i_len i /\
  forall t, c_emu (firstn n bs ++ t) = EFetch n i.
Proof.
  intros bs n i Ht Hb H. unfold c_info in H.
  destruct (decode bs) as [j| | | |] eqn:E; try discriminate.
  destruct (lone_pre j) eqn:El; [discriminate|]. inv H.
  destruct (decode_spec _ _ Ht Hb E) as (Hlen & Henc & Hind).
  split; [unfold c_text; rewrite E, Henc, list_eqb_refl; reflexivity|].
  split; [unfold c_llil; rewrite E, El; reflexivity|].
  split; [exact Hlen|]. split; [reflexivity|].
  intros t. unfold c_emu. rewrite (Hind El t). reflexivity.
Qed.

(* the text callback's round-trip guard never rejects what the decoder produced *)
Theorem text_guard_never_fires : forall bs i,
  tables_ok -> bytes_ok bs -> decode bs = DOk i -> c_text bs = CAccept (i_len i) i.
Proof.
  intros bs i Ht Hb E. destruct (decode_spec _ _ Ht Hb E) as (_ & Henc & _).
  unfold c_text. rewrite E, Henc, list_eqb_refl. reflexivity.
Qed.

(* no consumer fails with an unexpected error: every opcode byte has a table entry *)
Definition table_complete : bool := Nat.eqb (length py_dec_table) 256.

Lemma lookup_total : forall b, table_complete = true -> b < 256 -> exists e, lookup b = Some e.
Proof.
  intros b Hc Hb. unfold lookup. destruct (nth_error py_dec_table (N.to_nat b)) as [e|] eqn:E; [eauto|].
  apply nth_error_None in E. unfold table_complete in Hc. apply Nat.eqb_eq in Hc. rewrite Hc in E. lia.
Qed.

Lemma bind_av_not_notimpl : forall A (f : option N -> list byte -> rres A), bind allowed_violation f <> RNotImpl.
Proof. intros A f. unfold allowed_violation. destruct py_allowed_mode_violation_is_assert; cbn; discriminate. Qed.

Lemma decode_shape_not_notimpl : forall s l, decode_shape s l <> RNotImpl.
Proof.
  intros s l. destruct s; cbn [decode_shape]; crush_goal; try discriminate; apply bind_av_not_notimpl.
Qed.

Lemma decode_ops_not_notimpl : forall sh l, decode_ops sh l <> RNotImpl.
Proof.
  induction sh as [|s t IH]; intros l; cbn; [discriminate|].
  pose proof (decode_shape_not_notimpl s l) as Hs.
  destruct (decode_shape s l) as [o r| | | |]; cbn; try discriminate; try (exfalso; apply Hs; reflexivity).
  specialize (IH r). destruct (decode_ops t r); cbn; try discriminate. exfalso; apply IH; reflexivity.
Qed.

Lemma decode_one_not_notimpl : forall bs, table_complete = true -> bytes_ok bs -> decode_one bs <> RNotImpl.
Proof.
  intros bs Hc Hb. unfold decode_one. destruct bs as [|opc r]; [discriminate|].
  inversion Hb as [|? ? H0 _]; subst. destruct (lookup_total opc Hc H0) as [e ->].
  destruct (coding_order (d_rev e) (d_ops e)) as [l|]; [|discriminate].
  pose proof (decode_ops_not_notimpl l r) as Hn.
  destruct (decode_ops l r) as [os r'| | | |]; cbn; try discriminate; try (exfalso; apply Hn; reflexivity).
  destruct (coding_order (d_rev e) os); discriminate.
Qed.

Theorem no_crash : forall bs,
  tables_ok -> table_complete = true -> bytes_ok bs ->
  c_info bs <> CCrash /\ c_text bs <> CCrash /\ c_llil bs <> CCrash /\ c_emu bs <> ECrash.
Proof.
  intros bs [Hna Htp] Hc Hb.
  assert (Hd : decode bs <> DNotImpl).
  { unfold decode. pose proof (decode_one_not_notimpl bs Hc Hb) as H1.
    destruct (decode_one bs) as [i1 r1| | | |] eqn:E1; try discriminate; try (exfalso; apply H1; reflexivity).
    destruct (decode_one r1) as [i2 r2| | | |]; try discriminate.
    destruct (is_pre i1 && negb (is_pre i2)); [|discriminate]. destruct (look_assert _); discriminate. }
  pose proof (decode_no_assert bs Hna) as Ha.
  unfold c_info, c_text, c_llil, c_emu.
  destruct (decode bs) as [i| | | |]; try (exfalso; apply Hd; reflexivity); try (exfalso; apply Ha; reflexivity).
  - split; [destruct (lone_pre i); discriminate|].
    split; [destruct (encode i); [destruct (list_eqb _ _)|]; discriminate|].
    split; [destruct (lone_pre i); discriminate|discriminate].
  - repeat split; discriminate.
  - repeat split; discriminate.
Qed.

(* ---- C02: encoding inverts decoding ----------------------------------------------------------- *)
Theorem encode_decode_roundtrip : forall bs i,
  tables_ok -> bytes_ok bs -> decode bs = DOk i -> lone_pre i = false ->
  exists enc, encode i = Some enc /\ enc = firstn (i_len i) bs /\
              forall t, decode (enc ++ t) = DOk i.
Proof.
  intros bs i Ht Hb E Hl. destruct (decode_spec _ _ Ht Hb E) as (_ & Henc & Hind).
  exists (firstn (i_len i) bs). repeat split; auto.
Qed.

(* maximum length: prefix + opcode + at most 5 operand bytes *)
Definition shape_max (s : pshape) : nat :=
  match s with
  | PImm8 | PImmOffset _ | PIMem _ | PReg3 | PRegPair _ => 1
  | PImm16 => 2
  | PImm20 | PEMemAddr _ => 3
  | PReg _ _ | PRegB | PRegIL | PRegIMR | PRegF | PRegPC => 0
  | PEMemReg _ _ => 2
  | PEMemIMem _ => 3
  | PRegIMemOffset _ _ => 3
  | PEMemIMemOffset _ => 4
  end.

Definition ops_max (l : list pshape) : nat := fold_right (fun s a => (shape_max s + a)%nat) 0%nat l.

Definition table_max_ok : bool := forallb (fun e => Nat.leb (ops_max (d_ops e)) 5) py_dec_table.

Lemma enc_off_len : forall o, (length (enc_off o) <= 1)%nat.
Proof. destruct o; cbn; lia. Qed.


Lemma rd_off_some : forall need bs off rest, rd_off need bs = ROk off rest -> True.
Proof. trivial. Qed.

Lemma shape_len : forall s bs o rest, decode_shape s bs = ROk o rest ->
  (length (encode_op o) <= shape_max s)%nat.
Proof.
  intros s bs o rest H.
  destruct s; cbn [decode_shape] in H;
    repeat match type of H with
    | context [rd_byte ?l] => destruct l; cbn [rd_byte bind] in H; try discriminate
    | context [rd_word ?l] => destruct l as [|? [|? ?]]; cbn [rd_word bind] in H; try discriminate
    | context [if ?b then _ else _] => destruct b; cbn [bind] in H; try discriminate
    | context [match emode_of ?x with _ => _ end] => destruct (emode_of x); cbn [bind] in H; try discriminate
    | context [bind allowed_violation _] => exfalso; exact (allowed_violation_not_ok _ _ _ _ H)
    | context [rd_off ?a ?b] => destruct (rd_off a b) eqn:?; cbn [bind] in H; try discriminate
    end;
    inv H; cbn [encode_op shape_max length];
    try lia;
    match goal with |- context [enc_off ?o] => pose proof (enc_off_len o); lia end.
Qed.

Lemma ops_len : forall shapes bs os rest, decode_ops shapes bs = ROk os rest ->
  (length (flat_map encode_op os) <= ops_max shapes)%nat.
Proof.
  induction shapes as [|s t IH]; intros bs os rest H; cbn in H.
  - inv H. cbn. lia.
  - destruct (decode_shape s bs) as [o r1| | | |] eqn:E1; cbn in H; try discriminate.
    destruct (decode_ops t r1) as [os' r2| | | |] eqn:E2; cbn in H; try discriminate. inv H.
    cbn. rewrite app_length. pose proof (shape_len _ _ _ _ E1). pose proof (IH _ _ _ E2). unfold ops_max in *. lia.
Qed.

Lemma ops_max_rev : forall rev l l', coding_order rev l = Some l' -> ops_max l' = ops_max l.
Proof.
  intros rev l l' H. unfold coding_order in H. destruct rev; [|inv H; reflexivity].
  destruct l as [|a [|b [|c t]]]; try discriminate. inv H. unfold ops_max. cbn. lia.
Qed.

Lemma decode_one_len : forall bs i rest,
  table_max_ok = true -> decode_one bs = ROk i rest -> (i_len i <= 6)%nat.
Proof.
  intros bs i rest Ht H. unfold decode_one in H.
  destruct bs as [|opc r0]; [discriminate|].
  destruct (lookup opc) as [e|] eqn:El; [|discriminate].
  destruct (coding_order (d_rev e) (d_ops e)) as [shapes|] eqn:Ec; [|discriminate].
  destruct (decode_ops shapes r0) as [os r1| | | |] eqn:Eo; cbn [bind] in H; try discriminate.
  destruct (coding_order (d_rev e) os) as [tbl|] eqn:Et; [|discriminate]. inv H. cbn [i_len].
  pose proof (ops_len _ _ _ _ Eo) as Hl. rewrite (ops_max_rev _ _ _ Ec) in Hl.
  unfold table_max_ok in Ht. rewrite forallb_forall in Ht.
  unfold lookup in El. apply nth_error_In in El. specialize (Ht _ El). apply Nat.leb_le in Ht.
  (* consumed = 1 + encoded operand bytes: use ops_spec-free counting through decode_ops *)
  assert (Hc : forall sh l os' r', decode_ops sh l = ROk os' r' -> (length l = length (flat_map encode_op os') + length r')%nat).
  { induction sh as [|s t IH]; intros l os' r' Hd; cbn in Hd.
    - inv Hd. reflexivity.
    - destruct (decode_shape s l) as [o q| | | |] eqn:E1; cbn in Hd; try discriminate.
      destruct (decode_ops t q) as [os2 q2| | | |] eqn:E2; cbn in Hd; try discriminate. inv Hd.
      cbn. rewrite app_length. rewrite <- Nat.add_assoc, <- (IH _ _ _ E2).
      clear - E1.
      destruct s; cbn [decode_shape] in E1;
        repeat match type of E1 with
        | context [rd_byte ?l] => destruct l; cbn [rd_byte bind] in E1; try discriminate
        | context [rd_word ?l] => destruct l as [|? [|? ?]]; cbn [rd_word bind] in E1; try discriminate
        | context [if ?b then _ else _] => destruct b; cbn [bind] in E1; try discriminate
        | context [match emode_of ?x with _ => _ end] => destruct (emode_of x); cbn [bind] in E1; try discriminate
        | context [bind allowed_violation _] => exfalso; exact (allowed_violation_not_ok _ _ _ _ E1)
        | context [rd_off ?a ?b] => let E := fresh "Eoff" in destruct (rd_off a b) eqn:E; cbn [bind] in E1; try discriminate;
                                     unfold rd_off in E; destruct a; [destruct b; cbn in E; try discriminate|]; inv E
        end; inv E1; cbn [encode_op enc_off length app]; lia. }
  pose proof (Hc _ _ _ _ Eo) as Hc'. cbn [length]. destruct (length rest); lia.
Qed.

Theorem decode_len_le_7 : forall bs i,
  table_pre_ok = true -> table_max_ok = true -> bytes_ok bs -> decode bs = DOk i -> (i_len i <= 7)%nat.
Proof.
  intros bs i Htp Ht Hb H. unfold decode in H.
  destruct (decode_one bs) as [i1 r1| | | |] eqn:E1; try discriminate.
  pose proof (decode_one_len _ _ _ Ht E1) as L1.
  destruct (decode_one r1) as [i2 r2| | | |] eqn:E2; try (inv H; lia).
  pose proof (decode_one_len _ _ _ Ht E2) as L2.
  destruct (is_pre i1 && negb (is_pre i2)) eqn:Ef; [|inv H; lia].
  destruct (look_assert (decode_one r2)); [discriminate|]. inv H. cbn [fuse i_len].
  apply andb_true_iff in Ef. destruct Ef as [Ep _].
  destruct (pre_one_byte _ _ _ Htp Hb E1 Ep) as (_ & Hl & _). lia.
Qed.
