(* Proofs/ExecRmwDefs.v -- lemmas and tactics for read-modify-write on internal memory: ADD/SUB/ADC/SBC/AND/OR/XOR (n),imm and (n),A, INC/DEC (n),
   with no prefix and with each of the 15 prefixes.  For every n, operand, address and state with byte memory: executing the
   lifted IL leaves exactly the documented state (the cell the prefix's mode names holds the result; C, Z as documented). *)
From Coq Require Import ZArith NArith List Bool Lia.
From BE Require Import Model.TableTypes Gen.Tables Model.Regs Model.Decode Model.IL Model.Lift Model.Static Model.Spec
  Model.Emu Proofs.AluProofs Proofs.ExecProofs Proofs.AccessProofs Proofs.ExecMemProofs Proofs.ExecAluDefs.
Import ListNotations.
Open Scope Z_scope.

Lemma flags_of_rg oc oz a b : rg a = rg b -> rg (flags_of oc oz a) = rg (flags_of oc oz b).
Proof. intros H. unfold flags_of. destruct oc; destruct oz; unfold set_flag; rewrite ?setr_rg, H; reflexivity. Qed.
Lemma flags_of_mem oc oz a z : mem (flags_of oc oz a) z = mem a z.
Proof. unfold flags_of. destruct oc; destruct oz; reflexivity. Qed.
Lemma flags_of_halted oc oz a : halted (flags_of oc oz a) = halted a.
Proof. unfold flags_of. destruct oc; destruct oz; reflexivity. Qed.

Lemma rmw_final_gen s2 S a r oc oz : rg s2 = rg S -> (forall z, mem s2 z = mem S z) -> halted s2 = halted S ->
  arch_eq (store 1 (flags_of oc oz s2) a r) (flags_of oc oz (store 1 S a r)).
Proof.
  intros Hr Hm Hh. unfold arch_eq. split; [|split].
  - change (rg (store 1 (flags_of oc oz s2) a r)) with (rg (flags_of oc oz s2)).
    rewrite (flags_of_rg oc oz (store 1 S a r) S) by reflexivity. apply flags_of_rg. exact Hr.
  - intros z. rewrite flags_of_mem. unfold store. apply wr_bytes_mem_ext. intros z0. rewrite flags_of_mem. apply Hm.
  - rewrite flags_of_halted. change (halted (store 1 (flags_of oc oz s2) a r)) with (halted (flags_of oc oz s2)).
    rewrite flags_of_halted. exact Hh.
Qed.

Lemma rd_place_imem_logged s l w n m :
  rd_place (logged s l) (place_of (logged s l) (LIMem w n) m) = rd_place s (place_of s (LIMem w n) m).
Proof. destruct m; reflexivity. Qed.

Lemma eval_ebin op w f a b s x s1 y s2 r oc oz :
  eval_expr a s = Some (x, s1) -> eval_expr b s1 = Some (y, s2) -> eval_binop op w x y = Some (r, oc, oz) ->
  eval_expr (EBin op w f a b) s = Some (r, apply_flags f w r oc oz s2).
Proof. intros A B C. cbn [eval_expr]. rewrite A, B, C. reflexivity. Qed.

(* the single statement: address, then the value expression (load of the same cell, second operand), flags, store *)
Lemma run_rmw s1 m n op fl e2 (v : mstate -> Z) vv r oc oz j : mem_wf s1 -> (n < 256)%N ->
  (forall s0, eval_expr e2 s0 = Some (v s0, s0)) -> (forall s0, rg s0 = rg s1 -> v s0 = vv) ->
  eval_binop op 1 (rd_place s1 (place_of s1 (LIMem 1 n) m)) vv = Some (r, oc, oz) ->
  exists s2, run (2 + j) [SStore 1 (imem_addr m n) (EBin op 1 fl (ELoad 1 (imem_addr m n)) e2)] 0 s1 =
               RDone (store 1 (apply_flags fl 1 r oc oz s2) (fst (imem_cell s1 m n)) r) /\
             rg s2 = rg s1 /\ (forall z, mem s2 z = mem s1 z) /\ halted s2 = halted s1.
Proof.
  intros Hwf Hn He Hv Hb.
  replace (2 + j)%nat with (S (S j)) by lia. cbn [run nth_error exec_stmt].
  rewrite imem_addr_eval by assumption.
  set (sL := logged s1 (snd (imem_cell s1 m n))).
  assert (WL : mem_wf sL) by (intros a; apply Hwf).
  destruct (imem_operand_read sL m n 1%N WL Hn ltac:(auto)) as (s2 & Ev & Ro). cbv zeta in Ev.
  unfold sL in Ev at 2 3. rewrite rd_place_imem_logged in Ev. fold sL in Ev.
  destruct Ro as (R1 & R2 & R3 & _ & _).
  rewrite (eval_ebin op 1 fl _ e2 sL _ s2 vv s2 r oc oz Ev) by (try (rewrite He, (Hv s2) by (rewrite R1; reflexivity); reflexivity); exact Hb). cbn [nth_error].
  exists s2. split; [reflexivity|]. split; [rewrite R1; reflexivity|]. split; [intros z; rewrite R2; reflexivity|rewrite R3; reflexivity].
Qed.

Lemma rmw_final_cz s2 S a r c z : rg s2 = rg S -> (forall x, mem s2 x = mem S x) -> halted s2 = halted S ->
  arch_eq (store 1 (set_flag (set_flag s2 true c) false z) a r) (set_flag (set_flag (store 1 S a r) true c) false z).
Proof. exact (rmw_final_gen s2 S a r (Some c) (Some z)). Qed.
Lemma rmw_final_z s2 S a r z : rg s2 = rg S -> (forall x, mem s2 x = mem S x) -> halted s2 = halted S ->
  arch_eq (store 1 (set_flag s2 false z) a r) (set_flag (store 1 S a r) false z).
Proof. exact (rmw_final_gen s2 S a r None (Some z)). Qed.

Definition rmw_is_spec (opc : N) (ops : N -> N -> list operand) (len : nat) : Prop :=
  forall c, In c pre_choices -> forall n, (n < 256)%N -> forall k, (k < 256)%N -> forall addr s, mem_wf s ->
  exists s' t, exec_decoded (mk_pre c opc (ops n k) len) (first_byte c opc) addr s = XOk s' /\
               spec_exec (mk_pre c opc (ops n k) len) addr s = Some t /\ arch_eq s' t.

Lemma rg_s1 s x y s0 : rg s0 = rg (setr (setr s gPC x) gPC y) -> rg s0 = rg (setr s gPC y).
Proof. intros H. rewrite H. rewrite !setr_rg. rewrite py_set_pc_pc. reflexivity. Qed.

Lemma le_byte s a : mem_wf s -> 0 <= le_val s a 1 < 256.
Proof. intros H. rewrite le_val_1. apply H. Qed.

(* cls: instruction class; lem: value-level lemma eval_binop .. = Some (..); v/vv: second operand as a function of the state / its value *)
Ltac rmw_case cls lem v vv :=
  lift_mem;
  match goal with |- context [run (fuel_for ?p ?s1) ?p 0 ?s1] =>
    let j := fresh "j" in let Hj := fresh "Hj" in
    destruct (fuel_split p s1 2) as [j Hj]; [cbn; lia|]; rewrite Hj;
    match p with [SStore 1 (imem_addr ?m ?n) (EBin ?op 1 ?fl (ELoad 1 _) ?e2)] =>
      match s1 with setr (setr ?s gPC ?x) gPC ?y =>
        let W1 := fresh "W1" in assert (W1 : mem_wf s1) by (intros z; match goal with H : mem_wf s |- _ => apply H end);
        let HB := fresh "HB" in pose proof (lem (rd_place s1 (place_of s1 (LIMem 1 n) m)) vv) as HB;
        let s2 := fresh "s2" in let E := fresh "E" in let R1 := fresh "R1" in let R2 := fresh "R2" in let R3 := fresh "R3" in
        destruct (run_rmw s1 m n op fl e2 v vv _ _ _ j W1 ltac:(assumption) ltac:(intros; reflexivity)
                    ltac:(intros s0 Hs0; cbv beta; unfold get_flag, getr; rewrite ?Hs0; rewrite ?setr_rg, ?py_get_set_pc_other by (try discriminate; destruct true; discriminate); reflexivity) HB)
          as (s2 & E & R1 & R2 & R3);
        rewrite E; clear E HB;
        eexists; eexists; split; [reflexivity|]; split; [spec_mem cls; reflexivity|];
        rewrite !rd_place_imem_setr;
        change (imem_cell s1 m n) with (imem_cell s m n);
        cbn [place_of]; destruct (imem_cell s m n) as [a rs]; cbn [fst wr_place rd_place];
        change (N.to_nat 1) with 1%nat;
        pose proof (le_byte s a ltac:(assumption)) as Hb; set (b := le_val s a 1) in *;
        apply rg_s1 in R1
      end
    end
  end.

Ltac rmw_finish R1 R2 R3 :=
  unfold pmod, pwidth, width_of_place, p2; change (2 ^ (8 * Z.of_N 1)) with 256; change (2 ^ bits 1) with 256;
  repeat match goal with |- context [?v mod 256] => rewrite (Z.mod_small v 256) by lia end;
  unfold alu_add, alu_sub, alu_logic, alu_inc, alu_dec, set_cz, apply_flags, zf; cbn [r_val r_c r_z];
  first [eapply rmw_final_cz | eapply rmw_final_z];
  [exact R1 | intros z; rewrite R2; reflexivity | rewrite R3; reflexivity].

Ltac rmw_imm cls lem :=
  let n := fresh "n" in let Hn := fresh "Hn" in let k := fresh "k" in let Hk := fresh "Hk" in
  let addr := fresh "addr" in let s := fresh "s" in let Hwf := fresh "Hwf" in
  intros n Hn k Hk addr s Hwf;
  rmw_case cls lem (fun _ : mstate => Z.of_N k) (Z.of_N k);
  match goal with R1 : rg _ = rg (setr s gPC _), R2 : forall z, mem _ z = _, R3 : halted _ = _ |- _ => rmw_finish R1 R2 R3 end.

Ltac rmw_A cls lem :=
  let n := fresh "n" in let Hn := fresh "Hn" in let k := fresh "k" in let Hk := fresh "Hk" in
  let addr := fresh "addr" in let s := fresh "s" in let Hwf := fresh "Hwf" in
  intros n Hn k Hk addr s Hwf;
  rmw_case cls lem (fun s0 : mstate => getr s0 gA) (getr s gA);
  match goal with R1 : rg _ = rg (setr s gPC _), R2 : forall z, mem _ z = _, R3 : halted _ = _ |- _ =>
    pose proof (getr_A_range s) as HA; rewrite ?getr_setr_pc by discriminate; rmw_finish R1 R2 R3 end.

Ltac all_pre tac := let c := fresh "c" in let Hc := fresh "Hc" in
  intros c Hc; cbn [In pre_choices map] in Hc; repeat (destruct Hc as [<- | Hc]; [tac|]); destruct Hc.

