(* Proofs/BranchProofs2.v -- the remaining jump forms: JPF lmn (20-bit absolute), JP r3 (through a register), JP (n)
   (through a 3-byte internal-memory cell, every prefix). *)
From Coq Require Import ZArith NArith List Bool Lia Znumtheory.
From BE Require Import Model.TableTypes Gen.Tables Model.Regs Model.Decode Model.IL Model.Lift Model.Static Model.Spec
  Model.Emu Proofs.AluProofs Proofs.ExecProofs Proofs.AccessProofs Proofs.ExecMemProofs Proofs.BranchProofs.
Import ListNotations.
Open Scope Z_scope.

(* ---- JPF lmn ------------------------------------------------------------------------------------ *)
Lemma jpf_lift lo mid hi addr :
  lift_instr (mk_instr 3 [OImm20 lo mid hi] 4) addr = Some (jump_prog None (EConst 3 (Z.of_N (imm20 lo mid hi)))).
Proof. cbv -[Z.add Z.sub Z.mul Z.land Z.lor Z.of_N Z.opp Z.of_nat imm20]. reflexivity. Qed.

Lemma jpf_analyze lo mid hi addr :
  analyze (mk_instr 3 [OImm20 lo mid hi] 4) addr = Some {| b_len := 4; b_branches := [(BUncond, Some (Z.of_N (imm20 lo mid hi)))] |}.
Proof. cbv -[Z.add Z.sub Z.mul Z.land Z.lor Z.of_N Z.opp Z.of_nat imm20]. reflexivity. Qed.

Theorem jpf_exec lo mid hi addr s :
  exec_decoded (mk_instr 3 [OImm20 lo mid hi] 4) 3 addr s =
  XOk (setr (setr s gPC (Z.land addr (Z.of_N py_pc_mask))) gPC (Z.of_N (imm20 lo mid hi))).
Proof.
  unfold exec_decoded. change (3 =? 239)%N with false. cbv iota. rewrite jpf_lift.
  cbn [i_len mk_instr]. change (Z.of_nat 4) with 4.
  set (s1 := setr (setr s gPC (Z.land addr (Z.of_N py_pc_mask))) gPC (addr + 4)).
  match goal with |- context [jump_prog None ?te] => destruct (fuel_ge5 (jump_prog None te) s1) as [k Hk]; [cbn; lia|] end.
  rewrite Hk. rewrite run_jump_prog. cbn [cond_holds]. subst s1.
  f_equal. unfold setr, with_rg; cbn [rg mem halted rlog wlog]. rewrite !py_set_pc_pc. reflexivity.
Qed.

(* ---- JP r3 -------------------------------------------------------------------------------------- *)
(* operand byte -> register: only the low three bits count; 8/16-bit registers supply the low bits, the page is kept *)
Definition jp_regs : list (N * reg * N) :=
  [(0, gA, 1); (1, gIL, 1); (2, gBA, 2); (3, gI, 2); (4, gX, 3); (5, gY, 3); (6, gU, 3); (7, gS, 3)]%N.

Definition jp_r3_expr (addr : Z) (r : reg) (w : N) : expr :=
  if (3 <=? w)%N then EReg w r else EBin B_OR 3 F0 (EReg w r) (EConst 3 (Z.land addr 16711680)).
Definition jp_r3_target (addr : Z) (s : mstate) (r : reg) (w : N) : Z :=
  if (3 <=? w)%N then getr s r else Z.lor (getr s r) (Z.land addr 16711680).

Lemma jp_r3_lift raw addr k r w : In (k, r, w) jp_regs -> (raw mod 8 = k)%N ->
  lift_instr (mk_instr 17 [OReg3 raw] 2) addr = Some (jump_prog None (jp_r3_expr addr r w)).
Proof.
  intros H Hk. cbn [In jp_regs] in H.
  repeat (destruct H as [H|H]; [injection H as <- <- <-;
    cbv -[Z.add Z.sub Z.mul Z.land Z.lor Z.of_N Z.opp Z.of_nat N.modulo]; rewrite Hk;
    cbv -[Z.add Z.sub Z.mul Z.land Z.lor Z.of_N Z.opp Z.of_nat]; reflexivity|]).
  destruct H.
Qed.

Lemma jp_r3_analyze raw addr k r w : In (k, r, w) jp_regs -> (raw mod 8 = k)%N ->
  analyze (mk_instr 17 [OReg3 raw] 2) addr = Some {| b_len := 2; b_branches := [(BUnresolved, None)] |}.
Proof.
  intros H Hk. cbv -[Z.add Z.sub Z.mul Z.land Z.lor Z.of_N Z.opp Z.of_nat N.modulo]. reflexivity.
Qed.

Lemma jp_regs_not_pc k r w : In (k, r, w) jp_regs -> r <> gPC.
Proof. intros H. cbn [In jp_regs] in H. repeat (destruct H as [H|H]; [injection H as _ <- _; discriminate|]). destruct H. Qed.

Lemma eval_jp_r3_expr addr r w s : eval_expr (jp_r3_expr addr r w) s = Some (jp_r3_target addr s r w, s).
Proof. unfold jp_r3_expr, jp_r3_target. destruct (3 <=? w)%N; reflexivity. Qed.

Lemma run_jump_none te tv s k : eval_expr te s = Some (tv, s) ->
  run (5 + k) (jump_prog None te) 0 s = RDone (setr s gPC tv).
Proof. intros Ht. cbn [jump_prog run Nat.add nth_error exec_stmt]. rewrite Ht. reflexivity. Qed.

Theorem jp_r3_exec raw addr s k r w : In (k, r, w) jp_regs -> (raw mod 8 = k)%N ->
  exec_decoded (mk_instr 17 [OReg3 raw] 2) 17 addr s =
  XOk (setr (setr s gPC (Z.land addr (Z.of_N py_pc_mask))) gPC (jp_r3_target addr s r w)).
Proof.
  intros H Hk. unfold exec_decoded. change (17 =? 239)%N with false. cbv iota. rewrite (jp_r3_lift raw addr k r w H Hk).
  cbn [i_len mk_instr]. change (Z.of_nat 2) with 2.
  set (s1 := setr (setr s gPC (Z.land addr (Z.of_N py_pc_mask))) gPC (addr + 2)).
  match goal with |- context [jump_prog None ?te] => destruct (fuel_ge5 (jump_prog None te) s1) as [j Hj]; [cbn; lia|] end.
  rewrite Hj. rewrite (run_jump_none _ _ s1 j (eval_jp_r3_expr addr r w s1)).
  assert (E : jp_r3_target addr s1 r w = jp_r3_target addr s r w).
  { unfold jp_r3_target, s1. rewrite !getr_setr_pc by (apply (jp_regs_not_pc k r w H)). reflexivity. }
  rewrite E. subst s1. f_equal. unfold setr, with_rg; cbn [rg mem halted rlog wlog]. rewrite !py_set_pc_pc. reflexivity.
Qed.

(* ---- JP (n), every prefix ------------------------------------------------------------------------- *)
Lemma py_set_pc_mod20 p v : 0 <= v -> py_set p gPC (Z.to_N ((v mod 1048576) mod 4294967296)) = py_set p gPC (Z.to_N (v mod 4294967296)).
Proof.
  intros Hv. destruct p as [ba i x y u sp pc f t]. cbn [py_set]. f_equal. unfold p20.
  apply N2Z.inj. rewrite !N2Z.inj_mod. rewrite !Z2N.id by (apply Z.mod_pos_bound; lia). change (Z.of_N 1048576) with 1048576.
  assert (D : (1048576 | 4294967296)) by (exists 4096; reflexivity).
  rewrite <- !(Zmod_div_mod 1048576 4294967296) by (try lia; exact D).
  rewrite Z.mod_mod by lia. reflexivity.
Qed.

Lemma jp_final s x y m n j : mem_wf s -> (n < 256)%N ->
  exists s', run (4 + j) [SLabel 0; SJump (ELoad 3 (imem_addr m n)); SLabel 1] 0 (setr (setr s gPC x) gPC y) = RDone s' /\
             arch_eq s' (setr (setr s gPC y) gPC (rd_place s (place_of s (LIMem 3 n) m) mod 1048576)).
Proof.
  intros Hwf Hn.
  set (s1 := setr (setr s gPC x) gPC y).
  assert (W1 : mem_wf s1) by (intros a; apply Hwf).
  destruct (imem_operand_read s1 m n 3 W1 Hn ltac:(auto)) as (s' & Ev & Ro). cbv zeta in Ev.
  replace (4 + j)%nat with (S (S (S (S j)))) by lia. cbn [run nth_error exec_stmt]. rewrite Ev. cbn [nth_error exec_stmt run].
  eexists. split; [reflexivity|].
  destruct Ro as (R1 & R2 & R3 & _ & _).
  unfold arch_eq. split; [|split].
  - rewrite !setr_rg. rewrite R1. subst s1. rewrite !rd_place_imem_setr. rewrite !setr_rg. rewrite !py_set_pc_pc.
    rewrite py_set_pc_mod20; [reflexivity|].
    cbn [place_of]. destruct (imem_cell s m n) as [a rs]. cbn [rd_place]. change (N.to_nat 3) with 3%nat. rewrite le_val_3.
    pose proof (Hwf a). pose proof (Hwf (a + 1)). pose proof (Hwf (a + 1 + 1)). lia.
  - intros a. cbn [setr with_rg mem]. rewrite R2. reflexivity.
  - cbn [setr with_rg halted]. rewrite R3. reflexivity.
Qed.

Definition jp_imem_is_spec : Prop :=
  forall c, In c pre_choices -> forall n, (n < 256)%N -> forall addr s, mem_wf s ->
  analyze (mk_pre c 16 [OIMem 3 n] 2) addr <> None /\
  exists s' t, exec_decoded (mk_pre c 16 [OIMem 3 n] 2) (first_byte c 16) addr s = XOk s' /\
               spec_exec (mk_pre c 16 [OIMem 3 n] 2) addr s = Some t /\ arch_eq s' t.

Ltac jp_imem_case :=
  let n := fresh "n" in let Hn := fresh "Hn" in let addr := fresh "addr" in let s := fresh "s" in let Hwf := fresh "Hwf" in
  intros n Hn addr s Hwf; split;
  [cbv -[Z.add Z.sub Z.mul Z.land Z.lor Z.of_N Z.opp Z.of_nat N.modulo]; discriminate|];
  lift_mem;
  match goal with |- context [run (fuel_for ?p ?s1) ?p 0 ?s1] =>
    let j := fresh "j" in let Hj := fresh "Hj" in
    destruct (fuel_split p s1 4) as [j Hj]; [cbn; lia|]; rewrite Hj;
    match p with [SLabel 0; SJump (ELoad 3 (imem_addr ?m _)); SLabel 1] =>
      match s1 with setr (setr _ gPC ?x) gPC ?y =>
        let s' := fresh "s'" in let E := fresh "E" in let AE := fresh "AE" in
        destruct (jp_final s x y m n j Hwf Hn) as (s' & E & AE); rewrite E;
        eexists; eexists; split; [reflexivity|]; split;
        [spec_mem I_JP_Abs;
         match goal with |- context [d_cond (i_ent ?i)] => change (d_cond (i_ent i)) with (@None cond) end;
         cbn [lop_width]; change (Z.of_N 3 <? 3) with false; cbv iota; reflexivity
        |exact AE]
      end
    end
  end.

Theorem jp_imem : jp_imem_is_spec.
Proof.
  intros c Hc. cbn [In pre_choices map] in Hc.
  repeat (destruct Hc as [<- | Hc]; [jp_imem_case|]). destruct Hc.
Qed.

Lemma jump_forms_check :
  map (fun o => (d_cls (entry_of o), d_ops (entry_of o), d_cond (entry_of o))) [3; 16; 17]%N =
  [(I_JP_Abs, [PImm20], None); (I_JP_Abs, [PIMem 3], None); (I_JP_Abs, [PReg3], None)].
Proof. vm_compute. reflexivity. Qed.

(* every operand byte of JP r3 selects one of the eight rows *)
Lemma jp_regs_cover raw : exists k r w, In (k, r, w) jp_regs /\ (raw mod 8 = k)%N.
Proof.
  pose proof (N.mod_upper_bound raw 8 ltac:(discriminate)) as H.
  destruct (raw mod 8)%N as [|p] eqn:E; [exists 0%N, gA, 1%N; split; [cbn; auto|reflexivity]|].
  destruct p as [[[p|p|]|[p|p|]|]|[[p|p|]|[p|p|]|]|]; try (exfalso; lia);
    eexists; eexists; eexists; (split; [|reflexivity]); cbn [In jp_regs]; repeat (first [left; reflexivity | right]).
Qed.
