(* Proofs/ExecRmwProofs2.v -- INC/DEC (n) and ADC/SBC (n),imm | (n),A on internal memory, every prefix (continues ExecRmwProofs.v). *)
From Coq Require Import ZArith NArith List Bool Lia.
From BE Require Import Model.TableTypes Gen.Tables Model.Regs Model.Decode Model.IL Model.Lift Model.Static Model.Spec
  Model.Emu Proofs.AluProofs Proofs.ExecProofs Proofs.AccessProofs Proofs.ExecMemProofs Proofs.ExecAluDefs Proofs.ExecRmwDefs.
Import ListNotations.
Open Scope Z_scope.
(* INC / DEC (n): Z only *)
Ltac rmw_one cls lem fixer :=
  let n := fresh "n" in let Hn := fresh "Hn" in let k := fresh "k" in let Hk := fresh "Hk" in
  let addr := fresh "addr" in let s := fresh "s" in let Hwf := fresh "Hwf" in
  intros n Hn k Hk addr s Hwf;
  rmw_case cls lem (fun _ : mstate => 1) 1;
  match goal with R1 : rg _ = rg (setr s gPC _), R2 : forall z, mem _ z = _, R3 : halted _ = _ |- _ =>
    unfold alu_add, alu_sub, alu_inc, alu_dec; cbn [r_val r_c r_z]; fixer; rmw_finish R1 R2 R3 end.

Theorem inc_imem : rmw_is_spec 109 (fun n _ => [OIMem 1 n]) 2.
Proof.
  all_pre ltac:(rmw_one I_INC (il_add_documented 1)
    ltac:(idtac; match goal with |- context [?b + 1 + 0] => replace (b + 1 + 0) with (b + 1) by lia end)).
Qed.
Theorem dec_imem : rmw_is_spec 125 (fun n _ => [OIMem 1 n]) 2.
Proof.
  all_pre ltac:(rmw_one I_DEC (il_sub_documented 1)
    ltac:(idtac; match goal with |- context [?b - 1 - 0] => replace (b - 1 - 0) with (b - 1) by lia end)).
Qed.

(* ADC / SBC (n),imm and (n),A: the second operand is (operand + C) at 3-byte width *)
Ltac rmw_carry cls lem x fixer :=
  match goal with s : mstate |- _ =>
  rmw_case cls lem (fun s0 : mstate => band (x s0 + get_flag s0 true) (maskw 3)) (band (x s + get_flag s true) (maskw 3));
  match goal with R1 : rg _ = rg (setr s gPC _), R2 : forall z, mem _ z = _, R3 : halted _ = _ |- _ =>
    let Hc := fresh "Hc" in pose proof (flag_range s true) as Hc;
    let HA := fresh "HA" in pose proof (getr_A_range s) as HA;
    unfold flagC; fold (get_flag s true);
    let cc := fresh "cc" in set (cc := get_flag s true) in *;
    cbv beta; rewrite ?getr_setr_pc by discriminate;
    match goal with |- context [band (?xv + cc) (maskw 3)] => rewrite (band3 (xv + cc)) by lia end;
    unfold pmod, pwidth, width_of_place, p2; change (2 ^ (8 * Z.of_N 1)) with 256; change (2 ^ bits 1) with 256;
    repeat match goal with |- context [?v mod 256] => rewrite (Z.mod_small v 256) by lia end;
    unfold alu_add, alu_sub; cbn [r_val r_c r_z];
    fixer cc;
    rmw_finish R1 R2 R3
  end end.

Ltac fixc_add cc :=
  match goal with |- context [?a + (?b + cc) + 0] => replace (a + (b + cc) + 0) with (a + b + cc) by lia end.
Ltac fixc_sub cc :=
  match goal with |- context [?a - (?b + cc) - 0] =>
    replace (a - (b + cc) - 0) with (a - b - cc) by lia;
    replace (a <? b + cc + 0) with (a <? b + cc)
      by (destruct (a <? b + cc) eqn:?E1; destruct (a <? b + cc + 0) eqn:?E2; lia) end.

Ltac rmw_c_imm cls lem fixer :=
  let n := fresh "n" in let Hn := fresh "Hn" in let k := fresh "k" in let Hk := fresh "Hk" in
  let addr := fresh "addr" in let s := fresh "s" in let Hwf := fresh "Hwf" in
  intros n Hn k Hk addr s Hwf; rmw_carry cls lem (fun _ : mstate => Z.of_N k) fixer.
Ltac rmw_c_A cls lem fixer :=
  let n := fresh "n" in let Hn := fresh "Hn" in let k := fresh "k" in let Hk := fresh "Hk" in
  let addr := fresh "addr" in let s := fresh "s" in let Hwf := fresh "Hwf" in
  intros n Hn k Hk addr s Hwf; rmw_carry cls lem (fun s0 : mstate => getr s0 gA) fixer.

Theorem adc_imem_imm : rmw_is_spec 81 (fun n k => [OIMem 1 n; OImm8 k]) 3.
Proof. all_pre ltac:(rmw_c_imm I_ADC (il_add_documented 1) fixc_add). Qed.
Theorem sbc_imem_imm : rmw_is_spec 89 (fun n k => [OIMem 1 n; OImm8 k]) 3.
Proof. all_pre ltac:(rmw_c_imm I_SBC (il_sub_documented 1) fixc_sub). Qed.
Theorem adc_imem_A : rmw_is_spec 83 (fun n _ => [OIMem 1 n; OReg RA 1]) 2.
Proof. all_pre ltac:(rmw_c_A I_ADC (il_add_documented 1) fixc_add). Qed.
Theorem sbc_imem_A : rmw_is_spec 91 (fun n _ => [OIMem 1 n; OReg RA 1]) 2.
Proof. all_pre ltac:(rmw_c_A I_SBC (il_sub_documented 1) fixc_sub). Qed.

Lemma rmw_opcodes_check :
  map (fun o => (d_cls (entry_of o), d_ops (entry_of o))) [65; 73; 81; 89; 113; 121; 105; 67; 75; 83; 91; 115; 123; 107; 109; 125]%N =
  map (fun c => (c, [PIMem 1; PImm8])) [I_ADD; I_SUB; I_ADC; I_SBC; I_AND; I_OR; I_XOR] ++
  map (fun c => (c, [PIMem 1; PReg RA 1])) [I_ADD; I_SUB; I_ADC; I_SBC; I_AND; I_OR; I_XOR] ++
  [(I_INC, [PIMem 1]); (I_DEC, [PIMem 1])].
Proof. vm_compute. reflexivity. Qed.
