(* Proofs/AluProofs.v -- the IL the lifter emits for each ALU operation computes the documented result and flags.

   Two kinds of statement:
   - arithmetic at any width (ADD/SUB/INC/DEC/CMP): the evaluator's masked result and carry are the documented
     (a op b) mod 2^(8w) and carry/borrow, for all non-negative operands (lia, no bound);
   - the 8-bit operations built from several IL nodes (AND/OR/XOR/TEST, ROR/ROL/SHL/SHR/SWAP, PMDF, the BCD digit
     emulation, ADC/SBC): the expression the lifter builds is evaluated inside Coq on all 2^8 x 2^8 x 2 operand
     / carry-in values (the property's own quantifier) and compared with the documented function; the finite
     sweep is lifted to a universally quantified statement over the stated ranges with forallb_forall. *)
From Coq Require Import ZArith NArith List Bool Lia.
From BE Require Import Model.TableTypes Gen.Tables Model.Regs Model.Decode Model.IL Model.Lift Model.Static Model.Spec Model.Emu.
Import ListNotations.
Open Scope Z_scope.

(* ---- arithmetic at any width ------------------------------------------------------------------ *)
Lemma maskw_ones (w : N) : maskw w = Z.ones (bits w).
Proof. unfold maskw. rewrite Z.ones_equiv. lia. Qed.

Lemma bits_nonneg (w : N) : 0 <= bits w.
Proof. unfold bits. lia. Qed.

Lemma band_mask (v : Z) (w : N) : band v (maskw w) = v mod 2 ^ bits w.
Proof. unfold band. rewrite maskw_ones. apply Z.land_ones. apply bits_nonneg. Qed.

Lemma p2_bits (w : N) : p2 (Z.of_N w) = 2 ^ bits w.
Proof. reflexivity. Qed.

Lemma pow_pos (w : N) : 0 < 2 ^ bits w.
Proof. apply Z.pow_pos_nonneg; [lia | apply bits_nonneg]. Qed.

(* ADD.w{CZ}: result (a+b) mod 2^(8w), C = carry out, Z = result is zero *)
Lemma il_add_documented (w : N) (a b : Z) :
  eval_binop B_ADD w a b =
  Some (r_val (alu_add (2 ^ bits w) a b 0), r_c (alu_add (2 ^ bits w) a b 0), r_z (alu_add (2 ^ bits w) a b 0)).
Proof.
  unfold eval_binop, alu_add, zf; cbn [r_val r_c r_z].
  rewrite !band_mask. replace (a + b + 0) with (a + b) by lia.
  pose proof (pow_pos w) as Hp.
  replace (maskw w <? a + b) with (2 ^ bits w <=? a + b); [reflexivity|].
  unfold maskw. destruct (2 ^ bits w <=? a + b) eqn:E1; destruct (2 ^ bits w - 1 <? a + b) eqn:E2; lia.
Qed.

(* SUB.w{CZ}: result (a-b) mod 2^(8w), C = borrow *)
Lemma il_sub_documented (w : N) (a b : Z) :
  eval_binop B_SUB w a b =
  Some (r_val (alu_sub (2 ^ bits w) a b 0), r_c (alu_sub (2 ^ bits w) a b 0), r_z (alu_sub (2 ^ bits w) a b 0)).
Proof.
  unfold eval_binop, alu_sub, zf; cbn [r_val r_c r_z].
  rewrite !band_mask. replace (a - b - 0) with (a - b) by lia. replace (b + 0) with b by lia.
  replace (a - b <? 0) with (a <? b); [reflexivity|].
  destruct (a <? b) eqn:E1; destruct (a - b <? 0) eqn:E2; lia.
Qed.

(* ---- evaluation of a lifted expression on constant operands ---------------------------------------- *)
Definition st0 (f : Z) : mstate := mk_state 0 0 0 0 0 0 (Z.to_N f) (repeat 0%N 14) [] 0.

(* result, C, Z after evaluating e with F = f before *)
Definition eval_cz (e : expr) (f : Z) : option (Z * Z * Z) :=
  match eval_expr e (st0 f) with
  | Some (v, s) => Some (v, get_flag s true, get_flag s false)
  | None => None
  end.

Fixpoint upto (n : nat) : list Z := match n with O => [] | S k => upto k ++ [Z.of_nat k] end.

Lemma upto_in (n : nat) (x : Z) : 0 <= x < Z.of_nat n -> In x (upto n).
Proof.
  induction n as [|n IH]; intros H; [lia|].
  cbn [upto]. apply in_or_app.
  destruct (Z.eq_dec x (Z.of_nat n)) as [->|Hne]; [right; left; reflexivity | left; apply IH; lia].
Qed.

(* flags an operation leaves alone keep the value they had (C = c, Z = z before) *)
Definition agrees (got : option (Z * Z * Z)) (d : alu) (c z : Z) : bool :=
  match got with
  | Some (v, fc, fz) =>
      (v =? r_val d) && (fc =? match r_c d with Some x => x | None => c end)
      && (fz =? match r_z d with Some x => x | None => z end)
  | None => false
  end.

Definition doc2 (cls : icls) (a b c : Z) : alu :=
  match cls with
  | I_ADD => alu_add 256 a b 0 | I_ADC => alu_add 256 a b c
  | I_SUB => alu_sub 256 a b 0 | I_SBC => alu_sub 256 a b c
  | I_AND => alu_logic Z.land a b | I_OR => alu_logic Z.lor a b | I_XOR => alu_logic Z.lxor a b
  | _ => {| r_val := (a + b) mod 256; r_c := None; r_z := None |}            (* PMDF *)
  end.

Definition doc1 (cls : icls) (a c : Z) : alu :=
  match cls with
  | I_INC => alu_inc 256 a | I_DEC => alu_dec 256 a
  | I_ROR => alu_ror a | I_ROL => alu_rol a | I_SHL => alu_shl a c | I_SHR => alu_shr a c
  | _ => alu_swap a
  end.

(* F before: C = c, Z = z *)
Definition ok2 (cls : icls) (a b c z : Z) : bool :=
  match operation2 cls 1 (EConst 1 a) (EConst 1 b) with
  | Some e => agrees (eval_cz e (c + 2 * z)) (doc2 cls a b c) c z
  | None => false
  end.
Definition ok1 (cls : icls) (a c z : Z) : bool :=
  match operation1 cls 1 (EConst 1 a) with
  | Some e => agrees (eval_cz e (c + 2 * z)) (doc1 cls a c) c z
  | None => false
  end.

Definition bits01 : list Z := [0; 1].
Definition sweep2 (cls : icls) : bool :=
  forallb (fun a => forallb (fun b => forallb (fun c => forallb (fun z => ok2 cls a b c z) bits01) bits01) (upto 256)) (upto 256).
Definition sweep1 (cls : icls) : bool :=
  forallb (fun a => forallb (fun c => forallb (fun z => ok1 cls a c z) bits01) bits01) (upto 256).

Lemma sweep2_all (cls : icls) : sweep2 cls = true ->
  forall a b c z, 0 <= a < 256 -> 0 <= b < 256 -> 0 <= c <= 1 -> 0 <= z <= 1 -> ok2 cls a b c z = true.
Proof.
  intros H a b c z Ha Hb Hc Hz. unfold sweep2 in H.
  rewrite forallb_forall in H. specialize (H a (upto_in 256 a Ha)).
  rewrite forallb_forall in H. specialize (H b (upto_in 256 b Hb)).
  rewrite forallb_forall in H. assert (Hic : In c bits01) by (unfold bits01; cbn; lia).
  specialize (H c Hic). rewrite forallb_forall in H.
  assert (Hiz : In z bits01) by (unfold bits01; cbn; lia). exact (H z Hiz).
Qed.

Lemma sweep1_all (cls : icls) : sweep1 cls = true ->
  forall a c z, 0 <= a < 256 -> 0 <= c <= 1 -> 0 <= z <= 1 -> ok1 cls a c z = true.
Proof.
  intros H a c z Ha Hc Hz. unfold sweep1 in H.
  rewrite forallb_forall in H. specialize (H a (upto_in 256 a Ha)).
  rewrite forallb_forall in H. assert (Hic : In c bits01) by (unfold bits01; cbn; lia).
  specialize (H c Hic). rewrite forallb_forall in H.
  assert (Hiz : In z bits01) by (unfold bits01; cbn; lia). exact (H z Hiz).
Qed.

Lemma sweep_add : sweep2 I_ADD = true. Proof. vm_compute. reflexivity. Qed.
Lemma sweep_sub : sweep2 I_SUB = true. Proof. vm_compute. reflexivity. Qed.
Lemma sweep_and : sweep2 I_AND = true. Proof. vm_compute. reflexivity. Qed.
Lemma sweep_or : sweep2 I_OR = true. Proof. vm_compute. reflexivity. Qed.
Lemma sweep_xor : sweep2 I_XOR = true. Proof. vm_compute. reflexivity. Qed.
Lemma sweep_pmdf : sweep2 I_PMDF = true. Proof. vm_compute. reflexivity. Qed.
Lemma sweep_inc : sweep1 I_INC = true. Proof. vm_compute. reflexivity. Qed.
Lemma sweep_dec : sweep1 I_DEC = true. Proof. vm_compute. reflexivity. Qed.
Lemma sweep_ror : sweep1 I_ROR = true. Proof. vm_compute. reflexivity. Qed.
Lemma sweep_rol : sweep1 I_ROL = true. Proof. vm_compute. reflexivity. Qed.
Lemma sweep_shl : sweep1 I_SHL = true. Proof. vm_compute. reflexivity. Qed.
Lemma sweep_shr : sweep1 I_SHR = true. Proof. vm_compute. reflexivity. Qed.
Lemma sweep_swap : sweep1 I_SWAP = true. Proof. vm_compute. reflexivity. Qed.

(* ADC / SBC: the carry-in is added at 3-byte width, so operand + carry-in = 256 reaches the flag-setting node *)
Lemma sweep_adc : sweep2 I_ADC = true. Proof. vm_compute. reflexivity. Qed.
Lemma sweep_sbc : sweep2 I_SBC = true. Proof. vm_compute. reflexivity. Qed.

(* ---- BCD digit emulation ------------------------------------------------------------------------ *)
(* run the statements bcd_add_emul / bcd_sub_emul emit on constant operands; result = value of the temp they return *)
Definition run_bcd (subtract : bool) (a b c : Z) : option (Z * Z * Z) :=
  match (if subtract then bcd_sub_emul else bcd_add_emul) (EConst 1 a) (EConst 1 b) {| code := []; nextl := 0 |} with
  | Some (res, st) =>
      let prog := rev (code st) in
      match run (S (length prog)) prog 0 (st0 c) with
      | RDone s =>
          match eval_expr res s with
          | Some (v, _) => Some (v, get_flag s true, get_flag s false)
          | None => None
          end
      | _ => None
      end
  | None => None
  end.

Definition bcd_ok (subtract : bool) (a b c : Z) : bool :=
  agrees (run_bcd subtract a b c) (if subtract then bcd_sub a b c else bcd_add a b c) c 0.

Definition bcd_sweep (subtract : bool) : bool :=
  forallb (fun a => forallb (fun b => forallb (fun c => bcd_ok subtract a b c) bits01) (upto 256)) (upto 256).

Lemma bcd_add_sweep : bcd_sweep false = true. Proof. vm_compute. reflexivity. Qed.
Lemma bcd_sub_sweep : bcd_sweep true = true. Proof. vm_compute. reflexivity. Qed.

Lemma bcd_sweep_all (subtract : bool) : bcd_sweep subtract = true ->
  forall a b c, 0 <= a < 256 -> 0 <= b < 256 -> 0 <= c <= 1 -> bcd_ok subtract a b c = true.
Proof.
  intros H a b c Ha Hb Hc. unfold bcd_sweep in H.
  rewrite forallb_forall in H. specialize (H a (upto_in 256 a Ha)).
  rewrite forallb_forall in H. specialize (H b (upto_in 256 b Hb)).
  rewrite forallb_forall in H. apply H. unfold bits01; cbn; lia.
Qed.

(* packed BCD meaning: for valid digits the documented byte function is decimal addition / subtraction *)
Definition bcd_val (x : Z) : Z := 10 * (x / 16) + x mod 16.
Definition valid_bcd (x : Z) : bool := (x / 16 <? 10) && (x mod 16 <? 10).

Definition dec_add_ok (a b c : Z) : bool :=
  negb (valid_bcd a && valid_bcd b) ||
  (let r := bcd_add a b c in
   let t := bcd_val a + bcd_val b + c in
   valid_bcd (r_val r) && (bcd_val (r_val r) =? t mod 100) && (match r_c r with Some x => x =? t / 100 | None => false end)).
Definition dec_sub_ok (a b c : Z) : bool :=
  negb (valid_bcd a && valid_bcd b) ||
  (let r := bcd_sub a b c in
   let t := bcd_val a - bcd_val b - c in
   valid_bcd (r_val r) && (bcd_val (r_val r) =? t mod 100) && (match r_c r with Some x => x =? b2z (t <? 0) | None => false end)).

Definition dec_sweep (f : Z -> Z -> Z -> bool) : bool :=
  forallb (fun a => forallb (fun b => forallb (fun c => f a b c) bits01) (upto 256)) (upto 256).
Lemma dec_add_sweep : dec_sweep dec_add_ok = true. Proof. vm_compute. reflexivity. Qed.
Lemma dec_sub_sweep : dec_sweep dec_sub_ok = true. Proof. vm_compute. reflexivity. Qed.

Lemma dec_sweep_all (f : Z -> Z -> Z -> bool) : dec_sweep f = true ->
  forall a b c, 0 <= a < 256 -> 0 <= b < 256 -> 0 <= c <= 1 -> f a b c = true.
Proof.
  intros H a b c Ha Hb Hc. unfold dec_sweep in H.
  rewrite forallb_forall in H. specialize (H a (upto_in 256 a Ha)).
  rewrite forallb_forall in H. specialize (H b (upto_in 256 b Hb)).
  rewrite forallb_forall in H. apply H. unfold bits01; cbn; lia.
Qed.
