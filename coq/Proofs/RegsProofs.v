(* Proofs about Model/Regs.v (property C08). *)
From Coq Require Import ZArith NArith List Bool Lia ZifyBool ZifyN ZifyNat.
From BE Require Import Model.Regs.
Import ListNotations.
Ltac Zify.zify_post_hook ::= Z.to_euclidean_division_equations.
Open Scope N_scope.

Ltac unp := unfold p8, p16, p20, p24, p32 in *.
Arguments Nat.ltb : simpl never.
Arguments N.modulo : simpl never.
Arguments N.div : simpl never.
Arguments N.mul : simpl never.
Arguments N.add : simpl never.
Arguments N.sub : simpl never.
Arguments N.pow : simpl never.
Arguments NTEMP : simpl never.

(* ---- list helpers -------------------------------------------------------------------- *)
Lemma upd_length : forall T (l : list T) i v, length (upd l i v) = length l.
Proof. induction l as [|h t gIH]; intros [|j] v; cbn; auto. Qed.

Lemma nth_upd_same : forall T (l : list T) i v d, (i < length l)%nat -> nth i (upd l i v) d = v.
Proof. induction l as [|h t gIH]; intros [|j] v d H; cbn in *; try (exfalso; exact (Nat.nlt_0_r _ H)); auto. apply gIH. apply Nat.succ_lt_mono. exact H. Qed.

Lemma nth_upd_other : forall T (l : list T) i j v d, i <> j -> nth j (upd l i v) d = nth j l d.
Proof. induction l as [|h t gIH]; intros [|i] [|j] v d H; cbn; auto; try congruence. Qed.

Lemma map_upd : forall T gU (f : T -> gU) (l : list T) i v, map f (upd l i v) = upd (map f l) i (f v).
Proof. induction l as [|h t gIH]; intros [|j] v; cbn; auto. f_equal. apply gIH. Qed.

(* ---- well-formed Python state ---------------------------------------------------------- *)
Definition wf (s : pyregs) : Prop :=
  y_ba s < p16 /\ y_i s < p16 /\ y_x s < p20 /\ y_y s < p20 /\ y_u s < p20 /\ y_s s < p20 /\ y_pc s < p20 /\
  y_f s < p8 /\ length (y_t s) = NTEMP /\ Forall (fun v => v < p24) (y_t s).

Definition valid (r : reg) : Prop := match r with gTEMP k => (k < NTEMP)%nat | _ => True end.

Definition width (r : reg) : N :=
  match r with
  | gA | gB | gIL | gIH | gF => p8 | gBA | gI => p16 | gX | gY | gU | gS | gPC => p20 | gFC | gFZ => 2 | gTEMP _ => p24
  end.

Lemma wf_init : wf py_init.
Proof.
  unfold wf, py_init; cbn. unp. repeat split; try lia. repeat constructor.
Qed.

Lemma Forall_upd : forall (P : N -> Prop) l i v, Forall P l -> P v -> Forall P (upd l i v).
Proof. induction l as [|h t gIH]; intros [|j] v Hl Hv; cbn; auto; inversion Hl; subst; constructor; auto. Qed.

Lemma wf_set : forall s r v, wf s -> wf (py_set s r v).
Proof.
  intros [ba i x y u sp pc f t] r v (H1 & H2 & H3 & H4 & H5 & H6 & H7 & H8 & H9 & H10).
  cbn in H1, H2, H3, H4, H5, H6, H7, H8, H9, H10.
  destruct r as [| | | | | | | | | | | | | |k];
    try (cbn; unfold wf; cbn; unfold set_lo, set_hi, set_b0, set_b1; unp;
         repeat split; first [assumption | lia]).
  unfold py_set; cbv beta iota. unfold wf; cbn [y_ba y_i y_x y_y y_u y_s y_pc y_f y_t].
  repeat split; try assumption.
  - destruct (Nat.ltb k NTEMP); [rewrite upd_length|]; assumption.
  - destruct (Nat.ltb k NTEMP); [|assumption]. apply Forall_upd; [assumption|unp; lia].
Qed.

(* ---- spec laws on the Python model --------------------------------------------------- *)
Theorem py_read_after_write : forall s r v, wf s -> valid r -> py_get (py_set s r v) r = v mod width r.
Proof.
  intros [ba i x y u sp pc f t] r v (H1 & H2 & H3 & H4 & H5 & H6 & H7 & H8 & H9 & H10) Hv.
  cbn in *. destruct r; cbn; unfold set_lo, set_hi, set_b0, set_b1; unp; try lia.
  cbn in Hv. destruct (Nat.ltb_spec i0 NTEMP) as [Hlt|Hge]; [|lia].
  apply nth_upd_same. rewrite H9. exact Hlt.
Qed.

Theorem py_overlap : forall s, wf s ->
  py_get s gBA = py_get s gB * p8 + py_get s gA /\
  py_get s gI = py_get s gIH * p8 + py_get s gIL /\
  py_get s gFC = py_get s gF mod 2 /\
  py_get s gFZ = (py_get s gF / 2) mod 2 /\
  (forall r, py_get s r < width r \/ match r with gTEMP k => (NTEMP <= k)%nat | _ => False end).
Proof.
  intros [ba i x y u sp pc f t] (H1 & H2 & H3 & H4 & H5 & H6 & H7 & H8 & H9 & H10).
  cbn in *. repeat split; unp; try lia.
  intros r. destruct r; cbn; unp; try (left; lia).
  destruct (Nat.ltb_spec i0 NTEMP) as [Hlt|Hge]; [left|right; exact Hge].
  rewrite Forall_forall in H10. apply H10. apply nth_In. rewrite H9. exact Hlt.
Qed.

Theorem py_il_clears_ih : forall s v, py_get (py_set s gIL v) gIH = 0 /\ py_get (py_set s gIL v) gIL = v mod p8.
Proof. intros [ba i x y u sp pc f t] v. cbn. unp. split; lia. Qed.

(* which stored field a register lives in *)
Definition base (r : reg) : reg :=
  match r with gA | gB | gBA => gBA | gIL | gIH | gI => gI | gFC | gFZ | gF => gF | r => r end.

Theorem py_frame : forall s r r' v, base r <> base r' -> py_get (py_set s r v) r' = py_get s r'.
Proof.
  intros [ba i x y u sp pc f t] r r' v H.
  destruct r; destruct r'; cbn in *; try congruence; try reflexivity.
  destruct (Nat.ltb i0 NTEMP); [|reflexivity].
  apply nth_upd_other. intro E. apply H. subst. reflexivity.
Qed.

(* inside one base register: the other part is untouched *)
Theorem py_frame_parts : forall s v, wf s ->
  py_get (py_set s gA v) gB = py_get s gB /\ py_get (py_set s gB v) gA = py_get s gA /\
  py_get (py_set s gIH v) gIL = py_get s gIL /\
  py_get (py_set s gFC v) gFZ = py_get s gFZ /\ py_get (py_set s gFZ v) gFC = py_get s gFC /\
  py_get (py_set s gFC v) gF / 4 = py_get s gF / 4 /\ py_get (py_set s gFZ v) gF / 4 = py_get s gF / 4.
Proof.
  intros [ba i x y u sp pc f t] v (H1 & H2 & H3 & H4 & H5 & H6 & H7 & H8 & H9 & H10).
  cbn in *. unfold set_lo, set_hi, set_b0, set_b1. unp. repeat split; lia.
Qed.

(* writes see only the value modulo 2^32 (indeed modulo the register width) *)
Lemma py_set_mod32 : forall s r v, py_set s r (v mod p32) = py_set s r v.
Proof.
  intros [ba i x y u sp pc f t] r v. destruct r; cbn; unfold set_lo, set_hi, set_b0, set_b1; unp; f_equal; try lia.
  destruct (Nat.ltb i0 NTEMP); [|reflexivity]. f_equal. lia.
Qed.

Lemma py_set_modw : forall s r v m, (m = p20 \/ m = p24 \/ m = p16 \/ m = p8 \/ m = p32) ->
  (width r <= m \/ m = p20 /\ width r = p20) -> py_set s r (v mod m) = py_set s r v.
Proof.
  intros [ba i x y u sp pc f t] r v m Hm Hw.
  destruct r; cbn in *; unfold set_lo, set_hi, set_b0, set_b1; unp; f_equal;
    try (destruct Hm as [->|[->|[->|[->| ->]]]]; lia).
  destruct (Nat.ltb i0 NTEMP); [|reflexivity]. f_equal.
  destruct Hm as [->|[->|[->|[->| ->]]]]; lia.
Qed.

(* ---- snapshot round trip (Python) --------------------------------------------------- *)
Lemma py_apply_temps_fields : forall l s k,
  let s' := py_apply_temps s k l in
  y_ba s' = y_ba s /\ y_i s' = y_i s /\ y_x s' = y_x s /\ y_y s' = y_y s /\ y_u s' = y_u s /\
  y_s s' = y_s s /\ y_pc s' = y_pc s /\ y_f s' = y_f s.
Proof.
  induction l as [|v t gIH]; intros s k; cbn; [repeat split; reflexivity|].
  destruct (gIH (py_set s (gTEMP k) v) (Datatypes.S k)) as (a&b&c&d&e&f&g&h).
  destruct s; cbn in *. repeat split; assumption.
Qed.

Lemma y_t_set_temp : forall s k v,
  y_t (py_set s (gTEMP k) v) = if Nat.ltb k NTEMP then upd (y_t s) k (v mod p24) else y_t s.
Proof. intros [ba i x y u sp pc f t] k v. reflexivity. Qed.

Lemma py_apply_temps_len : forall l s k, length (y_t s) = NTEMP -> length (y_t (py_apply_temps s k l)) = NTEMP.
Proof.
  induction l as [|v t gIH]; intros s k H; cbn [py_apply_temps]; [exact H|].
  apply gIH. rewrite y_t_set_temp. destruct (Nat.ltb k NTEMP); [rewrite upd_length|]; exact H.
Qed.

Lemma py_apply_temps_nth_out : forall l s k j,
  (j < k \/ k + length l <= j)%nat ->
  nth j (y_t (py_apply_temps s k l)) 0 = nth j (y_t s) 0.
Proof.
  induction l as [|v t gIH]; intros s k j H; cbn [py_apply_temps]; [reflexivity|].
  rewrite gIH by (cbn [length] in H; lia).
  rewrite y_t_set_temp. destruct (Nat.ltb k NTEMP); [|reflexivity].
  apply nth_upd_other. cbn [length] in H. lia.
Qed.

Lemma py_apply_temps_nth_in : forall l s k j,
  length (y_t s) = NTEMP -> (k + length l <= NTEMP)%nat -> Forall (fun v => v < p24) l ->
  (k <= j < k + length l)%nat ->
  nth j (y_t (py_apply_temps s k l)) 0 = nth (j - k) l 0.
Proof.
  induction l as [|v t gIH]; intros s k j Hlen Hk Hf Hj; cbn [length] in *; [lia|].
  cbn [py_apply_temps]. inversion Hf as [|? ? Hv Ht]; subst.
  destruct (Nat.eq_dec j k) as [->|Hne].
  - rewrite py_apply_temps_nth_out by lia.
    rewrite y_t_set_temp. destruct (Nat.ltb_spec k NTEMP) as [Hl|Hl]; [|lia].
    rewrite nth_upd_same by (rewrite Hlen; exact Hl).
    rewrite Nat.sub_diag. cbn [nth]. unp. lia.
  - rewrite gIH; try assumption; try lia.
    + replace (j - k)%nat with (Datatypes.S (j - Datatypes.S k)) by lia. reflexivity.
    + rewrite y_t_set_temp. destruct (Nat.ltb k NTEMP); [rewrite upd_length|]; exact Hlen.
Qed.

Theorem py_snapshot_roundtrip : forall s r, wf s -> valid r ->
  py_get (py_apply (py_capture s) py_init) r = py_get s r.
Proof.
  intros s r Hwf Hv.
  pose proof Hwf as (H1 & H2 & H3 & H4 & H5 & H6 & H7 & H8 & H9 & H10).
  unfold py_apply.
  set (s8 := py_set (py_set (py_set (py_set (py_set (py_set (py_set (py_set py_init gPC _) gBA _) gI _) gX _) gY _) gU _) gS _) gF _).
  destruct (py_apply_temps_fields (sn_t (py_capture s)) s8 0) as (a&b&c&d&e&f&g&h).
  assert (Hs8 : y_ba s8 = y_ba s /\ y_i s8 = y_i s /\ y_x s8 = y_x s /\ y_y s8 = y_y s /\ y_u s8 = y_u s /\
                y_s s8 = y_s s /\ y_pc s8 = y_pc s /\ y_f s8 = y_f s /\ y_t s8 = repeat 0 NTEMP).
  { subst s8. destruct s as [ba i x y u sp pc ff tt]. cbn in *. unp.
    repeat split; first [reflexivity | lia]. }
  destruct Hs8 as (a'&b'&c'&d'&e'&f'&g'&h'&t').
  destruct r; cbn [py_get]; try congruence.
  (* gTEMP *)
  cbn in Hv.
  rewrite py_apply_temps_nth_in.
  - cbn [py_capture sn_t]. rewrite Nat.sub_0_r.
    rewrite (nth_indep _ 0 (py_get s (gTEMP 0))) by (rewrite map_length, seq_length; exact Hv).
    rewrite (map_nth (fun k => py_get s (gTEMP k)) (seq 0 NTEMP) 0%nat i).
    rewrite seq_nth by exact Hv. reflexivity.
  - rewrite t'. apply repeat_length.
  - cbn [py_capture sn_t]. rewrite map_length, seq_length. lia.
  - cbn [py_capture sn_t]. rewrite Forall_forall. intros v Hin. apply in_map_iff in Hin.
    destruct Hin as (k & <- & Hk). apply in_seq in Hk. cbn [py_get].
    rewrite Forall_forall in H10. apply H10. apply nth_In. rewrite H9. lia.
  - cbn [py_capture sn_t]. rewrite map_length, seq_length. lia.
Qed.

(* ---- blob round trip ------------------------------------------------------------------- *)
Lemma of_le_le_bytes : forall n v, v < 256 ^ N.of_nat n -> of_le (le_bytes n v) = v.
Proof.
  induction n as [|m gIH]; intros v Hv.
  - cbn in *. lia.
  - cbn [le_bytes of_le]. rewrite gIH.
    + unp. lia.
    + rewrite Nat2N.inj_succ, N.pow_succ_r' in Hv. unp. nia.
Qed.

Lemma le_bytes_length : forall n v, length (le_bytes n v) = n.
Proof. induction n; intros; cbn; auto. Qed.

Definition snap_wf (sn : snapshot) : Prop :=
  sn_pc sn < p24 /\ sn_ba sn < p16 /\ sn_i sn < p16 /\ sn_x sn < p24 /\ sn_y sn < p24 /\ sn_u sn < p24 /\
  sn_s sn < p24 /\ sn_f sn < p8.

Theorem blob_roundtrip : forall sn, snap_wf sn ->
  length (pack sn) = 20%nat /\ unpack (pack sn) (sn_t sn) = Some sn.
Proof.
  intros [pc ba i x y u sp f t] (H1&H2&H3&H4&H5&H6&H7&H8). cbn in H1, H2, H3, H4, H5, H6, H7, H8.
  split; [reflexivity|].
  unfold unpack, pack.
  cbn [flat_map blob_layout fst snd snap_field le_bytes app length Nat.eqb unpack_fields firstn skipn of_le field_of
       sn_pc sn_ba sn_i sn_x sn_y sn_u sn_s sn_f sn_t].
  f_equal. unp. f_equal; lia.
Qed.

Lemma py_capture_wf : forall s, wf s -> snap_wf (py_capture s).
Proof.
  intros [ba i x y u sp pc f t] (H1&H2&H3&H4&H5&H6&H7&H8&_). cbn in *. unfold snap_wf; cbn. unp. repeat split; lia.
Qed.

