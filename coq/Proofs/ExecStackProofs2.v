(* Proofs/ExecStackProofs2.v -- user-stack push / pop of the wider registers: PUSHU r (r = BA, I, X, Y; w = 2, 2, 3, 3 bytes)
   stores r little-endian at U-w and leaves U-w in U; POPU r loads the w bytes at U into r and leaves U+w in U; nothing else
   architectural changes (scratch register TEMP1 outside the comparison).  The four push proofs are the same script with the
   register and width substituted (Ltac cannot abstract over the names the script introduces with set). *)
From Coq Require Import ZArith NArith List Bool Lia.
From BE Require Import Model.TableTypes Gen.Tables Model.Regs Model.Decode Model.IL Model.Lift Model.Static Model.Spec
  Model.Emu Proofs.AluProofs Proofs.ExecProofs Proofs.AccessProofs Proofs.ExecMemProofs Proofs.ExecPtrProofs Proofs.ExecStackProofs.
Import ListNotations.
Open Scope Z_scope.

Theorem pushu_BA : stack_is_spec (mk_instr 42 [OReg RBA 2] 1) 42 (fun s => 2 <= getr s gU).
Proof.
  intros addr s Hwf HL HU. pose proof (getr_U_range s) as HR.
  lift_mem.
  match goal with |- context [run (fuel_for ?p ?s1) ?p 0 ?s1] =>
    destruct (fuel_split p s1 4) as [j Hj]; [cbn; lia|]; rewrite Hj; set (S1 := s1) end.
  assert (GU : getr S1 gU = getr s gU) by (subst S1; rewrite !getr_setr_pc by discriminate; reflexivity).
  assert (GA : getr S1 gBA = getr s gBA) by (subst S1; rewrite !getr_setr_pc by discriminate; reflexivity).
  assert (L1 : length (y_t (rg S1)) = NTEMP) by (subst S1; rewrite !setr_rg; destruct (rg s); exact HL).
  set (U0 := getr s gU) in *.
  replace (4 + j)%nat with (S (S (S (S j)))) by lia.
  cbn [run nth_error exec_stmt eval_expr]. rewrite GU. cbn [nth_error].
  set (u1 := setr S1 (gTEMP 1) U0).
  assert (T1 : getr u1 (gTEMP 1) = U0) by (subst u1; apply getr_setr_T1; [exact L1 | lia]).
  cbn [exec_stmt eval_expr eval_binop apply_flags]. rewrite T1. rewrite band3v. rewrite (Z.mod_small (U0 - Z.of_N 2) 16777216) by (change (Z.of_N 2) with 2; lia).
  cbn [nth_error].
  set (u2 := setr u1 gU (U0 - Z.of_N 2)).
  assert (T2 : getr u2 (gTEMP 1) = U0) by (subst u2; rewrite getr_temp_setr_o by reflexivity; exact T1).
  assert (A2 : getr u2 gBA = getr s gBA).
  { rewrite <- GA. subst u2 u1. unfold getr. rewrite !setr_rg. destruct (rg S1); reflexivity. }
  cbn [exec_stmt eval_expr eval_binop apply_flags]. rewrite T2, A2. rewrite band3v. rewrite (Z.mod_small (U0 - Z.of_N 2) 16777216) by (change (Z.of_N 2) with 2; lia).
  cbn [nth_error].
  eexists. eexists. split; [reflexivity|]. split; [spec_mem I_PUSHU; cbn [place_of]; reflexivity|].
  unfold push_bytes, pwidth, width_of_place, rd_place. rewrite !getr_setr_pc by discriminate. fold U0.
  change (Z.of_N 2) with 2. change (Z.to_N 2) with 2%N.
  subst u2 u1 S1. unfold arch_eqT, store. change (N.to_nat 2) with 2%nat. cbn [wr_bytes]. unfold wr1; cbn [rg mem halted].
  split; [|split]; [|intros z; reflexivity|reflexivity].
  rewrite !setr_rg. cbn [rg]. rewrite !(clear_set_other _ gU) by reflexivity. rewrite clear_set_temp.
  rewrite !(clear_set_other _ gPC) by reflexivity. rewrite py_set_pc_pc. reflexivity.
Qed.

Theorem pushu_I : stack_is_spec (mk_instr 43 [OReg RI 2] 1) 43 (fun s => 2 <= getr s gU).
Proof.
  intros addr s Hwf HL HU. pose proof (getr_U_range s) as HR.
  lift_mem.
  match goal with |- context [run (fuel_for ?p ?s1) ?p 0 ?s1] =>
    destruct (fuel_split p s1 4) as [j Hj]; [cbn; lia|]; rewrite Hj; set (S1 := s1) end.
  assert (GU : getr S1 gU = getr s gU) by (subst S1; rewrite !getr_setr_pc by discriminate; reflexivity).
  assert (GA : getr S1 gI = getr s gI) by (subst S1; rewrite !getr_setr_pc by discriminate; reflexivity).
  assert (L1 : length (y_t (rg S1)) = NTEMP) by (subst S1; rewrite !setr_rg; destruct (rg s); exact HL).
  set (U0 := getr s gU) in *.
  replace (4 + j)%nat with (S (S (S (S j)))) by lia.
  cbn [run nth_error exec_stmt eval_expr]. rewrite GU. cbn [nth_error].
  set (u1 := setr S1 (gTEMP 1) U0).
  assert (T1 : getr u1 (gTEMP 1) = U0) by (subst u1; apply getr_setr_T1; [exact L1 | lia]).
  cbn [exec_stmt eval_expr eval_binop apply_flags]. rewrite T1. rewrite band3v. rewrite (Z.mod_small (U0 - Z.of_N 2) 16777216) by (change (Z.of_N 2) with 2; lia).
  cbn [nth_error].
  set (u2 := setr u1 gU (U0 - Z.of_N 2)).
  assert (T2 : getr u2 (gTEMP 1) = U0) by (subst u2; rewrite getr_temp_setr_o by reflexivity; exact T1).
  assert (A2 : getr u2 gI = getr s gI).
  { rewrite <- GA. subst u2 u1. unfold getr. rewrite !setr_rg. destruct (rg S1); reflexivity. }
  cbn [exec_stmt eval_expr eval_binop apply_flags]. rewrite T2, A2. rewrite band3v. rewrite (Z.mod_small (U0 - Z.of_N 2) 16777216) by (change (Z.of_N 2) with 2; lia).
  cbn [nth_error].
  eexists. eexists. split; [reflexivity|]. split; [spec_mem I_PUSHU; cbn [place_of]; reflexivity|].
  unfold push_bytes, pwidth, width_of_place, rd_place. rewrite !getr_setr_pc by discriminate. fold U0.
  change (Z.of_N 2) with 2. change (Z.to_N 2) with 2%N.
  subst u2 u1 S1. unfold arch_eqT, store. change (N.to_nat 2) with 2%nat. cbn [wr_bytes]. unfold wr1; cbn [rg mem halted].
  split; [|split]; [|intros z; reflexivity|reflexivity].
  rewrite !setr_rg. cbn [rg]. rewrite !(clear_set_other _ gU) by reflexivity. rewrite clear_set_temp.
  rewrite !(clear_set_other _ gPC) by reflexivity. rewrite py_set_pc_pc. reflexivity.
Qed.

Theorem pushu_X : stack_is_spec (mk_instr 44 [OReg RX 3] 1) 44 (fun s => 3 <= getr s gU).
Proof.
  intros addr s Hwf HL HU. pose proof (getr_U_range s) as HR.
  lift_mem.
  match goal with |- context [run (fuel_for ?p ?s1) ?p 0 ?s1] =>
    destruct (fuel_split p s1 4) as [j Hj]; [cbn; lia|]; rewrite Hj; set (S1 := s1) end.
  assert (GU : getr S1 gU = getr s gU) by (subst S1; rewrite !getr_setr_pc by discriminate; reflexivity).
  assert (GA : getr S1 gX = getr s gX) by (subst S1; rewrite !getr_setr_pc by discriminate; reflexivity).
  assert (L1 : length (y_t (rg S1)) = NTEMP) by (subst S1; rewrite !setr_rg; destruct (rg s); exact HL).
  set (U0 := getr s gU) in *.
  replace (4 + j)%nat with (S (S (S (S j)))) by lia.
  cbn [run nth_error exec_stmt eval_expr]. rewrite GU. cbn [nth_error].
  set (u1 := setr S1 (gTEMP 1) U0).
  assert (T1 : getr u1 (gTEMP 1) = U0) by (subst u1; apply getr_setr_T1; [exact L1 | lia]).
  cbn [exec_stmt eval_expr eval_binop apply_flags]. rewrite T1. rewrite band3v. rewrite (Z.mod_small (U0 - Z.of_N 3) 16777216) by (change (Z.of_N 3) with 3; lia).
  cbn [nth_error].
  set (u2 := setr u1 gU (U0 - Z.of_N 3)).
  assert (T2 : getr u2 (gTEMP 1) = U0) by (subst u2; rewrite getr_temp_setr_o by reflexivity; exact T1).
  assert (A2 : getr u2 gX = getr s gX).
  { rewrite <- GA. subst u2 u1. unfold getr. rewrite !setr_rg. destruct (rg S1); reflexivity. }
  cbn [exec_stmt eval_expr eval_binop apply_flags]. rewrite T2, A2. rewrite band3v. rewrite (Z.mod_small (U0 - Z.of_N 3) 16777216) by (change (Z.of_N 3) with 3; lia).
  cbn [nth_error].
  eexists. eexists. split; [reflexivity|]. split; [spec_mem I_PUSHU; cbn [place_of]; reflexivity|].
  unfold push_bytes, pwidth, width_of_place, rd_place. rewrite !getr_setr_pc by discriminate. fold U0.
  change (Z.of_N 3) with 3. change (Z.to_N 3) with 3%N.
  subst u2 u1 S1. unfold arch_eqT, store. change (N.to_nat 3) with 3%nat. cbn [wr_bytes]. unfold wr1; cbn [rg mem halted].
  split; [|split]; [|intros z; reflexivity|reflexivity].
  rewrite !setr_rg. cbn [rg]. rewrite !(clear_set_other _ gU) by reflexivity. rewrite clear_set_temp.
  rewrite !(clear_set_other _ gPC) by reflexivity. rewrite py_set_pc_pc. reflexivity.
Qed.

Theorem pushu_Y : stack_is_spec (mk_instr 45 [OReg RY 3] 1) 45 (fun s => 3 <= getr s gU).
Proof.
  intros addr s Hwf HL HU. pose proof (getr_U_range s) as HR.
  lift_mem.
  match goal with |- context [run (fuel_for ?p ?s1) ?p 0 ?s1] =>
    destruct (fuel_split p s1 4) as [j Hj]; [cbn; lia|]; rewrite Hj; set (S1 := s1) end.
  assert (GU : getr S1 gU = getr s gU) by (subst S1; rewrite !getr_setr_pc by discriminate; reflexivity).
  assert (GA : getr S1 gY = getr s gY) by (subst S1; rewrite !getr_setr_pc by discriminate; reflexivity).
  assert (L1 : length (y_t (rg S1)) = NTEMP) by (subst S1; rewrite !setr_rg; destruct (rg s); exact HL).
  set (U0 := getr s gU) in *.
  replace (4 + j)%nat with (S (S (S (S j)))) by lia.
  cbn [run nth_error exec_stmt eval_expr]. rewrite GU. cbn [nth_error].
  set (u1 := setr S1 (gTEMP 1) U0).
  assert (T1 : getr u1 (gTEMP 1) = U0) by (subst u1; apply getr_setr_T1; [exact L1 | lia]).
  cbn [exec_stmt eval_expr eval_binop apply_flags]. rewrite T1. rewrite band3v. rewrite (Z.mod_small (U0 - Z.of_N 3) 16777216) by (change (Z.of_N 3) with 3; lia).
  cbn [nth_error].
  set (u2 := setr u1 gU (U0 - Z.of_N 3)).
  assert (T2 : getr u2 (gTEMP 1) = U0) by (subst u2; rewrite getr_temp_setr_o by reflexivity; exact T1).
  assert (A2 : getr u2 gY = getr s gY).
  { rewrite <- GA. subst u2 u1. unfold getr. rewrite !setr_rg. destruct (rg S1); reflexivity. }
  cbn [exec_stmt eval_expr eval_binop apply_flags]. rewrite T2, A2. rewrite band3v. rewrite (Z.mod_small (U0 - Z.of_N 3) 16777216) by (change (Z.of_N 3) with 3; lia).
  cbn [nth_error].
  eexists. eexists. split; [reflexivity|]. split; [spec_mem I_PUSHU; cbn [place_of]; reflexivity|].
  unfold push_bytes, pwidth, width_of_place, rd_place. rewrite !getr_setr_pc by discriminate. fold U0.
  change (Z.of_N 3) with 3. change (Z.to_N 3) with 3%N.
  subst u2 u1 S1. unfold arch_eqT, store. change (N.to_nat 3) with 3%nat. cbn [wr_bytes]. unfold wr1; cbn [rg mem halted].
  split; [|split]; [|intros z; reflexivity|reflexivity].
  rewrite !setr_rg. cbn [rg]. rewrite !(clear_set_other _ gU) by reflexivity. rewrite clear_set_temp.
  rewrite !(clear_set_other _ gPC) by reflexivity. rewrite py_set_pc_pc. reflexivity.
Qed.

Theorem popu_BA : stack_is_spec (mk_instr 58 [OReg RBA 2] 1) 58 (fun _ => True).
Proof.
  intros addr s Hwf HL _. pose proof (getr_U_range s) as HR.
  lift_mem.
  match goal with |- context [run (fuel_for ?p ?s1) ?p 0 ?s1] =>
    destruct (fuel_split p s1 4) as [j Hj]; [cbn; lia|]; rewrite Hj; set (S1 := s1) end.
  assert (GU : getr S1 gU = getr s gU) by (subst S1; rewrite !getr_setr_pc by discriminate; reflexivity).
  assert (L1 : length (y_t (rg S1)) = NTEMP) by (subst S1; rewrite !setr_rg; destruct (rg s); exact HL).
  set (U0 := getr s gU) in *.
  replace (4 + j)%nat with (S (S (S (S j)))) by lia.
  cbn [run nth_error exec_stmt eval_expr]. rewrite GU. cbn [nth_error].
  set (u1 := setr S1 (gTEMP 1) U0).
  assert (T1 : getr u1 (gTEMP 1) = U0) by (subst u1; apply getr_setr_T1; [exact L1 | lia]).
  cbn [exec_stmt eval_expr]. rewrite T1. rewrite load_2 by (intros z; apply Hwf). cbn [nth_error].
  set (V := mem u1 U0 + 256 * mem u1 (U0 + 1)).
  set (u2 := setr (logged u1 [U0; U0 + 1]) gBA V).
  assert (T2 : getr u2 (gTEMP 1) = U0) by (subst u2; rewrite getr_temp_setr_o by reflexivity; exact T1).
  cbn [exec_stmt eval_expr eval_binop apply_flags]. rewrite T2. rewrite band3v. rewrite (Z.mod_small (U0 + Z.of_N 2) 16777216) by (change (Z.of_N 2) with 2; lia).
  cbn [nth_error].
  eexists. eexists. split; [reflexivity|]. split; [spec_mem I_POPU; cbn [place_of]; reflexivity|].
  unfold pop_bytes, pwidth, width_of_place, wr_place. rewrite !getr_setr_pc by discriminate. fold U0.
  change (Z.of_N 2) with 2. change (Z.to_nat 2) with 2%nat. rewrite le_val_2.
  replace (mem s U0 + 256 * mem s (U0 + 1)) with V by reflexivity.
  subst u2 u1 S1. unfold arch_eqT. split; [|split]; [|intros z; reflexivity|reflexivity].
  rewrite !setr_rg. unfold logged; cbn [rg]. rewrite !setr_rg.
  rewrite ?(clear_set_other _ gU) by reflexivity. rewrite ?(clear_set_other _ gBA) by reflexivity.
  rewrite ?(clear_set_other _ gU) by reflexivity. rewrite clear_set_temp. rewrite !(clear_set_other _ gPC) by reflexivity.
  rewrite py_set_pc_pc. destruct (clear_temps (rg s)); reflexivity.
Qed.

Theorem popu_I : stack_is_spec (mk_instr 59 [OReg RI 2] 1) 59 (fun _ => True).
Proof.
  intros addr s Hwf HL _. pose proof (getr_U_range s) as HR.
  lift_mem.
  match goal with |- context [run (fuel_for ?p ?s1) ?p 0 ?s1] =>
    destruct (fuel_split p s1 4) as [j Hj]; [cbn; lia|]; rewrite Hj; set (S1 := s1) end.
  assert (GU : getr S1 gU = getr s gU) by (subst S1; rewrite !getr_setr_pc by discriminate; reflexivity).
  assert (L1 : length (y_t (rg S1)) = NTEMP) by (subst S1; rewrite !setr_rg; destruct (rg s); exact HL).
  set (U0 := getr s gU) in *.
  replace (4 + j)%nat with (S (S (S (S j)))) by lia.
  cbn [run nth_error exec_stmt eval_expr]. rewrite GU. cbn [nth_error].
  set (u1 := setr S1 (gTEMP 1) U0).
  assert (T1 : getr u1 (gTEMP 1) = U0) by (subst u1; apply getr_setr_T1; [exact L1 | lia]).
  cbn [exec_stmt eval_expr]. rewrite T1. rewrite load_2 by (intros z; apply Hwf). cbn [nth_error].
  set (V := mem u1 U0 + 256 * mem u1 (U0 + 1)).
  set (u2 := setr (logged u1 [U0; U0 + 1]) gI V).
  assert (T2 : getr u2 (gTEMP 1) = U0) by (subst u2; rewrite getr_temp_setr_o by reflexivity; exact T1).
  cbn [exec_stmt eval_expr eval_binop apply_flags]. rewrite T2. rewrite band3v. rewrite (Z.mod_small (U0 + Z.of_N 2) 16777216) by (change (Z.of_N 2) with 2; lia).
  cbn [nth_error].
  eexists. eexists. split; [reflexivity|]. split; [spec_mem I_POPU; cbn [place_of]; reflexivity|].
  unfold pop_bytes, pwidth, width_of_place, wr_place. rewrite !getr_setr_pc by discriminate. fold U0.
  change (Z.of_N 2) with 2. change (Z.to_nat 2) with 2%nat. rewrite le_val_2.
  replace (mem s U0 + 256 * mem s (U0 + 1)) with V by reflexivity.
  subst u2 u1 S1. unfold arch_eqT. split; [|split]; [|intros z; reflexivity|reflexivity].
  rewrite !setr_rg. unfold logged; cbn [rg]. rewrite !setr_rg.
  rewrite ?(clear_set_other _ gU) by reflexivity. rewrite ?(clear_set_other _ gI) by reflexivity.
  rewrite ?(clear_set_other _ gU) by reflexivity. rewrite clear_set_temp. rewrite !(clear_set_other _ gPC) by reflexivity.
  rewrite py_set_pc_pc. destruct (clear_temps (rg s)); reflexivity.
Qed.

Theorem popu_X : stack_is_spec (mk_instr 60 [OReg RX 3] 1) 60 (fun _ => True).
Proof.
  intros addr s Hwf HL _. pose proof (getr_U_range s) as HR.
  lift_mem.
  match goal with |- context [run (fuel_for ?p ?s1) ?p 0 ?s1] =>
    destruct (fuel_split p s1 4) as [j Hj]; [cbn; lia|]; rewrite Hj; set (S1 := s1) end.
  assert (GU : getr S1 gU = getr s gU) by (subst S1; rewrite !getr_setr_pc by discriminate; reflexivity).
  assert (L1 : length (y_t (rg S1)) = NTEMP) by (subst S1; rewrite !setr_rg; destruct (rg s); exact HL).
  set (U0 := getr s gU) in *.
  replace (4 + j)%nat with (S (S (S (S j)))) by lia.
  cbn [run nth_error exec_stmt eval_expr]. rewrite GU. cbn [nth_error].
  set (u1 := setr S1 (gTEMP 1) U0).
  assert (T1 : getr u1 (gTEMP 1) = U0) by (subst u1; apply getr_setr_T1; [exact L1 | lia]).
  cbn [exec_stmt eval_expr]. rewrite T1. rewrite load_3 by (intros z; apply Hwf). cbn [nth_error].
  set (V := mem u1 U0 + 256 * (mem u1 (U0 + 1) + 256 * mem u1 (U0 + 1 + 1))).
  set (u2 := setr (logged u1 [U0; U0 + 1; U0 + 1 + 1]) gX V).
  assert (T2 : getr u2 (gTEMP 1) = U0) by (subst u2; rewrite getr_temp_setr_o by reflexivity; exact T1).
  cbn [exec_stmt eval_expr eval_binop apply_flags]. rewrite T2. rewrite band3v. rewrite (Z.mod_small (U0 + Z.of_N 3) 16777216) by (change (Z.of_N 3) with 3; lia).
  cbn [nth_error].
  eexists. eexists. split; [reflexivity|]. split; [spec_mem I_POPU; cbn [place_of]; reflexivity|].
  unfold pop_bytes, pwidth, width_of_place, wr_place. rewrite !getr_setr_pc by discriminate. fold U0.
  change (Z.of_N 3) with 3. change (Z.to_nat 3) with 3%nat. rewrite le_val_3.
  replace (mem s U0 + 256 * (mem s (U0 + 1) + 256 * mem s (U0 + 1 + 1))) with V by reflexivity.
  subst u2 u1 S1. unfold arch_eqT. split; [|split]; [|intros z; reflexivity|reflexivity].
  rewrite !setr_rg. unfold logged; cbn [rg]. rewrite !setr_rg.
  rewrite ?(clear_set_other _ gU) by reflexivity. rewrite ?(clear_set_other _ gX) by reflexivity.
  rewrite ?(clear_set_other _ gU) by reflexivity. rewrite clear_set_temp. rewrite !(clear_set_other _ gPC) by reflexivity.
  rewrite py_set_pc_pc. destruct (clear_temps (rg s)); reflexivity.
Qed.

Theorem popu_Y : stack_is_spec (mk_instr 61 [OReg RY 3] 1) 61 (fun _ => True).
Proof.
  intros addr s Hwf HL _. pose proof (getr_U_range s) as HR.
  lift_mem.
  match goal with |- context [run (fuel_for ?p ?s1) ?p 0 ?s1] =>
    destruct (fuel_split p s1 4) as [j Hj]; [cbn; lia|]; rewrite Hj; set (S1 := s1) end.
  assert (GU : getr S1 gU = getr s gU) by (subst S1; rewrite !getr_setr_pc by discriminate; reflexivity).
  assert (L1 : length (y_t (rg S1)) = NTEMP) by (subst S1; rewrite !setr_rg; destruct (rg s); exact HL).
  set (U0 := getr s gU) in *.
  replace (4 + j)%nat with (S (S (S (S j)))) by lia.
  cbn [run nth_error exec_stmt eval_expr]. rewrite GU. cbn [nth_error].
  set (u1 := setr S1 (gTEMP 1) U0).
  assert (T1 : getr u1 (gTEMP 1) = U0) by (subst u1; apply getr_setr_T1; [exact L1 | lia]).
  cbn [exec_stmt eval_expr]. rewrite T1. rewrite load_3 by (intros z; apply Hwf). cbn [nth_error].
  set (V := mem u1 U0 + 256 * (mem u1 (U0 + 1) + 256 * mem u1 (U0 + 1 + 1))).
  set (u2 := setr (logged u1 [U0; U0 + 1; U0 + 1 + 1]) gY V).
  assert (T2 : getr u2 (gTEMP 1) = U0) by (subst u2; rewrite getr_temp_setr_o by reflexivity; exact T1).
  cbn [exec_stmt eval_expr eval_binop apply_flags]. rewrite T2. rewrite band3v. rewrite (Z.mod_small (U0 + Z.of_N 3) 16777216) by (change (Z.of_N 3) with 3; lia).
  cbn [nth_error].
  eexists. eexists. split; [reflexivity|]. split; [spec_mem I_POPU; cbn [place_of]; reflexivity|].
  unfold pop_bytes, pwidth, width_of_place, wr_place. rewrite !getr_setr_pc by discriminate. fold U0.
  change (Z.of_N 3) with 3. change (Z.to_nat 3) with 3%nat. rewrite le_val_3.
  replace (mem s U0 + 256 * (mem s (U0 + 1) + 256 * mem s (U0 + 1 + 1))) with V by reflexivity.
  subst u2 u1 S1. unfold arch_eqT. split; [|split]; [|intros z; reflexivity|reflexivity].
  rewrite !setr_rg. unfold logged; cbn [rg]. rewrite !setr_rg.
  rewrite ?(clear_set_other _ gU) by reflexivity. rewrite ?(clear_set_other _ gY) by reflexivity.
  rewrite ?(clear_set_other _ gU) by reflexivity. rewrite clear_set_temp. rewrite !(clear_set_other _ gPC) by reflexivity.
  rewrite py_set_pc_pc. destruct (clear_temps (rg s)); reflexivity.
Qed.

(* PUSHU IL: the low byte of I (one byte pushed) *)
Theorem pushu_IL : stack_is_spec (mk_instr 41 [ORegIL] 1) 41 (fun s => 1 <= getr s gU).
Proof.
  intros addr s Hwf HL HU. pose proof (getr_U_range s) as HR.
  lift_mem.
  match goal with |- context [run (fuel_for ?p ?s1) ?p 0 ?s1] =>
    destruct (fuel_split p s1 4) as [j Hj]; [cbn; lia|]; rewrite Hj; set (S1 := s1) end.
  assert (GU : getr S1 gU = getr s gU) by (subst S1; rewrite !getr_setr_pc by discriminate; reflexivity).
  assert (GA : getr S1 gIL = getr s gIL) by (subst S1; rewrite !getr_setr_pc by discriminate; reflexivity).
  assert (L1 : length (y_t (rg S1)) = NTEMP) by (subst S1; rewrite !setr_rg; destruct (rg s); exact HL).
  set (U0 := getr s gU) in *.
  replace (4 + j)%nat with (S (S (S (S j)))) by lia.
  cbn [run nth_error exec_stmt eval_expr]. rewrite GU. cbn [nth_error].
  set (u1 := setr S1 (gTEMP 1) U0).
  assert (T1 : getr u1 (gTEMP 1) = U0) by (subst u1; apply getr_setr_T1; [exact L1 | lia]).
  cbn [exec_stmt eval_expr eval_binop apply_flags]. rewrite T1. rewrite band3v. rewrite (Z.mod_small (U0 - Z.of_N 1) 16777216) by (change (Z.of_N 1) with 1; lia).
  cbn [nth_error].
  set (u2 := setr u1 gU (U0 - Z.of_N 1)).
  assert (T2 : getr u2 (gTEMP 1) = U0) by (subst u2; rewrite getr_temp_setr_o by reflexivity; exact T1).
  assert (A2 : getr u2 gIL = getr s gIL).
  { rewrite <- GA. subst u2 u1. unfold getr. rewrite !setr_rg. destruct (rg S1); reflexivity. }
  cbn [exec_stmt eval_expr eval_binop apply_flags]. rewrite T2, A2. rewrite band3v. rewrite (Z.mod_small (U0 - Z.of_N 1) 16777216) by (change (Z.of_N 1) with 1; lia).
  cbn [nth_error].
  eexists. eexists. split; [reflexivity|]. split; [spec_mem I_PUSHU; cbn [place_of]; reflexivity|].
  unfold push_bytes, pwidth, width_of_place, rd_place. rewrite !getr_setr_pc by discriminate. fold U0.
  change (Z.of_N 1) with 1. change (Z.to_N 1) with 1%N.
  subst u2 u1 S1. unfold arch_eqT, store. change (N.to_nat 1) with 1%nat. cbn [wr_bytes]. unfold wr1; cbn [rg mem halted].
  split; [|split]; [|intros z; reflexivity|reflexivity].
  rewrite !setr_rg. cbn [rg]. rewrite !(clear_set_other _ gU) by reflexivity. rewrite clear_set_temp.
  rewrite !(clear_set_other _ gPC) by reflexivity. rewrite py_set_pc_pc. reflexivity.
Qed.

(* POPU IL: the byte at U goes to the low byte of I and the high byte of I is cleared (the lifter assigns I := byte AND 0xFF) *)
Theorem popu_IL : stack_is_spec (mk_instr 57 [ORegIL] 1) 57 (fun _ => True).
Proof.
  intros addr s Hwf HL _. pose proof (getr_U_range s) as HR.
  lift_mem.
  match goal with |- context [run (fuel_for ?p ?s1) ?p 0 ?s1] =>
    destruct (fuel_split p s1 4) as [j Hj]; [cbn; lia|]; rewrite Hj; set (S1 := s1) end.
  assert (GU : getr S1 gU = getr s gU) by (subst S1; rewrite !getr_setr_pc by discriminate; reflexivity).
  assert (L1 : length (y_t (rg S1)) = NTEMP) by (subst S1; rewrite !setr_rg; destruct (rg s); exact HL).
  set (U0 := getr s gU) in *.
  replace (4 + j)%nat with (S (S (S (S j)))) by lia.
  cbn [run nth_error exec_stmt eval_expr]. rewrite GU. cbn [nth_error].
  set (u1 := setr S1 (gTEMP 1) U0).
  assert (T1 : getr u1 (gTEMP 1) = U0) by (subst u1; apply getr_setr_T1; [exact L1 | lia]).
  cbn [exec_stmt eval_expr]. rewrite T1. rewrite load_1 by (intros z; apply Hwf).
  cbn [eval_binop apply_flags nth_error].
  replace (Z.land (mem u1 U0) 255) with (mem s U0) by (change (mem u1 U0) with (mem s U0); change 255 with (Z.ones 8); rewrite Z.land_ones by lia; symmetry; apply Z.mod_small; pose proof (Hwf U0); lia).
  set (u2 := setr (logged u1 [U0]) gI (mem s U0)).
  assert (T2 : getr u2 (gTEMP 1) = U0) by (subst u2; rewrite getr_temp_setr_o by reflexivity; exact T1).
  rewrite T2. rewrite band3v. rewrite (Z.mod_small (U0 + Z.of_N 1) 16777216) by (change (Z.of_N 1) with 1; lia).
  eexists. eexists. split; [reflexivity|]. split; [spec_mem I_POPU; cbn [place_of]; reflexivity|].
  unfold pop_bytes, pwidth, width_of_place, wr_place. rewrite !getr_setr_pc by discriminate. fold U0.
  change (Z.of_N 1) with 1. change (Z.to_nat 1) with 1%nat. rewrite le_val_1.
  subst u2 u1 S1. unfold arch_eqT. split; [|split]; [|intros z; reflexivity|reflexivity].
  rewrite !setr_rg. unfold logged; cbn [rg]. rewrite !setr_rg.
  change (mem (setr s gPC (addr + Z.of_nat (i_len (mk_instr 57 [ORegIL] 1)))) U0) with (mem s U0).
  assert (HM : 0 <= mem s U0 < 256) by (pose proof (Hwf U0); lia).
  set (V := Z.to_N (mem s U0 mod 4294967296)).
  assert (HV : (V < 256)%N) by (subst V; rewrite Z.mod_small by lia; lia).
  assert (EI : forall p, py_set p gI V = py_set p gIL V).
  { intros p. unfold py_set. destruct p. f_equal. unfold p16, p8. rewrite !N.mod_small by lia. reflexivity. }
  rewrite EI.
  rewrite ?(clear_set_other _ gU) by reflexivity. rewrite ?(clear_set_other _ gIL) by reflexivity.
  rewrite ?(clear_set_other _ gU) by reflexivity. rewrite clear_set_temp. rewrite !(clear_set_other _ gPC) by reflexivity.
  rewrite py_set_pc_pc. destruct (clear_temps (rg s)); reflexivity.
Qed.

Lemma stack_opcodes_check2 :
  map (fun o => (d_cls (entry_of o), d_ops (entry_of o))) [41; 42; 43; 44; 45; 57; 58; 59; 60; 61]%N =
  map (fun r => (I_PUSHU, [r])) [PRegIL; PReg RBA 2; PReg RI 2; PReg RX 3; PReg RY 3] ++
  map (fun r => (I_POPU, [r])) [PRegIL; PReg RBA 2; PReg RI 2; PReg RX 3; PReg RY 3].
Proof. vm_compute. reflexivity. Qed.
