(* Proofs about Model/Sched.v (property C18). *)
From Coq Require Import ZArith NArith List Bool Lia ZifyBool ZifyN ZifyNat.
From BE Require Import Model.Sched.
Import ListNotations.
Open Scope N_scope.

(* ---- queue invariants --------------------------------------------------------------------- *)
Fixpoint sorted_from (lo : N) (q : queue) : Prop :=
  match q with
  | [] => True
  | (k, ts) :: r => lo <= k /\ ts <> [] /\ sorted_from (k + 1) r
  end.

Lemma sorted_from_weaken : forall q lo lo', lo' <= lo -> sorted_from lo q -> sorted_from lo' q.
Proof. destruct q as [|[k ts] r]; cbn; intros; [trivial|]. destruct H0 as (A & B & C). repeat split; auto. lia. Qed.

Lemma insert_sorted : forall q lo k t, lo <= k -> sorted_from lo q -> sorted_from lo (insert_at k t q).
Proof.
  induction q as [|[k' ts] r IH]; intros lo k t Hk Hs; cbn [insert_at].
  - cbn. split; [exact Hk|]. split; [discriminate|exact I].
  - destruct Hs as (A & B & C). destruct (N.eqb_spec k k') as [->|Hne].
    + cbn. split; [exact A|]. split; [destruct ts; discriminate|exact C].
    + destruct (N.ltb_spec k k') as [Hlt|Hge].
      * cbn. split; [exact Hk|]. split; [discriminate|]. split; [lia|]. split; [exact B|exact C].
      * cbn. split; [exact A|]. split; [exact B|]. apply IH; [lia|exact C].
Qed.

(* total remaining work strictly decreases with every poll *)
Definition twork (ts : list task) : nat := fold_right (fun t b => (S (length (snd t)) + b)%nat) 0%nat ts.

Lemma work_cons : forall k ts r, work ((k, ts) :: r) = (twork ts + work r)%nat.
Proof. reflexivity. Qed.

Lemma twork_app : forall a b, twork (a ++ b) = (twork a + twork b)%nat.
Proof.
  unfold twork. induction a as [|x a IH]; intros b; cbn [app fold_right]; [reflexivity|]. rewrite IH. lia.
Qed.

Lemma work_insert : forall q k t, work (insert_at k t q) = (S (length (snd t)) + work q)%nat.
Proof.
  induction q as [|[k' ts] r IH]; intros k t; cbn [insert_at].
  - cbn. lia.
  - destruct (k =? k').
    + rewrite !work_cons, twork_app. cbn. lia.
    + destruct (k <? k'); rewrite !work_cons; [cbn; lia|]. rewrite IH. lia.
Qed.

Lemma poll_shrinks : forall c script pend res ev,
  poll c script pend = (res, ev) ->
  match res with PReady => True | PPending w rest => (length rest < length script)%nat /\ c <= w end.
Proof.
  intros c. induction script as [|a t IH]; intros pend res ev H; cbn in H.
  - inversion H; subst. exact I.
  - destruct a as [n|e].
    + inversion H; subst. split; [cbn; lia|lia].
    + specialize (IH _ _ _ H). destruct res; [exact I|]. destruct IH. split; [cbn; lia|assumption].
Qed.

(* facts about polling one batch at cycle c *)
Lemma run_tasks_spec : forall c ts d,
  sorted_from c (fq d) ->
  let d' := run_tasks c ts d in
  clock d' = clock d /\ sorted_from c (fq d') /\
  (work (fq d') + length ts <= work (fq d) + twork ts)%nat /\
  log d' = log d ++ map (fun t => (c, fst t)) ts /\
  (exists new, emitted d' = emitted d ++ new /\ evq d' = evq d ++ new).
Proof.
  intros c. induction ts as [|[tid script] r IH]; intros d Hs; cbn [run_tasks].
  - cbn. repeat split; auto; try lia; try (rewrite app_nil_r; reflexivity). exists []. rewrite !app_nil_r. split; reflexivity.
  - destruct (poll c script None) as [res ev] eqn:Ep.
    pose proof (poll_shrinks _ _ _ _ _ Ep) as Hp.
    set (d1 := {| clock := clock d; fq := _; evq := _; log := _; emitted := _ |}).
    assert (Hs1 : sorted_from c (fq d1)).
    { subst d1; cbn. destruct res; [exact Hs|]. destruct Hp. apply insert_sorted; assumption. }
    destruct (IH d1 Hs1) as (A & B & C & D & (new & E1 & E2)).
    split; [rewrite A; reflexivity|]. split; [exact B|]. split.
    + assert (Hw : (work (fq d1) <= work (fq d) + length script)%nat).
      { subst d1; cbn [fq]. destruct res; [lia|]. destruct Hp as [Hlen _]. rewrite work_insert. cbn [snd]. lia. }
      unfold twork in *. cbn [fold_right snd length]. lia.
    + split.
      * rewrite D. subst d1; cbn. rewrite <- app_assoc. reflexivity.
      * subst d1; cbn in E1, E2. destruct ev as [e|].
        -- exists (e :: new). rewrite E1, E2, <- !app_assoc. split; reflexivity.
        -- exists new. split; assumption.
Qed.

(* driver invariant: queue sorted with every key at or after the clock; returned ++ queued = emitted *)
Definition inv (d : drv) : Prop := sorted_from (clock d) (fq d).

Lemma inv0 : forall c, inv (drv0 c).
Proof. intros; exact I. Qed.

Lemma inv_spawn : forall d t, inv d -> inv (spawn d t).
Proof. intros d t H. unfold inv, spawn; cbn. apply insert_sorted; [lia|exact H]. Qed.

(* one loop iteration: the clock jumps exactly to the earliest key, every task of that entry is polled at
   that cycle, in queue (insertion) order; the clock never moves backwards; work strictly decreases *)
Theorem batch_spec : forall d d', inv d -> batch d = Some d' ->
  exists k ts r, fq d = (k, ts) :: r /\
    clock d' = k /\ clock d <= clock d' /\ inv d' /\
    log d' = log d ++ map (fun t => (k, fst t)) ts /\
    (work (fq d') < work (fq d))%nat /\
    (exists new, emitted d' = emitted d ++ new /\ evq d' = evq d ++ new).
Proof.
  intros d d' Hi Hb. unfold batch in Hb. destruct (fq d) as [|[k ts] r] eqn:Eq; [discriminate|].
  inversion Hb; subst d'; clear Hb. unfold inv in Hi. rewrite Eq in Hi. destruct Hi as (Hk & Hne & Hr).
  set (d1 := {| clock := k; fq := r; evq := evq d; log := log d; emitted := emitted d |}).
  assert (Hs1 : sorted_from k (fq d1)) by (subst d1; cbn; apply sorted_from_weaken with (lo := k + 1); [lia|exact Hr]).
  destruct (run_tasks_spec k ts d1 Hs1) as (A & B & C & D & E).
  exists k, ts, r. split; [reflexivity|]. split; [rewrite A; reflexivity|]. split; [rewrite A; cbn; exact Hk|].
  split; [unfold inv; rewrite A; exact B|]. split; [exact D|]. split; [|exact E].
  subst d1; cbn [fq] in C. rewrite work_cons. destruct ts as [|t0 ts']; [congruence|]. cbn [length] in C. lia.
Qed.

(* ---- iterating batches: the canonical run ------------------------------------------------- *)
Fixpoint iter_batch (n : nat) (d : drv) : drv :=
  match n with
  | O => d
  | S m => match batch d with Some d' => iter_batch m d' | None => d end
  end.

(* drop the first j queued events (they were handed to the caller) *)
Definition same_upto_events (a b : drv) : Prop :=
  clock a = clock b /\ fq a = fq b /\ log a = log b /\ emitted a = emitted b /\
  exists taken, evq b = taken ++ evq a.

Lemma iter_batch_add : forall n m d, iter_batch (n + m) d = iter_batch m (iter_batch n d) \/
                                      (exists j, (j <= n)%nat /\ iter_batch (n + m) d = iter_batch j d /\ batch (iter_batch j d) = None).
Proof.
  induction n as [|n IH]; intros m d; cbn [Nat.add iter_batch]; [left; reflexivity|].
  destruct (batch d) as [d'|] eqn:E.
  - destruct (IH m d') as [H|(j & Hj & H1 & H2)]; [left; exact H|].
    right. exists (S j). split; [lia|]. cbn [iter_batch]. rewrite E. split; assumption.
  - right. exists 0%nat. split; [lia|]. cbn. split; [reflexivity|exact E].
Qed.

(* events of a batch do not depend on the queued events: batch commutes with dropping queued events *)
Lemma run_tasks_evq : forall c ts d taken,
  let d2 := {| clock := clock d; fq := fq d; evq := taken ++ evq d; log := log d; emitted := emitted d |} in
  same_upto_events (run_tasks c ts d) (run_tasks c ts d2) /\
  evq (run_tasks c ts d2) = taken ++ evq (run_tasks c ts d).
Proof.
  intros c. induction ts as [|[tid script] r IH]; intros d taken; cbn [run_tasks].
  - cbn. split; [|reflexivity]. unfold same_upto_events; cbn. repeat split; auto. exists taken. reflexivity.
  - destruct (poll c script None) as [res ev].
    set (d1 := {| clock := clock d; fq := _; evq := match ev with Some e => evq d ++ [e] | None => evq d end; log := _; emitted := _ |}).
    specialize (IH d1 taken). cbn zeta in IH.
    assert (Heq : {| clock := clock d1; fq := fq d1; evq := taken ++ evq d1; log := log d1; emitted := emitted d1 |} =
                  {| clock := clock d;
                     fq := match res with PReady => fq d | PPending w rest => insert_at w (tid, rest) (fq d) end;
                     evq := match ev with Some e => (taken ++ evq d) ++ [e] | None => taken ++ evq d end;
                     log := log d ++ [(c, tid)];
                     emitted := match ev with Some e => emitted d ++ [e] | None => emitted d end |}).
    { subst d1; cbn. f_equal. destruct ev; [rewrite app_assoc|]; reflexivity. }
    cbn [clock fq evq log emitted]. rewrite <- Heq. exact IH.
Qed.

(* ---- run_for performs some number of canonical batches ------------------------------------- *)
(* relation between a driver whose caller already received `taken` events and the canonical driver *)
Definition canon (d c : drv) : Prop :=
  clock d = clock c /\ fq d = fq c /\ log d = log c /\ emitted d = emitted c /\
  exists taken, evq c = taken ++ evq d.

Lemma batch_canon : forall d c d', canon d c -> batch d = Some d' ->
  exists c', batch c = Some c' /\ canon d' c'.
Proof.
  intros d c d' (Hc & Hq & Hl & He & (taken & Ht)) Hb. unfold batch in *. rewrite <- Hq.
  destruct (fq d) as [|[k ts] r]; [discriminate|]. inversion Hb; subst d'; clear Hb.
  eexists. split; [reflexivity|].
  set (d1 := {| clock := k; fq := r; evq := evq d; log := log d; emitted := emitted d |}).
  destruct (run_tasks_evq k ts d1 taken) as [(A & B & C & D & _) F]. cbn zeta in *.
  assert (Hd2 : {| clock := clock d1; fq := fq d1; evq := taken ++ evq d1; log := log d1; emitted := emitted d1 |} =
                {| clock := k; fq := r; evq := evq c; log := log c; emitted := emitted c |}).
  { subst d1; cbn. rewrite Ht, Hl, He. reflexivity. }
  rewrite Hd2 in A, B, C, D, F. unfold canon. repeat split; auto. exists taken. exact F.
Qed.

Lemma canon_inv : forall d c, canon d c -> inv d -> inv c.
Proof. intros d c (A & B & _) H. unfold inv in *. rewrite <- A, <- B. exact H. Qed.

Lemma iter_batch_plus : forall n m d, iter_batch m (iter_batch n d) = iter_batch (n + m) d.
Proof.
  induction n as [|n IH]; intros m d; cbn [Nat.add iter_batch]; [reflexivity|].
  destruct (batch d) as [d'|] eqn:E; [apply IH|].
  destruct m; cbn [iter_batch]; [reflexivity|]. rewrite E. reflexivity.
Qed.

Lemma run_loop_canon : forall fuel start target d c d' r,
  inv d -> canon d c -> run_loop fuel start target d = Some (d', r) ->
  exists n, canon d' (iter_batch n c) /\ clock d <= clock d' /\ inv d'.
Proof.
  induction fuel as [|f IH]; intros start target d c d' r Hi Hc H; [discriminate|]. cbn [run_loop] in H.
  destruct (fq d) as [|[k ts] q] eqn:Eq.
  - inversion H; subst. exists 0%nat; cbn [iter_batch]; (split; [exact Hc|split; [lia|exact Hi]]).
  - destruct (negb (clock d <? target)); [inversion H; subst; exists 0%nat; cbn [iter_batch]; (split; [exact Hc|split; [lia|exact Hi]])|].
    destruct (target <=? k); [inversion H; subst; exists 0%nat; cbn [iter_batch]; (split; [exact Hc|split; [lia|exact Hi]])|].
    destruct (batch d) as [d1|] eqn:Eb; [|inversion H; subst; exists 0%nat; cbn [iter_batch]; (split; [exact Hc|split; [lia|exact Hi]])].
    destruct (batch_canon _ _ _ Hc Eb) as (c1 & Ec1 & Hc1).
    destruct (batch_spec _ _ Hi Eb) as (k0 & ts0 & r0 & _ & _ & Hmono & Hi1 & _).
    destruct (evq d1) as [|e rest] eqn:Ev.
    + destruct (IH _ _ _ _ _ _ Hi1 Hc1 H) as (n & Hn & Hm & Hi').
      exists (S n). cbn [iter_batch]. rewrite Ec1. split; [exact Hn|split; [lia|exact Hi']].
    + inversion H; subst d' r; clear H. exists 1%nat. cbn [iter_batch]. rewrite Ec1.
      destruct Hc1 as (A & B & C & D & (taken & T)). split; [|split; [cbn; exact Hmono|unfold inv in *; cbn; exact Hi1]].
      unfold canon; cbn. repeat split; auto. exists (taken ++ [e]). rewrite T, Ev, <- app_assoc. reflexivity.
Qed.

Lemma run_for_canon : forall d c max d' r,
  inv d -> canon d c -> run_for d max = Some (d', r) ->
  exists n, canon d' (iter_batch n c) /\ clock d <= clock d' /\ inv d'.
Proof.
  intros d c max d' r Hi Hc H. unfold run_for in H. destruct (evq d) as [|e rest] eqn:Ev.
  - eapply run_loop_canon; eauto.
  - inversion H; subst d' r; clear H. exists 0%nat. cbn [iter_batch].
    destruct Hc as (A & B & C & D & (taken & T)). split; [|split; [cbn; lia|unfold inv in *; cbn; exact Hi]].
    unfold canon; cbn. repeat split; auto. exists (taken ++ [e]). rewrite T, Ev, <- app_assoc. reflexivity.
Qed.

(* Budget independence: whatever the partition into budgets, the driver has performed some number n of
   canonical batches - same clock, same queue, same resumption log, same emitted events. *)
Theorem drive_canon : forall budgets d c d' rs,
  inv d -> canon d c -> drive d budgets = Some (d', rs) ->
  exists n, canon d' (iter_batch n c) /\ clock d <= clock d' /\ inv d'.
Proof.
  induction budgets as [|b t IH]; intros d c d' rs Hi Hc H; cbn [drive] in H.
  - inversion H; subst. exists 0%nat. cbn [iter_batch]. split; [exact Hc|split; [lia|exact Hi]].
  - destruct (run_for d b) as [[d1 r]|] eqn:E1; [|discriminate].
    destruct (drive d1 t) as [[d2 rs2]|] eqn:E2; [|discriminate]. inversion H; subst d' rs; clear H.
    destruct (run_for_canon _ _ _ _ _ Hi Hc E1) as (n1 & Hc1 & Hm1 & Hi1).
    destruct (IH _ _ _ _ Hi1 Hc1 E2) as (n2 & Hc2 & Hm2 & Hi2).
    exists (n1 + n2)%nat. rewrite <- iter_batch_plus. split; [exact Hc2|split; [lia|exact Hi2]].
Qed.

Lemma canon_refl : forall d, canon d d.
Proof. intros. unfold canon. repeat split; auto. exists []. reflexivity. Qed.

(* the canonical log only grows, and grows by whole batches in queue order *)
Lemma iter_batch_log_prefix : forall n d, inv d -> exists ext, log (iter_batch n d) = log d ++ ext.
Proof.
  induction n as [|n IH]; intros d Hi; cbn [iter_batch]; [exists []; rewrite app_nil_r; reflexivity|].
  destruct (batch d) as [d1|] eqn:E; [|exists []; rewrite app_nil_r; reflexivity].
  destruct (batch_spec _ _ Hi E) as (k & ts & r & _ & _ & _ & Hi1 & Hl & _).
  destruct (IH d1 Hi1) as (ext & He). exists (map (fun t => (k, fst t)) ts ++ ext).
  rewrite He, Hl, <- app_assoc. reflexivity.
Qed.

Lemma iter_batch_inv : forall n d, inv d -> inv (iter_batch n d).
Proof.
  induction n as [|n IH]; intros d Hd; cbn [iter_batch]; [exact Hd|].
  destruct (batch d) as [d'|] eqn:E; [|exact Hd].
  destruct (batch_spec _ _ Hd E) as (k & ts & r & _ & _ & _ & Hd1 & _). apply IH, Hd1.
Qed.

Theorem budget_prefix : forall d0 b1 b2 d1 r1 d2 r2,
  inv d0 -> drive d0 b1 = Some (d1, r1) -> drive d0 b2 = Some (d2, r2) ->
  (exists ext, log d1 = log d2 ++ ext) \/ (exists ext, log d2 = log d1 ++ ext).
Proof.
  intros d0 b1 b2 d1 r1 d2 r2 Hi H1 H2.
  destruct (drive_canon _ _ d0 _ _ Hi (canon_refl d0) H1) as (n1 & (_ & _ & L1 & _) & _ & _).
  destruct (drive_canon _ _ d0 _ _ Hi (canon_refl d0) H2) as (n2 & (_ & _ & L2 & _) & _ & _).
  rewrite L1, L2.
  assert (Hinv : forall n, inv (iter_batch n d0)) by (intros n; apply iter_batch_inv; exact Hi).
  destruct (Nat.le_ge_cases n1 n2) as [Hle|Hle].
  - right. replace n2 with (n1 + (n2 - n1))%nat by lia. rewrite <- iter_batch_plus.
    apply iter_batch_log_prefix. apply Hinv.
  - left. replace n1 with (n2 + (n1 - n2))%nat by lia. rewrite <- iter_batch_plus.
    apply iter_batch_log_prefix. apply Hinv.
Qed.

(* ---- the loop terminates: run_for is total ---------------------------------------------------- *)
Lemma run_loop_total : forall fuel start target d,
  inv d -> (work (fq d) < fuel)%nat -> exists res, run_loop fuel start target d = Some res.
Proof.
  induction fuel as [|f IH]; intros start target d Hi Hw; [lia|]. cbn [run_loop].
  destruct (fq d) as [|[k ts] q] eqn:Eq; [eauto|].
  destruct (negb (clock d <? target)); [eauto|]. destruct (target <=? k); [eauto|].
  destruct (batch d) as [d1|] eqn:Eb; [|eauto].
  destruct (batch_spec _ _ Hi Eb) as (k0 & ts0 & r0 & Hq & _ & _ & Hi1 & _ & Hlt & _).
  destruct (evq d1); [|eauto]. apply IH; [exact Hi1|]. rewrite Eq in Hlt. lia.
Qed.

Theorem run_for_total : forall d max, inv d -> exists res, run_for d max = Some res.
Proof.
  intros d max Hi. unfold run_for. destruct (evq d); [|eauto]. apply run_loop_total; [exact Hi|lia].
Qed.

(* ---- events: each exactly once, in emission order ------------------------------------------- *)
Fixpoint returned (rs : list rres) : list N :=
  match rs with [] => [] | RUser e _ :: t => e :: returned t | RMax _ :: t => returned t end.

Definition ev_inv (handed : list N) (d : drv) : Prop := emitted d = handed ++ evq d.

Lemma run_loop_events : forall fuel start target d handed d' r,
  inv d -> ev_inv handed d -> run_loop fuel start target d = Some (d', r) ->
  ev_inv (handed ++ returned [r]) d'.
Proof.
  induction fuel as [|f IH]; intros start target d handed d' r Hi He H; [discriminate|]. cbn [run_loop] in H.
  destruct (fq d) as [|[k ts] q] eqn:Eq.
  - inversion H; subst. cbn. rewrite app_nil_r. exact He.
  - destruct (negb (clock d <? target)); [inversion H; subst; cbn; rewrite app_nil_r; exact He|].
    destruct (target <=? k); [inversion H; subst; cbn; rewrite app_nil_r; exact He|].
    destruct (batch d) as [d1|] eqn:Eb; [|inversion H; subst; cbn; rewrite app_nil_r; exact He].
    destruct (batch_spec _ _ Hi Eb) as (k0 & ts0 & r0 & _ & _ & _ & Hi1 & _ & _ & (new & N1 & N2)).
    assert (He1 : ev_inv handed d1) by (unfold ev_inv in *; rewrite N1, N2, He, app_assoc; reflexivity).
    destruct (evq d1) as [|e rest] eqn:Ev.
    + eapply IH; eauto.
    + inversion H; subst d' r; clear H. unfold ev_inv in *; cbn. rewrite He1, Ev, <- app_assoc. reflexivity.
Qed.

Theorem events_once_in_order : forall budgets d handed d' rs,
  inv d -> ev_inv handed d -> drive d budgets = Some (d', rs) ->
  emitted d' = handed ++ returned rs ++ evq d'.
Proof.
  induction budgets as [|b t IH]; intros d handed d' rs Hi He H; cbn [drive] in H.
  - inversion H; subst. cbn. exact He.
  - destruct (run_for d b) as [[d1 r]|] eqn:E1; [|discriminate].
    destruct (drive d1 t) as [[d2 rs2]|] eqn:E2; [|discriminate]. inversion H; subst d' rs; clear H.
    assert (He1 : ev_inv (handed ++ returned [r]) d1).
    { unfold run_for in E1. destruct (evq d) as [|e rest] eqn:Ev.
      - eapply run_loop_events; eauto.
      - inversion E1; subst d1 r; clear E1. unfold ev_inv in *; cbn. rewrite He, Ev, <- app_assoc. reflexivity. }
    destruct (run_for_canon _ _ _ _ _ Hi (canon_refl d) E1) as (_ & _ & _ & Hi1).
    rewrite (IH _ _ _ _ Hi1 He1 E2). rewrite <- !app_assoc. f_equal.
    destruct r; cbn; reflexivity.
Qed.

(* a sleep of n cycles issued at cycle c re-queues the task under key c + n (wake exactly on time);
   emits before the sleep keep only the first event of the resumption *)
Lemma poll_sleep : forall c n rest pend, poll c (ASleep n :: rest) pend = (PPending (c + n) rest, pend).
Proof. reflexivity. Qed.

Lemma poll_emit : forall c e rest pend,
  poll c (AEmit e :: rest) pend = poll c rest (match pend with None => Some e | Some x => Some x end).
Proof. reflexivity. Qed.
