(* Proofs/ExecRmwProofs.v -- read-modify-write on internal memory: ADD/SUB/AND/OR/XOR (n),imm and (n),A with no prefix and with
   each of the 15 prefixes (lemmas and tactics in ExecRmwDefs.v; INC/DEC and the carry forms in ExecRmwProofs2.v). *)
From Coq Require Import ZArith NArith List Bool Lia.
From BE Require Import Model.TableTypes Gen.Tables Model.Regs Model.Decode Model.IL Model.Lift Model.Static Model.Spec
  Model.Emu Proofs.AluProofs Proofs.ExecProofs Proofs.AccessProofs Proofs.ExecMemProofs Proofs.ExecAluDefs Proofs.ExecRmwDefs.
Import ListNotations.
Open Scope Z_scope.

Theorem add_imem_imm : rmw_is_spec 65 (fun n k => [OIMem 1 n; OImm8 k]) 3.
Proof. all_pre ltac:(rmw_imm I_ADD (il_add_documented 1)). Qed.
Theorem sub_imem_imm : rmw_is_spec 73 (fun n k => [OIMem 1 n; OImm8 k]) 3.
Proof. all_pre ltac:(rmw_imm I_SUB (il_sub_documented 1)). Qed.
Theorem and_imem_imm : rmw_is_spec 113 (fun n k => [OIMem 1 n; OImm8 k]) 3.
Proof. all_pre ltac:(rmw_imm I_AND il_and_documented). Qed.
Theorem or_imem_imm : rmw_is_spec 121 (fun n k => [OIMem 1 n; OImm8 k]) 3.
Proof. all_pre ltac:(rmw_imm I_OR il_or_documented). Qed.
Theorem xor_imem_imm : rmw_is_spec 105 (fun n k => [OIMem 1 n; OImm8 k]) 3.
Proof. all_pre ltac:(rmw_imm I_XOR il_xor_documented). Qed.
Theorem add_imem_A : rmw_is_spec 67 (fun n _ => [OIMem 1 n; OReg RA 1]) 2.
Proof. all_pre ltac:(rmw_A I_ADD (il_add_documented 1)). Qed.
Theorem sub_imem_A : rmw_is_spec 75 (fun n _ => [OIMem 1 n; OReg RA 1]) 2.
Proof. all_pre ltac:(rmw_A I_SUB (il_sub_documented 1)). Qed.
Theorem and_imem_A : rmw_is_spec 115 (fun n _ => [OIMem 1 n; OReg RA 1]) 2.
Proof. all_pre ltac:(rmw_A I_AND il_and_documented). Qed.
Theorem or_imem_A : rmw_is_spec 123 (fun n _ => [OIMem 1 n; OReg RA 1]) 2.
Proof. all_pre ltac:(rmw_A I_OR il_or_documented). Qed.
Theorem xor_imem_A : rmw_is_spec 107 (fun n _ => [OIMem 1 n; OReg RA 1]) 2.
Proof. all_pre ltac:(rmw_A I_XOR il_xor_documented). Qed.

