(* Proofs/ExecLoopProofs.v -- counted instructions, for EVERY count: MVL (m),(n) and MVLD (m),(n) (ascending / descending block
   move inside internal memory) with no prefix and with each of the 15 prefixes.  The lifted IL is a label/if/goto loop around a byte move and two wrapping
   address updates; the loop is unrolled by induction on the count register I, so the statement holds for I = 0 .. 65535
   with no bound on the number of iterations.  The result is compared with the documented block move (Spec.block_move). *)
From Coq Require Import ZArith NArith List Bool Lia Znumtheory.
From BE Require Import Model.TableTypes Gen.Tables Model.Regs Model.Decode Model.IL Model.Lift Model.Static Model.Spec
  Model.Emu Proofs.AluProofs Proofs.ExecProofs Proofs.AccessProofs Proofs.ExecMemProofs Proofs.ExecPtrProofs.
Import ListNotations.
Open Scope Z_scope.

(* ---- the program ------------------------------------------------------------------------------- *)
Section Loop.
Variable dec : bool.       (* false: MVL (addresses ascend), true: MVLD (addresses descend) *)

Definition upd_e (t : reg) : expr :=
  EBin B_ADD 3 F0 (EConst 3 1048576)
    (EBin B_AND 3 F0 (EBin B_SUB 3 F0 (EBin (if dec then B_SUB else B_ADD) 3 F0 (EReg 3 t) (EConst 3 1)) (EConst 3 1048576)) (EConst 3 255)).
Definition i_zero : expr := EBin B_CMP_E 2 F0 (EReg 2 gI) (EConst 2 0).
Definition mvl_prog (e1 e2 : expr) : list stmt :=
  [SSetReg 3 (gTEMP 3) e1; SSetReg 3 (gTEMP 2) e2; SIf i_zero 0 1; SLabel 1;
   SStore 1 (EReg 3 (gTEMP 3)) (ELoad 1 (EReg 3 (gTEMP 2)));
   SSetReg 3 (gTEMP 3) (upd_e (gTEMP 3)); SSetReg 3 (gTEMP 2) (upd_e (gTEMP 2));
   SSetReg 2 gI (EBin B_SUB 2 F0 (EReg 2 gI) (EConst 1 1)); SIf i_zero 0 1; SLabel 0].

(* next cell of a run inside internal memory *)
Definition wnext (a : Z) : Z := ims + ((if dec then a - 1 else a + 1) - ims) mod 256.

(* ---- register-file facts ----------------------------------------------------------------------- *)
Definition TW (s : mstate) : Prop := length (y_t (rg s)) = NTEMP.

Lemma upd_length {A} (l : list A) : forall k v, length (upd l k v) = length l.
Proof. induction l as [|h l IH]; intros k v; [reflexivity|]. destruct k; cbn; [reflexivity|]. rewrite IH. reflexivity. Qed.

Lemma TW_setr s r v : TW s -> TW (setr s r v).
Proof.
  unfold TW. intros H. rewrite setr_rg. destruct (rg s) as [ba i x y u sp pc f t]. cbn [y_t] in H.
  destruct r; cbn [py_set y_t]; try exact H.
  match goal with |- context [Nat.ltb ?k NTEMP] => destruct (Nat.ltb k NTEMP) end; [rewrite upd_length|]; exact H.
Qed.

Lemma getr_setr_T s k v : TW s -> (k < NTEMP)%nat -> 0 <= v < 16777216 -> getr (setr s (gTEMP k) v) (gTEMP k) = v.
Proof.
  intros HL Hk Hv. unfold getr. rewrite setr_rg. rewrite temp_get_set by (try exact HL; exact Hk).
  rewrite (Z.mod_small v 4294967296) by lia. unfold p24. rewrite N.mod_small by (apply N2Z.inj_lt; rewrite Z2N.id by lia; lia).
  apply Z2N.id. lia.
Qed.

Lemma nth_upd_other (l : list N) : forall j k w, j <> k -> nth j (upd l k w) 0%N = nth j l 0%N.
Proof.
  induction l as [|h l IH]; intros j k w Hjk; [destruct j; reflexivity|].
  destruct k; destruct j; cbn; try reflexivity; try lia. apply IH. lia.
Qed.

Lemma getr_setr_T_other s j k v : j <> k -> getr (setr s (gTEMP k) v) (gTEMP j) = getr s (gTEMP j).
Proof.
  intros Hjk. unfold getr. rewrite setr_rg. destruct (rg s) as [ba i x y u sp pc f t]. cbn [py_set py_get y_t].
  destruct (Nat.ltb k NTEMP); [rewrite nth_upd_other by exact Hjk|]; reflexivity.
Qed.

Lemma getr_setr_I s v : 0 <= v < 65536 -> getr (setr s gI v) gI = v.
Proof.
  intros Hv. unfold getr. rewrite setr_rg. destruct (rg s) as [ba i x y u sp pc f t]. cbn [py_set py_get y_i].
  rewrite (Z.mod_small v 4294967296) by lia. unfold p16. rewrite N.mod_small by (apply N2Z.inj_lt; rewrite Z2N.id by lia; lia).
  apply Z2N.id. lia.
Qed.

Lemma getr_T_setr_I s k v : getr (setr s gI v) (gTEMP k) = getr s (gTEMP k).
Proof. apply getr_temp_setr_o. reflexivity. Qed.

(* ---- expression facts -------------------------------------------------------------------------- *)
Lemma eval_upd s t a : getr s t = a -> ims <= a < ims + 256 -> eval_expr (upd_e t) s = Some (wnext a, s).
Proof.
  intros G Ha. rewrite ims_val in Ha. unfold upd_e, wnext. cbn [eval_expr]. rewrite G.
  assert (D : (256 | 16777216)) by (exists 65536; reflexivity).
  destruct dec; cbn [eval_binop apply_flags].
  - rewrite (band3_small (a - 1)) by lia. rewrite (band3v (a - 1 - 1048576)).
    change 255 with (Z.ones 8). rewrite Z.land_ones by lia. change (2 ^ 8) with 256.
    rewrite <- (Zmod_div_mod 256 16777216) by (try lia; exact D).
    pose proof (Z.mod_pos_bound (a - 1 - 1048576) 256 ltac:(lia)) as Hm.
    rewrite band3_small by lia. rewrite ims_val. reflexivity.
  - rewrite (band3_small (a + 1)) by lia. rewrite (band3_small (a + 1 - 1048576)) by lia.
    change 255 with (Z.ones 8). rewrite Z.land_ones by lia. change (2 ^ 8) with 256.
    pose proof (Z.mod_pos_bound (a + 1 - 1048576) 256 ltac:(lia)) as Hm.
    rewrite band3_small by lia. rewrite ims_val. reflexivity.
Qed.

Lemma eval_i_zero s : eval_expr i_zero s = Some (b2z (getr s gI =? 0), s).
Proof. reflexivity. Qed.

Lemma wnext_range a : ims <= wnext a < ims + 256.
Proof. unfold wnext. pose proof (Z.mod_pos_bound ((if dec then a - 1 else a + 1) - ims) 256 ltac:(lia)). lia. Qed.

(* ---- one iteration ----------------------------------------------------------------------------- *)
Definition mem_mv (m : Z -> Z) (d sr : Z) : Z -> Z := fun x => if x =? d then m sr else m x.

Lemma run_step prog pc s st s1 f :
  nth_error prog pc = Some st -> exec_stmt st s = Some (s1, ONext) -> run (S f) prog pc s = run f prog (S pc) s1.
Proof. intros H1 H2. cbn [run]. rewrite H1, H2. reflexivity. Qed.
Lemma run_goto prog pc s st s1 l i f :
  nth_error prog pc = Some st -> exec_stmt st s = Some (s1, OGoto l) -> label_index prog l 0 None = Some i ->
  run (S f) prog pc s = run f prog i s1.
Proof. intros H1 H2 H3. cbn [run]. rewrite H1, H2, H3. reflexivity. Qed.

Lemma store1_rg s a v : rg (store 1 s a v) = rg s /\ halted (store 1 s a v) = halted s.
Proof. split; reflexivity. Qed.
Lemma store1_mem s a v x : 0 <= v < 256 -> mem (store 1 s a v) x = if x =? a then v else mem s x.
Proof.
  intros Hv. unfold store. change (N.to_nat 1) with 1%nat. cbn [wr_bytes wr1 mem]. unfold band.
  change 255 with (Z.ones 8). rewrite !Z.land_ones by lia. change (2 ^ 8) with 256. rewrite !(Z.mod_small v 256) by lia. reflexivity.
Qed.

Lemma one_iteration e1 e2 s d sr i :
  TW s -> mem_wf s -> getr s (gTEMP 3) = d -> getr s (gTEMP 2) = sr -> ims <= d < ims + 256 -> ims <= sr < ims + 256 ->
  getr s gI = i -> 1 <= i < 65536 ->
  exists s2,
    (forall f, run (6 + f) (mvl_prog e1 e2) 4 s = run f (mvl_prog e1 e2) (if i =? 1 then 10%nat else 4%nat) s2) /\
    TW s2 /\ mem_wf s2 /\ getr s2 (gTEMP 3) = wnext d /\ getr s2 (gTEMP 2) = wnext sr /\ getr s2 gI = i - 1 /\
    clear_temps (rg s2) = py_set (clear_temps (rg s)) gI (Z.to_N (i - 1)) /\
    (forall x, mem s2 x = mem_mv (mem s) d sr x) /\ halted s2 = halted s /\
    rlog s2 = sr :: rlog s /\ wlog s2 = d :: wlog s.
Proof.
  intros HT Hwf G3 G2 Hd Hs GI Hi.
  pose proof (wnext_range d) as Wd. pose proof (wnext_range sr) as Ws. rewrite ims_val in *.
  set (sA := store 1 (logged s [sr]) d (mem s sr)).
  set (sB := setr sA (gTEMP 3) (wnext d)).
  set (sC := setr sB (gTEMP 2) (wnext sr)).
  set (sD := setr sC gI (i - 1)).
  assert (TA : TW sA) by exact HT.
  assert (TB : TW sB) by (apply TW_setr; exact TA).
  assert (TC : TW sC) by (apply TW_setr; exact TB).
  assert (A3 : getr sA (gTEMP 3) = d) by exact G3.
  assert (A2 : getr sA (gTEMP 2) = sr) by exact G2.
  assert (B2 : getr sB (gTEMP 2) = sr) by (unfold sB; rewrite getr_setr_T_other by lia; exact A2).
  assert (CI : getr sC gI = i).
  { unfold sC, sB. rewrite !getr_setr_temp_o by reflexivity. exact GI. }
  exists sD.
  split.
  - intros f. replace (6 + f)%nat with (S (S (S (S (S (S f)))))) by lia.
    erewrite (run_step _ 4 s _ sA) ; [| reflexivity |].
    2:{ cbn [exec_stmt eval_expr]. rewrite G3, G2. rewrite load_1 by exact Hwf. reflexivity. }
    erewrite (run_step _ 5 sA _ sB); [| reflexivity |].
    2:{ cbn [exec_stmt]. rewrite (eval_upd sA (gTEMP 3) d A3) by (rewrite ims_val; lia). reflexivity. }
    erewrite (run_step _ 6 sB _ sC); [| reflexivity |].
    2:{ cbn [exec_stmt]. rewrite (eval_upd sB (gTEMP 2) sr B2) by (rewrite ims_val; lia). reflexivity. }
    erewrite (run_step _ 7 sC _ sD); [| reflexivity |].
    2:{ cbn [exec_stmt eval_expr]. rewrite CI. cbn [eval_binop apply_flags]. rewrite band_mask. change (2 ^ bits 2) with 65536.
        rewrite Z.mod_small by lia. reflexivity. }
    assert (DI : getr sD gI = i - 1) by (unfold sD; apply getr_setr_I; lia).
    destruct (i =? 1) eqn:E1.
    + erewrite (run_goto _ 8 sD _ sD 0%nat 9%nat); [| reflexivity | | reflexivity].
      2:{ cbn [exec_stmt]. rewrite eval_i_zero, DI. replace (i - 1 =? 0) with true by lia. reflexivity. }
      erewrite (run_step _ 9 sD _ sD); [reflexivity | reflexivity | reflexivity].
    + erewrite (run_goto _ 8 sD _ sD 1%nat 3%nat); [| reflexivity | | reflexivity].
      2:{ cbn [exec_stmt]. rewrite eval_i_zero, DI. replace (i - 1 =? 0) with false by lia. reflexivity. }
      erewrite (run_step _ 3 sD _ sD); [reflexivity | reflexivity | reflexivity].
  - split; [apply TW_setr; exact TC|].
    split.
    { intros x. change (mem sD x) with (mem sA x). unfold sA. rewrite store1_mem by apply Hwf.
      destruct (x =? d); apply Hwf. }
    split; [unfold sD, sC; rewrite getr_T_setr_I; rewrite getr_setr_T_other by lia; unfold sB; apply getr_setr_T; [exact TA | unfold NTEMP; lia | lia]|].
    split; [unfold sD; rewrite getr_T_setr_I; unfold sC; apply getr_setr_T; [exact TB | unfold NTEMP; lia | lia]|].
    split; [unfold sD; apply getr_setr_I; lia|].
    split.
    { unfold sD, sC, sB. rewrite !setr_rg. rewrite clear_set_other by reflexivity. rewrite !clear_set_temp.
      rewrite (Z.mod_small (i - 1)) by lia. reflexivity. }
    split.
    { intros x. change (mem sD x) with (mem sA x). unfold sA. rewrite store1_mem by apply Hwf. reflexivity. }
    split; [reflexivity|]. split; reflexivity.
Qed.

(* ---- any number of iterations ------------------------------------------------------------------- *)
Fixpoint bm (n : nat) (d sr : Z) (m : Z -> Z) : Z -> Z :=
  match n with O => m | S n' => bm n' (wnext d) (wnext sr) (mem_mv m d sr) end.

(* the cells a run visits, in order *)
Fixpoint cells (n : nat) (a : Z) : list Z := match n with O => [] | S n' => a :: cells n' (wnext a) end.

Lemma bm_ext n : forall d sr m1 m2, (forall x, m1 x = m2 x) -> forall x, bm n d sr m1 x = bm n d sr m2 x.
Proof.
  induction n as [|n IH]; intros d sr m1 m2 H x; cbn [bm]; [apply H|].
  apply IH. intros y. unfold mem_mv. rewrite !H. reflexivity.
Qed.

Lemma py_set_I_I p a b : py_set (py_set p gI a) gI b = py_set p gI b.
Proof. destruct p; reflexivity. Qed.

Lemma loop_runs e1 e2 : forall n s d sr,
  TW s -> mem_wf s -> getr s (gTEMP 3) = d -> getr s (gTEMP 2) = sr -> ims <= d < ims + 256 -> ims <= sr < ims + 256 ->
  getr s gI = Z.of_nat (S n) -> Z.of_nat (S n) < 65536 ->
  exists s', (forall f, run (6 * S n + 1 + f) (mvl_prog e1 e2) 4 s = RDone s') /\
             clear_temps (rg s') = py_set (clear_temps (rg s)) gI 0 /\
             (forall x, mem s' x = bm (S n) d sr (mem s) x) /\ halted s' = halted s /\
             rlog s' = rev (cells (S n) sr) ++ rlog s /\ wlog s' = rev (cells (S n) d) ++ wlog s.
Proof.
  induction n as [|n IH]; intros s d sr HT Hwf G3 G2 Hd Hs GI Hn.
  - destruct (one_iteration e1 e2 s d sr 1 HT Hwf G3 G2 Hd Hs GI ltac:(lia)) as (s2 & R & _ & _ & _ & _ & _ & C & M & H & RL & WL).
    exists s2. split; [|split; [exact C|split; [exact M|split; [exact H|split; [exact RL|exact WL]]]]].
    intros f. replace (6 * 1 + 1 + f)%nat with (6 + S f)%nat by lia. rewrite R. reflexivity.
  - destruct (one_iteration e1 e2 s d sr (Z.of_nat (S (S n))) HT Hwf G3 G2 Hd Hs GI ltac:(lia))
      as (s2 & R & T2 & W2 & G3' & G2' & GI' & C & M & H & RL & WL).
    assert (E : (Z.of_nat (S (S n)) =? 1) = false) by (apply Z.eqb_neq; lia). rewrite E in R.
    destruct (IH s2 (wnext d) (wnext sr) T2 W2 G3' G2' (wnext_range d) (wnext_range sr) ltac:(lia) ltac:(lia))
      as (s' & R' & C' & M' & H' & RL' & WL').
    exists s'. split; [|split; [|split; [|split; [|split]]]].
    + intros f. replace (6 * S (S n) + 1 + f)%nat with (6 + (6 * S n + 1 + f))%nat by lia. rewrite R. apply R'.
    + rewrite C', C. apply py_set_I_I.
    + intros x. rewrite M'. change (bm (S (S n)) d sr (mem s)) with (bm (S n) (wnext d) (wnext sr) (mem_mv (mem s) d sr)).
      apply bm_ext. exact M.
    + rewrite H'. exact H.
    + rewrite RL', RL. change (cells (S (S n)) sr) with (sr :: cells (S n) (wnext sr)). cbn [rev]. rewrite <- app_assoc. reflexivity.
    + rewrite WL', WL. change (cells (S (S n)) d) with (d :: cells (S n) (wnext d)). cbn [rev]. rewrite <- app_assoc. reflexivity.
Qed.

Lemma imem_cell_range s m n : ims <= fst (imem_cell s m n) < ims + 256.
Proof.
  destruct m; cbn [imem_cell fst];
  match goal with |- _ <= ims + ?v mod 256 < _ => pose proof (Z.mod_pos_bound v 256 ltac:(lia)); lia end.
Qed.

(* the whole lifted program, from its first statement, with the state-dependent fuel the emulator loop gives it *)
Lemma mvl_exec dm sm n1 n2 s :
  TW s -> mem_wf s -> (n1 < 256)%N -> (n2 < 256)%N -> getr s gI < 65536 ->
  let P := mvl_prog (imem_addr dm n1) (imem_addr sm n2) in
  exists s', run (fuel_for P s) P 0 s = RDone s' /\
             clear_temps (rg s') = py_set (clear_temps (rg s)) gI 0 /\
             (forall x, mem s' x = bm (Z.to_nat (getr s gI)) (fst (imem_cell s dm n1)) (fst (imem_cell s sm n2)) (mem s) x) /\
             halted s' = halted s /\
             rlog s' = rev (snd (imem_cell s dm n1) ++ snd (imem_cell s sm n2) ++ cells (Z.to_nat (getr s gI)) (fst (imem_cell s sm n2))) ++ rlog s /\
             wlog s' = rev (cells (Z.to_nat (getr s gI)) (fst (imem_cell s dm n1))) ++ wlog s.
Proof.
  intros HT Hwf Hn1 Hn2 HI P.
  set (d := fst (imem_cell s dm n1)). set (sr := fst (imem_cell s sm n2)).
  pose proof (imem_cell_range s dm n1) as Rd. pose proof (imem_cell_range s sm n2) as Rs. fold d in Rd. fold sr in Rs.
  assert (Hi0 : 0 <= getr s gI) by (unfold getr; lia).
  set (sa := setr (logged s (snd (imem_cell s dm n1))) (gTEMP 3) d).
  assert (Wa : mem_wf sa) by (intros x; apply Hwf).
  assert (Ta : TW sa) by (apply TW_setr; exact HT).
  set (sb := setr (logged sa (snd (imem_cell sa sm n2))) (gTEMP 2) sr).
  assert (Wb : mem_wf sb) by (intros x; apply Hwf).
  assert (Tb : TW sb) by (apply TW_setr; exact Ta).
  assert (B3 : getr sb (gTEMP 3) = d).
  { unfold sb. rewrite getr_setr_T_other by lia. change (getr sa (gTEMP 3) = d). unfold sa. apply getr_setr_T; [exact HT | unfold NTEMP; lia | rewrite ims_val in Rd; lia]. }
  assert (B2 : getr sb (gTEMP 2) = sr).
  { unfold sb. apply getr_setr_T; [exact Ta | unfold NTEMP; lia | rewrite ims_val in Rs; lia]. }
  assert (BI : getr sb gI = getr s gI).
  { unfold sb. rewrite getr_setr_temp_o by reflexivity. change (getr sa gI = getr s gI). unfold sa. rewrite getr_setr_temp_o by reflexivity. reflexivity. }
  assert (CB : clear_temps (rg sb) = clear_temps (rg s)).
  { unfold sb. rewrite setr_rg, clear_set_temp. change (clear_temps (rg sa) = clear_temps (rg s)). unfold sa. rewrite setr_rg, clear_set_temp. reflexivity. }
  assert (F : exists j, fuel_for P s = (3 + (6 * Z.to_nat (getr s gI) + 2 + j))%nat).
  { unfold fuel_for. change (length P) with 10%nat. exists (5 * Z.to_nat (getr s gI) + 28)%nat.
    unfold getr. rewrite <- Z_N_nat, N2Z.id. lia. }
  destruct F as [j Fj]. rewrite Fj.
  replace (3 + (6 * Z.to_nat (getr s gI) + 2 + j))%nat with (S (S (S (6 * Z.to_nat (getr s gI) + 2 + j)))) by lia.
  erewrite (run_step P 0 s _ sa); [| reflexivity |].
  2:{ cbn [exec_stmt]. rewrite imem_addr_eval by assumption. reflexivity. }
  erewrite (run_step P 1 sa _ sb); [| reflexivity |].
  2:{ cbn [exec_stmt]. rewrite imem_addr_eval by assumption. reflexivity. }
  destruct (getr s gI =? 0) eqn:E0.
  - apply Z.eqb_eq in E0. rewrite E0. change (Z.to_nat 0) with 0%nat.
    erewrite (run_goto P 2 sb _ sb 0%nat 9%nat); [| reflexivity | | reflexivity].
    2:{ cbn [exec_stmt]. rewrite eval_i_zero, BI, E0. reflexivity. }
    replace (6 * 0 + 2 + j)%nat with (S (S j)) by lia.
    erewrite (run_step P 9 sb _ sb); [| reflexivity | reflexivity].
    assert (LB : rlog sb = rev (snd (imem_cell s dm n1) ++ snd (imem_cell s sm n2)) ++ rlog s /\ wlog sb = wlog s).
    { split; [|reflexivity]. change (rlog sb) with (rev (snd (imem_cell s sm n2)) ++ rev (snd (imem_cell s dm n1)) ++ rlog s).
      rewrite rev_app_distr, <- app_assoc. reflexivity. }
    exists sb. split; [reflexivity|]. split; [|split; [intros x; reflexivity|split; [reflexivity|]]].
    2:{ cbn [cells rev]. rewrite app_nil_r. exact LB. }
    rewrite CB. unfold getr in E0. destruct (rg s) as [ba i x y u sp pc f t]. cbn [py_get y_i] in E0.
    assert (i = 0%N) by lia. subst i. reflexivity.
  - apply Z.eqb_neq in E0.
    destruct (Z.to_nat (getr s gI)) as [|n] eqn:En; [lia|].
    erewrite (run_goto P 2 sb _ sb 1%nat 3%nat); [| reflexivity | | reflexivity].
    2:{ cbn [exec_stmt]. rewrite eval_i_zero, BI. replace (getr s gI =? 0) with false by (symmetry; apply Z.eqb_neq; exact E0). reflexivity. }
    replace (6 * S n + 2 + j)%nat with (S (6 * S n + 1 + j)) by lia.
    erewrite (run_step P 3 sb _ sb); [| reflexivity | reflexivity].
    destruct (loop_runs (imem_addr dm n1) (imem_addr sm n2) n sb d sr Tb Wb B3 B2 Rd Rs ltac:(rewrite BI; lia) ltac:(lia))
      as (s' & R & C & M & H & RL & WL).
    assert (LB : rlog sb = rev (snd (imem_cell s dm n1) ++ snd (imem_cell s sm n2)) ++ rlog s /\ wlog sb = wlog s).
    { split; [|reflexivity]. change (rlog sb) with (rev (snd (imem_cell s sm n2)) ++ rev (snd (imem_cell s dm n1)) ++ rlog s).
      rewrite rev_app_distr, <- app_assoc. reflexivity. }
    destruct LB as [LB1 LB2].
    exists s'. split; [apply R|]. split; [rewrite C, CB; reflexivity|]. split; [exact M|]. split; [exact H|]. split.
    + rewrite RL, LB1. fold sr. rewrite (app_assoc (snd (imem_cell s dm n1))). rewrite (rev_app_distr _ (cells (S n) sr)).
      rewrite <- app_assoc. reflexivity.
    + rewrite WL, LB2. reflexivity.
Qed.

(* ---- the documented block move, as a function on memory ------------------------------------------ *)
Definition stepk (a k : Z) : Z := if dec then a - k else a + k.

Lemma wrap_next a k : in_imem a = true -> wnext (wrap_imem a (stepk a k)) = wrap_imem a (stepk a (k + 1)).
Proof.
  intros H. unfold wrap_imem, wnext, stepk. rewrite H. destruct dec.
  - replace (ims + (a - k - ims) mod 256 - 1 - ims) with ((a - k - ims) mod 256 - 1) by lia.
    replace (a - (k + 1) - ims) with ((a - k - ims) - 1) by lia.
    rewrite Zminus_mod_idemp_l. reflexivity.
  - replace (ims + (a + k - ims) mod 256 + 1 - ims) with ((a + k - ims) mod 256 + 1) by lia.
    replace (a + (k + 1) - ims) with ((a + k - ims) + 1) by lia.
    rewrite Z.add_mod_idemp_l by lia. reflexivity.
Qed.

Lemma spec_bm n : forall k t a b rs1 rs2, mem_wf t -> in_imem a = true -> in_imem b = true ->
  let r := block_move n k (PlMem a 1 rs1 None) (PlMem b 1 rs2 None) dec t in
  rg r = rg t /\ halted r = halted t /\ (forall x, mem r x = bm n (wrap_imem a (stepk a k)) (wrap_imem b (stepk b k)) (mem t) x).
Proof.
  induction n as [|n IH]; intros k t a b rs1 rs2 Hwf Ha Hb; cbv zeta.
  - cbn [block_move bm]. repeat split.
  - cbn [block_move elt bm]. replace (k * Z.of_N 1) with k by lia.
    change (if dec then a - k else a + k) with (stepk a k). change (if dec then b - k else b + k) with (stepk b k).
    set (a' := wrap_imem a (stepk a k)). set (b' := wrap_imem b (stepk b k)).
    cbn [wr_place rd_place]. change (N.to_nat 1) with 1%nat. rewrite le_val_1.
    set (t' := store 1 t a' (mem t b')).
    assert (W' : mem_wf t').
    { intros x. unfold t'. rewrite store1_mem by apply Hwf. destruct (x =? a'); apply Hwf. }
    destruct (IH (k + 1) t' a b rs1 rs2 W' Ha Hb) as (R1 & R2 & R3). cbv zeta in R1, R2, R3.
    split; [rewrite R1; reflexivity|]. split; [rewrite R2; reflexivity|].
    intros x. rewrite R3. unfold a', b'. rewrite !wrap_next by assumption.
    apply bm_ext. intros y. unfold t'. rewrite store1_mem by apply Hwf. reflexivity.
Qed.

Lemma cells_run a n : in_imem a = true -> forall k, run_cells a 1 n dec k = cells n (wrap_imem a (stepk a k)).
Proof.
  intros Ha. induction n as [|n IH]; intros k; [reflexivity|].
  cbn [run_cells cells range map app]. change (Z.of_nat 1) with 1. replace (k * 1) with k by lia.
  change (if dec then a - k else a + k) with (stepk a k). rewrite IH. rewrite wrap_next by exact Ha. reflexivity.
Qed.

Lemma in_imem_cell s m n : in_imem (fst (imem_cell s m n)) = true.
Proof. pose proof (imem_cell_range s m n) as H. unfold in_imem. apply andb_true_intro. split; [apply Z.leb_le|apply Z.ltb_lt]; lia. Qed.

Lemma wrap_self a : in_imem a = true -> wrap_imem a (stepk a 0) = a.
Proof.
  intros H. unfold wrap_imem, stepk. rewrite H. unfold in_imem in H. apply andb_prop in H. destruct H as [H1 H2].
  apply Z.leb_le in H1. apply Z.ltb_lt in H2. replace ((if dec then a - 0 else a + 0) - ims) with (a - ims) by (destruct dec; lia).
  rewrite Z.mod_small by lia. lia.
Qed.

Lemma mvl_final dm sm n1 n2 x y s :
  mem_wf s -> TW s -> (py_get (rg s) gI < 65536)%N -> (n1 < 256)%N -> (n2 < 256)%N ->
  let P := mvl_prog (imem_addr dm n1) (imem_addr sm n2) in
  let s1 := setr (setr s gPC x) gPC y in
  exists s', run (fuel_for P s1) P 0 s1 = RDone s' /\
    arch_eqT s' (setr (block_move (N.to_nat (py_get (rg s) gI)) 0 (place_of s (LIMem 1 n1) dm) (place_of s (LIMem 1 n2) sm) dec
                         (setr s gPC y)) gI 0) /\
    (* data accesses, in order: the addressing registers of both operands, then the source run; writes: the destination run *)
    let n := N.to_nat (py_get (rg s) gI) in
    rlog s' = rev (snd (imem_cell s dm n1) ++ snd (imem_cell s sm n2) ++ run_cells (fst (imem_cell s sm n2)) 1 n dec 0) ++ rlog s /\
    wlog s' = rev (run_cells (fst (imem_cell s dm n1)) 1 n dec 0) ++ wlog s.
Proof.
  intros Hwf HT HI Hn1 Hn2 P s1.
  assert (T1 : TW s1) by (apply TW_setr; apply TW_setr; exact HT).
  assert (W1 : mem_wf s1) by (intros a; apply Hwf).
  assert (I1 : getr s1 gI = Z.of_N (py_get (rg s) gI)).
  { unfold s1. rewrite !getr_setr_pc by discriminate. reflexivity. }
  destruct (mvl_exec dm sm n1 n2 s1 T1 W1 Hn1 Hn2 ltac:(rewrite I1; lia)) as (s' & R & C & M & H & RL & WL).
  exists s'. split; [exact R|].
  rewrite I1 in M, RL, WL. rewrite <- Z_N_nat, N2Z.id in M, RL, WL.
  change (imem_cell s1 dm n1) with (imem_cell s dm n1) in M, RL, WL. change (imem_cell s1 sm n2) with (imem_cell s sm n2) in M, RL, WL.
  change (rlog s1) with (rlog s) in RL. change (wlog s1) with (wlog s) in WL.
  pose proof (in_imem_cell s dm n1) as Ia. pose proof (in_imem_cell s sm n2) as Ib.
  split.
  2:{ cbv zeta. rewrite !cells_run by assumption. rewrite !wrap_self by assumption. split; [exact RL|exact WL]. }
  cbn [place_of].
  destruct (imem_cell s dm n1) as [a rs1]. destruct (imem_cell s sm n2) as [b rs2]. cbn [fst] in *.
  assert (W2 : mem_wf (setr s gPC y)) by (intros z; apply Hwf).
  destruct (spec_bm (N.to_nat (py_get (rg s) gI)) 0 (setr s gPC y) a b rs1 rs2 W2 Ia Ib) as (R1 & R2 & R3). cbv zeta in R1, R2, R3.
  rewrite !wrap_self in R3 by assumption.
  unfold arch_eqT. split; [|split].
  - rewrite C. rewrite setr_rg. rewrite clear_set_other by reflexivity. rewrite R1.
    unfold s1. rewrite !setr_rg. rewrite py_set_pc_pc. reflexivity.
  - intros z. cbn [setr with_rg mem]. rewrite M, R3. reflexivity.
  - cbn [setr with_rg halted]. rewrite H, R2. reflexivity.
Qed.

End Loop.

Definition mvl_is_spec (opc : N) : Prop :=
  forall c, In c pre_choices -> forall n1 n2, (n1 < 256)%N -> (n2 < 256)%N -> forall addr s,
  mem_wf s -> TW s -> (py_get (rg s) gI < 65536)%N ->
  exists s' t, exec_decoded (mk_pre c opc [OIMem 1 n1; OIMem 1 n2] 3) (first_byte c opc) addr s = XOk s' /\
               spec_exec (mk_pre c opc [OIMem 1 n1; OIMem 1 n2] 3) addr s = Some t /\ arch_eqT s' t.

Ltac mvl_case dec cls :=
  let n1 := fresh "n1" in let n2 := fresh "n2" in let H1 := fresh "H1" in let H2 := fresh "H2" in
  let addr := fresh "addr" in let s := fresh "s" in let Hwf := fresh "Hwf" in let HT := fresh "HT" in let HI := fresh "HI" in
  intros n1 n2 H1 H2 addr s Hwf HT HI;
  lift_mem;
  match goal with |- context [run (fuel_for ?p ?s1) ?p 0 ?s1] =>
    match p with (SSetReg _ _ (imem_addr ?dm _) :: SSetReg _ _ (imem_addr ?sm _) :: _) =>
      match s1 with setr (setr _ gPC ?x) gPC ?y =>
        let s' := fresh "s'" in let E := fresh "E" in let AE := fresh "AE" in
        destruct (mvl_final dec dm sm n1 n2 x y s Hwf HT HI H1 H2) as (s' & E & AE & _); cbv zeta in E;
        change p with (mvl_prog dec (imem_addr dm n1) (imem_addr sm n2)); rewrite E;
        eexists; eexists; split; [reflexivity|]; split; [spec_mem cls; cbn [upd_block]; reflexivity|exact AE]
      end
    end
  end.

Theorem mvl_imem_imem : mvl_is_spec 203.
Proof.
  intros c Hc. cbn [In pre_choices map] in Hc.
  repeat (destruct Hc as [<- | Hc]; [mvl_case false I_MVL|]). destruct Hc.
Qed.

Theorem mvld_imem_imem : mvl_is_spec 207.
Proof.
  intros c Hc. cbn [In pre_choices map] in Hc.
  repeat (destruct Hc as [<- | Hc]; [mvl_case true I_MVLD|]). destruct Hc.
Qed.

(* the hypotheses are satisfiable, and the count is really unbounded below 2^16: e.g. I = 40000 *)
Definition mvl_example_state : mstate :=
  {| rg := py_set py_init gI 40000; mem := fun _ => 0; halted := false; rlog := []; wlog := [] |}.
Lemma mvl_hypotheses_satisfiable : mem_wf mvl_example_state /\ TW mvl_example_state /\ (py_get (rg mvl_example_state) gI < 65536)%N.
Proof. split; [intros a; cbn; lia|]. split; [reflexivity|]. vm_compute. reflexivity. Qed.

Lemma mvl_opcode_check :
  (d_cls (entry_of 203), d_ops (entry_of 203)) = (I_MVL, [PIMem 1; PIMem 1]) /\
  (d_cls (entry_of 207), d_ops (entry_of 207)) = (I_MVLD, [PIMem 1; PIMem 1]).
Proof. split; vm_compute; reflexivity. Qed.

(* ---- C03: the counted run touches exactly the cells the rendered operands denote ------------------- *)
Definition mvl_access_is_documented (opc : N) : Prop :=
  forall c, In c pre_choices -> forall n1 n2, (n1 < 256)%N -> (n2 < 256)%N -> forall addr s,
  mem_wf s -> TW s -> (py_get (rg s) gI < 65536)%N ->
  exists s' A rl,
    exec_decoded (mk_pre c opc [OIMem 1 n1; OIMem 1 n2] 3) (first_byte c opc) addr s = XOk s' /\
    den_access (mk_pre c opc [OIMem 1 n1; OIMem 1 n2] 3) s = Some A /\
    rlog s' = rev rl ++ rlog s /\ (forall x, In x rl <-> In x (a_reads A)) /\
    wlog s' = rev (a_writes A) ++ wlog s.

Ltac mvl_access_case dec cls :=
  let n1 := fresh "n1" in let n2 := fresh "n2" in let H1 := fresh "H1" in let H2 := fresh "H2" in
  let addr := fresh "addr" in let s := fresh "s" in let Hwf := fresh "Hwf" in let HT := fresh "HT" in let HI := fresh "HI" in
  intros n1 n2 H1 H2 addr s Hwf HT HI;
  lift_mem;
  match goal with |- context [run (fuel_for ?p ?s1) ?p 0 ?s1] =>
    match p with (SSetReg _ _ (imem_addr ?dm _) :: SSetReg _ _ (imem_addr ?sm _) :: _) =>
      match s1 with setr (setr _ gPC ?x) gPC ?y =>
        let s' := fresh "s'" in let E := fresh "E" in let RL := fresh "RL" in let WL := fresh "WL" in
        destruct (mvl_final dec dm sm n1 n2 x y s Hwf HT HI H1 H2) as (s' & E & _ & RL & WL); cbv zeta in E, RL, WL;
        change p with (mvl_prog dec (imem_addr dm n1) (imem_addr sm n2)); rewrite E;
        unfold den_access;
        match goal with |- context [render_ops ?i] =>
          let R := fresh "R" in let HR := fresh "HR" in remember (render_ops i) as R eqn:HR; vm_compute in HR; subst R end;
        cbn [map fst snd nth];
        match goal with |- context [d_cls (i_ent ?i)] => change (d_cls (i_ent i)) with cls end;
        cbv iota; cbv beta; cbn [place_of];
        destruct (imem_cell s dm n1) as [a rs1]; destruct (imem_cell s sm n2) as [b rs2]; cbn [fst snd] in RL, WL;
        cbn [op_run acc_app a_reads a_writes app]; change (N.to_nat 1) with 1%nat;
        eexists; eexists; eexists; split; [reflexivity|]; split; [reflexivity|]; split; [exact RL|]; split; [|exact WL];
        cbn [acc_app a_reads a_writes]; intros z; rewrite !in_app_iff; tauto
      end
    end
  end.

Theorem mvl_access : mvl_access_is_documented 203.
Proof.
  intros c Hc. cbn [In pre_choices map] in Hc.
  repeat (destruct Hc as [<- | Hc]; [mvl_access_case false I_MVL|]). destruct Hc.
Qed.

Theorem mvld_access : mvl_access_is_documented 207.
Proof.
  intros c Hc. cbn [In pre_choices map] in Hc.
  repeat (destruct Hc as [<- | Hc]; [mvl_access_case true I_MVLD|]). destruct Hc.
Qed.
