(* Proofs/ExecPtrProofs.v -- instruction-level statements for register-indirect operands: MV A,[r3], [r3++], [--r3],
   [r3+n], [r3-n] and the stores MV [..],A for r3 = X, Y, U, S.  The lifted IL, run by the model evaluator, reads / writes
   exactly the byte the rendered operand denotes, updates the pointer as documented and changes nothing else that is
   architectural (the IL's scratch registers are excluded from the comparison: arch_eqT). *)
From Coq Require Import ZArith NArith List Bool Lia.
From BE Require Import Model.TableTypes Gen.Tables Model.Regs Model.Decode Model.IL Model.Lift Model.Static Model.Spec
  Model.Emu Proofs.AluProofs Proofs.ExecProofs Proofs.AccessProofs Proofs.ExecMemProofs.
Import ListNotations.
Open Scope Z_scope.

Definition clear_temps (p : pyregs) : pyregs :=
  {| y_ba := y_ba p; y_i := y_i p; y_x := y_x p; y_y := y_y p; y_u := y_u p; y_s := y_s p; y_pc := y_pc p; y_f := y_f p;
     y_t := repeat 0%N NTEMP |}.

(* architectural equality: everything but the scratch registers and the access logs *)
Definition arch_eqT (a b : mstate) : Prop :=
  clear_temps (rg a) = clear_temps (rg b) /\ (forall x, mem a x = mem b x) /\ halted a = halted b.

Definition is_tempr (r : reg) : bool := match r with gTEMP _ => true | _ => false end.

Lemma clear_set_temp p k v : clear_temps (py_set p (gTEMP k) v) = clear_temps p.
Proof. destruct p; reflexivity. Qed.
Lemma clear_set_other p r v : is_tempr r = false -> clear_temps (py_set p r v) = py_set (clear_temps p) r v.
Proof. destruct p; destruct r; try discriminate; reflexivity. Qed.

Lemma temp_get_set p k v : length (y_t p) = NTEMP -> (k < NTEMP)%nat -> py_get (py_set p (gTEMP k) v) (gTEMP k) = (v mod p24)%N.
Proof.
  intros HL Hk. destruct p as [ba i x y u sp pc f t]. cbn [py_set py_get y_t] in *.
  apply Nat.ltb_lt in Hk. rewrite Hk.
  assert (G : forall (l : list N) j w, (j < length l)%nat -> nth j (upd l j w) 0%N = w).
  { induction l as [|h l IH]; intros j w Hj; [cbn in Hj; lia|]. destruct j; cbn; [reflexivity|]. apply IH. cbn in Hj. lia. }
  apply G. apply Nat.ltb_lt in Hk. lia.
Qed.

Lemma py_get_set_other_temp p r v k : is_tempr r = false -> py_get (py_set p r v) (gTEMP k) = py_get p (gTEMP k).
Proof. destruct p; destruct r; try discriminate; reflexivity. Qed.

Definition ptr_reg (k : N) : option reg := match k with 4%N => Some gX | 5%N => Some gY | 6%N => Some gU | 7%N => Some gS | _ => None end.

Lemma getr_ptr_range s r : In r [gX; gY; gU; gS] -> 0 <= getr s r < 1048576.
Proof.
  intros H. unfold getr. cbn [In] in H.
  destruct H as [<- | [<- | [<- | [<- | []]]]]; cbn [py_get];
  match goal with |- context [(?v mod p20)%N] => pose proof (N.mod_upper_bound v p20 ltac:(discriminate)) as Hb; revert Hb; generalize (v mod p20)%N; intros; unfold p20 in *; lia end.
Qed.

Lemma getr_setr_temp_o s k v r : is_tempr r = false -> getr (setr s (gTEMP k) v) r = getr s r.
Proof. intros H. unfold getr. rewrite setr_rg. destruct (rg s); destruct r; try discriminate; reflexivity. Qed.

Lemma getr_temp_setr_o s r v k : is_tempr r = false -> getr (setr s r v) (gTEMP k) = getr s (gTEMP k).
Proof. intros H. unfold getr. rewrite setr_rg. rewrite py_get_set_other_temp by exact H. reflexivity. Qed.

Lemma getr_setr_T1 s v : length (y_t (rg s)) = NTEMP -> 0 <= v < 16777216 -> getr (setr s (gTEMP 1) v) (gTEMP 1) = v.
Proof.
  intros HL Hv. unfold getr. rewrite setr_rg. rewrite temp_get_set by (try exact HL; unfold NTEMP; lia).
  rewrite (Z.mod_small v 4294967296) by lia. unfold p24. rewrite N.mod_small by (apply N2Z.inj_lt; rewrite Z2N.id by lia; lia).
  apply Z2N.id. lia.
Qed.

Lemma band3v v : band v (maskw 3) = v mod 16777216.
Proof. rewrite band_mask. reflexivity. Qed.

(* the three-statement shape of [r++] / [--r] loads: TEMP1 := address; r := updated pointer; A := [TEMP1] *)
Lemma run_incdec_load s1 r (eaddr eupd : expr) (a nv : Z) j :
  In r [gX; gY; gU; gS] -> mem_wf s1 -> length (y_t (rg s1)) = NTEMP -> 0 <= a < 16777216 ->
  eval_expr eaddr s1 = Some (a, s1) ->
  (forall u, getr u r = getr s1 r -> eval_expr eupd u = Some (nv, u)) ->
  run (4 + j) [SSetReg 3 (gTEMP 1) eaddr; SSetReg 3 r eupd; SSetReg 1 gA (ELoad 1 (EReg 3 (gTEMP 1)))] 0 s1 =
  RDone (setr (logged (setr (setr s1 (gTEMP 1) a) r nv) [a]) gA (mem s1 a)).
Proof.
  intros Hr Hwf HL Ha E1 E2.
  assert (Hnt : is_tempr r = false) by (cbn [In] in Hr; destruct Hr as [<- | [<- | [<- | [<- | []]]]]; reflexivity).
  replace (4 + j)%nat with (S (S (S (S j)))) by lia.
  cbn [run nth_error exec_stmt]. rewrite E1. cbn [nth_error].
  set (u1 := setr s1 (gTEMP 1) a).
  rewrite (E2 u1) by (subst u1; apply getr_setr_temp_o; exact Hnt). cbn [nth_error exec_stmt eval_expr].
  set (u2 := setr u1 r nv).
  assert (T : getr u2 (gTEMP 1) = a).
  { subst u2. rewrite getr_temp_setr_o by exact Hnt. subst u1. apply getr_setr_T1; assumption. }
  rewrite T. rewrite load_1 by (intros z; apply Hwf). cbn [nth_error]. reflexivity.
Qed.

Definition ptr_is_spec (i : instr) (fb : N) : Prop :=
  forall addr s, mem_wf s -> length (y_t (rg s)) = NTEMP ->
  exists s' t, exec_decoded i fb addr s = XOk s' /\ spec_exec i addr s = Some t /\ arch_eqT s' t.

Lemma arch_eqT_load s x y r (a nv : Z) :
  In r [gX; gY; gU; gS] ->
  arch_eqT (setr (logged (setr (setr (setr (setr s gPC x) gPC y) (gTEMP 1) a) r nv) [a]) gA (mem s a))
           (setr (setr (setr s gPC y) r nv) gA (mem s a)).
Proof.
  intros Hr. assert (Hnt : is_tempr r = false) by (cbn [In] in Hr; destruct Hr as [<- | [<- | [<- | [<- | []]]]]; reflexivity).
  unfold arch_eqT. split; [|split]; [|intros z; reflexivity|reflexivity].
  rewrite !setr_rg. unfold logged; cbn [rg]. rewrite !setr_rg.
  rewrite !(clear_set_other _ gA) by reflexivity. rewrite !(clear_set_other _ r) by exact Hnt. rewrite clear_set_temp.
  rewrite !(clear_set_other _ gPC) by reflexivity. rewrite py_set_pc_pc. reflexivity.
Qed.

Lemma setr_ptr_mod24 s r v : In r [gX; gY; gU; gS] -> setr s r (v mod 16777216) = setr s r v.
Proof.
  intros Hr. unfold setr. f_equal.
  assert (E : (Z.to_N ((v mod 16777216) mod 4294967296) mod p20 = Z.to_N (v mod 4294967296) mod p20)%N).
  { pose proof (Z.mod_pos_bound v 16777216 ltac:(lia)) as H1. pose proof (Z.mod_pos_bound v 4294967296 ltac:(lia)) as H2.
    rewrite (Z.mod_small (v mod 16777216) 4294967296) by lia.
    apply N2Z.inj. rewrite !N2Z.inj_mod by discriminate. rewrite !Z2N.id by lia.
    change (Z.of_N p20) with 1048576.
    rewrite <- (Znumtheory.Zmod_div_mod 1048576 16777216 v) by (try lia; exists 16; reflexivity).
    rewrite <- (Znumtheory.Zmod_div_mod 1048576 4294967296 v) by (try lia; exists 4096; reflexivity). reflexivity. }
  cbn [In] in Hr. destruct Hr as [<- | [<- | [<- | [<- | []]]]]; destruct (rg s); cbn [py_set]; rewrite E; reflexivity.
Qed.

Definition inc_modes : list (N * reg) := [(36, gX); (37, gY); (38, gU); (39, gS)]%N.      (* [r++]: mode nibble 2 *)
Definition dec_modes : list (N * reg) := [(52, gX); (53, gY); (54, gU); (55, gS)]%N.      (* [--r]: mode nibble 3 *)

Ltac postinc_load_case r :=
  let addr := fresh "addr" in let s := fresh "s" in let Hwf := fresh "Hwf" in let HL := fresh "HL" in
  let S1 := fresh "S1" in let HX := fresh "HX" in let GX := fresh "GX" in let W1 := fresh "W1" in let L1 := fresh "L1" in
  let E1 := fresh "E1" in let E2 := fresh "E2" in let j := fresh "j" in let Hj := fresh "Hj" in
  intros addr s Hwf HL; lift_mem;
  match goal with |- context [run (fuel_for ?p ?s1) ?p 0 ?s1] =>
    destruct (fuel_split p s1 4) as [j Hj]; [cbn; lia|]; rewrite Hj; set (S1 := s1) end;
  pose proof (getr_ptr_range s r ltac:(cbn; auto)) as HX;
  assert (GX : getr S1 r = getr s r) by (subst S1; rewrite !getr_setr_pc by discriminate; reflexivity);
  assert (W1 : mem_wf S1) by (intros z; apply Hwf);
  assert (L1 : length (y_t (rg S1)) = NTEMP) by (subst S1; rewrite !setr_rg; destruct (rg s); exact HL);
  assert (E1 : eval_expr (EReg 3 r) S1 = Some (getr s r, S1)) by (cbn [eval_expr]; rewrite GX; reflexivity);
  assert (E2 : forall u, getr u r = getr S1 r ->
               eval_expr (EBin B_ADD 3 IL.F0 (EReg 3 r) (EConst 3 (Z.of_N 1))) u = Some ((getr s r + 1) mod 16777216, u))
    by (intros u Hu; cbn [eval_expr eval_binop apply_flags]; rewrite Hu, GX; rewrite band3v; reflexivity);
  rewrite (run_incdec_load S1 r _ _ (getr s r) ((getr s r + 1) mod 16777216) j ltac:(cbn; auto) W1 L1 ltac:(lia) E1 E2);
  eexists; eexists; split; [reflexivity|]; split; [spec_mem I_MV; cbn [place_of]; reflexivity|];
  unfold wr_place, upd_place, rd_place; rewrite (Z.mod_small (getr s r + 1) 16777216) by lia;
  change (Z.of_N 1) with 1; change (N.to_nat 1) with 1%nat; rewrite le_val_1;
  replace (mem S1 (getr s r)) with (mem s (getr s r)) by reflexivity; subst S1; apply arch_eqT_load; cbn; auto.

Ltac predec_load_case r :=
  let addr := fresh "addr" in let s := fresh "s" in let Hwf := fresh "Hwf" in let HL := fresh "HL" in
  let S1 := fresh "S1" in let HX := fresh "HX" in let GX := fresh "GX" in let W1 := fresh "W1" in let L1 := fresh "L1" in
  let E1 := fresh "E1" in let E2 := fresh "E2" in let j := fresh "j" in let Hj := fresh "Hj" in let HA := fresh "HA" in
  intros addr s Hwf HL; lift_mem;
  match goal with |- context [run (fuel_for ?p ?s1) ?p 0 ?s1] =>
    destruct (fuel_split p s1 4) as [j Hj]; [cbn; lia|]; rewrite Hj; set (S1 := s1) end;
  pose proof (getr_ptr_range s r ltac:(cbn; auto)) as HX;
  assert (GX : getr S1 r = getr s r) by (subst S1; rewrite !getr_setr_pc by discriminate; reflexivity);
  assert (W1 : mem_wf S1) by (intros z; apply Hwf);
  assert (L1 : length (y_t (rg S1)) = NTEMP) by (subst S1; rewrite !setr_rg; destruct (rg s); exact HL);
  pose proof (Z.mod_pos_bound (getr s r - 1) 16777216 ltac:(lia)) as HA;
  assert (E1 : eval_expr (EBin B_SUB 3 IL.F0 (EReg 3 r) (EConst 3 (Z.of_N 1))) S1 = Some ((getr s r - 1) mod 16777216, S1))
    by (cbn [eval_expr eval_binop apply_flags]; rewrite GX; rewrite band3v; reflexivity);
  assert (E2 : forall u, getr u r = getr S1 r ->
               eval_expr (EBin B_SUB 3 IL.F0 (EReg 3 r) (EConst 3 (Z.of_N 1))) u = Some ((getr s r - 1) mod 16777216, u))
    by (intros u Hu; cbn [eval_expr eval_binop apply_flags]; rewrite Hu, GX; rewrite band3v; reflexivity);
  rewrite (run_incdec_load S1 r _ _ ((getr s r - 1) mod 16777216) ((getr s r - 1) mod 16777216) j ltac:(cbn; auto) W1 L1 HA E1 E2);
  eexists; eexists; split; [reflexivity|]; split; [spec_mem I_MV; cbn [place_of]; reflexivity|];
  unfold wr_place, upd_place, rd_place;
  change (Z.of_N 1) with 1; change (N.to_nat 1) with 1%nat; rewrite le_val_1;
  rewrite <- (setr_ptr_mod24 _ r (getr s r - 1)) by (cbn; auto);
  match goal with |- context [mem S1 ?a] => replace (mem S1 a) with (mem s a) by reflexivity end; subst S1; apply arch_eqT_load; cbn; auto.

Theorem mv_A_postinc : forall m r, In (m, r) inc_modes -> ptr_is_spec (mk_instr 144 [OReg RA 1; OEMemReg 1 m None] 2) 144.
Proof.
  intros m r H. cbn [In inc_modes] in H.
  destruct H as [H | [H | [H | [H | []]]]]; injection H as <- <-;
    [postinc_load_case gX | postinc_load_case gY | postinc_load_case gU | postinc_load_case gS].
Qed.

Theorem mv_A_predec : forall m r, In (m, r) dec_modes -> ptr_is_spec (mk_instr 144 [OReg RA 1; OEMemReg 1 m None] 2) 144.
Proof.
  intros m r H. cbn [In dec_modes] in H.
  destruct H as [H | [H | [H | [H | []]]]]; injection H as <- <-;
    [predec_load_case gX | predec_load_case gY | predec_load_case gU | predec_load_case gS].
Qed.

(* ---- [r], [r+n], [r-n] loads ------------------------------------------------------------------------ *)
Lemma arch_eq_T a b : arch_eq a b -> arch_eqT a b.
Proof. intros (H1 & H2 & H3). unfold arch_eqT. rewrite H1. auto. Qed.

Lemma run_direct_load s1 (e : expr) (a : Z) j : mem_wf s1 -> eval_expr e s1 = Some (a, s1) ->
  run (2 + j) [SSetReg 1 gA (ELoad 1 e)] 0 s1 = RDone (setr (logged s1 [a]) gA (mem s1 a)).
Proof.
  intros Hwf E. replace (2 + j)%nat with (S (S j)) by lia. cbn [run nth_error exec_stmt eval_expr]. rewrite E.
  rewrite load_1 by exact Hwf. cbn [nth_error]. reflexivity.
Qed.

Lemma arch_eq_direct_load s x y a v :
  arch_eq (setr (logged (setr (setr s gPC x) gPC y) [a]) gA v) (setr (setr s gPC y) gA v).
Proof.
  unfold arch_eq. split; [|split]; [|intros z; reflexivity|reflexivity].
  rewrite !setr_rg. unfold logged; cbn [rg]. rewrite !setr_rg. rewrite py_set_pc_pc. reflexivity.
Qed.

Definition simple_modes : list (N * reg) := [(4, gX); (5, gY); (6, gU); (7, gS)]%N.
Definition plus_modes : list (N * reg) := [(132, gX); (133, gY); (134, gU); (135, gS)]%N.       (* mode nibble 8 *)
Definition minus_modes : list (N * reg) := [(196, gX); (197, gY); (198, gU); (199, gS)]%N.      (* mode nibble C *)

Ltac direct_load_case r len :=
  let addr := fresh "addr" in let s := fresh "s" in let Hwf := fresh "Hwf" in let HL := fresh "HL" in
  let S1 := fresh "S1" in let GX := fresh "GX" in let W1 := fresh "W1" in let j := fresh "j" in let Hj := fresh "Hj" in
  intros addr s Hwf HL; lift_mem;
  match goal with |- context [run (fuel_for ?p ?s1) ?p 0 ?s1] =>
    destruct (fuel_split p s1 2) as [j Hj]; [cbn; lia|]; rewrite Hj; set (S1 := s1) end;
  assert (GX : getr S1 r = getr s r) by (subst S1; rewrite !getr_setr_pc by discriminate; reflexivity);
  assert (W1 : mem_wf S1) by (intros z; apply Hwf);
  match goal with |- context [SSetReg 1 gA (ELoad 1 ?e)] =>
    match e with
    | EReg 3 _ => rewrite (run_direct_load S1 e (getr s r) j W1) by (cbn [eval_expr]; rewrite GX; reflexivity)
    | EBin B_ADD 3 _ _ (EConst 3 ?d) =>
        rewrite (run_direct_load S1 e ((getr s r + d) mod 16777216) j W1)
          by (cbn [eval_expr eval_binop apply_flags]; rewrite GX; rewrite band3v; reflexivity)
    end
  end;
  eexists; eexists; split; [reflexivity|]; split; [spec_mem I_MV; cbn [place_of]; reflexivity|];
  unfold wr_place, upd_place, rd_place; change (N.to_nat 1) with 1%nat; rewrite le_val_1;
  match goal with |- context [mem S1 ?a] => replace (mem S1 a) with (mem s a) by reflexivity end;
  subst S1; apply arch_eq_T; apply arch_eq_direct_load.

Theorem mv_A_simple : forall m r, In (m, r) simple_modes -> ptr_is_spec (mk_instr 144 [OReg RA 1; OEMemReg 1 m None] 2) 144.
Proof.
  intros m r H. cbn [In simple_modes] in H.
  destruct H as [H | [H | [H | [H | []]]]]; injection H as <- <-;
    [direct_load_case gX 2%nat | direct_load_case gY 2%nat | direct_load_case gU 2%nat | direct_load_case gS 2%nat].
Qed.

Theorem mv_A_plus : forall m r n, In (m, r) plus_modes -> ptr_is_spec (mk_instr 144 [OReg RA 1; OEMemReg 1 m (Some n)] 3) 144.
Proof.
  intros m r n H. cbn [In plus_modes] in H.
  destruct H as [H | [H | [H | [H | []]]]]; injection H as <- <-;
    [direct_load_case gX 3%nat | direct_load_case gY 3%nat | direct_load_case gU 3%nat | direct_load_case gS 3%nat].
Qed.

Theorem mv_A_minus : forall m r n, In (m, r) minus_modes -> ptr_is_spec (mk_instr 144 [OReg RA 1; OEMemReg 1 m (Some n)] 3) 144.
Proof.
  intros m r n H. cbn [In minus_modes] in H.
  destruct H as [H | [H | [H | [H | []]]]]; injection H as <- <-;
    [direct_load_case gX 3%nat | direct_load_case gY 3%nat | direct_load_case gU 3%nat | direct_load_case gS 3%nat].
Qed.

(* ---- stores MV [..],A ---------------------------------------------------------------------------------- *)
Lemma run_direct_store s1 (e : expr) (a : Z) j : eval_expr e s1 = Some (a, s1) ->
  run (2 + j) [SStore 1 e (EReg 1 gA)] 0 s1 = RDone (store 1 s1 a (getr s1 gA)).
Proof.
  intros E. replace (2 + j)%nat with (S (S j)) by lia. cbn [run nth_error exec_stmt eval_expr]. rewrite E. cbn [nth_error]. reflexivity.
Qed.

Lemma arch_eq_direct_store s x y a v :
  arch_eq (store 1 (setr (setr s gPC x) gPC y) a v) (store 1 (setr s gPC y) a v).
Proof.
  unfold arch_eq, store. change (N.to_nat 1) with 1%nat. cbn [wr_bytes]. unfold wr1; cbn [rg mem halted].
  split; [|split]; [|intros z; reflexivity|reflexivity].
  rewrite !setr_rg. rewrite py_set_pc_pc. reflexivity.
Qed.

Lemma run_incdec_store s1 r (eaddr eupd : expr) (a nv : Z) j :
  In r [gX; gY; gU; gS] -> length (y_t (rg s1)) = NTEMP -> 0 <= a < 16777216 ->
  eval_expr eaddr s1 = Some (a, s1) ->
  (forall u, getr u r = getr s1 r -> eval_expr eupd u = Some (nv, u)) ->
  run (4 + j) [SSetReg 3 (gTEMP 1) eaddr; SSetReg 3 r eupd; SStore 1 (EReg 3 (gTEMP 1)) (EReg 1 gA)] 0 s1 =
  RDone (store 1 (setr (setr s1 (gTEMP 1) a) r nv) a (getr s1 gA)).
Proof.
  intros Hr HL Ha E1 E2.
  assert (Hnt : is_tempr r = false) by (cbn [In] in Hr; destruct Hr as [<- | [<- | [<- | [<- | []]]]]; reflexivity).
  assert (HrA : r <> gA) by (cbn [In] in Hr; destruct Hr as [<- | [<- | [<- | [<- | []]]]]; discriminate).
  replace (4 + j)%nat with (S (S (S (S j)))) by lia.
  cbn [run nth_error exec_stmt]. rewrite E1. cbn [nth_error].
  set (u1 := setr s1 (gTEMP 1) a).
  rewrite (E2 u1) by (subst u1; apply getr_setr_temp_o; exact Hnt). cbn [nth_error exec_stmt eval_expr].
  set (u2 := setr u1 r nv).
  assert (T : getr u2 (gTEMP 1) = a).
  { subst u2. rewrite getr_temp_setr_o by exact Hnt. subst u1. apply getr_setr_T1; assumption. }
  assert (A : getr u2 gA = getr s1 gA).
  { subst u2 u1. unfold getr. rewrite !setr_rg. destruct (rg s1) as [ba i x y u sp pc f t].
    cbn [In] in Hr. destruct Hr as [<- | [<- | [<- | [<- | []]]]]; reflexivity. }
  rewrite T, A. cbn [nth_error]. reflexivity.
Qed.

Lemma arch_eqT_store s x y r (a nv v : Z) :
  In r [gX; gY; gU; gS] ->
  arch_eqT (store 1 (setr (setr (setr (setr s gPC x) gPC y) (gTEMP 1) a) r nv) a v)
           (store 1 (setr (setr s gPC y) r nv) a v).
Proof.
  intros Hr. assert (Hnt : is_tempr r = false) by (cbn [In] in Hr; destruct Hr as [<- | [<- | [<- | [<- | []]]]]; reflexivity).
  unfold arch_eqT, store. change (N.to_nat 1) with 1%nat. cbn [wr_bytes]. unfold wr1; cbn [rg mem halted].
  split; [|split]; [|intros z; reflexivity|reflexivity].
  rewrite !setr_rg.
  rewrite !(clear_set_other _ r) by exact Hnt. rewrite clear_set_temp.
  rewrite !(clear_set_other _ gPC) by reflexivity. rewrite py_set_pc_pc. reflexivity.
Qed.

Ltac direct_store_case r :=
  let addr := fresh "addr" in let s := fresh "s" in let Hwf := fresh "Hwf" in let HL := fresh "HL" in
  let S1 := fresh "S1" in let GX := fresh "GX" in let GA := fresh "GA" in let j := fresh "j" in let Hj := fresh "Hj" in
  intros addr s Hwf HL; lift_mem;
  match goal with |- context [run (fuel_for ?p ?s1) ?p 0 ?s1] =>
    destruct (fuel_split p s1 2) as [j Hj]; [cbn; lia|]; rewrite Hj; set (S1 := s1) end;
  assert (GX : getr S1 r = getr s r) by (subst S1; rewrite !getr_setr_pc by discriminate; reflexivity);
  assert (GA : getr S1 gA = getr s gA) by (subst S1; rewrite !getr_setr_pc by discriminate; reflexivity);
  match goal with |- context [SStore 1 ?e (EReg 1 gA)] =>
    match e with
    | EReg 3 _ => rewrite (run_direct_store S1 e (getr s r) j) by (cbn [eval_expr]; rewrite GX; reflexivity)
    | EBin B_ADD 3 _ _ (EConst 3 ?d) =>
        rewrite (run_direct_store S1 e ((getr s r + d) mod 16777216) j)
          by (cbn [eval_expr eval_binop apply_flags]; rewrite GX; rewrite band3v; reflexivity)
    end
  end;
  eexists; eexists; split; [reflexivity|]; split; [spec_mem I_MV; cbn [place_of]; reflexivity|];
  unfold wr_place, upd_place, rd_place; rewrite GA; subst S1; apply arch_eq_T; apply arch_eq_direct_store.

Ltac incdec_store_case r isinc :=
  let addr := fresh "addr" in let s := fresh "s" in let Hwf := fresh "Hwf" in let HL := fresh "HL" in
  let S1 := fresh "S1" in let HX := fresh "HX" in let GX := fresh "GX" in let GA := fresh "GA" in let L1 := fresh "L1" in
  let j := fresh "j" in let Hj := fresh "Hj" in let HA := fresh "HA" in
  intros addr s Hwf HL; lift_mem;
  match goal with |- context [run (fuel_for ?p ?s1) ?p 0 ?s1] =>
    destruct (fuel_split p s1 4) as [j Hj]; [cbn; lia|]; rewrite Hj; set (S1 := s1) end;
  pose proof (getr_ptr_range s r ltac:(cbn; auto)) as HX;
  assert (GX : getr S1 r = getr s r) by (subst S1; rewrite !getr_setr_pc by discriminate; reflexivity);
  assert (GA : getr S1 gA = getr s gA) by (subst S1; rewrite !getr_setr_pc by discriminate; reflexivity);
  assert (L1 : length (y_t (rg S1)) = NTEMP) by (subst S1; rewrite !setr_rg; destruct (rg s); exact HL);
  pose proof (Z.mod_pos_bound (getr s r - 1) 16777216 ltac:(lia)) as HA;
  lazymatch isinc with
  | true =>
      let E1 := fresh "E1" in let E2 := fresh "E2" in
      assert (E1 : eval_expr (EReg 3 r) S1 = Some (getr s r, S1)) by (cbn [eval_expr]; rewrite GX; reflexivity);
      assert (E2 : forall u, getr u r = getr S1 r ->
                   eval_expr (EBin B_ADD 3 IL.F0 (EReg 3 r) (EConst 3 (Z.of_N 1))) u = Some ((getr s r + 1) mod 16777216, u))
        by (intros u Hu; cbn [eval_expr eval_binop apply_flags]; rewrite Hu, GX; rewrite band3v; reflexivity);
      rewrite (run_incdec_store S1 r _ _ (getr s r) ((getr s r + 1) mod 16777216) j ltac:(cbn; auto) L1 ltac:(lia) E1 E2);
      rewrite (Z.mod_small (getr s r + 1) 16777216) by lia
  | false =>
      let E1 := fresh "E1" in let E2 := fresh "E2" in
      assert (E1 : eval_expr (EBin B_SUB 3 IL.F0 (EReg 3 r) (EConst 3 (Z.of_N 1))) S1 = Some ((getr s r - 1) mod 16777216, S1))
        by (cbn [eval_expr eval_binop apply_flags]; rewrite GX; rewrite band3v; reflexivity);
      assert (E2 : forall u, getr u r = getr S1 r ->
                   eval_expr (EBin B_SUB 3 IL.F0 (EReg 3 r) (EConst 3 (Z.of_N 1))) u = Some ((getr s r - 1) mod 16777216, u))
        by (intros u Hu; cbn [eval_expr eval_binop apply_flags]; rewrite Hu, GX; rewrite band3v; reflexivity);
      rewrite (run_incdec_store S1 r _ _ ((getr s r - 1) mod 16777216) ((getr s r - 1) mod 16777216) j ltac:(cbn; auto) L1 HA E1 E2)
  end;
  eexists; eexists; split; [reflexivity|]; split; [spec_mem I_MV; cbn [place_of]; reflexivity|];
  unfold wr_place, upd_place, rd_place; change (Z.of_N 1) with 1; rewrite GA;
  lazymatch isinc with
  | true => idtac
  | false => rewrite <- (setr_ptr_mod24 _ r (getr s r - 1)) by (cbn; auto)
  end;
  subst S1; apply arch_eqT_store; cbn; auto.

Theorem mv_simple_A : forall m r, In (m, r) simple_modes -> ptr_is_spec (mk_instr 176 [OEMemReg 1 m None; OReg RA 1] 2) 176.
Proof.
  intros m r H. cbn [In simple_modes] in H.
  destruct H as [H | [H | [H | [H | []]]]]; injection H as <- <-;
    [direct_store_case gX | direct_store_case gY | direct_store_case gU | direct_store_case gS].
Qed.
Theorem mv_plus_A : forall m r n, In (m, r) plus_modes -> ptr_is_spec (mk_instr 176 [OEMemReg 1 m (Some n); OReg RA 1] 3) 176.
Proof.
  intros m r n H. cbn [In plus_modes] in H.
  destruct H as [H | [H | [H | [H | []]]]]; injection H as <- <-;
    [direct_store_case gX | direct_store_case gY | direct_store_case gU | direct_store_case gS].
Qed.
Theorem mv_minus_A : forall m r n, In (m, r) minus_modes -> ptr_is_spec (mk_instr 176 [OEMemReg 1 m (Some n); OReg RA 1] 3) 176.
Proof.
  intros m r n H. cbn [In minus_modes] in H.
  destruct H as [H | [H | [H | [H | []]]]]; injection H as <- <-;
    [direct_store_case gX | direct_store_case gY | direct_store_case gU | direct_store_case gS].
Qed.
Theorem mv_postinc_A : forall m r, In (m, r) inc_modes -> ptr_is_spec (mk_instr 176 [OEMemReg 1 m None; OReg RA 1] 2) 176.
Proof.
  intros m r H. cbn [In inc_modes] in H.
  destruct H as [H | [H | [H | [H | []]]]]; injection H as <- <-;
    [incdec_store_case gX true | incdec_store_case gY true | incdec_store_case gU true | incdec_store_case gS true].
Qed.
Theorem mv_predec_A : forall m r, In (m, r) dec_modes -> ptr_is_spec (mk_instr 176 [OEMemReg 1 m None; OReg RA 1] 2) 176.
Proof.
  intros m r H. cbn [In dec_modes] in H.
  destruct H as [H | [H | [H | [H | []]]]]; injection H as <- <-;
    [incdec_store_case gX false | incdec_store_case gY false | incdec_store_case gU false | incdec_store_case gS false].
Qed.

Lemma ptr_opcodes_check :
  (d_cls (entry_of 144), d_ops (entry_of 144)) = (I_MV, [PReg RA 1; PEMemReg 1 None]) /\
  (d_cls (entry_of 176), d_ops (entry_of 176)) = (I_MV, [PEMemReg 1 None; PReg RA 1]).
Proof. vm_compute. split; reflexivity. Qed.
