(* Proofs/LockstepProofs.v -- single-step agreement of two step functions lifts to whole runs (C06, C07). *)
From Coq Require Import ZArith NArith List Bool.
From BE Require Import Model.Regs Model.IL Model.Lift Model.Emu.
Import ListNotations.
Open Scope Z_scope.

Section Lockstep.
  (* any other implementation of "execute the instruction at the current PC" *)
  Variable other_step : mstate -> xres.

  Definition py_step (s : mstate) : xres := exec_at (getr s gPC) s.

  Fixpoint other_steps (n : nat) (s : mstate) : xres :=
    match n with
    | O => XOk s
    | S n' => match other_step s with XOk s1 => other_steps n' s1 | r => r end
    end.

  (* the trace of program counters of a run *)
  Fixpoint py_trace (n : nat) (s : mstate) : list N :=
    match n with
    | O => []
    | S n' => py_get (rg s) gPC :: match py_step s with XOk s1 => py_trace n' s1 | _ => [] end
    end.
  Fixpoint other_trace (n : nat) (s : mstate) : list N :=
    match n with
    | O => []
    | S n' => py_get (rg s) gPC :: match other_step s with XOk s1 => other_trace n' s1 | _ => [] end
    end.

  Hypothesis single_step_agreement : forall s, other_step s = py_step s.

  Lemma lockstep : forall n s, other_steps n s = steps n s /\ other_trace n s = py_trace n s.
  Proof.
    induction n as [|n IH]; intros s; [split; reflexivity|].
    cbn [other_steps steps other_trace py_trace]. rewrite single_step_agreement. unfold py_step.
    destruct (exec_at (getr s gPC) s) as [s1| | |]; try (split; reflexivity).
    destruct (IH s1) as [H1 H2]. rewrite H1, H2. split; reflexivity.
  Qed.
End Lockstep.


Lemma steps_compose : forall n m s,
  steps (n + m) s = match steps n s with XOk s1 => steps m s1 | r => r end.
Proof.
  induction n as [|n IH]; intros m s; [reflexivity|].
  cbn [Nat.add steps]. destruct (exec_at (getr s gPC) s); try reflexivity. apply IH.
Qed.
