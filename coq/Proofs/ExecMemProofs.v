(* Proofs/ExecMemProofs.v -- instruction-level statements for internal-memory forms, for no prefix and each of the 15
   prefixes: MV r,(n) (load, widths 1-3) and MV (n),r / MV (n),imm (store).  Executing the lifted IL ends in exactly the
   documented state (Model/Spec.v): the operand cell is the one the prefix's addressing mode names (BP/PX/PY taken from
   the state), every other register, flag and memory byte is untouched.  Byte memory is assumed (mem_wf). *)
From Coq Require Import ZArith NArith List Bool Lia.
From BE Require Import Model.TableTypes Gen.Tables Model.Regs Model.Decode Model.IL Model.Lift Model.Static Model.Spec
  Model.Emu Proofs.AluProofs Proofs.ExecProofs Proofs.AccessProofs.
Import ListNotations.
Open Scope Z_scope.

Definition mk_pre (pre : option N) (opc : N) (ops : list operand) (len : nat) : instr :=
  {| i_pre := pre; i_opc := opc; i_ent := entry_of opc; i_ops := ops;
     i_len := match pre with Some _ => S len | None => len end |}.

Definition pre_choices : list (option N) :=
  None :: map Some [33; 34; 35; 36; 37; 38; 39; 48; 49; 50; 51; 52; 53; 54; 55]%N.

Definition first_byte (pre : option N) (opc : N) : N := match pre with Some p => p | None => opc end.

Lemma pre_choices_are_the_table :
  forallb (fun c => match c with None => true | Some p => existsb (fun q => (fst (fst q) =? p)%N) py_pre_table end) pre_choices = true /\
  length py_pre_table = 15%nat.
Proof. vm_compute. split; reflexivity. Qed.

(* memory of a store depends on the memory it starts from only *)
Lemma wr_bytes_mem_ext n : forall A B a v, (forall x, mem A x = mem B x) -> forall x, mem (wr_bytes n A a v) x = mem (wr_bytes n B a v) x.
Proof.
  induction n as [|n IH]; intros A B a v H x; cbn [wr_bytes]; [apply H|].
  apply IH. intros y. unfold wr1; cbn [mem]. rewrite H. reflexivity.
Qed.
Lemma wr_bytes_rg n : forall A a v, rg (wr_bytes n A a v) = rg A /\ halted (wr_bytes n A a v) = halted A.
Proof. induction n as [|n IH]; intros A a v; cbn [wr_bytes]; [split; reflexivity|]. destruct (IH (wr1 A a (band v 255)) (a + 1) (Z.shiftr v 8)) as [H1 H2]. rewrite H1, H2. split; reflexivity. Qed.

Lemma rd_place_imem_setr s r v w n m :
  rd_place (setr s r v) (place_of (setr s r v) (LIMem w n) m) = rd_place s (place_of s (LIMem w n) m).
Proof. destruct m; reflexivity. Qed.

(* ---- load: r := (operand) ---------------------------------------------------------------------- *)
Lemma load_final s x y m n (w : N) r j : mem_wf s -> (n < 256)%N -> (w = 1 \/ w = 2 \/ w = 3)%N ->
  exists s', run (2 + j) [SSetReg w r (ELoad w (imem_addr m n))] 0 (setr (setr s gPC x) gPC y) = RDone s' /\
             arch_eq s' (setr (setr s gPC y) r (rd_place s (place_of s (LIMem w n) m))).
Proof.
  intros Hwf Hn Hw.
  set (s1 := setr (setr s gPC x) gPC y).
  assert (W1 : mem_wf s1) by (intros a; apply Hwf).
  destruct (imem_operand_read s1 m n w W1 Hn Hw) as (s' & Ev & Ro). cbv zeta in Ev.
  replace (2 + j)%nat with (S (S j)) by lia. cbn [run nth_error exec_stmt]. rewrite Ev. cbn [nth_error].
  eexists. split; [reflexivity|].
  destruct Ro as (R1 & R2 & R3 & _ & _).
  unfold arch_eq. split; [|split].
  - rewrite !setr_rg. rewrite R1. subst s1. rewrite !rd_place_imem_setr. rewrite !setr_rg. rewrite py_set_pc_pc. reflexivity.
  - intros a. cbn [setr with_rg mem]. rewrite R2. reflexivity.
  - cbn [setr with_rg halted]. rewrite R3. reflexivity.
Qed.

Ltac lift_mem :=
  unfold exec_decoded;
  match goal with |- context [(?o =? 239)%N] => change (o =? 239)%N with false end; cbv iota;
  match goal with |- context [lift_instr ?i ?a] =>
    let L := fresh "L" in let HL := fresh "HL" in
    remember (lift_instr i a) as L eqn:HL; cbv -[Z.add Z.sub Z.mul Z.land Z.lor Z.of_N Z.opp Z.of_nat imem_addr] in HL; subst L end.

Ltac spec_mem cls :=
  unfold spec_exec; change (documented_form _) with true; cbv iota; cbn [negb];
  match goal with |- context [render_ops ?i] =>
    let R := fresh "R" in let HR := fresh "HR" in remember (render_ops i) as R eqn:HR; vm_compute in HR; subst R end;
  cbn [map fst snd];
  match goal with |- context [d_cls (i_ent ?i)] => change (d_cls (i_ent i)) with cls end;
  cbv iota; cbv beta.

Definition load_is_spec (opc : N) (ops : N -> list operand) : Prop :=
  forall c, In c pre_choices -> forall n, (n < 256)%N -> forall addr s, mem_wf s ->
  exists s' t, exec_decoded (mk_pre c opc (ops n) 2) (first_byte c opc) addr s = XOk s' /\
               spec_exec (mk_pre c opc (ops n) 2) addr s = Some t /\ arch_eq s' t.

Ltac load_case w :=
  intros n Hn addr s Hwf;
  lift_mem;
  match goal with |- context [run (fuel_for ?p ?s1) ?p 0 ?s1] =>
    let j := fresh "j" in let Hj := fresh "Hj" in
    destruct (fuel_split p s1 2) as [j Hj]; [cbn; lia|]; rewrite Hj;
    match p with [SSetReg _ ?r (ELoad _ (imem_addr ?m _))] =>
      match s1 with setr (setr _ gPC ?x) gPC ?y =>
        let s' := fresh "s'" in let E := fresh "E" in let AE := fresh "AE" in
        destruct (load_final s x y m n w r j Hwf Hn ltac:(auto)) as (s' & E & AE); rewrite E;
        eexists; eexists; split; [reflexivity|]; split; [spec_mem I_MV; reflexivity|];
        cbn [place_of] in AE |- *; unfold wr_place, upd_place;
        destruct (imem_cell s m n) as [a0 rs0]; exact AE
      end
    end
  end.

Theorem mv_A_imem : load_is_spec 128 (fun n => [OReg RA 1; OIMem 1 n]).
Proof.
  intros c Hc. cbn [In pre_choices map] in Hc.
  repeat (destruct Hc as [<- | Hc]; [load_case 1%N|]). destruct Hc.
Qed.

Theorem mv_BA_imem : load_is_spec 130 (fun n => [OReg RBA 2; OIMem 2 n]).
Proof. intros c Hc. cbn [In pre_choices map] in Hc. repeat (destruct Hc as [<- | Hc]; [load_case 2%N|]). destruct Hc. Qed.
Theorem mv_I_imem : load_is_spec 131 (fun n => [OReg RI 2; OIMem 2 n]).
Proof. intros c Hc. cbn [In pre_choices map] in Hc. repeat (destruct Hc as [<- | Hc]; [load_case 2%N|]). destruct Hc. Qed.
Theorem mv_X_imem : load_is_spec 132 (fun n => [OReg RX 3; OIMem 3 n]).
Proof. intros c Hc. cbn [In pre_choices map] in Hc. repeat (destruct Hc as [<- | Hc]; [load_case 3%N|]). destruct Hc. Qed.
Theorem mv_Y_imem : load_is_spec 133 (fun n => [OReg RY 3; OIMem 3 n]).
Proof. intros c Hc. cbn [In pre_choices map] in Hc. repeat (destruct Hc as [<- | Hc]; [load_case 3%N|]). destruct Hc. Qed.
Theorem mv_U_imem : load_is_spec 134 (fun n => [OReg RU 3; OIMem 3 n]).
Proof. intros c Hc. cbn [In pre_choices map] in Hc. repeat (destruct Hc as [<- | Hc]; [load_case 3%N|]). destruct Hc. Qed.
Theorem mv_S_imem : load_is_spec 135 (fun n => [OReg RS 3; OIMem 3 n]).
Proof. intros c Hc. cbn [In pre_choices map] in Hc. repeat (destruct Hc as [<- | Hc]; [load_case 3%N|]). destruct Hc. Qed.

(* ---- store: (operand) := value of a side-effect-free expression ----------------------------------- *)
Lemma store_final s x y m n (w : N) e v j : mem_wf s -> (n < 256)%N ->
  (forall s0, eval_expr e s0 = Some (v s0, s0)) -> (forall l, v (logged (setr (setr s gPC x) gPC y) l) = v (setr s gPC y)) ->
  exists s', run (2 + j) [SStore w (imem_addr m n) e] 0 (setr (setr s gPC x) gPC y) = RDone s' /\
             arch_eq s' (wr_place (setr s gPC y) (place_of s (LIMem w n) m) (v (setr s gPC y))).
Proof.
  intros Hwf Hn He Hv.
  set (s1 := setr (setr s gPC x) gPC y).
  assert (W1 : mem_wf s1) by (intros a; apply Hwf).
  replace (2 + j)%nat with (S (S j)) by lia. cbn [run nth_error exec_stmt].
  rewrite imem_addr_eval by assumption. rewrite He. cbn [nth_error].
  eexists. split; [reflexivity|].
  rewrite Hv.
  assert (Hc : imem_cell s1 m n = imem_cell s m n) by (destruct m; reflexivity). rewrite Hc.
  cbn [place_of]. destruct (imem_cell s m n) as [a rs]. cbn [fst snd wr_place].
  unfold arch_eq, store. split; [|split].
  - destruct (wr_bytes_rg (N.to_nat w) (logged s1 rs) a (v (setr s gPC y))) as [H1 _].
    destruct (wr_bytes_rg (N.to_nat w) (setr s gPC y) a (v (setr s gPC y))) as [H2 _].
    rewrite H1, H2. subst s1. unfold logged; cbn [rg]. rewrite !setr_rg. rewrite py_set_pc_pc. reflexivity.
  - apply wr_bytes_mem_ext. intros z. reflexivity.
  - destruct (wr_bytes_rg (N.to_nat w) (logged s1 rs) a (v (setr s gPC y))) as [_ H1].
    destruct (wr_bytes_rg (N.to_nat w) (setr s gPC y) a (v (setr s gPC y))) as [_ H2].
    rewrite H1, H2. reflexivity.
Qed.

Definition store_is_spec (opc : N) (ops : N -> list operand) (len : nat) : Prop :=
  forall c, In c pre_choices -> forall n, (n < 256)%N -> forall addr s, mem_wf s ->
  exists s' t, exec_decoded (mk_pre c opc (ops n) len) (first_byte c opc) addr s = XOk s' /\
               spec_exec (mk_pre c opc (ops n) len) addr s = Some t /\ arch_eq s' t.

Lemma getr_logged_pc s x y l r : r <> gPC -> getr (logged (setr (setr s gPC x) gPC y) l) r = getr (setr s gPC y) r.
Proof. intros H. unfold logged, getr; cbn [rg]. rewrite !setr_rg. rewrite !py_get_set_pc_other by exact H. reflexivity. Qed.

Ltac store_body n s Hn Hwf :=
  lift_mem;
  match goal with |- context [run (fuel_for ?p ?s1) ?p 0 ?s1] =>
    let j := fresh "j" in let Hj := fresh "Hj" in
    destruct (fuel_split p s1 2) as [j Hj]; [cbn; lia|]; rewrite Hj;
    match p with [SStore ?w (imem_addr ?m _) ?e] =>
      match s1 with setr (setr _ gPC ?x) gPC ?y =>
        let s' := fresh "s'" in let E := fresh "E" in let AE := fresh "AE" in
        match e with
        | EReg _ ?r =>
            destruct (store_final s x y m n w e (fun s0 => getr s0 r) j Hwf Hn ltac:(intros; reflexivity)
                        ltac:(intros; apply getr_logged_pc; discriminate)) as (s' & E & AE)
        | EConst _ ?k =>
            destruct (store_final s x y m n w e (fun _ => k) j Hwf Hn ltac:(intros; reflexivity) ltac:(intros; reflexivity)) as (s' & E & AE)
        end;
        rewrite E; eexists; eexists; split; [reflexivity|]; split; [spec_mem I_MV; reflexivity|];
        cbv beta in AE; cbn [place_of] in AE |- *; unfold upd_place, rd_place;
        rewrite ?getr_setr_pc in AE by discriminate;
        destruct (imem_cell s m n) as [a0 rs0]; exact AE
      end
    end
  end.

Ltac store_case := let n := fresh "n" in let Hn := fresh "Hn" in let addr := fresh "addr" in let s := fresh "s" in let Hwf := fresh "Hwf" in
  intros n Hn addr s Hwf; store_body n s Hn Hwf.
Ltac store_case_k := let n := fresh "n" in let Hn := fresh "Hn" in let k := fresh "k" in let addr := fresh "addr" in let s := fresh "s" in let Hwf := fresh "Hwf" in
  intros n Hn k addr s Hwf; store_body n s Hn Hwf.

Definition store_imm_is_spec (opc : N) (ops : N -> N -> list operand) (len : nat) : Prop :=
  forall c, In c pre_choices -> forall n, (n < 256)%N -> forall k addr s, mem_wf s ->
  exists s' t, exec_decoded (mk_pre c opc (ops n k) len) (first_byte c opc) addr s = XOk s' /\
               spec_exec (mk_pre c opc (ops n k) len) addr s = Some t /\ arch_eq s' t.

Theorem mv_imem_A : store_is_spec 160 (fun n => [OIMem 1 n; OReg RA 1]) 2.
Proof. intros c Hc. cbn [In pre_choices map] in Hc. repeat (destruct Hc as [<- | Hc]; [store_case|]). destruct Hc. Qed.

Theorem mv_imem_BA : store_is_spec 162 (fun n => [OIMem 2 n; OReg RBA 2]) 2.
Proof. intros c Hc. cbn [In pre_choices map] in Hc. repeat (destruct Hc as [<- | Hc]; [store_case|]). destruct Hc. Qed.
Theorem mv_imem_I : store_is_spec 163 (fun n => [OIMem 2 n; OReg RI 2]) 2.
Proof. intros c Hc. cbn [In pre_choices map] in Hc. repeat (destruct Hc as [<- | Hc]; [store_case|]). destruct Hc. Qed.
Theorem mv_imem_X : store_is_spec 164 (fun n => [OIMem 3 n; OReg RX 3]) 2.
Proof. intros c Hc. cbn [In pre_choices map] in Hc. repeat (destruct Hc as [<- | Hc]; [store_case|]). destruct Hc. Qed.
Theorem mv_imem_imm8 : store_imm_is_spec 204 (fun n k => [OIMem 1 n; OImm8 k]) 3.
Proof. intros c Hc. cbn [In pre_choices map] in Hc. repeat (destruct Hc as [<- | Hc]; [store_case_k|]). destruct Hc. Qed.
Theorem mvw_imem_imm16 : store_imm_is_spec 205 (fun n k => [OIMem 2 n; OImm16 k]) 4.
Proof. intros c Hc. cbn [In pre_choices map] in Hc. repeat (destruct Hc as [<- | Hc]; [store_case_k|]). destruct Hc. Qed.

Definition mem_form_opcodes : list (N * list pshape) :=
  [(128, [PReg RA 1; PIMem 1]); (130, [PReg RBA 2; PIMem 2]); (131, [PReg RI 2; PIMem 2]); (132, [PReg RX 3; PIMem 3]);
   (133, [PReg RY 3; PIMem 3]); (134, [PReg RU 3; PIMem 3]); (135, [PReg RS 3; PIMem 3]);
   (160, [PIMem 1; PReg RA 1]); (162, [PIMem 2; PReg RBA 2]); (163, [PIMem 2; PReg RI 2]); (164, [PIMem 3; PReg RX 3]);
   (204, [PIMem 1; PImm8]); (205, [PIMem 2; PImm16])]%N.
Lemma mem_form_opcodes_check :
  map (fun x => (d_cls (entry_of (fst x)), d_ops (entry_of (fst x)))) mem_form_opcodes = map (fun x => (I_MV, snd x)) mem_form_opcodes.
Proof. vm_compute. reflexivity. Qed.
