(* Proofs/ExecProofs3.v -- INC / DEC of A, BA and I: every register value, address and state; the result wraps at the
   register's width, Z is set from the result, C and everything else are untouched. *)
From Coq Require Import ZArith NArith List Bool Lia.
From BE Require Import Model.TableTypes Gen.Tables Model.Regs Model.Decode Model.IL Model.Lift Model.Static Model.Spec
  Model.Emu Proofs.AluProofs Proofs.ExecProofs Proofs.ExecProofs2.
Import ListNotations.
Open Scope Z_scope.

Lemma incdec_final (s : mstate) (x y v z : Z) (r : reg) : In r [gA; gBA; gI] ->
  arch_eq (setr (set_flag (setr (setr s gPC x) gPC y) false z) r v)
          (set_flag (setr (setr s gPC y) r v) false z).
Proof.
  intros Hr. unfold arch_eq. split; [|split]; [|intros a; reflexivity|reflexivity].
  unfold set_flag. rewrite !setr_rg. rewrite py_set_pc_pc.
  cbn [In] in Hr. destruct Hr as [<- | [<- | [<- | []]]]; destruct (rg s); reflexivity.
Qed.

Ltac incdec_case cls r :=
  let addr := fresh "addr" in let s := fresh "s" in
  intros addr s;
  eexists; eexists; split; [lift_and_run 3%nat; reflexivity|];
  split; [spec_side cls|];
  cbn [i_len mk_instr Z.of_nat]; rewrite !getr_setr_pc by discriminate;
  unfold rd_place, wr_place, pmod, apply_flags, alu_inc, alu_dec, pwidth, width_of_place, p2; cbn [r_val r_c r_z];
  rewrite ?band_mask;
  change (2 ^ bits 1) with 256; change (2 ^ bits 2) with 65536; change (2 ^ (8 * Z.of_N 1)) with 256; change (2 ^ (8 * Z.of_N 2)) with 65536;
  apply incdec_final; cbn; auto.

Theorem inc_A : exec_is_spec (mk_instr 108 [OReg3 0] 2) 108. Proof. incdec_case I_INC gA. Qed.
Theorem inc_BA : exec_is_spec (mk_instr 108 [OReg3 2] 2) 108. Proof. incdec_case I_INC gBA. Qed.
Theorem inc_I : exec_is_spec (mk_instr 108 [OReg3 3] 2) 108. Proof. incdec_case I_INC gI. Qed.
Theorem dec_A : exec_is_spec (mk_instr 124 [OReg3 0] 2) 124. Proof. incdec_case I_DEC gA. Qed.
Theorem dec_BA : exec_is_spec (mk_instr 124 [OReg3 2] 2) 124. Proof. incdec_case I_DEC gBA. Qed.
Theorem dec_I : exec_is_spec (mk_instr 124 [OReg3 3] 2) 124. Proof. incdec_case I_DEC gI. Qed.

Lemma incdec_opcodes_check :
  (d_cls (entry_of 108), d_ops (entry_of 108)) = (I_INC, [PReg3]) /\ (d_cls (entry_of 124), d_ops (entry_of 124)) = (I_DEC, [PReg3]).
Proof. vm_compute. split; reflexivity. Qed.
