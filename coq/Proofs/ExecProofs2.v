(* Proofs/ExecProofs2.v -- more instruction-level statements in the style of ExecProofs.v: compare / test / move
   immediate, rotates, shifts and SWAP on A.  Each theorem: for every operand value, address and state, running the lifted
   IL with the model evaluator ends in exactly the documented state (Model/Spec.v), registers, flags, memory, low-power flag. *)
From Coq Require Import ZArith NArith List Bool Lia.
From BE Require Import Model.TableTypes Gen.Tables Model.Regs Model.Decode Model.IL Model.Lift Model.Static Model.Spec
  Model.Emu Proofs.AluProofs Proofs.ExecProofs.
Import ListNotations.
Open Scope Z_scope.

Lemma flags_final (s : mstate) (x y : Z) (oc oz : option Z) :
  arch_eq
    (let s1 := setr (setr s gPC x) gPC y in
     let s2 := match oc with Some c => set_flag s1 true c | None => s1 end in
     match oz with Some z => set_flag s2 false z | None => s2 end)
    (let t1 := setr s gPC y in
     let t2 := match oc with Some c => set_flag t1 true c | None => t1 end in
     match oz with Some z => set_flag t2 false z | None => t2 end).
Proof.
  unfold arch_eq. split; [|split].
  - destruct oc as [c|]; destruct oz as [z|]; cbv zeta; unfold set_flag; rewrite ?setr_rg; rewrite py_set_pc_pc; reflexivity.
  - intros a. destruct oc; destruct oz; reflexivity.
  - destruct oc; destruct oz; reflexivity.
Qed.

Theorem cmp_A_imm : forall n, (n < 256)%N -> exec_is_spec (mk_instr 96 [OReg RA 1; OImm8 n] 2) 96.
Proof.
  intros n Hn addr s.
  eexists. eexists. split; [lift_and_run 2%nat; reflexivity|].
  split; [spec_side I_CMP|].
  alu_setup s n.
  change (2 ^ (8 * 1)) with 256. rewrite !(Z.mod_small a 256) by lia. rewrite !(Z.mod_small m 256) by lia.
  replace (a - m - 0) with (a - m) by lia. replace (m + 0) with m by lia.
  replace (a - m <? 0) with (a <? m) by (destruct (a <? m) eqn:E1; destruct (a - m <? 0) eqn:E2; lia).
  exact (flags_final s _ _ (Some _) (Some _)).
Qed.

Theorem test_A_imm : forall n, (n < 256)%N -> exec_is_spec (mk_instr 100 [OReg RA 1; OImm8 n] 2) 100.
Proof.
  intros n Hn addr s.
  eexists. eexists. split; [lift_and_run 2%nat; reflexivity|].
  split; [spec_side I_TEST|].
  alu_setup s n.
  replace (b2z (negb (b2z (Z.land a m =? 0) =? 0))) with (b2z (Z.land a m =? 0)) by (destruct (Z.land a m =? 0); reflexivity).
  exact (flags_final s _ _ None (Some _)).
Qed.

Lemma mv_A_final (s : mstate) (x y v : Z) :
  arch_eq (setr (setr (setr s gPC x) gPC y) gA v) (setr (setr s gPC y) gA v).
Proof.
  unfold arch_eq. split; [|split]; [|intros a; reflexivity|reflexivity].
  rewrite !setr_rg. rewrite py_set_pc_pc. reflexivity.
Qed.

Theorem mv_A_imm : forall n, (n < 256)%N -> exec_is_spec (mk_instr 8 [OReg RA 1; OImm8 n] 2) 8.
Proof.
  intros n Hn addr s.
  eexists. eexists. split; [lift_and_run 2%nat; reflexivity|].
  split; [spec_side I_MV|].
  cbn [i_len mk_instr Z.of_nat]. unfold wr_place, upd_place, rd_place. apply mv_A_final.
Qed.

(* ---- rotates, shifts, SWAP on A: the IL's bit expressions equal the documented arithmetic on all 256 values (x carry-in) *)
Lemma sweep256 (P : Z -> bool) : forallb P (upto 256) = true -> forall a, 0 <= a < 256 -> P a = true.
Proof. intros H a Ha. rewrite forallb_forall in H. apply H. apply upto_in. exact Ha. Qed.

Definition il_ror_v a := band (Z.lor (Z.shiftr a (1 mod bits 1)) (Z.shiftl a (bits 1 - 1 mod bits 1))) (maskw 1).
Definition il_ror_c a := band (Z.shiftr a (1 mod bits 1 - 1)) 1.
Definition il_rol_v a := band (Z.lor (Z.shiftl a (1 mod bits 1)) (Z.shiftr a (bits 1 - 1 mod bits 1))) (maskw 1).
Definition il_rol_c a := band (Z.shiftr a (bits 1 - 1 mod bits 1)) 1.
Definition il_shr_v a c := band (Z.lor (Z.shiftr a 1) (Z.shiftl c (bits 1 - 1))) (maskw 1).
Definition il_shl_v a c := band (Z.lor (Z.shiftl a 1) c) (maskw 1).
Definition il_shl_c a := band (Z.shiftr a (bits 1 - 1)) 1.
Definition il_swap_v a := Z.lor (band (Z.shiftl (Z.land a 15) 4) (maskw 1)) (band (Z.shiftr (Z.land a 240) 4) (maskw 1)).

Lemma ror_ok a : 0 <= a < 256 -> il_ror_v a = r_val (alu_ror a) /\ Some (il_ror_c a) = r_c (alu_ror a).
Proof.
  intros Ha. pose proof (sweep256 (fun a => (il_ror_v a =? r_val (alu_ror a)) && (il_ror_c a =? a mod 2)) ltac:(vm_compute; reflexivity) a Ha) as H.
  cbv beta in H. apply andb_true_iff in H. destruct H as [H1 H2]. apply Z.eqb_eq in H1, H2. split; [exact H1|]. cbn [alu_ror r_c]. rewrite H2. reflexivity.
Qed.
Lemma rol_ok a : 0 <= a < 256 -> il_rol_v a = r_val (alu_rol a) /\ Some (il_rol_c a) = r_c (alu_rol a).
Proof.
  intros Ha. pose proof (sweep256 (fun a => (il_rol_v a =? r_val (alu_rol a)) && (il_rol_c a =? a / 128)) ltac:(vm_compute; reflexivity) a Ha) as H.
  cbv beta in H. apply andb_true_iff in H. destruct H as [H1 H2]. apply Z.eqb_eq in H1, H2. split; [exact H1|]. cbn [alu_rol r_c]. rewrite H2. reflexivity.
Qed.
Lemma shr_ok a c : 0 <= a < 256 -> 0 <= c <= 1 -> il_shr_v a c = r_val (alu_shr a c) /\ band a 1 = a mod 2.
Proof.
  intros Ha Hc.
  pose proof (sweep256 (fun a => (il_shr_v a 0 =? r_val (alu_shr a 0)) && (il_shr_v a 1 =? r_val (alu_shr a 1)) && (band a 1 =? a mod 2)) ltac:(vm_compute; reflexivity) a Ha) as H.
  cbv beta in H. rewrite !andb_true_iff in H. destruct H as [[H0 H1] H2]. apply Z.eqb_eq in H0, H1, H2.
  split; [|exact H2]. assert (c = 0 \/ c = 1) as [-> | ->] by lia; assumption.
Qed.
Lemma shl_ok a c : 0 <= a < 256 -> 0 <= c <= 1 -> il_shl_v a c = r_val (alu_shl a c) /\ il_shl_c a = a / 128.
Proof.
  intros Ha Hc.
  pose proof (sweep256 (fun a => (il_shl_v a 0 =? r_val (alu_shl a 0)) && (il_shl_v a 1 =? r_val (alu_shl a 1)) && (il_shl_c a =? a / 128)) ltac:(vm_compute; reflexivity) a Ha) as H.
  cbv beta in H. rewrite !andb_true_iff in H. destruct H as [[H0 H1] H2]. apply Z.eqb_eq in H0, H1, H2.
  split; [|exact H2]. assert (c = 0 \/ c = 1) as [-> | ->] by lia; assumption.
Qed.
Lemma swap_ok a : 0 <= a < 256 -> il_swap_v a = r_val (alu_swap a).
Proof.
  intros Ha. pose proof (sweep256 (fun a => il_swap_v a =? r_val (alu_swap a)) ltac:(vm_compute; reflexivity) a Ha) as H.
  cbv beta in H. apply Z.eqb_eq in H. exact H.
Qed.

Ltac rot_setup s :=
  cbn [i_len mk_instr Z.of_nat]; rewrite !getr_setr_pc by discriminate; rewrite ?get_flag_setr_pc;
  unfold rd_place, wr_place, set_cz, apply_flags, flagC; rewrite ?getr_setr_pc by discriminate;
  let Ha := fresh "Ha" in pose proof (getr_A_range s) as Ha; set (a := getr s gA) in *.

Theorem ror_A : exec_is_spec (mk_instr 228 [OReg RA 1] 1) 228.
Proof.
  intros addr s.
  eexists. eexists. split; [lift_and_run 3%nat; reflexivity|].
  split; [spec_side I_ROR|].
  rot_setup s. fold (il_ror_v a). fold (il_ror_c a).
  destruct (ror_ok a Ha) as [HV HC]. rewrite HV. unfold alu_ror in *. cbn [r_val r_c r_z] in *. injection HC as HC. rewrite HC. unfold zf.
  exact (alu_A_final s _ _ _ (Some _) (Some _)).
Qed.

Theorem rol_A : exec_is_spec (mk_instr 230 [OReg RA 1] 1) 230.
Proof.
  intros addr s.
  eexists. eexists. split; [lift_and_run 3%nat; reflexivity|].
  split; [spec_side I_ROL|].
  rot_setup s. fold (il_rol_v a). fold (il_rol_c a).
  destruct (rol_ok a Ha) as [HV HC]. rewrite HV. unfold alu_rol in *. cbn [r_val r_c r_z] in *. injection HC as HC. rewrite HC. unfold zf.
  exact (alu_A_final s _ _ _ (Some _) (Some _)).
Qed.

Theorem shr_A : exec_is_spec (mk_instr 244 [OReg RA 1] 1) 244.
Proof.
  intros addr s.
  eexists. eexists. split; [lift_and_run 3%nat; reflexivity|].
  split; [spec_side I_SHR|].
  rot_setup s. pose proof (flag_range s true) as Hc. set (c := get_flag s true) in *.
  fold (il_shr_v a c).
  destruct (shr_ok a c Ha Hc) as [HV HC]. rewrite HV, HC. unfold alu_shr. cbn [r_val r_c r_z]. unfold zf.
  exact (alu_A_final s _ _ _ (Some _) (Some _)).
Qed.

Theorem shl_A : exec_is_spec (mk_instr 246 [OReg RA 1] 1) 246.
Proof.
  intros addr s.
  eexists. eexists. split; [lift_and_run 3%nat; reflexivity|].
  split; [spec_side I_SHL|].
  rot_setup s. pose proof (flag_range s true) as Hc. set (c := get_flag s true) in *.
  fold (il_shl_v a c). fold (il_shl_c a).
  destruct (shl_ok a c Ha Hc) as [HV HC]. rewrite HV, HC. unfold alu_shl. cbn [r_val r_c r_z]. unfold zf.
  exact (alu_A_final s _ _ _ (Some _) (Some _)).
Qed.

Theorem swap_A : exec_is_spec (mk_instr 238 [OReg RA 1] 1) 238.
Proof.
  intros addr s.
  eexists. eexists. split; [lift_and_run 3%nat; reflexivity|].
  split; [spec_side I_SWAP|].
  rot_setup s. fold (il_swap_v a).
  rewrite (swap_ok a Ha). unfold alu_swap. cbn [r_val r_c r_z]. unfold zf.
  exact (alu_A_final s _ _ _ None (Some _)).
Qed.

Definition alu_A_opcodes : list (N * icls) := [(228, I_ROR); (230, I_ROL); (244, I_SHR); (246, I_SHL); (238, I_SWAP)]%N.
Lemma alu_A_opcodes_check :
  forallb (fun oc => match d_cls (entry_of (fst oc)), snd oc with
                     | I_ROR, I_ROR | I_ROL, I_ROL | I_SHR, I_SHR | I_SHL, I_SHL | I_SWAP, I_SWAP => true | _, _ => false end
                     && match d_ops (entry_of (fst oc)) with [PReg RA 1] => true | _ => false end) alu_A_opcodes = true /\
  match d_cls (entry_of 96), d_cls (entry_of 100), d_cls (entry_of 8) with I_CMP, I_TEST, I_MV => true | _, _, _ => false end = true.
Proof. vm_compute. split; reflexivity. Qed.
