(* Proofs/AccessProofs.v -- operand level statements for C03: the IL the lifter builds to read or write an
   internal-memory operand in each addressing mode touches exactly the cells the rendered operand denotes
   (the addressing registers BP/PX/PY the mode names, then the w bytes at 0x100000 + (base + n) mod 256),
   reads their little-endian value, and touches nothing else. *)
From Coq Require Import ZArith NArith List Bool Lia.
From BE Require Import Model.TableTypes Gen.Tables Model.Regs Model.Decode Model.IL Model.Lift Model.Static Model.Spec
  Model.Emu Proofs.AluProofs.
Import ListNotations.
Open Scope Z_scope.

Definition mem_wf (s : mstate) : Prop := forall a, 0 <= mem s a < 256.

(* an evaluation that only read `cells` (oldest first) *)
Definition reads_only (s s' : mstate) (cells : list Z) : Prop :=
  rg s' = rg s /\ mem s' = mem s /\ halted s' = halted s /\ wlog s' = wlog s /\ rlog s' = rev cells ++ rlog s.

Lemma reads_only_refl s : reads_only s s [].
Proof. unfold reads_only; repeat split; reflexivity. Qed.

Lemma reads_only_trans s1 s2 s3 a b : reads_only s1 s2 a -> reads_only s2 s3 b -> reads_only s1 s3 (a ++ b).
Proof.
  intros (A1 & A2 & A3 & A4 & A5) (B1 & B2 & B3 & B4 & B5). unfold reads_only.
  repeat split; try congruence. rewrite B5, A5, rev_app_distr, app_assoc. reflexivity.
Qed.

Lemma mem_wf_reads s s' cells : reads_only s s' cells -> mem_wf s -> mem_wf s'.
Proof. intros (_ & Hm & _) H a. rewrite Hm. apply H. Qed.

(* ---- bytes compose by addition -------------------------------------------------------------- *)
Lemma land_low_high (b v k : Z) : 0 <= k -> 0 <= b < 2 ^ k -> Z.land b (Z.shiftl v k) = 0.
Proof.
  intros Hk Hb. apply Z.bits_inj'. intros i Hi. rewrite Z.land_spec, Z.bits_0.
  destruct (Z.lt_ge_cases i k) as [Hlt|Hge].
  - rewrite (Z.shiftl_spec_low v k i Hlt). apply andb_false_r.
  - replace b with (b mod 2 ^ k) by (apply Z.mod_small; exact Hb).
    rewrite Z.mod_pow2_bits_high by lia. reflexivity.
Qed.

Lemma lor_low_high (b v k : Z) : 0 <= k -> 0 <= b < 2 ^ k -> Z.lor b (Z.shiftl v k) = b + v * 2 ^ k.
Proof.
  intros Hk Hb. pose proof (land_low_high b v k Hk Hb) as H0.
  rewrite <- Z.lxor_lor by exact H0. rewrite <- Z.add_nocarry_lxor by exact H0.
  rewrite Z.shiftl_mul_pow2 by exact Hk. reflexivity.
Qed.

Definition logged (s : mstate) (cells : list Z) : mstate :=
  {| rg := rg s; mem := mem s; halted := halted s; rlog := rev cells ++ rlog s; wlog := wlog s |}.

Lemma logged_reads s cells : reads_only s (logged s cells) cells.
Proof. unfold reads_only, logged; cbn; repeat split; reflexivity. Qed.

Lemma load_1 s a : mem_wf s -> load 1 s a = (mem s a, logged s [a]).
Proof.
  intros H. unfold load. change (N.to_nat 1) with 1%nat. cbn [rd_bytes rd1 mem rg halted rlog wlog].
  rewrite Z.shiftl_0_r, Z.lor_0_r. reflexivity.
Qed.

Lemma load_2 s a : mem_wf s -> load 2 s a = (mem s a + 256 * mem s (a + 1), logged s [a; a + 1]).
Proof.
  intros H. unfold load. change (N.to_nat 2) with 2%nat. cbn [rd_bytes rd1 mem rg halted rlog wlog].
  change (0 + 8) with 8. rewrite Z.shiftl_0_r, Z.lor_0_r.
  rewrite (lor_low_high (mem s a) (mem s (a + 1)) 8) by (try lia; apply H).
  f_equal. lia.
Qed.

Lemma load_3 s a : mem_wf s ->
  load 3 s a = (mem s a + 256 * (mem s (a + 1) + 256 * mem s (a + 1 + 1)), logged s [a; a + 1; a + 1 + 1]).
Proof.
  intros H. unfold load. change (N.to_nat 3) with 3%nat. cbn [rd_bytes rd1 mem rg halted rlog wlog].
  change (0 + 8 + 8) with (8 + 8). change (0 + 8) with 8. rewrite Z.shiftl_0_r, Z.lor_0_r.
  pose proof (H a) as H0. pose proof (H (a + 1)) as H1. pose proof (H (a + 1 + 1)) as H2.
  rewrite <- (Z.shiftl_shiftl (mem s (a + 1 + 1)) 8 8) by lia.
  rewrite <- Z.shiftl_lor.
  rewrite (lor_low_high (mem s (a + 1)) (mem s (a + 1 + 1)) 8) by (try lia; exact H1).
  rewrite (lor_low_high (mem s a) _ 8) by (try lia; exact H0).
  f_equal. lia.
Qed.

(* ---- the address expression of an internal-memory operand -------------------------------------- *)
Lemma ims_val : ims = 1048576. Proof. reflexivity. Qed.

Lemma band1 v : band v (maskw 1) = v mod 256.
Proof. rewrite band_mask. reflexivity. Qed.

Lemma band3_small v : 0 <= v < 16777216 -> band v (maskw 3) = v.
Proof. intros H. rewrite band_mask. change (2 ^ bits 3) with 16777216. apply Z.mod_small. exact H. Qed.

Lemma imreg_eval s off : mem_wf s ->
  eval_expr (imreg off) s = Some (mem s (imem off), logged s [imem off]).
Proof.
  intros H. unfold imreg. cbn [eval_expr]. rewrite load_1 by exact H.
  unfold imem, ims. rewrite N2Z.inj_add. reflexivity.
Qed.

Lemma logged_logged s a b : logged (logged s a) b = logged s (a ++ b).
Proof. unfold logged; cbn. rewrite rev_app_distr, app_assoc. reflexivity. Qed.

Lemma mem_wf_logged s l : mem_wf s -> mem_wf (logged s l).
Proof. intros H a. apply H. Qed.

(* evaluating the address expression yields the documented cell and reads exactly the registers the mode names *)
Theorem imem_addr_eval : forall s m n, mem_wf s -> (n < 256)%N ->
  eval_expr (imem_addr m n) s = Some (fst (imem_cell s m n), logged s (snd (imem_cell s m n))).
Proof.
  intros s m n Hwf Hn.
  pose proof (Hwf (imem py_imem_BP)) as Hbp. pose proof (Hwf (imem py_imem_PX)) as Hpx. pose proof (Hwf (imem py_imem_PY)) as Hpy.
  assert (Hn' : 0 <= Z.of_N n < 256) by lia.
  destruct m; cbn [imem_addr imem_cell fst snd]; unfold imem_reg, memb.
  - cbn [eval_expr]. rewrite (Z.mod_small (Z.of_N n) 256) by lia.
    f_equal. f_equal. unfold logged; cbn. destruct s; reflexivity.
  - unfold add, cN, c. cbn [eval_expr]. rewrite imreg_eval by exact Hwf. cbn [eval_binop apply_flags].
    rewrite band1. rewrite band3_small by (pose proof (Z.mod_pos_bound (mem s (imem py_imem_BP) + Z.of_N n) 256 ltac:(lia)); rewrite ims_val; lia).
    f_equal. f_equal. lia.
  - unfold add, cN, c. cbn [eval_expr]. rewrite imreg_eval by exact Hwf. cbn [eval_binop apply_flags].
    rewrite band1. rewrite band3_small by (pose proof (Z.mod_pos_bound (mem s (imem py_imem_PX) + Z.of_N n) 256 ltac:(lia)); rewrite ims_val; lia).
    f_equal. f_equal. lia.
  - unfold add, cN, c. cbn [eval_expr]. rewrite imreg_eval by exact Hwf. cbn [eval_binop apply_flags].
    rewrite band1. rewrite band3_small by (pose proof (Z.mod_pos_bound (mem s (imem py_imem_PY) + Z.of_N n) 256 ltac:(lia)); rewrite ims_val; lia).
    f_equal. f_equal. lia.
  - unfold add, cN, c. cbn [eval_expr]. rewrite imreg_eval by exact Hwf.
    rewrite imreg_eval by (apply mem_wf_logged; exact Hwf). cbn [eval_binop apply_flags mem logged].
    rewrite logged_logged.
    rewrite band1. rewrite band3_small by (pose proof (Z.mod_pos_bound (mem s (imem py_imem_BP) + mem s (imem py_imem_PX)) 256 ltac:(lia)); rewrite ims_val; lia).
    f_equal. f_equal. lia.
  - unfold add, cN, c. cbn [eval_expr]. rewrite imreg_eval by exact Hwf.
    rewrite imreg_eval by (apply mem_wf_logged; exact Hwf). cbn [eval_binop apply_flags mem logged].
    rewrite logged_logged.
    rewrite band1. rewrite band3_small by (pose proof (Z.mod_pos_bound (mem s (imem py_imem_BP) + mem s (imem py_imem_PY)) 256 ltac:(lia)); rewrite ims_val; lia).
    f_equal. f_equal. lia.
Qed.

(* little-endian value of w bytes, as Static.le_val computes it *)
Lemma le_val_1 s a : le_val s a 1 = mem s a. Proof. unfold le_val, memb. cbn [range fold_right]. lia. Qed.
Lemma le_val_2 s a : le_val s a 2 = mem s a + 256 * mem s (a + 1). Proof. unfold le_val, memb. cbn [range fold_right]. lia. Qed.
Lemma le_val_3 s a : le_val s a 3 = mem s a + 256 * (mem s (a + 1) + 256 * mem s (a + 1 + 1)).
Proof. unfold le_val, memb. cbn [range fold_right]. lia. Qed.

(* reading an internal-memory operand: value = little-endian contents of the denoted cell, reads = the addressing
   registers of the mode followed by the w bytes of the cell, nothing written, no register changed *)
Theorem imem_operand_read : forall s m n (w : N), mem_wf s -> (n < 256)%N -> (w = 1 \/ w = 2 \/ w = 3)%N ->
  let p := place_of s (LIMem w n) m in
  exists s', eval_expr (ELoad w (imem_addr m n)) s = Some (rd_place s p, s') /\ reads_only s s' (a_reads (op_read p)).
Proof.
  intros s m n w Hwf Hn Hw p. subst p. cbn [place_of].
  destruct (imem_cell s m n) as [a rs] eqn:Hc.
  cbn [rd_place op_read a_reads].
  cbn [eval_expr]. rewrite imem_addr_eval by assumption. rewrite Hc. cbn [fst snd].
  assert (Hwf' : mem_wf (logged s rs)) by (apply mem_wf_logged; exact Hwf).
  destruct Hw as [ -> | [ -> | -> ] ].
  - rewrite load_1 by exact Hwf'. rewrite logged_logged. eexists. split; [rewrite le_val_1; reflexivity|apply logged_reads].
  - rewrite load_2 by exact Hwf'. rewrite logged_logged. eexists. split; [rewrite le_val_2; reflexivity|apply logged_reads].
  - rewrite load_3 by exact Hwf'. rewrite logged_logged. eexists. split; [rewrite le_val_3; reflexivity|apply logged_reads].
Qed.

(* ---- writing an internal-memory operand -------------------------------------------------------- *)
Definition writes_only (s s' : mstate) (rcells wcells : list Z) : Prop :=
  rg s' = rg s /\ halted s' = halted s /\ rlog s' = rev rcells ++ rlog s /\ wlog s' = rev wcells ++ wlog s /\
  (forall x, ~ In x wcells -> mem s' x = mem s x).

Lemma byte_of v k : band (Z.shiftr v k) 255 = (v / 2 ^ k) mod 256 \/ k < 0.
Proof.
  destruct (Z.lt_ge_cases k 0) as [H|H]; [right; exact H|left].
  unfold band. change 255 with (Z.ones 8). rewrite Z.land_ones by lia. rewrite Z.shiftr_div_pow2 by exact H. reflexivity.
Qed.

Lemma eqb_self_off a k : k <> 0 -> (a =? a + k) = false /\ (a + k =? a) = false.
Proof. intros H. split; apply Z.eqb_neq; lia. Qed.

Theorem imem_operand_write : forall s m n (w : N) v, mem_wf s -> (n < 256)%N -> (w = 1 \/ w = 2 \/ w = 3)%N ->
  let p := place_of s (LIMem w n) m in
  let a := fst (imem_cell s m n) in
  exists s', exec_stmt (SStore w (imem_addr m n) (EConst w v)) s = Some (s', ONext) /\
             writes_only s s' (a_reads (op_write p)) (a_writes (op_write p)) /\
             (forall k, (k < N.to_nat w)%nat -> mem s' (a + Z.of_nat k) = (v / 2 ^ (8 * Z.of_nat k)) mod 256).
Proof.
  intros s m n w v Hwf Hn Hw p a. subst p a. cbn [place_of].
  destruct (imem_cell s m n) as [a rs] eqn:Hc. cbn [fst op_write a_reads a_writes].
  cbn [exec_stmt eval_expr]. rewrite imem_addr_eval by assumption. rewrite Hc. cbn [fst snd eval_expr].
  unfold store.
  destruct Hw as [ -> | [ -> | -> ] ].
  - change (N.to_nat 1) with 1%nat. cbn [wr_bytes range]. unfold wr1, logged; cbn [mem rg halted rlog wlog]. eexists. split; [reflexivity|]. split.
    + unfold writes_only; cbn [mem rg halted rlog wlog rev app]. repeat split; try reflexivity.
      intros x Hx. destruct (x =? a) eqn:E; [apply Z.eqb_eq in E; exfalso; apply Hx; left; lia | reflexivity].
    + intros k Hk. assert (k = 0%nat) by lia. subst k. cbn [mem Z.of_nat]. rewrite Z.add_0_r, Z.eqb_refl.
      unfold band at 1. change 255 with (Z.ones 8). rewrite !Z.land_ones by lia. rewrite Z.mod_mod by lia.
      change (8 * 0) with 0. rewrite Z.pow_0_r, Z.div_1_r. reflexivity.
  - change (N.to_nat 2) with 2%nat. cbn [wr_bytes range]. unfold wr1, logged; cbn [mem rg halted rlog wlog]. eexists. split; [reflexivity|]. split.
    + unfold writes_only; cbn [mem rg halted rlog wlog rev app]. repeat split; try reflexivity.
      intros x Hx. destruct (x =? a + 1) eqn:E1; [apply Z.eqb_eq in E1; exfalso; apply Hx; right; left; lia|].
      destruct (x =? a) eqn:E; [apply Z.eqb_eq in E; exfalso; apply Hx; left; lia | reflexivity].
    + intros k Hk. cbn [mem]. unfold band. change 255 with (Z.ones 8). rewrite !Z.land_ones by lia. rewrite !Z.mod_mod by lia.
      destruct k as [|[|k]]; [| |lia]; cbn [Z.of_nat].
      * rewrite Z.add_0_r. destruct (eqb_self_off a 1 ltac:(lia)) as [E _]. rewrite E, Z.eqb_refl.
        change (8 * 0) with 0. rewrite Z.pow_0_r, Z.div_1_r. reflexivity.
      * change (Z.pos (Pos.of_succ_nat 0)) with 1. rewrite Z.eqb_refl. rewrite Z.shiftr_div_pow2 by lia. reflexivity.
  - change (N.to_nat 3) with 3%nat. cbn [wr_bytes range]. unfold wr1, logged; cbn [mem rg halted rlog wlog]. eexists. split; [reflexivity|]. split.
    + unfold writes_only; cbn [mem rg halted rlog wlog rev app]. repeat split; try reflexivity.
      intros x Hx. destruct (x =? a + 1 + 1) eqn:E2; [apply Z.eqb_eq in E2; exfalso; apply Hx; right; right; left; lia|].
      destruct (x =? a + 1) eqn:E1; [apply Z.eqb_eq in E1; exfalso; apply Hx; right; left; lia|].
      destruct (x =? a) eqn:E; [apply Z.eqb_eq in E; exfalso; apply Hx; left; lia | reflexivity].
    + intros k Hk. cbn [mem]. unfold band. change 255 with (Z.ones 8). rewrite !Z.land_ones by lia. rewrite !Z.mod_mod by lia.
      destruct k as [|[|[|k]]]; [| | |lia]; cbn [Z.of_nat].
      * rewrite Z.add_0_r.
        replace (a =? a + 1 + 1) with false by (symmetry; apply Z.eqb_neq; lia).
        replace (a =? a + 1) with false by (symmetry; apply Z.eqb_neq; lia). rewrite Z.eqb_refl.
        change (8 * 0) with 0. rewrite Z.pow_0_r, Z.div_1_r. reflexivity.
      * change (Z.pos (Pos.of_succ_nat 0)) with 1.
        replace (a + 1 =? a + 1 + 1) with false by (symmetry; apply Z.eqb_neq; lia). rewrite Z.eqb_refl.
        rewrite Z.shiftr_div_pow2 by lia. reflexivity.
      * change (Z.pos (Pos.of_succ_nat 1)) with 2. replace (a + 2) with (a + 1 + 1) by lia. rewrite Z.eqb_refl.
        rewrite Z.shiftr_shiftr by lia. rewrite Z.shiftr_div_pow2 by lia. reflexivity.
Qed.

(* the mode render() shows for an operand is the mode the generic lift gives that operand: both come from
   addressing_modes (Instruction._addressing_modes) *)
Theorem render_modes_are_lift_modes : forall i lops dm sm,
  expand (i_ent i) (i_ops i) = Some lops -> addressing_modes i lops = Some (dm, sm) ->
  match lops with
  | [a] => render_ops i = Some [(a, dm)]
  | [a; b] => render_ops i = Some [(a, dm); (b, sm)]
  | _ => True
  end.
Proof.
  intros i lops dm sm He Ha. unfold render_ops. rewrite He, Ha.
  destruct lops as [|a [|b [|c r]]]; auto.
Qed.
