(* Proofs/TempProofs.v -- soundness of the scratch-register definite-assignment check (C07):
   if check prog ann = true, two runs of prog from states that agree on everything architectural end in states
   that agree on everything architectural, whatever the TEMP registers held. *)
From Coq Require Import ZArith NArith List Bool Lia.
From BE Require Import Model.Regs Model.IL Model.TempSafe.
Import ListNotations.

(* agreement on the architectural state and on the scratch registers in W *)
Definition agree (W : tset) (s1 s2 : mstate) : Prop :=
  y_ba (rg s1) = y_ba (rg s2) /\ y_i (rg s1) = y_i (rg s2) /\ y_x (rg s1) = y_x (rg s2) /\ y_y (rg s1) = y_y (rg s2) /\
  y_u (rg s1) = y_u (rg s2) /\ y_s (rg s1) = y_s (rg s2) /\ y_pc (rg s1) = y_pc (rg s2) /\ y_f (rg s1) = y_f (rg s2) /\
  length (y_t (rg s1)) = NTEMP /\ length (y_t (rg s2)) = NTEMP /\
  (forall k, mem_t k W = true -> nth k (y_t (rg s1)) 0%N = nth k (y_t (rg s2)) 0%N) /\
  mem s1 = mem s2 /\ halted s1 = halted s2 /\ rlog s1 = rlog s2 /\ wlog s1 = wlog s2.

Lemma mem_t_app k a b : mem_t k (a ++ b) = mem_t k a || mem_t k b.
Proof. unfold mem_t. apply existsb_app. Qed.

Lemma subset_spec a b : subset a b = true -> forall k, mem_t k a = true -> mem_t k b = true.
Proof.
  unfold subset. intros H k Hk. rewrite forallb_forall in H.
  unfold mem_t in Hk. apply existsb_exists in Hk. destruct Hk as [x [Hx He]].
  apply Nat.eqb_eq in He. subst x. apply H. exact Hx.
Qed.

Lemma subset_app_l a b w : subset (a ++ b) w = true -> subset a w = true /\ subset b w = true.
Proof. unfold subset. rewrite forallb_app. apply andb_prop. Qed.

Lemma agree_weaken W W' s1 s2 : (forall k, mem_t k W' = true -> mem_t k W = true) -> agree W s1 s2 -> agree W' s1 s2.
Proof.
  intros Hs (A1 & A2 & A3 & A4 & A5 & A6 & A7 & A8 & A9 & A9' & A10 & A11 & A12 & A13 & A14).
  unfold agree. repeat split; try assumption. intros k Hk. apply A10. apply Hs. exact Hk.
Qed.

(* ---- registers -------------------------------------------------------------------------------- *)
Lemma getr_agree W s1 s2 r : agree W s1 s2 -> subset (temp_of r) W = true -> getr s1 r = getr s2 r.
Proof.
  intros (A1 & A2 & A3 & A4 & A5 & A6 & A7 & A8 & A9 & A9' & A10 & _) Hr.
  unfold getr. f_equal.
  destruct r; cbn [py_get]; try congruence.
  apply A10. cbn [temp_of subset forallb] in Hr. rewrite andb_true_r in Hr. exact Hr.
Qed.

Lemma upd_len {T} (l : list T) i v : length (upd l i v) = length l.
Proof. revert i. induction l as [|h t IH]; intros [|j]; cbn; auto. Qed.

Lemma nth_upd_eq (l1 l2 : list N) k j v :
  length l1 = length l2 -> (j = k \/ nth j l1 0%N = nth j l2 0%N) ->
  nth j (upd l1 k v) 0%N = nth j (upd l2 k v) 0%N.
Proof.
  revert l2 k j. induction l1 as [|h t IH]; intros [|h2 t2] k j Hl Hj; cbn in Hl; try discriminate.
  - destruct k; cbn; destruct j; reflexivity.
  - injection Hl as Hl. destruct k as [|k]; destruct j as [|j]; cbn [upd nth].
    + reflexivity.
    + destruct Hj as [Hj|Hj]; [discriminate | exact Hj].
    + destruct Hj as [Hj|Hj]; [discriminate | exact Hj].
    + apply IH; [exact Hl|]. destruct Hj as [Hj|Hj]; [left; lia | right; exact Hj].
Qed.

Lemma setr_agree W s1 s2 r v : agree W s1 s2 -> agree (temp_of r ++ W) (setr s1 r v) (setr s2 r v).
Proof.
  intros (A1 & A2 & A3 & A4 & A5 & A6 & A7 & A8 & A9 & A9' & A10 & A11 & A12 & A13 & A14).
  unfold setr, with_rg. set (x := Z.to_N (v mod 4294967296)).
  destruct s1 as [[ba1 i1 x1 y1 u1 sp1 pc1 f1 t1] m1 h1 rl1 wl1].
  destruct s2 as [[ba2 i2 x2 y2 u2 sp2 pc2 f2 t2] m2 h2 rl2 wl2].
  cbn [rg mem halted rlog wlog y_ba y_i y_x y_y y_u y_s y_pc y_f y_t] in *.
  subst ba2 i2 x2 y2 u2 sp2 pc2 f2 m2 h2 rl2 wl2.
  destruct r as [| | | | | | | | | | | | | |k]; cbn [py_set temp_of app];
    unfold agree; cbn [rg mem halted rlog wlog y_ba y_i y_x y_y y_u y_s y_pc y_f y_t];
    repeat split; try reflexivity; try assumption.
  - destruct (Nat.ltb k NTEMP); [rewrite upd_len|]; assumption.
  - destruct (Nat.ltb k NTEMP); [rewrite upd_len|]; assumption.
  - intros j Hj. cbn [mem_t existsb] in Hj. fold (mem_t j W) in Hj.
    destruct (Nat.ltb k NTEMP) eqn:Hk.
    + apply nth_upd_eq; [congruence|].
      destruct (Nat.eqb j k) eqn:E; [left; apply Nat.eqb_eq; exact E | right; apply A10; exact Hj].
    + destruct (Nat.eqb j k) eqn:E; [|apply A10; exact Hj].
      apply Nat.eqb_eq in E. subst j. apply Nat.ltb_ge in Hk.
      rewrite !nth_overflow by lia. reflexivity.
Qed.

Lemma setr_agree_keep W s1 s2 r v : agree W s1 s2 -> agree W (setr s1 r v) (setr s2 r v).
Proof.
  intros H. apply (agree_weaken (temp_of r ++ W)); [|apply setr_agree; exact H].
  intros k Hk. rewrite mem_t_app, Hk. apply orb_true_r.
Qed.

Lemma set_flag_agree W s1 s2 c v : agree W s1 s2 -> agree W (set_flag s1 c v) (set_flag s2 c v).
Proof. intros H. unfold set_flag. apply setr_agree_keep. exact H. Qed.

(* ---- memory ----------------------------------------------------------------------------------- *)
Lemma rd1_agree W s1 s2 a : agree W s1 s2 ->
  fst (rd1 s1 a) = fst (rd1 s2 a) /\ agree W (snd (rd1 s1 a)) (snd (rd1 s2 a)).
Proof.
  intros (A1 & A2 & A3 & A4 & A5 & A6 & A7 & A8 & A9 & A9' & A10 & A11 & A12 & A13 & A14).
  unfold rd1; cbn [fst snd]. split; [rewrite A11; reflexivity|].
  unfold agree; cbn [rg mem halted rlog wlog]. repeat split; try assumption. rewrite A13. reflexivity.
Qed.

Lemma rd_bytes_agree W n : forall k s1 s2 a, agree W s1 s2 ->
  fst (rd_bytes n k s1 a) = fst (rd_bytes n k s2 a) /\ agree W (snd (rd_bytes n k s1 a)) (snd (rd_bytes n k s2 a)).
Proof.
  induction n as [|n IH]; intros k s1 s2 a H; cbn [rd_bytes]; [split; [reflexivity|exact H]|].
  destruct (rd1_agree W s1 s2 a H) as [Hv Hs].
  destruct (rd1 s1 a) as [b1 t1]. destruct (rd1 s2 a) as [b2 t2]. cbn [fst snd] in Hv, Hs. subst b2.
  destruct (IH (k + 8)%Z t1 t2 (a + 1)%Z Hs) as [Hv2 Hs2].
  destruct (rd_bytes n (k + 8) t1 (a + 1)) as [v1 u1]. destruct (rd_bytes n (k + 8) t2 (a + 1)) as [v2 u2].
  cbn [fst snd] in *. subst v2. split; [reflexivity|exact Hs2].
Qed.

Lemma load_agree W w s1 s2 a : agree W s1 s2 ->
  fst (load w s1 a) = fst (load w s2 a) /\ agree W (snd (load w s1 a)) (snd (load w s2 a)).
Proof. intros H. unfold load. apply rd_bytes_agree. exact H. Qed.

Lemma wr1_agree W s1 s2 a v : agree W s1 s2 -> agree W (wr1 s1 a v) (wr1 s2 a v).
Proof.
  intros (A1 & A2 & A3 & A4 & A5 & A6 & A7 & A8 & A9 & A9' & A10 & A11 & A12 & A13 & A14).
  unfold wr1, agree; cbn [rg mem halted rlog wlog]. repeat split; try assumption.
  - rewrite A11. reflexivity.
  - rewrite A14. reflexivity.
Qed.

Lemma wr_bytes_agree W n : forall s1 s2 a v, agree W s1 s2 -> agree W (wr_bytes n s1 a v) (wr_bytes n s2 a v).
Proof.
  induction n as [|n IH]; intros s1 s2 a v H; cbn [wr_bytes]; [exact H|].
  apply IH. apply wr1_agree. exact H.
Qed.

Lemma store_agree W w s1 s2 a v : agree W s1 s2 -> agree W (store w s1 a v) (store w s2 a v).
Proof. intros H. unfold store. apply wr_bytes_agree. exact H. Qed.

Lemma apply_flags_agree W f w r oc oz s1 s2 : agree W s1 s2 -> agree W (apply_flags f w r oc oz s1) (apply_flags f w r oc oz s2).
Proof. intros H. unfold apply_flags. destruct f; [exact H | apply set_flag_agree; exact H | apply set_flag_agree; apply set_flag_agree; exact H]. Qed.

(* ---- expressions ----------------------------------------------------------------------------- *)
Definition res_agree (W : tset) (r1 r2 : option (Z * mstate)) : Prop :=
  match r1, r2 with
  | Some (v1, t1), Some (v2, t2) => v1 = v2 /\ agree W t1 t2
  | None, None => True
  | _, _ => False
  end.

Lemma eval_agree W : forall e s1 s2, subset (temps_of_expr e) W = true -> agree W s1 s2 ->
  res_agree W (eval_expr e s1) (eval_expr e s2).
Proof.
  induction e as [w v|w v|w r|c|w a IHa|op w f a IHa b IHb|lft w f a IHa n IHn ci IHc|w|]; intros s1 s2 Hs H;
    cbn [eval_expr temps_of_expr] in *.
  - split; [reflexivity|exact H].
  - split; [reflexivity|exact H].
  - split; [apply (getr_agree W); assumption | exact H].
  - split; [|exact H]. unfold get_flag. apply (getr_agree W); [exact H|destruct c; reflexivity].
  - specialize (IHa s1 s2 Hs H). unfold res_agree in IHa.
    destruct (eval_expr a s1) as [[v1 t1]|]; destruct (eval_expr a s2) as [[v2 t2]|]; try contradiction; [|exact I].
    destruct IHa as [-> Ht]. destruct (load_agree W w t1 t2 v2 Ht) as [Hv Hs2].
    destruct (load w t1 v2) as [x1 u1]. destruct (load w t2 v2) as [x2 u2]. cbn [fst snd] in *. split; assumption.
  - destruct (subset_app_l _ _ _ Hs) as [Hsa Hsb].
    specialize (IHa s1 s2 Hsa H). unfold res_agree in IHa.
    destruct (eval_expr a s1) as [[v1 t1]|]; destruct (eval_expr a s2) as [[v2 t2]|]; try contradiction; [|exact I].
    destruct IHa as [-> Ht]. specialize (IHb t1 t2 Hsb Ht). unfold res_agree in IHb.
    destruct (eval_expr b t1) as [[y1 u1]|]; destruct (eval_expr b t2) as [[y2 u2]|]; try contradiction; [|exact I].
    destruct IHb as [-> Hu]. destruct (eval_binop op w v2 y2) as [[[r oc] oz]|]; [|exact I].
    split; [reflexivity|apply apply_flags_agree; exact Hu].
  - destruct (subset_app_l _ _ _ Hs) as [Hsa Hs2]. destruct (subset_app_l _ _ _ Hs2) as [Hsn Hsc].
    specialize (IHa s1 s2 Hsa H). unfold res_agree in IHa.
    destruct (eval_expr a s1) as [[v1 t1]|]; destruct (eval_expr a s2) as [[v2 t2]|]; try contradiction; [|exact I].
    destruct IHa as [-> Ht]. specialize (IHn t1 t2 Hsn Ht). unfold res_agree in IHn.
    destruct (eval_expr n t1) as [[n1 u1]|]; destruct (eval_expr n t2) as [[n2 u2]|]; try contradiction; [|exact I].
    destruct IHn as [-> Hu]. specialize (IHc u1 u2 Hsc Hu). unfold res_agree in IHc.
    destruct (eval_expr ci u1) as [[c1 z1]|]; destruct (eval_expr ci u2) as [[c2 z2]|]; try contradiction; [|exact I].
    destruct IHc as [-> Hz]. destruct (negb (n2 =? 1)%Z); [exact I|].
    destruct lft; split; try reflexivity; apply apply_flags_agree; exact Hz.
  - assert (Hg : getr s1 gS = getr s2 gS) by (apply (getr_agree W); [exact H|reflexivity]).
    rewrite Hg. destruct (load_agree W w s1 s2 (getr s2 gS) H) as [Hv Hs2].
    destruct (load w s1 (getr s2 gS)) as [x1 u1]. destruct (load w s2 (getr s2 gS)) as [x2 u2]. cbn [fst snd] in *.
    split; [exact Hv|apply setr_agree_keep; exact Hs2].
  - exact I.
Qed.

(* ---- statements -------------------------------------------------------------------------------- *)
Definition sres_agree (W : tset) (r1 r2 : option (mstate * outcome)) : Prop :=
  match r1, r2 with
  | Some (t1, o1), Some (t2, o2) => o1 = o2 /\ agree W t1 t2
  | None, None => True
  | _, _ => False
  end.

Lemma low_power_agree W s1 s2 : agree W s1 s2 -> agree W (low_power s1) (low_power s2).
Proof.
  intros H. unfold low_power.
  destruct (rd1_agree W s1 s2 (imem Gen.Tables.py_imem_USR) H) as [Hv Hs].
  destruct (rd1 s1 (imem Gen.Tables.py_imem_USR)) as [u1 t1]. destruct (rd1 s2 (imem Gen.Tables.py_imem_USR)) as [u2 t2].
  cbn [fst snd] in *. subst u2.
  pose proof (wr1_agree W t1 t2 (imem Gen.Tables.py_imem_USR) (Z.lor (Z.land u1 (Z.lnot 63)) 24) Hs) as Hw.
  destruct (rd1_agree W _ _ (imem Gen.Tables.py_imem_SSR) Hw) as [Hv2 Hs2].
  destruct (rd1 (wr1 t1 _ _) (imem Gen.Tables.py_imem_SSR)) as [x1 z1].
  destruct (rd1 (wr1 t2 _ _) (imem Gen.Tables.py_imem_SSR)) as [x2 z2].
  cbn [fst snd] in *. subst x2.
  pose proof (wr1_agree W z1 z2 (imem Gen.Tables.py_imem_SSR) (Z.lor x1 4) Hs2) as Hw2.
  destruct Hw2 as (A1 & A2 & A3 & A4 & A5 & A6 & A7 & A8 & A9 & A9' & A10 & A11 & A12 & A13 & A14).
  unfold agree; cbn [rg mem halted rlog wlog]. repeat split; assumption.
Qed.

Lemma rd1_bind_agree W s1 s2 a (k : Z -> mstate -> mstate) :
  agree W s1 s2 -> (forall v t1 t2, agree W t1 t2 -> agree W (k v t1) (k v t2)) ->
  agree W (let '(v, t) := rd1 s1 a in k v t) (let '(v, t) := rd1 s2 a in k v t).
Proof.
  intros H Hk. destruct (rd1_agree W s1 s2 a H) as [Hv Hs].
  destruct (rd1 s1 a) as [v1 t1]. destruct (rd1 s2 a) as [v2 t2]. cbn [fst snd] in *. subst v2. apply Hk. exact Hs.
Qed.

Lemma reset_agree W s1 s2 : agree W s1 s2 -> agree W (reset_intr s1) (reset_intr s2).
Proof.
  intros H. unfold reset_intr.
  apply rd1_bind_agree; [exact H|]. intros lcc a1 a2 Ha.
  apply rd1_bind_agree; [repeat apply wr1_agree; exact Ha|]. intros usr b1 b2 Hb.
  apply rd1_bind_agree; [apply wr1_agree; exact Hb|]. intros ssr c1 c2 Hc.
  apply rd1_bind_agree; [apply wr1_agree; exact Hc|]. intros v0 d1 d2 Hd.
  apply rd1_bind_agree; [exact Hd|]. intros v1 e1 e2 He.
  apply rd1_bind_agree; [exact He|]. intros v2 f1 f2 Hf.
  apply setr_agree_keep. exact Hf.
Qed.

Lemma exec_agree W st s1 s2 : subset (reads_of st) W = true -> agree W s1 s2 ->
  sres_agree (writes_of st ++ W) (exec_stmt st s1) (exec_stmt st s2).
Proof.
  intros Hr H.
  assert (Hkeep : forall t1 t2, agree W t1 t2 -> agree (writes_of st ++ W) t1 t2 -> True) by auto.
  destruct st as [w r e|c e|w a e|w e|e|e|e| | |k|e|c t f|l|l]; cbn [exec_stmt reads_of writes_of app] in *.
  - pose proof (eval_agree W e s1 s2 Hr H) as He. unfold res_agree in He.
    destruct (eval_expr e s1) as [[v1 t1]|]; destruct (eval_expr e s2) as [[v2 t2]|]; try contradiction; [|exact I].
    destruct He as [-> Ht]. split; [reflexivity|apply setr_agree; exact Ht].
  - pose proof (eval_agree W e s1 s2 Hr H) as He. unfold res_agree in He.
    destruct (eval_expr e s1) as [[v1 t1]|]; destruct (eval_expr e s2) as [[v2 t2]|]; try contradiction; [|exact I].
    destruct He as [-> Ht]. split; [reflexivity|apply set_flag_agree; exact Ht].
  - destruct (subset_app_l _ _ _ Hr) as [Hra Hre].
    pose proof (eval_agree W a s1 s2 Hra H) as Ha. unfold res_agree in Ha.
    destruct (eval_expr a s1) as [[a1 t1]|]; destruct (eval_expr a s2) as [[a2 t2]|]; try contradiction; [|exact I].
    destruct Ha as [-> Ht]. pose proof (eval_agree W e t1 t2 Hre Ht) as He. unfold res_agree in He.
    destruct (eval_expr e t1) as [[v1 u1]|]; destruct (eval_expr e t2) as [[v2 u2]|]; try contradiction; [|exact I].
    destruct He as [-> Hu]. split; [reflexivity|apply store_agree; exact Hu].
  - pose proof (eval_agree W e s1 s2 Hr H) as He. unfold res_agree in He.
    destruct (eval_expr e s1) as [[v1 t1]|]; destruct (eval_expr e s2) as [[v2 t2]|]; try contradiction; [|exact I].
    destruct He as [-> Ht]. split; [reflexivity|].
    assert (Hg : getr t1 gS = getr t2 gS) by (apply (getr_agree W); [exact Ht|reflexivity]). rewrite Hg.
    apply setr_agree_keep. apply store_agree. exact Ht.
  - pose proof (eval_agree W e s1 s2 Hr H) as He. unfold res_agree in He.
    destruct (eval_expr e s1) as [[v1 t1]|]; destruct (eval_expr e s2) as [[v2 t2]|]; try contradiction; [|exact I].
    destruct He as [-> Ht]. split; [reflexivity|apply setr_agree_keep; exact Ht].
  - pose proof (eval_agree W e s1 s2 Hr H) as He. unfold res_agree in He.
    destruct (eval_expr e s1) as [[v1 t1]|]; destruct (eval_expr e s2) as [[v2 t2]|]; try contradiction; [|exact I].
    destruct He as [-> Ht]. split; [reflexivity|].
    assert (Hp : getr t1 gPC = getr t2 gPC) by (apply (getr_agree W); [exact Ht|reflexivity]).
    assert (Hg : getr t1 gS = getr t2 gS) by (apply (getr_agree W); [exact Ht|reflexivity]). rewrite Hp, Hg.
    apply setr_agree_keep. apply setr_agree_keep. apply store_agree. exact Ht.
  - pose proof (eval_agree W e s1 s2 Hr H) as He. unfold res_agree in He.
    destruct (eval_expr e s1) as [[v1 t1]|]; destruct (eval_expr e s2) as [[v2 t2]|]; try contradiction; [|exact I].
    destruct He as [-> Ht]. split; [reflexivity|apply setr_agree_keep; exact Ht].
  - split; [reflexivity|exact H].
  - exact I.
  - destruct k; (split; [reflexivity|]); [exact H | apply low_power_agree; exact H | apply low_power_agree; exact H | apply reset_agree; exact H].
  - pose proof (eval_agree W e s1 s2 Hr H) as He. unfold res_agree in He.
    destruct (eval_expr e s1) as [[v1 t1]|]; destruct (eval_expr e s2) as [[v2 t2]|]; try contradiction; [|exact I].
    destruct He as [-> Ht]. split; [reflexivity|exact Ht].
  - pose proof (eval_agree W c s1 s2 Hr H) as He. unfold res_agree in He.
    destruct (eval_expr c s1) as [[v1 t1]|]; destruct (eval_expr c s2) as [[v2 t2]|]; try contradiction; [|exact I].
    destruct He as [-> Ht]. split; [reflexivity|exact Ht].
  - split; [reflexivity|exact H].
  - split; [reflexivity|exact H].
Qed.

(* ---- runs ------------------------------------------------------------------------------------ *)
Lemma check_from_nth : forall prog all ann base pc st,
  check_from prog all ann base = true -> nth_error prog pc = Some st -> check_pc all ann (base + pc) st = true.
Proof.
  induction prog as [|h t IH]; intros all ann base pc st Hc Hn; [destruct pc; discriminate|].
  cbn [check_from] in Hc. apply andb_prop in Hc. destruct Hc as [Hh Ht].
  destruct pc as [|pc]; cbn [nth_error] in Hn.
  - injection Hn as <-. rewrite Nat.add_0_r. exact Hh.
  - replace (base + S pc)%nat with (S base + pc)%nat by lia. apply (IH all ann (S base) pc st Ht Hn).
Qed.

Definition rres_agree (r1 r2 : runres) : Prop :=
  match r1, r2 with
  | RDone t1, RDone t2 => agree [] t1 t2
  | RFault, RFault | RFuel, RFuel => True
  | _, _ => False
  end.

Lemma nil_subset W : forall k, mem_t k [] = true -> mem_t k W = true.
Proof. intros k H. discriminate. Qed.

Theorem run_agree prog ann : check_from prog prog ann 0 = true ->
  forall fuel pc s1 s2, agree (ann_at ann pc) s1 s2 -> rres_agree (run fuel prog pc s1) (run fuel prog pc s2).
Proof.
  intros Hc. induction fuel as [|fuel IH]; intros pc s1 s2 H; cbn [run]; [exact I|].
  destruct (nth_error prog pc) as [st|] eqn:Hn.
  2:{ cbn [rres_agree]. apply (agree_weaken (ann_at ann pc)); [apply nil_subset|exact H]. }
  pose proof (check_from_nth prog prog ann 0 pc st Hc Hn) as Hp. cbn [Nat.add] in Hp.
  unfold check_pc in Hp. apply andb_prop in Hp. destruct Hp as [Hr Hsucc].
  pose proof (exec_agree (ann_at ann pc) st s1 s2 Hr H) as He. unfold sres_agree in He.
  destruct (exec_stmt st s1) as [[t1 o1]|] eqn:E1; destruct (exec_stmt st s2) as [[t2 o2]|] eqn:E2; try contradiction; [|exact I].
  destruct He as [<- Ht].
  rewrite forallb_forall in Hsucc.
  destruct o1 as [|l].
  - (* fall through: the successor is S pc unless the statement is a jump, which never yields ONext *)
    assert (Hin : In (S pc) (succs prog pc st)).
    { destruct st; cbn [succs]; try (left; reflexivity);
        cbn [exec_stmt] in E1;
        repeat match type of E1 with
               | match ?x with _ => _ end = _ => destruct x; try discriminate
               | (let '(_, _) := ?x in _) = _ => destruct x
               end; try discriminate. }
    apply IH. apply (agree_weaken (writes_of st ++ ann_at ann pc)); [|exact Ht].
    apply subset_spec. apply Hsucc. exact Hin.
  - destruct (label_index prog l 0 None) as [q|] eqn:Hl; [|exact I].
    assert (Hin : In q (succs prog pc st)).
    { destruct st; cbn [exec_stmt] in E1;
        repeat match type of E1 with
               | match ?x with _ => _ end = _ => destruct x eqn:?; try discriminate
               | (let '(_, _) := ?x in _) = _ => destruct x
               end; try discriminate.
      - (* SIf *) injection E1 as _ E1. cbn [succs].
        destruct (z =? 0)%Z; subst l; rewrite Hl.
        + destruct (label_index prog t 0 None); [right; left; reflexivity | left; reflexivity].
        + destruct (label_index prog f 0 None); left; reflexivity.
      - (* SGoto *) injection E1 as _ E1. subst l. cbn [succs]. rewrite Hl. left. reflexivity. }
    apply IH. apply (agree_weaken (writes_of st ++ ann_at ann pc)); [|exact Ht].
    apply subset_spec. apply Hsucc. exact Hin.
Qed.

(* the statement used by C07: a lifted IL that passes the check ends in the same architectural state from any two
   states that differ only in the scratch registers *)
Theorem temps_safe_sound prog : temps_safe prog = true ->
  forall fuel s1 s2, agree [] s1 s2 -> rres_agree (run fuel prog 0 s1) (run fuel prog 0 s2).
Proof.
  unfold temps_safe, check. intros H fuel s1 s2 Ha.
  destruct (ann_at (infer prog) 0) eqn:E0; [|discriminate].
  apply (run_agree prog (infer prog) H fuel 0 s1 s2). rewrite E0. exact Ha.
Qed.

(* ---- instruction level ------------------------------------------------------------------------- *)
From BE Require Import Model.TableTypes Gen.Tables Model.Decode Model.Lift Model.Emu.

Definition xres_agree (r1 r2 : xres) : Prop :=
  match r1, r2 with
  | XOk t1, XOk t2 => agree [] t1 t2
  | XLiftError, XLiftError | XFault, XFault | XFuel, XFuel => True
  | _, _ => False
  end.

Theorem exec_temp_independent i b addr s1 s2 :
  instr_temps_safe i addr = true -> agree [] s1 s2 ->
  xres_agree (exec_decoded i b addr s1) (exec_decoded i b addr s2).
Proof.
  intros Hs Ha. unfold exec_decoded, instr_temps_safe in *.
  destruct (b =? 239)%N.
  - cbn [xres_agree]. repeat apply setr_agree_keep. exact Ha.
  - destruct (lift_instr i addr) as [prog|]; [|exact I].
    set (t1 := setr (setr s1 gPC _) gPC _). set (t2 := setr (setr s2 gPC _) gPC _).
    assert (Ht : agree [] t1 t2) by (subst t1 t2; repeat apply setr_agree_keep; exact Ha).
    assert (Hf : fuel_for prog t1 = fuel_for prog t2).
    { unfold fuel_for. destruct Ht as (_ & Hi & _). cbn [py_get]. rewrite Hi. reflexivity. }
    rewrite Hf. pose proof (temps_safe_sound prog Hs (fuel_for prog t2) t1 t2 Ht) as Hr.
    unfold rres_agree in Hr.
    destruct (run (fuel_for prog t2) prog 0 t1); destruct (run (fuel_for prog t2) prog 0 t2); try contradiction; exact Hr.
Qed.
