(* Proofs/ExecMvMemProofs.v -- transfers between two internal-memory operands: MV / MVW / MVP (m),(n) (1, 2, 3 bytes) with no
   prefix and with each of the 15 prefixes: the first addressing mode of the prefix applies to the destination, the second to
   the source; exactly the little-endian content of the source cell is stored into the destination cell, nothing else changes. *)
From Coq Require Import ZArith NArith List Bool Lia.
From BE Require Import Model.TableTypes Gen.Tables Model.Regs Model.Decode Model.IL Model.Lift Model.Static Model.Spec
  Model.Emu Proofs.AluProofs Proofs.ExecProofs Proofs.AccessProofs Proofs.ExecMemProofs.
Import ListNotations.
Open Scope Z_scope.

Lemma rd_place_logged s l w n m :
  rd_place (logged s l) (place_of (logged s l) (LIMem w n) m) = rd_place s (place_of s (LIMem w n) m).
Proof. destruct m; reflexivity. Qed.

Lemma mvmm_final s x y dm sm n1 n2 (w : N) j : mem_wf s -> (n1 < 256)%N -> (n2 < 256)%N -> (w = 1 \/ w = 2 \/ w = 3)%N ->
  exists s', run (2 + j) [SStore w (imem_addr dm n1) (ELoad w (imem_addr sm n2))] 0 (setr (setr s gPC x) gPC y) = RDone s' /\
             arch_eq s' (wr_place (setr s gPC y) (place_of s (LIMem w n1) dm) (rd_place s (place_of s (LIMem w n2) sm))).
Proof.
  intros Hwf Hn1 Hn2 Hw.
  set (s1 := setr (setr s gPC x) gPC y).
  assert (W1 : mem_wf s1) by (intros a; apply Hwf).
  replace (2 + j)%nat with (S (S j)) by lia. cbn [run nth_error exec_stmt].
  rewrite imem_addr_eval by assumption.
  set (sL := logged s1 (snd (imem_cell s1 dm n1))).
  assert (WL : mem_wf sL) by (intros a; apply Hwf).
  destruct (imem_operand_read sL sm n2 w WL Hn2 Hw) as (s2 & Ev & Ro). cbv zeta in Ev.
  assert (Hv : rd_place sL (place_of sL (LIMem w n2) sm) = rd_place s (place_of s (LIMem w n2) sm))
    by (unfold sL, s1; rewrite rd_place_logged, !rd_place_imem_setr; reflexivity).
  rewrite Hv in Ev.
  rewrite Ev. cbn [nth_error].
  eexists. split; [reflexivity|].
  destruct Ro as (R1 & R2 & R3 & _ & _).
  assert (Hc : imem_cell s1 dm n1 = imem_cell s dm n1) by (destruct dm; reflexivity). rewrite Hc.
  set (v := rd_place s (place_of s (LIMem w n2) sm)).
  cbn [place_of]. destruct (imem_cell s dm n1) as [a rs]. cbn [fst wr_place].
  unfold arch_eq, store. split; [|split].
  - destruct (wr_bytes_rg (N.to_nat w) s2 a v) as [H1 _].
    destruct (wr_bytes_rg (N.to_nat w) (setr s gPC y) a v) as [H2 _].
    rewrite H1, H2, R1. unfold sL, s1, logged; cbn [rg]. rewrite !setr_rg. rewrite py_set_pc_pc. reflexivity.
  - apply wr_bytes_mem_ext. intros z. rewrite R2. reflexivity.
  - destruct (wr_bytes_rg (N.to_nat w) s2 a v) as [_ H1].
    destruct (wr_bytes_rg (N.to_nat w) (setr s gPC y) a v) as [_ H2].
    rewrite H1, H2, R3. reflexivity.
Qed.

Definition mvmm_is_spec (opc w : N) : Prop :=
  forall c, In c pre_choices -> forall n1 n2, (n1 < 256)%N -> (n2 < 256)%N -> forall addr s, mem_wf s ->
  exists s' t, exec_decoded (mk_pre c opc [OIMem w n1; OIMem w n2] 3) (first_byte c opc) addr s = XOk s' /\
               spec_exec (mk_pre c opc [OIMem w n1; OIMem w n2] 3) addr s = Some t /\ arch_eq s' t.

Ltac mvmm_case w :=
  let n1 := fresh "n1" in let n2 := fresh "n2" in let H1 := fresh "H1" in let H2 := fresh "H2" in
  let addr := fresh "addr" in let s := fresh "s" in let Hwf := fresh "Hwf" in
  intros n1 n2 H1 H2 addr s Hwf;
  lift_mem;
  match goal with |- context [run (fuel_for ?p ?s1) ?p 0 ?s1] =>
    let j := fresh "j" in let Hj := fresh "Hj" in
    destruct (fuel_split p s1 2) as [j Hj]; [cbn; lia|]; rewrite Hj;
    match p with [SStore _ (imem_addr ?dm _) (ELoad _ (imem_addr ?sm _))] =>
      match s1 with setr (setr _ gPC ?x) gPC ?y =>
        let s' := fresh "s'" in let E := fresh "E" in let AE := fresh "AE" in
        destruct (mvmm_final s x y dm sm n1 n2 w j Hwf H1 H2 ltac:(auto)) as (s' & E & AE); rewrite E;
        eexists; eexists; split; [reflexivity|]; split; [spec_mem I_MV; reflexivity|];
        cbn [place_of] in AE |- *; unfold upd_place;
        destruct (imem_cell s dm n1) as [a0 rs0]; destruct (imem_cell s sm n2) as [b0 rt0]; exact AE
      end
    end
  end.

Theorem mv_imem_imem : mvmm_is_spec 200 1.
Proof. intros c Hc. cbn [In pre_choices map] in Hc. repeat (destruct Hc as [<- | Hc]; [mvmm_case 1%N|]). destruct Hc. Qed.
Theorem mvw_imem_imem : mvmm_is_spec 201 2.
Proof. intros c Hc. cbn [In pre_choices map] in Hc. repeat (destruct Hc as [<- | Hc]; [mvmm_case 2%N|]). destruct Hc. Qed.
Theorem mvp_imem_imem : mvmm_is_spec 202 3.
Proof. intros c Hc. cbn [In pre_choices map] in Hc. repeat (destruct Hc as [<- | Hc]; [mvmm_case 3%N|]). destruct Hc. Qed.

Definition imode_eqb (a b : imode) : bool :=
  match a, b with
  | IM_N, IM_N | IM_BP_N, IM_BP_N | IM_PX_N, IM_PX_N | IM_PY_N, IM_PY_N | IM_BP_PX, IM_BP_PX | IM_BP_PY, IM_BP_PY => true
  | _, _ => false
  end.

(* the modes really are "first slot for the destination, second for the source": what render_ops / the lift pair with the operands *)
Lemma mvmm_modes_are_the_prefix_table :
  forallb (fun c => match c with
                    | None => match render_ops (mk_pre None 200 [OIMem 1 5; OIMem 1 9] 3) with Some [(_, IM_BP_N); (_, IM_BP_N)] => true | _ => false end
                    | Some p => match render_ops (mk_pre (Some p) 200 [OIMem 1 5; OIMem 1 9] 4), mode_of (Some p) false, mode_of (Some p) true with
                                | Some [(_, m1); (_, m2)], Some a, Some b => imode_eqb m1 a && imode_eqb m2 b
                                | _, _, _ => false end
                    end) pre_choices = true.
Proof. vm_compute. reflexivity. Qed.

Lemma mvmm_opcodes_check :
  map (fun o => (d_cls (entry_of o), d_ops (entry_of o))) [200; 201; 202]%N =
  [(I_MV, [PIMem 1; PIMem 1]); (I_MV, [PIMem 2; PIMem 2]); (I_MV, [PIMem 3; PIMem 3])].
Proof. vm_compute. reflexivity. Qed.
