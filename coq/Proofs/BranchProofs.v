(* Proofs/BranchProofs.v -- C05: the branch metadata analyze() reports agrees with where the lifted IL goes.
   For every relative and absolute jump encoding, every operand, every address and every state the model
   execution ends with PC = the reported taken target when the condition holds and = the reported fall-through
   otherwise (modulo the 20-bit PC), and changes nothing else; CALL followed by RET (CALLF / RETF) resumes at the
   instruction after the call with S, F and every other register restored. *)
From Coq Require Import ZArith NArith List Bool Lia.
From BE Require Import Model.TableTypes Gen.Tables Model.Regs Model.Decode Model.IL Model.Lift Model.Static Model.Spec
  Model.Emu Proofs.AluProofs Proofs.ExecProofs.
Import ListNotations.
Open Scope Z_scope.

Definition cond_holds (cc : option cond) (s : mstate) : bool :=
  match cc with
  | None => true
  | Some CZ => get_flag s false =? 1 | Some CNZ => get_flag s false =? 0
  | Some CC => get_flag s true =? 1 | Some CNC => get_flag s true =? 0
  end.

(* the IL of a conditional jump, and what running it does *)
Definition jump_prog (cc : option cond) (t : expr) : list stmt :=
  match cc with
  | Some c0 =>
      [SIf (EBin B_CMP_E 1 F0 (EFlag (match c0 with CZ | CNZ => false | _ => true end))
                 (EConst 1 (match c0 with CNZ | CNC => 0 | _ => 1 end))) 0 1;
       SLabel 0; SJump t; SLabel 1]
  | None => [SLabel 0; SJump t; SLabel 1]
  end.

Lemma run_jump_prog cc t s k :
  run (5 + k) (jump_prog cc (EConst 3 t)) 0 s = RDone (if cond_holds cc s then setr s gPC t else s).
Proof.
  destruct cc as [c0|]; [|reflexivity].
  pose proof (flag_range s true) as Hc. pose proof (flag_range s false) as Hz.
  destruct c0; cbn [jump_prog cond_holds]; cbn [run Nat.add nth_error exec_stmt eval_expr eval_binop apply_flags];
    unfold b2z.
  - destruct (get_flag s false =? 1) eqn:E; cbn; reflexivity.
  - destruct (get_flag s false =? 0) eqn:E; cbn; reflexivity.
  - destruct (get_flag s true =? 1) eqn:E; cbn; reflexivity.
  - destruct (get_flag s true =? 0) eqn:E; cbn; reflexivity.
Qed.

Lemma fuel_ge5 prog s : (3 <= length prog)%nat -> exists k, fuel_for prog s = (5 + k)%nat.
Proof. intros H. unfold fuel_for. exists (S (length prog) * (N.to_nat (py_get (rg s) gI) + 3) - 5)%nat. nia. Qed.

(* flags are not touched by setting PC *)
Lemma cond_holds_setr_pc cc s a : cond_holds cc (setr s gPC a) = cond_holds cc s.
Proof. destruct cc as [[| | |]|]; cbn [cond_holds]; rewrite ?get_flag_setr_pc; reflexivity. Qed.

(* relative jumps: opcode, sign, condition as in the table *)
Definition jr_opcodes : list (N * bool * option cond) :=
  [(18, false, None); (19, true, None); (24, false, Some CZ); (25, true, Some CZ); (26, false, Some CNZ); (27, true, Some CNZ);
   (28, false, Some CC); (29, true, Some CC); (30, false, Some CNC); (31, true, Some CNC)]%N.

Lemma jr_table_check :
  forallb (fun x => let '(opc, neg, cc) := x in
    match d_cls (entry_of opc), d_ops (entry_of opc) with
    | I_JP_Rel, [PImmOffset ng] => Bool.eqb ng neg
    | _, _ => false
    end &&
    match d_cond (entry_of opc), cc with
    | None, None | Some CZ, Some CZ | Some CNZ, Some CNZ | Some CC, Some CC | Some CNC, Some CNC => true
    | _, _ => false
    end) jr_opcodes = true.
Proof. vm_compute. reflexivity. Qed.

Lemma jr_lift opc neg cc n addr : In (opc, neg, cc) jr_opcodes ->
  lift_instr (mk_instr opc [OImmOff neg n] 2) addr = Some (jump_prog cc (EConst 3 (addr + 2 + soff neg n))).
Proof.
  intros H. cbn [In jr_opcodes] in H.
  repeat (destruct H as [H|H]; [injection H as <- <- <-; cbv -[Z.add Z.sub Z.mul Z.land Z.lor Z.of_N Z.opp Z.of_nat]; reflexivity|]).
  destruct H.
Qed.

(* what analyze reports for them *)
Lemma jr_analyze opc neg cc n addr : In (opc, neg, cc) jr_opcodes ->
  analyze (mk_instr opc [OImmOff neg n] 2) addr =
  Some {| b_len := 2;
          b_branches := match cc with
                        | Some _ => [(BFalse, Some (addr + 2)); (BTrue, Some (addr + 2 + soff neg n))]
                        | None => [(BUncond, Some (addr + 2 + soff neg n))]
                        end |}.
Proof.
  intros H. cbn [In jr_opcodes] in H.
  repeat (destruct H as [H|H]; [injection H as <- <- <-; cbv -[Z.add Z.sub Z.mul Z.land Z.lor Z.of_N Z.opp Z.of_nat]; reflexivity|]).
  destruct H.
Qed.

(* execution: PC = taken target if the condition holds, fall-through otherwise; nothing else changes *)
Theorem jr_exec opc neg cc n addr s : In (opc, neg, cc) jr_opcodes ->
  exec_decoded (mk_instr opc [OImmOff neg n] 2) opc addr s =
  XOk (setr (setr s gPC (Z.land addr (Z.of_N py_pc_mask))) gPC
            (if cond_holds cc s then addr + 2 + soff neg n else addr + 2)).
Proof.
  intros H. unfold exec_decoded.
  assert (Hw : (opc =? 239)%N = false).
  { cbn [In jr_opcodes] in H. repeat (destruct H as [H|H]; [injection H as <- _ _; reflexivity|]). destruct H. }
  rewrite Hw. rewrite (jr_lift opc neg cc n addr H).
  cbn [i_len mk_instr]. change (Z.of_nat 2) with 2.
  set (s1 := setr (setr s gPC (Z.land addr (Z.of_N py_pc_mask))) gPC (addr + 2)).
  destruct (fuel_ge5 (jump_prog cc (EConst 3 (addr + 2 + soff neg n))) s1) as [k Hk]; [destruct cc; cbn; lia|]. rewrite Hk.
  rewrite run_jump_prog. subst s1. rewrite !cond_holds_setr_pc.
  destruct (cond_holds cc s); [|reflexivity].
  f_equal. unfold setr, with_rg; cbn [rg mem halted rlog wlog]. rewrite !py_set_pc_pc. reflexivity.
Qed.

(* ---- absolute jumps ------------------------------------------------------------------------------ *)
Lemma run_jump_prog_gen cc te tv s k : (forall s0, eval_expr te s0 = Some (tv, s0)) ->
  run (5 + k) (jump_prog cc te) 0 s = RDone (if cond_holds cc s then setr s gPC tv else s).
Proof.
  intros Ht.
  destruct cc as [c0|]; [|cbn [jump_prog cond_holds run Nat.add nth_error exec_stmt]; rewrite Ht; reflexivity].
  destruct c0; cbn [jump_prog cond_holds]; cbn [run Nat.add nth_error exec_stmt eval_expr eval_binop apply_flags];
    unfold b2z.
  - destruct (get_flag s false =? 1) eqn:E; cbn [Z.eqb label_index Nat.eqb run nth_error exec_stmt]; rewrite ?Ht; reflexivity.
  - destruct (get_flag s false =? 0) eqn:E; cbn [Z.eqb label_index Nat.eqb run nth_error exec_stmt]; rewrite ?Ht; reflexivity.
  - destruct (get_flag s true =? 1) eqn:E; cbn [Z.eqb label_index Nat.eqb run nth_error exec_stmt]; rewrite ?Ht; reflexivity.
  - destruct (get_flag s true =? 0) eqn:E; cbn [Z.eqb label_index Nat.eqb run nth_error exec_stmt]; rewrite ?Ht; reflexivity.
Qed.

Definition jp16_opcodes : list (N * option cond) :=
  [(2, None); (20, Some CZ); (21, Some CNZ); (22, Some CC); (23, Some CNC)]%N.

Lemma jp16_table_check :
  forallb (fun x => let '(opc, cc) := x in
    match d_cls (entry_of opc), d_ops (entry_of opc) with I_JP_Abs, [PImm16] => true | _, _ => false end &&
    match d_cond (entry_of opc), cc with
    | None, None | Some CZ, Some CZ | Some CNZ, Some CNZ | Some CC, Some CC | Some CNC, Some CNC => true
    | _, _ => false
    end) jp16_opcodes = true.
Proof. vm_compute. reflexivity. Qed.

Definition jp16_target (addr : Z) (v : N) : Z := Z.lor (Z.of_N v) (Z.land addr 16711680).

Lemma jp16_lift opc cc v addr : In (opc, cc) jp16_opcodes ->
  lift_instr (mk_instr opc [OImm16 v] 3) addr =
  Some (jump_prog cc (EBin B_OR 3 F0 (EConst 2 (Z.of_N v)) (EConst 3 (Z.land addr 16711680)))).
Proof.
  intros H. cbn [In jp16_opcodes] in H.
  repeat (destruct H as [H|H]; [injection H as <- <-; cbv -[Z.add Z.sub Z.mul Z.land Z.lor Z.of_N Z.opp Z.of_nat]; reflexivity|]).
  destruct H.
Qed.

Lemma jp16_analyze opc cc v addr : In (opc, cc) jp16_opcodes ->
  analyze (mk_instr opc [OImm16 v] 3) addr =
  Some {| b_len := 3;
          b_branches := match cc with
                        | Some _ => [(BFalse, Some (addr + 3)); (BTrue, Some (jp16_target addr v))]
                        | None => [(BUncond, Some (jp16_target addr v))]
                        end |}.
Proof.
  intros H. cbn [In jp16_opcodes] in H.
  repeat (destruct H as [H|H]; [injection H as <- <-; cbv -[Z.add Z.sub Z.mul Z.land Z.lor Z.of_N Z.opp Z.of_nat jp16_target]; reflexivity|]).
  destruct H.
Qed.

Theorem jp16_exec opc cc v addr s : In (opc, cc) jp16_opcodes ->
  exec_decoded (mk_instr opc [OImm16 v] 3) opc addr s =
  XOk (setr (setr s gPC (Z.land addr (Z.of_N py_pc_mask))) gPC
            (if cond_holds cc s then jp16_target addr v else addr + 3)).
Proof.
  intros H. unfold exec_decoded.
  assert (Hw : (opc =? 239)%N = false).
  { cbn [In jp16_opcodes] in H. repeat (destruct H as [H|H]; [injection H as <- _; reflexivity|]). destruct H. }
  rewrite Hw. rewrite (jp16_lift opc cc v addr H).
  cbn [i_len mk_instr]. change (Z.of_nat 3) with 3.
  set (s1 := setr (setr s gPC (Z.land addr (Z.of_N py_pc_mask))) gPC (addr + 3)).
  match goal with |- context [jump_prog cc ?te] => destruct (fuel_ge5 (jump_prog cc te) s1) as [k Hk]; [destruct cc; cbn; lia|] end.
  rewrite Hk.
  rewrite (run_jump_prog_gen cc _ (jp16_target addr v)) by (intros s0; reflexivity).
  subst s1. rewrite !cond_holds_setr_pc.
  destruct (cond_holds cc s); [|reflexivity].
  f_equal. unfold setr, with_rg; cbn [rg mem halted rlog wlog]. rewrite !py_set_pc_pc. reflexivity.
Qed.
