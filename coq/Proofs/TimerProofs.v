(* Proofs about Model/Timer.v (property C13). *)
From Coq Require Import ZArith NArith List Bool Lia ZifyBool ZifyN ZifyNat.
From BE Require Import Model.Timer.
Import ListNotations.
Open Scope N_scope.

Lemma to_nat_step : forall q f, (N.to_nat (q + 1) < S f)%nat -> (N.to_nat q < f)%nat.
Proof. intros. lia. Qed.

Ltac Zify.zify_post_hook ::= Z.to_euclidean_division_equations.

(* closed form of the while loop *)
Definition adv_closed (c p nxt : N) : N := nxt + ((c - nxt) / p + 1) * p.

Lemma py_adv_loop_closed : forall fuel c p nxt,
  0 < p -> nxt <= c -> (N.to_nat ((c - nxt) / p) < fuel)%nat ->
  py_adv_loop fuel c p nxt = Some (adv_closed c p nxt).
Proof.
  induction fuel as [|f IH]; intros c p nxt Hp Hle Hf; [exfalso; exact (Nat.nlt_0_r _ Hf)|].
  cbn [py_adv_loop].
  destruct (c <? nxt) eqn:E; [lia|].
  destruct (N.ltb_spec c (nxt + p)) as [Hlt|Hge].
  - (* one more step and the loop stops *)
    destruct f as [|f']; cbn [py_adv_loop];
      (destruct (c <? nxt + p) eqn:E2; [|lia]);
      unfold adv_closed; f_equal;
      assert ((c - nxt) / p = 0) as -> by nia; lia.
  - assert (Hd : (c - nxt) / p = (c - (nxt + p)) / p + 1) by nia.
    assert (Hf' : (N.to_nat ((c - (nxt + p)) / p) < f)%nat).
    { apply to_nat_step. rewrite <- Hd. exact Hf. }
    rewrite (IH c p (nxt + p) Hp Hge Hf').
    unfold adv_closed. f_equal. rewrite Hd. lia.
Qed.

Lemma to_nat_succ_lt : forall x, (N.to_nat x < S (N.to_nat x))%nat.
Proof. intros; lia. Qed.

Lemma py_adv1_closed : forall c p nxt,
  py_adv1 c p nxt =
  Some (if (nxt <=? c) && (0 <? p) then (adv_closed c p nxt, true) else (nxt, false)).
Proof.
  intros c p nxt. unfold py_adv1.
  destruct ((nxt <=? c) && (0 <? p)) eqn:E; [|reflexivity].
  apply andb_true_iff in E. destruct E as [E1 E2].
  rewrite py_adv_loop_closed; [reflexivity|lia|lia|].
  unfold adv_fuel. apply to_nat_succ_lt.
Qed.

(* the Rust loop with wrapping_add coincides with the Python loop when c + p does not wrap *)
Lemma rs_adv_loop_eq : forall fuel c p nxt,
  c + p < two64 -> nxt <= c + p ->
  rs_adv_loop fuel c p nxt = py_adv_loop fuel c p nxt.
Proof.
  induction fuel as [|f IH]; intros c p nxt Hb Hn; cbn [rs_adv_loop py_adv_loop].
  - reflexivity.
  - destruct (c <? nxt) eqn:E; [reflexivity|].
    assert (Hw : wadd nxt p = nxt + p).
    { unfold wadd. apply N.mod_small. lia. }
    rewrite Hw. apply IH; lia.
Qed.

Lemma rs_adv1_eq_py : forall c p nxt,
  c + p < two64 -> rs_adv1 c p nxt = py_adv1 c p nxt.
Proof.
  intros c p nxt Hb. unfold rs_adv1, py_adv1.
  rewrite (andb_comm (0 <? p)).
  destruct ((nxt <=? c) && (0 <? p)) eqn:E; [|reflexivity].
  apply andb_true_iff in E. destruct E as [E1 E2].
  rewrite rs_adv_loop_eq by lia. reflexivity.
Qed.

(* --- single-timer facts ---------------------------------------------------------------- *)

Lemma adv1_future : forall c p nxt n f,
  py_adv1 c p nxt = Some (n, f) -> 0 < p -> c < n.
Proof.
  intros c p nxt n f H Hp. rewrite py_adv1_closed in H.
  destruct ((nxt <=? c) && (0 <? p)) eqn:E; inversion H; subst; clear H.
  - unfold adv_closed. nia.
  - apply andb_false_iff in E. lia.
Qed.

Lemma adv1_phase : forall c p nxt n f,
  py_adv1 c p nxt = Some (n, f) -> exists k, n = nxt + k * p.
Proof.
  intros c p nxt n f H. rewrite py_adv1_closed in H.
  destruct ((nxt <=? c) && (0 <? p)); inversion H; subst.
  - exists ((c - nxt) / p + 1). reflexivity.
  - exists 0. lia.
Qed.

Lemma adv1_fires_iff : forall c p nxt n f,
  py_adv1 c p nxt = Some (n, f) -> (f = true <-> 0 < p /\ nxt <= c).
Proof.
  intros c p nxt n f H. rewrite py_adv1_closed in H.
  destruct ((nxt <=? c) && (0 <? p)) eqn:E; inversion H; subst.
  - apply andb_true_iff in E. split; intros; [lia|reflexivity].
  - apply andb_false_iff in E. split; intros; [discriminate|lia].
Qed.

(* when it fires, the new target is the least nxt + k*p beyond c *)
Lemma adv1_least : forall c p nxt n,
  py_adv1 c p nxt = Some (n, true) -> n <= c + p.
Proof.
  intros c p nxt n H. rewrite py_adv1_closed in H.
  destruct ((nxt <=? c) && (0 <? p)) eqn:E; inversion H; subst.
  apply andb_true_iff in E. unfold adv_closed. nia.
Qed.

Lemma adv1_nofire_same : forall c p nxt n,
  py_adv1 c p nxt = Some (n, false) -> n = nxt.
Proof.
  intros c p nxt n H. rewrite py_adv1_closed in H.
  destruct ((nxt <=? c) && (0 <? p)); inversion H; subst; reflexivity.
Qed.

Lemma adv1_total : forall c p nxt, exists n f, py_adv1 c p nxt = Some (n, f).
Proof.
  intros. rewrite py_adv1_closed. destruct ((nxt <=? c) && (0 <? p)); eauto.
Qed.

(* --- ticking every cycle: exactly once per period boundary ------------------------------ *)

(* tick at cycles c0+1, c0+2, ..., c0+n; returns the fired flag per cycle and the last target *)
Fixpoint every_cycle (n : nat) (c0 p nxt : N) : option (list bool * N) :=
  match n with
  | O => Some ([], nxt)
  | S m =>
      match py_adv1 (c0 + 1) p nxt with
      | Some (nxt', f) =>
          match every_cycle m (c0 + 1) p nxt' with
          | Some (l, last) => Some (f :: l, last)
          | None => None
          end
      | None => None
      end
  end.

Definition is_boundary (nxt p c : N) : Prop := exists k, c = nxt + k * p.

Lemma boundary_step : forall nxt p c, 0 < p -> c < nxt + p -> nxt <= c ->
  is_boundary nxt p c -> c = nxt.
Proof.
  intros nxt p c Hp Hlt Hle [k Hk]. destruct (N.eq_dec k 0); [subst; lia|nia].
Qed.

Theorem every_cycle_exact : forall n c0 p nxt l last,
  0 < p -> c0 < nxt ->
  every_cycle n c0 p nxt = Some (l, last) ->
  length l = n /\
  c0 + N.of_nat n < last /\
  (exists k, last = nxt + k * p) /\
  forall i, (i < n)%nat ->
    (nth i l false = true <-> is_boundary nxt p (c0 + 1 + N.of_nat i)).
Proof.
  induction n as [|m IH]; intros c0 p nxt l last Hp Hlt H.
  - cbn in H. inversion H; subst.
    split; [reflexivity|]. split; [cbn; lia|]. split; [exists 0; lia|].
    intros i Hi. exfalso. exact (Nat.nlt_0_r _ Hi).
  - cbn [every_cycle] in H.
    destruct (py_adv1 (c0 + 1) p nxt) as [[nxt' f]|] eqn:E1; [|discriminate].
    destruct (every_cycle m (c0 + 1) p nxt') as [[l' last']|] eqn:E2; [|discriminate].
    inversion H; subst; clear H.
    pose proof (adv1_future _ _ _ _ _ E1 Hp) as Hfut.
    pose proof (adv1_fires_iff _ _ _ _ _ E1) as Hiff.
    destruct (IH _ _ _ _ _ Hp Hfut E2) as (Hlen & Hlast & [k Hk] & Hnth).
    (* relation between nxt' and nxt *)
    assert (Hrel : (f = true /\ nxt = c0 + 1 /\ nxt' = nxt + p) \/ (f = false /\ nxt' = nxt /\ c0 + 1 < nxt)).
    { destruct f.
      - left. destruct Hiff as [Hi _]. specialize (Hi eq_refl).
        pose proof (adv1_least _ _ _ _ E1) as Hl.
        destruct (adv1_phase _ _ _ _ _ E1) as [k1 Hk1].
        destruct Hi as [_ Hi].
        assert (Hn : nxt = c0 + 1) by lia.
        split; [reflexivity|]. split; [exact Hn|].
        assert (Hk1' : k1 = 1).
        { destruct (N.eq_dec k1 0) as [Hz|Hz]; [subst k1; lia|].
          destruct (N.eq_dec k1 1) as [Ho|Ho]; [exact Ho|].
          exfalso. assert (2 <= k1) by lia. nia. }
        subst k1. lia.
      - right. pose proof (adv1_nofire_same _ _ _ _ E1). subst nxt'.
        repeat split; try reflexivity.
        destruct (N.le_gt_cases nxt (c0 + 1)) as [Hc|Hc]; [|lia].
        destruct Hiff as [_ Hi]. assert (false = true) by (apply Hi; lia). discriminate. }
    split; [cbn; lia|]. split; [lia|]. split.
    { destruct Hrel as [(_ & _ & Hn)|(_ & Hn & _)]; subst nxt'.
      - exists (k + 1). lia.
      - exists k. lia. }
    intros i Hi. destruct i as [|j].
    + cbn [nth]. replace (c0 + 1 + N.of_nat 0) with (c0 + 1) by lia.
      destruct Hrel as [(Hf & Hn & _)|(Hf & _ & Hc)]; subst f.
      * split; intros; [exists 0; lia|reflexivity].
      * split; intros Hx; [discriminate|]. destruct Hx as [kk Hkk]. nia.
    + cbn [nth]. assert (Hj : (j < m)%nat) by lia.
      specialize (Hnth j Hj).
      replace (c0 + 1 + N.of_nat (S j)) with (c0 + 1 + 1 + N.of_nat j) by lia.
      rewrite Hnth.
      destruct Hrel as [(_ & Hn & Hn')|(_ & Hn' & Hc)]; subst nxt'.
      * (* boundaries of nxt+p beyond c0+1 are the boundaries of nxt beyond c0+1 *)
        unfold is_boundary. split; intros [kk Hkk].
        -- exists (kk + 1). lia.
        -- destruct (N.eq_dec kk 0) as [->|Hne]; [lia|]. exists (kk - 1). nia.
      * reflexivity.
Qed.

Lemma every_cycle_total : forall n c0 p nxt, exists l last, every_cycle n c0 p nxt = Some (l, last).
Proof.
  induction n as [|m IH]; intros; cbn [every_cycle]; eauto.
  destruct (adv1_total (c0 + 1) p nxt) as (n' & f & ->).
  destruct (IH (c0 + 1) p n') as (l & last & ->). eauto.
Qed.

(* number of firings = number of boundaries crossed *)
Fixpoint count_true (l : list bool) : N :=
  match l with [] => 0 | b :: r => (if b then 1 else 0) + count_true r end.

Definition boundaries_in (c0 c1 nxt p : N) : N :=
  if c1 <? nxt then 0 else (c1 - nxt) / p + 1.

Theorem every_cycle_count : forall n c0 p nxt l last,
  0 < p -> c0 < nxt ->
  every_cycle n c0 p nxt = Some (l, last) ->
  count_true l = boundaries_in c0 (c0 + N.of_nat n) nxt p.
Proof.
  induction n as [|m IH]; intros c0 p nxt l last Hp Hlt H.
  - cbn in H. injection H as Hl Hlast. subst l last. unfold boundaries_in. cbn [count_true N.of_nat].
    destruct (c0 + 0 <? nxt) eqn:E; lia.
  - cbn [every_cycle] in H.
    destruct (py_adv1 (c0 + 1) p nxt) as [[nxt' f]|] eqn:E1; [|discriminate].
    destruct (every_cycle m (c0 + 1) p nxt') as [[l' last']|] eqn:E2; [|discriminate].
    inversion H; subst; clear H.
    pose proof (adv1_future _ _ _ _ _ E1 Hp) as Hfut.
    rewrite py_adv1_closed in E1.
    cbn [count_true]. rewrite (IH _ _ _ _ _ Hp Hfut E2).
    replace (c0 + N.of_nat (S m)) with (c0 + 1 + N.of_nat m) by lia.
    unfold boundaries_in.
    destruct ((nxt <=? c0 + 1) && (0 <? p)) eqn:E; injection E1 as Hn' Hf'; subst nxt' f.
    + apply andb_true_iff in E. assert (Hn : nxt = c0 + 1) by lia. subst nxt.
      unfold adv_closed. replace (c0 + 1 - (c0 + 1)) with 0 by lia.
      rewrite N.div_0_l by lia.
      destruct (c0 + 1 + N.of_nat m <? c0 + 1 + (0 + 1) * p) eqn:E3;
      destruct (c0 + 1 + N.of_nat m <? c0 + 1) eqn:E4; try lia; nia.
    + apply andb_false_iff in E.
      destruct (c0 + 1 + N.of_nat m <? nxt) eqn:E3; lia.
Qed.

(* --- whole scheduler ---------------------------------------------------------------------- *)

Lemma py_advance_total : forall t c, exists t' fm fs, py_advance t c = Some (t', fm, fs).
Proof.
  intros t c. unfold py_advance. destruct (negb (py_en t)); [eauto|].
  destruct (adv1_total c (py_pm t) (py_nm t)) as (n1 & f1 & ->).
  destruct (adv1_total c (py_ps t) (py_ns t)) as (n2 & f2 & ->). eauto.
Qed.

Theorem py_tick_future : forall t c t' fm fs,
  py_advance t c = Some (t', fm, fs) -> py_en t = true ->
  (0 < py_pm t -> c < py_nm t') /\ (0 < py_ps t -> c < py_ns t').
Proof.
  intros t c t' fm fs H Hen. unfold py_advance in H. rewrite Hen in H. cbn [negb] in H.
  destruct (py_adv1 c (py_pm t) (py_nm t)) as [[n1 f1]|] eqn:E1; [|discriminate].
  destruct (py_adv1 c (py_ps t) (py_ns t)) as [[n2 f2]|] eqn:E2; [|discriminate].
  inversion H; subst; cbn. split; intros; eapply adv1_future; eauto.
Qed.

Theorem py_tick_phase : forall t c t' fm fs,
  py_advance t c = Some (t', fm, fs) ->
  (exists k, py_nm t' = py_nm t + k * py_pm t) /\ (exists k, py_ns t' = py_ns t + k * py_ps t) /\
  py_pm t' = py_pm t /\ py_ps t' = py_ps t /\ py_en t' = py_en t.
Proof.
  intros t c t' fm fs H. unfold py_advance in H. destruct (negb (py_en t)).
  - inversion H; subst. repeat split; try (exists 0; lia).
  - destruct (py_adv1 c (py_pm t) (py_nm t)) as [[n1 f1]|] eqn:E1; [|discriminate].
    destruct (py_adv1 c (py_ps t) (py_ns t)) as [[n2 f2]|] eqn:E2; [|discriminate].
    inversion H; subst; cbn. repeat split; eapply adv1_phase; eauto.
Qed.

Theorem py_fires_iff_crossed : forall t c t' fm fs,
  py_advance t c = Some (t', fm, fs) ->
  (fm = true <-> py_en t = true /\ 0 < py_pm t /\ py_nm t <= c) /\
  (fs = true <-> py_en t = true /\ 0 < py_ps t /\ py_ns t <= c).
Proof.
  intros t c t' fm fs H. unfold py_advance in H. destruct (py_en t) eqn:Hen; cbn [negb] in H.
  - destruct (py_adv1 c (py_pm t) (py_nm t)) as [[n1 f1]|] eqn:E1; [|discriminate].
    destruct (py_adv1 c (py_ps t) (py_ns t)) as [[n2 f2]|] eqn:E2; [|discriminate].
    inversion H; subst.
    pose proof (adv1_fires_iff _ _ _ _ _ E1). pose proof (adv1_fires_iff _ _ _ _ _ E2). tauto.
  - inversion H; subst. split; split; intros; try discriminate; destruct H0; discriminate.
Qed.

Theorem py_disabled_or_zero_never : forall t c t' fm fs,
  py_advance t c = Some (t', fm, fs) ->
  (py_en t = false -> fm = false /\ fs = false) /\
  (py_pm t = 0 -> fm = false) /\ (py_ps t = 0 -> fs = false).
Proof.
  intros t c t' fm fs H. destruct (py_fires_iff_crossed _ _ _ _ _ H) as [Hm Hs].
  split; [|split].
  - intros Hx. split.
    + destruct fm; [|reflexivity]. destruct Hm as [Hm _]. specialize (Hm eq_refl). rewrite Hx in Hm. destruct Hm; discriminate.
    + destruct fs; [|reflexivity]. destruct Hs as [Hs _]. specialize (Hs eq_refl). rewrite Hx in Hs. destruct Hs; discriminate.
  - intros Hx. destruct fm; [|reflexivity]. destruct Hm as [Hm _]. specialize (Hm eq_refl). lia.
  - intros Hx. destruct fs; [|reflexivity]. destruct Hs as [Hs _]. specialize (Hs eq_refl). lia.
Qed.

(* firing sets the status bit *)
Lemma small_bit_high : forall (v i : N), v < 4 -> 2 <= i -> N.testbit v i = false.
Proof.
  intros v i Hv Hi. apply N.bits_above_log2.
  destruct (N.eq_dec v 0) as [->|Hz]; [cbn; lia|].
  assert (N.log2 v < 2); [|lia].
  apply N.log2_lt_pow2; [lia|]. cbn. lia.
Qed.

Lemma isr_after_bit0 : forall isr fs, N.testbit (isr_after isr true fs) 0 = true.
Proof. intros. unfold isr_after. rewrite !N.lor_spec. cbn [N.testbit]. destruct fs; cbn; rewrite ?orb_true_r; reflexivity. Qed.

Lemma isr_after_bit1 : forall isr fm, N.testbit (isr_after isr fm true) 1 = true.
Proof. intros. unfold isr_after. rewrite !N.lor_spec. cbn. rewrite ?orb_true_r. reflexivity. Qed.

Lemma isr_after_high : forall isr fm fs i, 2 <= i ->
  N.testbit (isr_after isr fm fs) i = N.testbit isr i.
Proof.
  intros. unfold isr_after. rewrite !N.lor_spec.
  rewrite (small_bit_high (if fm then 1 else 0)) by (destruct fm; lia).
  rewrite (small_bit_high (if fs then 2 else 0)) by (destruct fs; lia).
  rewrite !orb_false_r. reflexivity.
Qed.

Lemma isr_after_keep0 : forall isr fs, N.testbit (isr_after isr false fs) 0 = N.testbit isr 0.
Proof. intros. unfold isr_after. rewrite !N.lor_spec. destruct fs; cbn; rewrite ?orb_false_r; reflexivity. Qed.

Lemma isr_after_keep1 : forall isr fm, N.testbit (isr_after isr fm false) 1 = N.testbit isr 1.
Proof. intros. unfold isr_after. rewrite !N.lor_spec. destruct fm; cbn; rewrite ?orb_false_r; reflexivity. Qed.

Lemma isr_after_bits : forall isr fm fs,
  (fm = true -> N.testbit (isr_after isr fm fs) 0 = true) /\
  (fs = true -> N.testbit (isr_after isr fm fs) 1 = true) /\
  (forall i, 2 <= i -> N.testbit (isr_after isr fm fs) i = N.testbit isr i) /\
  (fm = false -> N.testbit (isr_after isr fm fs) 0 = N.testbit isr 0) /\
  (fs = false -> N.testbit (isr_after isr fm fs) 1 = N.testbit isr 1).
Proof.
  intros isr fm fs.
  split; [intros ->; apply isr_after_bit0|].
  split; [intros ->; apply isr_after_bit1|].
  split; [intros i Hi; apply isr_after_high; exact Hi|].
  split; [intros ->; apply isr_after_keep0|intros ->; apply isr_after_keep1].
Qed.

(* --- Rust = Python ------------------------------------------------------------------------- *)

Definition bound63 : N := 9223372036854775808.

Definition op_ok (o : top) : bool :=
  match o with
  | TTick c => c <? bound63
  | TReset c => c <? bound63
  | TSetNext a b => (a <? bound63) && (b <? bound63)
  end.

(* simulation relation: enabled timers with non-zero period carry the same target *)
Definition trel (p : pytimer) (isr : N) (r : rstimer) : Prop :=
  py_en p = rs_en r /\ py_pm p = rs_pm r /\ py_ps p = rs_ps r /\ isr = rs_isr r /\
  py_pm p < bound63 /\ py_ps p < bound63 /\
  (py_en p = true -> 0 < py_pm p -> py_nm p = rs_nm r) /\
  (py_en p = true -> 0 < py_ps p -> py_ns p = rs_ns r).

Definition firing (o : tobs) : bool * bool * N :=
  match o with (fm, fs, _, _, isr) => (fm, fs, isr) end.

Lemma bound_sum : forall a b, a < bound63 -> b < bound63 -> a + b < two64.
Proof. unfold bound63, two64. intros. lia. Qed.

Lemma adv1_zero : forall c nxt, py_adv1 c 0 nxt = Some (nxt, false).
Proof. intros. rewrite py_adv1_closed. rewrite andb_false_r. reflexivity. Qed.

Lemma rs_adv1_zero : forall c nxt, rs_adv1 c 0 nxt = Some (nxt, false).
Proof. intros. unfold rs_adv1. cbn. reflexivity. Qed.

Lemma isr_after_ff : forall isr, isr_after isr false false = isr.
Proof. intros. unfold isr_after. rewrite !N.lor_0_r. reflexivity. Qed.

Lemma tick_rel : forall p isr r c,
  trel p isr r -> c < bound63 ->
  exists p' r' fm fs,
    py_advance p c = Some (p', fm, fs) /\ rs_tick r c = Some (r', fm, fs) /\
    trel p' (isr_after isr fm fs) r'.
Proof.
  intros p isr r c (Hen & Hpm & Hps & Hisr & Bm & Bs & Hnm & Hns) Hc.
  unfold py_advance, rs_tick. rewrite <- Hen.
  destruct (py_en p) eqn:En; cbn [negb].
  - rewrite <- Hpm, <- Hps.
    (* main timer *)
    assert (Hm : exists n1 f1, py_adv1 c (py_pm p) (py_nm p) = Some (n1, f1) /\
                 rs_adv1 c (py_pm p) (rs_nm r) = Some (if 0 <? py_pm p then n1 else rs_nm r, f1)).
    { destruct (N.eq_dec (py_pm p) 0) as [Hz|Hz].
      - rewrite Hz, adv1_zero, rs_adv1_zero. eauto.
      - assert (0 < py_pm p) by lia. rewrite <- Hnm by (auto; lia).
        rewrite rs_adv1_eq_py by (apply bound_sum; assumption).
        destruct (adv1_total c (py_pm p) (py_nm p)) as (n1 & f1 & E). rewrite E.
        exists n1, f1. split; [reflexivity|]. destruct (0 <? py_pm p) eqn:Z; [reflexivity|lia]. }
    assert (Hs : exists n2 f2, py_adv1 c (py_ps p) (py_ns p) = Some (n2, f2) /\
                 rs_adv1 c (py_ps p) (rs_ns r) = Some (if 0 <? py_ps p then n2 else rs_ns r, f2)).
    { destruct (N.eq_dec (py_ps p) 0) as [Hz|Hz].
      - rewrite Hz, adv1_zero, rs_adv1_zero. eauto.
      - assert (0 < py_ps p) by lia. rewrite <- Hns by (auto; lia).
        rewrite rs_adv1_eq_py by (apply bound_sum; assumption).
        destruct (adv1_total c (py_ps p) (py_ns p)) as (n2 & f2 & E). rewrite E.
        exists n2, f2. split; [reflexivity|]. destruct (0 <? py_ps p) eqn:Z; [reflexivity|lia]. }
    destruct Hm as (n1 & f1 & E1 & R1). destruct Hs as (n2 & f2 & E2 & R2).
    rewrite E1, E2, R1, R2.
    eexists _, _, f1, f2. split; [reflexivity|]. split; [reflexivity|].
    unfold trel; cbn. rewrite <- Hisr.
    repeat split; try assumption; try reflexivity; intros _ Hpos.
    + destruct (0 <? py_pm p) eqn:Z; [reflexivity|lia].
    + destruct (0 <? py_ps p) eqn:Z; [reflexivity|lia].
  - exists p, r, false, false.
    split; [reflexivity|]. split; [reflexivity|].
    rewrite isr_after_ff. unfold trel. rewrite En.
    repeat split; try assumption; intros; discriminate.
Qed.

Lemma reset_rel : forall p isr r c,
  trel p isr r -> c < bound63 -> trel (py_reset p c) isr (rs_reset r c).
Proof.
  intros p isr r c (Hen & Hpm & Hps & Hisr & Bm & Bs & Hnm & Hns) Hc.
  unfold trel, py_reset, rs_reset; cbn. rewrite <- Hen, <- Hpm, <- Hps.
  repeat split; try assumption; intros E Hp; rewrite E; cbn [andb].
  - destruct (0 <? py_pm p) eqn:Z; [|lia]. unfold wadd. rewrite N.mod_small; [reflexivity|]. apply bound_sum; assumption.
  - destruct (0 <? py_ps p) eqn:Z; [|lia]. unfold wadd. rewrite N.mod_small; [reflexivity|]. apply bound_sum; assumption.
Qed.

Theorem py_rs_same_firing_gen : forall ops p isr r,
  trel p isr r -> forallb op_ok ops = true ->
  exists lp lr, py_run p isr ops = Some lp /\ rs_run r ops = Some lr /\ map firing lp = map firing lr.
Proof.
  induction ops as [|o ops IH]; intros p isr r Hrel Hok.
  - exists [], []. repeat split; reflexivity.
  - cbn [forallb] in Hok. apply andb_true_iff in Hok. destruct Hok as [Ho Hok].
    destruct o as [c|c|a b]; cbn [op_ok] in Ho.
    + assert (Hc : c < bound63) by lia.
      destruct (tick_rel _ _ _ _ Hrel Hc) as (p' & r' & fm & fs & E1 & E2 & Hrel').
      destruct (IH _ _ _ Hrel' Hok) as (lp & lr & L1 & L2 & L3).
      cbn [py_run rs_run]. rewrite E1, E2, L1, L2.
      eexists _, _. split; [reflexivity|]. split; [reflexivity|].
      cbn [map firing]. rewrite L3. destruct Hrel' as (_ & _ & _ & Hi & _). rewrite Hi. reflexivity.
    + assert (Hc : c < bound63) by lia.
      pose proof (reset_rel _ _ _ _ Hrel Hc) as Hrel'.
      destruct (IH _ _ _ Hrel' Hok) as (lp & lr & L1 & L2 & L3).
      cbn [py_run rs_run]. rewrite L1, L2.
      eexists _, _. split; [reflexivity|]. split; [reflexivity|].
      cbn [map firing]. rewrite L3. destruct Hrel' as (_ & _ & _ & Hi & _). rewrite Hi. reflexivity.
    + destruct Hrel as (Hen & Hpm & Hps & Hisr & Bm & Bs & Hnm & Hns).
      set (p' := {| py_en := py_en p; py_pm := py_pm p; py_ps := py_ps p; py_nm := a; py_ns := b |}).
      set (r' := {| rs_en := rs_en r; rs_pm := rs_pm r; rs_ps := rs_ps r; rs_nm := a; rs_ns := b; rs_isr := rs_isr r |}).
      assert (Hrel' : trel p' isr r').
      { unfold trel, p', r'; cbn. repeat split; auto. }
      destruct (IH _ _ _ Hrel' Hok) as (lp & lr & L1 & L2 & L3).
      cbn [py_run rs_run]. fold p'. fold r'. rewrite L1, L2.
      eexists _, _. split; [reflexivity|]. split; [reflexivity|].
      cbn [map firing]. rewrite L3, Hisr. reflexivity.
Qed.

Lemma init_rel : forall en pm ps isr, pm < bound63 -> ps < bound63 ->
  trel (py_init en pm ps) isr (rs_init en pm ps isr).
Proof.
  intros. unfold trel, py_init, rs_init, rs_reset; cbn.
  repeat split; try assumption; intros E Hp; subst en; cbn [andb].
  - destruct (0 <? pm) eqn:Z; [|lia]. unfold wadd. cbn. rewrite N.mod_small; [reflexivity|]. unfold two64, bound63 in *; lia.
  - destruct (0 <? ps) eqn:Z; [|lia]. unfold wadd. cbn. rewrite N.mod_small; [reflexivity|]. unfold two64, bound63 in *; lia.
Qed.
