(* Proofs/IrqProofs.v -- C12: the interrupt frame and its inverse.  Delivering an interrupt (Model/Irq.v) and then
   executing the IL of RETI restores the interrupted program's PC, S, F, IMR and registers; memory changes only in
   the five frame bytes. *)
From Coq Require Import ZArith NArith List Bool Lia.
From BE Require Import Model.TableTypes Gen.Tables Model.Regs Model.Decode Model.IL Model.Lift Model.Static Model.Spec
  Model.Emu Model.Irq Proofs.AluProofs Proofs.ExecProofs Proofs.AccessProofs.
Import ListNotations.
Open Scope Z_scope.

Definition regs_wf (p : pyregs) : Prop :=
  (y_ba p < p16 /\ y_i p < p16 /\ y_x p < p20 /\ y_y p < p20 /\ y_u p < p20 /\ y_s p < p20 /\ y_pc p < p20 /\ y_f p < p8)%N /\
  length (y_t p) = NTEMP.

Definition wf_state (s : mstate) : Prop := regs_wf (rg s) /\ mem_wf s.

(* ---- the gate -------------------------------------------------------------------------------- *)
Lemma land15_bit v : Z.land v 15 <> 0 -> exists b, 0 <= b < 4 /\ Z.testbit v b = true.
Proof.
  intros H.
  destruct (Z.testbit v 0) eqn:E0; [exists 0; split; [lia|exact E0]|].
  destruct (Z.testbit v 1) eqn:E1; [exists 1; split; [lia|exact E1]|].
  destruct (Z.testbit v 2) eqn:E2; [exists 2; split; [lia|exact E2]|].
  destruct (Z.testbit v 3) eqn:E3; [exists 3; split; [lia|exact E3]|].
  exfalso. apply H. apply Z.bits_inj'. intros n Hn. rewrite Z.land_spec, Z.bits_0.
  destruct (Z.lt_ge_cases n 4) as [Hlt|Hge].
  - assert (Hc : n = 0 \/ n = 1 \/ n = 2 \/ n = 3) by lia.
    destruct Hc as [ -> | [ -> | [ -> | -> ] ] ]; rewrite ?E0, ?E1, ?E2, ?E3; reflexivity.
  - change 15 with (Z.ones 4). rewrite Z.ones_spec_high by lia. apply andb_false_r.
Qed.

Lemma gate_needs_all_three : forall imr isr,
  irq_gate imr isr = true ->
  Z.testbit imr 7 = true /\ exists b, 0 <= b < 4 /\ Z.testbit imr b = true /\ Z.testbit isr b = true.
Proof.
  intros imr isr H. unfold irq_gate in H. apply andb_prop in H. destruct H as [H7 Hm].
  split; [exact H7|].
  apply negb_true_iff in Hm. apply Z.eqb_neq in Hm.
  destruct (land15_bit _ Hm) as [b [Hb Ht]]. exists b. split; [exact Hb|].
  rewrite Z.land_spec in Ht. apply andb_prop in Ht. exact Ht.
Qed.

(* ---- registers --------------------------------------------------------------------------------- *)
Lemma norm20 v : 0 <= v < 1048576 -> (Z.to_N (v mod 4294967296) mod p20)%N = Z.to_N v.
Proof. intros H. rewrite Z.mod_small by lia. apply N.mod_small. unfold p20. lia. Qed.

Lemma getr_S_range s : regs_wf (rg s) -> 0 <= getr s gS < 1048576.
Proof.
  intros [(_ & _ & _ & _ & _ & Hs & _) _]. unfold getr. cbn [py_get].
  rewrite N.mod_small by exact Hs. unfold p20 in Hs. lia.
Qed.

Lemma getr_PC_range s : 0 <= getr s gPC < 1048576.
Proof.
  unfold getr. cbn [py_get]. pose proof (N.mod_upper_bound (y_pc (rg s)) p20 ltac:(discriminate)) as H.
  revert H. generalize (y_pc (rg s) mod p20)%N. unfold p20. intros; lia.
Qed.

Lemma getr_F_range s : regs_wf (rg s) -> 0 <= getr s gF < 256.
Proof. intros [(_ & _ & _ & _ & _ & _ & _ & Hf) _]. unfold getr. cbn [py_get]. unfold p8 in Hf. lia. Qed.

Lemma getr_setr_S s v : 0 <= v < 1048576 -> getr (setr s gS v) gS = v.
Proof.
  intros H. unfold getr, setr, with_rg. cbn [rg]. destruct (rg s) as [ba i x y u sp pc f t]. cbn [py_set py_get y_s].
  rewrite norm20 by exact H. rewrite N.mod_small by (unfold p20; lia). lia.
Qed.

Lemma getr_setr_PC s v : 0 <= v < 1048576 -> getr (setr s gPC v) gPC = v.
Proof.
  intros H. unfold getr, setr, with_rg. cbn [rg]. destruct (rg s) as [ba i x y u sp pc f t]. cbn [py_set py_get y_pc].
  rewrite norm20 by exact H. rewrite N.mod_small by (unfold p20; lia). lia.
Qed.

(* setting S / PC leaves every other register alone *)
Lemma getr_setr_S_other s v r : r <> gS -> getr (setr s gS v) r = getr s r.
Proof. intros H. unfold getr, setr, with_rg. cbn [rg]. destruct (rg s) as [ba i x y u sp pc f t]; destruct r; try reflexivity. congruence. Qed.

Lemma getr_setr_PC_other s v r : r <> gPC -> getr (setr s gPC v) r = getr s r.
Proof. intros H. unfold getr, setr, with_rg. cbn [rg]. destruct (rg s) as [ba i x y u sp pc f t]; destruct r; try reflexivity. congruence. Qed.

Lemma mem_setr s r v : mem (setr s r v) = mem s. Proof. reflexivity. Qed.

Lemma rg_store w s a v : rg (store w s a v) = rg s.
Proof.
  unfold store. generalize (N.to_nat w). intros n. revert s a v.
  induction n as [|n IH]; intros s a v; cbn [wr_bytes]; [reflexivity|]. rewrite IH. reflexivity.
Qed.

Lemma getr_store w s a v r : getr (store w s a v) r = getr s r.
Proof. unfold getr. rewrite rg_store. reflexivity. Qed.

Lemma band255 v : band v 255 = v mod 256.
Proof. unfold band. change 255 with (Z.ones 8). apply Z.land_ones. lia. Qed.

Lemma mem_store1 s a v x : mem (store 1 s a v) x = if x =? a then v mod 256 else mem s x.
Proof.
  unfold store. change (N.to_nat 1) with 1%nat. cbn [wr_bytes wr1 mem].
  rewrite !band255, Z.mod_mod by lia. reflexivity.
Qed.

Lemma mem_store3 s a v x :
  mem (store 3 s a v) x =
  if x =? a + 1 + 1 then (v / 65536) mod 256 else if x =? a + 1 then (v / 256) mod 256 else if x =? a then v mod 256 else mem s x.
Proof.
  unfold store. change (N.to_nat 3) with 3%nat. cbn [wr_bytes wr1 mem].
  rewrite !band255, !Z.mod_mod by lia.
  rewrite !Z.shiftr_shiftr by lia. rewrite !Z.shiftr_div_pow2 by lia.
  change (2 ^ (8 + 8)) with 65536. change (2 ^ 8) with 256. reflexivity.
Qed.

(* ---- memory well-formedness ------------------------------------------------------------------- *)
Lemma mem_wf_wr1 s a v : mem_wf s -> mem_wf (wr1 s a v).
Proof.
  intros H x. unfold wr1; cbn [mem]. destruct (x =? a); [|apply H].
  rewrite band255. apply Z.mod_pos_bound. lia.
Qed.

Lemma mem_wf_store w s a v : mem_wf s -> mem_wf (store w s a v).
Proof.
  unfold store. generalize (N.to_nat w). intros n. revert s a v.
  induction n as [|n IH]; intros s a v H; cbn [wr_bytes]; [exact H|]. apply IH. apply mem_wf_wr1. exact H.
Qed.

Lemma mem_wf_setr s r v : mem_wf s -> mem_wf (setr s r v).
Proof. intros H x. apply H. Qed.

(* ---- other registers under the writes RETI performs -------------------------------------------- *)
Definition is_flagreg (r : reg) : bool := match r with gF | gFC | gFZ => true | _ => false end.
Definition is_temp (r : reg) : bool := match r with gTEMP _ => true | _ => false end.

Lemma getr_set_flag_other s c v r : is_flagreg r = false -> getr (set_flag s c v) r = getr s r.
Proof.
  intros H. unfold set_flag, getr, setr, with_rg. cbn [rg]. destruct (rg s) as [ba i x y u sp pc f t].
  destruct c; destruct r; try discriminate; reflexivity.
Qed.

Lemma getr_setr_temp_other s k v r : is_temp r = false -> getr (setr s (gTEMP k) v) r = getr s r.
Proof.
  intros H. unfold getr, setr, with_rg. cbn [rg]. destruct (rg s) as [ba i x y u sp pc f t].
  destruct r; try discriminate; reflexivity.
Qed.

Lemma getr_logged s l r : getr (logged s l) r = getr s r. Proof. reflexivity. Qed.
Lemma mem_logged s l : mem (logged s l) = mem s. Proof. reflexivity. Qed.

Lemma getr_setr_T0 s v : regs_wf (rg s) -> 0 <= v < 256 -> getr (setr s (gTEMP 0) v) (gTEMP 0) = v.
Proof.
  intros [_ Hl] Hv. unfold getr, setr, with_rg. cbn [rg]. destruct (rg s) as [ba i x y u sp pc f t]. cbn [py_set py_get y_t] in *.
  change (Nat.ltb 0 NTEMP) with true. cbv iota.
  destruct t as [|t0 tl]; [cbn in Hl; discriminate|]. cbn [upd nth].
  rewrite Z.mod_small by lia. rewrite N.mod_small by (unfold p24; lia). lia.
Qed.

(* restoring C and Z from a byte that is the current F leaves F as it was: all 256 values of F, in the kernel *)
Definition restoreF (f : N) : N :=
  let f0 := Z.of_N f in
  set_b1 (set_b0 f (Z.to_N (b2z (negb (Z.land f0 1 =? 0)) mod 4294967296)))
         (Z.to_N (b2z (negb (Z.land f0 2 =? 0)) mod 4294967296)).

Fixpoint upN (n : nat) : list N := match n with O => [] | S k => upN k ++ [N.of_nat k] end.

Lemma upN_in (n : nat) (x : N) : (x < N.of_nat n)%N -> In x (upN n).
Proof.
  induction n as [|n IH]; intros H; [exfalso; apply (N.nlt_0_r x); exact H|].
  cbn [upN]. apply in_or_app.
  destruct (N.eq_dec x (N.of_nat n)) as [->|Hne]; [right; left; reflexivity|left; apply IH].
  rewrite Nat2N.inj_succ in H. apply N.lt_succ_r in H. apply N.le_lteq in H. destruct H as [H|H]; [exact H|contradiction].
Qed.

Lemma restoreF_sweep : forallb (fun f => (restoreF f =? f)%N) (upN 256) = true.
Proof. vm_compute. reflexivity. Qed.

Lemma restoreF_id f : (f < 256)%N -> restoreF f = f.
Proof.
  intros H. pose proof restoreF_sweep as S. rewrite forallb_forall in S.
  apply N.eqb_eq. apply S. apply (upN_in 256 f). exact H.
Qed.

Lemma restore_flags_same s f0 : regs_wf (rg s) -> f0 = getr s gF ->
  getr (set_flag (set_flag s true (b2z (negb (Z.land f0 1 =? 0)))) false (b2z (negb (Z.land f0 2 =? 0)))) gF = f0.
Proof.
  intros [(_ & _ & _ & _ & _ & _ & _ & Hf) _] ->. unfold set_flag, getr, setr, with_rg. cbn [rg].
  destruct (rg s) as [ba i x y u sp pc f t]. cbn [py_set py_get y_f] in *.
  f_equal. exact (restoreF_id f Hf).
Qed.

(* ---- the frame ----------------------------------------------------------------------------------- *)
Lemma imr_cell_val : imr_cell = 1048827. Proof. reflexivity. Qed.

Theorem delivery_frame : forall s, wf_state s -> 5 <= getr s gS ->
  let t := irq_deliver s in
  getr t gS = getr s gS - 5 /\
  mem t (getr s gS - 5) = mem s imr_cell /\ mem t (getr s gS - 4) = getr s gF /\
  mem t (getr s gS - 3) = getr s gPC mod 256 /\ mem t (getr s gS - 2) = (getr s gPC / 256) mod 256 /\
  mem t (getr s gS - 1) = (getr s gPC / 65536) mod 256 /\
  mem t imr_cell = Z.land (mem s imr_cell) 127 /\
  (forall a, a <> imr_cell -> ~ (getr s gS - 5 <= a < getr s gS) -> mem t a = mem s a).
Proof.
  intros s [Hr Hm] H5 t. subst t. unfold irq_deliver.
  pose proof (getr_S_range s Hr) as HS. pose proof (getr_F_range s Hr) as HF. pose proof (Hm imr_cell) as HI.
  set (S0 := getr s gS) in *. set (P := getr s gPC). set (F0 := getr s gF) in *. set (I0 := mem s imr_cell) in *.
  rewrite imr_cell_val in *.
  assert (Hland : 0 <= Z.land I0 127 < 256).
  { change 127 with (Z.ones 7). rewrite Z.land_ones by lia. pose proof (Z.mod_pos_bound I0 (2 ^ 7) ltac:(lia)). change (2 ^ 7) with 128 in *. lia. }
  repeat split.
  - rewrite getr_setr_PC_other by discriminate. rewrite getr_store. apply getr_setr_S. lia.
  - rewrite mem_setr, mem_store1. replace (S0 - 5 =? 1048827) with false by (symmetry; apply Z.eqb_neq; lia).
    rewrite mem_setr, mem_store1, Z.eqb_refl. apply Z.mod_small. exact HI.
  - rewrite mem_setr, mem_store1. replace (S0 - 4 =? 1048827) with false by (symmetry; apply Z.eqb_neq; lia).
    rewrite mem_setr, mem_store1. replace (S0 - 4 =? S0 - 5) with false by (symmetry; apply Z.eqb_neq; lia).
    rewrite mem_setr, mem_store1, Z.eqb_refl. apply Z.mod_small. exact HF.
  - rewrite mem_setr, mem_store1. replace (S0 - 3 =? 1048827) with false by (symmetry; apply Z.eqb_neq; lia).
    rewrite mem_setr, mem_store1. replace (S0 - 3 =? S0 - 5) with false by (symmetry; apply Z.eqb_neq; lia).
    rewrite mem_setr, mem_store1. replace (S0 - 3 =? S0 - 4) with false by (symmetry; apply Z.eqb_neq; lia).
    rewrite mem_setr, mem_store3.
    replace (S0 - 3 =? S0 - 3 + 1 + 1) with false by (symmetry; apply Z.eqb_neq; lia).
    replace (S0 - 3 =? S0 - 3 + 1) with false by (symmetry; apply Z.eqb_neq; lia). rewrite Z.eqb_refl. reflexivity.
  - rewrite mem_setr, mem_store1. replace (S0 - 2 =? 1048827) with false by (symmetry; apply Z.eqb_neq; lia).
    rewrite mem_setr, mem_store1. replace (S0 - 2 =? S0 - 5) with false by (symmetry; apply Z.eqb_neq; lia).
    rewrite mem_setr, mem_store1. replace (S0 - 2 =? S0 - 4) with false by (symmetry; apply Z.eqb_neq; lia).
    rewrite mem_setr, mem_store3.
    replace (S0 - 2 =? S0 - 3 + 1 + 1) with false by (symmetry; apply Z.eqb_neq; lia).
    replace (S0 - 2 =? S0 - 3 + 1) with true by (symmetry; apply Z.eqb_eq; lia). reflexivity.
  - rewrite mem_setr, mem_store1. replace (S0 - 1 =? 1048827) with false by (symmetry; apply Z.eqb_neq; lia).
    rewrite mem_setr, mem_store1. replace (S0 - 1 =? S0 - 5) with false by (symmetry; apply Z.eqb_neq; lia).
    rewrite mem_setr, mem_store1. replace (S0 - 1 =? S0 - 4) with false by (symmetry; apply Z.eqb_neq; lia).
    rewrite mem_setr, mem_store3.
    replace (S0 - 1 =? S0 - 3 + 1 + 1) with true by (symmetry; apply Z.eqb_eq; lia). reflexivity.
  - rewrite mem_setr, mem_store1, Z.eqb_refl. apply Z.mod_small. exact Hland.
  - intros a Ha Hout.
    rewrite mem_setr, mem_store1. replace (a =? 1048827) with false by (symmetry; apply Z.eqb_neq; exact Ha).
    rewrite mem_setr, mem_store1. replace (a =? S0 - 5) with false by (symmetry; apply Z.eqb_neq; lia).
    rewrite mem_setr, mem_store1. replace (a =? S0 - 4) with false by (symmetry; apply Z.eqb_neq; lia).
    rewrite mem_setr, mem_store3.
    replace (a =? S0 - 3 + 1 + 1) with false by (symmetry; apply Z.eqb_neq; lia).
    replace (a =? S0 - 3 + 1) with false by (symmetry; apply Z.eqb_neq; lia).
    replace (a =? S0 - 3) with false by (symmetry; apply Z.eqb_neq; lia). reflexivity.
Qed.

(* ---- RETI -------------------------------------------------------------------------------------- *)
Lemma upd_len_local {T} (l : list T) i v : length (upd l i v) = length l.
Proof. revert i. induction l as [|h t IH]; intros [|j]; cbn; auto. Qed.

Lemma regs_wf_setr_S s v : regs_wf (rg s) -> regs_wf (rg (setr s gS v)).
Proof.
  intros [(H1 & H2 & H3 & H4 & H5 & H6 & H7 & H8) H9]. unfold setr, with_rg. cbn [rg].
  destruct (rg s) as [ba i x y u sp pc f t]. cbn [py_set]. unfold regs_wf; cbn [y_ba y_i y_x y_y y_u y_s y_pc y_f y_t] in *.
  repeat split; try assumption. apply N.mod_upper_bound. discriminate.
Qed.

Lemma regs_wf_setr_PC s v : regs_wf (rg s) -> regs_wf (rg (setr s gPC v)).
Proof.
  intros [(H1 & H2 & H3 & H4 & H5 & H6 & H7 & H8) H9]. unfold setr, with_rg. cbn [rg].
  destruct (rg s) as [ba i x y u sp pc f t]. cbn [py_set]. unfold regs_wf; cbn [y_ba y_i y_x y_y y_u y_s y_pc y_f y_t] in *.
  repeat split; try assumption. apply N.mod_upper_bound. discriminate.
Qed.

Lemma regs_wf_setr_T0 s v : regs_wf (rg s) -> regs_wf (rg (setr s (gTEMP 0) v)).
Proof.
  intros [(H1 & H2 & H3 & H4 & H5 & H6 & H7 & H8) H9]. unfold setr, with_rg. cbn [rg].
  destruct (rg s) as [ba i x y u sp pc f t]. cbn [py_set]. unfold regs_wf; cbn [y_ba y_i y_x y_y y_u y_s y_pc y_f y_t] in *.
  repeat split; try assumption. change (Nat.ltb 0 NTEMP) with true. cbv iota. rewrite upd_len_local. assumption.
Qed.

Lemma regs_wf_store w s a v : regs_wf (rg s) -> regs_wf (rg (store w s a v)).
Proof. rewrite rg_store. auto. Qed.

(* the program the lifter emits for RETI *)
Definition reti_prog : list stmt :=
  [SStore 1 (EConstPtr 3 imr_cell) (EPop 1); SSetReg 1 (gTEMP 0) (EPop 1);
   SSetFlag true (EBin B_AND 1 F0 (EReg 1 (gTEMP 0)) (EConst 1 1));
   SSetFlag false (EBin B_AND 1 F0 (EReg 1 (gTEMP 0)) (EConst 1 2)); SRet (EPop 3)].

Lemma reti_lift vaddr : lift_instr (mk_instr 1 [] 1) vaddr = Some reti_prog.
Proof. vm_compute. reflexivity. Qed.

Lemma pop1 s : mem_wf s ->
  eval_expr (EPop 1) s = Some (mem s (getr s gS), setr (logged s [getr s gS]) gS (getr s gS + 1)).
Proof. intros H. cbn [eval_expr]. rewrite load_1 by exact H. reflexivity. Qed.

Lemma pop3 s : mem_wf s ->
  eval_expr (EPop 3) s =
  Some (mem s (getr s gS) + 256 * (mem s (getr s gS + 1) + 256 * mem s (getr s gS + 1 + 1)),
        setr (logged s [getr s gS; getr s gS + 1; getr s gS + 1 + 1]) gS (getr s gS + 3)).
Proof. intros H. cbn [eval_expr]. rewrite load_3 by exact H. reflexivity. Qed.

Lemma three_bytes p : 0 <= p < 1048576 -> p mod 256 + 256 * ((p / 256) mod 256 + 256 * ((p / 65536) mod 256)) = p.
Proof.
  intros H. pose proof (Z.div_mod p 256 ltac:(lia)). pose proof (Z.div_mod (p / 256) 256 ltac:(lia)).
  assert (p / 65536 = p / 256 / 256) by (rewrite Z.div_div by lia; reflexivity).
  assert (0 <= p / 65536 < 256) by (split; [apply Z.div_pos; lia | apply Z.div_lt_upper_bound; lia]).
  rewrite (Z.mod_small (p / 65536) 256) by lia. lia.
Qed.

Theorem reti_undoes_delivery : forall s vaddr,
  wf_state s -> 5 <= getr s gS ->
  exists s', exec_decoded (mk_instr 1 [] 1) 1 vaddr (irq_deliver s) = XOk s' /\
             getr s' gPC = getr s gPC /\ getr s' gS = getr s gS /\ getr s' gF = getr s gF /\
             getr s' gBA = getr s gBA /\ getr s' gI = getr s gI /\ getr s' gX = getr s gX /\ getr s' gY = getr s gY /\
             getr s' gU = getr s gU /\
             mem s' imr_cell = mem s imr_cell /\
             (forall a, ~ (getr s gS - 5 <= a < getr s gS) -> mem s' a = mem s a).
Proof.
  intros s vaddr Hwf H5.
  pose proof (delivery_frame s Hwf H5) as DF. cbv zeta in DF.
  destruct DF as (DS & D5 & D4 & D3 & D2 & D1 & DI & DO).
  destruct Hwf as [Hr Hm].
  pose proof (getr_S_range s Hr) as HS. pose proof (getr_F_range s Hr) as HF. pose proof (getr_PC_range s) as HP.
  pose proof (Hm imr_cell) as HI.
  set (t := irq_deliver s) in *.
  (* facts about t *)
  assert (Tr : regs_wf (rg t)).
  { subst t. unfold irq_deliver. apply regs_wf_setr_PC. apply regs_wf_store. apply regs_wf_setr_S. apply regs_wf_store.
    apply regs_wf_setr_S. apply regs_wf_store. apply regs_wf_setr_S. apply regs_wf_store. exact Hr. }
  assert (Tm : mem_wf t).
  { subst t. unfold irq_deliver. apply mem_wf_setr. apply mem_wf_store. apply mem_wf_setr. apply mem_wf_store.
    apply mem_wf_setr. apply mem_wf_store. apply mem_wf_setr. apply mem_wf_store. exact Hm. }
  assert (Tother : forall r, r <> gS -> r <> gPC -> getr t r = getr s r).
  { intros r H1 H2. subst t. unfold irq_deliver.
    rewrite getr_setr_PC_other by exact H2. rewrite getr_store. rewrite getr_setr_S_other by exact H1. rewrite getr_store.
    rewrite getr_setr_S_other by exact H1. rewrite getr_store. rewrite getr_setr_S_other by exact H1. rewrite getr_store. reflexivity. }
  set (S0 := getr s gS) in *. set (P0 := getr s gPC) in *. set (Fv := getr s gF) in *. set (I0 := mem s imr_cell) in *.
  (* run *)
  unfold exec_decoded. change (1 =? 239)%N with false. cbv iota. rewrite reti_lift.
  cbn [i_len mk_instr]. change (Z.of_nat 1) with 1.
  set (t1 := setr (setr t gPC (Z.land vaddr (Z.of_N py_pc_mask))) gPC (vaddr + 1)).
  assert (T1S : getr t1 gS = S0 - 5) by (subst t1; rewrite !getr_setr_PC_other by discriminate; exact DS).
  assert (T1m : mem t1 = mem t) by reflexivity.
  assert (T1w : mem_wf t1) by (subst t1; apply mem_wf_setr; apply mem_wf_setr; exact Tm).
  assert (T1r : regs_wf (rg t1)) by (subst t1; apply regs_wf_setr_PC; apply regs_wf_setr_PC; exact Tr).
  assert (T1o : forall r, r <> gS -> r <> gPC -> getr t1 r = getr s r).
  { intros r H1 H2. subst t1. rewrite !getr_setr_PC_other by exact H2. apply Tother; assumption. }
  destruct (fuel_split reti_prog t1 6) as [j Hj]; [cbn; lia|]. rewrite Hj.
  (* statement 1: IMR := pop *)
  set (u1 := store 1 (setr (logged t1 [S0 - 5]) gS (S0 - 5 + 1)) imr_cell I0).
  assert (E1 : exec_stmt (SStore 1 (EConstPtr 3 imr_cell) (EPop 1)) t1 = Some (u1, ONext)).
  { cbn [exec_stmt eval_expr]. rewrite load_1 by exact T1w. rewrite T1S. subst u1.
    replace (mem t1 (S0 - 5)) with I0 by (rewrite T1m; symmetry; exact D5). reflexivity. }
  assert (U1S : getr u1 gS = S0 - 4) by (subst u1; rewrite getr_store; rewrite getr_setr_S by lia; lia).
  assert (U1w : mem_wf u1) by (subst u1; apply mem_wf_store; apply mem_wf_setr; exact T1w).
  assert (U1r : regs_wf (rg u1)) by (subst u1; apply regs_wf_store; apply regs_wf_setr_S; exact T1r).
  assert (U1m : forall a, mem u1 a = if a =? imr_cell then I0 else mem t a).
  { intros a. subst u1. rewrite mem_store1, mem_setr. rewrite (Z.mod_small I0 256) by exact HI. reflexivity. }
  assert (U1o : forall r, r <> gS -> r <> gPC -> getr u1 r = getr s r).
  { intros r H1 H2. subst u1. rewrite getr_store, getr_setr_S_other by exact H1. rewrite getr_logged. apply T1o; assumption. }
  (* statement 2: TEMP0 := pop *)
  set (u2 := setr (setr (logged u1 [S0 - 4]) gS (S0 - 4 + 1)) (gTEMP 0) Fv).
  assert (E2 : exec_stmt (SSetReg 1 (gTEMP 0) (EPop 1)) u1 = Some (u2, ONext)).
  { cbn [exec_stmt eval_expr]. rewrite load_1 by exact U1w. rewrite U1S. subst u2.
    replace (mem u1 (S0 - 4)) with Fv; [reflexivity|].
    rewrite U1m. rewrite imr_cell_val. replace (S0 - 4 =? 1048827) with false by (symmetry; apply Z.eqb_neq; lia). symmetry. exact D4. }
  assert (U2S : getr u2 gS = S0 - 3).
  { subst u2. rewrite getr_setr_temp_other by reflexivity. rewrite getr_setr_S by lia. lia. }
  assert (U2T : getr u2 (gTEMP 0) = Fv).
  { subst u2. apply getr_setr_T0; [|exact HF]. apply regs_wf_setr_S. exact U1r. }
  assert (U2w : mem_wf u2) by (subst u2; apply mem_wf_setr; apply mem_wf_setr; exact U1w).
  assert (U2r : regs_wf (rg u2)) by (subst u2; apply regs_wf_setr_T0; apply regs_wf_setr_S; exact U1r).
  assert (U2o : forall r, r <> gS -> r <> gPC -> is_temp r = false -> getr u2 r = getr s r).
  { intros r H1 H2 H3. subst u2. rewrite getr_setr_temp_other by exact H3. rewrite getr_setr_S_other by exact H1.
    rewrite getr_logged. apply U1o; assumption. }
  (* statements 3, 4: C, Z from TEMP0 *)
  set (u4 := set_flag (set_flag u2 true (b2z (negb (Z.land Fv 1 =? 0)))) false (b2z (negb (Z.land Fv 2 =? 0)))).
  assert (E3 : exec_stmt (SSetFlag true (EBin B_AND 1 IL.F0 (EReg 1 (gTEMP 0)) (EConst 1 1))) u2 =
               Some (set_flag u2 true (b2z (negb (Z.land Fv 1 =? 0))), ONext)).
  { cbn [exec_stmt eval_expr eval_binop apply_flags]. rewrite U2T. reflexivity. }
  assert (E4 : exec_stmt (SSetFlag false (EBin B_AND 1 IL.F0 (EReg 1 (gTEMP 0)) (EConst 1 2)))
                         (set_flag u2 true (b2z (negb (Z.land Fv 1 =? 0)))) = Some (u4, ONext)).
  { cbn [exec_stmt eval_expr eval_binop apply_flags].
    rewrite getr_set_flag_other by reflexivity. rewrite U2T. reflexivity. }
  assert (U4S : getr u4 gS = S0 - 3) by (subst u4; rewrite !getr_set_flag_other by reflexivity; exact U2S).
  assert (U4w : mem_wf u4) by (subst u4; unfold set_flag; apply mem_wf_setr; apply mem_wf_setr; exact U2w).
  assert (U4F : getr u4 gF = Fv).
  { subst u4. apply restore_flags_same; [exact U2r|]. symmetry. apply U2o; try discriminate; reflexivity. }
  assert (U4o : forall r, r <> gS -> r <> gPC -> is_temp r = false -> is_flagreg r = false -> getr u4 r = getr s r).
  { intros r H1 H2 H3 H4. subst u4. rewrite !getr_set_flag_other by exact H4. apply U2o; assumption. }
  assert (U4m : mem u4 = mem u1) by reflexivity.
  (* statement 5: RET pop3 *)
  set (u5 := setr (setr (logged u4 [S0 - 3; S0 - 3 + 1; S0 - 3 + 1 + 1]) gS (S0 - 3 + 3)) gPC P0).
  assert (E5 : exec_stmt (SRet (EPop 3)) u4 = Some (u5, ONext)).
  { cbn [exec_stmt eval_expr]. rewrite load_3 by exact U4w. rewrite U4S. subst u5.
    replace (mem u4 (S0 - 3) + 256 * (mem u4 (S0 - 3 + 1) + 256 * mem u4 (S0 - 3 + 1 + 1))) with P0; [reflexivity|].
    rewrite U4m, !U1m, imr_cell_val.
    replace (S0 - 3 =? 1048827) with false by (symmetry; apply Z.eqb_neq; lia).
    replace (S0 - 3 + 1 =? 1048827) with false by (symmetry; apply Z.eqb_neq; lia).
    replace (S0 - 3 + 1 + 1 =? 1048827) with false by (symmetry; apply Z.eqb_neq; lia).
    replace (S0 - 3 + 1) with (S0 - 2) by lia. replace (S0 - 2 + 1) with (S0 - 1) by lia.
    rewrite D3, D2, D1. symmetry. apply three_bytes. exact HP. }
  exists u5. split.
  - replace (6 + j)%nat with (S (S (S (S (S (S j)))))) by lia.
    unfold reti_prog. cbn [run nth_error]. fold reti_prog.
    unfold reti_prog in E1. rewrite E1. cbn [nth_error]. rewrite E2. cbn [nth_error]. rewrite E3. cbn [nth_error]. rewrite E4.
    cbn [nth_error]. rewrite E5. cbn [nth_error]. destruct j; reflexivity.
  - repeat split.
    + subst u5. apply getr_setr_PC. exact HP.
    + subst u5. rewrite getr_setr_PC_other by discriminate. rewrite getr_setr_S by lia. lia.
    + subst u5. rewrite getr_setr_PC_other by discriminate. rewrite getr_setr_S_other by discriminate. rewrite getr_logged. exact U4F.
    + subst u5. rewrite getr_setr_PC_other by discriminate. rewrite getr_setr_S_other by discriminate. rewrite getr_logged. apply U4o; try discriminate; reflexivity.
    + subst u5. rewrite getr_setr_PC_other by discriminate. rewrite getr_setr_S_other by discriminate. rewrite getr_logged. apply U4o; try discriminate; reflexivity.
    + subst u5. rewrite getr_setr_PC_other by discriminate. rewrite getr_setr_S_other by discriminate. rewrite getr_logged. apply U4o; try discriminate; reflexivity.
    + subst u5. rewrite getr_setr_PC_other by discriminate. rewrite getr_setr_S_other by discriminate. rewrite getr_logged. apply U4o; try discriminate; reflexivity.
    + subst u5. rewrite getr_setr_PC_other by discriminate. rewrite getr_setr_S_other by discriminate. rewrite getr_logged. apply U4o; try discriminate; reflexivity.
    + subst u5. rewrite !mem_setr, mem_logged, U4m, U1m, Z.eqb_refl. reflexivity.
    + intros a Ha. subst u5. rewrite !mem_setr, mem_logged, U4m, U1m.
      destruct (a =? imr_cell) eqn:E; [apply Z.eqb_eq in E; subst a; reflexivity|].
      apply Z.eqb_neq in E. apply DO; assumption.
Qed.
