(* Proofs about Model/Lcd.v (property C15). *)
From Coq Require Import ZArith NArith List Bool Lia ZifyBool ZifyN ZifyNat.
From BE Require Import Model.Lcd.
Import ListNotations.
Ltac Zify.zify_post_hook ::= Z.to_euclidean_division_equations.
Open Scope N_scope.

(* ---- list helpers ------------------------------------------------------------------------- *)
Lemma upd_length : forall l i v, length (upd l i v) = length l.
Proof. induction l as [|h t IH]; intros [|j] v; cbn; auto. Qed.
Lemma nth_upd_same : forall l i v d, (i < length l)%nat -> nth i (upd l i v) d = v.
Proof. induction l as [|h t IH]; intros [|j] v d H; cbn in *; try (exfalso; exact (Nat.nlt_0_r _ H)); auto. apply IH. apply Nat.succ_lt_mono. exact H. Qed.
Lemma nth_upd_other : forall l i j v d, i <> j -> nth j (upd l i v) d = nth j l d.
Proof. induction l as [|h t IH]; intros [|i] [|j] v d H; cbn; auto; try congruence. Qed.

(* ---- chip invariant ---------------------------------------------------------------------- *)
Definition chip_wf (c : chip) : Prop :=
  c_start c < 64 /\ c_page c < 8 /\ c_y c < 64 /\ length (c_vram c) = 512%nat.
Definition lcd_wf (s : lcd) : Prop := chip_wf (left s) /\ chip_wf (right s).

Lemma chip0_wf : chip_wf chip0.
Proof. unfold chip_wf, chip0; cbn. repeat split; try lia. Qed.

Lemma parse_value_range : forall v i d, parse_value v = (i, d) ->
  match i with I_ONOFF => d < 2 | I_SETPAGE => d < 8 | _ => d < 64 end.
Proof.
  intros v i d H. unfold parse_value in H.
  destruct ((v / 64) mod 4) as [|p]; [inversion H; subst; lia|].
  destruct p as [p|p|]; try destruct p; inversion H; subst; lia.
Qed.

Lemma chip_instr_wf : forall c v i d, chip_wf c -> parse_value v = (i, d) -> chip_wf (chip_instr c i d).
Proof.
  intros c v i d (H1 & H2 & H3 & H4) Hp. pose proof (parse_value_range _ _ _ Hp) as Hr.
  destruct i; unfold chip_wf; cbn; repeat split; try assumption; lia.
Qed.

Lemma chip_data_wf : forall c d, chip_wf c -> chip_wf (chip_data c d).
Proof.
  intros c d (H1 & H2 & H3 & H4). unfold chip_wf; cbn. repeat split; try assumption; try lia.
  rewrite upd_length. exact H4.
Qed.

Lemma chip_status_wf : forall c, chip_wf c -> chip_wf (fst (chip_status c)).
Proof. intros c (H1 & H2 & H3 & H4). unfold chip_wf; cbn. repeat split; assumption. Qed.

Lemma chip_read_wf : forall c, chip_wf c -> chip_wf (fst (chip_read c)).
Proof. intros c (H1 & H2 & H3 & H4). unfold chip_wf; cbn. repeat split; try assumption. lia. Qed.

Lemma on_sel_wf : forall cs f s, (forall c, chip_wf c -> chip_wf (f c)) -> lcd_wf s -> lcd_wf (on_sel cs f s).
Proof. intros cs f s Hf [Hl Hr]. destruct cs; unfold lcd_wf; cbn; split; auto. Qed.

Lemma do_write_wf : forall cs di v s, lcd_wf s -> lcd_wf (do_write cs di v s).
Proof.
  intros cs di v s H. unfold do_write. destruct di.
  - apply on_sel_wf; [intros; apply chip_data_wf; assumption|exact H].
  - destruct (parse_value v) as [i d] eqn:E. apply on_sel_wf; [|exact H].
    intros c Hc. eapply chip_instr_wf; eauto.
Qed.

Lemma py_write_wf : forall s a v, lcd_wf s -> lcd_wf (py_write s a v).
Proof.
  intros s a v H. unfold py_write. destruct (decode_access a) as [[[cs di] rd]|]; [|exact H].
  destruct rd; [exact H|apply do_write_wf; exact H].
Qed.

Lemma rs_write_wf : forall s a v, lcd_wf s -> lcd_wf (rs_write s a v).
Proof.
  intros s a v H. unfold rs_write. destruct (decode_access a) as [[[cs di] rd]|]; [|exact H].
  apply do_write_wf; exact H.
Qed.

Lemma lcd_read_wf : forall s a, lcd_wf s -> lcd_wf (fst (lcd_read s a)).
Proof.
  intros s a [Hl Hr]. unfold lcd_read. destruct (decode_access a) as [[[cs di] rd]|]; [|split; assumption].
  destruct rd; [|split; assumption].
  destruct cs; [split; assumption| |].
  - destruct di.
    + pose proof (chip_read_wf _ Hr). destruct (chip_read (right s)); cbn in *. split; assumption.
    + pose proof (chip_status_wf _ Hr). destruct (chip_status (right s)); cbn in *. split; assumption.
  - destruct di.
    + pose proof (chip_read_wf _ Hl). destruct (chip_read (left s)); cbn in *. split; assumption.
    + pose proof (chip_status_wf _ Hl). destruct (chip_status (left s)); cbn in *. split; assumption.
Qed.

(* state after a sequence of operations *)
Fixpoint state_after (wr : lcd -> N -> N -> lcd) (s : lcd) (ops : list lop) : lcd :=
  match ops with
  | [] => s
  | LWrite a v :: t => state_after wr (wr s a v) t
  | LRead a :: t => state_after wr (fst (lcd_read s a)) t
  | _ :: t => state_after wr s t
  end.

Theorem reachable_wf : forall ops,
  lcd_wf (state_after py_write lcd0 ops) /\ lcd_wf (state_after rs_write lcd0 ops).
Proof.
  assert (H0 : lcd_wf lcd0) by (split; apply chip0_wf).
  intros ops. split; revert H0; generalize lcd0; induction ops as [|o t IH]; intros s H; cbn; try exact H;
    destruct o; try (apply IH; exact H).
  - apply IH, py_write_wf, H.
  - apply IH, lcd_read_wf, H.
  - apply IH, rs_write_wf, H.
  - apply IH, lcd_read_wf, H.
Qed.

(* ---- the command protocol ------------------------------------------------------------------ *)
Lemma cell_lt : forall p y, p < 8 -> y < 64 -> (cell p y < 512)%nat.
Proof. intros. unfold cell. lia. Qed.

Lemma cell_inj : forall p y p' y', p < 8 -> y < 64 -> p' < 8 -> y' < 64 -> cell p y = cell p' y' -> p = p' /\ y = y'.
Proof. intros. unfold cell in *. lia. Qed.

(* data write: exactly the addressed cell changes; the column counter advances modulo 64 *)
Theorem data_write_law : forall c d, chip_wf c ->
  let c' := chip_data c d in
  nth (cell (c_page c) (c_y c)) (c_vram c') 0 = d /\
  (forall p y, p < 8 -> y < 64 -> (p, y) <> (c_page c, c_y c) ->
               nth (cell p y) (c_vram c') 0 = nth (cell p y) (c_vram c) 0) /\
  c_y c' = (c_y c + 1) mod 64 /\ c_page c' = c_page c /\ c_start c' = c_start c /\ c_on c' = c_on c /\ c_busy c' = true.
Proof.
  intros c d (H1 & H2 & H3 & H4). cbn.
  rewrite (N.mod_small (c_page c) 8) by lia. rewrite (N.mod_small (c_y c) 64) by lia.
  split; [apply nth_upd_same; rewrite H4; apply cell_lt; assumption|].
  split; [|repeat split].
  intros p y Hp Hy Hne. apply nth_upd_other. intro E.
  apply cell_inj in E; try assumption. destruct E; subst. apply Hne. reflexivity.
Qed.

(* data read: returns the cell one column before the counter (the buffered read) and advances; VRAM untouched *)
Theorem data_read_law : forall c, chip_wf c ->
  let '(c', v) := chip_read c in
  v = nth (cell (c_page c) ((c_y c + 63) mod 64)) (c_vram c) 0 /\
  c_y c' = (c_y c + 1) mod 64 /\ c_vram c' = c_vram c /\ c_page c' = c_page c /\
  c_start c' = c_start c /\ c_on c' = c_on c /\ c_busy c' = c_busy c.
Proof.
  intros c (H1 & H2 & H3 & H4). cbn.
  rewrite (N.mod_small (c_page c) 8) by lia. rewrite (N.mod_small (c_y c) 64) by lia.
  repeat split.
Qed.

(* status read: BUSY in bit 7, OFF in bit 5; clears BUSY only *)
Theorem status_law : forall c,
  let '(c', v) := chip_status c in
  v = (if c_busy c then 128 else 0) + (if c_on c then 0 else 32) /\
  c_busy c' = false /\ c_on c' = c_on c /\ c_y c' = c_y c /\ c_page c' = c_page c /\
  c_start c' = c_start c /\ c_vram c' = c_vram c.
Proof. intros c. cbn. repeat split. Qed.

(* instruction register: the two top bits select, operand masked to the field width *)
Theorem instr_law : forall v, v < 256 ->
  parse_value v =
    if v <? 64 then (I_ONOFF, v mod 2) else if v <? 128 then (I_SETY, v mod 64)
    else if v <? 192 then (I_SETPAGE, v mod 8) else (I_STARTLINE, v mod 64).
Proof.
  intros v Hv. unfold parse_value.
  destruct (v <? 64) eqn:E1; [replace ((v / 64) mod 4) with 0 by lia; f_equal; lia|].
  destruct (v <? 128) eqn:E2; [replace ((v / 64) mod 4) with 1 by lia; reflexivity|].
  destruct (v <? 192) eqn:E3; [replace ((v / 64) mod 4) with 2 by lia; f_equal; lia|].
  replace ((v / 64) mod 4) with 3 by lia. reflexivity.
Qed.

Theorem instr_effect : forall c i d,
  let c' := chip_instr c i d in
  c_vram c' = c_vram c /\ c_busy c' = true /\
  match i with
  | I_ONOFF => c_on c' = negb (d =? 0) /\ c_start c' = c_start c /\ c_page c' = c_page c /\ c_y c' = c_y c
  | I_STARTLINE => c_start c' = d /\ c_on c' = c_on c /\ c_page c' = c_page c /\ c_y c' = c_y c
  | I_SETPAGE => c_page c' = d /\ c_on c' = c_on c /\ c_start c' = c_start c /\ c_y c' = c_y c
  | I_SETY => c_y c' = d /\ c_on c' = c_on c /\ c_start c' = c_start c /\ c_page c' = c_page c
  end.
Proof. intros c i d. destruct i; cbn; repeat split. Qed.

(* chip-select decoding inside the two windows: bit0 R/W, bit1 D/I, bits2-3 select (both, right, left, none) *)
Definition in_window (a : N) : bool := ((8192 <=? a) && (a <=? 12287)) || ((40960 <=? a) && (a <=? 45055)).

Definition decode_spec (lo : N) : option (csel * bool * bool) :=
  match lo / 4 with
  | 0 => Some (CS_BOTH, N.odd (lo / 2), N.odd lo)
  | 1 => Some (CS_RIGHT, N.odd (lo / 2), N.odd lo)
  | 2 => Some (CS_LEFT, N.odd (lo / 2), N.odd lo)
  | _ => None
  end.

Theorem select_law : forall a, in_window a = true -> decode_access a = decode_spec (a mod 16).
Proof.
  intros a H. unfold in_window in H. unfold decode_access, decode_spec.
  assert (Hh : (a / 4096) mod 16 = 2 \/ (a / 4096) mod 16 = 10) by lia.
  destruct Hh as [-> | ->]; cbn [N.eqb negb orb].
  - replace ((a mod 16 / 4) mod 4) with (a mod 16 / 4) by lia. reflexivity.
  - replace ((a mod 16 / 4) mod 4) with (a mod 16 / 4) by lia. reflexivity.
Qed.

(* a write selects exactly the addressed chips: the other chip is untouched *)
Theorem write_frame : forall cs di v s,
  (cs = CS_LEFT -> right (do_write cs di v s) = right s) /\
  (cs = CS_RIGHT -> left (do_write cs di v s) = left s).
Proof.
  intros cs di v s. unfold do_write. destruct di; [|destruct (parse_value v)]; split; intros ->; reflexivity.
Qed.

(* ---- Python and Rust controllers -------------------------------------------------------- *)
Definition write_addr_ok (a : N) : bool :=
  match decode_access a with Some (_, _, true) => false | _ => true end.

Definition op_ok (o : lop) : bool := match o with LWrite a _ => write_addr_ok a | _ => true end.

Lemma writes_agree : forall s a v, write_addr_ok a = true -> py_write s a v = rs_write s a v.
Proof.
  intros s a v H. unfold write_addr_ok in H. unfold py_write, rs_write.
  destruct (decode_access a) as [[[cs di] rd]|]; [|reflexivity]. destruct rd; [discriminate|reflexivity].
Qed.

(* identical observations for every sequence (any length) that writes only to write addresses,
   whatever pixel function is used to observe the display *)
Theorem py_rs_agree : forall px ops s, forallb op_ok ops = true ->
  run py_write px s ops = run rs_write px s ops.
Proof.
  intros px. induction ops as [|o t IH]; intros s H; [reflexivity|].
  cbn in H. apply andb_true_iff in H. destruct H as [Ho Ht].
  destruct o; cbn [run].
  - cbn in Ho. rewrite (writes_agree s addr v Ho). f_equal. apply IH, Ht.
  - destruct (lcd_read s addr). f_equal. apply IH, Ht.
  - f_equal. apply IH, Ht.
  - f_equal. apply IH, Ht.
Qed.

(* ---- pixel map -------------------------------------------------------------------------------- *)
(* left inverse of px_src on the visible area: which display pixel shows (chip, y_display, column) *)
Definition px_inv (ci yd sc : N) : N * N :=
  let row := yd mod 32 in
  if ci =? 1 then (if yd <? 32 then (row, sc) else (row, 176 + (63 - sc)))
  else (if yd <? 32 then (row, 64 + sc) else (row, 120 + (55 - sc))).

Definition visible : list (N * N) := flat_map (fun r => map (fun c => (r, c)) (nseq 240)) (nseq 32).

Definition px_inv_ok (p : N * N) : bool :=
  let '(r, c) := p in
  let '(ci, yd, sc) := px_src r c in
  let '(r', c') := px_inv ci yd sc in
  (r' =? r) && (c' =? c) && (yd <? 64) && (sc <? 64) && (ci <? 2).

Lemma px_inv_all : forallb px_inv_ok visible = true.
Proof. vm_compute. reflexivity. Qed.

Lemma in_visible : forall r c, r < 32 -> c < 240 -> In (r, c) visible.
Proof.
  intros r c Hr Hc. unfold visible. apply in_flat_map. exists r. split.
  - unfold nseq. apply in_map_iff. exists (N.to_nat r). split; [lia|]. apply in_seq. lia.
  - apply in_map_iff. exists c. split; [reflexivity|].
    unfold nseq. apply in_map_iff. exists (N.to_nat c). split; [lia|]. apply in_seq. lia.
Qed.

(* the 240x32 visible pixels have pairwise distinct sources, each inside one chip's 64x64 bit array *)
Theorem pixel_map_injective : forall r c r' c',
  r < 32 -> c < 240 -> r' < 32 -> c' < 240 -> px_src r c = px_src r' c' -> r = r' /\ c = c'.
Proof.
  intros r c r' c' Hr Hc Hr' Hc' E.
  pose proof px_inv_all as Ha. rewrite forallb_forall in Ha.
  pose proof (Ha _ (in_visible r c Hr Hc)) as H1. pose proof (Ha _ (in_visible r' c' Hr' Hc')) as H2.
  unfold px_inv_ok in H1, H2. rewrite E in H1.
  destruct (px_src r' c') as [[ci yd] sc]. destruct (px_inv ci yd sc) as [r0 c0].
  lia.
Qed.

Theorem pixel_src_range : forall r c, r < 32 -> c < 240 ->
  let '(ci, yd, sc) := px_src r c in ci < 2 /\ yd < 64 /\ sc < 64.
Proof.
  intros r c Hr Hc. pose proof px_inv_all as Ha. rewrite forallb_forall in Ha.
  pose proof (Ha _ (in_visible r c Hr Hc)) as H1. unfold px_inv_ok in H1.
  destruct (px_src r c) as [[ci yd] sc]. destruct (px_inv ci yd sc). lia.
Qed.

(* Python display: every visible pixel is one VRAM bit of one chip (or blank when that chip is off) *)
Theorem py_pixel_is_one_bit : forall s r c,
  let '(ci, yd, sc) := px_src r c in
  py_pixel s r c =
    if c_on (chip_of s ci) then pixel_on (nth (cell (yd / 8) sc) (c_vram (chip_of s ci)) 0) (yd mod 8) else 0.
Proof. intros s r c. unfold py_pixel. destruct (px_src r c) as [[ci yd] sc]. reflexivity. Qed.

(* the display column of a pixel is a function of the VRAM cell (chip, page, column) it shows:
   a data write (one cell of one chip) can only change pixels of one display column, at most 8 of them
   (one per bit of the byte; none for the 8 invisible columns of the left chip) *)
Definition col_of_cell (ci page sc : N) : N :=
  if ci =? 1 then (if page <? 4 then sc else 176 + (63 - sc))
  else (if page <? 4 then 64 + sc else 120 + (55 - sc)).

Definition col_ok (p : N * N) : bool :=
  let '(r, c) := p in let '(ci, yd, sc) := px_src r c in
  (col_of_cell ci (yd / 8) sc =? c) && (r =? yd mod 32).

Lemma col_ok_all : forallb col_ok visible = true.
Proof. vm_compute. reflexivity. Qed.

Theorem py_write_touches_one_column : forall r c r' c',
  r < 32 -> c < 240 -> r' < 32 -> c' < 240 ->
  let '(ci, yd, sc) := px_src r c in let '(ci', yd', sc') := px_src r' c' in
  ci = ci' -> yd / 8 = yd' / 8 -> sc = sc' ->
  c = c' /\ (r = r' <-> yd mod 8 = yd' mod 8).
Proof.
  intros r c r' c' Hr Hc Hr' Hc'.
  pose proof col_ok_all as Ha. rewrite forallb_forall in Ha.
  pose proof (Ha _ (in_visible r c Hr Hc)) as H1. pose proof (Ha _ (in_visible r' c' Hr' Hc')) as H2.
  unfold col_ok in H1, H2.
  destruct (px_src r c) as [[ci yd] sc]. destruct (px_src r' c') as [[ci' yd'] sc'].
  intros -> Hp ->. rewrite Hp in H1. split; [lia|]. split; intros; lia.
Qed.

(* Rust display: scrolled by the start line; still one bit per pixel and injective for any start lines *)
Theorem rs_pixel_is_one_bit : forall s r c,
  let '(ci, yd, sc) := px_src r c in
  let yv := (yd + c_start (chip_of s ci) mod 64) mod 64 in
  rs_pixel s r c = pixel_on (nth (cell (yv / 8) sc) (c_vram (chip_of s ci)) 0) (yv mod 8).
Proof. intros s r c. unfold rs_pixel. destruct (px_src r c) as [[ci yd] sc]. reflexivity. Qed.

Theorem rs_pixel_map_injective : forall (st : N -> N) r c r' c',
  r < 32 -> c < 240 -> r' < 32 -> c' < 240 ->
  let '(ci, yd, sc) := px_src r c in let '(ci', yd', sc') := px_src r' c' in
  ci = ci' -> (yd + st ci mod 64) mod 64 = (yd' + st ci' mod 64) mod 64 -> sc = sc' -> r = r' /\ c = c'.
Proof.
  intros st r c r' c' Hr Hc Hr' Hc'.
  pose proof (pixel_src_range r c Hr Hc) as R1. pose proof (pixel_src_range r' c' Hr' Hc') as R2.
  pose proof (pixel_map_injective r c r' c' Hr Hc Hr' Hc') as Hi.
  destruct (px_src r c) as [[ci yd] sc]. destruct (px_src r' c') as [[ci' yd'] sc'].
  intros -> Hy ->. apply Hi. f_equal. f_equal. lia.
Qed.
