(* Proofs about Model/Regs.v, part 2: the Rust register file refines the Python one (C08). *)
From Coq Require Import ZArith NArith List Bool Lia ZifyBool ZifyN ZifyNat.
From BE Require Import Model.Regs Proofs.RegsProofs.
Import ListNotations.
Ltac Zify.zify_post_hook ::= Z.to_euclidean_division_equations.
Open Scope N_scope.
Arguments Nat.ltb : simpl never.
Arguments NTEMP : simpl never.
Arguments N.modulo : simpl never.
Arguments N.div : simpl never.
Arguments N.mul : simpl never.
Arguments N.add : simpl never.
Arguments N.sub : simpl never.
Arguments N.pow : simpl never.

(* ---- Rust refines Python ---------------------------------------------------------------- *)
Definition abs (z : rsregs) : pyregs :=
  {| y_ba := dflt (z_ba z) 0 mod p16; y_i := dflt (z_i z) 0 mod p16;
     y_x := dflt (z_x z) 0 mod p20; y_y := dflt (z_y z) 0 mod p20; y_u := dflt (z_u z) 0 mod p20;
     y_s := dflt (z_s z) 0 mod p20; y_pc := dflt (z_pc z) 0 mod p20;
     y_f := rs_get z gF;
     y_t := map (fun o => dflt o 0 mod p24) (z_t z) |}.

Lemma abs_init : abs rs_init = py_init.
Proof. reflexivity. Qed.

Lemma rs_get_F_lt : forall z, rs_get z gF < p8.
Proof. intros z. cbn. unp. destruct (z_fc z), (z_fz z); cbn; lia. Qed.

Lemma low_bit : forall q a b, a < 2 -> (q * 4 + a + b * 2) mod 2 = a.
Proof.
  intros q a b Ha. replace (q * 4 + a + b * 2) with (a + (q * 2 + b) * 2) by lia.
  rewrite N.mod_add by lia. apply N.mod_small. exact Ha.
Qed.

Lemma mod2_lt : forall x, x mod 2 < 2.
Proof. intros. apply N.mod_lt. lia. Qed.

Lemma nth_map_dflt : forall (t : list (option N)) k,
  nth k (map (fun o => dflt o 0 mod p24) t) 0 = dflt (nth k t None) 0 mod p24.
Proof.
  induction t as [|h tl gIH]; intros [|j]; cbn [map nth]; try reflexivity; try apply gIH.
Qed.

Theorem abs_get : forall z r, py_get (abs z) r = rs_get z r.
Proof.
  intros [ba i x y u sp pc f fc fz t] r.
  destruct r as [| | | | | | | | | | | | | |k]; try (cbn; unp; lia).
  - (* FC *) cbn. destruct fc, fz; cbn [dflt]; rewrite ?N.mod_mod by lia; apply low_bit; apply mod2_lt.
  - (* TEMP *) cbn [py_get abs y_t rs_get z_t]. apply nth_map_dflt.
Qed.

Lemma abs_wf : forall z, length (z_t z) = NTEMP -> wf (abs z).
Proof.
  intros z Hl. unfold wf. cbn. pose proof (rs_get_F_lt z).
  repeat split; unp; try lia.
  - rewrite map_length. exact Hl.
  - rewrite Forall_forall. intros v Hin. apply in_map_iff in Hin. destruct Hin as (o & <- & _). lia.
Qed.

Lemma byte_recompose : forall m, m / 4 * 4 + m mod 2 + (m / 2) mod 2 * 2 = m.
Proof. intros. lia. Qed.
Lemma m32_256 : forall v, (v mod 4294967296) mod 256 = v mod 256.
Proof. intros. lia. Qed.
Lemma m32_2 : forall v, (v mod 4294967296) mod 2 = v mod 2.
Proof. intros. lia. Qed.
Lemma bit1_keep : forall raw vb, raw < 256 -> vb < 2 -> ((raw - raw mod 2 + vb) mod 256 / 2) mod 2 = (raw / 2) mod 2.
Proof. intros. lia. Qed.
Lemma bit0_keep : forall raw vb, raw < 256 -> vb < 2 -> ((raw - (raw / 2) mod 2 * 2 + vb * 2) mod 256) mod 2 = raw mod 2.
Proof. intros. lia. Qed.
Lemma fc_case : forall raw vb a b, raw < 256 -> vb < 2 -> a < 2 -> b < 2 ->
  (raw - raw mod 2 + vb) mod 256 / 4 * 4 + vb + b * 2 =
  (raw / 4 * 4 + a + b * 2) mod 256 - ((raw / 4 * 4 + a + b * 2) mod 256) mod 2 + vb.
Proof. intros. lia. Qed.
Lemma fz_case : forall raw vb a b, raw < 256 -> vb < 2 -> a < 2 -> b < 2 ->
  (raw - (raw / 2) mod 2 * 2 + vb * 2) mod 256 / 4 * 4 + a + vb * 2 =
  (raw / 4 * 4 + a + b * 2) mod 256 - ((raw / 4 * 4 + a + b * 2) mod 256 / 2) mod 2 * 2 + vb * 2.
Proof. intros. lia. Qed.
Lemma mod256_lt : forall x, x mod 256 < 256.
Proof. intros. apply N.mod_lt. lia. Qed.

Theorem abs_set : forall z r v, abs (rs_set z r v) = py_set (abs z) r v.
Proof.
  intros [ba i x y u sp pc f fc fz t] r v.
  destruct r as [| | | | | | | | | | | | | |k];
    try (unfold abs; cbn; unfold set_lo, set_hi, set_b0, set_b1; unp; f_equal; lia).
  - (* FC *) unfold abs; cbn. unfold set_b0. unp. f_equal.
    rewrite !m32_2. rewrite !(N.mod_mod v 2) by lia.
    pose proof (mod256_lt (dflt f 0)) as Hr. pose proof (mod2_lt v) as Hv.
    generalize dependent (dflt f 0 mod 256). generalize dependent (v mod 2). intros vb Hv raw Hr.
    assert (Hb : dflt fz ((raw / 2) mod 2) mod 2 < 2) by apply mod2_lt.
    assert (Ha : dflt fc (raw mod 2) mod 2 < 2) by apply mod2_lt.
    replace (dflt fz (((raw - raw mod 2 + vb) mod 256 / 2) mod 2) mod 2) with (dflt fz ((raw / 2) mod 2) mod 2)
      by (destruct fz; cbn [dflt]; [reflexivity|rewrite bit1_keep by assumption; reflexivity]).
    apply fc_case; assumption.
  - (* FZ *) unfold abs; cbn. unfold set_b1. unp. f_equal.
    rewrite !m32_2. rewrite !(N.mod_mod v 2) by lia.
    pose proof (mod256_lt (dflt f 0)) as Hr. pose proof (mod2_lt v) as Hv.
    generalize dependent (dflt f 0 mod 256). generalize dependent (v mod 2). intros vb Hv raw Hr.
    assert (Hb : dflt fz ((raw / 2) mod 2) mod 2 < 2) by apply mod2_lt.
    assert (Ha : dflt fc (raw mod 2) mod 2 < 2) by apply mod2_lt.
    replace (dflt fc (((raw - (raw / 2) mod 2 * 2 + vb * 2) mod 256) mod 2) mod 2) with (dflt fc (raw mod 2) mod 2)
      by (destruct fc; cbn [dflt]; [reflexivity|rewrite bit0_keep by assumption; reflexivity]).
    apply fz_case; assumption.
  - (* TEMP *)
    unfold rs_set, py_set, abs; cbv beta iota.
    cbn [z_ba z_i z_x z_y z_u z_s z_pc z_f z_fc z_fz z_t].
    destruct (Nat.ltb k NTEMP); [|reflexivity].
    f_equal. rewrite map_upd. cbn [dflt]. f_equal. unp. lia.
Qed.

Lemma rs_set_length : forall z r v, length (z_t (rs_set z r v)) = length (z_t z).
Proof.
  intros [ba i x y u sp pc f fc fz t] r v. destruct r; cbn; try reflexivity.
  destruct (Nat.ltb i0 NTEMP); [apply upd_length|reflexivity].
Qed.

Lemma abs_apply_temps : forall l z k,
  abs (rs_apply_temps z k l) = py_apply_temps (abs z) k l.
Proof.
  induction l as [|v t gIH]; intros z k; cbn [rs_apply_temps py_apply_temps]; [reflexivity|].
  rewrite gIH, abs_set. f_equal.
  apply py_set_modw; [right; left; reflexivity|left; cbn; unp; lia].
Qed.

Lemma rs_collect_eq : forall z, length (z_t z) = NTEMP -> rs_collect z = py_capture (abs z).
Proof.
  intros z Hl. pose proof (abs_wf z Hl) as Hwf.
  destruct (py_overlap (abs z) Hwf) as (_ & _ & _ & _ & Hr).
  assert (Hm : forall r m, width r <= m -> valid r -> rs_get z r mod m = py_get (abs z) r).
  { intros r m Hw Hv. rewrite <- abs_get. destruct (Hr r) as [H|H].
    - apply N.mod_small. lia.
    - destruct r; try contradiction. cbn in Hv. lia. }
  unfold rs_collect, py_capture.
  f_equal; try (apply Hm; [cbn; unp; lia | exact Logic.I]).
  apply map_ext_in. intros k Hk. apply in_seq in Hk. apply Hm; [cbn; unp; lia | cbn; lia].
Qed.

Lemma abs_apply : forall sn z, abs (rs_apply sn z) = py_apply sn (abs z).
Proof.
  intros sn z. unfold rs_apply, py_apply.
  rewrite abs_apply_temps, !abs_set.
  repeat (rewrite py_set_modw by (first [ left; reflexivity | right; left; reflexivity | right; right; left; reflexivity
                                         | right; right; right; left; reflexivity ] ||
                                  (cbn; unp; first [ left; lia | right; split; reflexivity ]))).
  reflexivity.
Qed.

Lemma py_apply_length : forall sn s, length (y_t s) = NTEMP -> length (y_t (py_apply sn s)) = NTEMP.
Proof.
  intros sn s Hl. unfold py_apply.
  set (s8 := py_set _ gF _).
  assert (H8 : length (y_t s8) = NTEMP) by (subst s8; destruct s; cbn in *; exact Hl).
  clearbody s8. revert s8 H8. generalize 0%nat. induction (sn_t sn) as [|v t gIH]; intros k s8 H8; cbn; [exact H8|].
  apply gIH. destruct s8; cbn in *. destruct (Nat.ltb k NTEMP); [rewrite upd_length|]; exact H8.
Qed.

Lemma rs_apply_length : forall sn z, length (z_t z) = NTEMP -> length (z_t (rs_apply sn z)) = NTEMP.
Proof.
  intros sn z Hl.
  assert (H : length (y_t (abs (rs_apply sn z))) = NTEMP).
  { rewrite abs_apply. apply py_apply_length. cbn. rewrite map_length. exact Hl. }
  cbn in H. rewrite map_length in H. exact H.
Qed.

Theorem rs_refines_py : forall ops z, length (z_t z) = NTEMP -> rs_run z ops = py_run (abs z) ops.
Proof.
  induction ops as [|o ops gIH]; intros z Hl; [reflexivity|].
  destruct o as [r v|r| |]; cbn [rs_run py_run].
  - rewrite <- abs_set, abs_get. f_equal. apply gIH. rewrite rs_set_length. exact Hl.
  - rewrite abs_get. f_equal. apply gIH. exact Hl.
  - rewrite (rs_collect_eq z Hl), <- abs_init, <- abs_apply.
    f_equal.
    + unfold rs_obs_all, py_obs_all. apply map_ext. intros r. symmetry. apply abs_get.
    + apply gIH. apply rs_apply_length. reflexivity.
  - rewrite (rs_collect_eq z Hl).
    destruct (unpack (pack (py_capture (abs z))) (sn_t (py_capture (abs z)))) as [sn'|]; [|reflexivity].
    rewrite <- abs_init, <- abs_apply. f_equal.
    + unfold rs_obs_all, py_obs_all. apply map_ext. intros r. symmetry. apply abs_get.
    + apply gIH. apply rs_apply_length. reflexivity.
Qed.

Theorem py_rs_agree : forall ops, rs_run rs_init ops = py_run py_init ops.
Proof. intros ops. rewrite <- abs_init. apply rs_refines_py. reflexivity. Qed.

(* every reachable Python state is well formed *)
Fixpoint py_state_after (s : pyregs) (ws : list (reg * N)) : pyregs :=
  match ws with [] => s | (r, v) :: t => py_state_after (py_set s r v) t end.

Theorem wf_reachable : forall ws, wf (py_state_after py_init ws).
Proof.
  intros ws. generalize wf_init. generalize py_init.
  induction ws as [|[r v] t gIH]; intros s H; cbn; [exact H|]. apply gIH. apply wf_set. exact H.
Qed.
