(* Proofs/ExecAluMemProofs.v -- ALU instructions with an internal-memory source operand: ADD/SUB/ADC/SBC/AND/OR/XOR A,(n)
   with no prefix and with each of the 15 prefixes.  For every n, address, state with byte memory: executing the lifted IL
   leaves exactly the documented state (result, C, Z from A and the byte in the cell the prefix's mode names). *)
From Coq Require Import ZArith NArith List Bool Lia.
From BE Require Import Model.TableTypes Gen.Tables Model.Regs Model.Decode Model.IL Model.Lift Model.Static Model.Spec
  Model.Emu Proofs.AluProofs Proofs.ExecProofs Proofs.AccessProofs Proofs.ExecMemProofs Proofs.ExecAluDefs.
Import ListNotations.
Open Scope Z_scope.


Lemma alu_A_final_gen s' s x y r oc oz :
  rg s' = rg (setr (setr s gPC x) gPC y) -> (forall a, mem s' a = mem s a) -> halted s' = halted s ->
  arch_eq (setr (flags_of oc oz s') gA r) (flags_of oc oz (setr (setr s gPC y) gA r)).
Proof.
  intros Hr Hm Hh.
  pose proof (alu_A_final s x y r oc oz) as (A1 & A2 & A3). cbv zeta in A1, A2, A3.
  unfold arch_eq. split; [|split].
  - transitivity (rg (setr (flags_of oc oz (setr (setr s gPC x) gPC y)) gA r)).
    + unfold flags_of. destruct oc as [c|]; destruct oz as [z|]; unfold set_flag; rewrite !setr_rg; rewrite Hr; rewrite ?setr_rg; reflexivity.
    + unfold flags_of. exact A1.
  - intros a. unfold flags_of. destruct oc; destruct oz; unfold set_flag; cbn [setr with_rg mem]; apply Hm.
  - unfold flags_of. destruct oc; destruct oz; unfold set_flag; cbn [setr with_rg halted]; exact Hh.
Qed.

Lemma alu_A_final_cz s' s x y r c z :
  rg s' = rg (setr (setr s gPC x) gPC y) -> (forall a, mem s' a = mem s a) -> halted s' = halted s ->
  arch_eq (setr (set_flag (set_flag s' true c) false z) gA r) (set_flag (set_flag (setr (setr s gPC y) gA r) true c) false z).
Proof. exact (alu_A_final_gen s' s x y r (Some c) (Some z)). Qed.
Lemma alu_A_final_z s' s x y r z :
  rg s' = rg (setr (setr s gPC x) gPC y) -> (forall a, mem s' a = mem s a) -> halted s' = halted s ->
  arch_eq (setr (set_flag s' false z) gA r) (set_flag (setr (setr s gPC y) gA r) false z).
Proof. exact (alu_A_final_gen s' s x y r None (Some z)). Qed.

Lemma run_alu_A s1 s' op f e2 b r oc oz j :
  eval_expr e2 s1 = Some (b, s') -> eval_binop op 1 (getr s1 gA) b = Some (r, oc, oz) ->
  run (2 + j) [SSetReg 1 gA (EBin op 1 f (EReg 1 gA) e2)] 0 s1 = RDone (setr (apply_flags f 1 r oc oz s') gA r).
Proof.
  intros E B. replace (2 + j)%nat with (S (S j)) by lia. cbn [run nth_error exec_stmt eval_expr]. rewrite E, B. cbn [nth_error]. reflexivity.
Qed.

Definition alu_mem_is_spec (opc : N) : Prop :=
  forall c, In c pre_choices -> forall n, (n < 256)%N -> forall addr s, mem_wf s ->
  exists s' t, exec_decoded (mk_pre c opc [OReg RA 1; OIMem 1 n] 2) (first_byte c opc) addr s = XOk s' /\
               spec_exec (mk_pre c opc [OReg RA 1; OIMem 1 n] 2) addr s = Some t /\ arch_eq s' t.

Lemma rd_place_byte s m n : mem_wf s -> 0 <= rd_place s (place_of s (LIMem 1 n) m) < 256.
Proof.
  intros Hwf. cbn [place_of]. destruct (imem_cell s m n) as [a rs]. cbn [rd_place]. change (N.to_nat 1) with 1%nat. rewrite le_val_1. apply Hwf.
Qed.

(* common part: run the single statement, expose the operand value b and the state s' after the operand reads *)
Ltac alu_mem_setup cls :=
  let n := fresh "n" in let Hn := fresh "Hn" in let addr := fresh "addr" in let s := fresh "s" in let Hwf := fresh "Hwf" in
  intros n Hn addr s Hwf; lift_mem;
  match goal with |- context [run (fuel_for ?p ?s1) ?p 0 ?s1] =>
    let j := fresh "j" in let Hj := fresh "Hj" in
    destruct (fuel_split p s1 2) as [j Hj]; [cbn; lia|]; rewrite Hj;
    match p with [SSetReg _ _ (EBin _ _ _ _ ?e2)] =>
      match e2 with context [imem_addr ?m _] =>
        let W1 := fresh "W1" in assert (W1 : mem_wf s1) by (intros z; apply Hwf);
        let s' := fresh "s'" in let Ev := fresh "Ev" in let Ro := fresh "Ro" in
        destruct (imem_operand_read s1 m n 1%N W1 Hn ltac:(auto)) as (s' & Ev & Ro); cbv zeta in Ev;
        rewrite rd_place_imem_setr in Ev; rewrite rd_place_imem_setr in Ev;
        pose proof (rd_place_byte s m n Hwf) as Hb;
        set (b := rd_place s (place_of s (LIMem 1 n) m)) in *;
        pose proof (getr_A_range s) as Ha
      end
    end
  end.


Ltac alu_mem_finish s s' b Ro :=
  cbn [place_of];
  match goal with |- context [rd_place s (let '(a, rs) := imem_cell s ?m ?n in PlMem a 1 rs None)] =>
    change (rd_place s (let '(a, rs) := imem_cell s m n in PlMem a 1 rs None)) with b end;
  unfold pmod, pwidth, width_of_place, p2, rd_place; change (2 ^ (8 * Z.of_N 1)) with 256; change (2 ^ bits 1) with 256;
  rewrite ?(Z.mod_small b 256) by lia;
  unfold alu_add, alu_sub, alu_logic, set_cz, wr_place, apply_flags, zf; cbn [r_val r_c r_z];
  let R1 := fresh "R1" in let R2 := fresh "R2" in let R3 := fresh "R3" in
  destruct Ro as (R1 & R2 & R3 & _ & _);
  first [ eapply (alu_A_final_cz s' s) | eapply (alu_A_final_z s' s) ];
  [exact R1 | intros z; rewrite R2; reflexivity | rewrite R3; reflexivity].

Ltac alu_mem_case cls op fl lem :=
  alu_mem_setup cls;
  match goal with
  | Ev : eval_expr _ ?s1 = Some (?b, ?s'), Ro : reads_only ?s1 ?s' _, Ha : 0 <= getr ?s gA < 256, Hb : 0 <= ?b < 256, j : nat |- _ =>
      let HB := fresh "HB" in pose proof (lem (getr s1 gA) b) as HB;
      rewrite (run_alu_A s1 s' op fl _ b _ _ _ j Ev HB); clear HB; rewrite !getr_setr_pc by discriminate;
      eexists; eexists; split; [reflexivity|]; split; [spec_mem cls; reflexivity|];
      alu_mem_finish s s' b Ro
  end.

Theorem add_A_imem : alu_mem_is_spec 66.
Proof.
  intros c Hc. cbn [In pre_choices map] in Hc.
  repeat (destruct Hc as [<- | Hc]; [alu_mem_case I_ADD B_ADD FCZ (il_add_documented 1)|]). destruct Hc.
Qed.

Theorem sub_A_imem : alu_mem_is_spec 74.
Proof.
  intros c Hc. cbn [In pre_choices map] in Hc.
  repeat (destruct Hc as [<- | Hc]; [alu_mem_case I_SUB B_SUB FCZ (il_sub_documented 1)|]). destruct Hc.
Qed.
Theorem and_A_imem : alu_mem_is_spec 119.
Proof.
  intros c Hc. cbn [In pre_choices map] in Hc.
  repeat (destruct Hc as [<- | Hc]; [alu_mem_case I_AND B_AND FZ il_and_documented|]). destruct Hc.
Qed.
Theorem or_A_imem : alu_mem_is_spec 127.
Proof.
  intros c Hc. cbn [In pre_choices map] in Hc.
  repeat (destruct Hc as [<- | Hc]; [alu_mem_case I_OR B_OR FZ il_or_documented|]). destruct Hc.
Qed.
Theorem xor_A_imem : alu_mem_is_spec 111.
Proof.
  intros c Hc. cbn [In pre_choices map] in Hc.
  repeat (destruct Hc as [<- | Hc]; [alu_mem_case I_XOR B_XOR FZ il_xor_documented|]). destruct Hc.
Qed.


(* ADC / SBC: the operand is (byte + C) at 3-byte width *)
Lemma eval_carry_operand s1 s' e b : eval_expr e s1 = Some (b, s') ->
  eval_expr (EBin B_ADD 3 F0 e (EFlag true)) s1 = Some (band (b + get_flag s' true) (maskw 3), s').
Proof. intros E. cbn [eval_expr]. rewrite E. reflexivity. Qed.

Lemma get_flag_rg s s' c : rg s' = rg s -> get_flag s' c = get_flag s c.
Proof. intros H. unfold get_flag, getr. rewrite H. reflexivity. Qed.

Ltac alu_mem_finish_c s s' b Ro fix_arith :=
  let R1 := fresh "R1" in let R2 := fresh "R2" in let R3 := fresh "R3" in
  destruct Ro as (R1 & R2 & R3 & _ & _);
  rewrite (get_flag_rg _ s' true R1); rewrite !get_flag_setr_pc;
  let Hc := fresh "Hc" in pose proof (flag_range s true) as Hc;
  unfold flagC; fold (get_flag s true);
  let cc := fresh "cc" in set (cc := get_flag s true) in *;
  rewrite (band3 (b + cc)) by lia;
  cbn [place_of];
  match goal with |- context [rd_place s (let '(a, rs) := imem_cell s ?m ?n in PlMem a 1 rs None)] =>
    change (rd_place s (let '(a, rs) := imem_cell s m n in PlMem a 1 rs None)) with b end;
  unfold pmod, pwidth, width_of_place, p2, rd_place; change (2 ^ (8 * Z.of_N 1)) with 256; change (2 ^ bits 1) with 256;
  rewrite ?(Z.mod_small b 256) by lia;
  unfold alu_add, alu_sub, set_cz, wr_place, apply_flags, zf; cbn [r_val r_c r_z];
  fix_arith (getr s gA) b cc;
  eapply (alu_A_final_cz s' s);
  [exact R1 | intros z; rewrite R2; reflexivity | rewrite R3; reflexivity].

Ltac fix_add a b c :=
  replace (a + (b + c) + 0) with (a + b + c) by lia.
Ltac fix_sub a b c :=
  replace (a - (b + c) - 0) with (a - b - c) by lia;
  replace (a <? b + c + 0) with (a <? b + c)
    by (destruct (a <? b + c) eqn:?E1; destruct (a <? b + c + 0) eqn:?E2; lia).

Ltac alu_mem_case_c cls op fl lem fix_arith :=
  alu_mem_setup cls;
  match goal with
  | Ev : eval_expr _ ?s1 = Some (?b, ?s'), Ro : reads_only ?s1 ?s' _, Ha : 0 <= getr ?s gA < 256, Hb : 0 <= ?b < 256, j : nat |- _ =>
      let Ev2 := fresh "Ev2" in pose proof (eval_carry_operand _ _ _ _ Ev) as Ev2;
      let HB := fresh "HB" in pose proof (lem (getr s1 gA) (band (b + get_flag s' true) (maskw 3))) as HB;
      rewrite (run_alu_A s1 s' op fl _ _ _ _ _ j Ev2 HB); clear HB; rewrite !getr_setr_pc by discriminate;
      eexists; eexists; split; [reflexivity|]; split; [spec_mem cls; reflexivity|];
      alu_mem_finish_c s s' b Ro fix_arith
  end.

Theorem adc_A_imem : alu_mem_is_spec 82.
Proof.
  intros c Hc. cbn [In pre_choices map] in Hc.
  repeat (destruct Hc as [<- | Hc]; [alu_mem_case_c I_ADC B_ADD FCZ (il_add_documented 1) fix_add|]). destruct Hc.
Qed.
Theorem sbc_A_imem : alu_mem_is_spec 90.
Proof.
  intros c Hc. cbn [In pre_choices map] in Hc.
  repeat (destruct Hc as [<- | Hc]; [alu_mem_case_c I_SBC B_SUB FCZ (il_sub_documented 1) fix_sub|]). destruct Hc.
Qed.

Lemma alu_mem_opcodes_check :
  map (fun o => (d_cls (entry_of o), d_ops (entry_of o))) [66; 74; 82; 90; 119; 127; 111]%N =
  map (fun c => (c, [PReg RA 1; PIMem 1])) [I_ADD; I_SUB; I_ADC; I_SBC; I_AND; I_OR; I_XOR].
Proof. vm_compute. reflexivity. Qed.
