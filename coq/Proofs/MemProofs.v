(* Proofs about Model/MemBus.v (property C11). *)
From Coq Require Import ZArith NArith List Bool Lia ZifyBool ZifyN ZifyNat.
From BE Require Import Model.MemBus.
Import ListNotations.
Ltac Zify.zify_post_hook ::= Z.to_euclidean_division_equations.
Open Scope N_scope.

(* ---- cells and stores ------------------------------------------------------------------------ *)
Lemma cell_eqb_eq : forall a b, cell_eqb a b = true <-> a = b.
Proof.
  intros a b. destruct a, b; cbn; try (split; [discriminate|intros H; inversion H]).
  - rewrite N.eqb_eq. split; [intros ->; reflexivity|intros H; inversion H; reflexivity].
  - rewrite N.eqb_eq. split; [intros ->; reflexivity|intros H; inversion H; reflexivity].
  - rewrite andb_true_iff, !N.eqb_eq. split; [intros [-> ->]; reflexivity|intros H; inversion H; split; reflexivity].
  - rewrite N.eqb_eq. split; [intros ->; reflexivity|intros H; inversion H; reflexivity].
Qed.

Lemma cell_eqb_refl : forall a, cell_eqb a a = true.
Proof. intros. apply cell_eqb_eq. reflexivity. Qed.

Lemma cell_eqb_neq : forall a b, a <> b -> cell_eqb a b = false.
Proof. intros a b H. destruct (cell_eqb a b) eqn:E; [apply cell_eqb_eq in E; contradiction|reflexivity]. Qed.

(* ---- generic bus laws: any address-to-cell maps rt / wt ---------------------------------------- *)
Section Bus.
  Variable cfg : config.
  Variable rt : N -> rtarget.
  Variable wt : N -> wtarget.
  Definition bread (s : store) (a : N) : N := rd cfg s (rt a).
  Definition bwrite (s : store) (a v : N) : store := wr s (wt a) v.

  (* a byte written to a location is what is next read from it *)
  Lemma read_after_write : forall s a v c, wt a = WCell c -> rt a = RCell c -> bread (bwrite s a v) a = v mod 256.
  Proof.
    intros s a v c Hw Hr. unfold bread, bwrite. rewrite Hw, Hr. unfold rd, wr, rd_cell. cbn [lookup]. rewrite cell_eqb_refl. reflexivity.
  Qed.

  (* no other location changes *)
  Lemma write_frame : forall s a v c b, wt a = WCell c -> rt b <> RCell c -> bread (bwrite s a v) b = bread s b.
  Proof.
    intros s a v c b Hw Hr. unfold bread, bwrite. rewrite Hw. cbn [wr].
    destruct (rt b) as [c'|k]; [|reflexivity]. unfold rd, rd_cell. cbn [lookup].
    rewrite cell_eqb_neq; [reflexivity|]. intro E. subst. apply Hr. reflexivity.
  Qed.

  (* a swallowed write (ROM, read-only window, absent card) changes nothing anywhere *)
  Lemma write_swallowed : forall s a v b, wt a = WSwallow -> bread (bwrite s a v) b = bread s b.
  Proof. intros s a v b Hw. unfold bread, bwrite. rewrite Hw. reflexivity. Qed.

  (* all aliases of a location read the same value, in every state *)
  Lemma aliases_agree : forall s a b, rt a = rt b -> bread s a = bread s b.
  Proof. intros s a b H. unfold bread. rewrite H. reflexivity. Qed.

  (* after any sequence of byte writes, a location holds the value of the last write that targeted its
     cell, or its initial contents *)
  Fixpoint last_write (ws : list (N * N)) (c : cell) (acc : option N) : option N :=
    match ws with
    | [] => acc
    | (a, v) :: t =>
        last_write t c (match wt a with WCell c' => if cell_eqb c' c then Some (v mod 256) else acc | WSwallow => acc end)
    end.

  Lemma writes_are_a_map : forall ws s c,
    rd_cell cfg (fold_left (fun st w => bwrite st (fst w) (snd w)) ws s) c =
    match last_write ws c None with Some v => v | None => rd_cell cfg s c end.
  Proof.
    assert (G : forall ws s c acc,
      (match acc with Some v => rd_cell cfg s c = v | None => True end) ->
      rd_cell cfg (fold_left (fun st w => bwrite st (fst w) (snd w)) ws s) c =
      match last_write ws c acc with Some v => v | None => rd_cell cfg s c end).
    { induction ws as [|[a v] t IH]; intros s c acc Hacc; cbn [fold_left last_write].
      - destruct acc; [exact Hacc|reflexivity].
      - cbn [fst snd]. unfold bwrite at 2. destruct (wt a) as [c'|] eqn:Ew; cbn [wr].
        + destruct (cell_eqb c' c) eqn:Ec.
          * rewrite (IH ((c', v mod 256) :: s) c (Some (v mod 256))).
            -- destruct (last_write t c (Some (v mod 256))) eqn:El; [reflexivity|].
               (* last_write with Some acc is never None *)
               exfalso. clear - El. revert El. generalize (v mod 256). induction t as [|[a1 v1] t IHt]; intros x El; cbn in El; [discriminate|].
               destruct (wt a1); [destruct (cell_eqb c0 c)|]; eapply IHt; exact El.
            -- unfold rd_cell; cbn [lookup]. rewrite Ec. reflexivity.
          * rewrite (IH ((c', v mod 256) :: s) c acc).
            -- destruct (last_write t c acc); [reflexivity|]. unfold rd_cell; cbn [lookup]. rewrite Ec. reflexivity.
            -- destruct acc; [|exact I]. unfold rd_cell in *; cbn [lookup]. rewrite Ec. exact Hacc.
        + apply IH. exact Hacc. }
    intros ws s c. apply G. exact I.
  Qed.
End Bus.

(* ---- sorting keeps exactly the configured overlays -------------------------------------------- *)
Lemma ins_sorted_in : forall o l x, In x (ins_sorted o l) <-> x = o \/ In x l.
Proof.
  intros o. induction l as [|h t IH]; intros x; cbn.
  - split; [intros [H|[]]; left; auto|intros [H|[]]; left; auto].
  - destruct (ov_le o h); cbn; [split; intros [H|H]; auto; destruct H; auto|].
    rewrite IH. split; [intros [H|[H|H]]; auto|intros [H|[H|H]]; auto].
Qed.

Lemma sort_ovls_in : forall l x, In x (sort_ovls l) <-> In x l.
Proof.
  induction l as [|h t IH]; intros x; cbn; [reflexivity|].
  rewrite ins_sorted_in, IH. split; intros [H|H]; auto.
Qed.

(* ---- 24-bit wrap ------------------------------------------------------------------------------- *)
Lemma wrap24 : forall a k, (a + 16777216 * k) mod 16777216 = a mod 16777216.
Proof. intros. rewrite N.mul_comm, N.mod_add by lia. reflexivity. Qed.

Theorem py_wrap24 : forall cfg a k, py_rt cfg (a + 16777216 * k) = py_rt cfg a /\ py_wt cfg (a + 16777216 * k) = py_wt cfg a.
Proof. intros. unfold py_rt, py_wt. rewrite wrap24. split; reflexivity. Qed.

Theorem rs_wrap24 : forall cfg a k, rs_rt cfg (a + 16777216 * k) = rs_rt cfg a /\ rs_wt cfg (a + 16777216 * k) = rs_wt cfg a.
Proof. intros. unfold rs_rt, rs_wt. rewrite wrap24. split; reflexivity. Qed.

(* ---- ROM overlays are immutable: no address ever targets a cell of a read-only overlay ------------ *)
Definition all_ro (l : list overlay) (id : N) : Prop :=
  forall o, In o l -> o_id o = id -> match o_kind o with KData _ ro => ro = true | KAbsent => True end.

Lemma py_bus_w_not_ro : forall cfg l a id off, all_ro l id -> py_bus_w cfg l a <> WCell (COvl id off).
Proof.
  intros cfg. induction l as [|o t IH]; intros a id off Hro; cbn [py_bus_w]; [discriminate|].
  assert (Ht : all_ro t id) by (intros x Hx; apply Hro; right; exact Hx).
  destruct (contains o a); [|apply IH; exact Ht].
  destruct (o_kind o) as [len ro|] eqn:Ek.
  - destruct (negb ro && (a - o_start o <? len)) eqn:E1.
    + intro H. inversion H; subst. specialize (Hro o (or_introl eq_refl) eq_refl). rewrite Ek in Hro. subst ro. discriminate.
    + destruct ro; [discriminate|apply IH; exact Ht].
  - destruct (card_present cfg && card_writable cfg && (a - CARD_START <? card_len cfg)); discriminate.
Qed.

Theorem py_rom_immutable : forall cfg a id off,
  all_ro (ovls cfg) id -> id <> 0 -> py_wt cfg a <> WCell (COvl id off).
Proof.
  intros cfg a id off Hro Hid. unfold py_wt. destruct (1048576 <=? a mod 16777216); [discriminate|].
  refine (py_bus_w_not_ro cfg _ _ id off _). unfold all_ro. intros o Ho Hi. unfold py_sorted in Ho. apply (proj1 (sort_ovls_in _ _)) in Ho.
  cbn [In] in Ho. destruct Ho as [<-|Ho]; [cbn in Hi; congruence|apply Hro; assumption].
Qed.

Lemma rs_ovl_w_not_ro : forall l a id off, all_ro l id -> rs_ovl_w l a <> Some (WCell (COvl id off)).
Proof.
  induction l as [|o t IH]; intros a id off Hro; cbn [rs_ovl_w]; [discriminate|].
  assert (Ht : all_ro t id) by (intros x Hx; apply Hro; right; exact Hx).
  destruct (contains o a); [|apply IH; exact Ht].
  unfold ov_write. destruct (o_kind o) as [len ro|] eqn:Ek; [|discriminate].
  destruct (a - o_start o <? len).
  - destruct ro eqn:Er; [discriminate|]. intro H. inversion H; subst.
    specialize (Hro o (or_introl eq_refl) eq_refl). rewrite Ek in Hro. discriminate.
  - destruct ro; [discriminate|apply IH; exact Ht].
Qed.

Theorem rs_rom_immutable : forall cfg a id off, all_ro (ovls cfg) id -> rs_wt cfg a <> WCell (COvl id off).
Proof.
  intros cfg a id off Hro. unfold rs_wt. destruct (internal_index (a mod 16777216)); [discriminate|].
  destruct (rs_ovl_w (rs_sorted cfg) (a mod 16777216)) as [w|] eqn:E.
  - intro H. subst w. revert E. apply rs_ovl_w_not_ro. unfold all_ro. intros o Ho. apply Hro. unfold rs_sorted in Ho. apply (proj1 (sort_ovls_in _ _)) in Ho. exact Ho.
  - destruct (in_ro cfg _ 1); discriminate.
Qed.

(* read-only ranges of the Rust bus swallow byte writes to plain external memory *)
Theorem rs_readonly_range_swallows : forall cfg a,
  internal_index (a mod 16777216) = None -> rs_ovl_w (rs_sorted cfg) (a mod 16777216) = None ->
  in_ro cfg (rs_mirror cfg (a mod 16777216)) 1 = true -> rs_wt cfg a = WSwallow.
Proof. intros cfg a H1 H2 H3. unfold rs_wt. rewrite H1, H2, H3. reflexivity. Qed.

(* ---- internal and external spaces (Rust): disjoint cells ----------------------------------------- *)
Lemma rs_ovl_r_not_int : forall l a k, rs_ovl_r l a <> Some (RCell (CInt k)).
Proof.
  induction l as [|o t IH]; intros a k; cbn [rs_ovl_r]; [discriminate|].
  destruct (contains o a); [|apply IH]. unfold ov_read. destruct (o_kind o); [|discriminate].
  destruct (a - o_start o <? len); [discriminate|apply IH].
Qed.

Lemma rs_ovl_w_not_int : forall l a k, rs_ovl_w l a <> Some (WCell (CInt k)).
Proof.
  induction l as [|o t IH]; intros a k; cbn [rs_ovl_w]; [discriminate|].
  destruct (contains o a); [|apply IH]. unfold ov_write. destruct (o_kind o); [|discriminate].
  destruct (a - o_start o <? len); [destruct ro; discriminate|destruct ro; [discriminate|apply IH]].
Qed.

Theorem rs_spaces_disjoint : forall cfg a k,
  (rs_rt cfg a = RCell (CInt k) <-> internal_index (a mod 16777216) = Some k) /\
  (rs_wt cfg a = WCell (CInt k) <-> internal_index (a mod 16777216) = Some k).
Proof.
  intros cfg a k. unfold rs_rt, rs_wt. destruct (internal_index (a mod 16777216)) as [j|] eqn:E.
  - split; split; intros H; inversion H; reflexivity.
  - split; split; intros H; try discriminate.
    + destruct (rs_ovl_r (rs_sorted cfg) (a mod 16777216)) as [r|] eqn:Eo; [|discriminate].
      subst r. exfalso. eapply rs_ovl_r_not_int; exact Eo.
    + destruct (rs_ovl_w (rs_sorted cfg) (a mod 16777216)) as [w|] eqn:Eo.
      * subst w. exfalso. eapply rs_ovl_w_not_int; exact Eo.
      * destruct (in_ro cfg _ 1); discriminate.
Qed.

Theorem rs_internal_is_ram : forall cfg a k, internal_index (a mod 16777216) = Some k ->
  rs_rt cfg a = RCell (CInt k) /\ rs_wt cfg a = WCell (CInt k) /\ k < 256.
Proof.
  intros cfg a k H. unfold rs_rt, rs_wt. rewrite H. repeat split.
  unfold internal_index in H. destruct ((1048576 <=? a mod 16777216) && (a mod 16777216 <? 1048832)) eqn:E; [|discriminate].
  inversion H; subst. lia.
Qed.

(* plain external RAM (no overlay answers, not read-only): read and write target the same cell, the canonical
   one: 24-bit wrap, then the mirror window folded onto the internal RAM block, then modulo 1 MiB *)
Theorem rs_plain_ram : forall cfg a,
  internal_index (a mod 16777216) = None ->
  rs_ovl_r (rs_sorted cfg) (a mod 16777216) = None -> rs_ovl_w (rs_sorted cfg) (a mod 16777216) = None ->
  in_ro cfg (rs_mirror cfg (a mod 16777216)) 1 = false ->
  rs_rt cfg a = RCell (CExt (rs_mirror cfg (a mod 16777216) mod 1048576)) /\
  rs_wt cfg a = WCell (CExt (rs_mirror cfg (a mod 16777216) mod 1048576)).
Proof. intros cfg a H1 H2 H3 H4. unfold rs_rt, rs_wt. rewrite H1, H2, H3, H4. split; reflexivity. Qed.

(* the documented mirror: with the mirror enabled, 0x80000..0xBFFFF folds onto 0xB8000 + (a mod 0x8000) *)
Theorem rs_mirror_fold : forall cfg a, mirror cfg = true -> 524288 <= a <= 786431 ->
  rs_mirror cfg a = 753664 + a mod 32768 /\ rs_mirror cfg (rs_mirror cfg a) = rs_mirror cfg a.
Proof.
  intros cfg a Hm Ha. unfold rs_mirror. rewrite Hm.
  destruct ((524288 <=? a)) eqn:E1; destruct (a <=? 786431) eqn:E2; try lia. cbn [andb].
  split; [reflexivity|].
  destruct (524288 <=? 753664 + a mod 32768) eqn:E3; destruct (753664 + a mod 32768 <=? 786431) eqn:E4; try lia.
  cbn [andb]. lia.
Qed.

(* ---- Python: plain RAM and the internal block --------------------------------------------------- *)
Lemma py_bus_none : forall cfg l a, (forall o, In o l -> contains o a = false) ->
  py_bus_r cfg l a = RCell (CExt a) /\ py_bus_w cfg l a = WCell (CExt a).
Proof.
  intros cfg. induction l as [|o t IH]; intros a H; cbn; [split; reflexivity|].
  rewrite (H o (or_introl eq_refl)). apply IH. intros x Hx. apply H. right. exact Hx.
Qed.

Theorem py_plain_ram : forall cfg a,
  a mod 16777216 < 1048576 ->
  (forall o, In o (card_slot :: ovls cfg) -> contains o (a mod 16777216) = false) ->
  py_rt cfg a = RCell (CExt (a mod 16777216)) /\ py_wt cfg a = WCell (CExt (a mod 16777216)).
Proof.
  intros cfg a Ha H. unfold py_rt, py_wt.
  destruct (1048576 <=? a mod 16777216) eqn:E; [lia|].
  apply py_bus_none. intros o Ho. apply H. unfold py_sorted in Ho. apply (proj1 (sort_ovls_in _ _)) in Ho. exact Ho.
Qed.

(* Python keeps the 256 internal bytes in the last 256 bytes of the external array *)
Theorem py_internal_cell : forall cfg a, 1048576 <= a mod 16777216 ->
  py_rt cfg a = RCell (CExt (1048320 + (a mod 16777216 - 1048576) mod 256)) /\
  py_wt cfg a = WCell (CExt (1048320 + (a mod 16777216 - 1048576) mod 256)).
Proof. intros cfg a H. unfold py_rt, py_wt. destruct (1048576 <=? a mod 16777216) eqn:E; [split; reflexivity|lia]. Qed.

(* multi-byte accesses of the Python bus are by construction the little-endian composition of byte accesses *)
Theorem py_load_le : forall cfg s a,
  py_load cfg s a 2 = py_read cfg s a + 256 * py_read cfg s (a + 1) /\
  py_load cfg s a 3 = py_read cfg s a + 256 * (py_read cfg s (a + 1) + 256 * py_read cfg s (a + 2)).
Proof. intros. cbn [py_load]. rewrite !N.mul_0_r, !N.add_0_r. replace (a + 1 + 1) with (a + 2) by lia. split; reflexivity. Qed.

Theorem py_store_le : forall cfg s a v,
  py_store cfg s a v 2 = py_write cfg (py_write cfg s a v) (a + 1) (v / 256).
Proof. reflexivity. Qed.

(* Rust: inside the internal block, and in plain external memory away from the mirror window, a multi-byte
   load is the little-endian composition of the byte loads *)
Theorem rs_load_internal_le : forall cfg s a k, internal_index (a mod 16777216) = Some k -> k + 2 <= 256 ->
  rs_load cfg s a 16 = rs_read cfg s a + 256 * rs_read cfg s (a mod 16777216 + 1).
Proof.
  intros cfg s a k H Hk. unfold rs_load, rs_read, rs_rt. rewrite H.
  replace (nbytes_ceil 16) with 2%nat by reflexivity.
  destruct (k + N.of_nat 2 <=? 256) eqn:E; [|lia]. cbn [seqN map le_cells rd].
  assert (H2 : internal_index ((a mod 16777216 + 1) mod 16777216) = Some (k + 1)).
  { unfold internal_index in *. destruct ((1048576 <=? a mod 16777216) && (a mod 16777216 <? 1048832)) eqn:E1; [|discriminate].
    inversion H; subst k. rewrite N.mod_small by lia.
    destruct ((1048576 <=? a mod 16777216 + 1) && (a mod 16777216 + 1 <? 1048832)) eqn:E2; [f_equal; lia|lia]. }
  rewrite H2. cbn [rd]. rewrite N.mul_0_r, N.add_0_r. reflexivity.
Qed.
