(* Proofs/TempSweepDefs.v -- the finite structural sweep behind C07: every (prefix, opcode, second byte) with the
   remaining operand bytes zero is decoded, lifted and checked for scratch-register definite assignment. *)
From Coq Require Import ZArith NArith List Bool.
From BE Require Import Model.TableTypes Gen.Tables Model.Regs Model.Decode Model.IL Model.Lift Model.TempSafe Model.Emu Proofs.TempProofs.
Import ListNotations.

Fixpoint upto_n (n : nat) : list N := match n with O => [] | S k => upto_n k ++ [N.of_nat k] end.

Lemma upto_n_in (n : nat) (x : N) : (x < N.of_nat n)%N -> In x (upto_n n).
Proof.
  induction n as [|n IH]; intros H; [exfalso; apply (N.nlt_0_r x); exact H|].
  cbn [upto_n]. apply in_or_app.
  destruct (N.eq_dec x (N.of_nat n)) as [->|Hne]; [right; left; reflexivity|left; apply IH].
  rewrite Nat2N.inj_succ in H. apply N.lt_succ_r in H. apply N.le_lteq in H. destruct H as [H|H]; [exact H|contradiction].
Qed.

Definition safe_bytes (bs : list N) : bool :=
  match decode bs with
  | DOk i => instr_temps_safe i 4096
  | _ => true
  end.

Definition tail0 : list N := [0; 0; 0; 0; 0; 0]%N.

(* pre = [] or [p] *)
Definition sweep_pre (pre : list N) : bool :=
  forallb (fun opc => forallb (fun b2 => safe_bytes (pre ++ [opc; b2] ++ tail0)) (upto_n 256)) (upto_n 256).

Lemma sweep_pre_all pre : sweep_pre pre = true ->
  forall opc b2, (opc < 256)%N -> (b2 < 256)%N -> safe_bytes (pre ++ [opc; b2] ++ tail0) = true.
Proof.
  intros H opc b2 Ho Hb. unfold sweep_pre in H. rewrite forallb_forall in H.
  specialize (H opc (upto_n_in 256 opc Ho)). rewrite forallb_forall in H. exact (H b2 (upto_n_in 256 b2 Hb)).
Qed.
