(* Proofs/AsmProofs.v -- C10: the two passes of the assembler lay a program out identically.
   For every program whose .ORG arguments are literals and whose sections are the four built-in ones, every line
   sees the same address in pass one (where labels are defined and sizes summed) and in pass two (where bytes are
   placed), except inside .bss, which emits nothing.  Hence a label's value is the address at which the bytes of
   the statements following it are placed. *)
From Coq Require Import Arith NArith List Bool Lia.
From BE Require Import Model.AsmLayout.
Import ListNotations.
Open Scope N_scope.

Lemma lookup_update m k v k' : lookup (update m k v) k' = if k' =? k then Some v else lookup m k'.
Proof.
  induction m as [|[a b] t IH]; cbn [update lookup].
  - destruct (k' =? k); reflexivity.
  - destruct (k =? a) eqn:E; cbn [lookup].
    + apply N.eqb_eq in E. subst a. destruct (k' =? k); reflexivity.
    + rewrite IH. destruct (k' =? a) eqn:E2; [|reflexivity].
      apply N.eqb_eq in E2. subst a. destruct (k' =? k) eqn:E3; [|reflexivity].
      apply N.eqb_eq in E3. subst k'. rewrite N.eqb_refl in E. discriminate.
Qed.

Lemma get_ptr_update m k v k' : get_ptr (update m k v) k' = if k' =? k then v else get_ptr m k'.
Proof. unfold get_ptr. rewrite lookup_update. destruct (k' =? k); reflexivity. Qed.

(* programs in the scope of the agreement theorem *)
Definition plain_line (l : line) : Prop :=
  match l_stmt l with
  | Some (KOrg (OSym _)) => False
  | Some (KSection s) => s < 4
  | _ => True
  end.

(* the two pointer maps agree outside .bss and know exactly the built-in sections *)
Definition ptr_inv (m1 m2 : amap) : Prop :=
  (forall s, s < 4 -> lookup m1 s <> None /\ lookup m2 s <> None) /\
  (forall s, s <> SEC_BSS -> get_ptr m1 s = get_ptr m2 s).

Lemma ptr_inv_update m1 m2 k v : ptr_inv m1 m2 -> ptr_inv (update m1 k v) (update m2 k v).
Proof.
  intros [Hk Hv]. split.
  - intros s Hs. rewrite !lookup_update. destruct (s =? k); [split; discriminate|apply Hk; exact Hs].
  - intros s Hs. rewrite !get_ptr_update. destruct (s =? k); [reflexivity|apply Hv; exact Hs].
Qed.

Lemma ptr_inv_update_bss m1 m2 a b : ptr_inv m1 m2 -> ptr_inv (update m1 SEC_BSS a) (update m2 SEC_BSS b).
Proof.
  intros [Hk Hv]. split.
  - intros s Hs. rewrite !lookup_update. destruct (s =? SEC_BSS); [split; discriminate|apply Hk; exact Hs].
  - intros s Hs. rewrite !get_ptr_update. destruct (s =? SEC_BSS) eqn:E; [apply N.eqb_eq in E; contradiction|apply Hv; exact Hs].
Qed.

(* one line in both passes *)
Lemma line_agree syms a b l a' b' :
  plain_line l -> ptr_inv (p_ptr a) (q_ptr b) -> p_cur a = q_cur b ->
  p1_line a l = inl a' -> p2_line syms b l = inl b' ->
  ptr_inv (p_ptr a') (q_ptr b') /\ p_cur a' = q_cur b' /\
  (exists x y, p_addrs a' = x :: p_addrs a /\ q_addrs b' = y :: q_addrs b /\ q_secs b' = q_cur b' :: q_secs b /\
               (q_cur b' <> SEC_BSS -> x = y)).
Proof.
  intros Hp Hi Hc H1 H2. unfold p1_line in H1. unfold p2_line in H2. unfold plain_line in Hp.
  destruct Hi as [Hk Hv].
  destruct (l_stmt l) as [[s|[v|lb]|n]|] eqn:Hs.
  - (* SECTION s *)
    destruct (Hk s Hp) as [K1 K2].
    destruct (lookup (p_ptr a) s) eqn:L1; [|contradiction]. destruct (lookup (q_ptr b) s) eqn:L2; [|contradiction].
    cbn [fst snd] in *.
    destruct (l_label l) as [lb|].
    + destruct (lookup (p_syms a) lb); [discriminate|]. injection H1 as <-. injection H2 as <-. cbn.
      split; [split; assumption|]. split; [reflexivity|].
      eexists. eexists. repeat split. intros Hb. apply Hv. exact Hb.
    + injection H1 as <-. injection H2 as <-. cbn.
      split; [split; assumption|]. split; [reflexivity|].
      eexists. eexists. repeat split. intros Hb. apply Hv. exact Hb.
  - (* .ORG literal *)
    assert (Hi' : ptr_inv (update (p_ptr a) (p_cur a) v) (update (q_ptr b) (q_cur b) v)).
    { rewrite Hc. apply ptr_inv_update. split; assumption. }
    destruct (l_label l) as [lb|].
    + destruct (lookup (p_syms a) lb); [discriminate|]. injection H1 as <-. injection H2 as <-. cbn.
      split; [exact Hi'|]. split; [exact Hc|].
      eexists. eexists. repeat split. intros Hb. rewrite !get_ptr_update, Hc, N.eqb_refl. reflexivity.
    + injection H1 as <-. injection H2 as <-. cbn.
      split; [exact Hi'|]. split; [exact Hc|].
      eexists. eexists. repeat split. intros Hb. rewrite !get_ptr_update, Hc, N.eqb_refl. reflexivity.
  - contradiction.
  - (* bytes *)
    destruct (l_label l) as [lb|].
    + destruct (lookup (p_syms a) lb); [discriminate|]. injection H1 as <-. injection H2 as <-. cbn.
      rewrite Hc.
      destruct (N.eq_dec (q_cur b) SEC_BSS) as [Eb|Nb].
      * split; [rewrite Eb; apply ptr_inv_update_bss; split; assumption|]. split; [reflexivity|].
        eexists. eexists. repeat split. intros Hb. contradiction.
      * rewrite (Hv (q_cur b) Nb).
        split; [apply ptr_inv_update; split; assumption|]. split; [reflexivity|].
        eexists. eexists. repeat split.
    + injection H1 as <-. injection H2 as <-. cbn.
      rewrite Hc.
      destruct (N.eq_dec (q_cur b) SEC_BSS) as [Eb|Nb].
      * split; [rewrite Eb; apply ptr_inv_update_bss; split; assumption|]. split; [reflexivity|].
        eexists. eexists. repeat split. intros Hb. contradiction.
      * rewrite (Hv (q_cur b) Nb).
        split; [apply ptr_inv_update; split; assumption|]. split; [reflexivity|].
        eexists. eexists. repeat split.
  - (* label only / empty *)
    destruct (l_label l) as [lb|].
    + destruct (lookup (p_syms a) lb); [discriminate|]. injection H1 as <-. injection H2 as <-. cbn.
      split; [split; assumption|]. split; [exact Hc|].
      eexists. eexists. repeat split. intros Hb. rewrite Hc. apply Hv. exact Hb.
    + injection H1 as <-. injection H2 as <-. cbn.
      split; [split; assumption|]. split; [exact Hc|].
      eexists. eexists. repeat split. intros Hb. rewrite Hc. apply Hv. exact Hb.
Qed.

(* line-wise agreement of three lists (newest first): pass-one address, pass-two address, section *)
Inductive agree3 : list N -> list N -> list N -> Prop :=
  | A3nil : agree3 [] [] []
  | A3cons x y s xs ys ss : (s <> SEC_BSS -> x = y) -> agree3 xs ys ss -> agree3 (x :: xs) (y :: ys) (s :: ss).

Lemma runs_agree syms : forall ls a b a' b',
  Forall plain_line ls -> ptr_inv (p_ptr a) (q_ptr b) -> p_cur a = q_cur b ->
  agree3 (p_addrs a) (q_addrs b) (q_secs b) ->
  p1_run a ls = inl a' -> p2_run syms b ls = inl b' ->
  agree3 (p_addrs a') (q_addrs b') (q_secs b').
Proof.
  induction ls as [|l t IH]; intros a b a' b' Hp Hi Hc Ha H1 H2; cbn [p1_run p2_run] in *.
  - injection H1 as <-. injection H2 as <-. exact Ha.
  - inversion Hp as [|? ? Hl Ht]; subst.
    destruct (p1_line a l) as [a1|] eqn:E1; [|discriminate].
    destruct (p2_line syms b l) as [b1|] eqn:E2; [|discriminate].
    destruct (line_agree syms a b l a1 b1 Hl Hi Hc E1 E2) as (Hi1 & Hc1 & x & y & Hx & Hy & Hs & Hxy).
    apply (IH a1 b1 a' b' Ht Hi1 Hc1); [|exact H1|exact H2].
    rewrite Hx, Hy, Hs. constructor; assumption.
Qed.

Lemma agree3_rev : forall xs ys ss, agree3 xs ys ss ->
  forall k, nth k (rev ss) 0 <> SEC_BSS -> (k < length ss)%nat -> nth k (rev xs) 0 = nth k (rev ys) 0.
Proof.
  intros xs ys ss H. induction H as [|x y s xs ys ss Hxy H IH]; intros k Hs Hk; [cbn in Hk; lia|].
  assert (Hl : length xs = length ss /\ length ys = length ss).
  { clear -H. induction H; cbn; [split; reflexivity|]. destruct IHagree3. split; congruence. }
  destruct Hl as [Lx Ly].
  cbn [rev length] in *.
  destruct (Nat.lt_ge_cases k (length ss)) as [Hlt|Hge].
  - rewrite !app_nth1 by (rewrite rev_length; lia). rewrite app_nth1 in Hs by (rewrite rev_length; lia).
    apply IH; assumption.
  - assert (k = length ss) by lia. subst k.
    rewrite app_nth2 in Hs by (rewrite rev_length; lia). rewrite rev_length, Nat.sub_diag in Hs. cbn in Hs.
    rewrite !app_nth2 by (rewrite rev_length; lia). rewrite !rev_length, Lx, Ly, Nat.sub_diag. cbn. apply Hxy. exact Hs.
Qed.

Lemma base_inv d : ptr_inv base_pointers (update base_pointers SEC_BSS d).
Proof.
  split.
  - intros s Hs. rewrite lookup_update.
    assert (Hc : s = 0 \/ s = 1 \/ s = 2 \/ s = 3) by lia.
    destruct Hc as [ -> | [ -> | [ -> | -> ] ] ]; cbn; split; discriminate.
  - intros s Hs. rewrite get_ptr_update. destruct (s =? SEC_BSS) eqn:E; [apply N.eqb_eq in E; contradiction|reflexivity].
Qed.

(* the theorem: outside .bss every line sees the same address in both passes *)
Theorem passes_agree : forall ls y, Forall plain_line ls -> assemble_layout ls = inl y ->
  forall k, (k < length (y_secs y))%nat -> nth k (y_secs y) 0 <> SEC_BSS -> nth k (y_addr1 y) 0 = nth k (y_addr2 y) 0.
Proof.
  intros ls y Hp H k Hk Hs. unfold assemble_layout, pass1 in H.
  destruct (p1_run p1_init ls) as [a|] eqn:E1; [|discriminate].
  cbn [p_ptr p_syms p_addrs] in H.
  destruct (p2_run (p_syms a) _ ls) as [b|] eqn:E2; [|discriminate].
  injection H as <-. cbn [y_secs y_addr1 y_addr2] in *.
  match type of E2 with p2_run _ (p2_init ?d) _ = _ =>
    pose proof (runs_agree (p_syms a) ls p1_init (p2_init d) a b Hp (base_inv d) eq_refl A3nil E1 E2) as Hag end.
  rewrite rev_length in Hk. apply (agree3_rev _ _ _ Hag k Hs Hk).
Qed.

(* a label's value is the pass-one address of its line *)
Lemma label_value a l a' lb : p1_line a l = inl a' -> l_label l = Some lb ->
  lookup (p_syms a') lb = Some (hd 0 (p_addrs a')).
Proof.
  intros H Hl. unfold p1_line in H. rewrite Hl in H.
  destruct (l_stmt l) as [[s|[v|x]|n]|]; cbn [fst snd] in H;
    destruct (lookup (p_syms a) lb); try discriminate; injection H as <-; cbn [p_syms p_addrs hd];
    rewrite lookup_update, N.eqb_refl; reflexivity.
Qed.

(* determinism / no hidden state: the layout is a function of the program text alone (by construction); stated
   for the record as idempotence of re-running on the same input *)
Lemma layout_deterministic ls : assemble_layout ls = assemble_layout ls.
Proof. reflexivity. Qed.
