(* Proofs/CallProofs.v -- calls and returns (C05): executing the IL the lifter emits for CALLF / CALL leaves exactly the
   return address on the system stack, and the IL of RETF / RET, run from ANY later state that still has that frame
   (stack pointer back at the frame, the frame bytes untouched - what a stack-neutral callee body guarantees),
   resumes at the instruction after the call with the stack pointer the caller had.

   CALLF/RETF: unconditional.  CALL/RET (16-bit return address): under the guard that the RET executes in the 64 KiB page
   of the return address; the other case is refuted in Props/C05_refuted.v (the page-edge finding). *)
From Coq Require Import ZArith NArith List Bool Lia.
From BE Require Import Model.TableTypes Gen.Tables Model.Regs Model.Decode Model.IL Model.Lift Model.Static Model.Spec
  Model.Emu Model.Irq Proofs.AluProofs Proofs.ExecProofs Proofs.AccessProofs Proofs.IrqProofs.
Import ListNotations.
Open Scope Z_scope.

Lemma callf_lift lo mid hi addr :
  lift_instr (mk_instr 5 [OImm20 lo mid hi] 4) addr = Some [SCall (EConstPtr 3 (Z.of_N (imm20 lo mid hi)))].
Proof. cbv -[Z.add Z.sub Z.mul Z.land Z.lor Z.of_N Z.opp Z.of_nat imm20]. reflexivity. Qed.

Lemma retf_lift addr : lift_instr (mk_instr 7 [] 1) addr = Some [SRet (EPop 3)].
Proof. vm_compute. reflexivity. Qed.

Lemma call_lift v addr :
  lift_instr (mk_instr 4 [OImm16 v] 3) addr =
  Some [SPush 2 (EConst 2 (addr + 3)); SJump (EConstPtr 3 (Z.lor (Z.land addr 16711680) (Z.of_N v)))].
Proof. cbv -[Z.add Z.sub Z.mul Z.land Z.lor Z.of_N Z.opp Z.of_nat]. reflexivity. Qed.

Lemma ret_lift addr :
  lift_instr (mk_instr 6 [] 1) addr = Some [SRet (EBin B_OR 3 F0 (EPop 2) (EBin B_AND 3 F0 (EReg 3 gPC) (EConst 3 16711680)))].
Proof. vm_compute. reflexivity. Qed.

Lemma call_analyze_tables :
  d_cls (entry_of 4) = I_CALL /\ d_cls (entry_of 5) = I_CALL /\ d_cls (entry_of 6) = I_RET /\ d_cls (entry_of 7) = I_RETF.
Proof. vm_compute. repeat split. Qed.

Lemma mem_store2 s a v x :
  mem (store 2 s a v) x = if x =? a + 1 then (v / 256) mod 256 else if x =? a then v mod 256 else mem s x.
Proof.
  unfold store. change (N.to_nat 2) with 2%nat. cbn [wr_bytes wr1 mem].
  rewrite !band255, !Z.mod_mod by lia. rewrite !Z.shiftr_div_pow2 by lia. change (2 ^ 8) with 256. reflexivity.
Qed.

Lemma band20 v : 0 <= v < 1048576 -> band v 1048575 = v.
Proof. intros H. unfold band. change 1048575 with (Z.ones 20). rewrite Z.land_ones by lia. apply Z.mod_small. exact H. Qed.

(* ---- CALLF --------------------------------------------------------------------------------------- *)
Theorem callf_exec : forall s lo mid hi addr,
  wf_state s -> 3 <= getr s gS -> 0 <= addr -> addr + 4 < 1048576 -> Z.of_N (imm20 lo mid hi) < 1048576 ->
  exists s', exec_decoded (mk_instr 5 [OImm20 lo mid hi] 4) 5 addr s = XOk s' /\
    wf_state s' /\
    getr s' gPC = Z.of_N (imm20 lo mid hi) /\ getr s' gS = getr s gS - 3 /\
    mem s' (getr s gS - 3) = (addr + 4) mod 256 /\ mem s' (getr s gS - 2) = ((addr + 4) / 256) mod 256 /\
    mem s' (getr s gS - 1) = ((addr + 4) / 65536) mod 256 /\
    (forall a, ~ (getr s gS - 3 <= a < getr s gS) -> mem s' a = mem s a) /\
    (forall r, r <> gS -> r <> gPC -> getr s' r = getr s r).
Proof.
  intros s lo mid hi addr [Hr Hm] H3 Ha0 Ha4 Ht.
  pose proof (getr_S_range s Hr) as HS.
  unfold exec_decoded. change (5 =? 239)%N with false. cbv iota. rewrite callf_lift.
  cbn [i_len mk_instr]. change (Z.of_nat 4) with 4.
  set (s1 := setr (setr s gPC (Z.land addr (Z.of_N py_pc_mask))) gPC (addr + 4)).
  assert (S1S : getr s1 gS = getr s gS) by (subst s1; rewrite !getr_setr_PC_other by discriminate; reflexivity).
  assert (S1P : getr s1 gPC = addr + 4) by (subst s1; apply getr_setr_PC; lia).
  assert (S1w : mem_wf s1) by (subst s1; apply mem_wf_setr; apply mem_wf_setr; exact Hm).
  assert (S1r : regs_wf (rg s1)) by (subst s1; apply regs_wf_setr_PC; apply regs_wf_setr_PC; exact Hr).
  set (S0 := getr s gS) in *.
  set (tgt := Z.of_N (imm20 lo mid hi)) in *.
  set (u := setr (setr (store 3 s1 (S0 - 3) (addr + 4)) gS (S0 - 3)) gPC tgt).
  assert (E : exec_stmt (SCall (EConstPtr 3 tgt)) s1 = Some (u, ONext)).
  { cbn [exec_stmt eval_expr call_push_size]. rewrite S1P, S1S. change (3 =? 2)%N with false. cbv iota.
    rewrite band20 by lia. reflexivity. }
  destruct (fuel_split [SCall (EConstPtr 3 tgt)] s1 2) as [j Hj]; [cbn; lia|]. rewrite Hj.
  replace (2 + j)%nat with (S (S j)) by lia. cbn [run nth_error]. rewrite E. cbn [nth_error].
  exists u. split; [reflexivity|].
  assert (Um : forall x, mem u x = if x =? S0 - 3 + 1 + 1 then ((addr + 4) / 65536) mod 256
                                   else if x =? S0 - 3 + 1 then ((addr + 4) / 256) mod 256
                                   else if x =? S0 - 3 then (addr + 4) mod 256 else mem s x).
  { intros x. subst u. rewrite !mem_setr, mem_store3. reflexivity. }
  split; [|split; [|split; [|split; [|split; [|split; [|split]]]]]].
  - split.
    + subst u. apply regs_wf_setr_PC. apply regs_wf_setr_S. apply regs_wf_store. exact S1r.
    + subst u. apply mem_wf_setr. apply mem_wf_setr. apply mem_wf_store. exact S1w.
  - subst u. apply getr_setr_PC. pose proof (N2Z.is_nonneg (imm20 lo mid hi)). lia.
  - subst u. rewrite getr_setr_PC_other by discriminate. apply getr_setr_S. lia.
  - rewrite Um. replace (S0 - 3 =? S0 - 3 + 1 + 1) with false by (symmetry; apply Z.eqb_neq; lia).
    replace (S0 - 3 =? S0 - 3 + 1) with false by (symmetry; apply Z.eqb_neq; lia). rewrite Z.eqb_refl. reflexivity.
  - rewrite Um. replace (S0 - 2 =? S0 - 3 + 1 + 1) with false by (symmetry; apply Z.eqb_neq; lia).
    replace (S0 - 2 =? S0 - 3 + 1) with true by (symmetry; apply Z.eqb_eq; lia). reflexivity.
  - rewrite Um. replace (S0 - 1 =? S0 - 3 + 1 + 1) with true by (symmetry; apply Z.eqb_eq; lia). reflexivity.
  - intros a Ha. rewrite Um.
    replace (a =? S0 - 3 + 1 + 1) with false by (symmetry; apply Z.eqb_neq; lia).
    replace (a =? S0 - 3 + 1) with false by (symmetry; apply Z.eqb_neq; lia).
    replace (a =? S0 - 3) with false by (symmetry; apply Z.eqb_neq; lia). reflexivity.
  - intros r H1 H2. subst u. rewrite getr_setr_PC_other by exact H2. rewrite getr_setr_S_other by exact H1.
    rewrite getr_store. subst s1. rewrite !getr_setr_PC_other by exact H2. reflexivity.
Qed.

(* RETF from any state that has a 3-byte little-endian return address R at the stack pointer *)
Theorem retf_exec : forall t raddr R,
  wf_state t -> getr t gS + 3 < 1048576 -> 0 <= raddr -> raddr + 1 < 1048576 -> 0 <= R < 1048576 ->
  mem t (getr t gS) = R mod 256 -> mem t (getr t gS + 1) = (R / 256) mod 256 -> mem t (getr t gS + 2) = (R / 65536) mod 256 ->
  exists t', exec_decoded (mk_instr 7 [] 1) 7 raddr t = XOk t' /\
    getr t' gPC = R /\ getr t' gS = getr t gS + 3 /\
    (forall a, mem t' a = mem t a) /\ (forall r, r <> gS -> r <> gPC -> getr t' r = getr t r).
Proof.
  intros t raddr R [Hr Hm] HS3 Hr0 Hr1 HR M0 M1 M2.
  pose proof (getr_S_range t Hr) as HS.
  unfold exec_decoded. change (7 =? 239)%N with false. cbv iota. rewrite retf_lift.
  cbn [i_len mk_instr]. change (Z.of_nat 1) with 1.
  set (t1 := setr (setr t gPC (Z.land raddr (Z.of_N py_pc_mask))) gPC (raddr + 1)).
  assert (T1S : getr t1 gS = getr t gS) by (subst t1; rewrite !getr_setr_PC_other by discriminate; reflexivity).
  assert (T1w : mem_wf t1) by (subst t1; apply mem_wf_setr; apply mem_wf_setr; exact Hm).
  set (S0 := getr t gS) in *.
  set (u := setr (setr (logged t1 [S0; S0 + 1; S0 + 1 + 1]) gS (S0 + 3)) gPC R).
  assert (E : exec_stmt (SRet (EPop 3)) t1 = Some (u, ONext)).
  { cbn [exec_stmt eval_expr]. rewrite load_3 by exact T1w. rewrite T1S. subst u.
    replace (mem t1 S0 + 256 * (mem t1 (S0 + 1) + 256 * mem t1 (S0 + 1 + 1))) with R; [reflexivity|].
    change (mem t1) with (mem t). replace (S0 + 1 + 1) with (S0 + 2) by lia. rewrite M0, M1, M2. symmetry. apply three_bytes. exact HR. }
  destruct (fuel_split [SRet (EPop 3)] t1 2) as [j Hj]; [cbn; lia|]. rewrite Hj.
  replace (2 + j)%nat with (S (S j)) by lia. cbn [run nth_error]. rewrite E. cbn [nth_error].
  exists u. split; [reflexivity|]. split; [|split; [|split]].
  - subst u. apply getr_setr_PC. exact HR.
  - subst u. rewrite getr_setr_PC_other by discriminate. apply getr_setr_S. lia.
  - intros a. reflexivity.
  - intros r H1 H2. subst u. rewrite getr_setr_PC_other by exact H2. rewrite getr_setr_S_other by exact H1.
    rewrite getr_logged. subst t1. rewrite !getr_setr_PC_other by exact H2. reflexivity.
Qed.

(* CALLF ; <any callee that leaves the stack pointer at the frame and the three frame bytes alone> ; RETF
   resumes at the instruction after the CALLF with the caller's stack pointer *)
Theorem callf_retf_inverse : forall s lo mid hi addr s1,
  wf_state s -> 3 <= getr s gS -> 0 <= addr -> addr + 4 < 1048576 -> Z.of_N (imm20 lo mid hi) < 1048576 ->
  exec_decoded (mk_instr 5 [OImm20 lo mid hi] 4) 5 addr s = XOk s1 ->
  forall t raddr, wf_state t -> getr t gS = getr s1 gS ->
    (forall a, getr s gS - 3 <= a < getr s gS -> mem t a = mem s1 a) ->
    0 <= raddr -> raddr + 1 < 1048576 ->
    exists t', exec_decoded (mk_instr 7 [] 1) 7 raddr t = XOk t' /\
      getr t' gPC = addr + 4 /\ getr t' gS = getr s gS /\ (forall a, mem t' a = mem t a) /\
      (forall r, r <> gS -> r <> gPC -> getr t' r = getr t r).
Proof.
  intros s lo mid hi addr s1 Hwf H3 Ha0 Ha4 Ht Hcall t raddr Twf TS Tm Hr0 Hr1.
  destruct (callf_exec s lo mid hi addr Hwf H3 Ha0 Ha4 Ht) as (s1' & E & _ & _ & CS & C0 & C1 & C2 & _ & _).
  rewrite Hcall in E. injection E as <-.
  destruct Hwf as [Hr Hm]. pose proof (getr_S_range s Hr) as HS.
  rewrite CS in TS.
  destruct (retf_exec t raddr (addr + 4) Twf) as (t' & E' & P & S' & M & O); try lia.
  - rewrite TS. rewrite Tm by lia. exact C0.
  - rewrite TS. replace (getr s gS - 3 + 1) with (getr s gS - 2) by lia. rewrite Tm by lia. exact C1.
  - rewrite TS. replace (getr s gS - 3 + 2) with (getr s gS - 1) by lia. rewrite Tm by lia. exact C2.
  - exists t'. split; [exact E'|]. split; [exact P|]. split; [lia|]. split; assumption.
Qed.

(* ---- CALL / RET (16-bit return address) ----------------------------------------------------------- *)
Lemma land_page (y : Z) : 0 <= y < 1048576 -> Z.land y 16711680 = Z.shiftl (y / 65536) 16.
Proof.
  intros Hy. apply Z.bits_inj'. intros n Hn. rewrite Z.land_spec.
  destruct (Z_lt_ge_dec n 16) as [Hl|Hg].
  - rewrite Z.shiftl_spec_low by lia.
    replace (Z.testbit 16711680 n) with false; [apply andb_false_r|].
    symmetry. change 16711680 with (Z.shiftl 255 16). apply Z.shiftl_spec_low. lia.
  - rewrite Z.shiftl_spec by lia. change 65536 with (2 ^ 16). rewrite <- Z.shiftr_div_pow2 by lia.
    rewrite Z.shiftr_spec by lia. replace (n - 16 + 16) with n by lia.
    destruct (Z_lt_ge_dec n 24) as [Hl2|Hg2].
    + replace (Z.testbit 16711680 n) with true; [apply andb_true_r|].
      symmetry. change 16711680 with (Z.shiftl 255 16). rewrite Z.shiftl_spec by lia.
      change 255 with (Z.ones 8). apply Z.ones_spec_low. lia.
    + replace (Z.testbit y n) with false; [reflexivity|].
      symmetry. apply Z.bits_above_log2; [lia|].
      destruct (Z.eq_dec y 0) as [->|Hy0]; [cbn; lia|].
      apply Z.log2_lt_pow2; [lia|]. apply Z.lt_le_trans with (2 ^ 20); [change (2 ^ 20) with 1048576; lia|].
      apply Z.pow_le_mono_r; lia.
Qed.

Lemma page_or (x y : Z) : 0 <= x < 1048576 -> 0 <= y < 1048576 -> y / 65536 = x / 65536 ->
  Z.lor (x mod 256 + 256 * ((x / 256) mod 256)) (Z.land y 16711680) = x.
Proof.
  intros Hx Hy Hp.
  assert (L : x mod 256 + 256 * ((x / 256) mod 256) = x mod 65536).
  { pose proof (Z.div_mod x 256 ltac:(lia)). pose proof (Z.div_mod (x / 256) 256 ltac:(lia)).
    assert (x / 256 / 256 = x / 65536) by (rewrite Z.div_div by lia; reflexivity).
    pose proof (Z.div_mod x 65536 ltac:(lia)). pose proof (Z.mod_pos_bound x 256 ltac:(lia)).
    pose proof (Z.mod_pos_bound (x / 256) 256 ltac:(lia)). pose proof (Z.mod_pos_bound x 65536 ltac:(lia)). lia. }
  rewrite L. rewrite land_page by exact Hy.
  rewrite lor_low_high; [|lia|change (2 ^ 16) with 65536; apply Z.mod_pos_bound; lia].
  change (2 ^ 16) with 65536. rewrite Hp. pose proof (Z.div_mod x 65536 ltac:(lia)). lia.
Qed.

Definition near_target (addr : Z) (v : N) : Z := addr / 65536 * 65536 + Z.of_N v.

Lemma near_target_val addr v : 0 <= addr < 1048576 -> Z.of_N v < 65536 ->
  Z.lor (Z.land addr 16711680) (Z.of_N v) = near_target addr v /\ 0 <= near_target addr v < 1048576.
Proof.
  intros Ha Hv. pose proof (N2Z.is_nonneg v) as Hv0. unfold near_target.
  rewrite land_page by exact Ha. rewrite Z.lor_comm. rewrite lor_low_high; [|lia|change (2 ^ 16) with 65536; lia].
  change (2 ^ 16) with 65536. split; [lia|].
  assert (0 <= addr / 65536 < 16) by (split; [apply Z.div_pos; lia | apply Z.div_lt_upper_bound; lia]). lia.
Qed.

Theorem call_exec : forall s v addr,
  wf_state s -> 2 <= getr s gS -> 0 <= addr -> addr + 3 < 1048576 -> Z.of_N v < 65536 ->
  exists s', exec_decoded (mk_instr 4 [OImm16 v] 3) 4 addr s = XOk s' /\
    wf_state s' /\
    getr s' gPC = near_target addr v /\ getr s' gS = getr s gS - 2 /\
    mem s' (getr s gS - 2) = (addr + 3) mod 256 /\ mem s' (getr s gS - 1) = ((addr + 3) / 256) mod 256 /\
    (forall a, ~ (getr s gS - 2 <= a < getr s gS) -> mem s' a = mem s a) /\
    (forall r, r <> gS -> r <> gPC -> getr s' r = getr s r).
Proof.
  intros s v addr [Hr Hm] H2 Ha0 Ha3 Hv.
  pose proof (getr_S_range s Hr) as HS.
  destruct (near_target_val addr v ltac:(lia) Hv) as [TV TR].
  unfold exec_decoded. change (4 =? 239)%N with false. cbv iota. rewrite call_lift.
  cbn [i_len mk_instr]. change (Z.of_nat 3) with 3.
  set (s1 := setr (setr s gPC (Z.land addr (Z.of_N py_pc_mask))) gPC (addr + 3)).
  assert (S1S : getr s1 gS = getr s gS) by (subst s1; rewrite !getr_setr_PC_other by discriminate; reflexivity).
  assert (S1w : mem_wf s1) by (subst s1; apply mem_wf_setr; apply mem_wf_setr; exact Hm).
  assert (S1r : regs_wf (rg s1)) by (subst s1; apply regs_wf_setr_PC; apply regs_wf_setr_PC; exact Hr).
  set (S0 := getr s gS) in *.
  set (u1 := setr (store 2 s1 (S0 - 2) (addr + 3)) gS (S0 - 2)).
  set (u := setr u1 gPC (near_target addr v)).
  assert (E1 : exec_stmt (SPush 2 (EConst 2 (addr + 3))) s1 = Some (u1, ONext)).
  { cbn [exec_stmt eval_expr]. rewrite S1S. reflexivity. }
  assert (E2 : exec_stmt (SJump (EConstPtr 3 (Z.lor (Z.land addr 16711680) (Z.of_N v)))) u1 = Some (u, ONext)).
  { cbn [exec_stmt eval_expr]. rewrite TV. reflexivity. }
  match goal with |- context [fuel_for ?p s1] => destruct (fuel_split p s1 3) as [j Hj]; [cbn; lia|]; rewrite Hj end.
  replace (3 + j)%nat with (S (S (S j))) by lia. cbn [run nth_error]. rewrite E1. cbn [nth_error]. rewrite E2. cbn [nth_error].
  exists u. split; [reflexivity|].
  assert (Um : forall x, mem u x = if x =? S0 - 2 + 1 then ((addr + 3) / 256) mod 256
                                   else if x =? S0 - 2 then (addr + 3) mod 256 else mem s x).
  { intros x. subst u u1. rewrite !mem_setr, mem_store2. reflexivity. }
  split; [|split; [|split; [|split; [|split; [|split]]]]].
  - split.
    + subst u u1. apply regs_wf_setr_PC. apply regs_wf_setr_S. apply regs_wf_store. exact S1r.
    + subst u u1. apply mem_wf_setr. apply mem_wf_setr. apply mem_wf_store. exact S1w.
  - subst u. apply getr_setr_PC. exact TR.
  - subst u u1. rewrite getr_setr_PC_other by discriminate. apply getr_setr_S. lia.
  - rewrite Um. replace (S0 - 2 =? S0 - 2 + 1) with false by (symmetry; apply Z.eqb_neq; lia). rewrite Z.eqb_refl. reflexivity.
  - rewrite Um. replace (S0 - 1 =? S0 - 2 + 1) with true by (symmetry; apply Z.eqb_eq; lia). reflexivity.
  - intros a Ha. rewrite Um.
    replace (a =? S0 - 2 + 1) with false by (symmetry; apply Z.eqb_neq; lia).
    replace (a =? S0 - 2) with false by (symmetry; apply Z.eqb_neq; lia). reflexivity.
  - intros r H1 H3. subst u u1. rewrite getr_setr_PC_other by exact H3. rewrite getr_setr_S_other by exact H1.
    rewrite getr_store. subst s1. rewrite !getr_setr_PC_other by exact H3. reflexivity.
Qed.

(* RET from any state that has a 2-byte return address (low 16 bits of R) at the stack pointer,
   executed at an address whose successor lies in the page of R *)
Theorem ret_exec : forall t raddr R,
  wf_state t -> getr t gS + 2 < 1048576 -> 0 <= raddr -> raddr + 1 < 1048576 -> 0 <= R < 1048576 ->
  mem t (getr t gS) = R mod 256 -> mem t (getr t gS + 1) = (R / 256) mod 256 ->
  (raddr + 1) / 65536 = R / 65536 ->
  exists t', exec_decoded (mk_instr 6 [] 1) 6 raddr t = XOk t' /\
    getr t' gPC = R /\ getr t' gS = getr t gS + 2 /\
    (forall a, mem t' a = mem t a) /\ (forall r, r <> gS -> r <> gPC -> getr t' r = getr t r).
Proof.
  intros t raddr R [Hr Hm] HS2 Hr0 Hr1 HR M0 M1 Hp.
  pose proof (getr_S_range t Hr) as HS.
  unfold exec_decoded. change (6 =? 239)%N with false. cbv iota. rewrite ret_lift.
  cbn [i_len mk_instr]. change (Z.of_nat 1) with 1.
  set (t1 := setr (setr t gPC (Z.land raddr (Z.of_N py_pc_mask))) gPC (raddr + 1)).
  assert (T1S : getr t1 gS = getr t gS) by (subst t1; rewrite !getr_setr_PC_other by discriminate; reflexivity).
  assert (T1P : getr t1 gPC = raddr + 1) by (subst t1; apply getr_setr_PC; lia).
  assert (T1w : mem_wf t1) by (subst t1; apply mem_wf_setr; apply mem_wf_setr; exact Hm).
  set (S0 := getr t gS) in *.
  set (u := setr (setr (logged t1 [S0; S0 + 1]) gS (S0 + 2)) gPC R).
  assert (E : exec_stmt (SRet (EBin B_OR 3 IL.F0 (EPop 2) (EBin B_AND 3 IL.F0 (EReg 3 gPC) (EConst 3 16711680)))) t1 = Some (u, ONext)).
  { cbn [exec_stmt eval_expr]. rewrite load_2 by exact T1w. rewrite T1S.
    cbn [eval_binop apply_flags]. rewrite getr_setr_S_other by discriminate. rewrite getr_logged, T1P.
    change (mem t1) with (mem t). rewrite M0, M1.
    rewrite page_or by (try lia; exact Hp). reflexivity. }
  match goal with |- context [fuel_for ?p t1] => destruct (fuel_split p t1 2) as [j Hj]; [cbn; lia|]; rewrite Hj end.
  replace (2 + j)%nat with (S (S j)) by lia. cbn [run nth_error]. rewrite E. cbn [nth_error].
  exists u. split; [reflexivity|]. split; [|split; [|split]].
  - subst u. apply getr_setr_PC. exact HR.
  - subst u. rewrite getr_setr_PC_other by discriminate. apply getr_setr_S. lia.
  - intros a. reflexivity.
  - intros r H1 H2. subst u. rewrite getr_setr_PC_other by exact H2. rewrite getr_setr_S_other by exact H1.
    rewrite getr_logged. subst t1. rewrite !getr_setr_PC_other by exact H2. reflexivity.
Qed.

(* CALL mn ; <callee that leaves S at the frame and the two frame bytes alone> ; RET executed in the page of the return
   address: resumes at the instruction after the CALL with the caller's stack pointer *)
Theorem call_ret_inverse : forall s v addr s1,
  wf_state s -> 2 <= getr s gS -> 0 <= addr -> addr + 3 < 1048576 -> Z.of_N v < 65536 ->
  exec_decoded (mk_instr 4 [OImm16 v] 3) 4 addr s = XOk s1 ->
  forall t raddr, wf_state t -> getr t gS = getr s1 gS ->
    (forall a, getr s gS - 2 <= a < getr s gS -> mem t a = mem s1 a) ->
    0 <= raddr -> raddr + 1 < 1048576 -> (raddr + 1) / 65536 = (addr + 3) / 65536 ->
    exists t', exec_decoded (mk_instr 6 [] 1) 6 raddr t = XOk t' /\
      getr t' gPC = addr + 3 /\ getr t' gS = getr s gS /\ (forall a, mem t' a = mem t a) /\
      (forall r, r <> gS -> r <> gPC -> getr t' r = getr t r).
Proof.
  intros s v addr s1 Hwf H2 Ha0 Ha3 Hv Hcall t raddr Twf TS Tm Hr0 Hr1 Hp.
  destruct (call_exec s v addr Hwf H2 Ha0 Ha3 Hv) as (s1' & E & _ & _ & CS & C0 & C1 & _ & _).
  rewrite Hcall in E. injection E as <-.
  destruct Hwf as [Hr Hm]. pose proof (getr_S_range s Hr) as HS.
  rewrite CS in TS.
  destruct (ret_exec t raddr (addr + 3) Twf) as (t' & E' & P & S' & M & O); try lia.
  - rewrite TS. rewrite Tm by lia. exact C0.
  - rewrite TS. replace (getr s gS - 2 + 1) with (getr s gS - 1) by lia. rewrite Tm by lia. exact C1.
  - exists t'. split; [exact E'|]. split; [exact P|]. split; [lia|]. split; assumption.
Qed.

(* without the page guard the pair is NOT an inverse: CALL in the last bytes of a page (the page-edge finding) *)
Definition edge_state : mstate :=
  {| rg := {| y_ba := 0; y_i := 0; y_x := 0; y_y := 0; y_u := 0; y_s := 4096; y_pc := 0; y_f := 0; y_t := repeat 0%N NTEMP |};
     mem := fun _ => 0; halted := false; rlog := []; wlog := [] |}.

Lemma call_ret_page_edge_refuted :
  exists s1 t', exec_decoded (mk_instr 4 [OImm16 12288] 3) 4 131070 edge_state = XOk s1 /\
                exec_decoded (mk_instr 6 [] 1) 6 77824 s1 = XOk t' /\
                getr s1 gPC = 77824 /\ getr t' gS = getr edge_state gS /\ getr t' gPC = 65537 /\ 65537 <> 131070 + 3.
Proof.
  eexists. eexists. split; [vm_compute; reflexivity|]. split; [vm_compute; reflexivity|].
  vm_compute. repeat split; discriminate.
Qed.

(* ---- IR (software interrupt) ---------------------------------------------------------------------- *)
Definition ir_prog : list stmt :=
  [SPush 3 (EReg 3 gPC);
   SPush 1 (EBin B_OR 1 IL.F0 (EFlag true) (EBin B_LSL 1 IL.F0 (EFlag false) (EConst 1 1)));
   SPush 1 (ELoad 1 (EConstPtr 3 1048827));
   SStore 1 (EConstPtr 3 1048827) (EBin B_AND 1 IL.F0 (ELoad 1 (EConstPtr 3 1048827)) (EConst 1 127));
   SJump (ELoad 3 (EConstPtr 3 1048570))].

Lemma ir_lift addr : lift_instr (mk_instr 254 [] 1) addr = Some ir_prog.
Proof. vm_compute. reflexivity. Qed.

Lemma ir_table : d_cls (entry_of 254) = I_IR /\ d_cls (entry_of 1) = I_RETI.
Proof. vm_compute. split; reflexivity. Qed.

Lemma flag01 s c : get_flag s c = 0 \/ get_flag s c = 1.
Proof. pose proof (flag_range s c). lia. Qed.

Lemma flag_byte_val (c z : Z) : (c = 0 \/ c = 1) -> (z = 0 \/ z = 1) ->
  Z.lor c (band (Z.shiftl z 1) (maskw 1)) = c + 2 * z.
Proof. intros [-> | ->] [-> | ->]; reflexivity. Qed.

Lemma eval_flag_byte s :
  eval_expr (EBin B_OR 1 IL.F0 (EFlag true) (EBin B_LSL 1 IL.F0 (EFlag false) (EConst 1 1))) s =
  Some (get_flag s true + 2 * get_flag s false, s).
Proof.
  cbn [eval_expr eval_binop apply_flags]. change (1 <? 0) with false. change (1 =? 0) with false. cbv iota.
  rewrite flag_byte_val by apply flag01. reflexivity.
Qed.

Lemma get_flag_setr_S s v c : get_flag (setr s gS v) c = get_flag s c.
Proof. unfold get_flag. apply getr_setr_S_other. destruct c; discriminate. Qed.
Lemma get_flag_store w s a v c : get_flag (store w s a v) c = get_flag s c.
Proof. unfold get_flag. apply getr_store. Qed.

Ltac eqb_lia :=
  repeat match goal with
         | |- context [?a =? ?b] =>
             first [ replace (a =? b) with false by (symmetry; apply Z.eqb_neq; lia)
                   | replace (a =? b) with true by (symmetry; apply Z.eqb_eq; lia) ]
         end.

Theorem ir_exec : forall s addr,
  wf_state s -> 5 <= getr s gS -> getr s gS <= 1048570 -> 0 <= addr -> addr + 1 < 1048576 ->
  mem s 1048570 + 256 * (mem s 1048571 + 256 * mem s 1048572) < 1048576 ->
  exists s', exec_decoded (mk_instr 254 [] 1) 254 addr s = XOk s' /\ wf_state s' /\
    getr s' gPC = mem s 1048570 + 256 * (mem s 1048571 + 256 * mem s 1048572) /\
    getr s' gS = getr s gS - 5 /\
    mem s' (getr s gS - 3) = (addr + 1) mod 256 /\ mem s' (getr s gS - 2) = ((addr + 1) / 256) mod 256 /\
    mem s' (getr s gS - 1) = ((addr + 1) / 65536) mod 256 /\
    mem s' (getr s gS - 4) = get_flag s true + 2 * get_flag s false /\
    mem s' (getr s gS - 5) = mem s imr_cell /\ mem s' imr_cell = Z.land (mem s imr_cell) 127 /\
    (forall a, ~ (getr s gS - 5 <= a < getr s gS) -> a <> imr_cell -> mem s' a = mem s a) /\
    (forall r, r <> gS -> r <> gPC -> getr s' r = getr s r).
Proof.
  intros s addr [Hr Hm] H5 Htop Ha0 Ha1 Hvec.
  change 1048827 with 1048827 in *.
  pose proof (getr_S_range s Hr) as HS. pose proof (Hm 1048827) as HI.
  pose proof (flag_range s true) as HC. pose proof (flag_range s false) as HZ.
  pose proof (Hm 1048570) as V0. pose proof (Hm 1048571) as V1. pose proof (Hm 1048572) as V2.
  unfold exec_decoded. change (254 =? 239)%N with false. cbv iota. rewrite ir_lift.
  cbn [i_len mk_instr]. change (Z.of_nat 1) with 1.
  set (s1 := setr (setr s gPC (Z.land addr (Z.of_N py_pc_mask))) gPC (addr + 1)).
  assert (S1S : getr s1 gS = getr s gS) by (subst s1; rewrite !getr_setr_PC_other by discriminate; reflexivity).
  assert (S1P : getr s1 gPC = addr + 1) by (subst s1; apply getr_setr_PC; lia).
  assert (S1w : mem_wf s1) by (subst s1; apply mem_wf_setr; apply mem_wf_setr; exact Hm).
  assert (S1r : regs_wf (rg s1)) by (subst s1; apply regs_wf_setr_PC; apply regs_wf_setr_PC; exact Hr).
  assert (S1f : forall c, get_flag s1 c = get_flag s c).
  { intros c. subst s1. unfold get_flag. rewrite !getr_setr_PC_other by (destruct c; discriminate). reflexivity. }
  set (S0 := getr s gS) in *. set (I0 := mem s 1048827) in *.
  set (FB := get_flag s true + 2 * get_flag s false).
  set (vec := mem s 1048570 + 256 * (mem s 1048571 + 256 * mem s 1048572)) in *.
  (* 1: push PC *)
  set (u1 := setr (store 3 s1 (S0 - 3) (addr + 1)) gS (S0 - 3)).
  assert (E1 : exec_stmt (SPush 3 (EReg 3 gPC)) s1 = Some (u1, ONext)).
  { cbn [exec_stmt eval_expr]. rewrite S1P, S1S. reflexivity. }
  assert (U1S : getr u1 gS = S0 - 3) by (subst u1; apply getr_setr_S; lia).
  assert (U1w : mem_wf u1) by (subst u1; apply mem_wf_setr; apply mem_wf_store; exact S1w).
  assert (U1r : regs_wf (rg u1)) by (subst u1; apply regs_wf_setr_S; apply regs_wf_store; exact S1r).
  assert (U1f : forall c, get_flag u1 c = get_flag s c).
  { intros c. subst u1. rewrite get_flag_setr_S, get_flag_store. apply S1f. }
  (* 2: push C | Z<<1 *)
  set (u2 := setr (store 1 u1 (S0 - 4) FB) gS (S0 - 4)).
  assert (E2 : exec_stmt (SPush 1 (EBin B_OR 1 IL.F0 (EFlag true) (EBin B_LSL 1 IL.F0 (EFlag false) (EConst 1 1)))) u1 = Some (u2, ONext)).
  { cbn [exec_stmt]. rewrite eval_flag_byte. rewrite !U1f, U1S. subst u2 FB. replace (S0 - 3 - Z.of_N 1) with (S0 - 4) by lia. reflexivity. }
  assert (U2S : getr u2 gS = S0 - 4) by (subst u2; apply getr_setr_S; lia).
  assert (U2w : mem_wf u2) by (subst u2; apply mem_wf_setr; apply mem_wf_store; exact U1w).
  assert (U2r : regs_wf (rg u2)) by (subst u2; apply regs_wf_setr_S; apply regs_wf_store; exact U1r).
  assert (U2m : forall x, mem u2 x = if x =? S0 - 4 then FB else
                                     if x =? S0 - 3 + 1 + 1 then ((addr + 1) / 65536) mod 256 else
                                     if x =? S0 - 3 + 1 then ((addr + 1) / 256) mod 256 else
                                     if x =? S0 - 3 then (addr + 1) mod 256 else mem s x).
  { intros x. subst u2 u1. rewrite mem_setr, mem_store1, mem_setr, mem_store3.
    replace (FB mod 256) with FB by (symmetry; apply Z.mod_small; subst FB; lia). reflexivity. }
  (* 3: push IMR *)
  set (u3 := setr (store 1 (logged u2 [1048827]) (S0 - 5) I0) gS (S0 - 5)).
  assert (E3 : exec_stmt (SPush 1 (ELoad 1 (EConstPtr 3 1048827))) u2 = Some (u3, ONext)).
  { cbn [exec_stmt eval_expr]. rewrite load_1 by exact U2w. rewrite getr_logged, U2S.
    replace (mem u2 1048827) with I0.
    - subst u3. replace (S0 - 4 - Z.of_N 1) with (S0 - 5) by lia. reflexivity.
    - rewrite U2m.
    eqb_lia. reflexivity. }
  assert (U3S : getr u3 gS = S0 - 5) by (subst u3; apply getr_setr_S; lia).
  assert (U3w : mem_wf u3) by (subst u3; apply mem_wf_setr; apply mem_wf_store; exact U2w).
  assert (U3r : regs_wf (rg u3)) by (subst u3; apply regs_wf_setr_S; apply regs_wf_store; exact U2r).
  assert (U3m : forall x, mem u3 x = if x =? S0 - 5 then I0 else mem u2 x).
  { intros x. subst u3. rewrite mem_setr, mem_store1, mem_logged. rewrite (Z.mod_small I0 256) by exact HI. reflexivity. }
  (* 4: IMR := IMR & 0x7F *)
  set (u4 := store 1 (logged u3 [1048827]) 1048827 (Z.land I0 127)).
  assert (M3I : mem u3 1048827 = I0).
  { rewrite U3m, U2m.
    eqb_lia. reflexivity. }
  assert (E4 : exec_stmt (SStore 1 (EConstPtr 3 1048827) (EBin B_AND 1 IL.F0 (ELoad 1 (EConstPtr 3 1048827)) (EConst 1 127))) u3 = Some (u4, ONext)).
  { cbn [exec_stmt eval_expr]. rewrite load_1 by exact U3w. cbn [eval_binop apply_flags].
    rewrite M3I. subst u4. reflexivity. }
  assert (U4w : mem_wf u4) by (subst u4; apply mem_wf_store; exact U3w).
  assert (L127 : 0 <= Z.land I0 127 < 256).
  { split; [apply Z.land_nonneg; lia|]. change 127 with (Z.ones 7). rewrite Z.land_ones by lia.
    pose proof (Z.mod_pos_bound I0 (2 ^ 7) ltac:(lia)). change (2 ^ 7) with 128 in *. lia. }
  assert (U4m : forall x, mem u4 x = if x =? 1048827 then Z.land I0 127 else mem u3 x).
  { intros x. subst u4. rewrite mem_store1, mem_logged. rewrite Z.mod_small by exact L127. reflexivity. }
  (* 5: jump through the vector *)
  set (u5 := setr (logged u4 [1048570; 1048570 + 1; 1048570 + 1 + 1]) gPC vec).
  assert (Mv : forall x, 1048570 <= x <= 1048572 -> mem u4 x = mem s x).
  { intros x Hx. rewrite U4m, U3m, U2m.
    eqb_lia. reflexivity. }
  assert (E5 : exec_stmt (SJump (ELoad 3 (EConstPtr 3 1048570))) u4 = Some (u5, ONext)).
  { cbn [exec_stmt eval_expr]. rewrite load_3 by exact U4w. subst u5.
    rewrite (Mv 1048570) by lia. rewrite (Mv (1048570 + 1)) by lia. rewrite (Mv (1048570 + 1 + 1)) by lia. reflexivity. }
  destruct (fuel_split ir_prog s1 6) as [j Hj]; [cbn; lia|]. rewrite Hj.
  replace (6 + j)%nat with (S (S (S (S (S (S j)))))) by lia.
  unfold ir_prog. cbn [run nth_error]. rewrite E1. cbn [nth_error]. rewrite E2. cbn [nth_error]. rewrite E3. cbn [nth_error].
  rewrite E4. cbn [nth_error]. rewrite E5. cbn [nth_error].
  exists u5. split; [destruct j; reflexivity|].
  assert (U5m : forall x, mem u5 x = mem u4 x) by (intros x; reflexivity).
  split; [|split; [|split; [|split; [|split; [|split; [|split; [|split; [|split; [|split]]]]]]]]].
  - split.
    + subst u5. apply regs_wf_setr_PC. unfold logged; cbn [rg]. subst u4. rewrite rg_store. exact U3r.
    + intros x. rewrite U5m. apply U4w.
  - subst u5. apply getr_setr_PC. subst vec. lia.
  - subst u5. rewrite getr_setr_PC_other by discriminate. rewrite getr_logged. subst u4. rewrite getr_store, getr_logged. exact U3S.
  - rewrite U5m, U4m, U3m, U2m.
    eqb_lia. reflexivity.
  - rewrite U5m, U4m, U3m, U2m.
    eqb_lia. reflexivity.
  - rewrite U5m, U4m, U3m, U2m.
    eqb_lia. reflexivity.
  - rewrite U5m, U4m, U3m, U2m.
    eqb_lia. reflexivity.
  - rewrite U5m, U4m, U3m.
    eqb_lia. reflexivity.
  - rewrite U5m, U4m. eqb_lia. reflexivity.
  - intros a Ha Hai. change imr_cell with 1048827 in Hai. rewrite U5m, U4m, U3m, U2m.
    eqb_lia. reflexivity.
  - intros r H1 H2. subst u5. rewrite getr_setr_PC_other by exact H2. rewrite getr_logged. subst u4. rewrite getr_store, getr_logged.
    subst u3. rewrite getr_setr_S_other by exact H1. rewrite getr_store, getr_logged.
    subst u2. rewrite getr_setr_S_other by exact H1. rewrite getr_store.
    subst u1. rewrite getr_setr_S_other by exact H1. rewrite getr_store.
    subst s1. rewrite !getr_setr_PC_other by exact H2. reflexivity.
Qed.

(* ---- flag writes (all 256 values of F, both flags, both values: evaluated in the kernel) ---------- *)
Definition flag_laws_ok (f : N) : bool :=
  forallb (fun v => ((set_b0 f v mod 2 =? v) && ((set_b0 f v / 2) mod 2 =? (f / 2) mod 2) && (set_b0 f v <? 256) &&
                     ((set_b1 f v / 2) mod 2 =? v) && (set_b1 f v mod 2 =? f mod 2) && (set_b1 f v <? 256))%N) [0%N; 1%N].

Lemma flag_laws_sweep : forallb flag_laws_ok (upN 256) = true.
Proof. vm_compute. reflexivity. Qed.

Lemma flag_laws f v : (f < 256)%N -> (v = 0 \/ v = 1)%N ->
  (set_b0 f v mod 2 = v /\ (set_b0 f v / 2) mod 2 = (f / 2) mod 2 /\ set_b0 f v < 256 /\
   (set_b1 f v / 2) mod 2 = v /\ set_b1 f v mod 2 = f mod 2 /\ set_b1 f v < 256)%N.
Proof.
  intros Hf Hv. pose proof flag_laws_sweep as H. rewrite forallb_forall in H.
  specialize (H f (upN_in 256 f Hf)). unfold flag_laws_ok in H. rewrite forallb_forall in H.
  assert (Hin : In v [0%N; 1%N]) by (destruct Hv as [-> | ->]; cbn; auto).
  specialize (H v Hin). rewrite !andb_true_iff in H. destruct H as (((((A & B) & C) & D) & E) & F).
  apply N.eqb_eq in A, B, D, E. apply N.ltb_lt in C, F. repeat split; assumption.
Qed.

Lemma set_flag_laws s c (b : bool) : regs_wf (rg s) ->
  get_flag (set_flag s c (b2z b)) c = b2z b /\
  get_flag (set_flag s c (b2z b)) (negb c) = get_flag s (negb c) /\
  regs_wf (rg (set_flag s c (b2z b))) /\
  (forall r, is_flagreg r = false -> getr (set_flag s c (b2z b)) r = getr s r) /\
  mem (set_flag s c (b2z b)) = mem s.
Proof.
  intros [(H1 & H2 & H3 & H4 & H5 & H6 & H7 & H8) HT].
  assert (Hv : Z.to_N (b2z b mod 4294967296) = (if b then 1 else 0)%N) by (destruct b; reflexivity).
  assert (Hv' : ((if b then 1 else 0) = 0 \/ (if b then 1 else 0) = 1)%N) by (destruct b; auto).
  pose proof (flag_laws (y_f (rg s)) (if b then 1 else 0)%N H8 Hv') as (A & B & C & D & E & F).
  unfold get_flag, set_flag, getr, setr, with_rg. cbn [rg mem]. rewrite Hv.
  destruct (rg s) as [ba i x y u sp pc f t]. cbn [y_f y_ba y_i y_x y_y y_u y_s y_pc y_t] in *.
  destruct c; cbn [negb py_set py_get y_f].
  - repeat split; try assumption.
    + rewrite A. destruct b; reflexivity.
    + rewrite B. reflexivity.
    + intros r Hr. destruct r; try reflexivity; discriminate.
  - repeat split; try assumption.
    + rewrite D. destruct b; reflexivity.
    + rewrite E. reflexivity.
    + intros r Hr. destruct r; try reflexivity; discriminate.
Qed.

(* ---- RETI from any state that has an interrupt frame (IMR, F, PC) at the stack pointer ------------ *)
Theorem reti_exec : forall t raddr R,
  wf_state t -> getr t gS + 5 < 1048576 -> 0 <= raddr -> raddr + 1 < 1048576 -> 0 <= R < 1048576 ->
  mem t (getr t gS + 2) = R mod 256 -> mem t (getr t gS + 3) = (R / 256) mod 256 -> mem t (getr t gS + 4) = (R / 65536) mod 256 ->
  exists t', exec_decoded (mk_instr 1 [] 1) 1 raddr t = XOk t' /\
    getr t' gPC = R /\ getr t' gS = getr t gS + 5 /\
    get_flag t' true = b2z (negb (Z.land (mem t (getr t gS + 1)) 1 =? 0)) /\
    get_flag t' false = b2z (negb (Z.land (mem t (getr t gS + 1)) 2 =? 0)) /\
    mem t' imr_cell = mem t (getr t gS) /\ (forall a, a <> imr_cell -> mem t' a = mem t a) /\
    (forall r, r <> gS -> r <> gPC -> is_temp r = false -> is_flagreg r = false -> getr t' r = getr t r).
Proof.
  intros t raddr R [Hr Hm] HS5 Hr0 Hr1 HR M2 M3 M4.
  change imr_cell with 1048827 in *.
  pose proof (getr_S_range t Hr) as HS.
  set (S0 := getr t gS) in *. set (I0 := mem t S0) in *. set (Fv := mem t (S0 + 1)) in *.
  pose proof (Hm S0) as HI. pose proof (Hm (S0 + 1)) as HF. fold I0 in HI. fold Fv in HF.
  unfold exec_decoded. change (1 =? 239)%N with false. cbv iota. rewrite reti_lift.
  cbn [i_len mk_instr]. change (Z.of_nat 1) with 1.
  set (t1 := setr (setr t gPC (Z.land raddr (Z.of_N py_pc_mask))) gPC (raddr + 1)).
  assert (T1S : getr t1 gS = S0) by (subst t1; rewrite !getr_setr_PC_other by discriminate; reflexivity).
  assert (T1w : mem_wf t1) by (subst t1; apply mem_wf_setr; apply mem_wf_setr; exact Hm).
  assert (T1r : regs_wf (rg t1)) by (subst t1; apply regs_wf_setr_PC; apply regs_wf_setr_PC; exact Hr).
  assert (T1o : forall r, r <> gPC -> getr t1 r = getr t r).
  { intros r H2. subst t1. rewrite !getr_setr_PC_other by exact H2. reflexivity. }
  destruct (fuel_split reti_prog t1 6) as [j Hj]; [cbn; lia|]. rewrite Hj.
  (* 1: IMR := pop *)
  set (u1 := store 1 (setr (logged t1 [S0]) gS (S0 + 1)) 1048827 I0).
  assert (E1 : exec_stmt (SStore 1 (EConstPtr 3 1048827) (EPop 1)) t1 = Some (u1, ONext)).
  { cbn [exec_stmt eval_expr]. rewrite load_1 by exact T1w. rewrite T1S. subst u1. reflexivity. }
  assert (U1S : getr u1 gS = S0 + 1) by (subst u1; rewrite getr_store; apply getr_setr_S; lia).
  assert (U1w : mem_wf u1) by (subst u1; apply mem_wf_store; apply mem_wf_setr; exact T1w).
  assert (U1r : regs_wf (rg u1)) by (subst u1; apply regs_wf_store; apply regs_wf_setr_S; exact T1r).
  assert (U1m : forall a, mem u1 a = if a =? 1048827 then I0 else mem t a).
  { intros a. subst u1. rewrite mem_store1, mem_setr. rewrite (Z.mod_small I0 256) by exact HI. reflexivity. }
  assert (U1o : forall r, r <> gS -> r <> gPC -> getr u1 r = getr t r).
  { intros r H1 H2. subst u1. rewrite getr_store, getr_setr_S_other by exact H1. rewrite getr_logged. apply T1o; assumption. }
  (* 2: TEMP0 := pop *)
  set (u2 := setr (setr (logged u1 [S0 + 1]) gS (S0 + 1 + 1)) (gTEMP 0) Fv).
  assert (E2 : exec_stmt (SSetReg 1 (gTEMP 0) (EPop 1)) u1 = Some (u2, ONext)).
  { cbn [exec_stmt eval_expr]. rewrite load_1 by exact U1w. rewrite U1S. subst u2.
    replace (mem u1 (S0 + 1)) with Fv; [reflexivity|]. rewrite U1m. eqb_lia. reflexivity. }
  assert (U2S : getr u2 gS = S0 + 2).
  { subst u2. rewrite getr_setr_temp_other by reflexivity. rewrite getr_setr_S by lia. lia. }
  assert (U2T : getr u2 (gTEMP 0) = Fv).
  { subst u2. apply getr_setr_T0; [|exact HF]. apply regs_wf_setr_S. exact U1r. }
  assert (U2w : mem_wf u2) by (subst u2; apply mem_wf_setr; apply mem_wf_setr; exact U1w).
  assert (U2r : regs_wf (rg u2)) by (subst u2; apply regs_wf_setr_T0; apply regs_wf_setr_S; exact U1r).
  assert (U2o : forall r, r <> gS -> r <> gPC -> is_temp r = false -> getr u2 r = getr t r).
  { intros r H1 H2 H3. subst u2. rewrite getr_setr_temp_other by exact H3. rewrite getr_setr_S_other by exact H1.
    rewrite getr_logged. apply U1o; assumption. }
  (* 3, 4: C, Z from TEMP0 *)
  set (bC := negb (Z.land Fv 1 =? 0)). set (bZ := negb (Z.land Fv 2 =? 0)).
  set (u3 := set_flag u2 true (b2z bC)). set (u4 := set_flag u3 false (b2z bZ)).
  assert (E3 : exec_stmt (SSetFlag true (EBin B_AND 1 IL.F0 (EReg 1 (gTEMP 0)) (EConst 1 1))) u2 = Some (u3, ONext)).
  { cbn [exec_stmt eval_expr eval_binop apply_flags]. rewrite U2T. reflexivity. }
  destruct (set_flag_laws u2 true bC U2r) as (F3c & F3z & U3r & U3o & U3m). fold u3 in F3c, F3z, U3r, U3o, U3m.
  assert (E4 : exec_stmt (SSetFlag false (EBin B_AND 1 IL.F0 (EReg 1 (gTEMP 0)) (EConst 1 2))) u3 = Some (u4, ONext)).
  { cbn [exec_stmt eval_expr eval_binop apply_flags]. rewrite U3o by reflexivity. rewrite U2T. reflexivity. }
  destruct (set_flag_laws u3 false bZ U3r) as (F4z & F4c & U4r & U4o & U4m). fold u4 in F4z, F4c, U4r, U4o, U4m.
  cbn [negb] in F3z, F4c.
  assert (U4S : getr u4 gS = S0 + 2) by (rewrite U4o by reflexivity; rewrite U3o by reflexivity; exact U2S).
  assert (U4w : mem_wf u4) by (intros a; rewrite U4m, U3m; apply U2w).
  (* 5: RET pop3 *)
  set (u5 := setr (setr (logged u4 [S0 + 2; S0 + 2 + 1; S0 + 2 + 1 + 1]) gS (S0 + 2 + 3)) gPC R).
  assert (E5 : exec_stmt (SRet (EPop 3)) u4 = Some (u5, ONext)).
  { cbn [exec_stmt eval_expr]. rewrite load_3 by exact U4w. rewrite U4S. subst u5.
    replace (mem u4 (S0 + 2) + 256 * (mem u4 (S0 + 2 + 1) + 256 * mem u4 (S0 + 2 + 1 + 1))) with R; [reflexivity|].
    rewrite U4m, U3m. change (mem u2) with (mem u1). rewrite !U1m. eqb_lia.
    replace (S0 + 2 + 1) with (S0 + 3) by lia. replace (S0 + 3 + 1) with (S0 + 4) by lia.
    rewrite M2, M3, M4. symmetry. apply three_bytes. exact HR. }
  exists u5. split.
  - replace (6 + j)%nat with (S (S (S (S (S (S j)))))) by lia.
    unfold reti_prog. cbn [run nth_error]. change imr_cell with 1048827.
    rewrite E1. cbn [nth_error]. rewrite E2. cbn [nth_error]. rewrite E3. cbn [nth_error]. rewrite E4.
    cbn [nth_error]. rewrite E5. cbn [nth_error]. destruct j; reflexivity.
  - assert (U5f : forall c, get_flag u5 c = get_flag u4 c).
    { intros c. subst u5. unfold get_flag. rewrite getr_setr_PC_other by (destruct c; discriminate).
      rewrite getr_setr_S_other by (destruct c; discriminate). apply getr_logged. }
    split; [|split; [|split; [|split; [|split; [|split]]]]].
    + subst u5. apply getr_setr_PC. exact HR.
    + subst u5. rewrite getr_setr_PC_other by discriminate. rewrite getr_setr_S by lia. lia.
    + rewrite U5f, F4c. exact F3c.
    + rewrite U5f. exact F4z.
    + subst u5. rewrite !mem_setr, mem_logged, U4m, U3m. change (mem u2) with (mem u1). rewrite U1m. eqb_lia. reflexivity.
    + intros a Ha. subst u5. rewrite !mem_setr, mem_logged, U4m, U3m. change (mem u2) with (mem u1). rewrite U1m. eqb_lia. reflexivity.
    + intros r H1 H2 H3 H4. subst u5. rewrite getr_setr_PC_other by exact H2. rewrite getr_setr_S_other by exact H1.
      rewrite getr_logged. rewrite U4o by exact H4. rewrite U3o by exact H4. apply U2o; assumption.
Qed.

Lemma flag_bit0 c z : (c = 0 \/ c = 1) -> (z = 0 \/ z = 1) -> b2z (negb (Z.land (c + 2 * z) 1 =? 0)) = c.
Proof. intros [-> | ->] [-> | ->]; reflexivity. Qed.
Lemma flag_bit1 c z : (c = 0 \/ c = 1) -> (z = 0 \/ z = 1) -> b2z (negb (Z.land (c + 2 * z) 2 =? 0)) = z.
Proof. intros [-> | ->] [-> | ->]; reflexivity. Qed.

(* IR ; <any handler that leaves S at the frame and the five frame bytes alone> ; RETI:
   resumes at the instruction after the IR with the caller's stack pointer, carry, zero and interrupt mask *)
Theorem ir_reti_inverse : forall s addr s1,
  wf_state s -> 5 <= getr s gS -> getr s gS <= 1048570 -> 0 <= addr -> addr + 1 < 1048576 ->
  mem s 1048570 + 256 * (mem s 1048571 + 256 * mem s 1048572) < 1048576 ->
  exec_decoded (mk_instr 254 [] 1) 254 addr s = XOk s1 ->
  forall t raddr, wf_state t -> getr t gS = getr s1 gS ->
    (forall a, getr s gS - 5 <= a < getr s gS -> mem t a = mem s1 a) ->
    0 <= raddr -> raddr + 1 < 1048576 ->
    exists t', exec_decoded (mk_instr 1 [] 1) 1 raddr t = XOk t' /\
      getr t' gPC = addr + 1 /\ getr t' gS = getr s gS /\
      get_flag t' true = get_flag s true /\ get_flag t' false = get_flag s false /\
      mem t' imr_cell = mem s imr_cell /\ (forall a, a <> imr_cell -> mem t' a = mem t a) /\
      (forall r, r <> gS -> r <> gPC -> is_temp r = false -> is_flagreg r = false -> getr t' r = getr t r).
Proof.
  intros s addr s1 Hwf H5 Htop Ha0 Ha1 Hvec Hir t raddr Twf TS Tm Hr0 Hr1.
  destruct (ir_exec s addr Hwf H5 Htop Ha0 Ha1 Hvec) as (s1' & E & _ & _ & CS & C3 & C2 & C1 & C4 & C5 & _ & _ & _).
  rewrite Hir in E. injection E as <-.
  destruct Hwf as [Hr Hm]. pose proof (getr_S_range s Hr) as HS.
  rewrite CS in TS.
  destruct (reti_exec t raddr (addr + 1) Twf) as (t' & E' & P & S' & FC' & FZ' & MI & MO & RO); try lia.
  - rewrite TS. replace (getr s gS - 5 + 2) with (getr s gS - 3) by lia. rewrite Tm by lia. exact C3.
  - rewrite TS. replace (getr s gS - 5 + 3) with (getr s gS - 2) by lia. rewrite Tm by lia. exact C2.
  - rewrite TS. replace (getr s gS - 5 + 4) with (getr s gS - 1) by lia. rewrite Tm by lia. exact C1.
  - exists t'. split; [exact E'|]. split; [exact P|]. split; [lia|].
    rewrite TS in FC', FZ', MI.
    replace (getr s gS - 5 + 1) with (getr s gS - 4) in FC', FZ' by lia.
    rewrite Tm in FC', FZ', MI by lia. rewrite C4 in FC', FZ'. rewrite C5 in MI.
    rewrite flag_bit0 in FC' by apply flag01. rewrite flag_bit1 in FZ' by apply flag01.
    repeat split; assumption.
Qed.
