(* Proofs/CallProofs.v -- calls and returns (C05): executing the IL the lifter emits for CALLF / CALL leaves exactly the
   return address on the system stack, and the IL of RETF / RET, run from ANY later state that still has that frame
   (stack pointer back at the frame, the frame bytes untouched - what a stack-neutral callee body guarantees),
   resumes at the instruction after the call with the stack pointer the caller had.

   CALLF/RETF: unconditional.  CALL/RET (16-bit return address): under the guard that the RET executes in the 64 KiB page
   of the return address; the other case is refuted in Props/C05_refuted.v (the page-edge finding). *)
From Coq Require Import ZArith NArith List Bool Lia.
From BE Require Import Model.TableTypes Gen.Tables Model.Regs Model.Decode Model.IL Model.Lift Model.Static Model.Spec
  Model.Emu Model.Irq Proofs.AluProofs Proofs.ExecProofs Proofs.AccessProofs Proofs.IrqProofs.
Import ListNotations.
Open Scope Z_scope.

Lemma callf_lift lo mid hi addr :
  lift_instr (mk_instr 5 [OImm20 lo mid hi] 4) addr = Some [SCall (EConstPtr 3 (Z.of_N (imm20 lo mid hi)))].
Proof. cbv -[Z.add Z.sub Z.mul Z.land Z.lor Z.of_N Z.opp Z.of_nat imm20]. reflexivity. Qed.

Lemma retf_lift addr : lift_instr (mk_instr 7 [] 1) addr = Some [SRet (EPop 3)].
Proof. vm_compute. reflexivity. Qed.

Lemma call_lift v addr :
  lift_instr (mk_instr 4 [OImm16 v] 3) addr =
  Some [SPush 2 (EConst 2 (addr + 3)); SJump (EConstPtr 3 (Z.lor (Z.land addr 16711680) (Z.of_N v)))].
Proof. cbv -[Z.add Z.sub Z.mul Z.land Z.lor Z.of_N Z.opp Z.of_nat]. reflexivity. Qed.

Lemma ret_lift addr :
  lift_instr (mk_instr 6 [] 1) addr = Some [SRet (EBin B_OR 3 F0 (EPop 2) (EBin B_AND 3 F0 (EReg 3 gPC) (EConst 3 16711680)))].
Proof. vm_compute. reflexivity. Qed.

Lemma call_analyze_tables :
  d_cls (entry_of 4) = I_CALL /\ d_cls (entry_of 5) = I_CALL /\ d_cls (entry_of 6) = I_RET /\ d_cls (entry_of 7) = I_RETF.
Proof. vm_compute. repeat split. Qed.

Lemma mem_store2 s a v x :
  mem (store 2 s a v) x = if x =? a + 1 then (v / 256) mod 256 else if x =? a then v mod 256 else mem s x.
Proof.
  unfold store. change (N.to_nat 2) with 2%nat. cbn [wr_bytes wr1 mem].
  rewrite !band255, !Z.mod_mod by lia. rewrite !Z.shiftr_div_pow2 by lia. change (2 ^ 8) with 256. reflexivity.
Qed.

Lemma band20 v : 0 <= v < 1048576 -> band v 1048575 = v.
Proof. intros H. unfold band. change 1048575 with (Z.ones 20). rewrite Z.land_ones by lia. apply Z.mod_small. exact H. Qed.

(* ---- CALLF --------------------------------------------------------------------------------------- *)
Theorem callf_exec : forall s lo mid hi addr,
  wf_state s -> 3 <= getr s gS -> 0 <= addr -> addr + 4 < 1048576 -> Z.of_N (imm20 lo mid hi) < 1048576 ->
  exists s', exec_decoded (mk_instr 5 [OImm20 lo mid hi] 4) 5 addr s = XOk s' /\
    wf_state s' /\
    getr s' gPC = Z.of_N (imm20 lo mid hi) /\ getr s' gS = getr s gS - 3 /\
    mem s' (getr s gS - 3) = (addr + 4) mod 256 /\ mem s' (getr s gS - 2) = ((addr + 4) / 256) mod 256 /\
    mem s' (getr s gS - 1) = ((addr + 4) / 65536) mod 256 /\
    (forall a, ~ (getr s gS - 3 <= a < getr s gS) -> mem s' a = mem s a) /\
    (forall r, r <> gS -> r <> gPC -> getr s' r = getr s r).
Proof.
  intros s lo mid hi addr [Hr Hm] H3 Ha0 Ha4 Ht.
  pose proof (getr_S_range s Hr) as HS.
  unfold exec_decoded. change (5 =? 239)%N with false. cbv iota. rewrite callf_lift.
  cbn [i_len mk_instr]. change (Z.of_nat 4) with 4.
  set (s1 := setr (setr s gPC (Z.land addr (Z.of_N py_pc_mask))) gPC (addr + 4)).
  assert (S1S : getr s1 gS = getr s gS) by (subst s1; rewrite !getr_setr_PC_other by discriminate; reflexivity).
  assert (S1P : getr s1 gPC = addr + 4) by (subst s1; apply getr_setr_PC; lia).
  assert (S1w : mem_wf s1) by (subst s1; apply mem_wf_setr; apply mem_wf_setr; exact Hm).
  assert (S1r : regs_wf (rg s1)) by (subst s1; apply regs_wf_setr_PC; apply regs_wf_setr_PC; exact Hr).
  set (S0 := getr s gS) in *.
  set (tgt := Z.of_N (imm20 lo mid hi)) in *.
  set (u := setr (setr (store 3 s1 (S0 - 3) (addr + 4)) gS (S0 - 3)) gPC tgt).
  assert (E : exec_stmt (SCall (EConstPtr 3 tgt)) s1 = Some (u, ONext)).
  { cbn [exec_stmt eval_expr call_push_size]. rewrite S1P, S1S. change (3 =? 2)%N with false. cbv iota.
    rewrite band20 by lia. reflexivity. }
  destruct (fuel_split [SCall (EConstPtr 3 tgt)] s1 2) as [j Hj]; [cbn; lia|]. rewrite Hj.
  replace (2 + j)%nat with (S (S j)) by lia. cbn [run nth_error]. rewrite E. cbn [nth_error].
  exists u. split; [reflexivity|].
  assert (Um : forall x, mem u x = if x =? S0 - 3 + 1 + 1 then ((addr + 4) / 65536) mod 256
                                   else if x =? S0 - 3 + 1 then ((addr + 4) / 256) mod 256
                                   else if x =? S0 - 3 then (addr + 4) mod 256 else mem s x).
  { intros x. subst u. rewrite !mem_setr, mem_store3. reflexivity. }
  split; [|split; [|split; [|split; [|split; [|split; [|split]]]]]].
  - split.
    + subst u. apply regs_wf_setr_PC. apply regs_wf_setr_S. apply regs_wf_store. exact S1r.
    + subst u. apply mem_wf_setr. apply mem_wf_setr. apply mem_wf_store. exact S1w.
  - subst u. apply getr_setr_PC. pose proof (N2Z.is_nonneg (imm20 lo mid hi)). lia.
  - subst u. rewrite getr_setr_PC_other by discriminate. apply getr_setr_S. lia.
  - rewrite Um. replace (S0 - 3 =? S0 - 3 + 1 + 1) with false by (symmetry; apply Z.eqb_neq; lia).
    replace (S0 - 3 =? S0 - 3 + 1) with false by (symmetry; apply Z.eqb_neq; lia). rewrite Z.eqb_refl. reflexivity.
  - rewrite Um. replace (S0 - 2 =? S0 - 3 + 1 + 1) with false by (symmetry; apply Z.eqb_neq; lia).
    replace (S0 - 2 =? S0 - 3 + 1) with true by (symmetry; apply Z.eqb_eq; lia). reflexivity.
  - rewrite Um. replace (S0 - 1 =? S0 - 3 + 1 + 1) with true by (symmetry; apply Z.eqb_eq; lia). reflexivity.
  - intros a Ha. rewrite Um.
    replace (a =? S0 - 3 + 1 + 1) with false by (symmetry; apply Z.eqb_neq; lia).
    replace (a =? S0 - 3 + 1) with false by (symmetry; apply Z.eqb_neq; lia).
    replace (a =? S0 - 3) with false by (symmetry; apply Z.eqb_neq; lia). reflexivity.
  - intros r H1 H2. subst u. rewrite getr_setr_PC_other by exact H2. rewrite getr_setr_S_other by exact H1.
    rewrite getr_store. subst s1. rewrite !getr_setr_PC_other by exact H2. reflexivity.
Qed.

(* RETF from any state that has a 3-byte little-endian return address R at the stack pointer *)
Theorem retf_exec : forall t raddr R,
  wf_state t -> getr t gS + 3 < 1048576 -> 0 <= raddr -> raddr + 1 < 1048576 -> 0 <= R < 1048576 ->
  mem t (getr t gS) = R mod 256 -> mem t (getr t gS + 1) = (R / 256) mod 256 -> mem t (getr t gS + 2) = (R / 65536) mod 256 ->
  exists t', exec_decoded (mk_instr 7 [] 1) 7 raddr t = XOk t' /\
    getr t' gPC = R /\ getr t' gS = getr t gS + 3 /\
    (forall a, mem t' a = mem t a) /\ (forall r, r <> gS -> r <> gPC -> getr t' r = getr t r).
Proof.
  intros t raddr R [Hr Hm] HS3 Hr0 Hr1 HR M0 M1 M2.
  pose proof (getr_S_range t Hr) as HS.
  unfold exec_decoded. change (7 =? 239)%N with false. cbv iota. rewrite retf_lift.
  cbn [i_len mk_instr]. change (Z.of_nat 1) with 1.
  set (t1 := setr (setr t gPC (Z.land raddr (Z.of_N py_pc_mask))) gPC (raddr + 1)).
  assert (T1S : getr t1 gS = getr t gS) by (subst t1; rewrite !getr_setr_PC_other by discriminate; reflexivity).
  assert (T1w : mem_wf t1) by (subst t1; apply mem_wf_setr; apply mem_wf_setr; exact Hm).
  set (S0 := getr t gS) in *.
  set (u := setr (setr (logged t1 [S0; S0 + 1; S0 + 1 + 1]) gS (S0 + 3)) gPC R).
  assert (E : exec_stmt (SRet (EPop 3)) t1 = Some (u, ONext)).
  { cbn [exec_stmt eval_expr]. rewrite load_3 by exact T1w. rewrite T1S. subst u.
    replace (mem t1 S0 + 256 * (mem t1 (S0 + 1) + 256 * mem t1 (S0 + 1 + 1))) with R; [reflexivity|].
    change (mem t1) with (mem t). replace (S0 + 1 + 1) with (S0 + 2) by lia. rewrite M0, M1, M2. symmetry. apply three_bytes. exact HR. }
  destruct (fuel_split [SRet (EPop 3)] t1 2) as [j Hj]; [cbn; lia|]. rewrite Hj.
  replace (2 + j)%nat with (S (S j)) by lia. cbn [run nth_error]. rewrite E. cbn [nth_error].
  exists u. split; [reflexivity|]. split; [|split; [|split]].
  - subst u. apply getr_setr_PC. exact HR.
  - subst u. rewrite getr_setr_PC_other by discriminate. apply getr_setr_S. lia.
  - intros a. reflexivity.
  - intros r H1 H2. subst u. rewrite getr_setr_PC_other by exact H2. rewrite getr_setr_S_other by exact H1.
    rewrite getr_logged. subst t1. rewrite !getr_setr_PC_other by exact H2. reflexivity.
Qed.

(* CALLF ; <any callee that leaves the stack pointer at the frame and the three frame bytes alone> ; RETF
   resumes at the instruction after the CALLF with the caller's stack pointer *)
Theorem callf_retf_inverse : forall s lo mid hi addr s1,
  wf_state s -> 3 <= getr s gS -> 0 <= addr -> addr + 4 < 1048576 -> Z.of_N (imm20 lo mid hi) < 1048576 ->
  exec_decoded (mk_instr 5 [OImm20 lo mid hi] 4) 5 addr s = XOk s1 ->
  forall t raddr, wf_state t -> getr t gS = getr s1 gS ->
    (forall a, getr s gS - 3 <= a < getr s gS -> mem t a = mem s1 a) ->
    0 <= raddr -> raddr + 1 < 1048576 ->
    exists t', exec_decoded (mk_instr 7 [] 1) 7 raddr t = XOk t' /\
      getr t' gPC = addr + 4 /\ getr t' gS = getr s gS /\ (forall a, mem t' a = mem t a) /\
      (forall r, r <> gS -> r <> gPC -> getr t' r = getr t r).
Proof.
  intros s lo mid hi addr s1 Hwf H3 Ha0 Ha4 Ht Hcall t raddr Twf TS Tm Hr0 Hr1.
  destruct (callf_exec s lo mid hi addr Hwf H3 Ha0 Ha4 Ht) as (s1' & E & _ & _ & CS & C0 & C1 & C2 & _ & _).
  rewrite Hcall in E. injection E as <-.
  destruct Hwf as [Hr Hm]. pose proof (getr_S_range s Hr) as HS.
  rewrite CS in TS.
  destruct (retf_exec t raddr (addr + 4) Twf) as (t' & E' & P & S' & M & O); try lia.
  - rewrite TS. rewrite Tm by lia. exact C0.
  - rewrite TS. replace (getr s gS - 3 + 1) with (getr s gS - 2) by lia. rewrite Tm by lia. exact C1.
  - rewrite TS. replace (getr s gS - 3 + 2) with (getr s gS - 1) by lia. rewrite Tm by lia. exact C2.
  - exists t'. split; [exact E'|]. split; [exact P|]. split; [lia|]. split; assumption.
Qed.

(* ---- CALL / RET (16-bit return address) ----------------------------------------------------------- *)
Lemma land_page (y : Z) : 0 <= y < 1048576 -> Z.land y 16711680 = Z.shiftl (y / 65536) 16.
Proof.
  intros Hy. apply Z.bits_inj'. intros n Hn. rewrite Z.land_spec.
  destruct (Z_lt_ge_dec n 16) as [Hl|Hg].
  - rewrite Z.shiftl_spec_low by lia.
    replace (Z.testbit 16711680 n) with false; [apply andb_false_r|].
    symmetry. change 16711680 with (Z.shiftl 255 16). apply Z.shiftl_spec_low. lia.
  - rewrite Z.shiftl_spec by lia. change 65536 with (2 ^ 16). rewrite <- Z.shiftr_div_pow2 by lia.
    rewrite Z.shiftr_spec by lia. replace (n - 16 + 16) with n by lia.
    destruct (Z_lt_ge_dec n 24) as [Hl2|Hg2].
    + replace (Z.testbit 16711680 n) with true; [apply andb_true_r|].
      symmetry. change 16711680 with (Z.shiftl 255 16). rewrite Z.shiftl_spec by lia.
      change 255 with (Z.ones 8). apply Z.ones_spec_low. lia.
    + replace (Z.testbit y n) with false; [reflexivity|].
      symmetry. apply Z.bits_above_log2; [lia|].
      destruct (Z.eq_dec y 0) as [->|Hy0]; [cbn; lia|].
      apply Z.log2_lt_pow2; [lia|]. apply Z.lt_le_trans with (2 ^ 20); [change (2 ^ 20) with 1048576; lia|].
      apply Z.pow_le_mono_r; lia.
Qed.

Lemma page_or (x y : Z) : 0 <= x < 1048576 -> 0 <= y < 1048576 -> y / 65536 = x / 65536 ->
  Z.lor (x mod 256 + 256 * ((x / 256) mod 256)) (Z.land y 16711680) = x.
Proof.
  intros Hx Hy Hp.
  assert (L : x mod 256 + 256 * ((x / 256) mod 256) = x mod 65536).
  { pose proof (Z.div_mod x 256 ltac:(lia)). pose proof (Z.div_mod (x / 256) 256 ltac:(lia)).
    assert (x / 256 / 256 = x / 65536) by (rewrite Z.div_div by lia; reflexivity).
    pose proof (Z.div_mod x 65536 ltac:(lia)). pose proof (Z.mod_pos_bound x 256 ltac:(lia)).
    pose proof (Z.mod_pos_bound (x / 256) 256 ltac:(lia)). pose proof (Z.mod_pos_bound x 65536 ltac:(lia)). lia. }
  rewrite L. rewrite land_page by exact Hy.
  rewrite lor_low_high; [|lia|change (2 ^ 16) with 65536; apply Z.mod_pos_bound; lia].
  change (2 ^ 16) with 65536. rewrite Hp. pose proof (Z.div_mod x 65536 ltac:(lia)). lia.
Qed.

Definition near_target (addr : Z) (v : N) : Z := addr / 65536 * 65536 + Z.of_N v.

Lemma near_target_val addr v : 0 <= addr < 1048576 -> Z.of_N v < 65536 ->
  Z.lor (Z.land addr 16711680) (Z.of_N v) = near_target addr v /\ 0 <= near_target addr v < 1048576.
Proof.
  intros Ha Hv. pose proof (N2Z.is_nonneg v) as Hv0. unfold near_target.
  rewrite land_page by exact Ha. rewrite Z.lor_comm. rewrite lor_low_high; [|lia|change (2 ^ 16) with 65536; lia].
  change (2 ^ 16) with 65536. split; [lia|].
  assert (0 <= addr / 65536 < 16) by (split; [apply Z.div_pos; lia | apply Z.div_lt_upper_bound; lia]). lia.
Qed.

Theorem call_exec : forall s v addr,
  wf_state s -> 2 <= getr s gS -> 0 <= addr -> addr + 3 < 1048576 -> Z.of_N v < 65536 ->
  exists s', exec_decoded (mk_instr 4 [OImm16 v] 3) 4 addr s = XOk s' /\
    wf_state s' /\
    getr s' gPC = near_target addr v /\ getr s' gS = getr s gS - 2 /\
    mem s' (getr s gS - 2) = (addr + 3) mod 256 /\ mem s' (getr s gS - 1) = ((addr + 3) / 256) mod 256 /\
    (forall a, ~ (getr s gS - 2 <= a < getr s gS) -> mem s' a = mem s a) /\
    (forall r, r <> gS -> r <> gPC -> getr s' r = getr s r).
Proof.
  intros s v addr [Hr Hm] H2 Ha0 Ha3 Hv.
  pose proof (getr_S_range s Hr) as HS.
  destruct (near_target_val addr v ltac:(lia) Hv) as [TV TR].
  unfold exec_decoded. change (4 =? 239)%N with false. cbv iota. rewrite call_lift.
  cbn [i_len mk_instr]. change (Z.of_nat 3) with 3.
  set (s1 := setr (setr s gPC (Z.land addr (Z.of_N py_pc_mask))) gPC (addr + 3)).
  assert (S1S : getr s1 gS = getr s gS) by (subst s1; rewrite !getr_setr_PC_other by discriminate; reflexivity).
  assert (S1w : mem_wf s1) by (subst s1; apply mem_wf_setr; apply mem_wf_setr; exact Hm).
  assert (S1r : regs_wf (rg s1)) by (subst s1; apply regs_wf_setr_PC; apply regs_wf_setr_PC; exact Hr).
  set (S0 := getr s gS) in *.
  set (u1 := setr (store 2 s1 (S0 - 2) (addr + 3)) gS (S0 - 2)).
  set (u := setr u1 gPC (near_target addr v)).
  assert (E1 : exec_stmt (SPush 2 (EConst 2 (addr + 3))) s1 = Some (u1, ONext)).
  { cbn [exec_stmt eval_expr]. rewrite S1S. reflexivity. }
  assert (E2 : exec_stmt (SJump (EConstPtr 3 (Z.lor (Z.land addr 16711680) (Z.of_N v)))) u1 = Some (u, ONext)).
  { cbn [exec_stmt eval_expr]. rewrite TV. reflexivity. }
  match goal with |- context [fuel_for ?p s1] => destruct (fuel_split p s1 3) as [j Hj]; [cbn; lia|]; rewrite Hj end.
  replace (3 + j)%nat with (S (S (S j))) by lia. cbn [run nth_error]. rewrite E1. cbn [nth_error]. rewrite E2. cbn [nth_error].
  exists u. split; [reflexivity|].
  assert (Um : forall x, mem u x = if x =? S0 - 2 + 1 then ((addr + 3) / 256) mod 256
                                   else if x =? S0 - 2 then (addr + 3) mod 256 else mem s x).
  { intros x. subst u u1. rewrite !mem_setr, mem_store2. reflexivity. }
  split; [|split; [|split; [|split; [|split; [|split]]]]].
  - split.
    + subst u u1. apply regs_wf_setr_PC. apply regs_wf_setr_S. apply regs_wf_store. exact S1r.
    + subst u u1. apply mem_wf_setr. apply mem_wf_setr. apply mem_wf_store. exact S1w.
  - subst u. apply getr_setr_PC. exact TR.
  - subst u u1. rewrite getr_setr_PC_other by discriminate. apply getr_setr_S. lia.
  - rewrite Um. replace (S0 - 2 =? S0 - 2 + 1) with false by (symmetry; apply Z.eqb_neq; lia). rewrite Z.eqb_refl. reflexivity.
  - rewrite Um. replace (S0 - 1 =? S0 - 2 + 1) with true by (symmetry; apply Z.eqb_eq; lia). reflexivity.
  - intros a Ha. rewrite Um.
    replace (a =? S0 - 2 + 1) with false by (symmetry; apply Z.eqb_neq; lia).
    replace (a =? S0 - 2) with false by (symmetry; apply Z.eqb_neq; lia). reflexivity.
  - intros r H1 H3. subst u u1. rewrite getr_setr_PC_other by exact H3. rewrite getr_setr_S_other by exact H1.
    rewrite getr_store. subst s1. rewrite !getr_setr_PC_other by exact H3. reflexivity.
Qed.

(* RET from any state that has a 2-byte return address (low 16 bits of R) at the stack pointer,
   executed at an address whose successor lies in the page of R *)
Theorem ret_exec : forall t raddr R,
  wf_state t -> getr t gS + 2 < 1048576 -> 0 <= raddr -> raddr + 1 < 1048576 -> 0 <= R < 1048576 ->
  mem t (getr t gS) = R mod 256 -> mem t (getr t gS + 1) = (R / 256) mod 256 ->
  (raddr + 1) / 65536 = R / 65536 ->
  exists t', exec_decoded (mk_instr 6 [] 1) 6 raddr t = XOk t' /\
    getr t' gPC = R /\ getr t' gS = getr t gS + 2 /\
    (forall a, mem t' a = mem t a) /\ (forall r, r <> gS -> r <> gPC -> getr t' r = getr t r).
Proof.
  intros t raddr R [Hr Hm] HS2 Hr0 Hr1 HR M0 M1 Hp.
  pose proof (getr_S_range t Hr) as HS.
  unfold exec_decoded. change (6 =? 239)%N with false. cbv iota. rewrite ret_lift.
  cbn [i_len mk_instr]. change (Z.of_nat 1) with 1.
  set (t1 := setr (setr t gPC (Z.land raddr (Z.of_N py_pc_mask))) gPC (raddr + 1)).
  assert (T1S : getr t1 gS = getr t gS) by (subst t1; rewrite !getr_setr_PC_other by discriminate; reflexivity).
  assert (T1P : getr t1 gPC = raddr + 1) by (subst t1; apply getr_setr_PC; lia).
  assert (T1w : mem_wf t1) by (subst t1; apply mem_wf_setr; apply mem_wf_setr; exact Hm).
  set (S0 := getr t gS) in *.
  set (u := setr (setr (logged t1 [S0; S0 + 1]) gS (S0 + 2)) gPC R).
  assert (E : exec_stmt (SRet (EBin B_OR 3 IL.F0 (EPop 2) (EBin B_AND 3 IL.F0 (EReg 3 gPC) (EConst 3 16711680)))) t1 = Some (u, ONext)).
  { cbn [exec_stmt eval_expr]. rewrite load_2 by exact T1w. rewrite T1S.
    cbn [eval_binop apply_flags]. rewrite getr_setr_S_other by discriminate. rewrite getr_logged, T1P.
    change (mem t1) with (mem t). rewrite M0, M1.
    rewrite page_or by (try lia; exact Hp). reflexivity. }
  match goal with |- context [fuel_for ?p t1] => destruct (fuel_split p t1 2) as [j Hj]; [cbn; lia|]; rewrite Hj end.
  replace (2 + j)%nat with (S (S j)) by lia. cbn [run nth_error]. rewrite E. cbn [nth_error].
  exists u. split; [reflexivity|]. split; [|split; [|split]].
  - subst u. apply getr_setr_PC. exact HR.
  - subst u. rewrite getr_setr_PC_other by discriminate. apply getr_setr_S. lia.
  - intros a. reflexivity.
  - intros r H1 H2. subst u. rewrite getr_setr_PC_other by exact H2. rewrite getr_setr_S_other by exact H1.
    rewrite getr_logged. subst t1. rewrite !getr_setr_PC_other by exact H2. reflexivity.
Qed.

(* CALL mn ; <callee that leaves S at the frame and the two frame bytes alone> ; RET executed in the page of the return
   address: resumes at the instruction after the CALL with the caller's stack pointer *)
Theorem call_ret_inverse : forall s v addr s1,
  wf_state s -> 2 <= getr s gS -> 0 <= addr -> addr + 3 < 1048576 -> Z.of_N v < 65536 ->
  exec_decoded (mk_instr 4 [OImm16 v] 3) 4 addr s = XOk s1 ->
  forall t raddr, wf_state t -> getr t gS = getr s1 gS ->
    (forall a, getr s gS - 2 <= a < getr s gS -> mem t a = mem s1 a) ->
    0 <= raddr -> raddr + 1 < 1048576 -> (raddr + 1) / 65536 = (addr + 3) / 65536 ->
    exists t', exec_decoded (mk_instr 6 [] 1) 6 raddr t = XOk t' /\
      getr t' gPC = addr + 3 /\ getr t' gS = getr s gS /\ (forall a, mem t' a = mem t a) /\
      (forall r, r <> gS -> r <> gPC -> getr t' r = getr t r).
Proof.
  intros s v addr s1 Hwf H2 Ha0 Ha3 Hv Hcall t raddr Twf TS Tm Hr0 Hr1 Hp.
  destruct (call_exec s v addr Hwf H2 Ha0 Ha3 Hv) as (s1' & E & _ & _ & CS & C0 & C1 & _ & _).
  rewrite Hcall in E. injection E as <-.
  destruct Hwf as [Hr Hm]. pose proof (getr_S_range s Hr) as HS.
  rewrite CS in TS.
  destruct (ret_exec t raddr (addr + 3) Twf) as (t' & E' & P & S' & M & O); try lia.
  - rewrite TS. rewrite Tm by lia. exact C0.
  - rewrite TS. replace (getr s gS - 2 + 1) with (getr s gS - 1) by lia. rewrite Tm by lia. exact C1.
  - exists t'. split; [exact E'|]. split; [exact P|]. split; [lia|]. split; assumption.
Qed.

(* without the page guard the pair is NOT an inverse: CALL in the last bytes of a page (the page-edge finding) *)
Definition edge_state : mstate :=
  {| rg := {| y_ba := 0; y_i := 0; y_x := 0; y_y := 0; y_u := 0; y_s := 4096; y_pc := 0; y_f := 0; y_t := repeat 0%N NTEMP |};
     mem := fun _ => 0; halted := false; rlog := []; wlog := [] |}.

Lemma call_ret_page_edge_refuted :
  exists s1 t', exec_decoded (mk_instr 4 [OImm16 12288] 3) 4 131070 edge_state = XOk s1 /\
                exec_decoded (mk_instr 6 [] 1) 6 77824 s1 = XOk t' /\
                getr s1 gPC = 77824 /\ getr t' gS = getr edge_state gS /\ getr t' gPC = 65537 /\ 65537 <> 131070 + 3.
Proof.
  eexists. eexists. split; [vm_compute; reflexivity|]. split; [vm_compute; reflexivity|].
  vm_compute. repeat split; discriminate.
Qed.
