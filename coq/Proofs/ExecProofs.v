(* Proofs/ExecProofs.v -- instruction-level statements: executing the lifted IL of an instruction with the model
   evaluator (Model/Lift.v exec_decoded) has exactly the documented effect (Model/Spec.v spec_exec) on every
   register, flag and memory byte, for every operand value, address and surrounding state.

   Technique: the lifter is run by vm_compute on an instruction whose immediates are variables, the resulting
   straight-line IL is executed symbolically (run_more_fuel turns the state-dependent fuel into a constant),
   and the two final register files are shown equal with the arithmetic lemmas of AluProofs and the
   commutation laws of register writes below. *)
From Coq Require Import ZArith NArith List Bool Lia.
From BE Require Import Model.TableTypes Gen.Tables Model.Regs Model.Decode Model.IL Model.Lift Model.Static Model.Spec
  Model.Emu Proofs.AluProofs.
Import ListNotations.
Open Scope Z_scope.

Lemma run_more_fuel prog : forall f pc s s', run f prog pc s = RDone s' -> forall k, run (f + k) prog pc s = RDone s'.
Proof.
  induction f as [|f IH]; intros pc s s' H k; [discriminate|].
  cbn [run Nat.add] in *.
  destruct (nth_error prog pc) as [st|]; [|exact H].
  destruct (exec_stmt st s) as [[s1 [|l]]|]; [apply IH; exact H| |discriminate].
  destruct (label_index prog l 0 None); [apply IH; exact H | discriminate].
Qed.

Lemma fuel_split (prog : list stmt) (s : mstate) (k : nat) :
  (k <= 3 * S (length prog))%nat -> exists j, fuel_for prog s = (k + j)%nat.
Proof. intros H. unfold fuel_for. exists (S (length prog) * (N.to_nat (py_get (rg s) gI) + 3) - k)%nat. nia. Qed.

Definition entry_of (opc : N) : dentry :=
  nth (N.to_nat opc) py_dec_table
      {| d_opc := 0; d_cls := I_Unknown; d_optname := None; d_cond := None; d_rev := false; d_ops := [] |}.
Definition mk_instr (opc : N) (ops : list operand) (len : nat) : instr :=
  {| i_pre := None; i_opc := opc; i_ent := entry_of opc; i_ops := ops; i_len := len |}.

(* architectural equality of machine states: registers, memory contents, low-power flag (not the access logs) *)
Definition arch_eq (a b : mstate) : Prop := rg a = rg b /\ (forall x, mem a x = mem b x) /\ halted a = halted b.

(* ---- register-file laws ------------------------------------------------------------------------ *)
Lemma setr_rg s r v : rg (setr s r v) = py_set (rg s) r (Z.to_N (v mod 4294967296)).
Proof. reflexivity. Qed.
Lemma setr_mem s r v : mem (setr s r v) = mem s. Proof. reflexivity. Qed.
Lemma setr_halted s r v : halted (setr s r v) = halted s. Proof. reflexivity. Qed.

Lemma py_set_pc_pc p a b : py_set (py_set p gPC a) gPC b = py_set p gPC b.
Proof. destruct p; reflexivity. Qed.

Lemma py_get_set_pc_other p a r : r <> gPC -> py_get (py_set p gPC a) r = py_get p r.
Proof. destruct p; destruct r; try reflexivity; intros H; congruence. Qed.

Lemma py_set_comm_flag_A p (c : bool) v w :
  py_set (py_set p (if c then gFC else gFZ) v) gA w = py_set (py_set p gA w) (if c then gFC else gFZ) v.
Proof. destruct p; destruct c; reflexivity. Qed.

Lemma getr_setr_pc s a r : r <> gPC -> getr (setr s gPC a) r = getr s r.
Proof. intros H. unfold getr. rewrite setr_rg. rewrite py_get_set_pc_other by exact H. reflexivity. Qed.

Lemma get_flag_setr_pc s a c : get_flag (setr s gPC a) c = get_flag s c.
Proof. unfold get_flag. apply getr_setr_pc. destruct c; discriminate. Qed.

(* ---- ALU A,n -------------------------------------------------------------------------------------- *)
Lemma getr_A_range s : 0 <= getr s gA < 256.
Proof.
  unfold getr. cbn [py_get]. unfold p8.
  pose proof (N.mod_upper_bound (y_ba (rg s)) 256 ltac:(discriminate)) as H.
  revert H. generalize (y_ba (rg s) mod 256)%N. intros; lia.
Qed.

Lemma flag_range s c : 0 <= get_flag s c <= 1.
Proof.
  unfold get_flag, getr. destruct c; cbn [py_get].
  - pose proof (N.mod_upper_bound (y_f (rg s)) 2 ltac:(discriminate)) as H.
    revert H. generalize (y_f (rg s) mod 2)%N. intros; lia.
  - pose proof (N.mod_upper_bound (y_f (rg s) / 2) 2 ltac:(discriminate)) as H.
    revert H. generalize ((y_f (rg s) / 2) mod 2)%N. intros; lia.
Qed.

(* both sides set PC first; everything after is a function of the state with PC advanced *)
Ltac lift_and_run len :=
  unfold exec_decoded;
  match goal with |- context [(?o =? 239)%N] => change (o =? 239)%N with false end; cbv iota;
  match goal with |- context [lift_instr ?i ?a] =>
    let L := fresh "L" in let HL := fresh "HL" in
    remember (lift_instr i a) as L eqn:HL; vm_compute in HL;
    repeat match type of HL with context [match ?n with 0%N => 0 | N.pos x => Z.pos x end] =>
      change (match n with 0%N => 0 | N.pos x => Z.pos x end) with (Z.of_N n) in HL end;
    subst L end;
  match goal with |- context [run (fuel_for ?p ?s1) ?p 0 ?s1] =>
    let j := fresh "j" in let Hj := fresh "Hj" in
    destruct (fuel_split p s1 len) as [j Hj]; [cbn; lia|]; rewrite Hj;
    rewrite (run_more_fuel p len 0 s1 _ eq_refl j) end.

Definition alu_imm_opcodes : list (N * icls) :=
  [(64, I_ADD); (72, I_SUB); (80, I_ADC); (88, I_SBC); (112, I_AND); (120, I_OR); (104, I_XOR)]%N.

Lemma opcodes_table_check :
  forallb (fun oc => match d_cls (entry_of (fst oc)), snd oc with
                     | I_ADD, I_ADD | I_SUB, I_SUB | I_ADC, I_ADC | I_SBC, I_SBC | I_AND, I_AND | I_OR, I_OR | I_XOR, I_XOR => true | _, _ => false end
                     && match d_ops (entry_of (fst oc)) with [PReg RA 1; PImm8] => true | _ => false end)
          alu_imm_opcodes = true.
Proof. vm_compute. reflexivity. Qed.

(* final states of "A := f(A, n), flags" on the two sides: IL sets PC twice and the flags before A,
   the spec sets PC once, A, then the flags *)
Lemma alu_A_final (s : mstate) (x y r : Z) (oc oz : option Z) :
  arch_eq
    (setr (let s1 := setr (setr s gPC x) gPC y in
           let s2 := match oc with Some c => set_flag s1 true c | None => s1 end in
           match oz with Some z => set_flag s2 false z | None => s2 end) gA r)
    (let t1 := setr (setr s gPC y) gA r in
     let t2 := match oc with Some c => set_flag t1 true c | None => t1 end in
     match oz with Some z => set_flag t2 false z | None => t2 end).
Proof.
  unfold arch_eq. split; [|split].
  - destruct oc as [c|]; destruct oz as [z|]; cbv zeta; unfold set_flag;
      rewrite ?setr_rg; rewrite py_set_pc_pc;
      repeat (rewrite (py_set_comm_flag_A _ true) || rewrite (py_set_comm_flag_A _ false)); reflexivity.
  - intros a. destruct oc; destruct oz; reflexivity.
  - destruct oc; destruct oz; reflexivity.
Qed.

Lemma mask1 : maskw 1 = 255. Proof. reflexivity. Qed.

Ltac spec_side cls :=
  unfold spec_exec; change (documented_form _) with true; cbv iota; cbn [negb];
  match goal with |- context [render_ops ?i] =>
    let R := fresh "R" in let HR := fresh "HR" in remember (render_ops i) as R eqn:HR; vm_compute in HR; subst R end;
  cbn [map fst snd place_of];
  match goal with |- context [d_cls (i_ent ?i)] => change (d_cls (i_ent i)) with cls end;
  cbv iota; cbv beta; reflexivity.

Ltac alu_setup s n :=
  cbn [i_len mk_instr Z.of_nat];
  rewrite !getr_setr_pc by discriminate;
  unfold rd_place, pmod, pwidth, width_of_place, p2, alu_add, alu_sub, alu_logic, wr_place, set_cz, apply_flags, zf;
  cbn [r_val r_c r_z];
  let Ha := fresh "Ha" in pose proof (getr_A_range s) as Ha;
  set (a := getr s gA) in *;
  assert (Hn' : 0 <= Z.of_N n < 256) by lia; set (m := Z.of_N n) in *;
  change (2 ^ (8 * Z.of_N 1)) with 256; rewrite ?(Z.mod_small m 256) by lia;
  rewrite ?band_mask; change (2 ^ bits 1) with 256; rewrite ?mask1.

(* the statement shape: the model execution of the lifted IL succeeds and equals the documented effect *)
Definition exec_is_spec (i : instr) (first_byte : N) : Prop :=
  forall addr s, exists s' t,
    exec_decoded i first_byte addr s = XOk s' /\ spec_exec i addr s = Some t /\ arch_eq s' t.

Theorem add_A_imm : forall n, (n < 256)%N -> exec_is_spec (mk_instr 64 [OReg RA 1; OImm8 n] 2) 64.
Proof.
  intros n Hn addr s.
  eexists. eexists. split; [lift_and_run 2%nat; reflexivity|].
  split; [spec_side I_ADD|].
  alu_setup s n.
  replace (a + m + 0) with (a + m) by lia.
  replace (255 <? a + m) with (256 <=? a + m) by (destruct (256 <=? a + m) eqn:E1; destruct (255 <? a + m) eqn:E2; lia).
  exact (alu_A_final s _ _ _ (Some _) (Some _)).
Qed.

Theorem sub_A_imm : forall n, (n < 256)%N -> exec_is_spec (mk_instr 72 [OReg RA 1; OImm8 n] 2) 72.
Proof.
  intros n Hn addr s.
  eexists. eexists. split; [lift_and_run 2%nat; reflexivity|].
  split; [spec_side I_SUB|].
  alu_setup s n.
  replace (a - m - 0) with (a - m) by lia. replace (m + 0) with m by lia.
  replace (a - m <? 0) with (a <? m) by (destruct (a <? m) eqn:E1; destruct (a - m <? 0) eqn:E2; lia).
  exact (alu_A_final s _ _ _ (Some _) (Some _)).
Qed.

Theorem and_A_imm : forall n, (n < 256)%N -> exec_is_spec (mk_instr 112 [OReg RA 1; OImm8 n] 2) 112.
Proof.
  intros n Hn addr s.
  eexists. eexists. split; [lift_and_run 2%nat; reflexivity|].
  split; [spec_side I_AND|].
  alu_setup s n. exact (alu_A_final s _ _ _ None (Some _)).
Qed.

Theorem or_A_imm : forall n, (n < 256)%N -> exec_is_spec (mk_instr 120 [OReg RA 1; OImm8 n] 2) 120.
Proof.
  intros n Hn addr s.
  eexists. eexists. split; [lift_and_run 2%nat; reflexivity|].
  split; [spec_side I_OR|].
  alu_setup s n. exact (alu_A_final s _ _ _ None (Some _)).
Qed.

Theorem xor_A_imm : forall n, (n < 256)%N -> exec_is_spec (mk_instr 104 [OReg RA 1; OImm8 n] 2) 104.
Proof.
  intros n Hn addr s.
  eexists. eexists. split; [lift_and_run 2%nat; reflexivity|].
  split; [spec_side I_XOR|].
  alu_setup s n. exact (alu_A_final s _ _ _ None (Some _)).
Qed.

(* ADC / SBC A,n: carry-in included, every n and every carry-in *)
Lemma band3 v : 0 <= v < 16777216 -> band v (maskw 3) = v.
Proof. intros H. rewrite band_mask. change (2 ^ bits 3) with 16777216. apply Z.mod_small. exact H. Qed.

Theorem adc_A_imm : forall n, (n < 256)%N -> exec_is_spec (mk_instr 80 [OReg RA 1; OImm8 n] 2) 80.
Proof.
  intros n Hn addr s.
  eexists. eexists. split; [lift_and_run 2%nat; reflexivity|].
  split; [spec_side I_ADC|].
  alu_setup s n.
  unfold flagC. rewrite !get_flag_setr_pc. fold (get_flag s true).
  pose proof (flag_range s true) as Hc. set (c := get_flag s true) in *.
  change (2 ^ bits 3) with 16777216. rewrite (Z.mod_small (m + c) 16777216) by lia.
  replace (a + m + c) with (a + (m + c)) by lia.
  replace (255 <? a + (m + c)) with (256 <=? a + (m + c))
    by (destruct (256 <=? a + (m + c)) eqn:E1; destruct (255 <? a + (m + c)) eqn:E2; lia).
  exact (alu_A_final s _ _ _ (Some _) (Some _)).
Qed.

Theorem sbc_A_imm : forall n, (n < 256)%N -> exec_is_spec (mk_instr 88 [OReg RA 1; OImm8 n] 2) 88.
Proof.
  intros n Hn addr s.
  eexists. eexists. split; [lift_and_run 2%nat; reflexivity|].
  split; [spec_side I_SBC|].
  alu_setup s n.
  unfold flagC. rewrite !get_flag_setr_pc. fold (get_flag s true).
  pose proof (flag_range s true) as Hc. set (c := get_flag s true) in *.
  change (2 ^ bits 3) with 16777216. rewrite (Z.mod_small (m + c) 16777216) by lia.
  replace (a - m - c) with (a - (m + c)) by lia.
  replace (a - (m + c) <? 0) with (a <? m + c)
    by (destruct (a <? m + c) eqn:E1; destruct (a - (m + c) <? 0) eqn:E2; lia).
  exact (alu_A_final s _ _ _ (Some _) (Some _)).
Qed.
