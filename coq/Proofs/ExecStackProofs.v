(* Proofs/ExecStackProofs.v -- user-stack push / pop of A: PUSHU A stores A at U-1 and leaves U-1 in U; POPU A loads the
   byte at U into A and leaves U+1 in U; nothing else architectural changes; POPU A after PUSHU A restores A and U. *)
From Coq Require Import ZArith NArith List Bool Lia.
From BE Require Import Model.TableTypes Gen.Tables Model.Regs Model.Decode Model.IL Model.Lift Model.Static Model.Spec
  Model.Emu Proofs.AluProofs Proofs.ExecProofs Proofs.AccessProofs Proofs.ExecMemProofs Proofs.ExecPtrProofs.
Import ListNotations.
Open Scope Z_scope.

Definition stack_is_spec (i : instr) (fb : N) (pre : mstate -> Prop) : Prop :=
  forall addr s, mem_wf s -> length (y_t (rg s)) = NTEMP -> pre s ->
  exists s' t, exec_decoded i fb addr s = XOk s' /\ spec_exec i addr s = Some t /\ arch_eqT s' t.

Lemma getr_U_range s : 0 <= getr s gU < 1048576.
Proof. apply getr_ptr_range. cbn; auto. Qed.

Theorem pushu_A : stack_is_spec (mk_instr 40 [OReg RA 1] 1) 40 (fun s => 1 <= getr s gU).
Proof.
  intros addr s Hwf HL HU. pose proof (getr_U_range s) as HR.
  lift_mem.
  match goal with |- context [run (fuel_for ?p ?s1) ?p 0 ?s1] =>
    destruct (fuel_split p s1 4) as [j Hj]; [cbn; lia|]; rewrite Hj; set (S1 := s1) end.
  assert (GU : getr S1 gU = getr s gU) by (subst S1; rewrite !getr_setr_pc by discriminate; reflexivity).
  assert (GA : getr S1 gA = getr s gA) by (subst S1; rewrite !getr_setr_pc by discriminate; reflexivity).
  assert (L1 : length (y_t (rg S1)) = NTEMP) by (subst S1; rewrite !setr_rg; destruct (rg s); exact HL).
  set (U0 := getr s gU) in *.
  replace (4 + j)%nat with (S (S (S (S j)))) by lia.
  cbn [run nth_error exec_stmt eval_expr]. rewrite GU. cbn [nth_error].
  set (u1 := setr S1 (gTEMP 1) U0).
  assert (T1 : getr u1 (gTEMP 1) = U0) by (subst u1; apply getr_setr_T1; [exact L1 | lia]).
  cbn [exec_stmt eval_expr eval_binop apply_flags]. rewrite T1. rewrite band3v. rewrite (Z.mod_small (U0 - Z.of_N 1) 16777216) by (change (Z.of_N 1) with 1; lia).
  cbn [nth_error].
  set (u2 := setr u1 gU (U0 - Z.of_N 1)).
  assert (T2 : getr u2 (gTEMP 1) = U0) by (subst u2; rewrite getr_temp_setr_o by reflexivity; exact T1).
  assert (A2 : getr u2 gA = getr s gA).
  { rewrite <- GA. subst u2 u1. unfold getr. rewrite !setr_rg. destruct (rg S1); reflexivity. }
  cbn [exec_stmt eval_expr eval_binop apply_flags]. rewrite T2, A2. rewrite band3v. rewrite (Z.mod_small (U0 - Z.of_N 1) 16777216) by (change (Z.of_N 1) with 1; lia).
  cbn [nth_error].
  eexists. eexists. split; [reflexivity|]. split; [spec_mem I_PUSHU; cbn [place_of]; reflexivity|].
  unfold push_bytes, pwidth, width_of_place, rd_place. rewrite !getr_setr_pc by discriminate. fold U0.
  change (Z.of_N 1) with 1. change (Z.to_N 1) with 1%N.
  subst u2 u1 S1. unfold arch_eqT, store. change (N.to_nat 1) with 1%nat. cbn [wr_bytes]. unfold wr1; cbn [rg mem halted].
  split; [|split]; [|intros z; reflexivity|reflexivity].
  rewrite !setr_rg. cbn [rg]. rewrite !(clear_set_other _ gU) by reflexivity. rewrite clear_set_temp.
  rewrite !(clear_set_other _ gPC) by reflexivity. rewrite py_set_pc_pc. reflexivity.
Qed.

Theorem popu_A : stack_is_spec (mk_instr 56 [OReg RA 1] 1) 56 (fun _ => True).
Proof.
  intros addr s Hwf HL _. pose proof (getr_U_range s) as HR.
  lift_mem.
  match goal with |- context [run (fuel_for ?p ?s1) ?p 0 ?s1] =>
    destruct (fuel_split p s1 4) as [j Hj]; [cbn; lia|]; rewrite Hj; set (S1 := s1) end.
  assert (GU : getr S1 gU = getr s gU) by (subst S1; rewrite !getr_setr_pc by discriminate; reflexivity).
  assert (L1 : length (y_t (rg S1)) = NTEMP) by (subst S1; rewrite !setr_rg; destruct (rg s); exact HL).
  set (U0 := getr s gU) in *.
  replace (4 + j)%nat with (S (S (S (S j)))) by lia.
  cbn [run nth_error exec_stmt eval_expr]. rewrite GU. cbn [nth_error].
  set (u1 := setr S1 (gTEMP 1) U0).
  assert (T1 : getr u1 (gTEMP 1) = U0) by (subst u1; apply getr_setr_T1; [exact L1 | lia]).
  cbn [exec_stmt eval_expr]. rewrite T1. rewrite load_1 by (intros z; apply Hwf). cbn [nth_error].
  set (u2 := setr (logged u1 [U0]) gA (mem u1 U0)).
  assert (T2 : getr u2 (gTEMP 1) = U0) by (subst u2; rewrite getr_temp_setr_o by reflexivity; exact T1).
  cbn [exec_stmt eval_expr eval_binop apply_flags]. rewrite T2. rewrite band3v. rewrite (Z.mod_small (U0 + Z.of_N 1) 16777216) by (change (Z.of_N 1) with 1; lia).
  cbn [nth_error].
  eexists. eexists. split; [reflexivity|]. split; [spec_mem I_POPU; cbn [place_of]; reflexivity|].
  unfold pop_bytes, pwidth, width_of_place, wr_place. rewrite !getr_setr_pc by discriminate. fold U0.
  change (Z.of_N 1) with 1. change (Z.to_nat 1) with 1%nat. rewrite le_val_1.
  replace (mem u1 U0) with (mem s U0) by reflexivity.
  subst u2 u1 S1. unfold arch_eqT. split; [|split]; [|intros z; reflexivity|reflexivity].
  rewrite !setr_rg. unfold logged; cbn [rg]. rewrite !setr_rg.
  rewrite ?(clear_set_other _ gU) by reflexivity. rewrite ?(clear_set_other _ gA) by reflexivity.
  rewrite ?(clear_set_other _ gU) by reflexivity. rewrite clear_set_temp. rewrite !(clear_set_other _ gPC) by reflexivity.
  rewrite py_set_pc_pc. destruct (clear_temps (rg s)); reflexivity.
Qed.

Lemma stack_opcodes_check :
  (d_cls (entry_of 40), d_ops (entry_of 40)) = (I_PUSHU, [PReg RA 1]) /\ (d_cls (entry_of 56), d_ops (entry_of 56)) = (I_POPU, [PReg RA 1]).
Proof. vm_compute. split; reflexivity. Qed.
