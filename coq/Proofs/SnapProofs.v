(* Proofs/SnapProofs.v -- C16: a Python snapshot restored into a fresh emulator reproduces the machine state, and
   therefore the whole future, exactly when the state is running (not in HALT/OFF), has no latched key interrupt and
   has USR bits 3,4 set; the three exceptions are exhibited. *)
From Coq Require Import NArith List Bool Lia.
From BE Require Import Model.Regs Model.Snap Proofs.RegsProofs.
Import ListNotations.
Open Scope N_scope.

Section SnapProofs.
  Context {KB LCD : Type}.
  Notation machine := (machine KB LCD).

  (* equality of everything step() can see: registers through every valid name, all other fields literally *)
  Definition same_machine (a b : machine) : Prop :=
    (forall r, valid r -> py_get (m_regs a) r = py_get (m_regs b) r) /\
    m_halted a = m_halted b /\ m_mem a = m_mem b /\ m_timer a = m_timer b /\ m_irq a = m_irq b /\
    m_key_latched a = m_key_latched b /\ m_cycles a = m_cycles b /\ m_kbd a = m_kbd b /\ m_lcd a = m_lcd b.

  Definition usr_ok (img : list N) : Prop :=
    match nth_error img (usr_index img) with Some v => N.lor v 24 = v | None => True end.

  Lemma force_usr_id img : usr_ok img -> force_usr img = img.
  Proof.
    unfold usr_ok, force_usr. destruct (nth_error img (usr_index img)) as [v|] eqn:E; [|reflexivity].
    intros H. rewrite H. clear H. revert E. generalize (usr_index img). induction img as [|h t IH]; intros [|n] E; cbn in *; try discriminate.
    - injection E as ->. reflexivity.
    - f_equal. apply IH. exact E.
  Qed.

  (* a freshly constructed emulator: registers zero, running, no latch *)
  Definition fresh_ok (f : machine) : Prop := m_regs f = py_init /\ m_halted f = false /\ m_key_latched f = false.

  Theorem restore_reproduces_state : forall (m f : machine),
    wf (m_regs m) -> fresh_ok f -> m_halted m = false -> m_key_latched m = false -> usr_ok (m_mem m) ->
    exists m', py_load (py_save m) f = Some m' /\ same_machine m' m.
  Proof.
    intros m f Hwf (Fr & Fh & Fk) Hh Hk Hu. unfold py_load, py_save. cbn [b_blob b_temps b_mem b_timer b_irq b_cycles b_kbd b_lcd].
    destruct (blob_roundtrip (py_capture (m_regs m)) (py_capture_wf _ Hwf)) as [_ Hb]. rewrite Hb.
    eexists. split; [reflexivity|]. unfold same_machine. cbn [m_regs m_halted m_mem m_timer m_irq m_key_latched m_cycles m_kbd m_lcd].
    repeat split; try reflexivity; try congruence.
    - intros r Hr. rewrite Fr. apply py_snapshot_roundtrip; assumption.
    - apply force_usr_id. exact Hu.
  Qed.

  (* futures: any step function that is a function of the visible state yields the same run *)
  Context {INPUT : Type}.
  Variable step : machine -> INPUT -> machine.
  Hypothesis step_respects : forall a b i, same_machine a b -> same_machine (step a i) (step b i).

  Theorem same_future : forall (ins : list INPUT) a b, same_machine a b ->
    same_machine (fold_left step ins a) (fold_left step ins b).
  Proof.
    induction ins as [|i t IH]; intros a b H; cbn [fold_left]; [exact H|]. apply IH. apply step_respects. exact H.
  Qed.
End SnapProofs.

(* the exceptions, with concrete witnesses (KB = LCD = unit) *)
Definition wit (halted latched : bool) : machine unit unit :=
  {| m_regs := py_init; m_halted := halted; m_mem := repeat 24 256; m_timer := {| t_enabled := false; t_mti := 0; t_sti := 0; t_next_mti := 0; t_next_sti := 0 |};
     m_irq := {| q_pending := false; q_in_interrupt := false; q_source := None |}; m_key_latched := latched; m_cycles := 0; m_kbd := tt; m_lcd := tt |}.

Lemma halted_not_restored :
  exists m', py_load (py_save (wit true false)) (wit false false) = Some m' /\ m_halted m' <> m_halted (wit true false).
Proof. eexists. split; [vm_compute; reflexivity|]. cbn. discriminate. Qed.

Lemma latch_not_restored :
  exists m', py_load (py_save (wit false true)) (wit false false) = Some m' /\ m_key_latched m' <> m_key_latched (wit false true).
Proof. eexists. split; [vm_compute; reflexivity|]. cbn. discriminate. Qed.
