(* Model/MemBus.v -- the two memory buses (property C11).

   Gallina definition     <-> source (pinned commit)
   py_rt / py_wt          <-> pce500/memory.py PCE500Memory.read_byte / write_byte (24-bit mask, everything at or above
                              0x100000 is internal memory kept in the LAST 256 BYTES of the 1 MiB array) +
                              pce500/memory_bus.py MemoryBus.read / write (_read_from_overlay / _write_to_overlay,
                              overlays sorted by (start, end, name)) + the memory-card slot handlers
   py_load / py_store     <-> read_word / read_long / write_word / write_long / read_bytes / write_bytes (byte loops)
   rs_rt / rs_wt          <-> sc62015/core/src/memory.rs MemoryImage byte path: canonical_address, internal_index,
                              MemoryOverlay::read / write, mirror_internal_ram_address, is_read_only_range
   rs_load / rs_store     <-> MemoryImage::load_with_pc / store_with_pc with load_internal_value, load_overlay_value
                              (bits/8 bytes, all-or-nothing), store_overlay_value (partial writes stay), external path
                              (mirror translated once for the base address, div_ceil bytes)

   A bus state is a store over abstract cells; which cell an address reads / writes (`rt` / `wt`) depends on the
   configuration only.  Initial contents: external and internal memory zero, RAM overlays zero, ROM overlay
   byte at offset o of overlay i is rom_byte i o (the harness fills the real overlays with the same pattern).
   No proofs in this file. *)
From Coq Require Import NArith List Bool.
Import ListNotations.
Open Scope N_scope.

Inductive cell := CInt (k : N) | CExt (e : N) | COvl (id off : N) | CCard (off : N).

Definition cell_eqb (a b : cell) : bool :=
  match a, b with
  | CInt x, CInt y | CExt x, CExt y | CCard x, CCard y => x =? y
  | COvl i x, COvl j y => (i =? j) && (x =? y)
  | _, _ => false
  end.

Inductive okind := KData (len : N) (ro : bool) | KAbsent.   (* KAbsent: reads 0, swallows writes (Rust absent card slot) *)
Record overlay := { o_start : N; o_end : N; o_id : N; o_kind : okind }.

Record config := {
  ovls : list overlay;               (* as added; sorted by the model like the code does *)
  card_present : bool; card_writable : bool; card_len : N;     (* Python card slot *)
  mirror : bool;                     (* Rust internal_ram_mirror *)
  ro_ranges : list (N * N)           (* Rust readonly_ranges (start, end inclusive) *)
}.

Definition rom_byte (id off : N) : N := (id * 37 + off * 11 + 5) mod 256.

(* sort key (start, end, name); names are chosen so that their order is the order of ids *)
Definition ov_le (a b : overlay) : bool :=
  (o_start a <? o_start b) ||
  ((o_start a =? o_start b) && ((o_end a <? o_end b) || ((o_end a =? o_end b) && (o_id a <=? o_id b)))).

Fixpoint ins_sorted (o : overlay) (l : list overlay) : list overlay :=
  match l with
  | [] => [o]
  | h :: t => if ov_le o h then o :: h :: t else h :: ins_sorted o t
  end.
Definition sort_ovls (l : list overlay) : list overlay := fold_right ins_sorted [] l.

Definition contains (o : overlay) (a : N) : bool := (o_start o <=? a) && (a <=? o_end o).

Inductive rtarget := RCell (c : cell) | RConst (v : N).
Inductive wtarget := WCell (c : cell) | WSwallow.

(* ---------------------------------------------------------------- Python *)
Definition CARD_START : N := 262144.   (* 0x40000 *)
Definition CARD_END : N := 327679.     (* 0x4FFFF *)

(* the card slot overlay sorts among the others by (start, end, "memory_card_slot"); the harness names other
   overlays "ov<id>", which sort after "memory_card_slot" only when they start later - modelled by giving the
   slot id 0 and the others ids >= 1 and using 'm' < 'o' *)
Fixpoint py_bus_r (cfg : config) (l : list overlay) (a : N) : rtarget :=
  match l with
  | [] => RCell (CExt a)
  | o :: t =>
      if contains o a then
        match o_kind o with
        | KAbsent =>                                   (* the card slot handler: always answers *)
            if card_present cfg && (a - CARD_START <? card_len cfg) then RCell (CCard (a - CARD_START)) else RConst 0
        | KData len _ => if a - o_start o <? len then RCell (COvl (o_id o) (a - o_start o)) else py_bus_r cfg t a
        end
      else py_bus_r cfg t a
  end.

Fixpoint py_bus_w (cfg : config) (l : list overlay) (a : N) : wtarget :=
  match l with
  | [] => WCell (CExt a)
  | o :: t =>
      if contains o a then
        match o_kind o with
        | KAbsent =>
            if card_present cfg && card_writable cfg && (a - CARD_START <? card_len cfg)
            then WCell (CCard (a - CARD_START)) else WSwallow
        | KData len ro =>
            if negb ro && (a - o_start o <? len) then WCell (COvl (o_id o) (a - o_start o))
            else if ro then WSwallow else py_bus_w cfg t a
        end
      else py_bus_w cfg t a
  end.

Definition card_slot : overlay := {| o_start := CARD_START; o_end := CARD_END; o_id := 0; o_kind := KAbsent |}.
Definition py_sorted (cfg : config) : list overlay := sort_ovls (card_slot :: ovls cfg).

Definition py_rt (cfg : config) (addr : N) : rtarget :=
  let a := addr mod 16777216 in
  if 1048576 <=? a then RCell (CExt (1048320 + (a - 1048576) mod 256))    (* last 256 bytes of the array *)
  else py_bus_r cfg (py_sorted cfg) a.

Definition py_wt (cfg : config) (addr : N) : wtarget :=
  let a := addr mod 16777216 in
  if 1048576 <=? a then WCell (CExt (1048320 + (a - 1048576) mod 256))
  else py_bus_w cfg (py_sorted cfg) a.

(* ---------------------------------------------------------------- Rust *)
Definition rs_sorted (cfg : config) : list overlay := sort_ovls (ovls cfg).

Definition rs_mirror (cfg : config) (a : N) : N :=
  if mirror cfg && (524288 <=? a) && (a <=? 786431) then 753664 + a mod 32768 else a.   (* 0x80000..0xBFFFF -> 0xB8000 + (a & 0x7FFF) *)

Definition in_ro (cfg : config) (start len : N) : bool :=
  if len =? 0 then false else
  existsb (fun r => (start <=? snd r) && (fst r <=? start + (len - 1))) (ro_ranges cfg).

Definition internal_index (a : N) : option N :=
  if (1048576 <=? a) && (a <? 1048832) then Some (a - 1048576) else None.

(* one overlay's read / write of one byte *)
Definition ov_read (o : overlay) (a : N) : option rtarget :=
  match o_kind o with
  | KAbsent => Some (RConst 0)
  | KData len _ => if a - o_start o <? len then Some (RCell (COvl (o_id o) (a - o_start o))) else None
  end.
Definition ov_write (o : overlay) (a : N) : option wtarget :=
  match o_kind o with
  | KAbsent => Some WSwallow
  | KData len ro =>
      if a - o_start o <? len then Some (if ro then WSwallow else WCell (COvl (o_id o) (a - o_start o)))
      else if ro then Some WSwallow else None
  end.

Fixpoint rs_ovl_r (l : list overlay) (a : N) : option rtarget :=
  match l with
  | [] => None
  | o :: t => if contains o a then match ov_read o a with Some r => Some r | None => rs_ovl_r t a end else rs_ovl_r t a
  end.
Fixpoint rs_ovl_w (l : list overlay) (a : N) : option wtarget :=
  match l with
  | [] => None
  | o :: t => if contains o a then match ov_write o a with Some r => Some r | None => rs_ovl_w t a end else rs_ovl_w t a
  end.

Definition rs_rt (cfg : config) (addr : N) : rtarget :=
  let a := addr mod 16777216 in
  match internal_index a with
  | Some k => RCell (CInt k)
  | None => match rs_ovl_r (rs_sorted cfg) a with
            | Some r => r
            | None => RCell (CExt (rs_mirror cfg a mod 1048576))
            end
  end.

Definition rs_wt (cfg : config) (addr : N) : wtarget :=
  let a := addr mod 16777216 in
  match internal_index a with
  | Some k => WCell (CInt k)
  | None => match rs_ovl_w (rs_sorted cfg) a with
            | Some w => w
            | None => if in_ro cfg (rs_mirror cfg a) 1 then WSwallow else WCell (CExt (rs_mirror cfg a mod 1048576))
            end
  end.

(* ---------------------------------------------------------------- stores *)
Definition store := list (cell * N).       (* most recent first; absent cells have their initial contents *)

Definition init_cell (c : cell) : N :=
  match c with COvl id off => rom_byte id off | _ => 0 end.

(* RAM overlays start zeroed, ROM overlays with the pattern: the config decides *)
Definition ovl_is_ro (cfg : config) (id : N) : bool :=
  existsb (fun o => (o_id o =? id) && match o_kind o with KData _ ro => ro | KAbsent => false end) (ovls cfg).

Definition cell_init (cfg : config) (c : cell) : N :=
  match c with COvl id off => if ovl_is_ro cfg id then rom_byte id off else 0 | _ => 0 end.

Fixpoint lookup (s : store) (c : cell) : option N :=
  match s with [] => None | (c', v) :: t => if cell_eqb c' c then Some v else lookup t c end.

Definition rd_cell (cfg : config) (s : store) (c : cell) : N :=
  match lookup s c with Some v => v | None => cell_init cfg c end.

Definition rd (cfg : config) (s : store) (t : rtarget) : N :=
  match t with RCell c => rd_cell cfg s c | RConst v => v end.
Definition wr (s : store) (t : wtarget) (v : N) : store :=
  match t with WCell c => (c, v mod 256) :: s | WSwallow => s end.

(* byte accesses *)
Definition py_read (cfg : config) (s : store) (a : N) : N := rd cfg s (py_rt cfg a).
Definition py_write (cfg : config) (s : store) (a v : N) : store := wr s (py_wt cfg a) v.
Definition rs_read (cfg : config) (s : store) (a : N) : N := rd cfg s (rs_rt cfg a).
Definition rs_write (cfg : config) (s : store) (a v : N) : store := wr s (rs_wt cfg a) v.

(* Python multi-byte: loops over byte accesses at address + i (each re-masked) *)
Fixpoint py_load (cfg : config) (s : store) (a : N) (n : nat) : N :=
  match n with O => 0 | S m => py_read cfg s a + 256 * py_load cfg s (a + 1) m end.
Fixpoint py_store (cfg : config) (s : store) (a v : N) (n : nat) : store :=
  match n with O => s | S m => py_store cfg (py_write cfg s a v) (a + 1) (v / 256) m end.

(* Rust multi-byte *)
Definition nbytes_ceil (bits : N) : nat := N.to_nat (N.max 1 ((bits + 7) / 8)).
Definition nbytes_floor (bits : N) : nat := N.to_nat (N.max 1 (bits / 8)).

Fixpoint le_cells (cfg : config) (s : store) (cells : list rtarget) : N :=
  match cells with [] => 0 | t :: r => rd cfg s t + 256 * le_cells cfg s r end.

Fixpoint seqN (a : N) (n : nat) : list N := match n with O => [] | S m => a :: seqN (a + 1) m end.

Fixpoint all_some {A} (l : list (option A)) : option (list A) :=
  match l with
  | [] => Some []
  | Some x :: t => match all_some t with Some r => Some (x :: r) | None => None end
  | None :: _ => None
  end.

Definition rs_load (cfg : config) (s : store) (addr bits : N) : N :=
  let a := addr mod 16777216 in
  let nc := nbytes_ceil bits in
  match internal_index a with
  | Some k =>
      if k + N.of_nat nc <=? 256 then le_cells cfg s (map (fun i => RCell (CInt i)) (seqN k nc))
      else (* falls through to the overlay / external paths with the internal address *)
        match all_some (map (fun x => rs_ovl_r (rs_sorted cfg) (x mod 16777216)) (seqN a (nbytes_floor bits))) with
        | Some ts => le_cells cfg s ts
        | None => le_cells cfg s (map (fun x => RCell (CExt (x mod 1048576))) (seqN (rs_mirror cfg a) nc))
        end
  | None =>
      match all_some (map (fun x => rs_ovl_r (rs_sorted cfg) (x mod 16777216)) (seqN a (nbytes_floor bits))) with
      | Some ts => le_cells cfg s ts
      | None => le_cells cfg s (map (fun x => RCell (CExt (x mod 1048576))) (seqN (rs_mirror cfg a) nc))
      end
  end.

Fixpoint wr_cells (s : store) (cells : list wtarget) (v : N) : store :=
  match cells with [] => s | t :: r => wr_cells (wr s t v) r (v / 256) end.

(* store_overlay_value: bytes are written one by one; an unhandled byte aborts, earlier bytes stay written *)
Fixpoint rs_ovl_store (cfg : config) (s : store) (addrs : list N) (v : N) : store * bool :=
  match addrs with
  | [] => (s, true)
  | x :: r =>
      match rs_ovl_w (rs_sorted cfg) (x mod 16777216) with
      | Some t => rs_ovl_store cfg (wr s t v) r (v / 256)
      | None => (s, false)
      end
  end.

Definition rs_store_ext (cfg : config) (s : store) (a v : N) (bits : N) : store :=
  let nc := nbytes_ceil bits in
  let ea := rs_mirror cfg a in
  if in_ro cfg ea (N.of_nat nc) then s
  else wr_cells s (map (fun x => WCell (CExt (x mod 1048576))) (seqN ea nc)) v.

Definition rs_store (cfg : config) (s : store) (addr bits v : N) : store :=
  let a := addr mod 16777216 in
  let nc := nbytes_ceil bits in
  let after_internal :=
    match rs_ovl_store cfg s (seqN a (nbytes_floor bits)) v with
    | (s', true) => s'
    | (s', false) => rs_store_ext cfg s' a v bits
    end in
  match internal_index a with
  | Some k => if k + N.of_nat nc <=? 256 then wr_cells s (map (fun i => WCell (CInt i)) (seqN k nc)) v else after_internal
  | None => after_internal
  end.

(* ---- op streams ------------------------------------------------------------------------------ *)
Inductive mop := MLoad (a bits : N) | MStore (a bits v : N).

Fixpoint py_run (cfg : config) (s : store) (ops : list mop) : list N :=
  match ops with
  | [] => []
  | MLoad a bits :: t => py_load cfg s a (nbytes_ceil bits) :: py_run cfg s t
  | MStore a bits v :: t => 0 :: py_run cfg (py_store cfg s a v (nbytes_ceil bits)) t
  end.

Fixpoint rs_run (cfg : config) (s : store) (ops : list mop) : list N :=
  match ops with
  | [] => []
  | MLoad a bits :: t => rs_load cfg s a bits :: rs_run cfg s t
  | MStore a bits v :: t => 0 :: rs_run cfg (rs_store cfg s a bits v) t
  end.
