(* Model/Static.v -- what the plugin tells Binary Ninja about an instruction without executing it:
   branch metadata (C05) and the rendered operands (C03), plus the meaning of rendered operands under the
   documented addressing rules (the access sets C03 compares the IL's accesses with).

   Gallina definition   <-> source
   analyze              <-> <Instruction subclass>.analyze in instructions.py (length, add_branch calls)
   render_ops           <-> Instruction.render: logical operands paired with the mode render() passes to each
                            (dst_mode for operand 0, src_mode for the others), as rendered by IMemHelper.render,
                            EMemValueOffsetHelper.render, RegIncrementDecrementHelper.render, ...
   denote / den_*       <-> sc62015/pysc62015/README.md addressing rules: which bytes a rendered operand names
   No proofs in this file. *)
From Coq Require Import ZArith NArith List Bool.
From BE Require Import Model.TableTypes Gen.Tables Model.Regs Model.Decode Model.IL Model.Lift.
Import ListNotations.
Open Scope Z_scope.

(* ---- branch metadata --------------------------------------------------------------------------- *)
Inductive btype := BTrue | BFalse | BUncond | BCall | BReturn | BUnresolved.
Record binfo := { b_len : nat; b_branches : list (btype * option Z) }.

(* None = analyze raised (lone PRE) *)
Definition analyze (i : instr) (addr : Z) : option binfo :=
  let e := i_ent i in
  let len := Z.of_nat (i_len i) in
  let mk l := Some {| b_len := i_len i; b_branches := l |} in
  match d_cls e with
  | I_PRE => None
  | I_JP_Abs =>
      let fb := match d_cond e with Some _ => [(BFalse, Some (addr + len))] | None => [] end in
      let ty := match d_cond e with Some _ => BTrue | None => BUncond end in
      match i_ops i with
      | [OImm16 v] => mk (fb ++ [(ty, Some (Z.lor (Z.of_N v) (Z.land addr 16711680)))])
      | [OImm20 lo mid hi] => mk (fb ++ [(ty, Some (Z.of_N (imm20 lo mid hi)))])
      | _ => mk (fb ++ [(BUnresolved, None)])               (* JP r3 / JP (n) *)
      end
  | I_JP_Rel =>
      let fb := match d_cond e with Some _ => [(BFalse, Some (addr + len))] | None => [] end in
      let ty := match d_cond e with Some _ => BTrue | None => BUncond end in
      match i_ops i with
      | [OImmOff neg v] => mk (fb ++ [(ty, Some (addr + len + soff neg v))])
      | _ => None
      end
  | I_CALL =>
      match i_ops i with
      | [OImm16 v] => mk [(BCall, Some (Z.lor (Z.land addr 16711680) (Z.of_N v)))]
      | [OImm20 lo mid hi] => mk [(BCall, Some (Z.of_N (imm20 lo mid hi)))]
      | _ => None
      end
  | I_RET | I_RETF | I_RETI => mk [(BReturn, None)]
  | I_RESET => mk [(BUnresolved, None)]
  | _ => mk []
  end.

(* ---- rendered operands ------------------------------------------------------------------------- *)
(* each logical operand with the addressing mode Instruction.render passes to its render() *)
Definition render_ops (i : instr) : option (list (logop * imode)) :=
  match expand (i_ent i) (i_ops i) with
  | None => None
  | Some lops =>
      match addressing_modes i lops with
      | None => None
      | Some (dm, sm) =>
          match lops with
          | [] => Some []
          | [a] => Some [(a, dm)]
          | [a; b] => Some [(a, dm); (b, sm)]
          | _ => None                                        (* assert index < 2 *)
          end
      end
  end.

(* ---- meaning of a rendered operand ----------------------------------------------------------------- *)
Definition memb (s : mstate) (a : Z) : Z := mem s a.
Definition imem_reg (s : mstate) (off : N) : Z := memb s (imem off).

(* internal-memory cell named by "(n)", "(BP+n)", ... : address, and the cells read to form it *)
Definition imem_cell (s : mstate) (m : imode) (n : N) : Z * list Z :=
  let bp := imem_reg s py_imem_BP in
  let px := imem_reg s py_imem_PX in
  let py := imem_reg s py_imem_PY in
  let at_ v := ims + v mod 256 in
  match m with
  | IM_N => (at_ (Z.of_N n), [])
  | IM_BP_N => (at_ (bp + Z.of_N n), [imem py_imem_BP])
  | IM_PX_N => (at_ (px + Z.of_N n), [imem py_imem_PX])
  | IM_PY_N => (at_ (py + Z.of_N n), [imem py_imem_PY])
  | IM_BP_PX => (at_ (bp + px), [imem py_imem_BP; imem py_imem_PX])
  | IM_BP_PY => (at_ (bp + py), [imem py_imem_BP; imem py_imem_PY])
  end.

Fixpoint range (a : Z) (n : nat) : list Z :=
  match n with O => [] | S k => a :: range (a + 1) k end.

Definition le_val (s : mstate) (a : Z) (n : nat) : Z :=
  fold_right (fun x acc => memb s x + 256 * acc) 0 (range a n).

(* where a rendered operand's datum lives: Some (address, width, cells read for addressing, register side effect) *)
Inductive place :=
  | PlMem (a : Z) (w : N) (addr_reads : list Z) (upd : option (reg * Z))
  | PlReg (r : reg) (w : N)
  | PlImm (v : Z)
  | PlIMR | PlF
  | PlNone.

Definition place_of (s : mstate) (o : logop) (m : imode) : place :=
  match o with
  | LImm _ v => PlImm (Z.of_N v)
  | LImmOff neg v => PlImm (soff neg v)
  | LIMem w n => let '(a, rs) := imem_cell s m n in PlMem a w rs None
  | LReg r w | LReg3 r w => PlReg r w
  | LRegIL => PlReg gIL 1
  | LRegIMR => PlIMR
  | LRegF => PlF
  | LEAddr w v => PlMem (Z.of_N v) w [] None
  | LEPtr w b off =>
      let d := match off with Some x => x | None => 0 end in
      match b with
      | PB_Reg r _ => PlMem ((getr s r + d) mod 16777216) w [] None
      | PB_IncDec r _ EM_SIMPLE _ => PlMem (getr s r) w [] None
      | PB_IncDec r _ EM_POST_INC st => PlMem (getr s r) w [] (Some (r, getr s r + Z.of_N st))
      | PB_IncDec r _ EM_PRE_DEC st =>
          PlMem ((getr s r - Z.of_N st) mod 16777216) w [] (Some (r, getr s r - Z.of_N st))
      | PB_IncDec r _ _ _ => PlNone
      | PB_IMem n =>
          let '(pa, rs) := imem_cell s m n in
          let ptr := le_val s pa 3 in
          PlMem (if off then (ptr + d) mod 16777216 else ptr) w (rs ++ range pa 3) None
      end
  end.

(* ---- documented access sets ---------------------------------------------------------------------- *)
Record acc := { a_reads : list Z; a_writes : list Z }.
Definition acc0 : acc := {| a_reads := []; a_writes := [] |}.
Definition acc_app (x y : acc) : acc := {| a_reads := a_reads x ++ a_reads y; a_writes := a_writes x ++ a_writes y |}.

Definition imr_cell : Z := imem py_imem_IMR.

(* bytes of an operand read as data (with the cells read to address it) / written *)
Definition op_read (p : place) : acc :=
  match p with
  | PlMem a w rs _ => {| a_reads := rs ++ range a (N.to_nat w); a_writes := [] |}
  | PlIMR => {| a_reads := [imr_cell]; a_writes := [] |}
  | _ => acc0
  end.
Definition op_write (p : place) : acc :=
  match p with
  | PlMem a w rs _ => {| a_reads := rs; a_writes := range a (N.to_nat w) |}
  | PlIMR => {| a_reads := []; a_writes := [imr_cell] |}
  | _ => acc0
  end.

(* a run of n elements of width w starting at the operand's address, ascending or descending; internal
   memory wraps inside its 256 bytes *)
Definition in_imem (a : Z) : bool := (ims <=? a) && (a <? ims + 256).
Definition wrap_imem (base a : Z) : Z := if in_imem base then ims + (a - ims) mod 256 else a.
Fixpoint run_cells (base : Z) (w : nat) (n : nat) (down : bool) (k : Z) : list Z :=
  match n with
  | O => []
  | S n' =>
      let start := if down then base - k * Z.of_nat w else base + k * Z.of_nat w in
      map (wrap_imem base) (range start w) ++ run_cells base w n' down (k + 1)
  end.

Definition op_run (p : place) (n : nat) (down : bool) (write : bool) : acc :=
  match p with
  | PlMem a w rs _ =>
      let cells := run_cells a (N.to_nat w) n down 0 in
      if write then {| a_reads := rs; a_writes := cells |} else {| a_reads := rs ++ cells; a_writes := [] |}
  | _ => acc0
  end.

Definition stack_cells (sp : Z) (n : Z) (push : bool) : list Z :=
  if push then range (sp - n) (Z.to_nat n) else range sp (Z.to_nat n).

Definition width_of_place (p : place) : Z :=
  match p with PlMem _ w _ _ | PlReg _ w => Z.of_N w | PlIMR | PlF => 1 | _ => 0 end.

Definition den_access (i : instr) (s : mstate) : option acc :=
  match render_ops i with
  | None => None
  | Some ros =>
      let ps := map (fun om => place_of s (fst om) (snd om)) ros in
      let n := N.to_nat (py_get (rg s) gI) in
      let sp := getr s gS in
      let up := getr s gU in
      let both_rw := fold_right (fun p a => acc_app (acc_app (op_read p) (op_write p)) a) acc0 ps in
      let all_r := fold_right (fun p a => acc_app (op_read p) a) acc0 ps in
      match d_cls (i_ent i), ps with
      | I_MV, [d; sr] => Some (acc_app (op_read sr) (op_write d))
      | (I_ADD | I_ADC | I_SUB | I_SBC | I_AND | I_OR | I_XOR | I_PMDF), [d; sr] =>
          Some (acc_app (acc_app (op_read d) (op_read sr)) (op_write d))
      | (I_INC | I_DEC | I_ROR | I_ROL | I_SHL | I_SHR | I_SWAP), [d] => Some (acc_app (op_read d) (op_write d))
      | (I_CMP | I_CMPW | I_CMPP | I_TEST), [_; _] => Some all_r
      | I_EX, [_; _] => Some both_rw
      | I_EXL, [a; b] =>
          Some (acc_app (acc_app (op_run a n false false) (op_run a n false true))
                        (acc_app (op_run b n false false) (op_run b n false true)))
      | I_MVL, [d; sr] =>
          let down := match sr with PlMem _ _ _ (Some (_, _)) => match fst (nth 1 ros (LRegF, IM_N)) with
                                                              | LEPtr _ (PB_IncDec _ _ EM_PRE_DEC _) _ => true | _ => false end
                                  | _ => false end in
          Some (acc_app (op_run sr n down false) (op_run d n down true))
      | I_MVLD, [d; sr] => Some (acc_app (op_run sr n true false) (op_run d n true true))
      | (I_ADCL | I_SBCL), [d; sr] =>
          Some (acc_app (acc_app (op_run d n false false) (op_run sr n false false)) (op_run d n false true))
      | (I_DADL | I_DSBL), [d; sr] =>
          Some (acc_app (acc_app (op_run d n true false) (op_run sr n true false)) (op_run d n true true))
      | I_DSLL, [d] => Some (acc_app (op_run d n true false) (op_run d n true true))
      | I_DSRL, [d] => Some (acc_app (op_run d n false false) (op_run d n false true))
      | I_PUSHS, [p] => Some (acc_app (op_read p) {| a_reads := []; a_writes := stack_cells sp (width_of_place p) true |})
      | I_POPS, [p] => Some (acc_app (op_write p) {| a_reads := stack_cells sp (width_of_place p) false; a_writes := [] |})
      | I_PUSHU, [p] =>
          Some (acc_app (acc_app (op_read p) {| a_reads := []; a_writes := stack_cells up (width_of_place p) true |})
                        (match p with PlIMR => op_write p | _ => acc0 end))
      | I_POPU, [p] => Some (acc_app (op_write p) {| a_reads := stack_cells up (width_of_place p) false; a_writes := [] |})
      | I_CALL, [PlImm _] =>
          let w := match i_ops i with [OImm20 _ _ _] => 3 | _ => 2 end in
          Some {| a_reads := []; a_writes := stack_cells sp w true |}
      | I_RET, [] => Some {| a_reads := stack_cells sp 2 false; a_writes := [] |}
      | I_RETF, [] => Some {| a_reads := stack_cells sp 3 false; a_writes := [] |}
      | I_RETI, [] => Some {| a_reads := stack_cells sp 5 false; a_writes := [imr_cell] |}
      | I_IR, [] =>
          Some {| a_reads := imr_cell :: range (Z.of_N py_interrupt_vector) 3;
                  a_writes := imr_cell :: stack_cells sp 5 true |}
      | I_JP_Abs, [p] => Some (op_read p)
      | I_JP_Rel, [_] => Some acc0
      | (I_HALT | I_OFF), [] =>
          Some {| a_reads := [imem py_imem_USR; imem py_imem_SSR]; a_writes := [imem py_imem_USR; imem py_imem_SSR] |}
      | I_RESET, [] =>
          Some {| a_reads := [imem py_imem_LCC; imem py_imem_USR; imem py_imem_SSR] ++ range (Z.of_N py_reset_vector_used) 3;
                  a_writes := [imem py_imem_LCC; imem py_imem_UCR; imem py_imem_ISR; imem py_imem_SCR;
                               imem py_imem_USR; imem py_imem_SSR] |}
      | (I_NOP | I_SC | I_RC | I_TCL | I_WAIT), [] => Some acc0
      | _, _ => None
      end
  end.
