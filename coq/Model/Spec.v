(* Model/Spec.v -- the documented effect of one instruction (sc62015/pysc62015/README.md instruction tables),
   written directly over operand places (Model/Static.v place_of), independent of the IL.

   alu_*            documented result / C / Z of each operation on operand values
   spec_exec        documented effect on registers, flags and memory of the non-counted instructions and of the
                    counted ones (MVL/MVLD, ADCL/SBCL, DADL/DSBL, DSLL/DSRL, EXL) as loops over I
   Operand addresses are those of the state before the instruction.  None = class not covered by this spec.
   No proofs in this file. *)
From Coq Require Import ZArith NArith List Bool.
From BE Require Import Model.TableTypes Gen.Tables Model.Regs Model.Decode Model.IL Model.Lift Model.Static.
Import ListNotations.
Open Scope Z_scope.

Definition p2 (w : Z) : Z := 2 ^ (8 * w).

(* value, carry, zero *)
Record alu := { r_val : Z; r_c : option Z; r_z : option Z }.
Definition zf (v : Z) : option Z := Some (b2z (v =? 0)).

(* m is the modulus of the destination (2^8, 2^16, 2^20, 2^24) *)
Definition alu_add (m a b cin : Z) : alu :=
  let r := (a + b + cin) mod m in {| r_val := r; r_c := Some (b2z (m <=? a + b + cin)); r_z := zf r |}.
Definition alu_sub (m a b bin : Z) : alu :=
  let r := (a - b - bin) mod m in {| r_val := r; r_c := Some (b2z (a <? b + bin)); r_z := zf r |}.
Definition alu_logic (f : Z -> Z -> Z) (a b : Z) : alu :=
  let r := f a b in {| r_val := r; r_c := None; r_z := zf r |}.
Definition alu_inc (m a : Z) : alu := let r := (a + 1) mod m in {| r_val := r; r_c := None; r_z := zf r |}.
Definition alu_dec (m a : Z) : alu := let r := (a - 1) mod m in {| r_val := r; r_c := None; r_z := zf r |}.
(* 8-bit rotates and shifts through carry *)
Definition alu_ror (a : Z) : alu :=
  let r := a / 2 + (a mod 2) * 128 in {| r_val := r; r_c := Some (a mod 2); r_z := zf r |}.
Definition alu_rol (a : Z) : alu :=
  let r := (a * 2) mod 256 + a / 128 in {| r_val := r; r_c := Some (a / 128); r_z := zf r |}.
Definition alu_shr (a cin : Z) : alu :=
  let r := a / 2 + cin * 128 in {| r_val := r; r_c := Some (a mod 2); r_z := zf r |}.
Definition alu_shl (a cin : Z) : alu :=
  let r := (a * 2) mod 256 + cin in {| r_val := r; r_c := Some (a / 128); r_z := zf r |}.
Definition alu_swap (a : Z) : alu :=
  let r := (a mod 16) * 16 + a / 16 in {| r_val := r; r_c := None; r_z := zf r |}.

(* packed BCD byte add / subtract with carry; digits are taken as they are (documented for valid BCD) *)
Definition bcd_add (a b cin : Z) : alu :=
  let lo := a mod 16 + b mod 16 + cin in
  let lo' := if 9 <? lo then lo + 6 else lo in
  let hi := a / 16 + b / 16 + lo' / 16 in
  let hi' := if 9 <? hi then hi + 6 else hi in
  let r := (hi' mod 16) * 16 + lo' mod 16 in
  {| r_val := r; r_c := Some (b2z (0 <? hi' / 16)); r_z := zf r |}.
Definition bcd_sub (a b bin : Z) : alu :=
  let lo := a mod 16 - b mod 16 - bin in
  let bl := b2z (lo <? 0) in
  let lo' := if lo <? 0 then lo - 6 else lo in
  let hi := a / 16 - b / 16 - bl in
  let bh := b2z (hi <? 0) in
  let hi' := if hi <? 0 then hi - 6 else hi in
  let r := (hi' mod 16) * 16 + lo' mod 16 in
  {| r_val := r; r_c := Some bh; r_z := zf r |}.

(* ---- state access through places --------------------------------------------------------------- *)
Definition flagC (s : mstate) : Z := getr s gFC.
Definition flagZ (s : mstate) : Z := getr s gFZ.

Definition rd_place (s : mstate) (p : place) : Z :=
  match p with
  | PlMem a w _ _ => le_val s a (N.to_nat w)
  | PlReg r w => getr s r
  | PlImm v => v
  | PlIMR => memb s imr_cell
  | PlF => flagC s + 2 * flagZ s
  | PlNone => 0
  end.

Definition wr_place (s : mstate) (p : place) (v : Z) : mstate :=
  match p with
  | PlMem a w _ _ => store w s a v
  | PlReg r w => setr s r v
  | PlIMR => store 1 s imr_cell v
  | PlF => set_flag (set_flag s true (v mod 2)) false ((v / 2) mod 2)
  | _ => s
  end.

(* register update a rendered pointer operand implies ([r++] / [--r]) *)
Definition upd_place (s : mstate) (p : place) : mstate :=
  match p with PlMem _ _ _ (Some (r, v)) => setr s r v | _ => s end.

Definition set_cz (s : mstate) (r : alu) : mstate :=
  let s1 := match r_c r with Some c => set_flag s true c | None => s end in
  match r_z r with Some z => set_flag s1 false z | None => s1 end.

Definition pwidth (p : place) : Z := width_of_place p.

(* modulus of a destination: pointer registers are 20 bits wide *)
Definition pmod (p : place) : Z :=
  match p with
  | PlReg (gX | gY | gU | gS | gPC) _ => 1048576
  | _ => p2 (pwidth p)
  end.

(* ---- counted instructions -------------------------------------------------------------------- *)
(* k-th element address of a run that starts at the operand's address *)
Definition elt (p : place) (k : Z) (down : bool) : place :=
  match p with
  | PlMem a w rs u =>
      let a' := if down then a - k * Z.of_N w else a + k * Z.of_N w in
      PlMem (wrap_imem a a') w rs u
  | _ => p
  end.

Fixpoint block_move (n : nat) (k : Z) (d sr : place) (down : bool) (s : mstate) : mstate :=
  match n with
  | O => s
  | S n' => block_move n' (k + 1) d sr down (wr_place s (elt d k down) (rd_place s (elt sr k down)))
  end.

Fixpoint block_exchange (n : nat) (k : Z) (a b : place) (s : mstate) : mstate :=
  match n with
  | O => s
  | S n' =>
      let va := rd_place s (elt a k false) in
      let vb := rd_place s (elt b k false) in
      block_exchange n' (k + 1) a b (wr_place (wr_place s (elt a k false) vb) (elt b k false) va)
  end.

(* multi-byte arithmetic: carry chains through the bytes, Z is set when every result byte is zero;
   a register source supplies the same value for each byte (ADCL/SBCL) or only for the first (DADL/DSBL) *)
Fixpoint block_arith (n : nat) (k : Z) (d sr : place) (down bcd subtract first_only : bool)
         (cin : Z) (allz : bool) (s : mstate) : mstate * Z * bool :=
  match n with
  | O => (s, cin, allz)
  | S n' =>
      let a := rd_place s (elt d k down) in
      let b := match sr with
               | PlMem _ _ _ _ => rd_place s (elt sr k down)
               | _ => if first_only && negb (k =? 0) then 0 else rd_place s sr
               end in
      let r := if bcd then (if subtract then bcd_sub a b cin else bcd_add a b cin)
               else (if subtract then alu_sub 256 a b cin else alu_add 256 a b cin) in
      let s1 := wr_place s (elt d k down) (r_val r) in
      block_arith n' (k + 1) d sr down bcd subtract first_only
                  (match r_c r with Some c => c | None => 0 end) (allz && (r_val r =? 0)) s1
  end.

(* decimal digit shift over n bytes; DSLL walks down from the MSB address, DSRL up from the LSB address *)
Fixpoint block_dshift (n : nat) (k : Z) (d : place) (lft : bool) (carry : Z) (allz : bool) (s : mstate) : mstate * bool :=
  match n with
  | O => (s, allz)
  | S n' =>
      let t := rd_place s (elt d k lft) in
      let '(v, nc) := if lft then ((t mod 16) * 16 + carry, t / 16) else (t / 16 + carry * 16, t mod 16) in
      block_dshift n' (k + 1) d lft nc (allz && (v =? 0)) (wr_place s (elt d k lft) v)
  end.

(* pointer register after a counted transfer: [r++] advances by the bytes moved, [--r] retreats *)
Definition upd_block (s : mstate) (o : logop) (n : Z) : mstate :=
  match o with
  | LEPtr w (PB_IncDec r _ EM_POST_INC _) _ => setr s r (getr s r + n * Z.of_N w)
  | LEPtr w (PB_IncDec r _ EM_PRE_DEC _) _ => setr s r (getr s r - n * Z.of_N w)
  | _ => s
  end.

(* ---- one instruction ------------------------------------------------------------------------ *)
Definition push_bytes (s : mstate) (spr : reg) (w : Z) (v : Z) : mstate :=
  let sp := getr s spr - w in
  setr (store (Z.to_N w) s sp v) spr sp.
Definition pop_bytes (s : mstate) (spr : reg) (w : Z) : Z * mstate :=
  let sp := getr s spr in
  (le_val s sp (Z.to_nat w), setr s spr (sp + w)).

Definition page (a : Z) : Z := Z.land a 983040.      (* 0xF0000: the 64K page of a 20-bit address *)

(* register-pair and register-compare encodings the tables document:
   ADD/SUB r1,r'1 (46/4E: both 8-bit), r2,r'1|r'2 (44/4C: 16-bit destination), r3,r' (45/4D: pointer destination);
   CMPW (m),r2 and CMPP (m),r3 *)
Definition documented_form (i : instr) : bool :=
  match i_ops i with
  | [ORegPair sz raw] =>
      let d := ((raw / 16) mod 8)%N in
      let sr := (raw mod 8)%N in
      match d_cls (i_ent i) with
      | I_ADD | I_SUB =>
          if (sz =? 1)%N then (d <? 2)%N && (sr <? 2)%N
          else if (sz =? 2)%N then ((d =? 2) || (d =? 3))%N && (sr <? 4)%N
          else (4 <=? d)%N
      | _ => true
      end
  | [OIMem _ _; OReg3 raw] =>
      match d_cls (i_ent i) with
      | I_CMPW => ((raw mod 8 =? 2) || (raw mod 8 =? 3))%N
      | I_CMPP => (4 <=? raw mod 8)%N
      | _ => true
      end
  | _ => true
  end.

Definition spec_exec (i : instr) (addr : Z) (s0 : mstate) : option mstate :=
  if negb (documented_form i) then None else
  match render_ops i with
  | None => None
  | Some ros =>
      let len := Z.of_nat (i_len i) in
      let s := setr s0 gPC (addr + len) in
      let ps := map (fun om => place_of s0 (fst om) (snd om)) ros in
      let cin := flagC s0 in
      let n := N.to_nat (py_get (rg s0) gI) in
      let cls := d_cls (i_ent i) in
      match cls, ps with
      | I_NOP, [] | I_TCL, [] => Some s
      | I_SC, [] => Some (set_flag s true 1)
      | I_RC, [] => Some (set_flag s true 0)
      | I_WAIT, [] => Some (setr s gI 0)
      | I_MV, [d; sr] => Some (wr_place (upd_place (upd_place s sr) d) d (rd_place s0 sr))
      | (I_ADD | I_ADC | I_SUB | I_SBC | I_AND | I_OR | I_XOR | I_PMDF), [d; sr] =>
          let a := rd_place s0 d in
          let b := rd_place s0 sr in
          let m := pmod d in
          let r := match cls with
                   | I_ADD => alu_add m a (b mod m) 0
                   | I_SUB => alu_sub m a (b mod m) 0
                   | I_ADC => alu_add m a (b mod m) cin
                   | I_SBC => alu_sub m a (b mod m) cin
                   | I_AND => alu_logic Z.land a b
                   | I_OR => alu_logic Z.lor a b
                   | I_XOR => alu_logic Z.lxor a b
                   | _ => {| r_val := (a + b) mod 256; r_c := None; r_z := None |}
                   end in
          Some (set_cz (wr_place s d (r_val r)) r)
      | (I_INC | I_DEC), [d] =>
          let a := rd_place s0 d in
          let v := r_val (match cls with I_INC => alu_inc (pmod d) a | _ => alu_dec (pmod d) a end) in
          Some (set_flag (wr_place s d v) false (b2z (v =? 0)))
      | (I_ROR | I_ROL | I_SHL | I_SHR | I_SWAP), [d] =>
          let a := rd_place s0 d in
          let r := match cls with
                   | I_ROR => alu_ror a | I_ROL => alu_rol a | I_SHL => alu_shl a cin | I_SHR => alu_shr a cin
                   | _ => alu_swap a
                   end in
          Some (set_cz (wr_place s d (r_val r)) r)
      | (I_CMP | I_CMPW | I_CMPP), [d; sr] =>
          let w := match cls with I_CMP => 1 | I_CMPW => 2 | _ => 3 end in
          Some (set_cz s (alu_sub (p2 w) (rd_place s0 d mod p2 w) (rd_place s0 sr mod p2 w) 0))
      | I_TEST, [d; sr] =>
          Some (set_flag s false (b2z (Z.land (rd_place s0 d) (rd_place s0 sr) =? 0)))
      | I_EX, [a; b] =>
          Some (wr_place (wr_place s a (rd_place s0 b)) b (rd_place s0 a))
      | I_EXL, [a; b] => Some (setr (block_exchange n 0 a b s) gI 0)
      | I_MVL, [d; sr] =>
          let down := match ros with [_; (LEPtr _ (PB_IncDec _ _ EM_PRE_DEC _) _, _)] => true | _ => false end in
          let s1 := block_move n 0 d sr down s in
          match ros with
          | [(od, _); (os, _)] => Some (setr (upd_block (upd_block s1 os (Z.of_nat n)) od (Z.of_nat n)) gI 0)
          | _ => None
          end
      | I_MVLD, [d; sr] =>
          let s1 := block_move n 0 d sr true s in
          match ros with
          | [(od, _); (os, _)] => Some (setr (upd_block (upd_block s1 os (Z.of_nat n)) od (Z.of_nat n)) gI 0)
          | _ => None
          end
      | (I_ADCL | I_SBCL | I_DADL | I_DSBL), [d; sr] =>
          let bcd := match cls with I_DADL | I_DSBL => true | _ => false end in
          let subtract := match cls with I_SBCL | I_DSBL => true | _ => false end in
          let c0 := match cls with I_DADL => 0 | _ => cin end in
          let '(s1, c, allz) := block_arith n 0 d sr bcd bcd subtract bcd c0 true s in
          Some (setr (set_flag (set_flag s1 true c) false (b2z allz)) gI 0)
      | (I_DSLL | I_DSRL), [d] =>
          let '(s1, allz) := block_dshift n 0 d (match cls with I_DSLL => true | _ => false end) 0 true s in
          Some (setr (set_flag s1 false (b2z allz)) gI 0)
      | I_PUSHS, [p] => Some (push_bytes s gS (pwidth p) (rd_place s0 p))
      | I_PUSHU, [p] =>
          let s1 := push_bytes s gU (pwidth p) (rd_place s0 p) in
          Some (match p with PlIMR => wr_place s1 p (Z.land (rd_place s0 p) 127) | _ => s1 end)
      | I_POPS, [p] => let '(v, s1) := pop_bytes s gS (pwidth p) in Some (wr_place s1 p v)
      | I_POPU, [p] => let '(v, s1) := pop_bytes s gU (pwidth p) in Some (wr_place s1 p v)
      | I_JP_Abs, [p] =>
          let taken := match d_cond (i_ent i) with
                       | None => true
                       | Some CZ => flagZ s0 =? 1 | Some CNZ => flagZ s0 =? 0
                       | Some CC => flagC s0 =? 1 | Some CNC => flagC s0 =? 0
                       end in
          let v := rd_place s0 p in
          let opw := match ros with [(o, _)] => match lop_width o with Some w => Z.of_N w | None => 3 end | _ => 3 end in
          let tgt := if opw <? 3 then Z.lor (page addr) (v mod 65536) else v mod 1048576 in
          Some (if taken then setr s gPC tgt else s)
      | I_JP_Rel, [PlImm off] =>
          let taken := match d_cond (i_ent i) with
                       | None => true
                       | Some CZ => flagZ s0 =? 1 | Some CNZ => flagZ s0 =? 0
                       | Some CC => flagC s0 =? 1 | Some CNC => flagC s0 =? 0
                       end in
          Some (if taken then setr s gPC (addr + len + off) else s)
      | I_CALL, [PlImm v] =>
          match i_ops i with
          | [OImm20 _ _ _] => Some (setr (push_bytes s gS 3 ((addr + len) mod 1048576)) gPC v)
          | _ => Some (setr (push_bytes s gS 2 ((addr + len) mod 65536)) gPC (Z.lor (page addr) v))
          end
      | I_RET, [] => let '(v, s1) := pop_bytes s gS 2 in Some (setr s1 gPC (Z.lor (page addr) v))
      | I_RETF, [] => let '(v, s1) := pop_bytes s gS 3 in Some (setr s1 gPC v)
      | I_RETI, [] =>
          let '(imr, s1) := pop_bytes s gS 1 in
          let '(f, s2) := pop_bytes s1 gS 1 in
          let '(pc, s3) := pop_bytes s2 gS 3 in
          Some (setr (wr_place (wr_place s3 PlIMR imr) PlF f) gPC pc)
      | I_IR, [] =>
          let imr := memb s0 imr_cell in
          let s1 := push_bytes s gS 3 ((addr + len) mod 1048576) in
          let s2 := push_bytes s1 gS 1 (rd_place s0 PlF) in
          let s3 := push_bytes s2 gS 1 imr in
          let s4 := wr_place s3 PlIMR (Z.land imr 127) in
          Some (setr s4 gPC (le_val s4 (Z.of_N py_interrupt_vector) 3))
      | _, _ => None
      end
  end.
