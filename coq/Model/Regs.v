(* Model/Regs.v -- executable models of the two register files (property C08).

   Gallina definition   <-> source (pinned commit 841ec91)
   py_get / py_set      <-> sc62015/pysc62015/emulator.py  Registers.get / Registers.set
                            (BASE registers masked on write, gPC/gX/gY/gU/gS additionally masked to 20 bits on
                             read; sub-registers through _SUBREG_INFO; gIL write clears gIH)
   py_capture / py_apply<-> sc62015/pysc62015/stepper.py  CPURegistersSnapshot.from_registers / apply_to
   py_pack / py_unpack  <-> pce500/emulator.py  _pack_register_bytes / _unpack_register_bytes
   rs_get / rs_set      <-> sc62015/core/src/llama/state.rs  LlamaState::get_reg / set_reg
                            (HashMap with separate gF, gFC, gFZ entries and unwrap_or defaults)
   rs_collect / rs_apply<-> sc62015/core/src/lib.rs  collect_registers / apply_registers
   rs_pack / rs_unpack  <-> sc62015/core/src/snapshot.rs  pack_registers / unpack_registers

   Bit operations of the sources are written arithmetically (x & (2^k-1) = x mod 2^k, x >> k = x / 2^k,
   (x & ~m) | y = x - x-part + y); the correspondence run compares the result against the real code.
   No proofs in this file. *)
From Coq Require Import NArith List Bool.
Import ListNotations.
Open Scope N_scope.

Inductive reg :=
  | gA | gB | gBA | gIL | gIH | gI | gX | gY | gU | gS | gPC | gF | gFC | gFZ | gTEMP (i : nat).

Definition NTEMP : nat := 14.

Definition p8 : N := 256.
Definition p16 : N := 65536.
Definition p20 : N := 1048576.
Definition p24 : N := 16777216.
Definition p32 : N := 4294967296.

(* ---------------------------------------------------------------- Python *)
Record pyregs := { y_ba : N; y_i : N; y_x : N; y_y : N; y_u : N; y_s : N; y_pc : N; y_f : N; y_t : list N }.

Definition py_init : pyregs :=
  {| y_ba := 0; y_i := 0; y_x := 0; y_y := 0; y_u := 0; y_s := 0; y_pc := 0; y_f := 0; y_t := repeat 0 NTEMP |}.

Fixpoint upd {T} (l : list T) (i : nat) (v : T) : list T :=
  match l, i with
  | [], _ => []
  | _ :: r, O => v :: r
  | h :: r, S j => h :: upd r j v
  end.

Definition py_get (s : pyregs) (r : reg) : N :=
  match r with
  | gBA => y_ba s
  | gI => y_i s
  | gX => y_x s mod p20 | gY => y_y s mod p20 | gU => y_u s mod p20 | gS => y_s s mod p20 | gPC => y_pc s mod p20
  | gF => y_f s
  | gA => y_ba s mod p8                     (* (gBA >> 0) & 0xFF *)
  | gB => (y_ba s / p8) mod p8              (* (gBA >> 8) & 0xFF *)
  | gIL => y_i s mod p8
  | gIH => (y_i s / p8) mod p8
  | gFC => y_f s mod 2
  | gFZ => (y_f s / 2) mod 2
  | gTEMP i => nth i (y_t s) 0
  end.

(* replace the byte at `shift` (0 or 8) of a 16-bit base *)
Definition set_lo (cur v : N) : N := (cur mod p16) - (cur mod p16) mod p8 + v mod p8.
Definition set_hi (cur v : N) : N := (cur mod p16) mod p8 + (v mod p8) * p8.
(* replace bit 0 / bit 1 of the 8-bit gF *)
Definition set_b0 (cur v : N) : N := (cur mod p8) - (cur mod p8) mod 2 + v mod 2.
Definition set_b1 (cur v : N) : N := (cur mod p8) - ((cur mod p8) / 2 mod 2) * 2 + (v mod 2) * 2.

Definition py_set (s : pyregs) (r : reg) (v : N) : pyregs :=
  let '(Build_pyregs ba i x y u sp pc f t) := s in
  match r with
  | gBA => Build_pyregs (v mod p16) i x y u sp pc f t
  | gI => Build_pyregs ba (v mod p16) x y u sp pc f t
  | gX => Build_pyregs ba i (v mod p20) y u sp pc f t
  | gY => Build_pyregs ba i x (v mod p20) u sp pc f t
  | gU => Build_pyregs ba i x y (v mod p20) sp pc f t
  | gS => Build_pyregs ba i x y u (v mod p20) pc f t
  | gPC => Build_pyregs ba i x y u sp (v mod p20) f t
  | gF => Build_pyregs ba i x y u sp pc (v mod p8) t
  | gA => Build_pyregs (set_lo ba v) i x y u sp pc f t
  | gB => Build_pyregs (set_hi ba v) i x y u sp pc f t
  | gIL => Build_pyregs ba (v mod p8) x y u sp pc f t          (* writing gIL clears gIH *)
  | gIH => Build_pyregs ba (set_hi i v) x y u sp pc f t
  | gFC => Build_pyregs ba i x y u sp pc (set_b0 f v) t
  | gFZ => Build_pyregs ba i x y u sp pc (set_b1 f v) t
  | gTEMP k => Build_pyregs ba i x y u sp pc f (if Nat.ltb k NTEMP then upd t k (v mod p24) else t)
  end.

(* CPURegistersSnapshot: pc ba i x y u s f + temps (only non-zero ones are stored; absent = 0) *)
Record snapshot := { sn_pc : N; sn_ba : N; sn_i : N; sn_x : N; sn_y : N; sn_u : N; sn_s : N; sn_f : N; sn_t : list N }.

Definition py_capture (s : pyregs) : snapshot :=
  {| sn_pc := py_get s gPC; sn_ba := py_get s gBA; sn_i := py_get s gI; sn_x := py_get s gX; sn_y := py_get s gY;
     sn_u := py_get s gU; sn_s := py_get s gS; sn_f := py_get s gF;
     sn_t := map (fun k => py_get s (gTEMP k)) (seq 0 NTEMP) |}.

Fixpoint py_apply_temps (s : pyregs) (k : nat) (l : list N) : pyregs :=
  match l with
  | [] => s
  | v :: r => py_apply_temps (py_set s (gTEMP k) v) (Datatypes.S k) r
  end.

Definition py_apply (sn : snapshot) (s : pyregs) : pyregs :=
  let s := py_set s gPC (sn_pc sn) in let s := py_set s gBA (sn_ba sn) in let s := py_set s gI (sn_i sn) in
  let s := py_set s gX (sn_x sn) in let s := py_set s gY (sn_y sn) in let s := py_set s gU (sn_u sn) in
  let s := py_set s gS (sn_s sn) in let s := py_set s gF (sn_f sn) in
  py_apply_temps s 0 (sn_t sn).

(* register blob: gPC 3, gBA 2, gI 2, gX 3, gY 3, gU 3, gS 3, gF 1 bytes, little endian *)
Fixpoint le_bytes (n : nat) (v : N) : list N :=
  match n with O => [] | Datatypes.S m => (v mod p8) :: le_bytes m (v / p8) end.
Fixpoint of_le (l : list N) : N :=
  match l with [] => 0 | b :: r => b + p8 * of_le r end.

Definition blob_layout : list (reg * nat) := [(gPC, 3); (gBA, 2); (gI, 2); (gX, 3); (gY, 3); (gU, 3); (gS, 3); (gF, 1)]%nat.

Definition snap_field (sn : snapshot) (r : reg) : N :=
  match r with gPC => sn_pc sn | gBA => sn_ba sn | gI => sn_i sn | gX => sn_x sn | gY => sn_y sn | gU => sn_u sn
             | gS => sn_s sn | gF => sn_f sn | _ => 0 end.

Definition pack (sn : snapshot) : list N :=
  flat_map (fun e => le_bytes (snd e) (snap_field sn (fst e))) blob_layout.

Fixpoint unpack_fields (lay : list (reg * nat)) (bs : list N) : list (reg * N) :=
  match lay with
  | [] => []
  | (r, w) :: t => (r, of_le (firstn w bs)) :: unpack_fields t (skipn w bs)
  end.

Fixpoint field_of (r : reg) (l : list (reg * N)) : N :=
  match l with
  | [] => 0
  | (k, v) :: t => match k, r with
                   | gPC, gPC | gBA, gBA | gI, gI | gX, gX | gY, gY | gU, gU | gS, gS | gF, gF => v
                   | _, _ => field_of r t
                   end
  end.

Definition unpack (bs : list N) (temps : list N) : option snapshot :=
  if Nat.eqb (length bs) 20 then
    let fl := unpack_fields blob_layout bs in
    Some {| sn_pc := field_of gPC fl; sn_ba := field_of gBA fl; sn_i := field_of gI fl; sn_x := field_of gX fl;
            sn_y := field_of gY fl; sn_u := field_of gU fl; sn_s := field_of gS fl; sn_f := field_of gF fl; sn_t := temps |}
  else None.

(* ---------------------------------------------------------------- Rust *)
(* HashMap<RegName,u32>: every entry may be absent *)
Record rsregs := { z_ba : option N; z_i : option N; z_x : option N; z_y : option N; z_u : option N; z_s : option N;
                   z_pc : option N; z_f : option N; z_fc : option N; z_fz : option N; z_t : list (option N) }.

Definition rs_init : rsregs :=
  {| z_ba := None; z_i := None; z_x := None; z_y := None; z_u := None; z_s := None; z_pc := None;
     z_f := None; z_fc := None; z_fz := None; z_t := repeat None NTEMP |}.

Definition dflt (o : option N) (d : N) : N := match o with Some v => v | None => d end.

Definition rs_get (s : rsregs) (r : reg) : N :=
  match r with
  | gBA => dflt (z_ba s) 0 mod p16
  | gA => (dflt (z_ba s) 0 mod p16) mod p8
  | gB => ((dflt (z_ba s) 0 mod p16) / p8) mod p8
  | gI => dflt (z_i s) 0 mod p16
  | gIL => (dflt (z_i s) 0 mod p16) mod p8
  | gIH => ((dflt (z_i s) 0 mod p16) / p8) mod p8
  | gF => let raw := dflt (z_f s) 0 mod p8 in
         let fc := dflt (z_fc s) (raw mod 2) mod 2 in
         let fz := dflt (z_fz s) ((raw / 2) mod 2) mod 2 in
         (raw / 4) * 4 + fc + fz * 2                       (* (raw & !3) | fc | (fz << 1) *)
  | gFC => let raw := dflt (z_f s) 0 mod p8 in dflt (z_fc s) raw mod 2
  | gFZ => let raw := dflt (z_f s) 0 mod p8 in dflt (z_fz s) ((raw / 2) mod 2) mod 2
  | gX => dflt (z_x s) 0 mod p20 | gY => dflt (z_y s) 0 mod p20 | gU => dflt (z_u s) 0 mod p20
  | gS => dflt (z_s s) 0 mod p20 | gPC => dflt (z_pc s) 0 mod p20
  | gTEMP k => dflt (nth k (z_t s) None) 0 mod p24
  end.

Definition rs_set (s : rsregs) (r : reg) (v0 : N) : rsregs :=
  let v := v0 mod p32 in
  let '(Build_rsregs ba i x y u sp pc f fc fz t) := s in
  match r with
  | gBA => Build_rsregs (Some (v mod p16)) i x y u sp pc f fc fz t
  | gA => let b := (rs_get s gBA / p8) mod p8 in
         Build_rsregs (Some ((b * p8 + (v mod p8) mod p8) mod p16)) i x y u sp pc f fc fz t
  | gB => let a := rs_get s gBA mod p8 in
         Build_rsregs (Some ((((v mod p8) mod p8) * p8 + a) mod p16)) i x y u sp pc f fc fz t
  | gI => Build_rsregs ba (Some (v mod p16)) x y u sp pc f fc fz t
  | gIL => Build_rsregs ba (Some ((v mod p8) mod p16)) x y u sp pc f fc fz t
  | gIH => let low := rs_get s gIL in
          Build_rsregs ba (Some ((((v mod p8) mod p8) * p8 + low mod p8) mod p16)) x y u sp pc f fc fz t
  | gF => let m := v mod p8 in
         Build_rsregs ba i x y u sp pc (Some (m mod p8)) (Some (m mod 2)) (Some ((m / 2) mod 2)) t
  | gFC => let bit := (v mod 2) mod 2 in
          let fo := dflt f 0 mod p8 in
          Build_rsregs ba i x y u sp pc (Some (fo - fo mod 2 + bit)) (Some bit) fz t
  | gFZ => let bit := (v mod 2) mod 2 in
          let fo := dflt f 0 mod p8 in
          Build_rsregs ba i x y u sp pc (Some (fo - ((fo / 2) mod 2) * 2 + bit * 2)) fc (Some bit) t
  | gX => Build_rsregs ba i (Some (v mod p20)) y u sp pc f fc fz t
  | gY => Build_rsregs ba i x (Some (v mod p20)) u sp pc f fc fz t
  | gU => Build_rsregs ba i x y (Some (v mod p20)) sp pc f fc fz t
  | gS => Build_rsregs ba i x y u (Some (v mod p20)) pc f fc fz t
  | gPC => Build_rsregs ba i x y u sp (Some (v mod p20)) f fc fz t
  | gTEMP k => Build_rsregs ba i x y u sp pc f fc fz (if Nat.ltb k NTEMP then upd t k (Some (v mod p24)) else t)
  end.

(* collect_registers: layout registers masked to width_bytes*8 bits + TEMP0..13 masked to 24 bits *)
Definition rs_collect (s : rsregs) : snapshot :=
  {| sn_pc := rs_get s gPC mod p24; sn_ba := rs_get s gBA mod p16; sn_i := rs_get s gI mod p16;
     sn_x := rs_get s gX mod p24; sn_y := rs_get s gY mod p24; sn_u := rs_get s gU mod p24; sn_s := rs_get s gS mod p24;
     sn_f := rs_get s gF mod p8;
     sn_t := map (fun k => rs_get s (gTEMP k) mod p24) (seq 0 NTEMP) |}.

Fixpoint rs_apply_temps (s : rsregs) (k : nat) (l : list N) : rsregs :=
  match l with
  | [] => s
  | v :: r => rs_apply_temps (rs_set s (gTEMP k) (v mod p24)) (Datatypes.S k) r
  end.

(* apply_registers: value & mask_for_width(register_width(name)): gPC 20, gBA/gI 16, gX/gY/gU/gS 24, gF 8 *)
Definition rs_apply (sn : snapshot) (s : rsregs) : rsregs :=
  let s := rs_set s gPC (sn_pc sn mod p20) in let s := rs_set s gBA (sn_ba sn mod p16) in
  let s := rs_set s gI (sn_i sn mod p16) in let s := rs_set s gX (sn_x sn mod p24) in
  let s := rs_set s gY (sn_y sn mod p24) in let s := rs_set s gU (sn_u sn mod p24) in
  let s := rs_set s gS (sn_s sn mod p24) in let s := rs_set s gF (sn_f sn mod p8) in
  rs_apply_temps s 0 (sn_t sn).

(* ---------------------------------------------------------------- op streams for the driver *)
Inductive rop :=
  | OSet (r : reg) (v : N)
  | OGet (r : reg)
  | OSnap            (* capture, apply to a fresh register file, continue with the fresh one; observe all *)
  | OBlob.           (* capture, pack, unpack, apply to a fresh file; observe all *)

Definition all_regs : list reg :=
  [gA; gB; gBA; gIL; gIH; gI; gX; gY; gU; gS; gPC; gF; gFC; gFZ] ++ map gTEMP (seq 0 NTEMP).

Definition py_obs_all (s : pyregs) : list N := map (py_get s) all_regs.
Definition rs_obs_all (s : rsregs) : list N := map (rs_get s) all_regs.

Fixpoint py_run (s : pyregs) (ops : list rop) : list (list N) :=
  match ops with
  | [] => []
  | OSet r v :: t => let s' := py_set s r v in [py_get s' r] :: py_run s' t
  | OGet r :: t => [py_get s r] :: py_run s t
  | OSnap :: t => let s' := py_apply (py_capture s) py_init in py_obs_all s' :: py_run s' t
  | OBlob :: t =>
      let sn := py_capture s in
      match unpack (pack sn) (sn_t sn) with
      | Some sn' => let s' := py_apply sn' py_init in py_obs_all s' :: py_run s' t
      | None => [[]]
      end
  end.

Fixpoint rs_run (s : rsregs) (ops : list rop) : list (list N) :=
  match ops with
  | [] => []
  | OSet r v :: t => let s' := rs_set s r v in [rs_get s' r] :: rs_run s' t
  | OGet r :: t => [rs_get s r] :: rs_run s t
  | OSnap :: t => let s' := rs_apply (rs_collect s) rs_init in rs_obs_all s' :: rs_run s' t
  | OBlob :: t =>
      let sn := rs_collect s in
      match unpack (pack sn) (sn_t sn) with
      | Some sn' => let s' := rs_apply sn' rs_init in rs_obs_all s' :: rs_run s' t
      | None => [[]]
      end
  end.
