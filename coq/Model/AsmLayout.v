(* Model/AsmLayout.v -- the two-pass layout of sc62015/pysc62015/sc_asm.py (property C10).

   Gallina definition   <-> source
   line / skind         <-> one entry of program_ast["lines"]: optional label, optional statement
                            (SECTION name | .ORG expr | data directive or instruction with its size)
   base_pointers        <-> Assembler.SECTION_BASE_ADDRESSES (code 0, text 0, data 0x80000, bss 0x90000)
   pass1                <-> _first_pass with _apply_location(first_pass=True): new section starts at the maximum
                            pointer, .ORG of a non-literal counts as 0, labels take the section pointer,
                            duplicate labels rejected, sizes added; afterwards bss := end of data
   pass2                <-> _second_pass with _apply_location(first_pass=False): pointers restart from the base
                            addresses (bss := end of data from pass one), unknown sections rejected, .ORG evaluated
                            through the symbol table, bss statements advance the pointer but emit nothing
   Statement sizes are inputs (they come from encoding the statement); the byte contents are not modelled here.
   No proofs in this file. *)
From Coq Require Import NArith List Bool.
Import ListNotations.
Open Scope N_scope.

Definition SEC_CODE : N := 0.
Definition SEC_TEXT : N := 1.
Definition SEC_DATA : N := 2.
Definition SEC_BSS : N := 3.

Inductive orgarg := OLit (v : N) | OSym (label : N).

Inductive skind :=
  | KSection (s : N)
  | KOrg (a : orgarg)
  | KBytes (size : N).                 (* instruction or data directive: size in bytes *)

Record line := { l_label : option N; l_stmt : option skind }.

Definition amap := list (N * N).       (* association list, first match wins *)

Fixpoint lookup (m : amap) (k : N) : option N :=
  match m with
  | [] => None
  | (k', v) :: t => if k =? k' then Some v else lookup t k
  end.

Fixpoint update (m : amap) (k v : N) : amap :=
  match m with
  | [] => [(k, v)]
  | (k', v') :: t => if k =? k' then (k, v) :: t else (k', v') :: update t k v
  end.

Definition base_pointers : amap := [(SEC_CODE, 0); (SEC_TEXT, 0); (SEC_DATA, 524288); (SEC_BSS, 589824)].

Definition max_value (m : amap) : N := fold_right (fun kv a => N.max (snd kv) a) 0 m.

Inductive aerr := EDuplicateLabel | EUnknownSection | EUndefinedSymbol.

(* ---- pass one ------------------------------------------------------------------------------- *)
Record p1 := { p_ptr : amap; p_cur : N; p_syms : amap; p_addrs : list N (* address seen by each line, newest first *) }.

Definition p1_init : p1 := {| p_ptr := base_pointers; p_cur := SEC_CODE; p_syms := []; p_addrs := [] |}.

Definition get_ptr (m : amap) (s : N) : N := match lookup m s with Some v => v | None => 0 end.

Definition p1_line (st : p1) (l : line) : p1 + aerr :=
  (* _apply_location *)
  let '(ptr1, cur1, consumed) :=
    match l_stmt l with
    | Some (KSection s) =>
        (match lookup (p_ptr st) s with Some _ => p_ptr st | None => update (p_ptr st) s (max_value (p_ptr st)) end, s, true)
    | Some (KOrg a) =>
        (update (p_ptr st) (p_cur st) (match a with OLit v => v | OSym _ => 0 end), p_cur st, true)
    | _ => (p_ptr st, p_cur st, false)
    end in
  let addr := get_ptr ptr1 cur1 in
  match (match l_label l with
         | Some lb => match lookup (p_syms st) lb with Some _ => inr EDuplicateLabel | None => inl (update (p_syms st) lb addr) end
         | None => inl (p_syms st)
         end) with
  | inr e => inr e
  | inl syms1 =>
      let ptr2 := match l_stmt l, consumed with
                  | Some (KBytes n), false => update ptr1 cur1 (addr + n)
                  | _, _ => ptr1
                  end in
      inl {| p_ptr := ptr2; p_cur := cur1; p_syms := syms1; p_addrs := addr :: p_addrs st |}
  end.

Fixpoint p1_run (st : p1) (ls : list line) : p1 + aerr :=
  match ls with
  | [] => inl st
  | l :: t => match p1_line st l with inl st1 => p1_run st1 t | inr e => inr e end
  end.

(* after the loop: .bss follows .data *)
Definition pass1 (ls : list line) : p1 + aerr :=
  match p1_run p1_init ls with
  | inl st => inl {| p_ptr := update (p_ptr st) SEC_BSS (get_ptr (p_ptr st) SEC_DATA); p_cur := p_cur st;
                     p_syms := p_syms st; p_addrs := p_addrs st |}
  | inr e => inr e
  end.

(* ---- pass two ------------------------------------------------------------------------------- *)
(* placements: (address, size, emitted?) of every KBytes statement, newest first *)
Record p2 := { q_ptr : amap; q_cur : N; q_place : list (N * N * bool); q_addrs : list N; q_secs : list N }.

Definition p2_line (syms : amap) (st : p2) (l : line) : p2 + aerr :=
  match (match l_stmt l with
         | Some (KSection s) =>
             match lookup (q_ptr st) s with Some _ => inl (q_ptr st, s, true) | None => inr EUnknownSection end
         | Some (KOrg a) =>
             match (match a with OLit v => Some v | OSym lb => lookup syms lb end) with
             | Some v => inl (update (q_ptr st) (q_cur st) v, q_cur st, true)
             | None => inr EUndefinedSymbol
             end
         | _ => inl (q_ptr st, q_cur st, false)
         end) with
  | inr e => inr e
  | inl (ptr1, cur1, consumed) =>
      let addr := get_ptr ptr1 cur1 in
      match l_stmt l, consumed with
      | Some (KBytes n), false =>
          inl {| q_ptr := update ptr1 cur1 (addr + n); q_cur := cur1;
                 q_place := (addr, n, negb (cur1 =? SEC_BSS) && negb (n =? 0)) :: q_place st; q_addrs := addr :: q_addrs st;
                 q_secs := cur1 :: q_secs st |}
      | _, _ => inl {| q_ptr := ptr1; q_cur := cur1; q_place := q_place st; q_addrs := addr :: q_addrs st; q_secs := cur1 :: q_secs st |}
      end
  end.

Fixpoint p2_run (syms : amap) (st : p2) (ls : list line) : p2 + aerr :=
  match ls with
  | [] => inl st
  | l :: t => match p2_line syms st l with inl st1 => p2_run syms st1 t | inr e => inr e end
  end.

Definition p2_init (data_end : N) : p2 :=
  {| q_ptr := update base_pointers SEC_BSS data_end; q_cur := SEC_CODE; q_place := []; q_addrs := []; q_secs := [] |}.

Record layout := { y_syms : amap; y_place : list (N * N * bool); y_addr1 : list N; y_addr2 : list N; y_secs : list N }.

Definition assemble_layout (ls : list line) : layout + aerr :=
  match pass1 ls with
  | inr e => inr e
  | inl a =>
      match p2_run (p_syms a) (p2_init (get_ptr (p_ptr a) SEC_DATA)) ls with
      | inr e => inr e
      | inl b => inl {| y_syms := p_syms a; y_place := rev (q_place b); y_addr1 := rev (p_addrs a); y_addr2 := rev (q_addrs b); y_secs := rev (q_secs b) |}
      end
  end.
