(* Model/Sched.v -- the cycle-driven cooperative scheduler of the Rust runtime (property C18).

   Gallina definition   <-> source (sc62015/core/src/async_driver.rs, pinned commit)
   poll                 <-> one Future::poll of a scripted task: CycleSleep (first poll: NEXT_WAKE_CYCLE :=
                            current + n, Pending; second poll: Ready), emit_event (PENDING_EVENT keeps the
                            first event of a poll), current_cycle()
   insert_at            <-> futures_queue.entry(wake_cycle).or_default().push(future)   (BTreeMap<u64, Vec<_>>)
   batch                <-> one iteration of the `while` loop in AsyncDriver::run_for
   run_for              <-> AsyncDriver::run_for
   spawn                <-> AsyncDriver::spawn

   Tasks are finite scripts of Sleep n / Emit e; every poll logs (clock, task id) - what the harness tasks
   record with current_cycle() when they are resumed.  The thread-local channel (CURRENT_CYCLE,
   NEXT_WAKE_CYCLE, PENDING_EVENT) is explicit state of `poll`.  No proofs in this file. *)
From Coq Require Import NArith List Bool.
Import ListNotations.
Open Scope N_scope.

Inductive act := ASleep (n : N) | AEmit (e : N).
Definition task := (N * list act)%type.            (* id, remaining script *)

Inductive presult := PReady | PPending (wake : N) (rest : list act).

(* run the script until its next sleep; `pend` is PENDING_EVENT (only the first emit of a poll is kept) *)
Fixpoint poll (clock : N) (script : list act) (pend : option N) : presult * option N :=
  match script with
  | [] => (PReady, pend)
  | ASleep n :: rest => (PPending (clock + n) rest, pend)
  | AEmit e :: rest => poll clock rest (match pend with None => Some e | Some x => Some x end)
  end.

Definition queue := list (N * list task).           (* ascending distinct keys *)

Fixpoint insert_at (k : N) (t : task) (q : queue) : queue :=
  match q with
  | [] => [(k, [t])]
  | (k', ts) :: r =>
      if k =? k' then (k', ts ++ [t]) :: r
      else if k <? k' then (k, [t]) :: (k', ts) :: r
      else (k', ts) :: insert_at k t r
  end.

Record drv := { clock : N; fq : queue; evq : list N;
                log : list (N * N);                 (* (cycle, task id) per resumption, oldest first *)
                emitted : list N }.                 (* ghost: every event handed to the driver, in order *)

Definition drv0 (c : N) : drv := {| clock := c; fq := []; evq := []; log := []; emitted := [] |}.

Definition spawn (d : drv) (t : task) : drv :=
  {| clock := clock d; fq := insert_at (clock d) t (fq d); evq := evq d; log := log d; emitted := emitted d |}.

(* poll every task of one batch at cycle c *)
Fixpoint run_tasks (c : N) (ts : list task) (d : drv) : drv :=
  match ts with
  | [] => d
  | (tid, script) :: r =>
      let '(res, ev) := poll c script None in
      let q := match res with PReady => fq d | PPending w rest => insert_at w (tid, rest) (fq d) end in
      let d' := {| clock := clock d; fq := q;
                   evq := match ev with Some e => evq d ++ [e] | None => evq d end;
                   log := log d ++ [(c, tid)];
                   emitted := match ev with Some e => emitted d ++ [e] | None => emitted d end |} in
      run_tasks c r d'
  end.

(* one iteration of the while loop: take the earliest batch *)
Definition batch (d : drv) : option drv :=
  match fq d with
  | [] => None
  | (k, ts) :: r =>
      Some (run_tasks k ts {| clock := k; fq := r; evq := evq d; log := log d; emitted := emitted d |})
  end.

Inductive rres := RMax (cycles : N) | RUser (e : N) (cycles : N).

Fixpoint run_loop (fuel : nat) (start target : N) (d : drv) : option (drv * rres) :=
  match fuel with
  | O => None
  | S f =>
      match fq d with
      | [] => Some (d, RMax (clock d - start))
      | (k, _) :: _ =>
          if negb (clock d <? target) then Some (d, RMax (clock d - start))
          else if target <=? k then Some (d, RMax (clock d - start))
          else match batch d with
               | None => Some (d, RMax (clock d - start))
               | Some d' =>
                   match evq d' with
                   | e :: rest =>
                       Some ({| clock := clock d'; fq := fq d'; evq := rest; log := log d'; emitted := emitted d' |},
                             RUser e (clock d' - start))
                   | [] => run_loop f start target d'
                   end
               end
      end
  end.

Definition work (q : queue) : nat :=
  fold_right (fun e a => (fold_right (fun t b => (S (length (snd t)) + b)%nat) 0%nat (snd e) + a)%nat) 0%nat q.

Definition run_for (d : drv) (max : N) : option (drv * rres) :=
  match evq d with
  | e :: rest => Some ({| clock := clock d; fq := fq d; evq := rest; log := log d; emitted := emitted d |}, RUser e 0)
  | [] => run_loop (S (work (fq d))) (clock d) (clock d + max) d
  end.

(* drive a list of budgets, collecting the results *)
Fixpoint drive (d : drv) (budgets : list N) : option (drv * list rres) :=
  match budgets with
  | [] => Some (d, [])
  | b :: t =>
      match run_for d b with
      | None => None
      | Some (d1, r) => match drive d1 t with Some (d2, rs) => Some (d2, r :: rs) | None => None end
      end
  end.

Definition spawn_all (c : N) (scripts : list (list act)) : drv :=
  fst (fold_left (fun acc s => (spawn (fst acc) (snd acc, s), snd acc + 1)) scripts (drv0 c, 0)).
