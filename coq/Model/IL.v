(* Model/IL.v -- the low-level IL the Python lifter emits and the evaluator the Python emulator runs it with.

   Gallina definition   <-> source
   expr / stmt          <-> binja_test_mocks/mock_llil.py  MockLLIL trees as built by LowLevelILFunction.<op>
                            (op name, size suffix .b/.w/.l, flag spec {Z}/{CZ}), MockIfExpr, MockGoto, MockLabel,
                            MockIntrinsic
   eval_expr / exec_stmt<-> binja_test_mocks/eval_llil.py  evaluate_llil and the EVAL_LLIL handlers (CONST, REG, FLAG,
                            LOAD, ADD/SUB, AND/OR/XOR, LSL/LSR, ROR/ROL, RRC/RLC, CMP_*, POP; SET_REG, SET_FLAG, STORE,
                            PUSH, JUMP, CALL, RET, NOP, UNIMPL) including the flag post-processing of evaluate_llil
   intrinsics           <-> sc62015/pysc62015/intrinsics.py  (TCL, HALT, OFF, RESET)
   run                  <-> the label/if/goto interpreter loop of Emulator._execute_instruction_impl
   registers            <-> Model/Regs.v py_get / py_set (class Registers), values converted Z <-> N at the boundary

   Values are Python ints (Z): constants may be negative, arithmetic results are masked to the node's size,
   logical results are not.  Memory is a flat map from addresses to bytes, as the Memory callbacks see it; every
   byte access is logged (ghost state rlog / wlog, newest first).  No proofs in this file. *)
From Coq Require Import ZArith NArith List Bool.
From BE Require Import Model.Regs Gen.Tables.
Import ListNotations.
Open Scope Z_scope.

Inductive fspec := F0 | FZ | FCZ.        (* flags argument of the builder: none, ZFlag, CZFlag *)

Inductive binop :=
  | B_ADD | B_SUB | B_AND | B_OR | B_XOR | B_LSL | B_LSR | B_ROR | B_ROL
  | B_CMP_E | B_CMP_UGT | B_CMP_SGT | B_CMP_SLT.

Inductive expr :=
  | EConst (w : N) (v : Z)
  | EConstPtr (w : N) (v : Z)
  | EReg (w : N) (r : reg)
  | EFlag (isC : bool)
  | ELoad (w : N) (a : expr)
  | EBin (op : binop) (w : N) (f : fspec) (a b : expr)
  | ERotC (left : bool) (w : N) (f : fspec) (a cnt cin : expr)      (* RLC / RRC *)
  | EPop (w : N)
  | EUnimpl.

Inductive intr := IN_TCL | IN_HALT | IN_OFF | IN_RESET.

Inductive stmt :=
  | SSetReg (w : N) (r : reg) (e : expr)
  | SSetFlag (isC : bool) (e : expr)
  | SStore (w : N) (a e : expr)
  | SPush (w : N) (e : expr)
  | SJump (e : expr) | SCall (e : expr) | SRet (e : expr)
  | SNop | SUnimpl
  | SIntr (k : intr)
  | SExpr (e : expr)                       (* an expression appended as a statement (CMP's SUB{CZ}) *)
  | SIf (c : expr) (t f : nat) | SGoto (l : nat) | SLabel (l : nat).

Record mstate := { rg : pyregs; mem : Z -> Z; halted : bool; rlog : list Z; wlog : list Z }.

Definition with_rg (s : mstate) (r : pyregs) : mstate :=
  {| rg := r; mem := mem s; halted := halted s; rlog := rlog s; wlog := wlog s |}.

Definition bits (w : N) : Z := 8 * Z.of_N w.
Definition maskw (w : N) : Z := 2 ^ bits w - 1.
Definition band (v m : Z) : Z := Z.land v m.

(* Registers.get / Registers.set through get_by_name / set_by_name *)
Definition getr (s : mstate) (r : reg) : Z := Z.of_N (py_get (rg s) r).
Definition setr (s : mstate) (r : reg) (v : Z) : mstate :=
  with_rg s (py_set (rg s) r (Z.to_N (v mod 4294967296))).

Definition get_flag (s : mstate) (isC : bool) : Z := getr s (if isC then gFC else gFZ).
Definition set_flag (s : mstate) (isC : bool) (v : Z) : mstate := setr s (if isC then gFC else gFZ) v.

(* Memory.read_byte / write_byte with the access log *)
Definition rd1 (s : mstate) (a : Z) : Z * mstate :=
  (mem s a, {| rg := rg s; mem := mem s; halted := halted s; rlog := a :: rlog s; wlog := wlog s |}).
Definition wr1 (s : mstate) (a v : Z) : mstate :=
  {| rg := rg s; mem := (fun x => if x =? a then band v 255 else mem s x); halted := halted s;
     rlog := rlog s; wlog := a :: wlog s |}.

(* Memory.read_bytes / write_bytes: little-endian, ascending addresses, no wrap *)
Fixpoint rd_bytes (n : nat) (k : Z) (s : mstate) (a : Z) : Z * mstate :=
  match n with
  | O => (0, s)
  | S n' =>
      let '(b, s1) := rd1 s a in
      let '(v, s2) := rd_bytes n' (k + 8) s1 (a + 1) in
      (Z.lor (Z.shiftl b k) v, s2)
  end.
Definition load (w : N) (s : mstate) (a : Z) : Z * mstate := rd_bytes (N.to_nat w) 0 s a.

Fixpoint wr_bytes (n : nat) (s : mstate) (a v : Z) : mstate :=
  match n with
  | O => s
  | S n' => wr_bytes n' (wr1 s a (band v 255)) (a + 1) (Z.shiftr v 8)
  end.
Definition store (w : N) (s : mstate) (a v : Z) : mstate := wr_bytes (N.to_nat w) s a v.

Definition b2z (b : bool) : Z := if b then 1 else 0.

Definition to_signed (v : Z) (w : N) : Z :=
  let m := band v (maskw w) in
  if Z.testbit m (bits w - 1) then m - 2 ^ bits w else m.

(* result, C, Z as the op-specific evaluator returns them (None = "not defined by the op") *)
Definition eval_binop (op : binop) (w : N) (x y : Z) : option (Z * option Z * option Z) :=
  let m := maskw w in
  let width := bits w in
  match op with
  | B_ADD => let r := x + y in Some (band r m, Some (b2z (m <? r)), Some (b2z (band r m =? 0)))
  | B_SUB => let r := x - y in Some (band r m, Some (b2z (r <? 0)), Some (b2z (band r m =? 0)))
  | B_AND => let r := Z.land x y in Some (r, Some 0, Some (b2z (r =? 0)))
  | B_OR => let r := Z.lor x y in Some (r, Some 0, Some (b2z (r =? 0)))
  | B_XOR => let r := Z.lxor x y in Some (r, Some 0, Some (b2z (r =? 0)))
  | B_LSL =>
      if y <? 0 then None else
      if y =? 0 then let r := band x m in Some (r, Some 0, Some (b2z (r =? 0))) else
      let c := if y <=? width then band (Z.shiftr x (width - y)) 1 else 0 in
      let r := band (Z.shiftl x y) m in Some (r, Some c, Some (b2z (r =? 0)))
  | B_LSR =>
      if y <? 0 then None else
      if y =? 0 then let r := band x m in Some (r, Some 0, Some (b2z (r =? 0))) else
      let c := if y <=? width then band (Z.shiftr x (y - 1)) 1 else 0 in
      let r := band (Z.shiftr x y) m in Some (r, Some c, Some (b2z (r =? 0)))
  | B_ROR | B_ROL =>
      let lft := match op with B_ROL => true | _ => false end in
      let cnt := y mod width in
      if cnt =? 0 then
        let r := band x m in
        let c := if lft then band (Z.shiftr x (width - 1)) 1 else band x 1 in
        Some (r, Some c, Some (b2z (r =? 0)))
      else
        let '(sh, ro, c) :=
          if lft then (Z.shiftl x cnt, Z.shiftr x (width - cnt), band (Z.shiftr x (width - cnt)) 1)
          else (Z.shiftr x cnt, Z.shiftl x (width - cnt), band (Z.shiftr x (cnt - 1)) 1) in
        let r := band (Z.lor sh ro) m in
        Some (r, Some c, Some (b2z (r =? 0)))
  | B_CMP_E => Some (b2z (x =? y), None, None)
  | B_CMP_UGT => Some (b2z (y <? x), None, None)
  | B_CMP_SGT => Some (b2z (to_signed y w <? to_signed x w), None, None)
  | B_CMP_SLT => Some (b2z (to_signed x w <? to_signed y w), None, None)
  end.

(* the flag post-processing of evaluate_llil *)
Definition apply_flags (f : fspec) (w : N) (res : Z) (oc oz : option Z) (s : mstate) : mstate :=
  let cval := match oc with Some c => c | None => b2z (maskw w <? res) end in
  let zval := match oz with Some z => z | None => b2z (band res (maskw w) =? 0) end in
  match f with
  | F0 => s
  | FZ => set_flag s false zval
  | FCZ => set_flag (set_flag s true cval) false zval
  end.

Fixpoint eval_expr (e : expr) (s : mstate) : option (Z * mstate) :=
  match e with
  | EConst _ v | EConstPtr _ v => Some (v, s)
  | EReg _ r => Some (getr s r, s)
  | EFlag c => Some (get_flag s c, s)
  | ELoad w a =>
      match eval_expr a s with
      | Some (addr, s1) => Some (load w s1 addr)
      | None => None
      end
  | EBin op w f a b =>
      match eval_expr a s with
      | Some (x, s1) =>
          match eval_expr b s1 with
          | Some (y, s2) =>
              match eval_binop op w x y with
              | Some (r, oc, oz) => Some (r, apply_flags f w r oc oz s2)
              | None => None
              end
          | None => None
          end
      | None => None
      end
  | ERotC lft w f a cnt cin =>
      match eval_expr a s with
      | Some (x, s1) =>
          match eval_expr cnt s1 with
          | Some (n, s2) =>
              match eval_expr cin s2 with
              | Some (ci, s3) =>
                  if negb (n =? 1) then None else       (* assert count == 1 *)
                  let m := maskw w in
                  let width := bits w in
                  let '(r, c) :=
                    if lft then (band (Z.lor (Z.shiftl x 1) ci) m, band (Z.shiftr x (width - 1)) 1)
                    else (band (Z.lor (Z.shiftr x 1) (Z.shiftl ci (width - 1))) m, band x 1) in
                  Some (r, apply_flags f w r (Some c) (Some (b2z (r =? 0))) s3)
              | None => None
              end
          | None => None
          end
      | None => None
      end
  | EPop w =>
      let addr := getr s gS in
      let '(v, s1) := load w s addr in
      Some (v, setr s1 gS (addr + Z.of_N w))
  | EUnimpl => None
  end.

Definition imem (off : N) : Z := Z.of_N (py_internal_memory_start + off).

(* _enter_low_power_state *)
Definition low_power (s : mstate) : mstate :=
  let '(usr, s1) := rd1 s (imem py_imem_USR) in
  let s2 := wr1 s1 (imem py_imem_USR) (Z.lor (Z.land usr (Z.lnot 63)) 24) in
  let '(ssr, s3) := rd1 s2 (imem py_imem_SSR) in
  let s4 := wr1 s3 (imem py_imem_SSR) (Z.lor ssr 4) in
  {| rg := rg s4; mem := mem s4; halted := true; rlog := rlog s4; wlog := wlog s4 |}.

Definition reset_intr (s : mstate) : mstate :=
  let '(lcc, s1) := rd1 s (imem py_imem_LCC) in
  let s2 := wr1 s1 (imem py_imem_LCC) (Z.land lcc (Z.lnot 128)) in
  let s3 := wr1 s2 (imem py_imem_UCR) 0 in
  let s4 := wr1 s3 (imem py_imem_ISR) 0 in
  let s5 := wr1 s4 (imem py_imem_SCR) 0 in
  let '(usr, s6) := rd1 s5 (imem py_imem_USR) in
  let s7 := wr1 s6 (imem py_imem_USR) (Z.lor (Z.land usr (Z.lnot 63)) 24) in
  let '(ssr, s8) := rd1 s7 (imem py_imem_SSR) in
  let s9 := wr1 s8 (imem py_imem_SSR) (Z.land ssr (Z.lnot 4)) in
  let v := Z.of_N py_reset_vector_used in
  let '(b0, s10) := rd1 s9 v in
  let '(b1, s11) := rd1 s10 (v + 1) in
  let '(b2, s12) := rd1 s11 (v + 2) in
  setr s12 gPC (band (Z.lor (Z.lor b0 (Z.shiftl b1 8)) (Z.shiftl b2 16)) (Z.of_N py_pc_mask)).

(* eval_call's choice of how many bytes of the return address to push *)
Definition call_push_size (e : expr) : N :=
  match e with
  | EConstPtr 2 _ | EConst 2 _ => 2%N
  | EBin B_OR 3 _ (EConst 2 _) _ => 2%N
  | _ => 3%N
  end.

Inductive outcome := ONext | OGoto (l : nat).

Definition exec_stmt (st : stmt) (s : mstate) : option (mstate * outcome) :=
  match st with
  | SSetReg _ r e =>
      match eval_expr e s with Some (v, s1) => Some (setr s1 r v, ONext) | None => None end
  | SSetFlag c e =>
      match eval_expr e s with Some (v, s1) => Some (set_flag s1 c (b2z (negb (v =? 0))), ONext) | None => None end
  | SStore w a e =>
      match eval_expr a s with
      | Some (addr, s1) =>
          match eval_expr e s1 with Some (v, s2) => Some (store w s2 addr v, ONext) | None => None end
      | None => None
      end
  | SPush w e =>
      match eval_expr e s with
      | Some (v, s1) =>
          let addr := getr s1 gS - Z.of_N w in
          Some (setr (store w s1 addr v) gS addr, ONext)
      | None => None
      end
  | SJump e | SRet e =>
      match eval_expr e s with Some (v, s1) => Some (setr s1 gPC v, ONext) | None => None end
  | SCall e =>
      match eval_expr e s with
      | Some (addr, s1) =>
          let ret := getr s1 gPC in
          let n := call_push_size e in
          let sp := getr s1 gS - Z.of_N n in
          let v := if (n =? 2)%N then band ret 65535 else band ret 1048575 in
          Some (setr (setr (store n s1 sp v) gS sp) gPC addr, ONext)
      | None => None
      end
  | SNop => Some (s, ONext)
  | SUnimpl => None
  | SIntr IN_TCL => Some (s, ONext)
  | SIntr IN_HALT | SIntr IN_OFF => Some (low_power s, ONext)
  | SIntr IN_RESET => Some (reset_intr s, ONext)
  | SExpr e => match eval_expr e s with Some (_, s1) => Some (s1, ONext) | None => None end
  | SIf c t f =>
      match eval_expr c s with
      | Some (v, s1) => Some (s1, OGoto (if v =? 0 then f else t))
      | None => None
      end
  | SGoto l => Some (s, OGoto l)
  | SLabel _ => Some (s, ONext)
  end.

(* label_to_index: the last LABEL node carrying that label wins (dict assignment in order) *)
Fixpoint label_index (prog : list stmt) (l : nat) (i : nat) (acc : option nat) : option nat :=
  match prog with
  | [] => acc
  | SLabel l' :: r => label_index r l (S i) (if Nat.eqb l l' then Some i else acc)
  | _ :: r => label_index r l (S i) acc
  end.

Inductive runres := RDone (s : mstate) | RFault | RFuel.

Fixpoint run (fuel : nat) (prog : list stmt) (pc : nat) (s : mstate) : runres :=
  match fuel with
  | O => RFuel
  | S fuel' =>
      match nth_error prog pc with
      | None => RDone s
      | Some st =>
          match exec_stmt st s with
          | None => RFault
          | Some (s1, ONext) => run fuel' prog (S pc) s1
          | Some (s1, OGoto l) =>
              match label_index prog l 0 None with
              | Some i => run fuel' prog i s1
              | None => RFault                    (* assert target_label in label_to_index *)
              end
          end
      end
  end.
