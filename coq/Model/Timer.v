(* Model/Timer.v -- executable models of the two timer implementations.

   Gallina definition        <-> source (pinned commit 841ec91)
   py_adv_loop / py_adv1     <-> pce500/scheduler.py  TimerScheduler.advance   (the `while` loops)
   py_advance                <-> pce500/scheduler.py  TimerScheduler.advance
   py_reset                  <-> pce500/scheduler.py  TimerScheduler.reset
   py_init                   <-> pce500/scheduler.py  TimerScheduler.__post_init__
   rs_adv_loop / rs_adv1     <-> sc62015/core/src/timer.rs  TimerContext::tick_timers (preserve_phase = true)
   rs_tick                   <-> sc62015/core/src/timer.rs  TimerContext::tick_timers (next_mti/next_sti/ISR part)
   rs_reset / rs_init        <-> sc62015/core/src/timer.rs  TimerContext::reset / ::new
   py_tick_isr               <-> pce500/emulator.py  PCE500Emulator._tick_timers (ISR part only)

   No proofs in this file.  Loops are recursion on explicit fuel; fuel exhaustion is the
   explicit value None and is excluded by the theorems (Proofs/TimerProofs.v). *)
From Coq Require Import NArith List Bool.
Import ListNotations.
Open Scope N_scope.

(* ---- the shared while loop: while c >= next: next += p ------------------------------- *)
Fixpoint py_adv_loop (fuel : nat) (c p nxt : N) : option N :=
  if c <? nxt then Some nxt
  else match fuel with
       | O => None
       | S f => py_adv_loop f c p (nxt + p)
       end.

Definition adv_fuel (c p nxt : N) : nat := S (N.to_nat ((c - nxt) / p)).

(* one timer of the Python scheduler: returns (next', fired) *)
Definition py_adv1 (c p nxt : N) : option (N * bool) :=
  if (nxt <=? c) && (0 <? p) then
    match py_adv_loop (adv_fuel c p nxt) c p nxt with
    | Some n => Some (n, true)
    | None => None
    end
  else Some (nxt, false).

Record pytimer := { py_en : bool; py_pm : N; py_ps : N; py_nm : N; py_ns : N }.

Definition py_init (en : bool) (pm ps : N) : pytimer :=
  {| py_en := en; py_pm := pm; py_ps := ps; py_nm := pm; py_ns := ps |}.

Definition py_reset (t : pytimer) (base : N) : pytimer :=
  {| py_en := py_en t; py_pm := py_pm t; py_ps := py_ps t;
     py_nm := base + py_pm t; py_ns := base + py_ps t |}.

(* advance: Some (t', fired_mti, fired_sti) *)
Definition py_advance (t : pytimer) (c : N) : option (pytimer * bool * bool) :=
  if negb (py_en t) then Some (t, false, false) else
  match py_adv1 c (py_pm t) (py_nm t), py_adv1 c (py_ps t) (py_ns t) with
  | Some (nm, fm), Some (ns, fs) =>
      Some ({| py_en := py_en t; py_pm := py_pm t; py_ps := py_ps t; py_nm := nm; py_ns := ns |}, fm, fs)
  | _, _ => None
  end.

(* ISR update performed by PCE500Emulator._tick_timers for the fired sources *)
Definition isr_after (isr : N) (fm fs : bool) : N :=
  N.lor (N.lor isr (if fm then 1 else 0)) (if fs then 2 else 0).

(* ---- Rust: u64 with wrapping_add ------------------------------------------------------ *)
Definition two64 : N := 18446744073709551616.
Definition wadd (a b : N) : N := (a + b) mod two64.

Fixpoint rs_adv_loop (fuel : nat) (c p nxt : N) : option N :=
  if c <? nxt then Some nxt
  else match fuel with
       | O => None
       | S f => rs_adv_loop f c p (wadd nxt p)
       end.

Definition rs_adv1 (c p nxt : N) : option (N * bool) :=
  if (0 <? p) && (nxt <=? c) then
    match rs_adv_loop (adv_fuel c p nxt) c p nxt with
    | Some n => Some (n, true)
    | None => None
    end
  else Some (nxt, false).

Record rstimer := { rs_en : bool; rs_pm : N; rs_ps : N; rs_nm : N; rs_ns : N; rs_isr : N }.

Definition rs_reset (t : rstimer) (c : N) : rstimer :=
  {| rs_en := rs_en t; rs_pm := rs_pm t; rs_ps := rs_ps t;
     rs_nm := if rs_en t && (0 <? rs_pm t) then wadd c (rs_pm t) else 0;
     rs_ns := if rs_en t && (0 <? rs_ps t) then wadd c (rs_ps t) else 0;
     rs_isr := rs_isr t |}.

Definition rs_init (en : bool) (pm ps isr : N) : rstimer :=
  rs_reset {| rs_en := en; rs_pm := pm; rs_ps := ps; rs_nm := 0; rs_ns := 0; rs_isr := isr |} 0.

Definition rs_tick (t : rstimer) (c : N) : option (rstimer * bool * bool) :=
  if negb (rs_en t) then Some (t, false, false) else
  match rs_adv1 c (rs_pm t) (rs_nm t), rs_adv1 c (rs_ps t) (rs_ns t) with
  | Some (nm, fm), Some (ns, fs) =>
      Some ({| rs_en := rs_en t; rs_pm := rs_pm t; rs_ps := rs_ps t; rs_nm := nm; rs_ns := ns;
               rs_isr := isr_after (rs_isr t) fm fs |}, fm, fs)
  | _, _ => None
  end.

(* ---- running a list of operations (used by the correspondence driver) ----------------- *)
Inductive top := TTick (c : N) | TReset (c : N) | TSetNext (nm ns : N).

(* observation after each op: (fired_mti, fired_sti, next_mti, next_sti, isr) *)
Definition tobs := (bool * bool * N * N * N)%type.

Fixpoint py_run (t : pytimer) (isr : N) (ops : list top) : option (list tobs) :=
  match ops with
  | [] => Some []
  | TTick c :: r =>
      match py_advance t c with
      | Some (t', fm, fs) =>
          let isr' := isr_after isr fm fs in
          match py_run t' isr' r with
          | Some l => Some ((fm, fs, py_nm t', py_ns t', isr') :: l)
          | None => None
          end
      | None => None
      end
  | TReset c :: r =>
      let t' := py_reset t c in
      match py_run t' isr r with
      | Some l => Some ((false, false, py_nm t', py_ns t', isr) :: l)
      | None => None
      end
  | TSetNext nm ns :: r =>
      let t' := {| py_en := py_en t; py_pm := py_pm t; py_ps := py_ps t; py_nm := nm; py_ns := ns |} in
      match py_run t' isr r with
      | Some l => Some ((false, false, nm, ns, isr) :: l)
      | None => None
      end
  end.

Fixpoint rs_run (t : rstimer) (ops : list top) : option (list tobs) :=
  match ops with
  | [] => Some []
  | TTick c :: r =>
      match rs_tick t c with
      | Some (t', fm, fs) =>
          match rs_run t' r with
          | Some l => Some ((fm, fs, rs_nm t', rs_ns t', rs_isr t') :: l)
          | None => None
          end
      | None => None
      end
  | TReset c :: r =>
      let t' := rs_reset t c in
      match rs_run t' r with
      | Some l => Some ((false, false, rs_nm t', rs_ns t', rs_isr t') :: l)
      | None => None
      end
  | TSetNext nm ns :: r =>
      let t' := {| rs_en := rs_en t; rs_pm := rs_pm t; rs_ps := rs_ps t; rs_nm := nm; rs_ns := ns; rs_isr := rs_isr t |} in
      match rs_run t' r with
      | Some l => Some ((false, false, nm, ns, rs_isr t') :: l)
      | None => None
      end
  end.
