(* Model/Lift.v -- the Python LLIL lifter (property C03-C07 share it).

   Gallina definition      <-> source (sc62015/pysc62015/instr, pinned commit)
   logop / expand            <-> Instruction.operands(): the logical operands each physical operand expands to
                               (RegPair, EMemReg -> EMemRegOffsetHelper -> EMemValueOffsetHelper, EMemIMem,
                                RegIMemOffset, EMemIMemOffset; widths from the instruction name MVW / MVP)
   imem_addr               <-> IMemHelper.imem_addr / _imem_offset (value an Imm8)
   op_lift / op_assign     <-> <Operand>.lift / lift_assign;  cur_addr <-> Pointer.lift_current_addr;
                               incdec <-> RegIncrementDecrementHelper.lift
   addressing_modes        <-> Instruction._addressing_modes;  mode_of <-> get_addressing_mode
   lift_loop               <-> opcodes.py lift_loop
   lift_instr              <-> <Instruction subclass>.lift in instructions.py, one clause per class
                               (generic Instruction.lift with lift_operation1/2 for the ALU classes)
   The tables (PRE modes, single-addressable set, register names/sizes, IMEM addresses, vectors) are the
   regenerated Gen/Tables.v.  An exception raised while lifting is None.  No proofs in this file. *)
From Coq Require Import ZArith NArith List Bool.
From BE Require Import Model.TableTypes Gen.Tables Model.Regs Model.Decode Model.IL.
Import ListNotations.
Open Scope Z_scope.

(* ---- builder monad: statements emitted so far (newest first) and the label counter ---------- *)
Record lst := { code : list stmt; nextl : nat }.
Definition M (A : Type) := lst -> option (A * lst).
Definition ret {A} (a : A) : M A := fun s => Some (a, s).
Definition fail {A} : M A := fun _ => None.
Definition bind {A B} (m : M A) (f : A -> M B) : M B :=
  fun s => match m s with Some (a, s1) => f a s1 | None => None end.
Notation "x <- a ;; b" := (bind a (fun x => b)) (at level 61, a at next level, right associativity).
Notation "a ;;; b" := (bind a (fun _ => b)) (at level 61, right associativity).
Definition emit (st : stmt) : M unit := fun s => Some (tt, {| code := st :: code s; nextl := nextl s |}).
Definition fresh : M nat := fun s => Some (nextl s, {| code := code s; nextl := S (nextl s) |}).

(* ---- names -------------------------------------------------------------------------------- *)
Definition reg_of (r : regname) : option reg :=
  match r with
  | RA => Some gA | RB => Some gB | RBA => Some gBA | RIL => Some gIL | RIH => Some gIH | RI => Some gI
  | RX => Some gX | RY => Some gY | RU => Some gU | RS => Some gS | RF => Some gF | RPC => Some gPC
  | RFC => Some gFC | RFZ => Some gFZ | RIMR => None
  end.

Definition regname_eqb (a b : regname) : bool :=
  match a, b with
  | RA, RA | RB, RB | RBA, RBA | RIL, RIL | RIH, RIH | RI, RI | RX, RX | RY, RY | RU, RU | RS, RS | RF, RF
  | RPC, RPC | RFC, RFC | RFZ, RFZ | RIMR, RIMR => true
  | _, _ => false
  end.

Fixpoint size_of (l : list (regname * N)) (r : regname) : option N :=
  match l with
  | [] => None
  | (r', n) :: t => if regname_eqb r r' then Some n else size_of t r
  end.

(* Reg(name): register and REG_SIZES[name] *)
Definition named_reg (r : regname) : option (reg * N) :=
  match reg_of r, size_of py_reg_sizes_opcodes r with
  | Some g, Some n => Some (g, n)
  | _, _ => None
  end.

(* Reg3.reg_name(idx) = REG_NAMES[idx] *)
Definition reg3 (raw : N) : option (reg * N) :=
  match nth_error py_reg_names (N.to_nat (raw mod 8)) with
  | Some r => named_reg r
  | None => None
  end.

(* RegPair._regpair_name *)
Definition regpair_name (code : N) (use_r2 : bool) : regname :=
  let idx := (code mod 8)%N in
  if use_r2 then
    (if ((idx =? 0) || (idx =? 2))%N then RBA else if ((idx =? 1) || (idx =? 3))%N then RI
     else if (idx =? 4)%N then RX else if (idx =? 5)%N then RY else if (idx =? 6)%N then RU else RS)
  else
    (if (idx =? 0)%N then RA else if (idx =? 1)%N then RIL else if (idx =? 2)%N then RBA else if (idx =? 3)%N then RI
     else if (idx =? 4)%N then RX else if (idx =? 5)%N then RY else if (idx =? 6)%N then RU else RS).

Definition T (k : nat) : reg := gTEMP k.
(* TempRegF 0, TempIncDecHelper 1, TempMvlSrc 2, TempMvlDst 3, TempMultiByte1 4, TempMultiByte2 5, TempExchange 6,
   TempBcdAddEmul 7, TempBcdSubEmul 8, TempBcdLowNibbleProcessing 9, TempBcdHighNibbleProcessing 10,
   TempOverallZeroAcc 11, TempLoopByteResult 12, TempBcdDigitCarry 13 *)

(* ---- logical operands ------------------------------------------------------------------------ *)
Inductive pbase :=
  | PB_IncDec (r : reg) (rw : N) (m : emode) (step : N)       (* RegIncrementDecrementHelper(width, reg, mode) *)
  | PB_Reg (r : reg) (rw : N)                                 (* the Reg3 itself (offset modes) *)
  | PB_IMem (n : N).                                          (* IMem8/16/20 holding a pointer *)

Inductive logop :=
  | LImm (w : N) (v : N)
  | LImmOff (neg : bool) (v : N)
  | LIMem (w : N) (n : N)
  | LReg (r : reg) (w : N)
  | LReg3 (r : reg) (w : N)                                   (* a Reg3 operand (INC/DEC test isinstance Reg3) *)
  | LRegIL | LRegIMR | LRegF
  | LEAddr (w : N) (v : N)
  | LEPtr (w : N) (b : pbase) (off : option Z).

Definition name_width (e : dentry) : N :=
  match d_optname e with Some ON_MVW => 2 | Some ON_MVP => 3 | _ => 1 end%N.

(* parent.name() in ("MV", "EX") *)
Definition uses_r2 (e : dentry) : bool :=
  match d_cls e, d_optname e with
  | I_MV, None | I_EX, None => true
  | _, _ => false
  end.

Definition imm20 (lo mid hi : N) : N := (lo + 256 * mid + 65536 * (hi mod 16))%N.

Definition soff (neg : bool) (v : N) : Z := if neg then - Z.of_N v else Z.of_N v.

(* EMemRegOffsetHelper(width, reg, mode, offset).operands() *)
Definition emem_reg_op (w : N) (raw : N) (off : option N) : option logop :=
  match reg3 raw, emode_of (high4 raw) with
  | Some (r, rw), Some m =>
      match m with
      | EM_SIMPLE | EM_POST_INC | EM_PRE_DEC => Some (LEPtr w (PB_IncDec r rw m w) None)
      | EM_POS_OFF => match off with Some v => Some (LEPtr w (PB_Reg r rw) (Some (soff false v))) | None => None end
      | EM_NEG_OFF => match off with Some v => Some (LEPtr w (PB_Reg r rw) (Some (soff true v))) | None => None end
      end
  | _, _ => None
  end.

(* the ImmOffset an EMemIMemMode byte implies *)
Definition imem_mode_off (mode : N) (off : option N) : option (option Z) :=
  if (mode =? 0)%N then Some None
  else match off with
       | Some v => Some (Some (soff (mode =? 192)%N v))
       | None => None
       end.

Definition expand1 (e : dentry) (o : operand) : option (list logop) :=
  match o with
  | OImm8 v => Some [LImm 1 v]
  | OImm16 v => Some [LImm 2 v]
  | OImm20 lo mid hi => Some [LImm 3 (imm20 lo mid hi)]
  | OImmOff neg v => Some [LImmOff neg v]
  | OIMem w n => Some [LIMem w n]
  | OReg r w => match reg_of r with Some g => Some [LReg g w] | None => None end
  | ORegB => Some [LReg gB 1]
  | ORegPC => Some [LReg gPC 3]
  | ORegIL => Some [LRegIL] | ORegIMR => Some [LRegIMR] | ORegF => Some [LRegF]
  | OReg3 raw => match reg3 raw with Some (r, w) => Some [LReg3 r w] | None => None end
  | ORegPair _ raw =>
      match named_reg (regpair_name ((raw / 16) mod 8) (uses_r2 e)), named_reg (regpair_name (raw mod 8) (uses_r2 e)) with
      | Some (r1, w1), Some (r2, w2) => Some [LReg r1 w1; LReg r2 w2]
      | _, _ => None
      end
  | OEMemAddr w lo mid hi => Some [LEAddr w (imm20 lo mid hi)]
  | OEMemReg w raw off => match emem_reg_op w raw off with Some l => Some [l] | None => None end
  | OEMemIMem w mode n off =>
      match imem_mode_off mode off with Some so => Some [LEPtr w (PB_IMem n) so] | None => None end
  | ORegIMemOff dest_imem raw n off =>
      let w := name_width e in
      match emem_reg_op w raw off with
      | Some l => Some (if dest_imem then [LIMem w n; l] else [l; LIMem w n])
      | None => None
      end
  | OEMemIMemOff dest_int mode n1 n2 off =>
      let w := name_width e in
      match imem_mode_off mode off with
      | Some so => Some (if dest_int then [LIMem w n1; LEPtr w (PB_IMem n2) so]
                         else [LEPtr w (PB_IMem n1) so; LIMem w n2])
      | None => None
      end
  end.

Fixpoint expand (e : dentry) (os : list operand) : option (list logop) :=
  match os with
  | [] => Some []
  | o :: t =>
      match expand1 e o, expand e t with
      | Some a, Some b => Some (a ++ b)
      | _, _ => None
      end
  end.

Definition lop_width (o : logop) : option N :=
  match o with
  | LImm w _ | LIMem w _ | LReg _ w | LReg3 _ w | LEAddr w _ | LEPtr w _ _ => Some w
  | LImmOff _ _ => Some 1%N
  | LRegIL | LRegIMR | LRegF => Some 1%N
  end.

(* isinstance(op, Pointer) *)
Definition is_pointer (o : logop) : bool :=
  match o with LIMem _ _ | LEAddr _ _ | LEPtr _ _ _ => true | _ => false end.

(* ---- addressing modes ---------------------------------------------------------------------------- *)
Fixpoint pre_lookup (l : list (N * imode * imode)) (p : N) : option (imode * imode) :=
  match l with
  | [] => None
  | (q, a, b) :: t => if (p =? q)%N then Some (a, b) else pre_lookup t p
  end.

(* get_addressing_mode(pre, idx); ValueError for an unknown PRE byte *)
Definition mode_of (pre : option N) (second : bool) : option imode :=
  match pre with
  | None => Some IM_BP_N
  | Some p => match pre_lookup py_pre_table p with
              | Some (a, b) => Some (if second then b else a)
              | None => None
              end
  end.

(* Instruction._operand_uses_pre_mode *)
Definition uses_pre_mode (o : logop) : bool :=
  match o with
  | LIMem _ _ => true
  | LEPtr _ (PB_IMem _) _ => true
  | _ => false
  end.

Fixpoint pre_indexes (l : list logop) (i : nat) : list nat :=
  match l with
  | [] => []
  | o :: t => if uses_pre_mode o then i :: pre_indexes t (S i) else pre_indexes t (S i)
  end.

Definition is_regimemoff (os : list operand) : bool :=
  match os with [ORegIMemOff _ _ _ _] => true | _ => false end.

Definition addressing_modes (i : instr) (lops : list logop) : option (imode * imode) :=
  match mode_of (i_pre i) false, mode_of (i_pre i) true with
  | Some d, Some s0 =>
      let s1 := if existsb (N.eqb (i_opc i)) py_single_addressable then d else s0 in
      let s2 := match i_pre i with
                | Some _ => match pre_indexes lops 0 with [1%nat] => d | _ => s1 end
                | None => s1
                end in
      let s3 := match i_pre i with
                | Some _ => if is_regimemoff (i_ops i) then d else s2
                | None => s2
                end in
      Some (d, s3)
  | _, _ => None
  end.

(* ---- expression builders ---------------------------------------------------------------------- *)
Definition ims : Z := Z.of_N py_internal_memory_start.
Definition c (w : N) (v : Z) : expr := EConst w v.
Definition cN (w : N) (v : N) : expr := EConst w (Z.of_N v).
Definition add (w : N) (a b : expr) : expr := EBin B_ADD w F0 a b.
Definition sub (w : N) (a b : expr) : expr := EBin B_SUB w F0 a b.
Definition and_ (w : N) (a b : expr) : expr := EBin B_AND w F0 a b.
Definition or_ (w : N) (a b : expr) : expr := EBin B_OR w F0 a b.
Definition lsl (w : N) (a b : expr) : expr := EBin B_LSL w F0 a b.
Definition lsr (w : N) (a b : expr) : expr := EBin B_LSR w F0 a b.
Definition addsub (dec : bool) (w : N) (a b : expr) : expr := if dec then sub w a b else add w a b.
Definition cmp_e (w : N) (a b : expr) : expr := EBin B_CMP_E w F0 a b.
Definition cmp_ugt (w : N) (a b : expr) : expr := EBin B_CMP_UGT w F0 a b.

(* IMemHelper._reg_value *)
Definition imreg (off : N) : expr := ELoad 1 (EConstPtr 3 (ims + Z.of_N off)).

(* IMemHelper.imem_addr with value = Imm8(n) *)
Definition imem_addr (m : imode) (n : N) : expr :=
  match m with
  | IM_N => EConstPtr 3 (ims + Z.of_N n)
  | IM_BP_N => add 3 (add 1 (imreg py_imem_BP) (cN 1 n)) (c 3 ims)
  | IM_PX_N => add 3 (add 1 (imreg py_imem_PX) (cN 1 n)) (c 3 ims)
  | IM_PY_N => add 3 (add 1 (imreg py_imem_PY) (cN 1 n)) (c 3 ims)
  | IM_BP_PX => add 3 (add 1 (imreg py_imem_BP) (imreg py_imem_PX)) (c 3 ims)
  | IM_BP_PY => add 3 (add 1 (imreg py_imem_BP) (imreg py_imem_PY)) (c 3 ims)
  end.

(* RegIncrementDecrementHelper.lift *)
Definition incdec (r : reg) (rw : N) (m : emode) (step : N) (se : bool) : M expr :=
  let value := EReg rw r in
  match m, se with
  | EM_POST_INC, true =>
      emit (SSetReg rw (T 1) value) ;;;
      emit (SSetReg rw r (add rw value (cN rw step))) ;;;
      ret (EReg rw (T 1))
  | EM_PRE_DEC, true =>
      let nv := sub rw value (cN rw step) in
      emit (SSetReg rw (T 1) nv) ;;;
      emit (SSetReg rw r nv) ;;;
      ret (EReg rw (T 1))
  | EM_PRE_DEC, false => ret (sub rw value (cN rw step))
  | _, _ => ret value
  end.

(* Pointer.lift_current_addr(il, pre, side_effects) *)
Definition cur_addr (o : logop) (m : imode) (se : bool) : M expr :=
  match o with
  | LIMem _ n => ret (imem_addr m n)
  | LEAddr _ v => ret (EConstPtr 3 (Z.of_N v))
  | LEPtr _ b off =>
      a <- (match b with
            | PB_IMem n => ret (ELoad 3 (imem_addr m n))
            | PB_Reg r rw => ret (EReg rw r)
            | PB_IncDec r rw md step => incdec r rw md step se
            end) ;;
      ret (match off with Some d => add 3 a (c 3 d) | None => a end)
  | _ => fail
  end.

Definition imr_ptr : expr := EConstPtr 3 (ims + Z.of_N py_imem_IMR).

(* <Operand>.lift(il, pre, side_effects) *)
Definition op_lift (o : logop) (m : imode) (se : bool) : M expr :=
  match o with
  | LImm w v => ret (cN w v)
  | LImmOff _ _ => fail                                   (* NotImplementedError *)
  | LIMem w n => ret (ELoad w (imem_addr m n))
  | LReg r w | LReg3 r w => ret (EReg w r)
  | LRegIL => ret (EReg 1 gIL)
  | LRegIMR => ret (ELoad 1 imr_ptr)
  | LRegF => ret (or_ 1 (EFlag true) (lsl 1 (EFlag false) (c 1 1)))
  | LEAddr w v => ret (ELoad w (EConstPtr 3 (Z.of_N v)))
  | LEPtr w _ _ => a <- cur_addr o m se ;; ret (ELoad w a)
  end.

(* <Operand>.lift_assign(il, value, pre) *)
Definition op_assign (o : logop) (v : expr) (m : imode) : M unit :=
  match o with
  | LImm _ _ | LImmOff _ _ => emit (SExpr v) ;;; emit SUnimpl
  | LIMem w n => emit (SStore w (imem_addr m n) v)
  | LReg r w | LReg3 r w => emit (SSetReg w r v)
  | LRegIL => emit (SSetReg 2 gI (and_ 2 v (c 2 255)))
  | LRegIMR => emit (SStore 1 imr_ptr v)
  | LRegF =>
      emit (SSetReg 1 (T 0) v) ;;;
      emit (SSetFlag true (and_ 1 (EReg 1 (T 0)) (c 1 1))) ;;;
      emit (SSetFlag false (and_ 1 (EReg 1 (T 0)) (c 1 2)))
  | LEAddr w a => emit (SStore w (EConstPtr 3 (Z.of_N a)) v)
  | LEPtr w _ _ => a <- cur_addr o m true ;; emit (SStore w a v)
  end.

(* lift_loop: prologue returns the two labels; epilogue closes the loop *)
Definition loop_begin : M (nat * nat) :=
  lt <- fresh ;; lf <- fresh ;;
  emit (SIf (cmp_e 2 (EReg 2 gI) (c 2 0)) lt lf) ;;;
  emit (SLabel lf) ;;;
  ret (lt, lf).
Definition loop_end (ls : nat * nat) : M unit :=
  emit (SSetReg 2 gI (sub 2 (EReg 2 gI) (c 1 1))) ;;;
  emit (SIf (cmp_e 2 (EReg 2 gI) (c 2 0)) (fst ls) (snd ls)) ;;;
  emit (SLabel (fst ls)).

(* _conditional_assign *)
Definition cond_assign (tw : N) (t : reg) (cond tv fv : expr) : M unit :=
  l1 <- fresh ;; l2 <- fresh ;; l3 <- fresh ;;
  emit (SIf cond l1 l2) ;;;
  emit (SLabel l1) ;;; emit (SSetReg tw t tv) ;;; emit (SGoto l3) ;;;
  emit (SLabel l2) ;;; emit (SSetReg tw t fv) ;;;
  emit (SLabel l3).

Definition bcd_add_emul (a b : expr) : M expr :=
  let cin := EFlag true in
  let a_low := and_ 1 a (c 1 15) in
  let b_low := and_ 1 b (c 1 15) in
  let sum_low := add 1 (add 1 a_low b_low) cin in
  cond_assign 1 (T 9) (cmp_ugt 1 sum_low (c 1 9)) (add 1 sum_low (c 1 6)) sum_low ;;;
  let cur_low := EReg 1 (T 9) in
  let res_low := and_ 1 cur_low (c 1 15) in
  let carry_hi := lsr 1 cur_low (c 1 4) in
  let sum_high := add 1 (add 1 (lsr 1 a (c 1 4)) (lsr 1 b (c 1 4))) carry_hi in
  cond_assign 1 (T 10) (cmp_ugt 1 sum_high (c 1 9)) (add 1 sum_high (c 1 6)) sum_high ;;;
  let cur_high := EReg 1 (T 10) in
  let res_high := and_ 1 cur_high (c 1 15) in
  let new_carry := lsr 1 cur_high (c 1 4) in
  let result := or_ 1 (lsl 1 res_high (c 1 4)) res_low in
  emit (SSetReg 1 (T 7) result) ;;;
  emit (SSetFlag true new_carry) ;;;
  emit (SSetFlag false (cmp_e 1 result (c 1 0))) ;;;
  ret (EReg 1 (T 7)).

Definition bcd_sub_emul (a b : expr) : M expr :=
  let bin := EFlag true in
  let a_low := and_ 1 a (c 1 15) in
  let b_low := and_ 1 b (c 1 15) in
  let tlow := sub 1 a_low (add 1 b_low bin) in
  let borrow_low := EBin B_CMP_SLT 1 F0 tlow (c 1 0) in
  cond_assign 1 (T 9) borrow_low (sub 1 tlow (c 1 6)) tlow ;;;
  let res_low := and_ 1 (EReg 1 (T 9)) (c 1 15) in
  let thigh := sub 1 (lsr 1 a (c 1 4)) (add 1 (lsr 1 b (c 1 4)) borrow_low) in
  let new_borrow := EBin B_CMP_SLT 1 F0 thigh (c 1 0) in
  cond_assign 1 (T 10) new_borrow (sub 1 thigh (c 1 6)) thigh ;;;
  let res_high := and_ 1 (EReg 1 (T 10)) (c 1 15) in
  let result := or_ 1 (lsl 1 res_high (c 1 4)) res_low in
  emit (SSetReg 1 (T 8) result) ;;;
  emit (SSetFlag true new_borrow) ;;;
  emit (SSetFlag false (cmp_e 1 result (c 1 0))) ;;;
  ret (EReg 1 (T 8)).

(* make_handlers of lift_multi_byte: (load expression, store, advance) *)
Record handlers := { h_load : expr; h_store : expr -> M unit; h_adv : M unit }.

Definition make_handlers (o : logop) (is_dest : bool) (m : imode) (w : N) (reverse first_only : bool) : M handlers :=
  if is_pointer o then
    let ptr := T (if is_dest then 4 else 5) in
    a <- cur_addr o m is_dest ;;
    emit (SSetReg 3 ptr a) ;;;
    ret {| h_load := ELoad w (EReg 3 ptr);
           h_store := (fun v => emit (SStore w (EReg 3 ptr) v));
           h_adv := emit (SSetReg 3 ptr (addsub reverse 3 (EReg 3 ptr) (cN 3 w))) |}
  else if first_only && negb is_dest then
    v <- op_lift o IM_BP_N true ;;
    emit (SSetReg w (T 5) v) ;;;
    ret {| h_load := EReg w (T 5);
           h_store := (fun v => op_assign o v IM_BP_N);
           h_adv := emit (SSetReg w (T 5) (c w 0)) |}
  else
    v <- op_lift o IM_BP_N true ;;
    ret {| h_load := v; h_store := (fun x => op_assign o x IM_BP_N); h_adv := ret tt |}.

Definition lift_multi_byte (pre : option N) (op1 op2 : logop) (clear_carry reverse bcd subtract first_only : bool) : M unit :=
  match lop_width op1, mode_of pre false, mode_of pre true with
  | Some w, Some dm, Some sm =>
      h1 <- make_handlers op1 true dm w reverse first_only ;;
      h2 <- make_handlers op2 false sm w reverse first_only ;;
      (if clear_carry then emit (SSetFlag true (c 1 0)) else ret tt) ;;;
      emit (SSetReg w (T 11) (c w 0)) ;;;
      ls <- loop_begin ;;
      cur <- (if bcd then
                (if negb (w =? 1)%N then fail else
                 if subtract then bcd_sub_emul (h_load h1) (h_load h2) else bcd_add_emul (h_load h1) (h_load h2))
              else
                let term := add 3 (h_load h2) (EFlag true) in
                let main := EBin (if subtract then B_SUB else B_ADD) w FCZ (h_load h1) term in
                emit (SSetReg w (T 12) main) ;;;
                ret (EReg w (T 12))) ;;
      h_store h1 cur ;;;
      emit (SSetReg w (T 11) (or_ w (EReg w (T 11)) cur)) ;;;
      h_adv h1 ;;; h_adv h2 ;;;
      loop_end ls ;;;
      emit (SSetFlag false (cmp_e w (EReg w (T 11)) (c w 0)))
  | _, _, _ => fail
  end.

(* MVL._update_address_with_wrap *)
Definition update_wrap (t : reg) (dec : bool) (operand_is_imem : bool) : M unit :=
  let na := addsub dec 3 (EReg 3 t) (c 3 1) in
  if operand_is_imem then
    emit (SSetReg 3 t (add 3 (c 3 ims) (and_ 3 (sub 3 na (c 3 ims)) (c 3 255))))
  else emit (SSetReg 3 t na).

Definition is_imem (o : logop) : bool := match o with LIMem _ _ => true | _ => false end.
Definition predec_reg (o : logop) : option (reg * N) :=
  match o with LEPtr _ (PB_IncDec r rw EM_PRE_DEC _) _ => Some (r, rw) | _ => None end.

Definition lift_mvl (modes : option (imode * imode)) (dst src : logop) (decr : bool) : M unit :=
  if negb (is_pointer dst && is_pointer src) then fail else
  match modes with
  | Some (dm, sm) =>
      da <- cur_addr dst dm false ;;
      emit (SSetReg 3 (T 3) da) ;;;
      initial <- cur_addr src sm false ;;
      (match predec_reg src with
       | Some _ => pa <- cur_addr src sm true ;; emit (SSetReg 3 (T 2) pa)
       | None => emit (SSetReg 3 (T 2) initial)
       end) ;;;
      ls <- loop_begin ;;
      emit (SStore 1 (EReg 3 (T 3)) (ELoad 1 (EReg 3 (T 2)))) ;;;
      let is_pd := match predec_reg src with Some _ => true | None => false end in
      let dst_dec := if is_imem dst && is_pd then true else decr in
      update_wrap (T 3) dst_dec (is_imem dst) ;;;
      (match predec_reg src with
       | Some (r, rw) =>
           lu <- fresh ;; lk <- fresh ;;
           emit (SIf (EBin B_CMP_SGT 2 F0 (EReg 2 gI) (c 2 1)) lu lk) ;;;
           emit (SLabel lu) ;;;
           update_wrap (T 2) true (is_imem src) ;;;
           emit (SSetReg rw r (EReg 3 (T 2))) ;;;
           emit (SGoto lk) ;;;
           emit (SLabel lk)
       | None =>
           update_wrap (T 2) decr (is_imem src) ;;;
           _ <- cur_addr src sm true ;; ret tt
       end) ;;;
      _ <- cur_addr dst dm true ;;
      loop_end ls
  | None => fail
  end.

Definition lift_decimal_shift (pre : option N) (o : logop) (lft : bool) : M unit :=
  match o, mode_of pre false with
  | LIMem 1 n, Some m =>
      emit (SSetReg 3 (T 4) (imem_addr m n)) ;;;
      emit (SSetReg 1 (T 13) (c 1 0)) ;;;
      emit (SSetReg 1 (T 11) (c 1 0)) ;;;
      ls <- loop_begin ;;
      let cur := ELoad 1 (EReg 3 (T 4)) in
      let t_low := and_ 1 cur (c 1 15) in
      let t_high := lsr 1 cur (c 1 4) in
      let shl_low := lsl 1 t_low (c 1 4) in
      let '(shift_part, carry_part, next_carry, addr_update) :=
        if lft then (shl_low, EReg 1 (T 13), t_high, sub 3 (EReg 3 (T 4)) (c 3 1))
        else (t_high, lsl 1 (EReg 1 (T 13)) (c 1 4), t_low, add 3 (EReg 3 (T 4)) (c 3 1)) in
      let shifted := or_ 1 shift_part carry_part in
      emit (SStore 1 (EReg 3 (T 4)) shifted) ;;;
      emit (SSetReg 1 (T 13) next_carry) ;;;
      emit (SSetReg 1 (T 11) (or_ 1 (EReg 1 (T 11)) shifted)) ;;;
      emit (SSetReg 3 (T 4) addr_update) ;;;
      loop_end ls ;;;
      emit (SSetFlag false (cmp_e 1 (EReg 1 (T 11)) (c 1 0)))
  | _, _ => fail
  end.

(* ArithmeticInstruction._lift_regpair_20bit_binary; returns false when the path does not apply *)
Definition regpair20 (i : instr) (lops : list logop) (subtract : bool) : M bool :=
  match i_ops i, lops with
  | [ORegPair 3 _], [LReg r1 w1; LReg r2 w2] =>
      let mask := c 3 1048575 in
      emit (SSetReg 3 (T 4) (and_ 3 (EReg w1 r1) mask)) ;;;
      emit (SSetReg 3 (T 5) (and_ 3 (EReg w2 r2) mask)) ;;;
      (if subtract then emit (SSetReg 3 (T 12) (sub 3 (EReg 3 (T 4)) (EReg 3 (T 5))))
       else emit (SSetReg 3 (T 12) (add 3 (EReg 3 (T 4)) (EReg 3 (T 5))))) ;;;
      let cb := if subtract then cmp_ugt 3 (EReg 3 (T 5)) (EReg 3 (T 4))
                else cmp_ugt 3 (EReg 3 (T 12)) (c 3 1048575) in
      emit (SSetReg 3 (T 11) (and_ 3 (EReg 3 (T 12)) mask)) ;;;
      emit (SSetReg w1 r1 (EReg 3 (T 11))) ;;;
      emit (SSetFlag true cb) ;;;
      emit (SSetFlag false (cmp_e 3 (EReg 3 (T 11)) (c 3 0))) ;;;
      ret true
  | _, _ => ret false
  end.

(* lift_operation1 / lift_operation2 per class; None = NotImplementedError *)
Definition operation1 (cls : icls) (w : N) (a : expr) : option expr :=
  match cls with
  | I_ROR => Some (EBin B_ROR 1 FCZ a (c 1 1))
  | I_ROL => Some (EBin B_ROL 1 FCZ a (c 1 1))
  | I_SHL => Some (ERotC true 1 FCZ a (c 1 1) (EFlag true))
  | I_SHR => Some (ERotC false 1 FCZ a (c 1 1) (EFlag true))
  | I_INC => Some (EBin B_ADD w FZ a (c w 1))
  | I_DEC => Some (EBin B_SUB w FZ a (c w 1))
  | I_SWAP =>
      Some (EBin B_OR 1 FZ (lsl 1 (and_ 1 a (c 1 15)) (c 1 4)) (lsr 1 (and_ 1 a (c 1 240)) (c 1 4)))
  | _ => None
  end.

Definition operation2 (cls : icls) (w : N) (a b : expr) : option expr :=
  match cls with
  | I_MV => Some b
  | I_ADD => Some (EBin B_ADD w FCZ a b)
  | I_ADC => Some (EBin B_ADD w FCZ a (add 3 b (EFlag true)))
  | I_SUB => Some (EBin B_SUB w FCZ a b)
  | I_SBC => Some (EBin B_SUB w FCZ a (add 3 b (EFlag true)))
  | I_AND => Some (EBin B_AND 1 FZ a b)
  | I_OR => Some (EBin B_OR 1 FZ a b)
  | I_XOR => Some (EBin B_XOR 1 FZ a b)
  | I_PMDF => Some (add 1 a b)
  | _ => None
  end.

(* does lift_operation need self.width() (two operands, first HasWidth)? *)
Definition needs_width2 (cls : icls) : bool :=
  match cls with I_ADD | I_ADC | I_SUB | I_SBC => true | _ => false end.

(* Instruction.lift *)
Definition lift_generic (i : instr) (lops : list logop) : M unit :=
  match addressing_modes i lops with
  | None => fail
  | Some (dm, sm) =>
      let cls := d_cls (i_ent i) in
      match lops with
      | [] => emit SUnimpl
      | [o1] =>
          a <- op_lift o1 dm false ;;
          match lop_width o1 with
          | Some w => match operation1 cls w a with Some v => op_assign o1 v dm | None => fail end
          | None => fail
          end
      | [o1; o2] =>
          a <- op_lift o1 dm false ;;
          b <- op_lift o2 sm true ;;
          match lop_width o1 with
          | Some w => match operation2 cls w a b with Some v => op_assign o1 v dm | None => fail end
          | None => fail
          end
      | _ => fail
      end
  end.

Definition cond_jump (cnd : option cond) (target : M expr) : M unit :=
  lt <- fresh ;; lf <- fresh ;;
  (match cnd with
   | Some cc =>
       let flag := match cc with CZ | CNZ => EFlag false | CC | CNC => EFlag true end in
       let value := match cc with CNZ | CNC => c 1 0 | _ => c 1 1 end in
       emit (SIf (cmp_e 1 flag value) lt lf)
   | None => ret tt
   end) ;;;
  emit (SLabel lt) ;;;
  t <- target ;;
  emit (SJump t) ;;;
  emit (SLabel lf).

Definition single_exchange (i : instr) (lops : list logop) : M unit :=
  match lops with
  | [o1; o2] =>
      match lop_width o1, addressing_modes i lops with
      | Some w, Some (dm, sm) =>
          a <- op_lift o1 dm true ;;
          emit (SSetReg w (T 6) a) ;;;
          b <- op_lift o2 sm true ;;
          op_assign o1 b dm ;;;
          op_assign o2 (EReg w (T 6)) sm
      | _, _ => fail
      end
  | _ => fail
  end.

Definition is_reg3_20 (o : logop) : option reg :=
  match o with
  | LReg3 gX _ => Some gX | LReg3 gY _ => Some gY | LReg3 gU _ => Some gU | LReg3 gS _ => Some gS
  | _ => None
  end.

Definition incdec20 (r : reg) (w : N) (dec : bool) : M unit :=
  let cur := and_ 3 (EReg w r) (c 3 1048575) in
  emit (SSetReg 3 (T 12) (and_ 3 (addsub dec 3 cur (c 3 1)) (c 3 1048575))) ;;;
  emit (SSetReg w r (EReg 3 (T 12))) ;;;
  emit (SSetFlag false (cmp_e 3 (EReg 3 (T 12)) (c 3 0))).

Definition lift_body (i : instr) (addr : Z) : M unit :=
  let e := i_ent i in
  let len := Z.of_nat (i_len i) in
  match expand e (i_ops i) with
  | None => fail
  | Some lops =>
      match d_cls e with
      | I_NOP => emit SNop
      | I_JP_Abs =>
          cond_jump (d_cond e)
            (match lops with
             | [o] =>
                 match lop_width o, addressing_modes i lops with
                 | Some w, Some (dm, _) =>
                     if (3 <=? w)%N then op_lift o dm true
                     else v <- op_lift o IM_BP_N true ;; ret (or_ 3 v (c 3 (Z.land addr 16711680)))
                 | _, _ => fail
                 end
             | _ => fail
             end)
      | I_JP_Rel =>
          cond_jump (d_cond e)
            (match lops with
             | [LImmOff neg v] => ret (c 3 (addr + len + soff neg v))
             | _ => fail
             end)
      | I_CALL =>
          match lops with
          | [LImm w v] =>
              if (w =? 3)%N then emit (SCall (EConstPtr 3 (Z.of_N v)))
              else if (w =? 2)%N then
                emit (SPush 2 (c 2 (addr + len))) ;;;
                emit (SJump (EConstPtr 3 (Z.lor (Z.land addr 16711680) (Z.of_N v))))
              else fail
          | _ => fail
          end
      | I_RET => emit (SRet (or_ 3 (EPop 2) (and_ 3 (EReg 3 gPC) (c 3 16711680))))
      | I_RETF => emit (SRet (EPop 3))
      | I_RETI =>
          op_assign LRegIMR (EPop 1) IM_BP_N ;;;
          op_assign LRegF (EPop 1) IM_BP_N ;;;
          emit (SRet (EPop 3))
      | I_MV =>
          match lops with
          | [o1; o2] =>
              match addressing_modes i lops with
              | Some (dm, sm) => v <- op_lift o2 sm true ;; op_assign o1 v dm
              | None => fail
              end
          | _ => lift_generic i lops
          end
      | I_MVL => match lops with [d; s] => lift_mvl (addressing_modes i lops) d s false | _ => fail end
      | I_MVLD => match lops with [d; s] => lift_mvl (addressing_modes i lops) d s true | _ => fail end
      | I_PRE => fail                                        (* InvalidInstruction: unfused PRE *)
      | I_PUSHS =>
          match lops with
          | [o] => match lop_width o with
                   | Some w => v <- op_lift o IM_BP_N true ;; emit (SPush w v)
                   | None => fail
                   end
          | _ => fail
          end
      | I_POPS =>
          match lops with
          | [o] => match lop_width o with Some w => op_assign o (EPop w) IM_BP_N | None => fail end
          | _ => fail
          end
      | I_PUSHU =>
          match lops with
          | [o] =>
              match lop_width o with
              | Some w =>
                  emit (SSetReg 3 (T 1) (EReg 3 gU)) ;;;
                  let nu := sub 3 (EReg 3 (T 1)) (cN 3 w) in
                  emit (SSetReg 3 gU nu) ;;;
                  v <- op_lift o IM_BP_N true ;;
                  emit (SStore w nu v) ;;;
                  match o with
                  | LRegIMR => v2 <- op_lift o IM_BP_N true ;; op_assign o (and_ 1 v2 (c 1 127)) IM_BP_N
                  | _ => ret tt
                  end
              | None => fail
              end
          | _ => fail
          end
      | I_POPU =>
          match lops with
          | [o] =>
              match lop_width o with
              | Some w =>
                  emit (SSetReg 3 (T 1) (EReg 3 gU)) ;;;
                  op_assign o (ELoad w (EReg 3 (T 1))) IM_BP_N ;;;
                  emit (SSetReg 3 gU (add 3 (EReg 3 (T 1)) (cN 3 w)))
              | None => fail
              end
          | _ => fail
          end
      | I_ADD | I_SUB =>
          let subtract := match d_cls e with I_SUB => true | _ => false end in
          done <- regpair20 i lops subtract ;;
          if done then ret tt else
          match lops with [_; _] => lift_generic i lops | _ => fail end
      | I_ADC | I_SBC => match lops with [_; _] => lift_generic i lops | _ => fail end
      | I_ADCL => match lops with [d; s] => lift_multi_byte (i_pre i) d s false false false false false | _ => fail end
      | I_SBCL => match lops with [d; s] => lift_multi_byte (i_pre i) d s false false false true false | _ => fail end
      | I_DADL => match lops with [d; s] => lift_multi_byte (i_pre i) d s true true true false (negb (is_pointer s)) | _ => fail end
      | I_DSBL => match lops with [d; s] => lift_multi_byte (i_pre i) d s false true true true (negb (is_pointer s)) | _ => fail end
      | I_AND | I_OR | I_XOR | I_PMDF | I_ROR | I_ROL | I_SHL | I_SHR | I_SWAP => lift_generic i lops
      | I_TEST =>
          match lops, mode_of (i_pre i) false, mode_of (i_pre i) true with
          | [o1; o2], Some dm, Some sm =>
              a <- op_lift o1 dm true ;; b <- op_lift o2 sm true ;;
              emit (SSetFlag false (cmp_e 3 (and_ 3 a b) (c 3 0)))
          | _, _, _ => fail
          end
      | I_CMP | I_CMPW | I_CMPP =>
          let w := match d_cls e with I_CMP => 1 | I_CMPW => 2 | _ => 3 end%N in
          match lops, mode_of (i_pre i) false, mode_of (i_pre i) true with
          | [o1; o2], Some dm, Some sm =>
              a <- op_lift o1 dm true ;; b <- op_lift o2 sm true ;;
              emit (SExpr (EBin B_SUB w FCZ a b))
          | _, _, _ => fail
          end
      | I_DSLL => match lops with [o] => lift_decimal_shift (i_pre i) o true | _ => fail end
      | I_DSRL => match lops with [o] => lift_decimal_shift (i_pre i) o false | _ => fail end
      | I_INC | I_DEC =>
          let dec := match d_cls e with I_DEC => true | _ => false end in
          match lops with
          | [o] =>
              match is_reg3_20 o, lop_width o with
              | Some r, Some w => incdec20 r w dec
              | _, _ => lift_generic i lops
              end
          | _ => fail
          end
      | I_EX => single_exchange i lops
      | I_EXL => ls <- loop_begin ;; single_exchange i lops ;;; loop_end ls
      | I_WAIT => ls <- loop_begin ;; emit SNop ;;; loop_end ls
      | I_SC => emit (SSetFlag true (c 1 1))
      | I_RC => emit (SSetFlag true (c 1 0))
      | I_TCL => emit (SIntr IN_TCL)
      | I_HALT => emit (SIntr IN_HALT)
      | I_OFF => emit (SIntr IN_OFF)
      | I_RESET => emit (SIntr IN_RESET)
      | I_IR =>
          imrv <- op_lift LRegIMR IM_BP_N true ;;
          emit (SPush 3 (EReg 3 gPC)) ;;;
          fv <- op_lift LRegF IM_BP_N true ;;
          emit (SPush 1 fv) ;;;
          emit (SPush 1 imrv) ;;;
          v2 <- op_lift LRegIMR IM_BP_N true ;;
          op_assign LRegIMR (and_ 1 v2 (c 1 127)) IM_BP_N ;;;
          emit (SJump (ELoad 3 (EConstPtr 3 (Z.of_N py_interrupt_vector))))
      | I_Unknown => lift_generic i lops
      end
  end.

Definition lift_instr (i : instr) (addr : Z) : option (list stmt) :=
  match lift_body i addr {| code := []; nextl := 0 |} with
  | Some (_, s) => Some (rev (code s))
  | None => None
  end.

(* ---- Emulator._execute_instruction_impl ---------------------------------------------------------- *)
Inductive xres := XOk (s : mstate) | XLiftError | XFault | XFuel.

Definition fuel_for (prog : list stmt) (s : mstate) : nat :=
  (S (length prog) * (N.to_nat (py_get (rg s) gI) + 3))%nat.

(* `fetched` is the result of Emulator.decode_instruction; `first_byte` the byte at `addr` *)
Definition exec_decoded (i : instr) (first_byte : N) (addr : Z) (s : mstate) : xres :=
  let s0 := setr s gPC (Z.land addr (Z.of_N py_pc_mask)) in
  let len := Z.of_nat (i_len i) in
  if (first_byte =? 239)%N then                         (* WAIT fast path *)
    XOk (setr (setr s0 gPC (addr + len)) gI 0)
  else
    match lift_instr i addr with
    | None => XLiftError
    | Some prog =>
        let s1 := setr s0 gPC (addr + len) in
        match run (fuel_for prog s1) prog 0 s1 with
        | RDone s2 => XOk s2
        | RFault => XFault
        | RFuel => XFuel
        end
    end.
