(* Model/Snap.v -- what a snapshot keeps (property C16).

   machine      the state PCE500Emulator.step depends on: CPU registers (Model/Regs.v pyregs), low-power flag,
                flat memory image (with the internal bytes at its end), timer fields, interrupt bookkeeping,
                key-interrupt latch, keyboard and LCD state (kept abstract)
   py_save      <-> pce500/emulator.py save_snapshot: registers through the 20-byte blob + temps (Regs.py_capture /
                    pack), memory image, timer info, interrupts {pending, in_interrupt, source}, keyboard, lcd
   py_load      <-> load_snapshot into a freshly constructed emulator: everything above is restored; the low-power
                    flag and the key-interrupt latch are not in the bundle and keep the fresh emulator's values;
                    USR bits 3 and 4 are forced to 1
   No proofs in this file. *)
From Coq Require Import NArith List Bool.
From BE Require Import Model.Regs.
Import ListNotations.
Open Scope N_scope.

Section Snap.
  Context {KB LCD : Type}.            (* keyboard matrix state and LCD state, saved and restored whole *)

  Record timer := { t_enabled : bool; t_mti : N; t_sti : N; t_next_mti : N; t_next_sti : N }.
  Record irq := { q_pending : bool; q_in_interrupt : bool; q_source : option N }.

  Record machine := {
    m_regs : pyregs; m_halted : bool; m_mem : list N; m_timer : timer; m_irq : irq; m_key_latched : bool;
    m_cycles : N; m_kbd : KB; m_lcd : LCD }.

  Record bundle := {
    b_blob : list N; b_temps : list N; b_mem : list N; b_timer : timer; b_irq : irq; b_cycles : N; b_kbd : KB; b_lcd : LCD }.

  Definition py_save (m : machine) : bundle :=
    let sn := py_capture (m_regs m) in
    {| b_blob := pack sn; b_temps := sn_t sn; b_mem := m_mem m; b_timer := m_timer m; b_irq := m_irq m;
       b_cycles := m_cycles m; b_kbd := m_kbd m; b_lcd := m_lcd m |}.

  (* USR is internal byte 0xF8: index (length - 256 + 0xF8) of the image *)
  Definition usr_index (img : list N) : nat := (length img - 256 + 248)%nat.
  Definition force_usr (img : list N) : list N :=
    match nth_error img (usr_index img) with
    | Some v => upd img (usr_index img) (N.lor v 24)
    | None => img
    end.

  Definition py_load (b : bundle) (fresh : machine) : option machine :=
    match unpack (b_blob b) (b_temps b) with
    | None => None
    | Some sn =>
        Some {| m_regs := py_apply sn (m_regs fresh); m_halted := m_halted fresh; m_mem := force_usr (b_mem b);
                m_timer := b_timer b; m_irq := b_irq b; m_key_latched := m_key_latched fresh;
                m_cycles := b_cycles b; m_kbd := b_kbd b; m_lcd := b_lcd b |}
    end.
End Snap.
Arguments machine : clear implicits.
Arguments bundle : clear implicits.
