(* Model/Kbd.v -- the keyboard matrix of both implementations (property C14).

   Gallina definition          <-> source (pinned commit)
   active_col                  <-> keyboard_matrix.py _active_columns ; keyboard.rs active_columns
   py_update / rs_update       <-> KeyboardMatrix._update_key_state ; the per-key body of KeyboardMatrix::scan_tick
   py_scan / rs_scan           <-> KeyboardMatrix.scan_tick (+ _enqueue_event) ; KeyboardMatrix::scan_tick
   kil_of                      <-> _compute_kil / compute_kil (raw_kil = false)
   py_press/py_release/py_inject <-> press_key / release_key / inject_event
   rs_press/rs_release/rs_inject <-> press_matrix_code / release_matrix_code / inject_matrix_event
   py_write_kol/koh, py_read_kil <-> keyboard_handler.py handle_register_write / handle_register_read (memory = None: no KSD)
   rs_write, rs_read_kil       <-> keyboard.rs handle_write / handle_read
   fifo_push                   <-> _enqueue_event (ring of 8 slots, 7 usable) ; enqueue_event (8 entries); both drop the oldest
   rs_assert_keyi              <-> keyboard.rs write_fifo_to_memory (KEYI gate)

   Key k is identified by its matrix code column*8+row.  Python scans the 87 named keys in dict order
   (Gen/KbdTables.v), Rust all 128 codes in numeric order.  The FIFO is modelled as the list of queued
   bytes, oldest first (what fifo_snapshot returns).  No proofs in this file. *)
From Coq Require Import NArith List Bool.
From BE Require Import Gen.KbdTables.
Import ListNotations.
Open Scope N_scope.

Record kcfg := { press_th : N; release_th : N; rep_delay : N; rep_interval : N; active_high : bool; rep_enabled : bool }.

Record kstate := { k_pressed : bool; k_deb : bool; k_pt : N; k_rt : N; k_rep : N }.
Definition k0 : kstate := {| k_pressed := false; k_deb := false; k_pt := 0; k_rt := 0; k_rep := 0 |}.

Inductive kev := EvPress | EvRepeat | EvRelease.

Definition col_of (code : N) : N := code / 8.
Definition row_of (code : N) : N := code mod 8.

(* column c is strobed: bit c of KOL (c<8) / bit c-8 of KOH, under the configured polarity *)
Definition active_col (ah : bool) (kol koh : N) (c : N) : bool :=
  let bit := if c <? 8 then N.testbit kol c else N.testbit koh (c - 8) in
  if ah then bit else negb bit.

(* ---- per-key debounce / repeat step (one scan tick) ------------------------------------ *)
Definition py_update (cfg : kcfg) (strobed : bool) (k : kstate) : kstate * option kev :=
  let '(k1, ev) :=
    if k_pressed k && strobed then
      if negb (k_deb k) then
        let pt := k_pt k + 1 in
        if press_th cfg <=? pt then
          ({| k_pressed := true; k_deb := true; k_pt := press_th cfg; k_rt := 0; k_rep := rep_delay cfg |}, Some EvPress)
        else ({| k_pressed := true; k_deb := false; k_pt := pt; k_rt := k_rt k; k_rep := k_rep k |}, None)
      else
        if 0 <? rep_interval cfg then
          let r := if 0 <? k_rep k then k_rep k - 1 else k_rep k in
          if r =? 0 then
            ({| k_pressed := true; k_deb := true; k_pt := k_pt k; k_rt := 0; k_rep := rep_interval cfg |}, Some EvRepeat)
          else ({| k_pressed := true; k_deb := true; k_pt := k_pt k; k_rt := 0; k_rep := r |}, None)
        else ({| k_pressed := true; k_deb := true; k_pt := k_pt k; k_rt := 0; k_rep := k_rep k |}, None)
    else
      if k_deb k then
        let rt := k_rt k + 1 in
        if release_th cfg <=? rt then
          ({| k_pressed := k_pressed k; k_deb := false; k_pt := 0; k_rt := 0; k_rep := 0 |}, Some EvRelease)
        else ({| k_pressed := k_pressed k; k_deb := true; k_pt := 0; k_rt := rt; k_rep := k_rep k |}, None)
      else ({| k_pressed := k_pressed k; k_deb := false; k_pt := 0; k_rt := k_rt k; k_rep := k_rep k |}, None) in
  (if negb (k_pressed k1) && negb (k_deb k1)
   then {| k_pressed := k_pressed k1; k_deb := k_deb k1; k_pt := k_pt k1; k_rt := k_rt k1; k_rep := 0 |} else k1, ev).

Definition sat8 (x : N) : N := if 255 <? x then 255 else x.

(* Rust: u8 counters with saturating arithmetic; repeats gated by repeat_enabled and emitted as press bytes *)
Definition rs_update (cfg : kcfg) (strobed : bool) (k : kstate) : kstate * option kev :=
  let '(k1, ev) :=
    if k_pressed k && strobed then
      if negb (k_deb k) then
        let pt := sat8 (k_pt k + 1) in
        if press_th cfg <=? pt then
          ({| k_pressed := true; k_deb := true; k_pt := press_th cfg; k_rt := 0; k_rep := rep_delay cfg |}, Some EvPress)
        else ({| k_pressed := true; k_deb := false; k_pt := pt; k_rt := k_rt k; k_rep := k_rep k |}, None)
      else
        if rep_enabled cfg then
          let r := k_rep k - 1 in                         (* saturating_sub(1) *)
          if r =? 0 then
            ({| k_pressed := true; k_deb := true; k_pt := k_pt k; k_rt := 0; k_rep := rep_interval cfg |}, Some EvRepeat)
          else ({| k_pressed := true; k_deb := true; k_pt := k_pt k; k_rt := 0; k_rep := r |}, None)
        else ({| k_pressed := true; k_deb := true; k_pt := k_pt k; k_rt := 0; k_rep := k_rep k |}, None)
    else
      if k_deb k then
        let rt := sat8 (k_rt k + 1) in
        if release_th cfg <=? rt then
          ({| k_pressed := k_pressed k; k_deb := false; k_pt := 0; k_rt := 0; k_rep := 0 |}, Some EvRelease)
        else ({| k_pressed := k_pressed k; k_deb := true; k_pt := 0; k_rt := rt; k_rep := k_rep k |}, None)
      else ({| k_pressed := k_pressed k; k_deb := false; k_pt := 0; k_rt := k_rt k; k_rep := k_rep k |}, None) in
  (if negb (k_pressed k1) && negb (k_deb k1)
   then {| k_pressed := k_pressed k1; k_deb := k_deb k1; k_pt := k_pt k1; k_rt := k_rt k1; k_rep := 0 |} else k1, ev).

(* FIFO byte of an event: code & 0x7F, bit 7 marks a release (repeats look like presses) *)
Definition ev_byte (code : N) (e : kev) : N :=
  code mod 128 + (match e with EvRelease => 128 | _ => 0 end).

(* drop-oldest bounded queue; cap = usable entries (Python 7: one ring slot stays empty; Rust 8) *)
Definition fifo_push (cap : nat) (q : list N) (b : N) : list N :=
  let q' := q ++ [b] in
  if Nat.ltb cap (length q') then tl q' else q'.

(* ---- whole matrix ------------------------------------------------------------------------ *)
Record kbd := { kol : N; koh : N; latch : N; keys : list (N * kstate) (* scan order *); fifo : list N;
                irqs : N; keyi_latch : bool; isr : N }.

Definition strobed_of (cfg : kcfg) (s : kbd) (code : N) : bool :=
  active_col (active_high cfg) (kol s) (koh s) (col_of code).

(* _compute_kil *)
Definition kil_of (cfg : kcfg) (s : kbd) (pending : bool) : N :=
  fold_left (fun acc e =>
    let '(code, k) := e in
    if strobed_of cfg s code &&
       (k_deb k || (pending && k_pressed k && (press_th cfg <=? sat8 (k_pt k + 1))))
    then N.lor acc (2 ^ row_of code) else acc) (keys s) 0.

Fixpoint scan_keys (upd : kcfg -> bool -> kstate -> kstate * option kev) (cfg : kcfg) (s : kbd)
         (l : list (N * kstate)) : list (N * kstate) * list N :=
  match l with
  | [] => ([], [])
  | (code, k) :: t =>
      let '(k', ev) := upd cfg (strobed_of cfg s code) k in
      let '(t', evs) := scan_keys upd cfg s t in
      ((code, k') :: t', match ev with Some e => ev_byte code e :: evs | None => evs end)
  end.

Definition with_keys (s : kbd) (ks : list (N * kstate)) : kbd :=
  {| kol := kol s; koh := koh s; latch := latch s; keys := ks; fifo := fifo s; irqs := irqs s; keyi_latch := keyi_latch s; isr := isr s |}.
Definition with_fifo (s : kbd) (q : list N) : kbd :=
  {| kol := kol s; koh := koh s; latch := latch s; keys := keys s; fifo := q; irqs := irqs s; keyi_latch := keyi_latch s; isr := isr s |}.
Definition with_latch (s : kbd) (v : N) : kbd :=
  {| kol := kol s; koh := koh s; latch := v; keys := keys s; fifo := fifo s; irqs := irqs s; keyi_latch := keyi_latch s; isr := isr s |}.

Definition set_key (ks : list (N * kstate)) (code : N) (f : kstate -> kstate) : list (N * kstate) :=
  map (fun e => if fst e =? code then (fst e, f (snd e)) else e) ks.

Definition find_key (ks : list (N * kstate)) (code : N) : option kstate :=
  match find (fun e => fst e =? code) ks with Some e => Some (snd e) | None => None end.

(* ---------------------------------------------------------------- Python *)
Definition PY_CAP : nat := 7.

(* KeyboardMatrix.__init__: no column strobed initially under either polarity *)
Definition py_init (cfg : kcfg) : kbd :=
  {| kol := if active_high cfg then 0 else 255; koh := if active_high cfg then 0 else 15; latch := 0; keys := map (fun c => (c, k0)) py_key_codes; fifo := []; irqs := 0; keyi_latch := false; isr := 0 |}.

(* returns the new state and the events of this tick *)
Definition py_scan (cfg : kcfg) (s : kbd) : kbd * list N :=
  let '(ks, evs) := scan_keys py_update cfg s (keys s) in
  let s1 := with_keys s ks in
  let s2 := {| kol := kol s1; koh := koh s1; latch := latch s1; keys := keys s1;
               fifo := fold_left (fifo_push PY_CAP) evs (fifo s1);
               irqs := irqs s1 + N.of_nat (length evs); keyi_latch := keyi_latch s1; isr := isr s1 |} in
  (with_latch s2 (kil_of cfg s2 false), evs).

Definition py_press (cfg : kcfg) (s : kbd) (code : N) : kbd :=
  match find_key (keys s) code with
  | Some k => if k_pressed k then s else
      with_keys s (set_key (keys s) code (fun k =>
        {| k_pressed := true; k_deb := k_deb k; k_pt := 0; k_rt := 0; k_rep := rep_delay cfg |}))
  | None => s
  end.

Definition py_release (s : kbd) (code : N) : kbd :=
  with_keys s (set_key (keys s) code (fun k =>
    {| k_pressed := false; k_deb := k_deb k; k_pt := k_pt k; k_rt := 0; k_rep := k_rep k |})).

Definition py_inject (cfg : kcfg) (s : kbd) (code : N) (release : bool) : kbd :=
  match find_key (keys s) code with
  | None => s
  | Some _ =>
      let ks := set_key (keys s) code (fun k =>
        if release then k0
        else {| k_pressed := true; k_deb := true; k_pt := press_th cfg; k_rt := 0; k_rep := rep_delay cfg |}) in
      let s1 := with_keys s ks in
      let s2 := {| kol := kol s1; koh := koh s1; latch := latch s1; keys := keys s1;
                   fifo := fifo_push PY_CAP (fifo s1) (ev_byte code (if release then EvRelease else EvPress));
                   irqs := irqs s1 + 1; keyi_latch := keyi_latch s1; isr := isr s1 |} in
      with_latch s2 (kil_of cfg s2 true)
  end.

Definition py_write_kol (cfg : kcfg) (s : kbd) (v : N) : kbd :=
  let s1 := {| kol := v mod 256; koh := koh s; latch := latch s; keys := keys s; fifo := fifo s; irqs := irqs s; keyi_latch := keyi_latch s; isr := isr s |} in
  with_latch s1 (kil_of cfg s1 false).
Definition py_write_koh (cfg : kcfg) (s : kbd) (v : N) : kbd :=
  let s1 := {| kol := kol s; koh := v mod 16; latch := latch s; keys := keys s; fifo := fifo s; irqs := irqs s; keyi_latch := keyi_latch s; isr := isr s |} in
  with_latch s1 (kil_of cfg s1 false).

(* handle_register_read(KIL): a scan tick, then peek_kil (pending presses included) *)
Definition py_read_kil (cfg : kcfg) (s : kbd) : kbd * N :=
  let '(s1, _) := py_scan cfg s in (s1, kil_of cfg s1 true).

Definition py_consume (s : kbd) : kbd := with_fifo s [].

(* ---------------------------------------------------------------- Rust *)
Definition RS_CAP : nat := 8.

Definition rs_init : kbd :=
  {| kol := 0; koh := 0; latch := 0; keys := map (fun c => (N.of_nat c, k0)) (seq 0 128); fifo := []; irqs := 0; keyi_latch := false; isr := 0 |}.

Definition rs_scan (cfg : kcfg) (s : kbd) (count_irq : bool) : kbd * N :=
  let '(ks, evs) := scan_keys rs_update cfg s (keys s) in
  let q := fold_left (fifo_push RS_CAP) evs (fifo s) in
  let n := N.of_nat (length evs) in
  let s2 := {| kol := kol s; koh := koh s; latch := latch s; keys := ks; fifo := q;
               irqs := if count_irq then irqs s + n else irqs s;
               keyi_latch := match q with [] => false | _ => if count_irq && (0 <? n) then true else keyi_latch s end;
               isr := isr s |} in
  (with_latch s2 (kil_of cfg s2 false), n).

Definition rs_press (cfg : kcfg) (s : kbd) (code : N) : kbd :=
  let s1 := with_keys s (set_key (keys s) code (fun _ =>
    {| k_pressed := true; k_deb := false; k_pt := 0; k_rt := 0; k_rep := rep_delay cfg |})) in
  match find_key (keys s) code with Some _ => with_latch s1 (kil_of cfg s1 false) | None => s end.

Definition rs_release (cfg : kcfg) (s : kbd) (code : N) : kbd :=
  let s1 := with_keys s (set_key (keys s) code (fun _ => k0)) in
  match find_key (keys s) code with Some _ => with_latch s1 (kil_of cfg s1 false) | None => s end.

(* write_fifo_to_memory: KEYI only when latched, FIFO non-empty and keyboard IRQs enabled *)
Definition rs_assert_keyi (s : kbd) (enabled : bool) : kbd :=
  if keyi_latch s && negb (match fifo s with [] => true | _ => false end) && enabled
  then {| kol := kol s; koh := koh s; latch := latch s; keys := keys s; fifo := fifo s; irqs := irqs s;
          keyi_latch := keyi_latch s; isr := N.lor (isr s) 4 |}
  else s.

Definition no_active (cfg : kcfg) (s : kbd) : bool :=
  forallb (fun c => negb (active_col (active_high cfg) (kol s) (koh s) (N.of_nat c))) (seq 0 16).

Definition rs_inject (cfg : kcfg) (s : kbd) (code : N) (release : bool) (enabled : bool) : kbd :=
  let ks := set_key (keys s) code (fun _ =>
    if release then k0
    else {| k_pressed := true; k_deb := true; k_pt := press_th cfg; k_rt := 0; k_rep := rep_delay cfg |}) in
  let s1 := {| kol := kol s; koh := koh s; latch := latch s; keys := ks;
               fifo := fifo_push RS_CAP (fifo s) (ev_byte code (if release then EvRelease else EvPress));
               irqs := irqs s + 1; keyi_latch := true; isr := isr s |} in
  let l := if no_active cfg s1
           then fold_left (fun acc e => let '(c, k) := e in
                  if k_deb k || (k_pressed k && (press_th cfg <=? sat8 (k_pt k + 1))) then N.lor acc (2 ^ row_of c) else acc) (keys s1) 0
           else kil_of cfg s1 true in
  rs_assert_keyi (with_latch s1 l) enabled.

Definition rs_write_kol (cfg : kcfg) (s : kbd) (v : N) : kbd :=
  let s1 := {| kol := v mod 256; koh := koh s; latch := latch s; keys := keys s; fifo := fifo s; irqs := irqs s; keyi_latch := keyi_latch s; isr := isr s |} in
  with_latch s1 (kil_of cfg s1 false).
Definition rs_write_koh (cfg : kcfg) (s : kbd) (v : N) : kbd :=
  let s1 := {| kol := kol s; koh := v mod 256; latch := latch s; keys := keys s; fifo := fifo s; irqs := irqs s; keyi_latch := keyi_latch s; isr := isr s |} in
  with_latch s1 (kil_of cfg s1 false).

(* handle_read(0xF2): scan without IRQ counting, pending presses shown, FIFO drained *)
Definition rs_read_kil (cfg : kcfg) (s : kbd) : kbd * N :=
  let '(s1, _) := rs_scan cfg s false in
  let v := kil_of cfg s1 true in
  let s2 := with_latch s1 v in
  ({| kol := kol s2; koh := koh s2; latch := latch s2; keys := keys s2; fifo := [];
      irqs := irqs s2; keyi_latch := match fifo s2 with [] => keyi_latch s2 | _ => false end; isr := isr s2 |}, v).

Definition rs_consume (s : kbd) : kbd :=
  {| kol := kol s; koh := koh s; latch := latch s; keys := keys s; fifo := []; irqs := irqs s; keyi_latch := false; isr := isr s |}.

(* ---- op streams ------------------------------------------------------------------------- *)
Inductive kop :=
  | KPress (code : N) | KRelease (code : N) | KKol (v : N) | KKoh (v : N) | KTick | KRead
  | KInject (code : N) (release : bool) | KConsume.

(* observation after each op: [result; latch; irqs; isr] ++ fifo   (result: events of a tick, value of a read, else 0) *)
Definition obs (r : N) (s : kbd) : list N := [r; latch s; irqs s; isr s] ++ fifo s.

Fixpoint py_run (cfg : kcfg) (s : kbd) (ops : list kop) : list (list N) :=
  match ops with
  | [] => []
  | o :: t =>
      let '(s', r) :=
        match o with
        | KPress c => (py_press cfg s c, 0)
        | KRelease c => (py_release s c, 0)
        | KKol v => (py_write_kol cfg s v, 0)
        | KKoh v => (py_write_koh cfg s v, 0)
        | KTick => let '(s1, evs) := py_scan cfg s in (s1, N.of_nat (length evs))
        | KRead => py_read_kil cfg s
        | KInject c rel => (py_inject cfg s c rel, 0)
        | KConsume => (py_consume s, 0)
        end in
      obs r s' :: py_run cfg s' t
  end.

(* Rust stream: a scan tick counts IRQs and is followed by the KEYI gate with `kb_irq` *)
Fixpoint rs_run (cfg : kcfg) (kb_irq : bool) (s : kbd) (ops : list kop) : list (list N) :=
  match ops with
  | [] => []
  | o :: t =>
      let '(s', r) :=
        match o with
        | KPress c => (rs_press cfg s c, 0)
        | KRelease c => (rs_release cfg s c, 0)
        | KKol v => (rs_write_kol cfg s v, 0)
        | KKoh v => (rs_write_koh cfg s v, 0)
        | KTick => let '(s1, n) := rs_scan cfg s true in (rs_assert_keyi s1 kb_irq, n)
        | KRead => rs_read_kil cfg s
        | KInject c rel => (rs_inject cfg s c rel kb_irq, 0)
        | KConsume => (rs_consume s, 0)
        end in
      obs r s' :: rs_run cfg kb_irq s' t
  end.
