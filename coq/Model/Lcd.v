(* Model/Lcd.v -- the HD61202 pair (property C15).

   Gallina definition      <-> source (pinned commit)
   decode_access           <-> pce500/display/hd61202.py decode_access ; sc62015/core/src/lcd.rs decode_access
   parse_value             <-> hd61202.py parse_command (value part) ; lcd.rs parse_command
   chip_instr / chip_data  <-> HD61202.write_instruction / write_data ; Hd61202Chip::write_instruction / write_data
   chip_status / chip_read <-> HD61202.read_instruction_status / read_data ; Hd61202Chip::read_status / read_data
   py_write / py_read      <-> pce500/display/controller_wrapper.py HD61202Controller.write / read (+ pipeline._apply_command)
   rs_write / rs_read      <-> lcd.rs LcdController::write / read   (note: write does NOT test the R/W address bit)
   py_pixel                <-> HD61202Controller.get_display_buffer (copy_region; chips that are off stay blank; start line ignored)
   rs_pixel                <-> LcdController::display_buffer (copy_region with start_line; on/off ignored)

   chips: index 0 = left (CS1), 1 = right (CS2).  VRAM is a 512-entry list, cell (page, col) at page*64+col.
   No proofs in this file. *)
From Coq Require Import NArith List Bool.
Import ListNotations.
Open Scope N_scope.

Inductive csel := CS_BOTH | CS_RIGHT | CS_LEFT.

(* (chip select, is_data, is_read) or None when the address is outside both windows / selects no chip *)
Definition decode_access (addr : N) : option (csel * bool * bool) :=
  let hi := (addr / 4096) mod 16 in                        (* (addr & 0xF000) >> 12 *)
  if negb ((hi =? 10) || (hi =? 2)) then None else         (* 0xA000, 0x2000 *)
  let lo := addr mod 16 in
  let rd := N.odd lo in
  let di := N.odd (lo / 2) in
  match (lo / 4) mod 4 with
  | 0 => Some (CS_BOTH, di, rd)
  | 1 => Some (CS_RIGHT, di, rd)
  | 2 => Some (CS_LEFT, di, rd)
  | _ => None
  end.

Inductive instr := I_ONOFF | I_SETY | I_SETPAGE | I_STARTLINE.

(* instruction register write: value >> 6 selects, data masked as the sources do *)
Definition parse_value (v : N) : instr * N :=
  let d := v mod 64 in
  match (v / 64) mod 4 with
  | 0 => (I_ONOFF, d mod 2)
  | 1 => (I_SETY, d)
  | 2 => (I_SETPAGE, d mod 8)
  | _ => (I_STARTLINE, d)
  end.

Record chip := { c_on : bool; c_busy : bool; c_start : N; c_page : N; c_y : N; c_vram : list N }.

Definition chip0 : chip := {| c_on := false; c_busy := false; c_start := 0; c_page := 0; c_y := 0; c_vram := repeat 0 512 |}.

Fixpoint upd (l : list N) (i : nat) (v : N) : list N :=
  match l, i with
  | [], _ => []
  | _ :: r, O => v :: r
  | h :: r, S j => h :: upd r j v
  end.

Definition cell (page col : N) : nat := N.to_nat (page * 64 + col).

Definition chip_instr (c : chip) (i : instr) (d : N) : chip :=
  match i with
  | I_ONOFF => {| c_on := negb (d =? 0); c_busy := true; c_start := c_start c; c_page := c_page c; c_y := c_y c; c_vram := c_vram c |}
  | I_STARTLINE => {| c_on := c_on c; c_busy := true; c_start := d; c_page := c_page c; c_y := c_y c; c_vram := c_vram c |}
  | I_SETPAGE => {| c_on := c_on c; c_busy := true; c_start := c_start c; c_page := d; c_y := c_y c; c_vram := c_vram c |}
  | I_SETY => {| c_on := c_on c; c_busy := true; c_start := c_start c; c_page := c_page c; c_y := d; c_vram := c_vram c |}
  end.

Definition chip_data (c : chip) (d : N) : chip :=
  {| c_on := c_on c; c_busy := true; c_start := c_start c; c_page := c_page c;
     c_y := (c_y c + 1) mod 64;
     c_vram := upd (c_vram c) (cell (c_page c mod 8) (c_y c mod 64)) d |}.

Definition chip_status (c : chip) : chip * N :=
  ({| c_on := c_on c; c_busy := false; c_start := c_start c; c_page := c_page c; c_y := c_y c; c_vram := c_vram c |},
   (if c_busy c then 128 else 0) + (if c_on c then 0 else 32)).

Definition chip_read (c : chip) : chip * N :=
  let page := c_page c mod 8 in
  let y := c_y c mod 64 in
  let rc := (y + 63) mod 64 in                       (* (y - 1) % 64 *)
  ({| c_on := c_on c; c_busy := c_busy c; c_start := c_start c; c_page := c_page c; c_y := (y + 1) mod 64; c_vram := c_vram c |},
   nth (cell page rc) (c_vram c) 0).

Record lcd := { left : chip; right : chip }.
Definition lcd0 : lcd := {| left := chip0; right := chip0 |}.

Definition on_sel (cs : csel) (f : chip -> chip) (s : lcd) : lcd :=
  match cs with
  | CS_BOTH => {| left := f (left s); right := f (right s) |}
  | CS_LEFT => {| left := f (left s); right := right s |}
  | CS_RIGHT => {| left := left s; right := f (right s) |}
  end.

Definition do_write (cs : csel) (di : bool) (v : N) (s : lcd) : lcd :=
  if di then on_sel cs (fun c => chip_data c v) s
  else let '(i, d) := parse_value v in on_sel cs (fun c => chip_instr c i d) s.

(* Python: a write to an address whose R/W bit says READ is ignored (parse_command raises ValueError) *)
Definition py_write (s : lcd) (addr v : N) : lcd :=
  match decode_access addr with
  | Some (cs, di, false) => do_write cs di v s
  | _ => s
  end.

(* Rust: parse_command ignores the R/W bit *)
Definition rs_write (s : lcd) (addr v : N) : lcd :=
  match decode_access addr with
  | Some (cs, di, _) => do_write cs di v s
  | None => s
  end.

(* read: only from a READ address with a single chip selected; returns None otherwise *)
Definition lcd_read (s : lcd) (addr : N) : lcd * option N :=
  match decode_access addr with
  | Some (cs, di, true) =>
      match cs with
      | CS_BOTH => (s, None)
      | CS_LEFT => let '(c, v) := (if di then chip_read (left s) else chip_status (left s)) in
                   ({| left := c; right := right s |}, Some v)
      | CS_RIGHT => let '(c, v) := (if di then chip_read (right s) else chip_status (right s)) in
                    ({| left := left s; right := c |}, Some v)
      end
  | _ => (s, None)
  end.

(* ---- display ------------------------------------------------------------------------------ *)
(* source of a visible pixel (row < 32, col < 240): (chip index, y_display, source column) *)
Definition px_src (row col : N) : N * N * N :=
  if col <? 64 then (1, row, col)
  else if col <? 120 then (0, row, col - 64)
  else if col <? 176 then (0, 32 + row, 55 - (col - 120))
  else (1, 32 + row, 63 - (col - 176)).

Definition pixel_on (byte bit : N) : N := if N.testbit byte bit then 0 else 1.

Definition chip_of (s : lcd) (i : N) : chip := if i =? 0 then left s else right s.

(* Python: start line ignored, a chip that is off leaves its region blank *)
Definition py_pixel (s : lcd) (row col : N) : N :=
  let '(ci, yd, sc) := px_src row col in
  let c := chip_of s ci in
  if c_on c then pixel_on (nth (cell (yd / 8) sc) (c_vram c) 0) (yd mod 8) else 0.

(* Rust: scrolled by the chip's start line, on/off ignored *)
Definition rs_pixel (s : lcd) (row col : N) : N :=
  let '(ci, yd, sc) := px_src row col in
  let c := chip_of s ci in
  let yv := (yd + c_start c mod 64) mod 64 in
  pixel_on (nth (cell (yv / 8) sc) (c_vram c) 0) (yv mod 8).

(* ---- op streams for the driver ------------------------------------------------------------ *)
Inductive lop := LWrite (addr v : N) | LRead (addr : N) | LState | LPixels.

(* observation: a list of numbers *)
(* busy is not exported by the Rust controller; it is observed through status reads *)
Definition chip_obs (c : chip) : list N :=
  [if c_on c then 1 else 0; c_start c; c_page c; c_y c].

Fixpoint vram_digest (l : list N) (acc : N) : N :=
  match l with [] => acc | b :: r => vram_digest r ((acc * 31 + b + 7) mod 4294967291) end.

Definition state_obs (s : lcd) : list N :=
  chip_obs (left s) ++ [vram_digest (c_vram (left s)) 0] ++ chip_obs (right s) ++ [vram_digest (c_vram (right s)) 0].

Definition nseq (n : nat) : list N := map N.of_nat (seq 0 n).

Definition pixels_digest (px : N -> N -> N) : N :=
  vram_digest (flat_map (fun r => map (fun c => px r c) (nseq 240)) (nseq 32)) 0.

Fixpoint run (wr : lcd -> N -> N -> lcd) (px : lcd -> N -> N -> N) (s : lcd) (ops : list lop) : list (list N) :=
  match ops with
  | [] => []
  | LWrite a v :: t => let s' := wr s a v in [] :: run wr px s' t
  | LRead a :: t => let '(s', r) := lcd_read s a in (match r with Some v => [v] | None => [256] end) :: run wr px s' t
  | LState :: t => state_obs s :: run wr px s t
  | LPixels :: t => [pixels_digest (px s)] :: run wr px s t
  end.

Definition py_run := run py_write py_pixel lcd0.
Definition rs_run := run rs_write rs_pixel lcd0.
