(* Model/Decode.v -- the Python instruction decoder / encoder and its four consumers (C01, C02).

   Gallina definition       <-> source (pinned commit 841ec91)
   rd_byte / rd_word        <-> binja_test_mocks/coding.py  Decoder.unsigned_byte / unsigned_word_le (BufferTooShort)
   decode_shape             <-> sc62015/pysc62015/instr/opcodes.py  <Operand>.decode, one clause per operand class
                                (Imm8, Imm16, Imm20, ImmOffset, IMem8/16/20, Reg*, Reg3, RegPair, EMemAddr, EMemReg,
                                 EMemIMem, RegIMemOffset, EMemIMemOffset; assert_r3, get_emem_reg_mode,
                                 get_emem_imem_mode, allowed_modes, _decode_offset) - order of reads and checks as written
   encode_op                <-> <Operand>.encode
   coding_order             <-> Instruction.operands_coding (ops_reversed; the `assert len(ops) == 2`)
   decode_one               <-> create_instruction + Instruction.decode + one turn of iter_decode
   decode                   <-> decode() = next(fusion(iter_decode(...))): one-instruction lookahead, PRE.fuse,
                                second lookahead after a fusion; AssertionError propagates, BufferTooShort /
                                InvalidInstruction end the stream
   encode                   <-> Instruction.encode (prefix byte, opcode, operands in coding order)
   c_info c_text c_llil     <-> sc62015/arch.py  get_instruction_info / _text / _low_level_il (acceptance, length)
   c_emu                    <-> sc62015/pysc62015/emulator.py  Emulator.decode_instruction (placeholder fallback)

   The opcode table is Gen/Tables.v (regenerated from the source each run).  No proofs in this file. *)
From Coq Require Import NArith List Bool.
From BE Require Import Model.TableTypes Gen.Tables.
Import ListNotations.
Open Scope N_scope.

Definition byte := N.

(* decoded operand, retaining the raw bytes the code retains (extra_hi, reg_raw/high4, mode bytes) *)
Inductive operand :=
  | OImm8 (v : N) | OImm16 (v : N) | OImm20 (lo mid hi : N)
  | OImmOff (neg : bool) (v : N)
  | OIMem (w : N) (n : N)
  | OReg (r : regname) (w : N) | ORegB | ORegIL | ORegIMR | ORegF | ORegPC
  | OReg3 (raw : N)
  | ORegPair (size : N) (raw : N)
  | OEMemAddr (w : N) (lo mid hi : N)
  | OEMemReg (w : N) (raw : N) (off : option N)
  | OEMemIMem (w : N) (mode : N) (n : N) (off : option N)
  | ORegIMemOff (dest_imem : bool) (raw : N) (n : N) (off : option N)
  | OEMemIMemOff (dest_int : bool) (mode : N) (n1 n2 : N) (off : option N).

Inductive rres (A : Type) :=
  | ROk (a : A) (rest : list byte)
  | RShort      (* BufferTooShort *)
  | RInvalid    (* InvalidInstruction *)
  | RAssert     (* AssertionError *)
  | RNotImpl.   (* NotImplementedError: opcode missing from the table *)
Arguments ROk {A}. Arguments RShort {A}. Arguments RInvalid {A}. Arguments RAssert {A}. Arguments RNotImpl {A}.

Definition rd_byte (bs : list byte) : rres N :=
  match bs with b :: r => ROk b r | [] => RShort end.

(* struct "H": both bytes must be present before anything is consumed *)
Definition rd_word (bs : list byte) : rres N :=
  match bs with lo :: hi :: r => ROk (lo + 256 * hi) r | _ => RShort end.

Definition bind {A B} (x : rres A) (f : A -> list byte -> rres B) : rres B :=
  match x with ROk a r => f a r | RShort => RShort | RInvalid => RInvalid | RAssert => RAssert | RNotImpl => RNotImpl end.

(* EMemRegMode(value) *)
Definition emode_of (v : N) : option emode :=
  if v =? 0 then Some EM_SIMPLE else if v =? 2 then Some EM_POST_INC else if v =? 3 then Some EM_PRE_DEC
  else if v =? 8 then Some EM_POS_OFF else if v =? 12 then Some EM_NEG_OFF else None.

Definition emode_eqb (a b : emode) : bool :=
  match a, b with
  | EM_SIMPLE, EM_SIMPLE | EM_POST_INC, EM_POST_INC | EM_PRE_DEC, EM_PRE_DEC
  | EM_POS_OFF, EM_POS_OFF | EM_NEG_OFF, EM_NEG_OFF => true
  | _, _ => false
  end.

Definition high4 (b : N) : N := (b / 16) mod 16.
Definition reg_idx (b : N) : N := b mod 8.
(* assert_r3: REG_SIZES[REG_NAMES[idx]] >= 3, i.e. X, Y, U, S (indices 4..7) *)
Definition is_r3 (b : N) : bool := 4 <=? reg_idx b.

Definition has_off (m : emode) : bool := match m with EM_POS_OFF | EM_NEG_OFF => true | _ => false end.

(* _decode_offset for the register-indirect modes *)
Definition rd_off (need : bool) (bs : list byte) : rres (option N) :=
  if need then bind (rd_byte bs) (fun v r => ROk (Some v) r) else ROk None bs.

(* allowed_modes check: AssertionError in the pinned source; the translator re-reads which *)
Definition allowed_violation : rres (option N) :=
  if py_allowed_mode_violation_is_assert then RAssert else RInvalid.

Definition check_allowed (allowed : option (list emode)) (m : emode) : bool :=
  match allowed with None => true | Some l => existsb (emode_eqb m) l end.

(* EMemIMemMode(value): 0x00, 0x80, 0xC0 *)
Definition imem_mode_ok (v : N) : bool := (v =? 0) || (v =? 128) || (v =? 192).
Definition imem_mode_has_off (v : N) : bool := (v =? 128) || (v =? 192).

Definition decode_shape (s : pshape) (bs : list byte) : rres operand :=
  match s with
  | PImm8 => bind (rd_byte bs) (fun v r => ROk (OImm8 v) r)
  | PImm16 => bind (rd_word bs) (fun v r => ROk (OImm16 v) r)
  | PImm20 =>
      bind (rd_byte bs) (fun lo r1 => bind (rd_byte r1) (fun mid r2 => bind (rd_byte r2) (fun hi r3 =>
        ROk (OImm20 lo mid hi) r3)))
  | PImmOffset neg => bind (rd_byte bs) (fun v r => ROk (OImmOff neg v) r)
  | PIMem w => bind (rd_byte bs) (fun v r => ROk (OIMem w v) r)
  | PReg r w => ROk (OReg r w) bs
  | PRegB => ROk ORegB bs | PRegIL => ROk ORegIL bs | PRegIMR => ROk ORegIMR bs
  | PRegF => ROk ORegF bs | PRegPC => ROk ORegPC bs
  | PReg3 => bind (rd_byte bs) (fun v r => ROk (OReg3 v) r)
  | PRegPair size =>
      bind (rd_byte bs) (fun v r =>
        if (N.testbit v 7) || (N.testbit v 3) then RInvalid else ROk (ORegPair size v) r)
  | PEMemAddr w =>
      bind (rd_byte bs) (fun lo r1 => bind (rd_byte r1) (fun mid r2 => bind (rd_byte r2) (fun hi r3 =>
        ROk (OEMemAddr w lo mid hi) r3)))
  | PEMemReg w allowed =>
      bind (rd_byte bs) (fun b r1 =>
        if negb (is_r3 b) then RInvalid else
        match emode_of (high4 b) with
        | None => RInvalid
        | Some m =>
            if negb (check_allowed allowed m) then bind allowed_violation (fun _ _ => RInvalid) else
            bind (rd_off (has_off m) r1) (fun off r2 => ROk (OEMemReg w b off) r2)
        end)
  | PEMemIMem w =>
      bind (rd_byte bs) (fun mode r1 => bind (rd_byte r1) (fun n r2 =>
        if negb (imem_mode_ok mode) then RInvalid else
        bind (rd_off (imem_mode_has_off mode) r2) (fun off r3 => ROk (OEMemIMem w mode n off) r3)))
  | PRegIMemOffset dest allowed =>
      bind (rd_byte bs) (fun b r1 =>
        if negb (is_r3 b) then RInvalid else
        bind (rd_byte r1) (fun n r2 =>
          match emode_of (high4 b) with
          | None => RInvalid
          | Some m =>
              if negb (check_allowed allowed m) then bind allowed_violation (fun _ _ => RInvalid) else
              bind (rd_off (has_off m) r2) (fun off r3 => ROk (ORegIMemOff dest b n off) r3)
          end))
  | PEMemIMemOffset dest =>
      bind (rd_byte bs) (fun mode r1 => bind (rd_byte r1) (fun n1 r2 => bind (rd_byte r2) (fun n2 r3 =>
        if negb (imem_mode_ok mode) then RInvalid else
        bind (rd_off (imem_mode_has_off mode) r3) (fun off r4 => ROk (OEMemIMemOff dest mode n1 n2 off) r4))))
  end.

Definition enc_off (o : option N) : list byte := match o with Some v => [v] | None => [] end.

Definition encode_op (o : operand) : list byte :=
  match o with
  | OImm8 v => [v]
  | OImm16 v => [v mod 256; (v / 256) mod 256]
  | OImm20 lo mid hi => [lo; mid; hi]             (* value & 0xFF, (value >> 8) & 0xFF, extra_hi *)
  | OImmOff _ v => [v]
  | OIMem _ n => [n]
  | OReg _ _ | ORegB | ORegIL | ORegIMR | ORegF | ORegPC => []
  | OReg3 raw => [raw]                            (* reg_raw | (high4 << 4) = reg_raw *)
  | ORegPair _ raw => [raw]
  | OEMemAddr _ lo mid hi => [lo; mid; hi]
  | OEMemReg _ raw off => raw :: enc_off off
  | OEMemIMem _ mode n off => mode :: n :: enc_off off
  | ORegIMemOff _ raw n off => raw :: n :: enc_off off
  | OEMemIMemOff _ mode n1 n2 off => mode :: n1 :: n2 :: enc_off off
  end.

(* operands_coding: physical order; reversed entries must have exactly two operands (assert) *)
Definition coding_order {A} (rev : bool) (l : list A) : option (list A) :=
  if rev then match l with [a; b] => Some [b; a] | _ => None end else Some l.

Fixpoint decode_ops (shapes : list pshape) (bs : list byte) : rres (list operand) :=
  match shapes with
  | [] => ROk [] bs
  | s :: t => bind (decode_shape s bs) (fun o r => bind (decode_ops t r) (fun os r' => ROk (o :: os) r'))
  end.

Record instr := { i_pre : option N; i_opc : N; i_ent : dentry; i_ops : list operand (* table order *); i_len : nat }.

Inductive dres := DOk (i : instr) | DShort | DInvalid | DAssert | DNotImpl.

Definition lookup (opc : N) : option dentry := nth_error py_dec_table (N.to_nat opc).

(* one turn of iter_decode on the remaining bytes; returns the instruction and the rest *)
Definition decode_one (bs : list byte) : rres instr :=
  match bs with
  | [] => RShort                                   (* decoder.peek(0) *)
  | opc :: r0 =>
      match lookup opc with
      | None => RNotImpl                           (* create_instruction returns None -> NotImplementedError *)
      | Some e =>
          match coding_order (d_rev e) (d_ops e) with
          | None => RAssert
          | Some shapes =>
              bind (decode_ops shapes r0) (fun os rest =>
                match coding_order (d_rev e) os with
                | None => RAssert
                | Some tbl => ROk {| i_pre := None; i_opc := opc; i_ent := e; i_ops := tbl;
                                     i_len := (length bs - length rest)%nat |} rest
                end)
          end
      end
  end.

Definition is_pre (i : instr) : bool := match d_cls (i_ent i) with I_PRE => true | _ => false end.

Definition fuse (p s : instr) : instr :=
  {| i_pre := Some (i_opc p); i_opc := i_opc s; i_ent := i_ent s; i_ops := i_ops s; i_len := (i_len p + i_len s)%nat |}.

(* what the lookahead of fusion() does with the next turn of iter_decode *)
Definition look_assert {A} (x : rres A) : bool := match x with RAssert => true | _ => false end.

Definition decode (bs : list byte) : dres :=
  match decode_one bs with
  | RShort => DShort
  | RInvalid => DInvalid
  | RAssert => DAssert
  | RNotImpl => DNotImpl                           (* not caught by iter_decode nor by decode() *)
  | ROk i1 r1 =>
      match decode_one r1 with
      | RAssert => DAssert
      | RShort | RInvalid | RNotImpl => DOk i1     (* StopIteration / NotImplementedError in the lookahead *)
      | ROk i2 r2 =>
          if is_pre i1 && negb (is_pre i2) then
            (if look_assert (decode_one r2) then DAssert else DOk (fuse i1 i2))
          else DOk i1
      end
  end.

Definition encode (i : instr) : option (list byte) :=
  match coding_order (d_rev (i_ent i)) (i_ops i) with
  | None => None
  | Some phys =>
      Some ((match i_pre i with Some p => [p] | None => [] end) ++ [i_opc i] ++ flat_map encode_op phys)
  end.

(* ---- consumers ---------------------------------------------------------------------------- *)
Inductive cres :=
  | CAccept (len : nat) (i : instr)
  | CReject
  | CCrash.          (* an exception the consumer does not catch would propagate *)

Definition lone_pre (i : instr) : bool := is_pre i && match i_pre i with None => true | Some _ => false end.

Fixpoint list_eqb (a b : list N) : bool :=
  match a, b with
  | [], [] => true
  | x :: xs, y :: ys => (x =? y) && list_eqb xs ys
  | _, _ => false
  end.

(* get_instruction_info: AssertionError/InvalidInstruction -> None; PRE.analyze raises InvalidInstruction;
   any other exception is logged and re-raised *)
Definition c_info (bs : list byte) : cres :=
  match decode bs with
  | DOk i => if lone_pre i then CReject else CAccept (i_len i) i
  | DNotImpl => CCrash
  | _ => CReject
  end.

(* get_instruction_text: additionally the encode/decode round-trip guard *)
Definition c_text (bs : list byte) : cres :=
  match decode bs with
  | DOk i =>
      match encode i with
      | Some e => if list_eqb e (firstn (i_len i) bs) then CAccept (i_len i) i else CReject
      | None => CReject
      end
  | DNotImpl => CCrash
  | _ => CReject
  end.

(* get_instruction_low_level_il: PRE.lift raises InvalidInstruction *)
Definition c_llil (bs : list byte) : cres :=
  match decode bs with
  | DOk i => if lone_pre i then CReject else CAccept (i_len i) i
  | DNotImpl => CCrash
  | _ => CReject
  end.

Inductive eres := EFetch (len : nat) (i : instr) | EFallback (opc : N) | ECrash.

(* Emulator.decode_instruction over memory contents `mem` starting at the fetch address *)
Definition c_emu (mem : list byte) : eres :=
  match decode mem with
  | DOk i => EFetch (i_len i) i
  | DAssert | DNotImpl => ECrash
  | _ => EFallback (hd 0 mem)
  end.
