(* Model/TempSafe.v -- definite assignment of the IL scratch registers (C07).

   temps_safe prog = true means: along every path through the lifted IL, every read of a TEMP register is preceded
   by a write of that register inside the same instruction.  The analysis (infer) is an ordinary forward
   must-dataflow; its result is validated by check, and only check is used by the soundness theorem
   (Proofs/TempProofs.v): an IL program that passes ends in the same architectural state whatever the scratch
   registers held before.  No proofs in this file. *)
From Coq Require Import ZArith NArith List Bool.
From BE Require Import Model.Regs Model.IL.
Import ListNotations.

Definition tset := list nat.

Definition mem_t (k : nat) (w : tset) : bool := existsb (Nat.eqb k) w.
Definition subset (a b : tset) : bool := forallb (fun k => mem_t k b) a.
Definition inter (a b : tset) : tset := filter (fun k => mem_t k b) a.

Definition temp_of (r : reg) : list nat := match r with gTEMP k => [k] | _ => [] end.

Fixpoint temps_of_expr (e : expr) : list nat :=
  match e with
  | EReg _ r => temp_of r
  | ELoad _ a => temps_of_expr a
  | EBin _ _ _ a b => temps_of_expr a ++ temps_of_expr b
  | ERotC _ _ _ a n c => temps_of_expr a ++ temps_of_expr n ++ temps_of_expr c
  | _ => []
  end.

Definition reads_of (st : stmt) : list nat :=
  match st with
  | SSetReg _ _ e | SSetFlag _ e | SPush _ e | SJump e | SCall e | SRet e | SExpr e => temps_of_expr e
  | SStore _ a e => temps_of_expr a ++ temps_of_expr e
  | SIf c _ _ => temps_of_expr c
  | _ => []
  end.

Definition writes_of (st : stmt) : list nat :=
  match st with SSetReg _ r _ => temp_of r | _ => [] end.

Definition all_temps : tset := seq 0 NTEMP.

(* successor program points of a statement; None = a label that does not exist (the run faults) *)
Definition succs (prog : list stmt) (pc : nat) (st : stmt) : list nat :=
  match st with
  | SIf _ t f =>
      match label_index prog t 0 None, label_index prog f 0 None with
      | Some a, Some b => [a; b]
      | Some a, None => [a]
      | None, Some b => [b]
      | None, None => []
      end
  | SGoto l => match label_index prog l 0 None with Some a => [a] | None => [] end
  | _ => [S pc]
  end.

Definition ann_at (ann : list tset) (pc : nat) : tset := nth pc ann [].

(* the annotation is consistent: entry knows nothing, every read is covered, every edge only forgets *)
Definition check_pc (prog : list stmt) (ann : list tset) (pc : nat) (st : stmt) : bool :=
  subset (reads_of st) (ann_at ann pc) &&
  forallb (fun q => subset (ann_at ann q) (writes_of st ++ ann_at ann pc)) (succs prog pc st).

Fixpoint check_from (prog all : list stmt) (ann : list tset) (pc : nat) : bool :=
  match prog with
  | [] => true
  | st :: rest => check_pc all ann pc st && check_from rest all ann (S pc)
  end.

Definition check (prog : list stmt) (ann : list tset) : bool :=
  match ann_at ann 0 with [] => check_from prog prog ann 0 | _ => false end.

(* ---- inference (unverified; its result is checked) --------------------------------------------- *)
Fixpoint set_nth {A} (l : list A) (i : nat) (v : A) : list A :=
  match l, i with
  | [], _ => []
  | _ :: t, O => v :: t
  | h :: t, S j => h :: set_nth t j v
  end.

Definition propagate (prog : list stmt) (ann : list tset) (pc : nat) (st : stmt) : list tset :=
  let out := writes_of st ++ ann_at ann pc in
  fold_left (fun a q => set_nth a q (inter (ann_at a q) out)) (succs prog pc st) ann.

Fixpoint sweep (prog all : list stmt) (ann : list tset) (pc : nat) : list tset :=
  match prog with
  | [] => ann
  | st :: rest => sweep rest all (propagate all ann pc st) (S pc)
  end.

Fixpoint iterate (n : nat) (prog : list stmt) (ann : list tset) : list tset :=
  match n with O => ann | S k => iterate k prog (sweep prog prog ann 0) end.

Definition infer (prog : list stmt) : list tset :=
  iterate (S (length prog)) prog ([] :: repeat all_temps (length prog)).

Definition temps_safe (prog : list stmt) : bool := check prog (infer prog).
