(* Model/TableTypes.v -- types of the data the translators regenerate from /repo (Gen/Tables.v).
   No proofs here. *)
From Coq Require Import NArith List String.
Import ListNotations.
Open Scope N_scope.

(* register names as the Python/Rust sources spell them *)
Inductive regname :=
  | RA | RB | RBA | RIL | RIH | RI | RX | RY | RU | RS | RF | RPC | RFC | RFZ | RIMR.

(* IntAddrCalc / AddressingMode *)
Inductive imode := IM_N | IM_BP_N | IM_PX_N | IM_PY_N | IM_BP_PX | IM_BP_PY.

(* EMemRegMode *)
Inductive emode := EM_SIMPLE | EM_POST_INC | EM_PRE_DEC | EM_POS_OFF | EM_NEG_OFF.

Inductive cond := CZ | CNZ | CC | CNC.

(* Python instruction classes (sc62015/pysc62015/instr/instructions.py) *)
Inductive icls :=
  | I_NOP | I_RETI | I_JP_Abs | I_JP_Rel | I_CALL | I_RET | I_RETF | I_MV | I_MVL | I_MVLD | I_PRE
  | I_PUSHU | I_POPU | I_PUSHS | I_POPS | I_ADD | I_ADC | I_SUB | I_SBC | I_ADCL | I_SBCL
  | I_DADL | I_DSBL | I_AND | I_OR | I_XOR | I_TEST | I_CMP | I_CMPW | I_CMPP
  | I_ROR | I_ROL | I_SHL | I_SHR | I_DSLL | I_DSRL | I_INC | I_DEC | I_EX | I_EXL
  | I_WAIT | I_PMDF | I_SWAP | I_SC | I_RC | I_TCL | I_HALT | I_OFF | I_IR | I_RESET | I_Unknown.

(* Opts(name=...) overrides that occur in the table *)
Inductive optname := ON_JPF | ON_CALLF | ON_MVW | ON_MVP | ON_EXW | ON_EXP.

(* Python operand classes with their constructor parameters (opcodes.py) *)
Inductive pshape :=
  | PImm8 | PImm16 | PImm20
  | PImmOffset (neg : bool)
  | PIMem (w : N)                       (* IMem8 / IMem16 / IMem20: w = 1,2,3 *)
  | PReg (r : regname) (w : N)          (* Reg("A") ... width from REG_SIZES *)
  | PRegB | PRegIL | PRegIMR | PRegF | PRegPC
  | PReg3
  | PRegPair (size : N)
  | PEMemAddr (w : N)
  | PEMemReg (w : N) (allowed : option (list emode))
  | PEMemIMem (w : N)
  | PRegIMemOffset (dest_imem : bool) (allowed : option (list emode))
  | PEMemIMemOffset (dest_int : bool).

(* decoder view of a table entry (no strings: this is what the extracted model carries) *)
Record dentry := {
  d_opc : N; d_cls : icls; d_optname : option optname; d_cond : option cond; d_rev : bool; d_ops : list pshape
}.

Record pentry := {
  p_opc : N; p_cls : icls; p_optname : option optname; p_cond : option cond;
  p_rev : bool; p_ops : list pshape;
  p_clsname : string;              (* class __name__, for C17's comparison with the Rust `name` *)
  p_optname_s : option string      (* Opts.name as written *)
}.

Definition strip (p : pentry) : dentry :=
  {| d_opc := p_opc p; d_cls := p_cls p; d_optname := p_optname p; d_cond := p_cond p; d_rev := p_rev p; d_ops := p_ops p |}.

(* Rust side (sc62015/core/src/llama/opcodes.rs) *)
Inductive rkind :=
  | K_Nop | K_Ret | K_RetI | K_RetF | K_JpAbs | K_JpRel | K_Pre | K_Mv | K_PushU | K_PopU | K_PushS | K_PopS
  | K_Unknown | K_Add | K_Sub | K_Adc | K_Sbc | K_Pmdf | K_Mvl | K_Sbcl | K_Cmp | K_Test | K_Xor | K_Inc | K_Dec
  | K_And | K_Or | K_Sc | K_Rc | K_Ex | K_Exl | K_Dadl | K_Cmpw | K_Cmpp | K_Mvw | K_Mvp | K_Mvld | K_Dsbl
  | K_Ror | K_Rol | K_Dsll | K_Dsrl | K_Shr | K_Shl | K_Swap | K_Wait | K_Halt | K_Off | K_Tcl | K_Ir | K_Reset | K_Call.

Inductive rshape :=
  | RReg (r : regname) (bits : N)
  | RImm (bits : N)
  | RImmOffset
  | RIMem (bits : N)
  | REMemAddr (bits : N)
  | REMemReg (bits : N)
  | REMemIMem (bits : N)
  | REMemImemOffsetDestIntMem
  | REMemImemOffsetDestExtMem
  | REMemRegModePostPre
  | REMemAddrWidth (bytes : N)
  | REMemAddrWidthOp (bytes : N)
  | REMemRegWidth (bytes : N)
  | REMemRegWidthMode (bytes : N)
  | REMemIMemWidth (bytes : N)
  | RIMemWidth (bytes : N)
  | RRegPair (size : N)
  | RRegIMemOffset (dest_imem : bool)
  | RRegB | RRegIL | RRegIMR | RRegF | RReg3
  | RUnknownOp
  | RPlaceholder
  | RImemPtr.

Record rentry := {
  r_opc : N; r_kind : rkind; r_name : string; r_cond : option cond; r_rev : bool; r_ops : list rshape
}.

(* view segments: name, start, length *)
Record segment := { seg_name : string; seg_start : N; seg_len : N }.
