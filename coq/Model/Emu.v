(* Model/Emu.v -- Emulator.execute_instruction over a flat memory: fetch + decode (Model/Decode.v c_emu),
   lift (Model/Lift.v), evaluate (Model/IL.v).  Also the plumbing the extracted driver uses to build a state
   from a case line.  No proofs in this file. *)
From Coq Require Import ZArith NArith List Bool.
From BE Require Import Model.TableTypes Gen.Tables Model.Regs Model.Decode Model.IL Model.Lift Model.TempSafe.
Import ListNotations.
Open Scope Z_scope.

(* memory image of a test case: listed bytes, elsewhere a fixed pseudo-random fill (or zeros) *)
Fixpoint assoc (fill : Z) (l : list (Z * Z)) (a : Z) : Z :=
  match l with
  | [] => if fill =? 0 then 0 else (a * 167 + fill * 13) mod 256
  | (k, v) :: t => if a =? k then v else assoc fill t a
  end.

Definition mk_state (ba i x y u sp f : N) (temps : list N) (m : list (Z * Z)) (fill : Z) : mstate :=
  {| rg := {| y_ba := ba; y_i := i; y_x := x; y_y := y; y_u := u; y_s := sp; y_pc := 0; y_f := f; y_t := temps |};
     mem := assoc fill m; halted := false; rlog := []; wlog := [] |}.

Fixpoint fetch (n : nat) (m : Z -> Z) (a : Z) : list N :=
  match n with
  | O => []
  | S n' => Z.to_N (m a) :: fetch n' m (a + 1)
  end.

(* longest instruction with prefix is 7 bytes; the fusion lookahead decodes up to two more instructions *)
Definition FETCH_WINDOW : nat := 24.

Definition exec_at (addr : Z) (s : mstate) : xres :=
  let bytes := fetch FETCH_WINDOW (mem s) addr in
  match c_emu bytes with
  | EFetch _ i => exec_decoded i (hd 0%N bytes) addr s
  | EFallback _ =>
      (* _FallbackInstruction: lift = NOP, length 1 (0xEF always decodes, so no fast path here) *)
      XOk (setr (setr s gPC (Z.land addr (Z.of_N py_pc_mask))) gPC (addr + 1))
  | ECrash => XLiftError
  end.

(* run n instructions from the current PC (CPU stepping as Emulator users do it: execute_instruction(regs.PC)) *)
Fixpoint steps (n : nat) (s : mstate) : xres :=
  match n with
  | O => XOk s
  | S n' =>
      match exec_at (getr s gPC) s with
      | XOk s1 => steps n' s1
      | r => r
      end
  end.

Definition dedup_sorted_insert (a : Z) (l : list Z) : list Z :=
  (fix ins (l : list Z) : list Z :=
     match l with
     | [] => [a]
     | h :: t => if a =? h then l else if a <? h then a :: l else h :: ins t
     end) l.
Definition sort_uniq (l : list Z) : list Z := fold_right dedup_sorted_insert [] l.

(* observation: PC BA I X Y U S F, halted, temps *)
Definition obs_regs (s : mstate) : list N :=
  map (py_get (rg s)) [gPC; gBA; gI; gX; gY; gU; gS; gF].
Definition obs_writes (s : mstate) : list (Z * Z) := map (fun a => (a, mem s a)) (sort_uniq (wlog s)).

(* does the IL lifted for this instruction write every scratch register before reading it (Model/TempSafe.v)? *)
Definition instr_temps_safe (i : instr) (addr : Z) : bool :=
  match lift_instr i addr with Some prog => temps_safe prog | None => true end.
