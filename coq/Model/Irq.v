(* Model/Irq.v -- taking an interrupt (property C12).

   irq_gate     the documented condition: master enable IMR.7 set and an enabled source pending (IMR & ISR & 0x0F)
   py_gate      what PCE500Emulator.step uses: KEY/ON-key requests (ISR bits 2,3) count as enabling the master bit
   irq_deliver  the frame both implementations push (pce500/emulator.py step, core lib.rs deliver_pending_irq):
                PC (3 bytes), F, IMR below the system stack pointer, IMR.7 cleared, PC := vector at 0xFFFFA
   No proofs in this file. *)
From Coq Require Import ZArith NArith List Bool.
From BE Require Import Gen.Tables Model.Regs Model.IL Model.Static.
Import ListNotations.
Open Scope Z_scope.

Definition irq_gate (imr isr : Z) : bool :=
  Z.testbit imr 7 && negb (Z.land (Z.land imr isr) 15 =? 0).

Definition py_gate (imr isr : Z) : bool :=
  (Z.testbit imr 7 || negb (Z.land isr 12 =? 0)) && negb (Z.land imr isr =? 0).

Definition irq_deliver (s : mstate) : mstate :=
  let pc := getr s gPC in
  let sp := getr s gS in
  let s1 := setr (store 3 s (sp - 3) pc) gS (sp - 3) in
  let s2 := setr (store 1 s1 (sp - 4) (getr s gF)) gS (sp - 4) in
  let imr := mem s imr_cell in
  let s3 := setr (store 1 s2 (sp - 5) imr) gS (sp - 5) in
  let s4 := store 1 s3 imr_cell (Z.land imr 127) in
  setr s4 gPC (le_val s (Z.of_N py_interrupt_vector) 3).
