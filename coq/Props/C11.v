(* Property C11 -- the memory bus behaves like memory: separate spaces, immutable ROM, little-endian words.
   A bus is an address-to-cell map for reads (rt) and writes (wt) that depends on the configuration only, over
   a store of cells.  The generic laws hold for ANY such maps, hence for both modelled buses; the model-specific
   theorems say which cells the real maps produce. *)
From Coq Require Import NArith List Bool.
From BE Require Import Model.MemBus Proofs.MemProofs.
Import ListNotations.
Open Scope N_scope.

(* a byte written to a location is what is next read from it; no other location changes; a swallowed write
   changes nothing; all aliases read the same value *)
Theorem C11_bus_laws : forall cfg rt wt,
  (forall s a v c, wt a = WCell c -> rt a = RCell c -> bread cfg rt (bwrite wt s a v) a = v mod 256) /\
  (forall s a v c b, wt a = WCell c -> rt b <> RCell c -> bread cfg rt (bwrite wt s a v) b = bread cfg rt s b) /\
  (forall s a v b, wt a = WSwallow -> bread cfg rt (bwrite wt s a v) b = bread cfg rt s b) /\
  (forall s a b, rt a = rt b -> bread cfg rt s a = bread cfg rt s b).
Proof.
  intros cfg rt wt. split; [exact (read_after_write cfg rt wt)|].
  split; [exact (write_frame cfg rt wt)|]. split; [exact (write_swallowed cfg rt wt)|exact (aliases_agree cfg rt)].
Qed.
Print Assumptions C11_bus_laws.

(* after ANY sequence of byte writes every cell holds the value of the last write that targeted it, else its
   initial contents (induction over the sequence) *)
Theorem C11_writes_are_a_map : forall cfg wt ws s c,
  rd_cell cfg (fold_left (fun st w => bwrite wt st (fst w) (snd w)) ws s) c =
  match last_write wt ws c None with Some v => v | None => rd_cell cfg s c end.
Proof. intros cfg wt. exact (writes_are_a_map cfg wt). Qed.
Print Assumptions C11_writes_are_a_map.

(* canonical form, part 1: 24-bit wrap on both buses *)
Theorem C11_wrap24 : forall cfg a k,
  (py_rt cfg (a + 16777216 * k) = py_rt cfg a /\ py_wt cfg (a + 16777216 * k) = py_wt cfg a) /\
  (rs_rt cfg (a + 16777216 * k) = rs_rt cfg a /\ rs_wt cfg (a + 16777216 * k) = rs_wt cfg a).
Proof. intros. split; [apply py_wrap24|apply rs_wrap24]. Qed.
Print Assumptions C11_wrap24.

(* canonical form, part 2 (Rust): the documented mirror window folds onto the internal RAM block, idempotently *)
Theorem C11_mirror_fold : forall cfg a, mirror cfg = true -> 524288 <= a <= 786431 ->
  rs_mirror cfg a = 753664 + a mod 32768 /\ rs_mirror cfg (rs_mirror cfg a) = rs_mirror cfg a.
Proof. exact rs_mirror_fold. Qed.
Print Assumptions C11_mirror_fold.

(* plain RAM: read and write of an address target the same canonical cell on both buses *)
Theorem C11_plain_ram :
  (forall cfg a, a mod 16777216 < 1048576 ->
     (forall o, In o (card_slot :: ovls cfg) -> contains o (a mod 16777216) = false) ->
     py_rt cfg a = RCell (CExt (a mod 16777216)) /\ py_wt cfg a = WCell (CExt (a mod 16777216))) /\
  (forall cfg a, internal_index (a mod 16777216) = None ->
     rs_ovl_r (rs_sorted cfg) (a mod 16777216) = None -> rs_ovl_w (rs_sorted cfg) (a mod 16777216) = None ->
     in_ro cfg (rs_mirror cfg (a mod 16777216)) 1 = false ->
     rs_rt cfg a = RCell (CExt (rs_mirror cfg (a mod 16777216) mod 1048576)) /\
     rs_wt cfg a = WCell (CExt (rs_mirror cfg (a mod 16777216) mod 1048576))).
Proof. exact (conj py_plain_ram rs_plain_ram). Qed.
Print Assumptions C11_plain_ram.

(* ROM overlays and read-only windows never change what is read: no address, on either bus, ever has a cell of
   a read-only overlay as its write target; Rust read-only ranges swallow *)
Theorem C11_rom_immutable :
  (forall cfg a id off, all_ro (ovls cfg) id -> id <> 0 -> py_wt cfg a <> WCell (COvl id off)) /\
  (forall cfg a id off, all_ro (ovls cfg) id -> rs_wt cfg a <> WCell (COvl id off)) /\
  (forall cfg a, internal_index (a mod 16777216) = None -> rs_ovl_w (rs_sorted cfg) (a mod 16777216) = None ->
     in_ro cfg (rs_mirror cfg (a mod 16777216)) 1 = true -> rs_wt cfg a = WSwallow).
Proof. exact (conj py_rom_immutable (conj rs_rom_immutable rs_readonly_range_swallows)). Qed.
Print Assumptions C11_rom_immutable.

(* Rust: the 256-byte internal memory and the external space never alias each other *)
Theorem C11_rs_spaces_disjoint : forall cfg a k,
  (rs_rt cfg a = RCell (CInt k) <-> internal_index (a mod 16777216) = Some k) /\
  (rs_wt cfg a = WCell (CInt k) <-> internal_index (a mod 16777216) = Some k).
Proof. exact rs_spaces_disjoint. Qed.
Print Assumptions C11_rs_spaces_disjoint.

(* FULL STATEMENT for Python (the property): an internal address and an external address never share a cell.
   It is false of the current tree (known finding, Props/C11_refuted.v): Python keeps the internal bytes in the
   last 256 bytes of the external array.  Proved: that is exactly where they live. *)
Theorem C11_py_internal_cell_partial : forall cfg a, 1048576 <= a mod 16777216 ->
  py_rt cfg a = RCell (CExt (1048320 + (a mod 16777216 - 1048576) mod 256)) /\
  py_wt cfg a = WCell (CExt (1048320 + (a mod 16777216 - 1048576) mod 256)).
Proof. exact py_internal_cell. Qed.
Print Assumptions C11_py_internal_cell_partial.

(* multi-byte accesses are the little-endian composition of byte accesses: Python by construction for every
   address; Rust inside the internal block (the general Rust statement is false: Props/C11_refuted.v) *)
Theorem C11_multibyte_le :
  (forall cfg s a,
     py_load cfg s a 2 = py_read cfg s a + 256 * py_read cfg s (a + 1) /\
     py_load cfg s a 3 = py_read cfg s a + 256 * (py_read cfg s (a + 1) + 256 * py_read cfg s (a + 2))) /\
  (forall cfg s a v, py_store cfg s a v 2 = py_write cfg (py_write cfg s a v) (a + 1) (v / 256)) /\
  (forall cfg s a k, internal_index (a mod 16777216) = Some k -> k + 2 <= 256 ->
     rs_load cfg s a 16 = rs_read cfg s a + 256 * rs_read cfg s (a mod 16777216 + 1)).
Proof. exact (conj py_load_le (conj py_store_le rs_load_internal_le)). Qed.
Print Assumptions C11_multibyte_le.

Definition ex_cfg : config :=
  {| ovls := [{| o_start := 786432; o_end := 1048575; o_id := 1; o_kind := KData 262144 true |};
              {| o_start := 8192; o_end := 8447; o_id := 2; o_kind := KData 256 false |}];
     card_present := true; card_writable := true; card_len := 8192; mirror := true; ro_ranges := [(4096, 4100)] |}.

Example C11_example :
  py_run ex_cfg [] [MStore 100 16 43981; MLoad 100 16; MStore 8200 8 7; MLoad 8200 8; MStore 786500 8 1; MLoad 786500 8;
                    MStore 1048826 8 90; MLoad 1048570 8]
  = [0; 43981; 0; 7; 0; rom_byte 1 68; 0; rom_byte 1 262138] /\
  rs_run ex_cfg [] [MStore 557055 8 18; MLoad 786431 8; MStore 4097 8 5; MLoad 4097 8] = [0; 18; 0; 0].
Proof. vm_compute. split; reflexivity. Qed.
