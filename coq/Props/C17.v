(* Property C17 -- every copy of the architecture's tables and constants says the same thing.
   All statements are decidable facts about the tables regenerated from the working tree on this
   run (Gen/Tables.v); each is closed by vm_compute, i.e. the finite space is compared completely. *)
From Coq Require Import NArith List String Bool.
From BE Require Import Model.TableTypes Gen.Tables Proofs.TablesProofs.
Import ListNotations.
Open Scope N_scope.

(* 256 entries, opcode i at index i, on both sides *)
Theorem C17_opcode_tables_complete :
  List.length py_opcodes = 256%nat /\ List.length rs_opcodes = 256%nat /\
  opcodes_in_order 0 (map p_opc py_opcodes) = true /\ opcodes_in_order 0 (map r_opc rs_opcodes) = true.
Proof. vm_compute. repeat split; reflexivity. Qed.
Print Assumptions C17_opcode_tables_complete.

(* kind, name, condition, reversed flag and operand shapes/widths of all 256 entries agree under
   the documented Python->Rust mapping (entry_to_rust).
   FULL STATEMENT (the property):   opcode_tables_agree_b py_opcodes rs_opcodes = true.
   It is false of the current tree (known finding, see Props/C17_refuted.v and known_findings.json):
   the Rust table gives MV [(n)],r2/r3 (opcodes BA..BE) an operand width of 1 byte where the Python
   table says 2/3.  Proved here: every entry outside exactly that list agrees, and the list of
   differing opcodes is exactly the listed one (so any further drift breaks this theorem). *)
Definition C17_known_drift : list N := [186; 187; 188; 189; 190].
Theorem C17_opcode_tables_agree_partial :
  opcode_tables_agree_except C17_known_drift py_opcodes rs_opcodes = true /\
  (differing_opcodes py_opcodes rs_opcodes = [] \/ differing_opcodes py_opcodes rs_opcodes = C17_known_drift).
Proof. vm_compute. split; [reflexivity | (left; reflexivity) || (right; reflexivity)]. Qed.
Print Assumptions C17_opcode_tables_agree_partial.

(* PRE prefix tables: same (opcode, first, second) triples; the opcodes are distinct and are exactly
   the opcodes whose table entry is the PRE class; the reverse table inverts the forward table *)
Theorem C17_pre_tables_agree :
  same_set pre_eqb py_pre_table rs_pre_table = true /\
  nodup_N (map (fun e => fst (fst e)) py_pre_table) = true /\
  same_set N.eqb (map (fun e => fst (fst e)) py_pre_table) (pre_opcodes_of_table py_opcodes) = true /\
  same_set pre_eqb py_pre_table (map (fun e => (snd e, fst (fst e), snd (fst e))) py_reverse_pre_table) = true.
Proof. vm_compute. repeat split; reflexivity. Qed.
Print Assumptions C17_pre_tables_agree.

Theorem C17_single_addressable_agree :
  same_set N.eqb py_single_addressable rs_single_addressable = true /\ nodup_N py_single_addressable = true.
Proof. vm_compute. split; reflexivity. Qed.
Print Assumptions C17_single_addressable_agree.

(* register widths: Binary Ninja architecture, decoder (REG_SIZES), emulator (REGISTER_SIZE), Rust masks, and the width each
   register shows when all-ones is written to the Python register file and read back (probed by the translator on every run) *)
Theorem C17_register_sizes_agree :
  sizes_agree_on (arch_sizes py_regs_arch) py_reg_sizes_emulator = true /\
  sizes_cover (arch_sizes py_regs_arch) py_reg_sizes_emulator = true /\
  sizes_agree_on py_reg_sizes_opcodes py_reg_sizes_emulator = true /\
  sizes_cover py_reg_sizes_opcodes py_reg_sizes_emulator = true /\
  rust_masks_agree py_pc_mask py_reg_sizes_emulator py_subregs_emulator rs_reg_masks = true /\
  probed_masks_agree py_probed_masks rs_reg_masks = true /\
  py_pc_mask = 2 ^ 20 - 1 /\
  forallb (fun s => 2 ^ (8 * s) - 1 =? rs_temp_mask) py_temp_sizes = true.
Proof. vm_compute. repeat split; reflexivity. Qed.
Print Assumptions C17_register_sizes_agree.

(* sub-register layout: A/B low/high byte of BA, IL/IH of I, in the architecture and in the emulator *)
Theorem C17_subregister_layout_agrees :
  subreg_layout_agrees py_regs_arch py_subregs_emulator = true /\ py_arch_stack_pointer = RS /\ py_arch_address_size = 3.
Proof. vm_compute. repeat split; reflexivity. Qed.
Print Assumptions C17_subregister_layout_agrees.

Theorem C17_imem_offsets_agree : imem_offsets_agree_b py_imem_aliases rs_imem_offsets = true.
Proof. vm_compute. reflexivity. Qed.
Print Assumptions C17_imem_offsets_agree.

(* interrupt vector (three copies) and the reset-vector constants *)
Theorem C17_vectors_agree :
  py_interrupt_vector = rs_interrupt_vector /\ rs_interrupt_vector = rs_interrupt_vector_runtime /\
  py_entry_point = rs_reset_vector.
Proof. vm_compute. repeat split; reflexivity. Qed.
Print Assumptions C17_vectors_agree.

Theorem C17_address_space_agree :
  py_internal_memory_start = rs_internal_memory_start /\
  py_internal_memory_length = rs_internal_space /\
  py_address_space_size = rs_external_space + rs_internal_space /\
  py_internal_memory_start = rs_external_space /\
  rs_internal_addr_mask = rs_internal_space - 1 /\
  rs_address_mask = 2 ^ 24 - 1.
Proof. vm_compute. repeat split; reflexivity. Qed.
Print Assumptions C17_address_space_agree.

(* Binary Ninja views: segments pairwise disjoint, inside the address space, internal RAM where the lifter puts it *)
Theorem C17_segments_disjoint_inside :
  segments_ok py_address_space_size py_internal_memory_start py_internal_memory_length rom_view_segments = true /\
  segments_ok py_address_space_size py_internal_memory_start py_internal_memory_length full_view_segments = true.
Proof. vm_compute. split; reflexivity. Qed.
Print Assumptions C17_segments_disjoint_inside.

(* snapshot register blob layout identical in both implementations (also used by C08/C16) *)
Theorem C17_snapshot_layouts_equal : layout_eqb py_snapshot_layout rs_snapshot_layout = true.
Proof. vm_compute. reflexivity. Qed.
Print Assumptions C17_snapshot_layouts_equal.
