(* Property C07 -- an instruction's effect depends only on architectural state.
   Statements only; proofs are in Proofs/TempProofs.v, Proofs/TempSweep_*.v, Proofs/LockstepProofs.v. *)
From Coq Require Import ZArith NArith List Bool.
From BE Require Import Model.TableTypes Gen.Tables Model.Regs Model.Decode Model.IL Model.Lift Model.TempSafe Model.Emu
  Proofs.TempProofs Proofs.TempSweepDefs Proofs.LockstepProofs
  Proofs.TempSweep_none Proofs.TempSweep_33 Proofs.TempSweep_34 Proofs.TempSweep_35 Proofs.TempSweep_36 Proofs.TempSweep_37
  Proofs.TempSweep_38 Proofs.TempSweep_39 Proofs.TempSweep_48 Proofs.TempSweep_49 Proofs.TempSweep_50 Proofs.TempSweep_51
  Proofs.TempSweep_52 Proofs.TempSweep_53 Proofs.TempSweep_54 Proofs.TempSweep_55.
Import ListNotations.

(* soundness of the definite-assignment check: an IL program that passes it, run from two states that agree on
   every architectural register, flag, memory byte and the low-power flag but hold ARBITRARY scratch registers,
   ends in states that agree architecturally (or fails / runs out of fuel in both) - any fuel, loops included *)
Theorem C07_scratch_independence_of_checked_il : forall prog, temps_safe prog = true ->
  forall fuel s1 s2, agree [] s1 s2 -> rres_agree (run fuel prog 0 s1) (run fuel prog 0 s2).
Proof. exact temps_safe_sound. Qed.
Print Assumptions C07_scratch_independence_of_checked_il.

(* the same for one instruction as the emulator executes it (PC update, WAIT fast path, state-dependent fuel) *)
Theorem C07_instruction_independent_of_scratch : forall i b addr s1 s2,
  instr_temps_safe i addr = true -> agree [] s1 s2 ->
  xres_agree (exec_decoded i b addr s1) (exec_decoded i b addr s2).
Proof. exact exec_temp_independent. Qed.
Print Assumptions C07_instruction_independent_of_scratch.

(* every lift writes a temp before reading it: for no prefix and for each of the 15 prefix bytes, every opcode and
   every second byte (the only byte that selects registers and addressing modes; remaining operand bytes zero),
   the decoded instruction's IL passes the check.  Encodings with other immediates are validated on every run
   by the same extracted function (checks/c07.py, command tsafe). *)
Theorem C07_every_lift_writes_scratch_before_reading : forall pre opc b2,
  In pre [[]; [33]; [34]; [35]; [36]; [37]; [38]; [39]; [48]; [49]; [50]; [51]; [52]; [53]; [54]; [55]]%N ->
  (opc < 256)%N -> (b2 < 256)%N -> safe_bytes (pre ++ [opc; b2] ++ tail0) = true.
Proof.
  intros pre opc b2 Hin.
  assert (H : sweep_pre pre = true).
  { cbn [In] in Hin.
    repeat (destruct Hin as [Hin|Hin];
            [subst pre;
             lazymatch goal with
             | |- sweep_pre [] = true => exact sweep_none
             | |- sweep_pre [33%N] = true => exact sweep_33 | |- sweep_pre [34%N] = true => exact sweep_34
             | |- sweep_pre [35%N] = true => exact sweep_35 | |- sweep_pre [36%N] = true => exact sweep_36
             | |- sweep_pre [37%N] = true => exact sweep_37 | |- sweep_pre [38%N] = true => exact sweep_38
             | |- sweep_pre [39%N] = true => exact sweep_39 | |- sweep_pre [48%N] = true => exact sweep_48
             | |- sweep_pre [49%N] = true => exact sweep_49 | |- sweep_pre [50%N] = true => exact sweep_50
             | |- sweep_pre [51%N] = true => exact sweep_51 | |- sweep_pre [52%N] = true => exact sweep_52
             | |- sweep_pre [53%N] = true => exact sweep_53 | |- sweep_pre [54%N] = true => exact sweep_54
             | |- sweep_pre [55%N] = true => exact sweep_55
             end|]).
    destruct Hin. }
  exact (sweep_pre_all pre H opc b2).
Qed.
Print Assumptions C07_every_lift_writes_scratch_before_reading.

(* the prefix list above is the set of PRE opcodes of the regenerated table *)
Theorem C07_prefixes_are_the_table :
  map (fun x => fst (fst x)) py_pre_table = [33; 34; 35; 36; 37; 38; 39; 48; 49; 50; 51; 52; 53; 54; 55]%N.
Proof. vm_compute. reflexivity. Qed.
Print Assumptions C07_prefixes_are_the_table.

(* running N+M instructions is running N and then M from the state reached (the model keeps no hidden state) *)
Theorem C07_run_splits : forall n m s,
  steps (n + m) s = match steps n s with XOk s1 => steps m s1 | r => r end.
Proof. exact steps_compose. Qed.
Print Assumptions C07_run_splits.

(* non-vacuity: DADL (BP+10),(BP+20) uses seven scratch registers; with all of them 0xABCDEF or all of them 0
   the architectural result is the same *)
Example C07_example :
  let i := match decode [196; 16; 32; 0; 0; 0; 0; 0]%N with DOk i => Some i | _ => None end in
  match i with
  | Some i =>
      instr_temps_safe i 4096 = true /\
      match exec_decoded i 196 4096 (mk_state 0 2 0 0 0 0 1 (repeat 11259375%N 14) [(1048592, 153); (1048608, 1)]%Z 0),
            exec_decoded i 196 4096 (mk_state 0 2 0 0 0 0 1 (repeat 0%N 14) [(1048592, 153); (1048608, 1)]%Z 0) with
      | XOk a, XOk b => obs_regs a = obs_regs b /\ obs_writes a = obs_writes b
      | _, _ => False
      end
  | None => False
  end.
Proof. vm_compute. repeat split. Qed.
