(* Property C05 -- branch metadata given to Binary Ninja matches where execution goes.
   Statements only; proofs are in Proofs/BranchProofs.v, BranchProofs2.v and CallProofs.v.  analyze = Model/Static.v (tied to
   SC62015.get_instruction_info on every run); execution = Model/Lift.v exec_decoded. *)
From Coq Require Import ZArith NArith List Bool.
From BE Require Import Model.TableTypes Gen.Tables Model.Regs Model.Decode Model.IL Model.Lift Model.Static Model.Spec
  Model.Irq Proofs.ExecProofs Proofs.BranchProofs Proofs.AccessProofs Proofs.IrqProofs Proofs.CallProofs Proofs.ExecMemProofs Proofs.BranchProofs2.
Import ListNotations.
Open Scope Z_scope.

(* relative jumps JR / JRZ / JRNZ / JRC / JRNC, +n and -n, every displacement, every address, every state:
   the reported branches are fall-through = address+2 and taken = address+2+-n, and execution ends with PC equal
   (after the 20-bit mask of the register) to the taken target exactly when the condition holds, to the
   fall-through otherwise; every other register, the flags and memory are untouched *)
Theorem C05_relative_jumps : forall opc neg cc n addr s, In (opc, neg, cc) jr_opcodes ->
  analyze (mk_instr opc [OImmOff neg n] 2) addr =
    Some {| b_len := 2;
            b_branches := match cc with
                          | Some _ => [(BFalse, Some (addr + 2)); (BTrue, Some (addr + 2 + soff neg n))]
                          | None => [(BUncond, Some (addr + 2 + soff neg n))]
                          end |} /\
  exec_decoded (mk_instr opc [OImmOff neg n] 2) opc addr s =
    XOk (setr (setr s gPC (Z.land addr (Z.of_N py_pc_mask))) gPC
              (if cond_holds cc s then addr + 2 + soff neg n else addr + 2)).
Proof. intros. split; [apply jr_analyze; assumption | apply jr_exec; assumption]. Qed.
Print Assumptions C05_relative_jumps.

(* absolute 16-bit jumps JP / JPZ / JPNZ / JPC / JPNC mn: the target keeps the 64K page of the instruction *)
Theorem C05_absolute_jumps : forall opc cc v addr s, In (opc, cc) jp16_opcodes ->
  analyze (mk_instr opc [OImm16 v] 3) addr =
    Some {| b_len := 3;
            b_branches := match cc with
                          | Some _ => [(BFalse, Some (addr + 3)); (BTrue, Some (jp16_target addr v))]
                          | None => [(BUncond, Some (jp16_target addr v))]
                          end |} /\
  exec_decoded (mk_instr opc [OImm16 v] 3) opc addr s =
    XOk (setr (setr s gPC (Z.land addr (Z.of_N py_pc_mask))) gPC
              (if cond_holds cc s then jp16_target addr v else addr + 3)).
Proof. intros. split; [apply jp16_analyze; assumption | apply jp16_exec; assumption]. Qed.
Print Assumptions C05_absolute_jumps.

(* the opcode lists those theorems quantify over are the JR / JP entries of the regenerated table *)
Theorem C05_opcodes_are_the_tables :
  forallb (fun x => let '(opc, neg, cc) := x in
    match d_cls (entry_of opc), d_ops (entry_of opc) with
    | I_JP_Rel, [PImmOffset ng] => Bool.eqb ng neg
    | _, _ => false
    end &&
    match d_cond (entry_of opc), cc with
    | None, None | Some CZ, Some CZ | Some CNZ, Some CNZ | Some CC, Some CC | Some CNC, Some CNC => true
    | _, _ => false
    end) jr_opcodes = true /\
  forallb (fun x => let '(opc, cc) := x in
    match d_cls (entry_of opc), d_ops (entry_of opc) with I_JP_Abs, [PImm16] => true | _, _ => false end &&
    match d_cond (entry_of opc), cc with
    | None, None | Some CZ, Some CZ | Some CNZ, Some CNZ | Some CC, Some CC | Some CNC, Some CNC => true
    | _, _ => false
    end) jp16_opcodes = true.
Proof. exact (conj jr_table_check jp16_table_check). Qed.
Print Assumptions C05_opcodes_are_the_tables.

(* the remaining jump forms.  JPF lmn: reported target = executed target = the 20-bit immediate, for every operand and state.
   JP r3: the plugin reports an unresolved indirect branch (no target is claimed) and execution loads PC from the register the
   low three bits of the operand byte select - the whole 20-bit value of X, Y, U, S; for the 8/16-bit registers A, IL, BA, I the
   value supplies the low bits and the page of the instruction is kept - and nothing else changes; every operand byte is covered.
   JP (n), no prefix and each of the 15 prefixes: unresolved branch reported; PC := the 3-byte little-endian content of the
   cell the prefix's mode names, 20 bits kept (the documented effect), nothing else architectural changes *)
Theorem C05_far_and_indirect_jumps :
  (forall lo mid hi addr s,
     analyze (mk_instr 3 [OImm20 lo mid hi] 4) addr = Some {| b_len := 4; b_branches := [(BUncond, Some (Z.of_N (imm20 lo mid hi)))] |} /\
     exec_decoded (mk_instr 3 [OImm20 lo mid hi] 4) 3 addr s =
       XOk (setr (setr s gPC (Z.land addr (Z.of_N py_pc_mask))) gPC (Z.of_N (imm20 lo mid hi)))) /\
  (forall raw addr s, exists k r w, In (k, r, w) jp_regs /\ (raw mod 8 = k)%N /\
     analyze (mk_instr 17 [OReg3 raw] 2) addr = Some {| b_len := 2; b_branches := [(BUnresolved, None)] |} /\
     exec_decoded (mk_instr 17 [OReg3 raw] 2) 17 addr s =
       XOk (setr (setr s gPC (Z.land addr (Z.of_N py_pc_mask))) gPC (jp_r3_target addr s r w))) /\
  (forall c, In c pre_choices -> forall n, (n < 256)%N -> forall addr s, mem_wf s ->
     analyze (mk_pre c 16 [OIMem 3 n] 2) addr <> None /\
     exists s' t, exec_decoded (mk_pre c 16 [OIMem 3 n] 2) (first_byte c 16) addr s = XOk s' /\
                  spec_exec (mk_pre c 16 [OIMem 3 n] 2) addr s = Some t /\ arch_eq s' t) /\
  map (fun o => (d_cls (entry_of o), d_ops (entry_of o), d_cond (entry_of o))) [3; 16; 17]%N =
    [(I_JP_Abs, [PImm20], None); (I_JP_Abs, [PIMem 3], None); (I_JP_Abs, [PReg3], None)].
Proof.
  split; [intros; split; [apply jpf_analyze | apply jpf_exec]|].
  split; [intros raw addr s; destruct (jp_regs_cover raw) as (k & r & w & Hin & Hk); exists k, r, w;
          split; [exact Hin|split; [exact Hk|split; [exact (jp_r3_analyze raw addr k r w Hin Hk) | exact (jp_r3_exec raw addr s k r w Hin Hk)]]]|].
  split; [exact jp_imem | exact jump_forms_check].
Qed.
Print Assumptions C05_far_and_indirect_jumps.

(* far call: CALLF lmn leaves exactly the 20-bit address of the next instruction, little-endian, in the three bytes below
   the old S, moves S down by three, jumps to lmn and touches no other register or byte - every well-formed state with
   three bytes of stack, every target, every address below the top of the address space *)
Theorem C05_callf_frame : forall s lo mid hi addr,
  wf_state s -> 3 <= getr s gS -> 0 <= addr -> addr + 4 < 1048576 -> Z.of_N (imm20 lo mid hi) < 1048576 ->
  exists s', exec_decoded (mk_instr 5 [OImm20 lo mid hi] 4) 5 addr s = XOk s' /\
    wf_state s' /\
    getr s' gPC = Z.of_N (imm20 lo mid hi) /\ getr s' gS = getr s gS - 3 /\
    mem s' (getr s gS - 3) = (addr + 4) mod 256 /\ mem s' (getr s gS - 2) = ((addr + 4) / 256) mod 256 /\
    mem s' (getr s gS - 1) = ((addr + 4) / 65536) mod 256 /\
    (forall a, ~ (getr s gS - 3 <= a < getr s gS) -> mem s' a = mem s a) /\
    (forall r, r <> gS -> r <> gPC -> getr s' r = getr s r).
Proof. exact callf_exec. Qed.
Print Assumptions C05_callf_frame.

(* CALLF ... RETF: whatever the callee does, if it hands back a well-formed state with S at the frame and the three frame
   bytes intact (a stack-neutral body), RETF - executed anywhere - resumes at the instruction after the CALLF with the
   caller's S, and itself changes no memory and no other register *)
Theorem C05_callf_retf_inverse : forall s lo mid hi addr s1,
  wf_state s -> 3 <= getr s gS -> 0 <= addr -> addr + 4 < 1048576 -> Z.of_N (imm20 lo mid hi) < 1048576 ->
  exec_decoded (mk_instr 5 [OImm20 lo mid hi] 4) 5 addr s = XOk s1 ->
  forall t raddr, wf_state t -> getr t gS = getr s1 gS ->
    (forall a, getr s gS - 3 <= a < getr s gS -> mem t a = mem s1 a) ->
    0 <= raddr -> raddr + 1 < 1048576 ->
    exists t', exec_decoded (mk_instr 7 [] 1) 7 raddr t = XOk t' /\
      getr t' gPC = addr + 4 /\ getr t' gS = getr s gS /\ (forall a, mem t' a = mem t a) /\
      (forall r, r <> gS -> r <> gPC -> getr t' r = getr t r).
Proof. exact callf_retf_inverse. Qed.
Print Assumptions C05_callf_retf_inverse.

(* near call: CALL mn pushes the low 16 bits of the return address and jumps inside the page of the instruction;
   CALL ... RET is an inverse under the guard that the RET executes in the page of the return address
   (the other case is refuted in Props/C05_refuted.v - the recorded page-edge finding) *)
Theorem C05_call_frame : forall s v addr,
  wf_state s -> 2 <= getr s gS -> 0 <= addr -> addr + 3 < 1048576 -> Z.of_N v < 65536 ->
  exists s', exec_decoded (mk_instr 4 [OImm16 v] 3) 4 addr s = XOk s' /\
    wf_state s' /\
    getr s' gPC = near_target addr v /\ getr s' gS = getr s gS - 2 /\
    mem s' (getr s gS - 2) = (addr + 3) mod 256 /\ mem s' (getr s gS - 1) = ((addr + 3) / 256) mod 256 /\
    (forall a, ~ (getr s gS - 2 <= a < getr s gS) -> mem s' a = mem s a) /\
    (forall r, r <> gS -> r <> gPC -> getr s' r = getr s r).
Proof. exact call_exec. Qed.
Print Assumptions C05_call_frame.

Theorem C05_call_ret_inverse_partial : forall s v addr s1,
  wf_state s -> 2 <= getr s gS -> 0 <= addr -> addr + 3 < 1048576 -> Z.of_N v < 65536 ->
  exec_decoded (mk_instr 4 [OImm16 v] 3) 4 addr s = XOk s1 ->
  forall t raddr, wf_state t -> getr t gS = getr s1 gS ->
    (forall a, getr s gS - 2 <= a < getr s gS -> mem t a = mem s1 a) ->
    0 <= raddr -> raddr + 1 < 1048576 -> (raddr + 1) / 65536 = (addr + 3) / 65536 ->
    exists t', exec_decoded (mk_instr 6 [] 1) 6 raddr t = XOk t' /\
      getr t' gPC = addr + 3 /\ getr t' gS = getr s gS /\ (forall a, mem t' a = mem t a) /\
      (forall r, r <> gS -> r <> gPC -> getr t' r = getr t r).
Proof. exact call_ret_inverse. Qed.
Print Assumptions C05_call_ret_inverse_partial.

(* the opcodes those four theorems name are the CALL / CALLF / RET / RETF entries of the regenerated table *)
Theorem C05_call_opcodes_are_the_tables :
  d_cls (entry_of 4) = I_CALL /\ d_cls (entry_of 5) = I_CALL /\ d_cls (entry_of 6) = I_RET /\ d_cls (entry_of 7) = I_RETF.
Proof. exact call_analyze_tables. Qed.
Print Assumptions C05_call_opcodes_are_the_tables.

(* software interrupt: IR pushes the address of the next instruction (3 bytes), C | Z<<1 (1 byte) and IMR (1 byte) below
   the old S, clears only bit 7 of IMR, jumps through the vector at 0xFFFFA and touches nothing else - flags included *)
Theorem C05_ir_frame : forall s addr,
  wf_state s -> 5 <= getr s gS -> getr s gS <= 1048570 -> 0 <= addr -> addr + 1 < 1048576 ->
  mem s 1048570 + 256 * (mem s 1048571 + 256 * mem s 1048572) < 1048576 ->
  exists s', exec_decoded (mk_instr 254 [] 1) 254 addr s = XOk s' /\ wf_state s' /\
    getr s' gPC = mem s 1048570 + 256 * (mem s 1048571 + 256 * mem s 1048572) /\
    getr s' gS = getr s gS - 5 /\
    mem s' (getr s gS - 3) = (addr + 1) mod 256 /\ mem s' (getr s gS - 2) = ((addr + 1) / 256) mod 256 /\
    mem s' (getr s gS - 1) = ((addr + 1) / 65536) mod 256 /\
    mem s' (getr s gS - 4) = get_flag s true + 2 * get_flag s false /\
    mem s' (getr s gS - 5) = mem s imr_cell /\ mem s' imr_cell = Z.land (mem s imr_cell) 127 /\
    (forall a, ~ (getr s gS - 5 <= a < getr s gS) -> a <> imr_cell -> mem s' a = mem s a) /\
    (forall r, r <> gS -> r <> gPC -> getr s' r = getr s r).
Proof. exact ir_exec. Qed.
Print Assumptions C05_ir_frame.

(* IR ... RETI: from any later well-formed state with S back at the frame and the five frame bytes intact, RETI - executed
   anywhere - resumes after the IR with the caller's S, carry, zero and interrupt mask; memory other than the IMR cell and
   every architectural register other than S, PC and the flags are left as the handler left them *)
Theorem C05_ir_reti_inverse : forall s addr s1,
  wf_state s -> 5 <= getr s gS -> getr s gS <= 1048570 -> 0 <= addr -> addr + 1 < 1048576 ->
  mem s 1048570 + 256 * (mem s 1048571 + 256 * mem s 1048572) < 1048576 ->
  exec_decoded (mk_instr 254 [] 1) 254 addr s = XOk s1 ->
  forall t raddr, wf_state t -> getr t gS = getr s1 gS ->
    (forall a, getr s gS - 5 <= a < getr s gS -> mem t a = mem s1 a) ->
    0 <= raddr -> raddr + 1 < 1048576 ->
    exists t', exec_decoded (mk_instr 1 [] 1) 1 raddr t = XOk t' /\
      getr t' gPC = addr + 1 /\ getr t' gS = getr s gS /\
      get_flag t' true = get_flag s true /\ get_flag t' false = get_flag s false /\
      mem t' imr_cell = mem s imr_cell /\ (forall a, a <> imr_cell -> mem t' a = mem t a) /\
      (forall r, r <> gS -> r <> gPC -> is_temp r = false -> is_flagreg r = false -> getr t' r = getr t r).
Proof. exact ir_reti_inverse. Qed.
Print Assumptions C05_ir_reti_inverse.

Theorem C05_ir_opcodes_are_the_tables : d_cls (entry_of 254) = I_IR /\ d_cls (entry_of 1) = I_RETI.
Proof. exact ir_table. Qed.
Print Assumptions C05_ir_opcodes_are_the_tables.

(* non-vacuity of the call theorems: a concrete state meets the hypotheses (S = 0x1000, byte memory) *)
Example C05_call_hypotheses_satisfiable : wf_state edge_state /\ 3 <= getr edge_state gS.
Proof.
  split; [split|].
  - unfold regs_wf. vm_compute. repeat split; discriminate || reflexivity.
  - intros a. cbn. split; [apply Z.le_refl | reflexivity].
  - vm_compute. discriminate.
Qed.

(* non-vacuity: JRNZ -5 at 0x2FFFE with Z clear goes to 0x2FFFB; with Z set falls through into the next page *)
Example C05_example :
  match exec_decoded (mk_instr 27 [OImmOff true 5] 2) 27 196606 (Emu.mk_state 0 0 0 0 0 0 0 (repeat 0%N 14) [] 0),
        exec_decoded (mk_instr 27 [OImmOff true 5] 2) 27 196606 (Emu.mk_state 0 0 0 0 0 0 2 (repeat 0%N 14) [] 0) with
  | XOk a, XOk b => (py_get (rg a) gPC, py_get (rg b) gPC) = (196603, 196608)%N
  | _, _ => False
  end.
Proof. vm_compute. reflexivity. Qed.
