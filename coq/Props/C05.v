(* Property C05 -- branch metadata given to Binary Ninja matches where execution goes.
   Statements only; proofs are in Proofs/BranchProofs.v.  analyze = Model/Static.v (tied to
   SC62015.get_instruction_info on every run); execution = Model/Lift.v exec_decoded. *)
From Coq Require Import ZArith NArith List Bool.
From BE Require Import Model.TableTypes Gen.Tables Model.Regs Model.Decode Model.IL Model.Lift Model.Static Model.Spec
  Proofs.ExecProofs Proofs.BranchProofs.
Import ListNotations.
Open Scope Z_scope.

(* relative jumps JR / JRZ / JRNZ / JRC / JRNC, +n and -n, every displacement, every address, every state:
   the reported branches are fall-through = address+2 and taken = address+2+-n, and execution ends with PC equal
   (after the 20-bit mask of the register) to the taken target exactly when the condition holds, to the
   fall-through otherwise; every other register, the flags and memory are untouched *)
Theorem C05_relative_jumps : forall opc neg cc n addr s, In (opc, neg, cc) jr_opcodes ->
  analyze (mk_instr opc [OImmOff neg n] 2) addr =
    Some {| b_len := 2;
            b_branches := match cc with
                          | Some _ => [(BFalse, Some (addr + 2)); (BTrue, Some (addr + 2 + soff neg n))]
                          | None => [(BUncond, Some (addr + 2 + soff neg n))]
                          end |} /\
  exec_decoded (mk_instr opc [OImmOff neg n] 2) opc addr s =
    XOk (setr (setr s gPC (Z.land addr (Z.of_N py_pc_mask))) gPC
              (if cond_holds cc s then addr + 2 + soff neg n else addr + 2)).
Proof. intros. split; [apply jr_analyze; assumption | apply jr_exec; assumption]. Qed.
Print Assumptions C05_relative_jumps.

(* absolute 16-bit jumps JP / JPZ / JPNZ / JPC / JPNC mn: the target keeps the 64K page of the instruction *)
Theorem C05_absolute_jumps : forall opc cc v addr s, In (opc, cc) jp16_opcodes ->
  analyze (mk_instr opc [OImm16 v] 3) addr =
    Some {| b_len := 3;
            b_branches := match cc with
                          | Some _ => [(BFalse, Some (addr + 3)); (BTrue, Some (jp16_target addr v))]
                          | None => [(BUncond, Some (jp16_target addr v))]
                          end |} /\
  exec_decoded (mk_instr opc [OImm16 v] 3) opc addr s =
    XOk (setr (setr s gPC (Z.land addr (Z.of_N py_pc_mask))) gPC
              (if cond_holds cc s then jp16_target addr v else addr + 3)).
Proof. intros. split; [apply jp16_analyze; assumption | apply jp16_exec; assumption]. Qed.
Print Assumptions C05_absolute_jumps.

(* the opcode lists those theorems quantify over are the JR / JP entries of the regenerated table *)
Theorem C05_opcodes_are_the_tables :
  forallb (fun x => let '(opc, neg, cc) := x in
    match d_cls (entry_of opc), d_ops (entry_of opc) with
    | I_JP_Rel, [PImmOffset ng] => Bool.eqb ng neg
    | _, _ => false
    end &&
    match d_cond (entry_of opc), cc with
    | None, None | Some CZ, Some CZ | Some CNZ, Some CNZ | Some CC, Some CC | Some CNC, Some CNC => true
    | _, _ => false
    end) jr_opcodes = true /\
  forallb (fun x => let '(opc, cc) := x in
    match d_cls (entry_of opc), d_ops (entry_of opc) with I_JP_Abs, [PImm16] => true | _, _ => false end &&
    match d_cond (entry_of opc), cc with
    | None, None | Some CZ, Some CZ | Some CNZ, Some CNZ | Some CC, Some CC | Some CNC, Some CNC => true
    | _, _ => false
    end) jp16_opcodes = true.
Proof. exact (conj jr_table_check jp16_table_check). Qed.
Print Assumptions C05_opcodes_are_the_tables.

(* non-vacuity: JRNZ -5 at 0x2FFFE with Z clear goes to 0x2FFFB; with Z set falls through into the next page *)
Example C05_example :
  match exec_decoded (mk_instr 27 [OImmOff true 5] 2) 27 196606 (Emu.mk_state 0 0 0 0 0 0 0 (repeat 0%N 14) [] 0),
        exec_decoded (mk_instr 27 [OImmOff true 5] 2) 27 196606 (Emu.mk_state 0 0 0 0 0 0 2 (repeat 0%N 14) [] 0) with
  | XOk a, XOk b => (py_get (rg a) gPC, py_get (rg b) gPC) = (196603, 196608)%N
  | _, _ => False
  end.
Proof. vm_compute. reflexivity. Qed.
