(* Witness for the clause of C15 that is false of the current tree (known finding). *)
From Coq Require Import NArith List Bool.
From BE Require Import Model.Lcd Proofs.LcdProofs.
Import ListNotations.
Open Scope N_scope.

(* a write of 0x01 (display ON) to 0x2001, whose R/W bit says READ: Python ignores it, Rust executes it *)
Theorem C15_py_rs_agree_refuted :
  exists ops, run py_write py_pixel lcd0 ops <> run rs_write py_pixel lcd0 ops.
Proof. exists [LWrite 8193 1; LState]. vm_compute. discriminate. Qed.
Print Assumptions C15_py_rs_agree_refuted.

(* the two display functions differ when a chip is off or scrolled *)
Theorem C15_display_refuted : exists s r c, py_pixel s r c <> rs_pixel s r c.
Proof. exists lcd0, 0, 0. vm_compute. discriminate. Qed.
Print Assumptions C15_display_refuted.
