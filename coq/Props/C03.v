(* Property C03 -- rendered operands name exactly the locations the lifted IL touches.
   Statements only; proofs are in Proofs/AccessProofs.v and Proofs/ExecLoopProofs.v.  The rendered operands are Model/Static.v render_ops (tied
   to Instruction.render() on every run), their meaning is Static.place_of / op_read / op_write (README addressing
   rules), the IL is Model/Lift.v evaluated by Model/IL.v. *)
From Coq Require Import ZArith NArith List Bool.
From BE Require Import Model.TableTypes Gen.Tables Model.Regs Model.Decode Model.IL Model.Lift Model.Static Model.Spec
  Model.Emu Proofs.ExecProofs Proofs.AccessProofs Proofs.ExecMemProofs Proofs.ExecLoopProofs.
Import ListNotations.
Open Scope Z_scope.

(* the address expression of an internal-memory operand: for each of (n), (BP+n), (PX+n), (PY+n), (BP+PX), (BP+PY),
   every n and every memory, it evaluates to 0x100000 + (base + n) mod 256 and reads exactly the addressing
   registers the mode names *)
Theorem C03_imem_address : forall s m n, mem_wf s -> (n < 256)%N ->
  eval_expr (imem_addr m n) s = Some (fst (imem_cell s m n), logged s (snd (imem_cell s m n))).
Proof. exact imem_addr_eval. Qed.
Print Assumptions C03_imem_address.

(* reading an internal-memory operand of width 1, 2 or 3: the value is the little-endian content of the denoted
   cell; the bytes read are the addressing registers and then the w bytes of the cell; nothing is written and no
   register changes *)
Theorem C03_imem_operand_read : forall s m n (w : N), mem_wf s -> (n < 256)%N -> (w = 1 \/ w = 2 \/ w = 3)%N ->
  let p := place_of s (LIMem w n) m in
  exists s', eval_expr (ELoad w (imem_addr m n)) s = Some (rd_place s p, s') /\ reads_only s s' (a_reads (op_read p)).
Proof. exact imem_operand_read. Qed.
Print Assumptions C03_imem_operand_read.

(* writing one: only the addressing registers are read, exactly the w denoted bytes are written with the
   little-endian bytes of the value, every other byte and every register keeps its value *)
Theorem C03_imem_operand_write : forall s m n (w : N) v, mem_wf s -> (n < 256)%N -> (w = 1 \/ w = 2 \/ w = 3)%N ->
  let p := place_of s (LIMem w n) m in
  let a := fst (imem_cell s m n) in
  exists s', exec_stmt (SStore w (imem_addr m n) (EConst w v)) s = Some (s', ONext) /\
             writes_only s s' (a_reads (op_write p)) (a_writes (op_write p)) /\
             (forall k, (k < N.to_nat w)%nat -> mem s' (a + Z.of_nat k) = (v / 2 ^ (8 * Z.of_nat k)) mod 256).
Proof. exact imem_operand_write. Qed.
Print Assumptions C03_imem_operand_write.

(* the first/second addressing choice shown in the text is the one the default lift uses: both are
   Instruction._addressing_modes *)
Theorem C03_render_modes_are_lift_modes : forall i lops dm sm,
  expand (i_ent i) (i_ops i) = Some lops -> addressing_modes i lops = Some (dm, sm) ->
  match lops with
  | [a] => render_ops i = Some [(a, dm)]
  | [a; b] => render_ops i = Some [(a, dm); (b, sm)]
  | _ => True
  end.
Proof. exact render_modes_are_lift_modes. Qed.
Print Assumptions C03_render_modes_are_lift_modes.

(* counted runs, for EVERY count: executing MVL (m),(n) / MVLD (m),(n) - no prefix and each of the 15 prefixes, every m, n,
   every I = 0 .. 65535 - reads, as data, exactly the cells the rendered operands denote (the addressing registers of both
   modes and the I bytes of the source run, wrapping inside internal memory, ascending resp. descending) and writes exactly
   the I bytes of the destination run, in run order; den_access is the documented access set the per-run oracle uses.
   Hypotheses: byte memory, 14 scratch registers, I a 16-bit value *)
Theorem C03_counted_run_access : forall opc, In opc [203; 207]%N ->
  forall c, In c pre_choices -> forall n1 n2, (n1 < 256)%N -> (n2 < 256)%N -> forall addr s,
  mem_wf s -> TW s -> (py_get (rg s) gI < 65536)%N ->
  exists s' A rl,
    exec_decoded (mk_pre c opc [OIMem 1 n1; OIMem 1 n2] 3) (first_byte c opc) addr s = XOk s' /\
    den_access (mk_pre c opc [OIMem 1 n1; OIMem 1 n2] 3) s = Some A /\
    rlog s' = rev rl ++ rlog s /\ (forall x, In x rl <-> In x (a_reads A)) /\
    wlog s' = rev (a_writes A) ++ wlog s.
Proof. intros opc [<- | [<- | []]]; [exact mvl_access | exact mvld_access]. Qed.
Print Assumptions C03_counted_run_access.

(* non-vacuity: (BP+PX) with BP=0xF0, PX=0x20 names internal byte 0x10 *)
Example C03_example :
  fst (imem_cell (Emu.mk_state 0 0 0 0 0 0 0 (repeat 0%N 14) [(1048812, 240); (1048813, 32)] 0) IM_BP_PX 7) = 1048592.
Proof. vm_compute. reflexivity. Qed.
