(* Witness for the clause of C05 that is false of the current tree (known finding): a near CALL whose return address
   lies in the next 64 KiB page followed by RET does not resume after the call. *)
From Coq Require Import ZArith NArith List Bool.
From BE Require Import Model.TableTypes Gen.Tables Model.Regs Model.Decode Model.IL Model.Lift Proofs.ExecProofs Proofs.CallProofs.
Import ListNotations.
Open Scope Z_scope.

(* CALL 3000 at 0x1FFFE (next instruction 0x20001) jumps to 0x13000; RET there resumes at 0x10001, not 0x20001 *)
Theorem C05_call_ret_page_edge_refuted :
  exists s1 t', exec_decoded (mk_instr 4 [OImm16 12288] 3) 4 131070 edge_state = XOk s1 /\
                exec_decoded (mk_instr 6 [] 1) 6 77824 s1 = XOk t' /\
                getr s1 gPC = 77824 /\ getr t' gS = getr edge_state gS /\ getr t' gPC = 65537 /\ 65537 <> 131070 + 3.
Proof. exact call_ret_page_edge_refuted. Qed.
Print Assumptions C05_call_ret_page_edge_refuted.
