(* Property C12 -- interrupts are taken only when enabled and pending, and are undone by RETI.
   Statements only; proofs are in Proofs/IrqProofs.v. *)
From Coq Require Import ZArith NArith List Bool.
From BE Require Import Gen.Tables Model.Regs Model.IL Model.Lift Model.Static Model.Irq Proofs.IrqProofs Proofs.ExecProofs.
Import ListNotations.
Open Scope Z_scope.

(* the documented gate is monotone in nothing but the three ingredients: master enable, mask bit, status bit *)
Theorem C12_gate_needs_all_three : forall imr isr,
  irq_gate imr isr = true ->
  Z.testbit imr 7 = true /\ exists b, 0 <= b < 4 /\ Z.testbit imr b = true /\ Z.testbit isr b = true.
Proof. exact gate_needs_all_three. Qed.
Print Assumptions C12_gate_needs_all_three.

(* taking an interrupt and returning from it: from any state with a well-formed register file, byte memory and at
   least five bytes of stack, delivering the interrupt and then executing RETI (the IL the lifter emits for opcode
   01, run by the model evaluator) restores PC, the stack pointer, F (both flags), IMR and every other
   architectural register; memory is unchanged except the five frame bytes below the stack pointer *)
Theorem C12_reti_undoes_delivery : forall s vaddr,
  wf_state s -> 5 <= getr s gS ->
  exists s', exec_decoded (mk_instr 1 [] 1) 1 vaddr (irq_deliver s) = XOk s' /\
             getr s' gPC = getr s gPC /\ getr s' gS = getr s gS /\ getr s' gF = getr s gF /\
             getr s' gBA = getr s gBA /\ getr s' gI = getr s gI /\ getr s' gX = getr s gX /\ getr s' gY = getr s gY /\
             getr s' gU = getr s gU /\
             mem s' imr_cell = mem s imr_cell /\
             (forall a, ~ (getr s gS - 5 <= a < getr s gS) -> mem s' a = mem s a).
Proof. exact reti_undoes_delivery. Qed.
Print Assumptions C12_reti_undoes_delivery.

(* delivery itself: exactly five bytes pushed - IMR lowest, then F, then the three bytes of the resume PC -, the
   master enable cleared and nothing else in IMR, PC = the vector *)
Theorem C12_delivery_frame : forall s, wf_state s -> 5 <= getr s gS ->
  let t := irq_deliver s in
  getr t gS = getr s gS - 5 /\
  mem t (getr s gS - 5) = mem s imr_cell /\ mem t (getr s gS - 4) = getr s gF /\
  mem t (getr s gS - 3) = getr s gPC mod 256 /\ mem t (getr s gS - 2) = (getr s gPC / 256) mod 256 /\
  mem t (getr s gS - 1) = (getr s gPC / 65536) mod 256 /\
  mem t imr_cell = Z.land (mem s imr_cell) 127 /\
  (forall a, a <> imr_cell -> ~ (getr s gS - 5 <= a < getr s gS) -> mem t a = mem s a).
Proof. exact delivery_frame. Qed.
Print Assumptions C12_delivery_frame.
