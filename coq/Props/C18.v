(* Property C18 -- the virtual-time task scheduler wakes tasks exactly on time and in order. *)
From Coq Require Import NArith List Bool.
From BE Require Import Model.Sched Proofs.SchedProofs.
Import ListNotations.
Open Scope N_scope.

(* One scheduling round: the clock jumps exactly to the earliest wake cycle (never backwards), every task
   queued for that cycle is resumed at that cycle - not earlier, not later - in queue (insertion) order, and
   the queue invariant is preserved. *)
Theorem C18_batch_spec : forall d d', inv d -> batch d = Some d' ->
  exists k ts r, fq d = (k, ts) :: r /\
    clock d' = k /\ clock d <= clock d' /\ inv d' /\
    log d' = log d ++ map (fun t => (k, fst t)) ts /\
    (work (fq d') < work (fq d))%nat /\
    (exists new, emitted d' = emitted d ++ new /\ evq d' = evq d ++ new).
Proof. exact batch_spec. Qed.
Print Assumptions C18_batch_spec.

(* a sleep of n cycles issued at cycle c re-queues the task under cycle c + n *)
Theorem C18_wake_exact : forall c n rest pend, poll c (ASleep n :: rest) pend = (PPending (c + n) rest, pend).
Proof. exact poll_sleep. Qed.
Print Assumptions C18_wake_exact.

(* the run loop always terminates (finite scripts): run_for is total *)
Theorem C18_run_for_total : forall d max, inv d -> exists res, run_for d max = Some res.
Proof. exact run_for_total. Qed.
Print Assumptions C18_run_for_total.

(* Budget independence: however a run is split into run_for budgets, the driver has executed some number of
   canonical rounds: same clock, same queue, same resumption log, same emitted events. *)
Theorem C18_drive_canon : forall budgets d c d' rs,
  inv d -> canon d c -> drive d budgets = Some (d', rs) ->
  exists n, canon d' (iter_batch n c) /\ clock d <= clock d' /\ inv d'.
Proof. exact drive_canon. Qed.
Print Assumptions C18_drive_canon.

(* hence the resumption logs of any two partitions are prefix-comparable (same order of same-cycle tasks) *)
Theorem C18_budget_prefix : forall d0 b1 b2 d1 r1 d2 r2,
  inv d0 -> drive d0 b1 = Some (d1, r1) -> drive d0 b2 = Some (d2, r2) ->
  (exists ext, log d1 = log d2 ++ ext) \/ (exists ext, log d2 = log d1 ++ ext).
Proof. exact budget_prefix. Qed.
Print Assumptions C18_budget_prefix.

(* every event handed to the driver is returned exactly once and in emission order: the events returned so
   far followed by the ones still queued are exactly the events emitted (one per resumption at most) *)
Theorem C18_events_once_in_order : forall budgets d handed d' rs,
  inv d -> ev_inv handed d -> drive d budgets = Some (d', rs) ->
  emitted d' = handed ++ returned rs ++ evq d'.
Proof. exact events_once_in_order. Qed.
Print Assumptions C18_events_once_in_order.

Theorem C18_spawn_preserves_inv : (forall c, inv (drv0 c)) /\ (forall d t, inv d -> inv (spawn d t)).
Proof. exact (conj inv0 inv_spawn). Qed.
Print Assumptions C18_spawn_preserves_inv.

Example C18_example :
  exists d rs, drive (spawn_all 0 [[ASleep 2; AEmit 1; AEmit 2; ASleep 0; AEmit 3; ASleep 1]; [ASleep 2; AEmit 9]; [ASleep 1; ASleep 1; AEmit 4]; []])
                     [1; 1; 1; 5; 0; 20] = Some (d, rs) /\
    rs = [RMax 0; RMax 0; RMax 0; RUser 1 2; RUser 9 0; RUser 4 0] /\
    log d = [(0, 0); (0, 1); (0, 2); (0, 3); (1, 2); (2, 0); (2, 1); (2, 2)].
Proof. eexists. eexists. vm_compute. repeat split; reflexivity. Qed.
