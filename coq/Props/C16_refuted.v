(* Witnesses for the clause of C16 that is false of the current tree (known findings): state the Python bundle omits. *)
From Coq Require Import NArith List Bool.
From BE Require Import Model.Regs Model.Snap Proofs.SnapProofs.
Import ListNotations.

(* a halted machine comes back running: the low-power flag is not in the bundle *)
Theorem C16_halted_refuted :
  exists m', py_load (py_save (wit true false)) (wit false false) = Some m' /\ m_halted m' <> m_halted (wit true false).
Proof. exact halted_not_restored. Qed.
Print Assumptions C16_halted_refuted.

(* a latched key interrupt is forgotten *)
Theorem C16_key_latch_refuted :
  exists m', py_load (py_save (wit false true)) (wit false false) = Some m' /\ m_key_latched m' <> m_key_latched (wit false true).
Proof. exact latch_not_restored. Qed.
Print Assumptions C16_key_latch_refuted.
