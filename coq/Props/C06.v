(* Property C06 -- the Rust LLAMA core and the Python core agree on every instruction.
   The Rust evaluator is not modelled; what is proved here is the step that turns single-instruction agreement
   (established against the model of the Python core by differential execution on every run) into lockstep
   agreement of whole runs, for ANY second core: if two step functions agree on every state, then running them
   any number of steps from any state gives the same result, and in particular the same sequence of program
   counters (the cores consume the same bytes). *)
From Coq Require Import ZArith NArith List Bool.
From BE Require Import Model.Regs Model.IL Model.Lift Model.Emu Proofs.LockstepProofs.
Import ListNotations.
Open Scope Z_scope.

Theorem C06_single_step_agreement_gives_lockstep :
  forall other_step : mstate -> xres,
  (forall s, other_step s = py_step s) ->
  forall n s, other_steps other_step n s = steps n s /\ other_trace other_step n s = py_trace n s.
Proof. exact lockstep. Qed.
Print Assumptions C06_single_step_agreement_gives_lockstep.

(* running N+M steps is running N steps and then M steps (used by C07 as well) *)
Theorem C06_steps_compose : forall n m s,
  steps (n + m) s = match steps n s with XOk s1 => steps m s1 | r => r end.
Proof. exact steps_compose. Qed.
Print Assumptions C06_steps_compose.
