(* Witnesses for the clauses of C11 that are false of the current tree (known findings). *)
From Coq Require Import NArith List Bool.
From BE Require Import Model.MemBus Proofs.MemProofs.
Import ListNotations.
Open Scope N_scope.

Definition plain : config :=
  {| ovls := []; card_present := true; card_writable := true; card_len := 65536; mirror := false; ro_ranges := [] |}.
Definition plain_mirror : config :=
  {| ovls := []; card_present := true; card_writable := true; card_len := 65536; mirror := true; ro_ranges := [] |}.

(* Python: internal 0xFA and external 0xFFFFA are the same cell when no ROM is mapped *)
Theorem C11_py_spaces_alias_refuted : py_rt plain 1048826 = py_rt plain 1048570.
Proof. vm_compute. reflexivity. Qed.
Print Assumptions C11_py_spaces_alias_refuted.

(* Python: every address at or above 0x100100 is folded into the internal block *)
Theorem C11_py_high_addresses_alias_internal : py_rt plain 1048832 = py_rt plain 1048576.
Proof. vm_compute. reflexivity. Qed.
Print Assumptions C11_py_high_addresses_alias_internal.

(* Rust: a 24-bit store at internal 0xFE does not fit the internal block and lands in external 0xFE..0x100 *)
Theorem C11_rs_cross_boundary_refuted :
  rs_run plain [] [MStore 1048830 24 1193046; MLoad 1048830 8; MLoad 254 16] = [0; 0; 13398].
Proof. vm_compute. reflexivity. Qed.
Print Assumptions C11_rs_cross_boundary_refuted.

(* Rust: a 16-bit store at 0x87FFF with the mirror on puts its second byte at 0xC0000, not at the mirrored 0xB8000 *)
Theorem C11_rs_mirror_multibyte_refuted :
  rs_run plain_mirror [] [MStore 557055 16 4660; MLoad 753664 8; MLoad 786432 8; MLoad 557056 8] = [0; 0; 18; 0].
Proof. vm_compute. reflexivity. Qed.
Print Assumptions C11_rs_mirror_multibyte_refuted.
