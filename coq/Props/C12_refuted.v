(* Witness for the clause of C12 that is false of the current tree (known finding): the Python delivery gate. *)
From Coq Require Import ZArith Bool.
From BE Require Import Model.Irq.
Open Scope Z_scope.

(* IMR = 0x08 (ON-key mask set, master enable clear), ISR = 0x08: PCE500Emulator.step takes the interrupt *)
Theorem C12_python_gate_refuted : exists imr isr, py_gate imr isr = true /\ irq_gate imr isr = false.
Proof. exists 8, 8. split; vm_compute; reflexivity. Qed.
Print Assumptions C12_python_gate_refuted.
