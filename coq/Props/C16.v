(* Property C16 -- saving and restoring a snapshot does not change the future.
   Statements only; proofs are in Proofs/SnapProofs.v (machine level) and Proofs/RegsProofs.v (register blob, shared
   with C08).  Model: Model/Snap.v, tied to PCE500Emulator.save_snapshot/load_snapshot and CoreRuntime by the
   snapshot-at-every-step comparison on every run. *)
From Coq Require Import NArith List Bool.
From BE Require Import Model.Regs Model.Snap Proofs.RegsProofs Proofs.SnapProofs Gen.Tables Model.TableTypes.
Import ListNotations.
Open Scope N_scope.

(* PARTIAL (the full statement - for every reachable state - is false of the current tree, Props/C16_refuted.v):
   a Python snapshot taken in a running state without a latched key interrupt and with USR bits 3,4 set, loaded
   into a freshly constructed emulator, reproduces every register (through the 20-byte blob and the temps), the
   memory image, timers, interrupt bookkeeping, cycle count, keyboard and LCD state *)
Theorem C16_restore_reproduces_state_partial : forall (KB LCD : Type) (m f : machine KB LCD),
  wf (m_regs m) -> fresh_ok f -> m_halted m = false -> m_key_latched m = false -> usr_ok (m_mem m) ->
  exists m', py_load (py_save m) f = Some m' /\ same_machine m' m.
Proof. intros KB LCD. exact restore_reproduces_state. Qed.
Print Assumptions C16_restore_reproduces_state_partial.

(* ... and then every continuation (any inputs, any length) of the restored machine equals the continuation of the
   original, for any step function that depends on the visible state only *)
Theorem C16_same_future : forall (KB LCD INPUT : Type) (step : machine KB LCD -> INPUT -> machine KB LCD),
  (forall a b i, same_machine a b -> same_machine (step a i) (step b i)) ->
  forall ins a b, same_machine a b -> same_machine (fold_left step ins a) (fold_left step ins b).
Proof. intros KB LCD INPUT. exact same_future. Qed.
Print Assumptions C16_same_future.

(* the register blob is 20 bytes, PC BA I X Y U S F little-endian, and round-trips; Python and Rust use the same
   layout (tables regenerated from both sources on every run) *)
Theorem C16_register_blob : forall sn, snap_wf sn -> length (pack sn) = 20%nat /\ unpack (pack sn) (sn_t sn) = Some sn.
Proof. exact blob_roundtrip. Qed.
Print Assumptions C16_register_blob.

Theorem C16_blob_layout_shared : py_snapshot_layout = rs_snapshot_layout.
Proof. vm_compute. reflexivity. Qed.
Print Assumptions C16_blob_layout_shared.
