(* Witness for the clause of C10 that is false of the current tree (known finding): a symbolic .ORG. *)
From Coq Require Import NArith List Bool.
From BE Require Import Model.AsmLayout.
Import ListNotations.
Open Scope N_scope.

(* .ORG END / L1: defw .. / .ORG 0x200 / defb .. / END:  -- pass one takes the symbolic origin for 0, pass two for
   0x201: label L1 has value 0 but its bytes are placed at 0x201 *)
Theorem C10_symbolic_org_refuted : exists ls y k,
  assemble_layout ls = inl y /\ nth k (y_secs y) 0 <> SEC_BSS /\ nth k (y_addr1 y) 0 <> nth k (y_addr2 y) 0.
Proof.
  exists [ {| l_label := None; l_stmt := Some (KOrg (OSym 7)) |}; {| l_label := Some 1; l_stmt := Some (KBytes 2) |};
           {| l_label := None; l_stmt := Some (KOrg (OLit 512)) |}; {| l_label := None; l_stmt := Some (KBytes 1) |};
           {| l_label := Some 7; l_stmt := None |} ].
  eexists. exists 1%nat. split; [vm_compute; reflexivity|]. split; vm_compute; discriminate.
Qed.
Print Assumptions C10_symbolic_org_refuted.
