(* Property C08 -- register aliasing, widths and flag packing hold after any sequence of writes.
   Statements only; proofs are in Proofs/RegsProofs.v and Proofs/RegsRefine.v. *)
From Coq Require Import NArith List Bool.
From BE Require Import Model.Regs Proofs.RegsProofs Proofs.RegsRefine.
Import ListNotations.
Open Scope N_scope.

(* every state reachable by any sequence of writes is well formed (fields inside their width) *)
Theorem C08_wf_reachable : forall ws, wf (py_state_after py_init ws).
Proof. exact wf_reachable. Qed.
Print Assumptions C08_wf_reachable.

(* reading a register returns the last value written to it, truncated to its architectural width
   (8/16 bits; PC, X, Y, U, S 20 bits; FC/FZ 1 bit; TEMPn 24 bits) *)
Theorem C08_read_after_write : forall s r v, wf s -> valid r -> py_get (py_set s r v) r = v mod width r.
Proof. exact py_read_after_write. Qed.
Print Assumptions C08_read_after_write.

(* A/B are the low/high bytes of BA, IL/IH of I, carry/zero are bits 0/1 of F; every read is below its width *)
Theorem C08_overlap : forall s, wf s ->
  py_get s gBA = py_get s gB * p8 + py_get s gA /\
  py_get s gI = py_get s gIH * p8 + py_get s gIL /\
  py_get s gFC = py_get s gF mod 2 /\
  py_get s gFZ = (py_get s gF / 2) mod 2 /\
  (forall r, py_get s r < width r \/ match r with gTEMP k => (NTEMP <= k)%nat | _ => False end).
Proof. exact py_overlap. Qed.
Print Assumptions C08_overlap.

Theorem C08_il_clears_ih : forall s v, py_get (py_set s gIL v) gIH = 0 /\ py_get (py_set s gIL v) gIL = v mod p8.
Proof. exact py_il_clears_ih. Qed.
Print Assumptions C08_il_clears_ih.

(* a write changes nothing outside the overlapping group of the written register ... *)
Theorem C08_frame : forall s r r' v, base r <> base r' -> py_get (py_set s r v) r' = py_get s r'.
Proof. exact py_frame. Qed.
Print Assumptions C08_frame.

(* ... and inside a group only the addressed part (IL being the documented exception, above) *)
Theorem C08_frame_parts : forall s v, wf s ->
  py_get (py_set s gA v) gB = py_get s gB /\ py_get (py_set s gB v) gA = py_get s gA /\
  py_get (py_set s gIH v) gIL = py_get s gIL /\
  py_get (py_set s gFC v) gFZ = py_get s gFZ /\ py_get (py_set s gFZ v) gFC = py_get s gFC /\
  py_get (py_set s gFC v) gF / 4 = py_get s gF / 4 /\ py_get (py_set s gFZ v) gF / 4 = py_get s gF / 4.
Proof. exact py_frame_parts. Qed.
Print Assumptions C08_frame_parts.

(* a register snapshot applied to a fresh register file reproduces every readable value *)
Theorem C08_snapshot_roundtrip : forall s r, wf s -> valid r ->
  py_get (py_apply (py_capture s) py_init) r = py_get s r.
Proof. exact py_snapshot_roundtrip. Qed.
Print Assumptions C08_snapshot_roundtrip.

(* the 20-byte register blob (PC 3, BA 2, I 2, X 3, Y 3, U 3, S 3, F 1; little endian) round-trips *)
Theorem C08_blob_roundtrip : forall sn, snap_wf sn ->
  length (pack sn) = 20%nat /\ unpack (pack sn) (sn_t sn) = Some sn.
Proof. exact blob_roundtrip. Qed.
Print Assumptions C08_blob_roundtrip.

(* The Rust register file (hash map with separate F/FC/FZ entries and defaults) refines the Python one:
   abstraction function `abs`, every read equal, every write commutes. *)
Theorem C08_rust_refines_python :
  abs rs_init = py_init /\
  (forall z r, py_get (abs z) r = rs_get z r) /\
  (forall z r v, abs (rs_set z r v) = py_set (abs z) r v).
Proof. exact (conj abs_init (conj abs_get abs_set)). Qed.
Print Assumptions C08_rust_refines_python.

(* Python and Rust return identical values for identical sequences (any length) of writes of arbitrary
   values, reads, snapshot/apply and blob round trips *)
Theorem C08_py_rs_agree : forall ops, rs_run rs_init ops = py_run py_init ops.
Proof. exact py_rs_agree. Qed.
Print Assumptions C08_py_rs_agree.

(* Non-vacuity: a concrete non-trivial sequence *)
Example C08_example :
  py_run py_init [OSet gBA 0x12345; OGet gA; OGet gB; OSet gIL 0x1FF; OSet gIH 7; OSet gIL 1; OGet gI;
                  OSet gX 0xFFFFFFFF; OSet gFZ 3; OSet gFC 2; OGet gF; OSet (gTEMP 13) 0x1234567; OSnap; OBlob]
  = rs_run rs_init [OSet gBA 0x12345; OGet gA; OGet gB; OSet gIL 0x1FF; OSet gIH 7; OSet gIL 1; OGet gI;
                  OSet gX 0xFFFFFFFF; OSet gFZ 3; OSet gFC 2; OGet gF; OSet (gTEMP 13) 0x1234567; OSnap; OBlob]
  /\ nth 6 (py_run py_init [OSet gBA 0x12345; OGet gA; OGet gB; OSet gIL 0x1FF; OSet gIH 7; OSet gIL 1; OGet gI]) [] = [1].
Proof. split; vm_compute; reflexivity. Qed.
