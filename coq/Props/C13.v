(* Property C13 -- timers fire exactly on period boundaries however time advances.
   This file holds only statements; every proof is `exact <lemma from Proofs/TimerProofs.v>`. *)
From Coq Require Import NArith List Bool.
From BE Require Import Model.Timer Proofs.TimerProofs.
Import ListNotations.
Open Scope N_scope.

(* The `while` loops always terminate within the fuel the model gives them: advance is total. *)
Theorem C13_advance_total : forall t c, exists t' fm fs, py_advance t c = Some (t', fm, fs).
Proof. exact py_advance_total. Qed.
Print Assumptions C13_advance_total.

(* After every tick the next target of an enabled timer with non-zero period is strictly in the future. *)
Theorem C13_tick_future : forall t c t' fm fs,
  py_advance t c = Some (t', fm, fs) -> py_en t = true ->
  (0 < py_pm t -> c < py_nm t') /\ (0 < py_ps t -> c < py_ns t').
Proof. exact py_tick_future. Qed.
Print Assumptions C13_tick_future.

(* Phase is preserved: targets move by whole periods only; periods and the enable flag are untouched. *)
Theorem C13_tick_phase : forall t c t' fm fs,
  py_advance t c = Some (t', fm, fs) ->
  (exists k, py_nm t' = py_nm t + k * py_pm t) /\ (exists k, py_ns t' = py_ns t + k * py_ps t) /\
  py_pm t' = py_pm t /\ py_ps t' = py_ps t /\ py_en t' = py_en t.
Proof. exact py_tick_phase. Qed.
Print Assumptions C13_tick_phase.

(* A timer fires at a tick iff it is enabled, has a non-zero period and its target has been reached. *)
Theorem C13_fires_iff_crossed : forall t c t' fm fs,
  py_advance t c = Some (t', fm, fs) ->
  (fm = true <-> py_en t = true /\ 0 < py_pm t /\ py_nm t <= c) /\
  (fs = true <-> py_en t = true /\ 0 < py_ps t /\ py_ns t <= c).
Proof. exact py_fires_iff_crossed. Qed.
Print Assumptions C13_fires_iff_crossed.

(* Disabled or zero-period timers never fire. *)
Theorem C13_disabled_or_zero_never : forall t c t' fm fs,
  py_advance t c = Some (t', fm, fs) ->
  (py_en t = false -> fm = false /\ fs = false) /\
  (py_pm t = 0 -> fm = false) /\ (py_ps t = 0 -> fs = false).
Proof. exact py_disabled_or_zero_never. Qed.
Print Assumptions C13_disabled_or_zero_never.

(* Ticked every cycle of (c0, c0+n], a timer fires at cycle c exactly when c is a period boundary
   nxt + k*p: never twice for one boundary (each cycle is ticked once), never skipping one;
   the target ends strictly in the future and in phase.  n is unbounded. *)
Theorem C13_per_cycle_exact : forall n c0 p nxt l last,
  0 < p -> c0 < nxt ->
  every_cycle n c0 p nxt = Some (l, last) ->
  length l = n /\
  c0 + N.of_nat n < last /\
  (exists k, last = nxt + k * p) /\
  forall i, (i < n)%nat ->
    (nth i l false = true <-> is_boundary nxt p (c0 + 1 + N.of_nat i)).
Proof. exact every_cycle_exact. Qed.
Print Assumptions C13_per_cycle_exact.

Theorem C13_per_cycle_total : forall n c0 p nxt, exists l last, every_cycle n c0 p nxt = Some (l, last).
Proof. exact every_cycle_total. Qed.
Print Assumptions C13_per_cycle_total.

(* ... and the number of firings equals the number of boundaries crossed. *)
Theorem C13_per_cycle_count : forall n c0 p nxt l last,
  0 < p -> c0 < nxt ->
  every_cycle n c0 p nxt = Some (l, last) ->
  count_true l = boundaries_in c0 (c0 + N.of_nat n) nxt p.
Proof. exact every_cycle_count. Qed.
Print Assumptions C13_per_cycle_count.

(* Firing sets the corresponding status bit (MTI bit 0, STI bit 1) and touches no other bit. *)
Theorem C13_tick_sets_isr : forall isr fm fs,
  (fm = true -> N.testbit (isr_after isr fm fs) 0 = true) /\
  (fs = true -> N.testbit (isr_after isr fm fs) 1 = true) /\
  (forall i, 2 <= i -> N.testbit (isr_after isr fm fs) i = N.testbit isr i) /\
  (fm = false -> N.testbit (isr_after isr fm fs) 0 = N.testbit isr 0) /\
  (fs = false -> N.testbit (isr_after isr fm fs) 1 = N.testbit isr 1).
Proof. exact isr_after_bits. Qed.
Print Assumptions C13_tick_sets_isr.

(* The Rust loop (u64, wrapping_add) is the Python loop whenever c + p does not wrap. *)
Theorem C13_rust_timer_is_python_timer : forall c p nxt,
  c + p < two64 -> rs_adv1 c p nxt = py_adv1 c p nxt.
Proof. exact rs_adv1_eq_py. Qed.
Print Assumptions C13_rust_timer_is_python_timer.

(* Python scheduler and Rust timer: same tick/reset/restore sequence => same firing sequence and
   same ISR, for sequences of any length (cycle values and periods below 2^63). *)
Theorem C13_py_rs_same_firing : forall ops en pm ps isr,
  pm < bound63 -> ps < bound63 -> forallb op_ok ops = true ->
  exists lp lr,
    py_run (py_init en pm ps) isr ops = Some lp /\
    rs_run (rs_init en pm ps isr) ops = Some lr /\
    map firing lp = map firing lr.
Proof.
  intros ops en pm ps isr Hm Hs Hok.
  exact (py_rs_same_firing_gen ops _ _ _ (init_rel en pm ps isr Hm Hs) Hok).
Qed.
Print Assumptions C13_py_rs_same_firing.

(* Non-vacuity: a concrete run satisfying the hypotheses, with both timers firing. *)
Example C13_example :
  py_run (py_init true 3 5) 0 [TTick 2; TTick 3; TTick 11; TReset 20; TTick 25; TSetNext 30 31; TTick 40]
  = Some [(false, false, 3, 5, 0); (true, false, 6, 5, 1); (true, true, 12, 15, 3);
          (false, false, 23, 25, 3); (true, true, 26, 30, 3); (false, false, 30, 31, 3);
          (true, true, 42, 41, 3)]
  /\ every_cycle 7 0 3 2 = Some ([false; true; false; false; true; false; false], 8).
Proof. split; vm_compute; reflexivity. Qed.
