(* Property C10 -- assembling a program lays out code, data and labels consistently.
   Statements only; proofs are in Proofs/AsmProofs.v.  Model: Model/AsmLayout.v (the two passes of sc_asm.py over
   statement sizes), tied to Assembler.assemble on generated programs on every run. *)
From Coq Require Import NArith List Bool.
From BE Require Import Model.AsmLayout Proofs.AsmProofs.
Import ListNotations.
Open Scope N_scope.

(* for every program (any length, any labels, sections, literal .ORGs, statement sizes) over the built-in sections:
   each line is seen at the same address by pass one - which defines labels and sums sizes - and by pass two - which
   places the bytes -, everywhere except inside .bss, which emits nothing *)
Theorem C10_passes_agree : forall ls y, Forall plain_line ls -> assemble_layout ls = inl y ->
  forall k, (k < length (y_secs y))%nat -> nth k (y_secs y) 0 <> SEC_BSS -> nth k (y_addr1 y) 0 = nth k (y_addr2 y) 0.
Proof. exact passes_agree. Qed.
Print Assumptions C10_passes_agree.

(* a label takes the pass-one address of its own line *)
Theorem C10_label_is_line_address : forall a l a' lb, p1_line a l = inl a' -> l_label l = Some lb ->
  lookup (p_syms a') lb = Some (hd 0 (p_addrs a')).
Proof. exact label_value. Qed.
Print Assumptions C10_label_is_line_address.

(* non-vacuity: two sections, an .ORG, forward and backward labels *)
Example C10_example :
  match assemble_layout [ {| l_label := Some 1; l_stmt := Some (KBytes 3) |}; {| l_label := None; l_stmt := Some (KSection SEC_DATA) |};
                          {| l_label := Some 2; l_stmt := Some (KBytes 2) |}; {| l_label := None; l_stmt := Some (KSection SEC_CODE) |};
                          {| l_label := None; l_stmt := Some (KOrg (OLit 256)) |}; {| l_label := Some 3; l_stmt := Some (KBytes 1) |} ] with
  | inl y => y_syms y = [(1, 0); (2, 524288); (3, 256)] /\ y_place y = [(0, 3, true); (524288, 2, true); (256, 1, true)]
  | inr _ => False
  end.
Proof. vm_compute. split; reflexivity. Qed.
