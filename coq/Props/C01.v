(* Property C01 -- decoding any byte string is total, deterministic and consistent across consumers.
   Statements only.  `decode` is a function of the byte string alone (no address, no history), so
   determinism and independence from earlier decodes hold of the model by construction; that the code
   IS this function is what the correspondence run establishes on every invocation. *)
From Coq Require Import NArith List Bool.
From BE Require Import Model.TableTypes Gen.Tables Model.Decode Proofs.DecodeProofs.
Import ListNotations.
Open Scope N_scope.

(* Facts about the table and decoder source regenerated on this run (finite, complete comparison):
   - a disallowed-but-valid addressing mode is rejected with InvalidInstruction (not an AssertionError),
   - every reversed entry has exactly two operands, PRE entries have none,
   - all 256 opcodes have an entry, no entry has more than five operand bytes. *)
Theorem C01_tables_ok : tables_ok /\ table_complete = true /\ table_max_ok = true.
Proof. unfold tables_ok, no_assert. vm_compute. repeat split; reflexivity. Qed.
Print Assumptions C01_tables_ok.

(* Length is at least 1, at most the bytes supplied, at most 7; the bytes consumed re-encode exactly;
   and, except for a lone prefix byte, the result does not depend on any byte beyond its length. *)
Theorem C01_decode_len_bounds_and_prefix_independence : forall bs i,
  bytes_ok bs -> decode bs = DOk i ->
  (1 <= i_len i <= length bs)%nat /\ (i_len i <= 7)%nat /\
  (lone_pre i = false -> forall t, decode (firstn (i_len i) bs ++ t) = DOk i).
Proof.
  intros bs i Hb H. destruct C01_tables_ok as (Ht & _ & Hm).
  destruct (decode_spec bs i Ht Hb H) as (Hl & _ & Hi).
  split; [exact Hl|]. split; [|exact Hi].
  destruct Ht as [_ Hp]. exact (decode_len_le_7 bs i Hp Hm Hb H).
Qed.
Print Assumptions C01_decode_len_bounds_and_prefix_independence.

(* Whenever the instruction-info callback accepts, the text and IL callbacks accept with the same length
   and instruction, and the emulator fetches the same instruction whatever follows it in memory. *)
Theorem C01_consumers_agree : forall bs n i,
  bytes_ok bs -> c_info bs = CAccept n i ->
  c_text bs = CAccept n i /\ c_llil bs = CAccept n i /\
  (1 <= n <= length bs)%nat /\ n = i_len i /\
  forall t, c_emu (firstn n bs ++ t) = EFetch n i.
Proof. intros bs n i Hb H. destruct C01_tables_ok as (Ht & _). exact (consumers_agree bs n i Ht Hb H). Qed.
Print Assumptions C01_consumers_agree.

(* No byte string makes any consumer fail with an unexpected error. *)
Theorem C01_no_crash : forall bs, bytes_ok bs ->
  c_info bs <> CCrash /\ c_text bs <> CCrash /\ c_llil bs <> CCrash /\ c_emu bs <> ECrash.
Proof. intros bs Hb. destruct C01_tables_ok as (Ht & Hc & _). exact (no_crash bs Ht Hc Hb). Qed.
Print Assumptions C01_no_crash.

(* Non-vacuity: concrete accepted encodings (a fused prefix, a reversed entry, an offset form). *)
Example C01_example :
  (exists i, decode [0x32; 0xC8; 0x10; 0x20; 0xFF] = DOk i /\ i_len i = 4%nat /\ i_pre i = Some 0x32 /\ lone_pre i = false) /\
  (exists i, c_info [0xD6; 0x04; 0xA5] = CAccept 3 i) /\
  (exists i, decode [0x56; 0x84; 0x05; 0x0A] = DOk i /\ i_len i = 4%nat) /\
  decode [0x56; 0x04; 0x00] = DInvalid.
Proof. vm_compute. repeat split; eexists; repeat split; reflexivity. Qed.
