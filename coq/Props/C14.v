(* Property C14 -- keyboard reads show exactly the held keys on strobed columns; events ordered; FIFO bounded. *)
From Coq Require Import NArith List Bool.
From BE Require Import Gen.KbdTables Model.Kbd Proofs.KbdProofs.
Import ListNotations.
Open Scope N_scope.

(* KIL (with or without pending presses) shows row bit r exactly when some key of row r on a currently
   strobed column is debounced - or, for register reads, held long enough to debounce on this tick.
   Holds for every matrix state, both implementations (same function; polarity and KSD are in strobed_of). *)
Theorem C14_kil_sound_complete : forall cfg s pending r,
  N.testbit (kil_of cfg s pending) r = true <->
  exists code k, In (code, k) (keys s) /\ row_of code = r /\ strobed_of cfg s code = true /\
                 (k_deb k = true \/ (pending = true /\ k_pressed k = true /\ press_th cfg <= sat8 (k_pt k + 1))).
Proof. exact kil_sound_complete. Qed.
Print Assumptions C14_kil_sound_complete.

(* a key held on a strobed column is debounced (hence shown) after press_threshold scan ticks, and stays so *)
Theorem C14_debounce_complete_py : forall cfg n k,
  1 <= press_th cfg -> k_pressed k = true -> (N.to_nat (press_th cfg) <= n)%nat ->
  k_deb (ticks py_update cfg true n k) = true.
Proof. exact py_debounce_complete. Qed.
Print Assumptions C14_debounce_complete_py.

Theorem C14_debounce_complete_rs : forall cfg n k,
  1 <= press_th cfg -> press_th cfg <= 255 -> k_pressed k = true -> (N.to_nat (press_th cfg) <= n)%nat ->
  k_deb (ticks rs_update cfg true n k) = true.
Proof. exact rs_debounce_complete. Qed.
Print Assumptions C14_debounce_complete_rs.

(* after release the key stops being shown within release_threshold scan ticks, whatever the strobes do *)
Theorem C14_release_bounded_py : forall cfg n k,
  1 <= release_th cfg -> k_pressed k = false -> (N.to_nat (release_th cfg) <= n)%nat ->
  forall sts, length sts = n -> k_deb (fold_left (fun x st => fst (py_update cfg st x)) sts k) = false.
Proof. exact py_release_bounded. Qed.
Print Assumptions C14_release_bounded_py.

(* every scan-tick event is consistent with the debounced flag: press only when it rises, repeat only while
   it stays up on a held strobed key, release only when it falls (both implementations) *)
Theorem C14_event_flag_consistency :
  (forall cfg st k, let '(k', e) := py_update cfg st k in
      ev_ok (k_pressed k && st) (k_deb k) (k_deb k') e /\ k_pressed k' = k_pressed k) /\
  (forall cfg st k, let '(k', e) := rs_update cfg st k in
      ev_ok (k_pressed k && st) (k_deb k) (k_deb k') e /\ k_pressed k' = k_pressed k).
Proof. exact (conj py_update_ev rs_update_ev). Qed.
Print Assumptions C14_event_flag_consistency.

(* Python: for any history of presses, releases and scan ticks with arbitrary strobing, the events of a key
   form (Press Repeat* Release)*.
   The same statement for the Rust press/release entry points is false of the current tree: release clears the
   debounced flag without an event and a re-press resets it (known finding, Props/C14_refuted.v). *)
Theorem C14_events_well_ordered_py : forall cfg l k,
  let '(k', es) := py_khist cfg k l in wf_word (k_deb k) es = true.
Proof. exact py_events_well_ordered. Qed.
Print Assumptions C14_events_well_ordered_py.

(* the queue holds exactly the newest `cap` of the entries offered since it was last emptied: it is bounded
   and only ever drops its oldest entries *)
Theorem C14_fifo_is_suffix : forall cap evs q, (1 <= cap)%nat -> (length q <= cap)%nat ->
  fold_left (fifo_push cap) evs q = lastn cap (q ++ evs) /\
  (length (fold_left (fifo_push cap) evs q) <= cap)%nat.
Proof. exact fifo_is_suffix. Qed.
Print Assumptions C14_fifo_is_suffix.

Theorem C14_fifo_bounded :
  (forall cfg ops s, (length (fifo s) <= PY_CAP)%nat -> (length (fifo (fold_left (py_step cfg) ops s)) <= PY_CAP)%nat) /\
  (forall cfg irq ops s, (length (fifo s) <= RS_CAP)%nat -> (length (fifo (fold_left (rs_step cfg irq) ops s)) <= RS_CAP)%nat).
Proof. exact (conj py_fifo_bounded rs_fifo_bounded). Qed.
Print Assumptions C14_fifo_bounded.

(* the key interrupt bit is raised only when events are pending, the latch is set and keyboard IRQs are enabled *)
Theorem C14_keyi_gate : forall s enabled,
  let s' := rs_assert_keyi s enabled in
  (isr s' <> isr s -> keyi_latch s = true /\ fifo s <> [] /\ enabled = true) /\
  (isr s' = isr s \/ isr s' = N.lor (isr s) 4) /\
  fifo s' = fifo s /\ keys s' = keys s /\ latch s' = latch s.
Proof. exact rs_keyi_gate. Qed.
Print Assumptions C14_keyi_gate.

Theorem C14_layouts_equal : kbd_layouts_equal = true /\ py_fifo_size = rs_fifo_size /\
  py_default_press = rs_default_press /\ py_default_release = rs_default_release /\
  py_default_repeat_delay = rs_default_repeat_delay /\ py_default_repeat_interval = rs_default_repeat_interval.
Proof. vm_compute. repeat split; reflexivity. Qed.
Print Assumptions C14_layouts_equal.

Example C14_example :
  py_run {| press_th := 2; release_th := 2; rep_delay := 3; rep_interval := 2; active_high := true; rep_enabled := true |}
         (py_init {| press_th := 2; release_th := 2; rep_delay := 3; rep_interval := 2; active_high := true; rep_enabled := true |})
         [KKol 1; KPress 0; KTick; KTick; KRead; KTick; KTick; KTick; KTick; KRelease 0; KTick; KTick]
  = [[0; 0; 0; 0]; [0; 0; 0; 0]; [0; 0; 0; 0]; [1; 1; 1; 0; 0]; [1; 1; 1; 0; 0]; [0; 1; 1; 0; 0]; [1; 1; 2; 0; 0; 0];
     [0; 1; 2; 0; 0; 0]; [1; 1; 3; 0; 0; 0; 0]; [0; 1; 3; 0; 0; 0; 0]; [0; 1; 3; 0; 0; 0; 0]; [1; 0; 4; 0; 0; 0; 0; 128]].
Proof. vm_compute. reflexivity. Qed.
