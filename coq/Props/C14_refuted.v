(* Witnesses for the clauses of C14 that are false of the current tree (known findings). *)
From Coq Require Import NArith List Bool.
From BE Require Import Gen.KbdTables Model.Kbd Proofs.KbdProofs.
Import ListNotations.
Open Scope N_scope.

Definition cfg1 : kcfg := {| press_th := 1; release_th := 1; rep_delay := 24; rep_interval := 6; active_high := true; rep_enabled := true |}.

(* Rust: press, debounce (press event), release: no release event ever follows; pressing again gives a second press *)
Theorem C14_rs_no_release_event :
  map (fun o => skipn 4 o) (rs_run cfg1 true rs_init [KKol 1; KPress 0; KTick; KRelease 0; KTick; KTick; KTick; KPress 0; KTick])
  = [[]; []; [0]; [0]; [0]; [0]; [0]; [0]; [0; 0]].
Proof. vm_compute. reflexivity. Qed.
Print Assumptions C14_rs_no_release_event.
