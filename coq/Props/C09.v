(* Property C09 -- disassembled text reassembles to an equivalent instruction.
   The assembler's parser and template matching are not modelled (they are exercised on every accepted encoding by
   the round-trip check); what is proved is the part that decides addressing: the prefix byte the assembler selects
   from the addressing modes written in the text (REVERSE_PRE_TABLE, SINGLE_OPERAND_PRE_LOOKUP) is the prefix the
   decoder maps back to exactly those modes (PRE_TABLE, Instruction._addressing_modes).  Tables are regenerated
   from the source on every run (Gen/Tables.v). *)
From Coq Require Import NArith List Bool.
From BE Require Import Model.TableTypes Gen.Tables Model.Lift.
Import ListNotations.
Open Scope N_scope.

Definition imode_eqb (a b : imode) : bool :=
  match a, b with
  | IM_N, IM_N | IM_BP_N, IM_BP_N | IM_PX_N, IM_PX_N | IM_PY_N, IM_PY_N | IM_BP_PX, IM_BP_PX | IM_BP_PY, IM_BP_PY => true
  | _, _ => false
  end.

Fixpoint rev_lookup (l : list ((imode * imode) * N)) (a b : imode) : option N :=
  match l with
  | [] => None
  | ((x, y), p) :: t => if imode_eqb a x && imode_eqb b y then Some p else rev_lookup t a b
  end.

(* every mode pair the disassembler can show for a prefixed two-operand instruction is assembled with the very
   prefix it was decoded from *)
Theorem C09_pair_prefix_roundtrip :
  forallb (fun e => let '(p, a, b) := e in match rev_lookup py_reverse_pre_table a b with Some q => q =? p | None => false end)
          py_pre_table = true.
Proof. vm_compute. reflexivity. Qed.
Print Assumptions C09_pair_prefix_roundtrip.

(* and every prefix the assembler can select for a pair decodes to that pair *)
Theorem C09_selected_prefix_decodes_to_pair :
  forallb (fun e => let '((a, b), p) := e in
                    match pre_lookup py_pre_table p with Some (x, y) => imode_eqb a x && imode_eqb b y | None => false end)
          py_reverse_pre_table = true.
Proof. vm_compute. reflexivity. Qed.
Print Assumptions C09_selected_prefix_decodes_to_pair.

(* single internal-memory operand: for the modes the disassembler can show in that position - (BP+n), (PX+n), (BP+PX);
   (n) needs no prefix - the prefix the assembler selects has that mode in its first slot, which is the slot the
   decoder applies to a lone operand *)
Theorem C09_single_operand_prefix_partial :
  forallb (fun e => let '(m, p) := e in
                    match m with
                    | IM_BP_N | IM_PX_N | IM_BP_PX =>
                        match pre_lookup py_pre_table p with Some (x, _) => imode_eqb m x | None => false end
                    | _ => true
                    end) py_single_operand_pre = true.
Proof. vm_compute. reflexivity. Qed.
Print Assumptions C09_single_operand_prefix_partial.
