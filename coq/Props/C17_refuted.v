(* Witnesses for the clauses of C17 that are false of the current tree (known findings).
   Compiled separately: if one of these stops compiling the finding no longer reproduces. *)
From Coq Require Import NArith List String Bool.
From BE Require Import Model.TableTypes Gen.Tables Proofs.TablesProofs.
Import ListNotations.
Open Scope N_scope.

Theorem C17_opcode_tables_agree_refuted : opcode_tables_agree_b py_opcodes rs_opcodes = false.
Proof. vm_compute. reflexivity. Qed.
Print Assumptions C17_opcode_tables_agree_refuted.

(* the reset vector: Python's RESET intrinsic reads 0xFFFFA, ENTRY_POINT_ADDR and the Rust core use 0xFFFFD *)
Theorem C17_reset_vector_refuted : py_reset_vector_used <> rs_reset_vector.
Proof. vm_compute. discriminate. Qed.
Print Assumptions C17_reset_vector_refuted.
