(* Property C04 -- the lifted IL computes the documented result and flags for every operand value.
   Statements only; proofs are in Proofs/AluProofs.v, ExecProofs.v, ExecProofs2.v, ExecMemProofs.v, ExecAluMemProofs.v, ExecLoopProofs.v, ExecRmwProofs.v, ExecRmwProofs2.v, ExecMvMemProofs.v, ExecExProofs.v, ExecStackProofs.v and ExecStackProofs2.v.
   Model: Model/IL.v (evaluator) + Model/Lift.v (lifter), tied to the Python code by IL-text and execution
   correspondence on every run; documented semantics: Model/Spec.v (README instruction tables). *)
From Coq Require Import ZArith NArith List Bool.
From BE Require Import Model.TableTypes Gen.Tables Model.Regs Model.Decode Model.IL Model.Lift Model.Static Model.Spec
  Model.Emu Proofs.AluProofs Proofs.ExecProofs Proofs.AccessProofs Proofs.ExecProofs2 Proofs.ExecProofs3 Proofs.ExecMemProofs Proofs.ExecPtrProofs Proofs.ExecStackProofs Proofs.ExecStackProofs2 Proofs.ExecAluDefs Proofs.ExecAluMemProofs Proofs.ExecLoopProofs Proofs.ExecRmwDefs Proofs.ExecRmwProofs Proofs.ExecRmwProofs2 Proofs.ExecMvMemProofs Proofs.ExecExProofs.
Import ListNotations.
Open Scope Z_scope.

(* ADD / SUB (and CMP*, INC, DEC, which the lifter builds from them) at any operand width and for all operand
   values: masked result, carry/borrow and zero are the documented ones *)
Theorem C04_add_any_width : forall (w : N) (a b : Z),
  eval_binop B_ADD w a b =
  Some (r_val (alu_add (2 ^ bits w) a b 0), r_c (alu_add (2 ^ bits w) a b 0), r_z (alu_add (2 ^ bits w) a b 0)).
Proof. exact il_add_documented. Qed.
Print Assumptions C04_add_any_width.

Theorem C04_sub_any_width : forall (w : N) (a b : Z),
  eval_binop B_SUB w a b =
  Some (r_val (alu_sub (2 ^ bits w) a b 0), r_c (alu_sub (2 ^ bits w) a b 0), r_z (alu_sub (2 ^ bits w) a b 0)).
Proof. exact il_sub_documented. Qed.
Print Assumptions C04_sub_any_width.

(* every 8-bit two-operand operation, all 2^8 x 2^8 operand pairs x carry-in x zero-in: the expression the lifter
   builds evaluates to the documented value and flags; flags documented as unaffected keep their value *)
Theorem C04_alu8_two_operand : forall cls, In cls [I_ADD; I_SUB; I_ADC; I_SBC; I_AND; I_OR; I_XOR; I_PMDF] ->
  forall a b c z, 0 <= a < 256 -> 0 <= b < 256 -> 0 <= c <= 1 -> 0 <= z <= 1 -> ok2 cls a b c z = true.
Proof.
  intros cls Hin. apply sweep2_all.
  cbn [In] in Hin.
  destruct Hin as [<-|[<-|[<-|[<-|[<-|[<-|[<-|[<-|[]]]]]]]]];
    [exact sweep_add | exact sweep_sub | exact sweep_adc | exact sweep_sbc | exact sweep_and | exact sweep_or | exact sweep_xor | exact sweep_pmdf].
Qed.
Print Assumptions C04_alu8_two_operand.

Theorem C04_alu8_one_operand : forall cls, In cls [I_INC; I_DEC; I_ROR; I_ROL; I_SHL; I_SHR; I_SWAP] ->
  forall a c z, 0 <= a < 256 -> 0 <= c <= 1 -> 0 <= z <= 1 -> ok1 cls a c z = true.
Proof.
  intros cls Hin. apply sweep1_all.
  cbn [In] in Hin.
  destruct Hin as [<-|[<-|[<-|[<-|[<-|[<-|[<-|[]]]]]]]];
    [exact sweep_inc | exact sweep_dec | exact sweep_ror | exact sweep_rol | exact sweep_shl | exact sweep_shr | exact sweep_swap].
Qed.
Print Assumptions C04_alu8_one_operand.

(* BCD: the statements emitted by bcd_add_emul / bcd_sub_emul, run by the evaluator, compute the documented packed
   BCD byte function for all 2^17 inputs, and on valid BCD digits that function is decimal addition/subtraction
   with carry/borrow *)
Theorem C04_bcd_il : forall subtract a b c, 0 <= a < 256 -> 0 <= b < 256 -> 0 <= c <= 1 -> bcd_ok subtract a b c = true.
Proof. intros [|]; [exact (bcd_sweep_all true bcd_sub_sweep) | exact (bcd_sweep_all false bcd_add_sweep)]. Qed.
Print Assumptions C04_bcd_il.

Theorem C04_bcd_is_decimal : forall a b c, 0 <= a < 256 -> 0 <= b < 256 -> 0 <= c <= 1 ->
  dec_add_ok a b c = true /\ dec_sub_ok a b c = true.
Proof. intros a b c Ha Hb Hc. split; [exact (dec_sweep_all _ dec_add_sweep a b c Ha Hb Hc) | exact (dec_sweep_all _ dec_sub_sweep a b c Ha Hb Hc)]. Qed.
Print Assumptions C04_bcd_is_decimal.

(* instruction level, full strength: for ADD/SUB/ADC/SBC/AND/OR/XOR A,n the model execution of the lifted IL succeeds and
   its final registers, flags, memory and low-power flag are exactly the documented ones, for every operand value,
   every address and every surrounding state (the frame condition "changes nothing else" included) *)
Theorem C04_alu_A_imm_exact : forall n, (n < 256)%N ->
  exec_is_spec (mk_instr 64 [OReg RA 1; OImm8 n] 2) 64 /\
  exec_is_spec (mk_instr 72 [OReg RA 1; OImm8 n] 2) 72 /\
  exec_is_spec (mk_instr 80 [OReg RA 1; OImm8 n] 2) 80 /\
  exec_is_spec (mk_instr 88 [OReg RA 1; OImm8 n] 2) 88 /\
  exec_is_spec (mk_instr 112 [OReg RA 1; OImm8 n] 2) 112 /\
  exec_is_spec (mk_instr 120 [OReg RA 1; OImm8 n] 2) 120 /\
  exec_is_spec (mk_instr 104 [OReg RA 1; OImm8 n] 2) 104.
Proof.
  intros n Hn. repeat split;
    [exact (add_A_imm n Hn) | exact (sub_A_imm n Hn) | exact (adc_A_imm n Hn) | exact (sbc_A_imm n Hn) | exact (and_A_imm n Hn) | exact (or_A_imm n Hn) | exact (xor_A_imm n Hn)].
Qed.
Print Assumptions C04_alu_A_imm_exact.

(* the table entries those theorems speak about are the ADD/SUB/AND/OR/XOR A,n entries of the regenerated table *)
Theorem C04_opcodes_are_the_tables : forallb (fun oc =>
    match d_cls (entry_of (fst oc)), snd oc with
    | I_ADD, I_ADD | I_SUB, I_SUB | I_ADC, I_ADC | I_SBC, I_SBC | I_AND, I_AND | I_OR, I_OR | I_XOR, I_XOR => true | _, _ => false end
    && match d_ops (entry_of (fst oc)) with [PReg RA 1; PImm8] => true | _ => false end) alu_imm_opcodes = true.
Proof. exact opcodes_table_check. Qed.
Print Assumptions C04_opcodes_are_the_tables.

(* same strength for CMP / TEST / MV A,n and for ROR, ROL, SHR, SHL, SWAP A (carry-in included, flags an instruction is
   documented not to affect preserved) *)
Theorem C04_cmp_test_mv_A_imm_exact : forall n, (n < 256)%N ->
  exec_is_spec (mk_instr 96 [OReg RA 1; OImm8 n] 2) 96 /\
  exec_is_spec (mk_instr 100 [OReg RA 1; OImm8 n] 2) 100 /\
  exec_is_spec (mk_instr 8 [OReg RA 1; OImm8 n] 2) 8.
Proof. intros n Hn. repeat split; [exact (cmp_A_imm n Hn) | exact (test_A_imm n Hn) | exact (mv_A_imm n Hn)]. Qed.
Print Assumptions C04_cmp_test_mv_A_imm_exact.

Theorem C04_rotate_shift_swap_A_exact :
  exec_is_spec (mk_instr 228 [OReg RA 1] 1) 228 /\ exec_is_spec (mk_instr 230 [OReg RA 1] 1) 230 /\
  exec_is_spec (mk_instr 244 [OReg RA 1] 1) 244 /\ exec_is_spec (mk_instr 246 [OReg RA 1] 1) 246 /\
  exec_is_spec (mk_instr 238 [OReg RA 1] 1) 238.
Proof. repeat split; [exact ror_A | exact rol_A | exact shr_A | exact shl_A | exact swap_A]. Qed.
Print Assumptions C04_rotate_shift_swap_A_exact.

(* internal-memory forms, with no prefix and with each of the 15 prefixes (the cell is the one the prefix's addressing mode
   names, BP/PX/PY taken from the state), byte memory: MV r,(n) for r = A, BA, I, X, Y, U, S (widths 1, 2, 3) load exactly
   the little-endian content of the cell into r; MV (n),r and MV/MVW (n),imm store exactly the value's bytes into the cell;
   every other register, flag and byte is untouched *)
Theorem C04_mv_load_imem_exact :
  load_is_spec 128 (fun n => [OReg RA 1; OIMem 1 n]) /\ load_is_spec 130 (fun n => [OReg RBA 2; OIMem 2 n]) /\
  load_is_spec 131 (fun n => [OReg RI 2; OIMem 2 n]) /\ load_is_spec 132 (fun n => [OReg RX 3; OIMem 3 n]) /\
  load_is_spec 133 (fun n => [OReg RY 3; OIMem 3 n]) /\ load_is_spec 134 (fun n => [OReg RU 3; OIMem 3 n]) /\
  load_is_spec 135 (fun n => [OReg RS 3; OIMem 3 n]).
Proof. repeat split; [exact mv_A_imem | exact mv_BA_imem | exact mv_I_imem | exact mv_X_imem | exact mv_Y_imem | exact mv_U_imem | exact mv_S_imem]. Qed.
Print Assumptions C04_mv_load_imem_exact.

Theorem C04_mv_store_imem_exact :
  store_is_spec 160 (fun n => [OIMem 1 n; OReg RA 1]) 2 /\ store_is_spec 162 (fun n => [OIMem 2 n; OReg RBA 2]) 2 /\
  store_is_spec 163 (fun n => [OIMem 2 n; OReg RI 2]) 2 /\ store_is_spec 164 (fun n => [OIMem 3 n; OReg RX 3]) 2 /\
  store_imm_is_spec 204 (fun n k => [OIMem 1 n; OImm8 k]) 3 /\ store_imm_is_spec 205 (fun n k => [OIMem 2 n; OImm16 k]) 4.
Proof. repeat split; [exact mv_imem_A | exact mv_imem_BA | exact mv_imem_I | exact mv_imem_X | exact mv_imem_imm8 | exact mvw_imem_imm16]. Qed.
Print Assumptions C04_mv_store_imem_exact.

(* ALU with an internal-memory source: ADD/SUB/ADC/SBC/AND/OR/XOR A,(n), with no prefix and with each of the 15 prefixes, every
   n, every carry-in, byte memory: A, C and Z (Z only for the logic operations) are exactly the documented function of A, the
   byte in the cell the prefix's addressing mode names and C; nothing else architectural changes *)
Theorem C04_alu_A_imem_exact :
  alu_mem_is_spec 66 /\ alu_mem_is_spec 74 /\ alu_mem_is_spec 82 /\ alu_mem_is_spec 90 /\
  alu_mem_is_spec 119 /\ alu_mem_is_spec 127 /\ alu_mem_is_spec 111 /\
  map (fun o => (d_cls (entry_of o), d_ops (entry_of o))) [66; 74; 82; 90; 119; 127; 111]%N =
  map (fun c => (c, [PReg RA 1; PIMem 1])) [I_ADD; I_SUB; I_ADC; I_SBC; I_AND; I_OR; I_XOR].
Proof. split; [|split; [|split; [|split; [|split; [|split; [|split; [|exact alu_mem_opcodes_check]]]]]]]; [exact add_A_imem | exact sub_A_imem | exact adc_A_imem | exact sbc_A_imem | exact and_A_imem | exact or_A_imem | exact xor_A_imem]. Qed.
Print Assumptions C04_alu_A_imem_exact.

(* transfers between two internal-memory operands: MV / MVW / MVP (m),(n) (1, 2, 3 bytes), no prefix and each of the 15 prefixes,
   every m and n, byte memory: the destination cell - named by the FIRST addressing mode of the prefix - receives exactly the
   little-endian content of the source cell - named by the SECOND mode - and nothing else architectural changes; the modes are
   the entries of the regenerated prefix table (checked in the kernel for all 16 choices) *)
Theorem C04_mv_imem_imem_exact :
  mvmm_is_spec 200 1 /\ mvmm_is_spec 201 2 /\ mvmm_is_spec 202 3 /\
  map (fun o => (d_cls (entry_of o), d_ops (entry_of o))) [200; 201; 202]%N =
    [(I_MV, [PIMem 1; PIMem 1]); (I_MV, [PIMem 2; PIMem 2]); (I_MV, [PIMem 3; PIMem 3])] /\
  forallb (fun c => match c with
                    | None => match render_ops (mk_pre None 200 [OIMem 1 5; OIMem 1 9] 3) with Some [(_, IM_BP_N); (_, IM_BP_N)] => true | _ => false end
                    | Some p => match render_ops (mk_pre (Some p) 200 [OIMem 1 5; OIMem 1 9] 4), mode_of (Some p) false, mode_of (Some p) true with
                                | Some [(_, m1); (_, m2)], Some a, Some b => imode_eqb m1 a && imode_eqb m2 b
                                | _, _, _ => false end
                    end) pre_choices = true.
Proof.
  split; [exact mv_imem_imem|]. split; [exact mvw_imem_imem|]. split; [exact mvp_imem_imem|].
  split; [exact mvmm_opcodes_check | exact mvmm_modes_are_the_prefix_table].
Qed.
Print Assumptions C04_mv_imem_imem_exact.

(* EX (m),(n), byte exchange between two internal-memory operands, no prefix and each of the 15 prefixes, every m and n: the two
   cells - first operand through the prefix's first mode, second through its second mode, for the reads AND the write-backs -
   swap their bytes and nothing else architectural changes (scratch registers outside the comparison).  Guard: the first operand
   is not the BP, PX or PY cell itself - the lifted IL re-reads those cells to address the second write (recorded finding) *)
Theorem C04_ex_imem_imem_exact_partial :
  (forall c, In c pre_choices -> forall n1 n2, (n1 < 256)%N -> (n2 < 256)%N -> forall addr s, mem_wf s -> TWx s ->
   forall dm, mode_of c false = Some dm ->
   fst (imem_cell s dm n1) <> imem py_imem_BP -> fst (imem_cell s dm n1) <> imem py_imem_PX -> fst (imem_cell s dm n1) <> imem py_imem_PY ->
   exists s' t, exec_decoded (mk_pre c 192 [OIMem 1 n1; OIMem 1 n2] 3) (first_byte c 192) addr s = XOk s' /\
                spec_exec (mk_pre c 192 [OIMem 1 n1; OIMem 1 n2] 3) addr s = Some t /\ arch_eqT s' t) /\
  (d_cls (entry_of 192), d_ops (entry_of 192)) = (I_EX, [PIMem 1; PIMem 1]).
Proof. split; [exact ex_imem_imem | exact ex_opcode_check]. Qed.
Print Assumptions C04_ex_imem_imem_exact_partial.

(* read-modify-write on internal memory: ADD/SUB/ADC/SBC/AND/OR/XOR (n),imm and (n),A, INC/DEC (n), with no prefix and with each
   of the 15 prefixes, every n, every immediate, every carry-in, byte memory: the cell the prefix's addressing mode names holds
   exactly the documented result, C and Z (Z only for the logic operations and INC/DEC) are as documented, and no other
   register, flag or byte changes *)
Theorem C04_alu_imem_destination_exact :
  (forall opc, In opc [65; 73; 81; 89; 113; 121; 105]%N -> rmw_is_spec opc (fun n k => [OIMem 1 n; OImm8 k]) 3) /\
  (forall opc, In opc [67; 75; 83; 91; 115; 123; 107]%N -> rmw_is_spec opc (fun n _ => [OIMem 1 n; OReg RA 1]) 2) /\
  (forall opc, In opc [109; 125]%N -> rmw_is_spec opc (fun n _ => [OIMem 1 n]) 2) /\
  map (fun o => (d_cls (entry_of o), d_ops (entry_of o))) [65; 73; 81; 89; 113; 121; 105; 67; 75; 83; 91; 115; 123; 107; 109; 125]%N =
  map (fun c => (c, [PIMem 1; PImm8])) [I_ADD; I_SUB; I_ADC; I_SBC; I_AND; I_OR; I_XOR] ++
  map (fun c => (c, [PIMem 1; PReg RA 1])) [I_ADD; I_SUB; I_ADC; I_SBC; I_AND; I_OR; I_XOR] ++
  [(I_INC, [PIMem 1]); (I_DEC, [PIMem 1])].
Proof.
  split; [intros opc [<- | [<- | [<- | [<- | [<- | [<- | [<- | []]]]]]]];
          [exact add_imem_imm | exact sub_imem_imm | exact adc_imem_imm | exact sbc_imem_imm | exact and_imem_imm | exact or_imem_imm | exact xor_imem_imm]|].
  split; [intros opc [<- | [<- | [<- | [<- | [<- | [<- | [<- | []]]]]]]];
          [exact add_imem_A | exact sub_imem_A | exact adc_imem_A | exact sbc_imem_A | exact and_imem_A | exact or_imem_A | exact xor_imem_A]|].
  split; [intros opc [<- | [<- | []]]; [exact inc_imem | exact dec_imem]|exact rmw_opcodes_check].
Qed.
Print Assumptions C04_alu_imem_destination_exact.

(* counted instructions for EVERY count: MVL (m),(n) and MVLD (m),(n) with no prefix and with each of the 15 prefixes, every m
   and n, every I = 0 .. 65535 (induction over the iterations of the lifted label/if/goto loop, no bound on their number): the
   emulator loop terminates within the fuel it grants, the result is exactly the documented block move - byte k of the source
   run goes to byte k of the destination run, both runs wrapping inside internal memory, ascending for MVL and descending for
   MVLD, one byte at a time so overlapping runs smear as documented - I ends at 0 and nothing else architectural changes
   (scratch registers outside the comparison).
   Hypotheses: byte memory, 14 scratch registers, I is a 16-bit value (every register file written through Registers.set is) *)
Theorem C04_mvl_imem_any_count :
  (forall opc, In opc [203; 207]%N ->
   forall c, In c pre_choices -> forall n1 n2, (n1 < 256)%N -> (n2 < 256)%N -> forall addr s,
     mem_wf s -> TW s -> (py_get (rg s) gI < 65536)%N ->
     exists s' t, exec_decoded (mk_pre c opc [OIMem 1 n1; OIMem 1 n2] 3) (first_byte c opc) addr s = XOk s' /\
                  spec_exec (mk_pre c opc [OIMem 1 n1; OIMem 1 n2] 3) addr s = Some t /\ arch_eqT s' t) /\
  (d_cls (entry_of 203), d_ops (entry_of 203)) = (I_MVL, [PIMem 1; PIMem 1]) /\
  (d_cls (entry_of 207), d_ops (entry_of 207)) = (I_MVLD, [PIMem 1; PIMem 1]).
Proof.
  split; [|exact mvl_opcode_check].
  intros opc [<- | [<- | []]]; [exact mvl_imem_imem | exact mvld_imem_imem].
Qed.
Print Assumptions C04_mvl_imem_any_count.

Example C04_mvl_hypotheses_satisfiable :
  mem_wf mvl_example_state /\ TW mvl_example_state /\ (py_get (rg mvl_example_state) gI < 65536)%N /\ py_get (rg mvl_example_state) gI = 40000%N.
Proof. destruct mvl_hypotheses_satisfiable as (A & B & C). split; [exact A|split; [exact B|split; [exact C|vm_compute; reflexivity]]]. Qed.

(* register-indirect forms: MV A,[r] / [r++] / [--r] / [r+n] / [r-n] and the stores MV [..],A, for r = X, Y, U, S and every
   offset byte: the byte read / written is the one the operand denotes, the pointer is updated as documented (post-increment
   after, pre-decrement before the access, 20-bit register), nothing else architectural changes.  The IL's scratch register
   TEMP1 is outside the comparison (arch_eqT); byte memory and a full scratch-register file are assumed *)
Theorem C04_mv_pointer_forms_exact :
  (forall m r, In (m, r) simple_modes -> ptr_is_spec (mk_instr 144 [OReg RA 1; OEMemReg 1 m None] 2) 144) /\
  (forall m r, In (m, r) inc_modes -> ptr_is_spec (mk_instr 144 [OReg RA 1; OEMemReg 1 m None] 2) 144) /\
  (forall m r, In (m, r) dec_modes -> ptr_is_spec (mk_instr 144 [OReg RA 1; OEMemReg 1 m None] 2) 144) /\
  (forall m r n, In (m, r) plus_modes -> ptr_is_spec (mk_instr 144 [OReg RA 1; OEMemReg 1 m (Some n)] 3) 144) /\
  (forall m r n, In (m, r) minus_modes -> ptr_is_spec (mk_instr 144 [OReg RA 1; OEMemReg 1 m (Some n)] 3) 144) /\
  (forall m r, In (m, r) simple_modes -> ptr_is_spec (mk_instr 176 [OEMemReg 1 m None; OReg RA 1] 2) 176) /\
  (forall m r, In (m, r) inc_modes -> ptr_is_spec (mk_instr 176 [OEMemReg 1 m None; OReg RA 1] 2) 176) /\
  (forall m r, In (m, r) dec_modes -> ptr_is_spec (mk_instr 176 [OEMemReg 1 m None; OReg RA 1] 2) 176) /\
  (forall m r n, In (m, r) plus_modes -> ptr_is_spec (mk_instr 176 [OEMemReg 1 m (Some n); OReg RA 1] 3) 176) /\
  (forall m r n, In (m, r) minus_modes -> ptr_is_spec (mk_instr 176 [OEMemReg 1 m (Some n); OReg RA 1] 3) 176) /\
  ((d_cls (entry_of 144), d_ops (entry_of 144)) = (I_MV, [PReg RA 1; PEMemReg 1 None]) /\
   (d_cls (entry_of 176), d_ops (entry_of 176)) = (I_MV, [PEMemReg 1 None; PReg RA 1])).
Proof.
  split; [exact mv_A_simple|]. split; [exact mv_A_postinc|]. split; [exact mv_A_predec|]. split; [exact mv_A_plus|].
  split; [exact mv_A_minus|]. split; [exact mv_simple_A|]. split; [exact mv_postinc_A|]. split; [exact mv_predec_A|].
  split; [exact mv_plus_A|]. split; [exact mv_minus_A|]. exact ptr_opcodes_check.
Qed.
Print Assumptions C04_mv_pointer_forms_exact.

(* INC / DEC of A, BA and I (result wraps at the register's width, Z from the result, C untouched) and the user-stack
   instructions PUSHU A (needs U >= 1) / POPU A: exactly the documented effect *)
Theorem C04_incdec_reg_exact :
  exec_is_spec (mk_instr 108 [OReg3 0] 2) 108 /\ exec_is_spec (mk_instr 108 [OReg3 2] 2) 108 /\ exec_is_spec (mk_instr 108 [OReg3 3] 2) 108 /\
  exec_is_spec (mk_instr 124 [OReg3 0] 2) 124 /\ exec_is_spec (mk_instr 124 [OReg3 2] 2) 124 /\ exec_is_spec (mk_instr 124 [OReg3 3] 2) 124 /\
  ((d_cls (entry_of 108), d_ops (entry_of 108)) = (I_INC, [PReg3]) /\ (d_cls (entry_of 124), d_ops (entry_of 124)) = (I_DEC, [PReg3])).
Proof.
  split; [exact inc_A|]. split; [exact inc_BA|]. split; [exact inc_I|]. split; [exact dec_A|]. split; [exact dec_BA|]. split; [exact dec_I|].
  exact incdec_opcodes_check.
Qed.
Print Assumptions C04_incdec_reg_exact.

Theorem C04_pushu_popu_A_exact :
  stack_is_spec (mk_instr 40 [OReg RA 1] 1) 40 (fun s => 1 <= getr s gU) /\
  stack_is_spec (mk_instr 56 [OReg RA 1] 1) 56 (fun _ => True) /\
  ((d_cls (entry_of 40), d_ops (entry_of 40)) = (I_PUSHU, [PReg RA 1]) /\ (d_cls (entry_of 56), d_ops (entry_of 56)) = (I_POPU, [PReg RA 1])).
Proof. split; [exact pushu_A|]. split; [exact popu_A|]. exact stack_opcodes_check. Qed.
Print Assumptions C04_pushu_popu_A_exact.

(* the same for IL (one byte, the low byte of I; POPU IL clears the high byte of I) and the 2- and 3-byte registers: PUSHU BA / I / X / Y store the register little-endian at U-w (w = 2, 2, 3, 3; needs
   U >= w) and leave U-w in U; POPU BA / I / X / Y load the w bytes at U (little-endian) into the register and leave U+w in U; every
   other register, flag and byte is untouched, for every state *)
Theorem C04_pushu_popu_wide_exact :
  stack_is_spec (mk_instr 41 [ORegIL] 1) 41 (fun s => 1 <= getr s gU) /\
  stack_is_spec (mk_instr 42 [OReg RBA 2] 1) 42 (fun s => 2 <= getr s gU) /\
  stack_is_spec (mk_instr 43 [OReg RI 2] 1) 43 (fun s => 2 <= getr s gU) /\
  stack_is_spec (mk_instr 44 [OReg RX 3] 1) 44 (fun s => 3 <= getr s gU) /\
  stack_is_spec (mk_instr 45 [OReg RY 3] 1) 45 (fun s => 3 <= getr s gU) /\
  stack_is_spec (mk_instr 57 [ORegIL] 1) 57 (fun _ => True) /\
  stack_is_spec (mk_instr 58 [OReg RBA 2] 1) 58 (fun _ => True) /\
  stack_is_spec (mk_instr 59 [OReg RI 2] 1) 59 (fun _ => True) /\
  stack_is_spec (mk_instr 60 [OReg RX 3] 1) 60 (fun _ => True) /\
  stack_is_spec (mk_instr 61 [OReg RY 3] 1) 61 (fun _ => True) /\
  map (fun o => (d_cls (entry_of o), d_ops (entry_of o))) [41; 42; 43; 44; 45; 57; 58; 59; 60; 61]%N =
  map (fun r => (I_PUSHU, [r])) [PRegIL; PReg RBA 2; PReg RI 2; PReg RX 3; PReg RY 3] ++
  map (fun r => (I_POPU, [r])) [PRegIL; PReg RBA 2; PReg RI 2; PReg RX 3; PReg RY 3].
Proof.
  split; [exact pushu_IL|]. split; [exact pushu_BA|]. split; [exact pushu_I|]. split; [exact pushu_X|]. split; [exact pushu_Y|].
  split; [exact popu_IL|]. split; [exact popu_BA|]. split; [exact popu_I|]. split; [exact popu_X|]. split; [exact popu_Y|]. exact stack_opcodes_check2.
Qed.
Print Assumptions C04_pushu_popu_wide_exact.

(* non-vacuity of the stack theorems: a concrete PUSHU X then POPU Y moves X into Y through memory *)
Example C04_stack_example :
  match exec_decoded (mk_instr 44 [OReg RX 3] 1) 44 4096 (mk_state 0x1290 7 0x12345 2 0x800 4 2 (repeat 0%N 14) [] 0) with
  | XOk s1 => match exec_decoded (mk_instr 61 [OReg RY 3] 1) 61 4097 s1 with
              | XOk s2 => map (py_get (rg s2)) [gX; gY; gU] = [0x12345; 0x12345; 0x800]%N
              | _ => False end
  | _ => False
  end.
Proof. vm_compute. reflexivity. Qed.

Theorem C04_more_opcodes_are_the_tables :
  (forallb (fun oc => match d_cls (entry_of (fst oc)), snd oc with
                      | I_ROR, I_ROR | I_ROL, I_ROL | I_SHR, I_SHR | I_SHL, I_SHL | I_SWAP, I_SWAP => true | _, _ => false end
                      && match d_ops (entry_of (fst oc)) with [PReg RA 1] => true | _ => false end) alu_A_opcodes = true /\
   match d_cls (entry_of 96), d_cls (entry_of 100), d_cls (entry_of 8) with I_CMP, I_TEST, I_MV => true | _, _, _ => false end = true) /\
  map (fun x => (d_cls (entry_of (fst x)), d_ops (entry_of (fst x)))) mem_form_opcodes = map (fun x => (I_MV, snd x)) mem_form_opcodes /\
  (forallb (fun c => match c with None => true | Some p => existsb (fun q => (fst (fst q) =? p)%N) py_pre_table end) pre_choices = true /\
   length py_pre_table = 15%nat).
Proof. exact (conj alu_A_opcodes_check (conj mem_form_opcodes_check pre_choices_are_the_table)). Qed.
Print Assumptions C04_more_opcodes_are_the_tables.

(* non-vacuity: a concrete instruction, state and result *)
Example C04_example :
  match exec_decoded (mk_instr 64 [OReg RA 1; OImm8 200] 2) 64 4096
          (mk_state 0x1290 7 1 2 3 4 2 (repeat 0%N 14) [] 0) with
  | XOk s => map (py_get (rg s)) [gA; gB; gFC; gFZ; gPC; gI] = [88; 18; 1; 0; 4098; 7]%N
  | _ => False
  end.
Proof. vm_compute. reflexivity. Qed.
