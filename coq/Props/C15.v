(* Property C15 -- LCD controllers follow the HD61202 protocol and map VRAM to pixels one-to-one. *)
From Coq Require Import NArith List Bool.
From BE Require Import Model.Lcd Proofs.LcdProofs.
Import ListNotations.
Open Scope N_scope.

(* every state reachable by any sequence of accesses keeps start line < 64, page < 8, column < 64, 512-byte VRAM *)
Theorem C15_reachable_wf : forall ops,
  lcd_wf (state_after py_write lcd0 ops) /\ lcd_wf (state_after rs_write lcd0 ops).
Proof. exact reachable_wf. Qed.
Print Assumptions C15_reachable_wf.

(* chip-select decoding inside both windows: bit0 R/W, bit1 D/I, bits 2-3: both, right, left, none *)
Theorem C15_select_law : forall a, in_window a = true -> decode_access a = decode_spec (a mod 16).
Proof. exact select_law. Qed.
Print Assumptions C15_select_law.

Theorem C15_instr_law : forall v, v < 256 ->
  parse_value v =
    if v <? 64 then (I_ONOFF, v mod 2) else if v <? 128 then (I_SETY, v mod 64)
    else if v <? 192 then (I_SETPAGE, v mod 8) else (I_STARTLINE, v mod 64).
Proof. exact instr_law. Qed.
Print Assumptions C15_instr_law.

Theorem C15_instr_effect : forall c i d,
  let c' := chip_instr c i d in
  c_vram c' = c_vram c /\ c_busy c' = true /\
  match i with
  | I_ONOFF => c_on c' = negb (d =? 0) /\ c_start c' = c_start c /\ c_page c' = c_page c /\ c_y c' = c_y c
  | I_STARTLINE => c_start c' = d /\ c_on c' = c_on c /\ c_page c' = c_page c /\ c_y c' = c_y c
  | I_SETPAGE => c_page c' = d /\ c_on c' = c_on c /\ c_start c' = c_start c /\ c_y c' = c_y c
  | I_SETY => c_y c' = d /\ c_on c' = c_on c /\ c_start c' = c_start c /\ c_page c' = c_page c
  end.
Proof. exact instr_effect. Qed.
Print Assumptions C15_instr_effect.

(* data write: exactly the addressed VRAM cell changes, column counter +1 mod 64, nothing else *)
Theorem C15_data_write_law : forall c d, chip_wf c ->
  let c' := chip_data c d in
  nth (cell (c_page c) (c_y c)) (c_vram c') 0 = d /\
  (forall p y, p < 8 -> y < 64 -> (p, y) <> (c_page c, c_y c) ->
               nth (cell p y) (c_vram c') 0 = nth (cell p y) (c_vram c) 0) /\
  c_y c' = (c_y c + 1) mod 64 /\ c_page c' = c_page c /\ c_start c' = c_start c /\ c_on c' = c_on c /\ c_busy c' = true.
Proof. exact data_write_law. Qed.
Print Assumptions C15_data_write_law.

Theorem C15_data_read_law : forall c, chip_wf c ->
  let '(c', v) := chip_read c in
  v = nth (cell (c_page c) ((c_y c + 63) mod 64)) (c_vram c) 0 /\
  c_y c' = (c_y c + 1) mod 64 /\ c_vram c' = c_vram c /\ c_page c' = c_page c /\
  c_start c' = c_start c /\ c_on c' = c_on c /\ c_busy c' = c_busy c.
Proof. exact data_read_law. Qed.
Print Assumptions C15_data_read_law.

Theorem C15_status_law : forall c,
  let '(c', v) := chip_status c in
  v = (if c_busy c then 128 else 0) + (if c_on c then 0 else 32) /\
  c_busy c' = false /\ c_on c' = c_on c /\ c_y c' = c_y c /\ c_page c' = c_page c /\
  c_start c' = c_start c /\ c_vram c' = c_vram c.
Proof. exact status_law. Qed.
Print Assumptions C15_status_law.

Theorem C15_write_frame : forall cs di v s,
  (cs = CS_LEFT -> right (do_write cs di v s) = right s) /\
  (cs = CS_RIGHT -> left (do_write cs di v s) = left s).
Proof. exact write_frame. Qed.
Print Assumptions C15_write_frame.

(* Python and Rust controllers: identical chip states and identical status/data read values for every
   sequence of accesses, of any length, whose writes go to write addresses.
   FULL STATEMENT (property): without the `op_ok` guard.  It is false of the current tree: the Rust
   controller executes a write sent to a READ address (odd low nibble), the Python controller ignores it
   (known finding; witness in Props/C15_refuted.v). *)
Theorem C15_py_rs_agree_partial : forall px ops s, forallb op_ok ops = true ->
  run py_write px s ops = run rs_write px s ops.
Proof. exact py_rs_agree. Qed.
Print Assumptions C15_py_rs_agree_partial.

(* each of the 240x32 visible pixels is determined by exactly one VRAM bit; distinct pixels, distinct bits *)
Theorem C15_pixel_map_injective : forall r c r' c',
  r < 32 -> c < 240 -> r' < 32 -> c' < 240 -> px_src r c = px_src r' c' -> r = r' /\ c = c'.
Proof. exact pixel_map_injective. Qed.
Print Assumptions C15_pixel_map_injective.

Theorem C15_py_pixel_is_one_bit : forall s r c,
  let '(ci, yd, sc) := px_src r c in
  py_pixel s r c =
    if c_on (chip_of s ci) then pixel_on (nth (cell (yd / 8) sc) (c_vram (chip_of s ci)) 0) (yd mod 8) else 0.
Proof. exact py_pixel_is_one_bit. Qed.
Print Assumptions C15_py_pixel_is_one_bit.

Theorem C15_rs_pixel_is_one_bit_and_injective :
  (forall s r c, let '(ci, yd, sc) := px_src r c in
     let yv := (yd + c_start (chip_of s ci) mod 64) mod 64 in
     rs_pixel s r c = pixel_on (nth (cell (yv / 8) sc) (c_vram (chip_of s ci)) 0) (yv mod 8)) /\
  (forall (st : N -> N) r c r' c', r < 32 -> c < 240 -> r' < 32 -> c' < 240 ->
     let '(ci, yd, sc) := px_src r c in let '(ci', yd', sc') := px_src r' c' in
     ci = ci' -> (yd + st ci mod 64) mod 64 = (yd' + st ci' mod 64) mod 64 -> sc = sc' -> r = r' /\ c = c').
Proof. exact (conj rs_pixel_is_one_bit rs_pixel_map_injective). Qed.
Print Assumptions C15_rs_pixel_is_one_bit_and_injective.

(* a data write to one chip changes one VRAM cell; all pixels showing bits of that cell lie in one display
   column, one row per bit (at most eight) *)
Theorem C15_write_touches_one_column : forall r c r' c',
  r < 32 -> c < 240 -> r' < 32 -> c' < 240 ->
  let '(ci, yd, sc) := px_src r c in let '(ci', yd', sc') := px_src r' c' in
  ci = ci' -> yd / 8 = yd' / 8 -> sc = sc' ->
  c = c' /\ (r = r' <-> yd mod 8 = yd' mod 8).
Proof. exact py_write_touches_one_column. Qed.
Print Assumptions C15_write_touches_one_column.

Example C15_example :
  py_run [LWrite 0x2000 0x3F; LWrite 0x2000 0xB9; LWrite 0x2000 0x42; LWrite 0x2002 0xA5; LWrite 0x2006 0x5A;
          LRead 0x2007; LRead 0x2005; LRead 0x2005; LRead 0xA00B; LState]
  = [[]; []; []; []; []; [0x5A]; [128]; [0]; [0xA5]; [1; 0; 1; 4; 1869742255; 1; 0; 1; 5; 2714225234]].
Proof. vm_compute. reflexivity. Qed.
