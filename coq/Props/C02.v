(* Property C02 -- encoding is the exact inverse of decoding on every accepted instruction. *)
From Coq Require Import NArith List Bool.
From BE Require Import Model.TableTypes Gen.Tables Model.Decode Proofs.DecodeProofs Props.C01.
Import ListNotations.
Open Scope N_scope.

(* Re-encoding a decoded instruction reproduces exactly the bytes consumed (prefix byte, ignored bits:
   the operand records keep the raw bytes), for every byte string the decoder accepts. *)
Theorem C02_encode_decode : forall bs i,
  bytes_ok bs -> decode bs = DOk i -> encode i = Some (firstn (i_len i) bs).
Proof.
  intros bs i Hb H. destruct C01_tables_ok as (Ht & _).
  destruct (decode_spec bs i Ht Hb H) as (_ & He & _). exact He.
Qed.
Print Assumptions C02_encode_decode.

(* Decoding the re-encoded bytes (followed by anything) yields the same instruction: same text, length
   and lifted IL, since those are functions of the instruction. *)
Theorem C02_decode_encode : forall bs i,
  bytes_ok bs -> decode bs = DOk i -> lone_pre i = false ->
  exists enc, encode i = Some enc /\ enc = firstn (i_len i) bs /\ forall t, decode (enc ++ t) = DOk i.
Proof.
  intros bs i Hb H Hl. destruct C01_tables_ok as (Ht & _).
  exact (encode_decode_roundtrip bs i Ht Hb H Hl).
Qed.
Print Assumptions C02_decode_encode.

(* No valid instruction is demoted to data by the disassembler's encode/decode guard. *)
Theorem C02_text_guard_never_fires : forall bs i,
  bytes_ok bs -> decode bs = DOk i -> c_text bs = CAccept (i_len i) i.
Proof.
  intros bs i Hb H. destruct C01_tables_ok as (Ht & _).
  exact (text_guard_never_fires bs i Ht Hb H).
Qed.
Print Assumptions C02_text_guard_never_fires.

Example C02_example :
  exists i, decode [0x0C; 0x12; 0x34; 0xF6; 0x99] = DOk i /\ encode i = Some [0x0C; 0x12; 0x34; 0xF6].
Proof. vm_compute. eexists. split; reflexivity. Qed.
