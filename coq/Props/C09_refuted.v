(* Witness for the clause of C09 that is false of the current tree (known finding). *)
From Coq Require Import NArith List Bool.
From BE Require Import Model.TableTypes Gen.Tables Model.Lift Props.C09.
Import ListNotations.
Open Scope N_scope.

(* "(PY+n)" / "(BP+PY)" on a lone operand: the assembler selects 0x33 / 0x31, whose first slot - the one the
   decoder applies to a lone operand - is (n): the emitted encoding does not have the addressing mode of the text *)
Theorem C09_single_operand_py_refuted :
  exists m p, In (m, p) py_single_operand_pre /\
              match pre_lookup py_pre_table p with Some (x, _) => imode_eqb m x = false | None => True end.
Proof. exists IM_PY_N, 51. split; [vm_compute; tauto | vm_compute; reflexivity]. Qed.
Print Assumptions C09_single_operand_py_refuted.
