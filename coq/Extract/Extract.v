(* Extraction of the executable models for the correspondence driver.
   Only ExtrOcamlBasic is used (bool, option, unit, list, prod, sumbool mapped to OCaml's);
   no Extract Constant; N/Z/positive/nat stay the extracted inductive datatypes.
   Every entry point gets a unique alias here so the flat OCaml file has stable names. *)
Require Extraction.
Require Import ExtrOcamlBasic.
From Coq Require Import ZArith.
From BE Require Model.Timer Model.Regs Model.Decode Model.Lcd Model.Kbd Model.Sched Model.MemBus Model.IL Model.Lift Model.Emu Model.Static Model.Spec Model.AsmLayout Model.Irq.
Extraction Language OCaml.

Definition timer_py_run := Timer.py_run.
Definition timer_rs_run := Timer.rs_run.
Definition timer_py_init := Timer.py_init.
Definition timer_rs_init := Timer.rs_init.
Definition regs_py_run := Regs.py_run Regs.py_init.
Definition regs_rs_run := Regs.rs_run Regs.rs_init.

Definition dec_decode := Decode.decode.
Definition dec_encode := Decode.encode.
Definition dec_info := Decode.c_info.
Definition dec_text := Decode.c_text.
Definition dec_llil := Decode.c_llil.
Definition dec_emu := Decode.c_emu.

Definition lcd_py_run := Lcd.py_run.
Definition lcd_rs_run := Lcd.rs_run.

Definition kbd_py_run (cfg : Kbd.kcfg) := Kbd.py_run cfg (Kbd.py_init cfg).
Definition kbd_rs_run (cfg : Kbd.kcfg) (irq : bool) := Kbd.rs_run cfg irq Kbd.rs_init.

Definition sched_spawn_all := Sched.spawn_all.
Definition sched_drive := Sched.drive.

Definition mem_py_run (cfg : MemBus.config) := MemBus.py_run cfg nil.
Definition mem_rs_run (cfg : MemBus.config) := MemBus.rs_run cfg nil.
Definition mem_card_slot := MemBus.card_slot.

Definition il_lift := Lift.lift_instr.
Definition il_mk_state := Emu.mk_state.
Definition il_exec_at := Emu.exec_at.
Definition il_steps := Emu.steps.
Definition il_set_pc (s : IL.mstate) (a : BinNums.Z) := IL.setr s Regs.gPC a.
Definition il_fetch (s : IL.mstate) (a : BinNums.Z) := Emu.fetch Emu.FETCH_WINDOW (IL.mem s) a.
Definition il_obs_regs := Emu.obs_regs.
Definition il_obs_writes := Emu.obs_writes.
Definition il_rlog (s : IL.mstate) := List.rev (IL.rlog s).
Definition il_wlog (s : IL.mstate) := List.rev (IL.wlog s).
Definition il_halted := IL.halted.
Definition il_temps (s : IL.mstate) := Regs.y_t (IL.rg s).

Definition st_analyze := Static.analyze.
Definition st_render_ops := Static.render_ops.
Definition st_den (i : Decode.instr) (s : IL.mstate) :=
  match Static.den_access i s with
  | Some a => Some (Emu.sort_uniq (Static.a_reads a), Emu.sort_uniq (Static.a_writes a))
  | None => None
  end.
Definition st_sort_uniq := Emu.sort_uniq.

Definition sp_exec := Spec.spec_exec.
Definition irq_deliver := Irq.irq_deliver.
Definition irq_gate := Irq.irq_gate.
Definition irq_mem (s : IL.mstate) (a : BinNums.Z) := IL.mem s a.
Definition asm_layout := AsmLayout.assemble_layout.
Definition ts_safe := Emu.instr_temps_safe.

Extraction "Extract/model.ml"
  BinInt.Z.add timer_py_run timer_rs_run timer_py_init timer_rs_init
  regs_py_run regs_rs_run
  dec_decode dec_encode dec_info dec_text dec_llil dec_emu
  lcd_py_run lcd_rs_run
  kbd_py_run kbd_rs_run
  sched_spawn_all sched_drive
  mem_py_run mem_rs_run mem_card_slot
  il_lift il_fetch il_set_pc il_mk_state il_exec_at il_steps il_obs_regs il_obs_writes il_rlog il_wlog il_halted il_temps
  st_analyze st_render_ops st_den st_sort_uniq sp_exec ts_safe asm_layout irq_deliver irq_gate irq_mem.
