(* Extraction of the executable models for the correspondence driver.
   Only ExtrOcamlBasic is used (bool, option, unit, list, prod, sumbool mapped to OCaml's);
   no Extract Constant; N/Z/positive/nat stay the extracted inductive datatypes. *)
Require Extraction.
Require Import ExtrOcamlBasic.
From Coq Require Import ZArith.
From BE Require Import Model.Timer.
Extraction Language OCaml.
Extraction "Extract/model.ml"
  BinInt.Z.add Timer.py_run Timer.rs_run Timer.py_init Timer.rs_init.
