(* model_driver: reads one case per line on stdin, prints one answer line per case.
   Numbers on the wire are decimal OCaml ints (< 2^62); they are converted to/from the
   extracted N/Z/positive/nat datatypes here and nowhere else. *)
open Model

let rec pos_of_int (i : int) : positive =
  if i = 1 then XH else if i land 1 = 0 then XO (pos_of_int (i lsr 1)) else XI (pos_of_int (i lsr 1))
let n_of_int (i : int) : n = if i = 0 then N0 else Npos (pos_of_int i)
let rec int_of_pos (p : positive) : int =
  match p with XH -> 1 | XO q -> 2 * int_of_pos q | XI q -> 2 * int_of_pos q + 1
let int_of_n (x : n) : int = match x with N0 -> 0 | Npos p -> int_of_pos p
let z_of_int (i : int) : z = if i = 0 then Z0 else if i > 0 then Zpos (pos_of_int i) else Zneg (pos_of_int (- i))
let int_of_z (x : z) : int = match x with Z0 -> 0 | Zpos p -> int_of_pos p | Zneg p -> - (int_of_pos p)
let rec nat_of_int (i : int) : nat = if i <= 0 then O else S (nat_of_int (i - 1))
let rec int_of_nat (x : nat) : int = match x with O -> 0 | S m -> 1 + int_of_nat m

let ios = int_of_string
let b2s b = if b then "1" else "0"
let s2b s = s <> "0"
let split_on c s = String.split_on_char c s
let words s = List.filter (fun x -> x <> "") (split_on ' ' s)

(* ---- timer -------------------------------------------------------------------------- *)
let parse_top (s : string) : top =
  match split_on ':' s with
  | ["t"; c] -> TTick (n_of_int (ios c))
  | ["r"; c] -> TReset (n_of_int (ios c))
  | ["n"; a; b] -> TSetNext (n_of_int (ios a), n_of_int (ios b))
  | _ -> failwith ("bad timer op " ^ s)

let show_tobs (((((fm, fs), nm), ns), isr) : tobs) : string =
  Printf.sprintf "%s,%s,%d,%d,%d" (b2s fm) (b2s fs) (int_of_n nm) (int_of_n ns) (int_of_n isr)

let show_tobs_list (r : tobs list option) : string =
  match r with
  | None -> "ERR fuel"
  | Some l -> String.concat ";" (List.map show_tobs l)

(* ---- registers ---------------------------------------------------------------------- *)
let parse_reg (s : string) : reg =
  match s with
  | "A" -> GA | "B" -> GB | "BA" -> GBA | "IL" -> GIL | "IH" -> GIH | "I" -> GI | "X" -> GX | "Y" -> GY
  | "U" -> GU | "S" -> GS | "PC" -> GPC | "F" -> GF | "FC" -> GFC | "FZ" -> GFZ
  | _ -> if String.length s > 4 && String.sub s 0 4 = "TEMP" then GTEMP (nat_of_int (ios (String.sub s 4 (String.length s - 4))))
         else failwith ("bad reg " ^ s)

let parse_rop (s : string) : rop =
  match split_on ':' s with
  | ["s"; r; v] -> OSet (parse_reg r, n_of_int (ios v))
  | ["g"; r] -> OGet (parse_reg r)
  | ["snap"] -> OSnap
  | ["blob"] -> OBlob
  | _ -> failwith ("bad reg op " ^ s)

let show_nl (l : n list) : string = String.concat "," (List.map (fun x -> string_of_int (int_of_n x)) l)
let show_nll (l : n list list) : string = String.concat ";" (List.map show_nl l)

(* ---- decoder -------------------------------------------------------------------------- *)
let bytes_of_hex (h : string) : n list =
  if h = "-" then [] else
  List.init (String.length h / 2) (fun i -> n_of_int (int_of_string ("0x" ^ String.sub h (2 * i) 2)))
let hex_of_bytes (l : n list) : string =
  if l = [] then "-" else String.concat "" (List.map (fun b -> Printf.sprintf "%02x" (int_of_n b)) l)

let regname_s (r : regname) : string =
  match r with RA -> "A" | RB -> "B" | RBA -> "BA" | RIL -> "IL" | RIH -> "IH" | RI -> "I" | RX -> "X" | RY -> "Y"
  | RU -> "U" | RS -> "S" | RF -> "F" | RPC -> "PC" | RFC -> "FC" | RFZ -> "FZ" | RIMR -> "IMR"

let cond_s (c : cond option) : string =
  match c with None -> "" | Some CZ -> "Z" | Some CNZ -> "NZ" | Some CC -> "C" | Some CNC -> "NC"

let cls_base (c : icls) : string =
  match c with
  | I_NOP -> "NOP" | I_RETI -> "RETI" | I_JP_Abs -> "JP" | I_JP_Rel -> "JP" | I_CALL -> "CALL" | I_RET -> "RET"
  | I_RETF -> "RETF" | I_MV -> "MV" | I_MVL -> "MVL" | I_MVLD -> "MVLD" | I_PRE -> "PRE" | I_PUSHU -> "PUSHU"
  | I_POPU -> "POPU" | I_PUSHS -> "PUSHS" | I_POPS -> "POPS" | I_ADD -> "ADD" | I_ADC -> "ADC" | I_SUB -> "SUB"
  | I_SBC -> "SBC" | I_ADCL -> "ADCL" | I_SBCL -> "SBCL" | I_DADL -> "DADL" | I_DSBL -> "DSBL" | I_AND -> "AND"
  | I_OR -> "OR" | I_XOR -> "XOR" | I_TEST -> "TEST" | I_CMP -> "CMP" | I_CMPW -> "CMPW" | I_CMPP -> "CMPP"
  | I_ROR -> "ROR" | I_ROL -> "ROL" | I_SHL -> "SHL" | I_SHR -> "SHR" | I_DSLL -> "DSLL" | I_DSRL -> "DSRL"
  | I_INC -> "INC" | I_DEC -> "DEC" | I_EX -> "EX" | I_EXL -> "EXL" | I_WAIT -> "WAIT" | I_PMDF -> "PMDF"
  | I_SWAP -> "SWAP" | I_SC -> "SC" | I_RC -> "RC" | I_TCL -> "TCL" | I_HALT -> "HALT" | I_OFF -> "OFF"
  | I_IR -> "IR" | I_RESET -> "RESET" | I_Unknown -> "UnknownInstruction"

let optname_s (o : optname) : string =
  match o with ON_JPF -> "JPF" | ON_CALLF -> "CALLF" | ON_MVW -> "MVW" | ON_MVP -> "MVP" | ON_EXW -> "EXW" | ON_EXP -> "EXP"

(* Instruction.name() of each class *)
let mnemonic (i : instr) : string =
  let e = i.i_ent in
  let base = match e.d_optname with Some o -> optname_s o | None -> cls_base e.d_cls in
  match e.d_cls with
  | I_JP_Abs -> base ^ cond_s e.d_cond
  | I_JP_Rel -> "JR" ^ cond_s e.d_cond
  | I_PRE -> Printf.sprintf "PRE%02x" (int_of_n i.i_opc)
  | I_Unknown -> Printf.sprintf "???_(%02X)" (int_of_n i.i_opc)
  | _ -> base

let off_s (o : n option) : string = match o with None -> "-" | Some v -> string_of_int (int_of_n v)
let d = fun x -> string_of_int (int_of_n x)

let dump_op (o : operand) : string =
  match o with
  | OImm8 v -> "i8:" ^ d v
  | OImm16 v -> "i16:" ^ d v
  | OImm20 (lo, mid, hi) -> Printf.sprintf "i20:%s.%s.%s" (d lo) (d mid) (d hi)
  | OImmOff (neg, v) -> Printf.sprintf "off%s:%s" (if neg then "-" else "+") (d v)
  | OIMem (w, n) -> Printf.sprintf "im%s:%s" (d w) (d n)
  | OReg (r, _) -> "r:" ^ regname_s r
  | ORegB -> "r:B" | ORegIL -> "r:IL" | ORegIMR -> "r:IMR" | ORegF -> "r:F" | ORegPC -> "r:PC"
  | OReg3 raw -> "r3:" ^ d raw
  | ORegPair (sz, raw) -> Printf.sprintf "rp%s:%s" (d sz) (d raw)
  | OEMemAddr (w, lo, mid, hi) -> Printf.sprintf "ea%s:%s.%s.%s" (d w) (d lo) (d mid) (d hi)
  | OEMemReg (w, raw, off) -> Printf.sprintf "er%s:%s:%s" (d w) (d raw) (off_s off)
  | OEMemIMem (w, mode, n, off) -> Printf.sprintf "ei%s:%s:%s:%s" (d w) (d mode) (d n) (off_s off)
  | ORegIMemOff (dst, raw, n, off) -> Printf.sprintf "rio%s:%s:%s:%s" (b2s dst) (d raw) (d n) (off_s off)
  | OEMemIMemOff (dst, mode, n1, n2, off) -> Printf.sprintf "eio%s:%s:%s:%s:%s" (b2s dst) (d mode) (d n1) (d n2) (off_s off)

let show_cres (with_mn : bool) (c : cres) : string =
  match c with
  | CAccept (len, i) -> if with_mn then Printf.sprintf "A:%d:%s" (int_of_nat len) (mnemonic i) else Printf.sprintf "A:%d" (int_of_nat len)
  | CReject -> "R"
  | CCrash -> "C:NotImplementedError"

let dec_case (w : string list) : string =
  let bs = bytes_of_hex (List.nth w 0) in
  let filler = if List.length w > 1 then bytes_of_hex (List.nth w 1) else [] in
  let dpart =
    match dec_decode bs with
    | DOk i ->
        let enc = match dec_encode i with Some e -> hex_of_bytes e | None -> "ERR:AssertionError" in
        Printf.sprintf "D=OK %d %s %d %s %s %s" (int_of_nat i.i_len)
          (match i.i_pre with None -> "-" | Some p -> d p) (int_of_n i.i_opc) (mnemonic i)
          (if i.i_ops = [] then "-" else String.concat "," (List.map dump_op i.i_ops)) enc
    | DShort | DInvalid -> "D=NONE"
    | DAssert -> "D=ASSERT"
    | DNotImpl -> "D=NOTIMPL" in
  let zeros = List.init 8 (fun _ -> N0) in
  let emu =
    match dec_emu (bs @ filler @ zeros) with
    | EFetch (len, i) -> Printf.sprintf "F:%d:%s" (int_of_nat len) (mnemonic i)
    | EFallback opc -> "FB:" ^ d opc
    | ECrash -> "C:AssertionError" in
  Printf.sprintf "%s info=%s text=%s llil=%s emu=%s" dpart (show_cres false (dec_info bs)) (show_cres true (dec_text bs))
    (show_cres false (dec_llil bs)) emu

(* ---- LCD ------------------------------------------------------------------------------ *)
let parse_lop (s : string) : lop =
  match split_on ':' s with
  | ["w"; a; v] -> LWrite (n_of_int (ios a), n_of_int (ios v))
  | ["r"; a] -> LRead (n_of_int (ios a))
  | ["st"] -> LState
  | ["px"] -> LPixels
  | _ -> failwith ("bad lcd op " ^ s)

(* ---- keyboard ------------------------------------------------------------------------- *)
let parse_kop (s : string) : kop =
  match split_on ':' s with
  | ["p"; c] -> KPress (n_of_int (ios c))
  | ["r"; c] -> KRelease (n_of_int (ios c))
  | ["kol"; v] -> KKol (n_of_int (ios v))
  | ["koh"; v] -> KKoh (n_of_int (ios v))
  | ["t"] -> KTick
  | ["rd"] -> KRead
  | ["inj"; c; r] -> KInject (n_of_int (ios c), s2b r)
  | ["con"] -> KConsume
  | _ -> failwith ("bad kbd op " ^ s)

let kcfg_of pt rt dl iv ah re : kcfg =
  { press_th = n_of_int (ios pt); release_th = n_of_int (ios rt); rep_delay = n_of_int (ios dl);
    rep_interval = n_of_int (ios iv); active_high = s2b ah; rep_enabled = s2b re }

(* ---- scheduler ------------------------------------------------------------------------ *)
let parse_act (s : string) : act =
  if String.length s > 0 && s.[0] = 's' then ASleep (n_of_int (ios (String.sub s 1 (String.length s - 1))))
  else if String.length s > 0 && s.[0] = 'e' then AEmit (n_of_int (ios (String.sub s 1 (String.length s - 1))))
  else failwith ("bad act " ^ s)
let parse_script (s : string) : act list =
  if s = "-" then [] else List.map parse_act (split_on ',' s)

let sched_case (clock0 : string) (budgets : string) (tasks : string list) : string =
  let d0 = sched_spawn_all (n_of_int (ios clock0)) (List.map parse_script tasks) in
  let bs = List.map (fun b -> n_of_int (ios b)) (split_on ',' budgets) in
  match sched_drive d0 bs with
  | None -> "ERR fuel"
  | Some (dv, rs) ->
      let show_r r = match r with RMax c -> "M:" ^ d c | RUser (e, c) -> "U" ^ d e ^ ":" ^ d c in
      String.concat ";" (List.map show_r rs) ^ " | clock=" ^ (string_of_int (int_of_n dv.clock)) ^ " | " ^
      String.concat "," (List.map (fun (c, t) -> string_of_int (int_of_n c) ^ ":" ^ string_of_int (int_of_n t)) dv.log)

(* ---- memory bus ----------------------------------------------------------------------- *)
(* cfg: card=<present>,<writable>,<len>;absent=<0|1>;mirror=<0|1>;ro=<s>-<e>+...;ov=<start>:<end>:<datalen>:<ro>:<id>+... *)
let parse_memcfg (rust : bool) (s : string) : config =
  let fields = List.map (fun f -> match split_on '=' f with [k; v] -> (k, v) | [k] -> (k, "") | _ -> failwith "cfg") (split_on ';' s) in
  let get k = try List.assoc k fields with Not_found -> "" in
  let card = match split_on ',' (get "card") with [p; w; l] -> (s2b p, s2b w, n_of_int (ios l)) | _ -> (true, true, n_of_int 65536) in
  let parse_ov t = match split_on ':' t with
    | [st; en; dl; ro; id] -> { o_start = n_of_int (ios st); o_end = n_of_int (ios en); o_id = n_of_int (ios id);
                                o_kind = KData (n_of_int (ios dl), s2b ro) }
    | _ -> failwith "ov" in
  let ovs = if get "ov" = "" then [] else List.map parse_ov (split_on '+' (get "ov")) in
  let ros = if get "ro" = "" then [] else List.map (fun r -> match split_on '-' r with [a; b] -> (n_of_int (ios a), n_of_int (ios b)) | _ -> failwith "ro") (split_on '+' (get "ro")) in
  let (cp, cw, cl) = card in
  { ovls = (if rust && get "absent" = "1" then mem_card_slot :: ovs else ovs);
    card_present = cp; card_writable = cw; card_len = cl; mirror = (get "mirror" = "1"); ro_ranges = ros }

let parse_mop (s : string) : mop =
  match split_on ':' s with
  | ["l"; a; b] -> MLoad (n_of_int (ios a), n_of_int (ios b))
  | ["s"; a; b; v] -> MStore (n_of_int (ios a), n_of_int (ios b), n_of_int (ios v))
  | _ -> failwith ("bad mem op " ^ s)

let handle (w : string list) : string =
  match w with
  | "mem_py" :: cfg :: ops -> show_nl (mem_py_run (parse_memcfg false cfg) (List.map parse_mop ops))
  | "mem_rs" :: cfg :: ops -> show_nl (mem_rs_run (parse_memcfg true cfg) (List.map parse_mop ops))
  | "sched" :: clock0 :: budgets :: tasks -> sched_case clock0 budgets tasks
  | "kbd_py" :: pt :: rt :: dl :: iv :: ah :: re :: _irq :: ops ->
      show_nll (kbd_py_run (kcfg_of pt rt dl iv ah re) (List.map parse_kop ops))
  | "kbd_rs" :: pt :: rt :: dl :: iv :: ah :: re :: irq :: ops ->
      show_nll (kbd_rs_run (kcfg_of pt rt dl iv ah re) (s2b irq) (List.map parse_kop ops))
  | "lcd_py" :: ops -> show_nll (lcd_py_run (List.map parse_lop ops))
  | "lcd_rs" :: ops -> show_nll (lcd_rs_run (List.map parse_lop ops))
  | "dec" :: rest -> dec_case rest
  | "regs_py" :: ops -> show_nll (regs_py_run (List.map parse_rop ops))
  | "regs_rs" :: ops -> show_nll (regs_rs_run (List.map parse_rop ops))
  | "timer_py" :: en :: pm :: ps :: isr :: ops ->
      let t = timer_py_init (s2b en) (n_of_int (ios pm)) (n_of_int (ios ps)) in
      show_tobs_list (timer_py_run t (n_of_int (ios isr)) (List.map parse_top ops))
  | "timer_rs" :: en :: pm :: ps :: isr :: ops ->
      let t = timer_rs_init (s2b en) (n_of_int (ios pm)) (n_of_int (ios ps)) (n_of_int (ios isr)) in
      show_tobs_list (timer_rs_run t (List.map parse_top ops))
  | c :: _ -> "ERR unknown-command " ^ c
  | [] -> "ERR empty"

let () =
  try
    while true do
      let line = input_line stdin in
      let out = try handle (words line) with e -> "ERR driver " ^ Printexc.to_string e in
      print_string out; print_char '\n'
    done
  with End_of_file -> ()
