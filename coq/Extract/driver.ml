(* model_driver: reads one case per line on stdin, prints one answer line per case.
   Numbers on the wire are decimal OCaml ints (< 2^62); they are converted to/from the
   extracted N/Z/positive/nat datatypes here and nowhere else. *)
open Model

let rec pos_of_int (i : int) : positive =
  if i = 1 then XH else if i land 1 = 0 then XO (pos_of_int (i lsr 1)) else XI (pos_of_int (i lsr 1))
let n_of_int (i : int) : n = if i = 0 then N0 else Npos (pos_of_int i)
let rec int_of_pos (p : positive) : int =
  match p with XH -> 1 | XO q -> 2 * int_of_pos q | XI q -> 2 * int_of_pos q + 1
let int_of_n (x : n) : int = match x with N0 -> 0 | Npos p -> int_of_pos p
let z_of_int (i : int) : z = if i = 0 then Z0 else if i > 0 then Zpos (pos_of_int i) else Zneg (pos_of_int (- i))
let int_of_z (x : z) : int = match x with Z0 -> 0 | Zpos p -> int_of_pos p | Zneg p -> - (int_of_pos p)
let rec nat_of_int (i : int) : nat = if i <= 0 then O else S (nat_of_int (i - 1))
let rec int_of_nat (x : nat) : int = match x with O -> 0 | S m -> 1 + int_of_nat m

let ios = int_of_string
let b2s b = if b then "1" else "0"
let s2b s = s <> "0"
let split_on c s = String.split_on_char c s
let words s = List.filter (fun x -> x <> "") (split_on ' ' s)

(* ---- timer -------------------------------------------------------------------------- *)
let parse_top (s : string) : top =
  match split_on ':' s with
  | ["t"; c] -> TTick (n_of_int (ios c))
  | ["r"; c] -> TReset (n_of_int (ios c))
  | ["n"; a; b] -> TSetNext (n_of_int (ios a), n_of_int (ios b))
  | _ -> failwith ("bad timer op " ^ s)

let show_tobs (((((fm, fs), nm), ns), isr) : tobs) : string =
  Printf.sprintf "%s,%s,%d,%d,%d" (b2s fm) (b2s fs) (int_of_n nm) (int_of_n ns) (int_of_n isr)

let show_tobs_list (r : tobs list option) : string =
  match r with
  | None -> "ERR fuel"
  | Some l -> String.concat ";" (List.map show_tobs l)

(* ---- registers ---------------------------------------------------------------------- *)
let parse_reg (s : string) : reg =
  match s with
  | "A" -> GA | "B" -> GB | "BA" -> GBA | "IL" -> GIL | "IH" -> GIH | "I" -> GI | "X" -> GX | "Y" -> GY
  | "U" -> GU | "S" -> GS | "PC" -> GPC | "F" -> GF | "FC" -> GFC | "FZ" -> GFZ
  | _ -> if String.length s > 4 && String.sub s 0 4 = "TEMP" then GTEMP (nat_of_int (ios (String.sub s 4 (String.length s - 4))))
         else failwith ("bad reg " ^ s)

let parse_rop (s : string) : rop =
  match split_on ':' s with
  | ["s"; r; v] -> OSet (parse_reg r, n_of_int (ios v))
  | ["g"; r] -> OGet (parse_reg r)
  | ["snap"] -> OSnap
  | ["blob"] -> OBlob
  | _ -> failwith ("bad reg op " ^ s)

let show_nl (l : n list) : string = String.concat "," (List.map (fun x -> string_of_int (int_of_n x)) l)
let show_nll (l : n list list) : string = String.concat ";" (List.map show_nl l)

(* ---- decoder -------------------------------------------------------------------------- *)
let bytes_of_hex (h : string) : n list =
  if h = "-" then [] else
  List.init (String.length h / 2) (fun i -> n_of_int (int_of_string ("0x" ^ String.sub h (2 * i) 2)))
let hex_of_bytes (l : n list) : string =
  if l = [] then "-" else String.concat "" (List.map (fun b -> Printf.sprintf "%02x" (int_of_n b)) l)

let regname_s (r : regname) : string =
  match r with RA -> "A" | RB -> "B" | RBA -> "BA" | RIL -> "IL" | RIH -> "IH" | RI -> "I" | RX -> "X" | RY -> "Y"
  | RU -> "U" | RS -> "S" | RF -> "F" | RPC -> "PC" | RFC -> "FC" | RFZ -> "FZ" | RIMR -> "IMR"

let cond_s (c : cond option) : string =
  match c with None -> "" | Some CZ -> "Z" | Some CNZ -> "NZ" | Some CC -> "C" | Some CNC -> "NC"

let cls_base (c : icls) : string =
  match c with
  | I_NOP -> "NOP" | I_RETI -> "RETI" | I_JP_Abs -> "JP" | I_JP_Rel -> "JP" | I_CALL -> "CALL" | I_RET -> "RET"
  | I_RETF -> "RETF" | I_MV -> "MV" | I_MVL -> "MVL" | I_MVLD -> "MVLD" | I_PRE -> "PRE" | I_PUSHU -> "PUSHU"
  | I_POPU -> "POPU" | I_PUSHS -> "PUSHS" | I_POPS -> "POPS" | I_ADD -> "ADD" | I_ADC -> "ADC" | I_SUB -> "SUB"
  | I_SBC -> "SBC" | I_ADCL -> "ADCL" | I_SBCL -> "SBCL" | I_DADL -> "DADL" | I_DSBL -> "DSBL" | I_AND -> "AND"
  | I_OR -> "OR" | I_XOR -> "XOR" | I_TEST -> "TEST" | I_CMP -> "CMP" | I_CMPW -> "CMPW" | I_CMPP -> "CMPP"
  | I_ROR -> "ROR" | I_ROL -> "ROL" | I_SHL -> "SHL" | I_SHR -> "SHR" | I_DSLL -> "DSLL" | I_DSRL -> "DSRL"
  | I_INC -> "INC" | I_DEC -> "DEC" | I_EX -> "EX" | I_EXL -> "EXL" | I_WAIT -> "WAIT" | I_PMDF -> "PMDF"
  | I_SWAP -> "SWAP" | I_SC -> "SC" | I_RC -> "RC" | I_TCL -> "TCL" | I_HALT -> "HALT" | I_OFF -> "OFF"
  | I_IR -> "IR" | I_RESET -> "RESET" | I_Unknown -> "UnknownInstruction"

let optname_s (o : optname) : string =
  match o with ON_JPF -> "JPF" | ON_CALLF -> "CALLF" | ON_MVW -> "MVW" | ON_MVP -> "MVP" | ON_EXW -> "EXW" | ON_EXP -> "EXP"

(* Instruction.name() of each class *)
let mnemonic (i : instr) : string =
  let e = i.i_ent in
  let base = match e.d_optname with Some o -> optname_s o | None -> cls_base e.d_cls in
  match e.d_cls with
  | I_JP_Abs -> base ^ cond_s e.d_cond
  | I_JP_Rel -> "JR" ^ cond_s e.d_cond
  | I_PRE -> Printf.sprintf "PRE%02x" (int_of_n i.i_opc)
  | I_Unknown -> Printf.sprintf "???_(%02X)" (int_of_n i.i_opc)
  | _ -> base

let off_s (o : n option) : string = match o with None -> "-" | Some v -> string_of_int (int_of_n v)
let d = fun x -> string_of_int (int_of_n x)

let dump_op (o : operand) : string =
  match o with
  | OImm8 v -> "i8:" ^ d v
  | OImm16 v -> "i16:" ^ d v
  | OImm20 (lo, mid, hi) -> Printf.sprintf "i20:%s.%s.%s" (d lo) (d mid) (d hi)
  | OImmOff (neg, v) -> Printf.sprintf "off%s:%s" (if neg then "-" else "+") (d v)
  | OIMem (w, n) -> Printf.sprintf "im%s:%s" (d w) (d n)
  | OReg (r, _) -> "r:" ^ regname_s r
  | ORegB -> "r:B" | ORegIL -> "r:IL" | ORegIMR -> "r:IMR" | ORegF -> "r:F" | ORegPC -> "r:PC"
  | OReg3 raw -> "r3:" ^ d raw
  | ORegPair (sz, raw) -> Printf.sprintf "rp%s:%s" (d sz) (d raw)
  | OEMemAddr (w, lo, mid, hi) -> Printf.sprintf "ea%s:%s.%s.%s" (d w) (d lo) (d mid) (d hi)
  | OEMemReg (w, raw, off) -> Printf.sprintf "er%s:%s:%s" (d w) (d raw) (off_s off)
  | OEMemIMem (w, mode, n, off) -> Printf.sprintf "ei%s:%s:%s:%s" (d w) (d mode) (d n) (off_s off)
  | ORegIMemOff (dst, raw, n, off) -> Printf.sprintf "rio%s:%s:%s:%s" (b2s dst) (d raw) (d n) (off_s off)
  | OEMemIMemOff (dst, mode, n1, n2, off) -> Printf.sprintf "eio%s:%s:%s:%s:%s" (b2s dst) (d mode) (d n1) (d n2) (off_s off)

let show_cres (with_mn : bool) (c : cres) : string =
  match c with
  | CAccept (len, i) -> if with_mn then Printf.sprintf "A:%d:%s" (int_of_nat len) (mnemonic i) else Printf.sprintf "A:%d" (int_of_nat len)
  | CReject -> "R"
  | CCrash -> "C:NotImplementedError"

let dec_case (w : string list) : string =
  let bs = bytes_of_hex (List.nth w 0) in
  let filler = if List.length w > 1 then bytes_of_hex (List.nth w 1) else [] in
  let dpart =
    match dec_decode bs with
    | DOk i ->
        let enc = match dec_encode i with Some e -> hex_of_bytes e | None -> "ERR:AssertionError" in
        Printf.sprintf "D=OK %d %s %d %s %s %s" (int_of_nat i.i_len)
          (match i.i_pre with None -> "-" | Some p -> d p) (int_of_n i.i_opc) (mnemonic i)
          (if i.i_ops = [] then "-" else String.concat "," (List.map dump_op i.i_ops)) enc
    | DShort | DInvalid -> "D=NONE"
    | DAssert -> "D=ASSERT"
    | DNotImpl -> "D=NOTIMPL" in
  let zeros = List.init 8 (fun _ -> N0) in
  let emu =
    match dec_emu (bs @ filler @ zeros) with
    | EFetch (len, i) -> Printf.sprintf "F:%d:%s" (int_of_nat len) (mnemonic i)
    | EFallback opc -> "FB:" ^ d opc
    | ECrash -> "C:AssertionError" in
  Printf.sprintf "%s info=%s text=%s llil=%s emu=%s" dpart (show_cres false (dec_info bs)) (show_cres true (dec_text bs))
    (show_cres false (dec_llil bs)) emu

(* ---- LCD ------------------------------------------------------------------------------ *)
let parse_lop (s : string) : lop =
  match split_on ':' s with
  | ["w"; a; v] -> LWrite (n_of_int (ios a), n_of_int (ios v))
  | ["r"; a] -> LRead (n_of_int (ios a))
  | ["st"] -> LState
  | ["px"] -> LPixels
  | _ -> failwith ("bad lcd op " ^ s)

(* ---- keyboard ------------------------------------------------------------------------- *)
let parse_kop (s : string) : kop =
  match split_on ':' s with
  | ["p"; c] -> KPress (n_of_int (ios c))
  | ["r"; c] -> KRelease (n_of_int (ios c))
  | ["kol"; v] -> KKol (n_of_int (ios v))
  | ["koh"; v] -> KKoh (n_of_int (ios v))
  | ["t"] -> KTick
  | ["rd"] -> KRead
  | ["inj"; c; r] -> KInject (n_of_int (ios c), s2b r)
  | ["con"] -> KConsume
  | _ -> failwith ("bad kbd op " ^ s)

let kcfg_of pt rt dl iv ah re : kcfg =
  { press_th = n_of_int (ios pt); release_th = n_of_int (ios rt); rep_delay = n_of_int (ios dl);
    rep_interval = n_of_int (ios iv); active_high = s2b ah; rep_enabled = s2b re }

(* ---- scheduler ------------------------------------------------------------------------ *)
let parse_act (s : string) : act =
  if String.length s > 0 && s.[0] = 's' then ASleep (n_of_int (ios (String.sub s 1 (String.length s - 1))))
  else if String.length s > 0 && s.[0] = 'e' then AEmit (n_of_int (ios (String.sub s 1 (String.length s - 1))))
  else failwith ("bad act " ^ s)
let parse_script (s : string) : act list =
  if s = "-" then [] else List.map parse_act (split_on ',' s)

let sched_case (clock0 : string) (budgets : string) (tasks : string list) : string =
  let d0 = sched_spawn_all (n_of_int (ios clock0)) (List.map parse_script tasks) in
  let bs = List.map (fun b -> n_of_int (ios b)) (split_on ',' budgets) in
  match sched_drive d0 bs with
  | None -> "ERR fuel"
  | Some (dv, rs) ->
      let show_r r = match r with RMax c -> "M:" ^ d c | RUser (e, c) -> "U" ^ d e ^ ":" ^ d c in
      String.concat ";" (List.map show_r rs) ^ " | clock=" ^ (string_of_int (int_of_n dv.clock)) ^ " | " ^
      String.concat "," (List.map (fun (c, t) -> string_of_int (int_of_n c) ^ ":" ^ string_of_int (int_of_n t)) dv.log)

(* ---- memory bus ----------------------------------------------------------------------- *)
(* cfg: card=<present>,<writable>,<len>;absent=<0|1>;mirror=<0|1>;ro=<s>-<e>+...;ov=<start>:<end>:<datalen>:<ro>:<id>+... *)
let parse_memcfg (rust : bool) (s : string) : config =
  let fields = List.map (fun f -> match split_on '=' f with [k; v] -> (k, v) | [k] -> (k, "") | _ -> failwith "cfg") (split_on ';' s) in
  let get k = try List.assoc k fields with Not_found -> "" in
  let card = match split_on ',' (get "card") with [p; w; l] -> (s2b p, s2b w, n_of_int (ios l)) | _ -> (true, true, n_of_int 65536) in
  let parse_ov t = match split_on ':' t with
    | [st; en; dl; ro; id] -> { o_start = n_of_int (ios st); o_end = n_of_int (ios en); o_id = n_of_int (ios id);
                                o_kind = KData (n_of_int (ios dl), s2b ro) }
    | _ -> failwith "ov" in
  let ovs = if get "ov" = "" then [] else List.map parse_ov (split_on '+' (get "ov")) in
  let ros = if get "ro" = "" then [] else List.map (fun r -> match split_on '-' r with [a; b] -> (n_of_int (ios a), n_of_int (ios b)) | _ -> failwith "ro") (split_on '+' (get "ro")) in
  let (cp, cw, cl) = card in
  { ovls = (if rust && get "absent" = "1" then mem_card_slot :: ovs else ovs);
    card_present = cp; card_writable = cw; card_len = cl; mirror = (get "mirror" = "1"); ro_ranges = ros }

let parse_mop (s : string) : mop =
  match split_on ':' s with
  | ["l"; a; b] -> MLoad (n_of_int (ios a), n_of_int (ios b))
  | ["s"; a; b; v] -> MStore (n_of_int (ios a), n_of_int (ios b), n_of_int (ios v))
  | _ -> failwith ("bad mem op " ^ s)


(* ---- IL lifter / emulator ------------------------------------------------------------- *)
let reg_s (r : reg) : string =
  match r with
  | GA -> "A" | GB -> "B" | GBA -> "BA" | GIL -> "IL" | GIH -> "IH" | GI -> "I" | GX -> "X" | GY -> "Y"
  | GU -> "U" | GS -> "S" | GPC -> "PC" | GF -> "F" | GFC -> "FC" | GFZ -> "FZ"
  | GTEMP k -> "TEMP" ^ string_of_int (int_of_nat k)

let sfx (w : n) : string = match int_of_n w with 1 -> ".b" | 2 -> ".w" | 3 -> ".l" | 4 -> ".error" | _ -> ""
let fl_s (f : fspec) : string = match f with F0 -> "" | FZ -> "{Z}" | FCZ -> "{CZ}"
let binop_s (o : binop) : string =
  match o with
  | B_ADD -> "ADD" | B_SUB -> "SUB" | B_AND -> "AND" | B_OR -> "OR" | B_XOR -> "XOR" | B_LSL -> "LSL" | B_LSR -> "LSR"
  | B_ROR -> "ROR" | B_ROL -> "ROL" | B_CMP_E -> "CMP_E" | B_CMP_UGT -> "CMP_UGT" | B_CMP_SGT -> "CMP_SGT"
  | B_CMP_SLT -> "CMP_SLT"

let rec expr_s (e : expr) : string =
  match e with
  | EConst (w, v) -> Printf.sprintf "(CONST%s %d)" (sfx w) (int_of_z v)
  | EConstPtr (w, v) -> Printf.sprintf "(CONST_PTR%s %d)" (sfx w) (int_of_z v)
  | EReg (w, r) -> Printf.sprintf "(REG%s %s)" (sfx w) (reg_s r)
  | EFlag c -> if c then "(FLAG C)" else "(FLAG Z)"
  | ELoad (w, a) -> Printf.sprintf "(LOAD%s %s)" (sfx w) (expr_s a)
  | EBin (o, w, f, a, b) -> Printf.sprintf "(%s%s%s %s %s)" (binop_s o) (sfx w) (fl_s f) (expr_s a) (expr_s b)
  | ERotC (l, w, f, a, n, ci) ->
      Printf.sprintf "(%s%s%s %s %s %s)" (if l then "RLC" else "RRC") (sfx w) (fl_s f) (expr_s a) (expr_s n) (expr_s ci)
  | EPop w -> Printf.sprintf "(POP%s)" (sfx w)
  | EUnimpl -> "(UNIMPL)"

let il_text (prog : stmt list) : string =
  let labels = Hashtbl.create 8 in
  let lab (l : nat) : string =
    let k = int_of_nat l in
    match Hashtbl.find_opt labels k with
    | Some s -> s
    | None -> let s = "L" ^ string_of_int (Hashtbl.length labels) in Hashtbl.add labels k s; s in
  let stmt_s (st : stmt) : string =
    match st with
    | SSetReg (w, r, e) -> Printf.sprintf "(SET_REG%s %s %s)" (sfx w) (reg_s r) (expr_s e)
    | SSetFlag (c, e) -> Printf.sprintf "(SET_FLAG %s %s)" (if c then "C" else "Z") (expr_s e)
    | SStore (w, a, e) -> let sa = expr_s a in Printf.sprintf "(STORE%s %s %s)" (sfx w) sa (expr_s e)
    | SPush (w, e) -> Printf.sprintf "(PUSH%s %s)" (sfx w) (expr_s e)
    | SJump e -> Printf.sprintf "(JUMP %s)" (expr_s e)
    | SCall e -> Printf.sprintf "(CALL %s)" (expr_s e)
    | SRet e -> Printf.sprintf "(RET %s)" (expr_s e)
    | SNop -> "(NOP)"
    | SUnimpl -> "(UNIMPL)"
    | SIntr k -> "(INTRINSIC " ^ (match k with IN_TCL -> "TCL" | IN_HALT -> "HALT" | IN_OFF -> "OFF" | IN_RESET -> "RESET") ^ ")"
    | SExpr e -> expr_s e
    | SIf (c, t, f) -> let sc = expr_s c in let st = lab t in let sf = lab f in Printf.sprintf "(IF %s %s %s)" sc st sf
    | SGoto l -> Printf.sprintf "(GOTO %s)" (lab l)
    | SLabel l -> Printf.sprintf "(LABEL %s)" (lab l) in
  String.concat " " (List.map stmt_s prog)

let il_case (w : string list) : string =
  let bs = bytes_of_hex (List.nth w 0) in
  let addr = z_of_int (ios (List.nth w 1)) in
  match dec_decode bs with
  | DOk i ->
      (match il_lift i addr with
       | Some prog -> Printf.sprintf "OK %d %s" (int_of_nat i.i_len) (il_text prog)
       | None -> "LERR")
  | DShort | DInvalid -> "DNONE"
  | DAssert -> "DERR AssertionError"
  | DNotImpl -> "DERR NotImplementedError"

let parse_kv (s : string) : (string * int) list =
  if s = "-" || s = "" then [] else
  List.map (fun t -> match split_on '=' t with [k; v] -> (k, ios v) | _ -> failwith ("bad kv " ^ t)) (split_on ',' s)

let exec_state (w : string list) : z * mstate =
  let code = bytes_of_hex (List.nth w 0) in
  let addr = ios (List.nth w 1) in
  let regs = parse_kv (List.nth w 2) in
  let mem0 = List.map (fun (k, v) -> (z_of_int (ios k), z_of_int v)) (parse_kv (List.nth w 3)) in
  let codemem = List.mapi (fun i b -> (z_of_int (addr + i), z_of_int (int_of_n b))) code in
  let g k = n_of_int (try List.assoc k regs with Not_found -> 0) in
  let temps = List.init 14 (fun i -> g ("TEMP" ^ string_of_int i)) in
  (z_of_int addr, il_mk_state (g "BA") (g "I") (g "X") (g "Y") (g "U") (g "S") (g "F") temps (codemem @ mem0) (z_of_int (if List.length w > 4 then ios (List.nth w 4) else 0)))

let show_exec (log : bool) (r : xres) : string =
  match r with
  | XLiftError -> "ERR lift"
  | XFault -> "ERR eval"
  | XFuel -> "ERR fuel"
  | XOk s ->
      let rs = List.map int_of_n (il_obs_regs s) in
      let nm = ["pc"; "ba"; "i"; "x"; "y"; "u"; "s"; "f"] in
      let regs = String.concat " " (List.map2 (fun k v -> Printf.sprintf "%s=%d" k v) nm rs) in
      let ws = String.concat "," (List.map (fun (a, v) -> Printf.sprintf "%d=%d" (int_of_z a) (int_of_z v)) (il_obs_writes s)) in
      let base = Printf.sprintf "OK %s halted=%s | w:%s" regs (b2s (il_halted s)) ws in
      if log then
        base ^ " | r:" ^ String.concat "," (List.map (fun a -> string_of_int (int_of_z a)) (il_rlog s))
             ^ " | wl:" ^ String.concat "," (List.map (fun a -> string_of_int (int_of_z a)) (il_wlog s))
      else base

let exec_case (log : bool) (w : string list) : string =
  let (addr, s) = exec_state w in
  let kind = match dec_emu (il_fetch s addr) with
    | EFetch (len, i) -> Printf.sprintf "F:%d:%s" (int_of_nat len) (mnemonic i)
    | EFallback _ -> "FB" | ECrash -> "C" in
  let n = if List.length w > 5 then ios (List.nth w 5) else 1 in
  let s0 = if n = 1 then s else il_set_pc s addr in
  show_exec log (if n = 1 then il_exec_at addr s else il_steps (nat_of_int n) s0) ^ " | k:" ^ kind


(* ---- static metadata ------------------------------------------------------------------ *)
let decode_ok (w : string list) : (instr * z) option =
  let bs = bytes_of_hex (List.nth w 0) in
  let addr = z_of_int (ios (List.nth w 1)) in
  match dec_decode bs with DOk i -> Some (i, addr) | _ -> None

let info_case (w : string list) : string =
  let bs = bytes_of_hex (List.nth w 0) in
  let addr = z_of_int (ios (List.nth w 1)) in
  match dec_decode bs with
  | DNotImpl -> "ERR NotImplementedError"
  | DShort | DInvalid | DAssert -> "NONE"
  | DOk i ->
      (match st_analyze i addr with
       | None -> "NONE"
       | Some b ->
           let bt t = match t with BTrue -> "T" | BFalse -> "F" | BUncond -> "U" | BCall -> "C" | BReturn -> "R" | BUnresolved -> "X" in
           let brs = List.map (fun (t, tg) -> bt t ^ ":" ^ (match tg with None -> "-" | Some a -> string_of_int (int_of_z a))) b.b_branches in
           Printf.sprintf "len=%d br=%s" (int_of_nat b.b_len) (if brs = [] then "-" else String.concat "," brs))

let mode_s (m : imode) : string =
  match m with IM_N -> "N" | IM_BP_N -> "BP_N" | IM_PX_N -> "PX_N" | IM_PY_N -> "PY_N" | IM_BP_PX -> "BP_PX" | IM_BP_PY -> "BP_PY"
let imem_s (m : imode) (n : n) : string =
  match m with IM_BP_PX | IM_BP_PY -> "(" ^ mode_s m ^ ")" | _ -> Printf.sprintf "(%s:%d)" (mode_s m) (int_of_n n)
let soff_s (o : z option) : string =
  match o with None -> "" | Some d -> let v = int_of_z d in if v < 0 then Printf.sprintf "-%d" (- v) else Printf.sprintf "+%d" v

let rop_s ((o, m) : logop * imode) : string =
  match o with
  | LImm (_, v) -> "#" ^ string_of_int (int_of_n v)
  | LImmOff (neg, v) -> Printf.sprintf "#%s%d" (if neg then "-" else "+") (int_of_n v)
  | LIMem (_, n) -> imem_s m n
  | LReg (r, _) | LReg3 (r, _) -> reg_s r
  | LRegIL -> "IL" | LRegIMR -> "IMR" | LRegF -> "F"
  | LEAddr (_, v) -> Printf.sprintf "[%d]" (int_of_n v)
  | LEPtr (_, b, off) ->
      (match b with
       | PB_Reg (r, _) -> Printf.sprintf "[%s%s]" (reg_s r) (soff_s off)
       | PB_IncDec (r, _, md, _) ->
           (match md with
            | EM_POST_INC -> Printf.sprintf "[%s++%s]" (reg_s r) (soff_s off)
            | EM_PRE_DEC -> Printf.sprintf "[--%s%s]" (reg_s r) (soff_s off)
            | _ -> Printf.sprintf "[%s%s]" (reg_s r) (soff_s off))
       | PB_IMem n -> Printf.sprintf "[%s%s]" (imem_s m n) (soff_s off))

let render_case (w : string list) : string =
  let bs = bytes_of_hex (List.nth w 0) in
  match dec_decode bs with
  | DNotImpl -> "DERR NotImplementedError"
  | DAssert -> "DERR AssertionError"
  | DShort | DInvalid -> "DNONE"
  | DOk i ->
      (match st_render_ops i with
       | None -> "RERR"
       | Some ros -> Printf.sprintf "OK %s %s" (mnemonic i) (if ros = [] then "-" else String.concat " " (List.map rop_s ros)))

let zl_s (l : z list) : string = String.concat "," (List.map (fun a -> string_of_int (int_of_z a)) l)

(* den <hex> <addr> <regs> <mem> <fill>: documented access sets of the instruction in that state *)
let den_case (w : string list) : string =
  let (addr, s) = exec_state w in
  match dec_emu (il_fetch s addr) with
  | EFetch (_, i) ->
      (match st_den i s with
       | Some (r, wr) -> Printf.sprintf "OK r:%s | w:%s" (zl_s r) (zl_s wr)
       | None -> "NODEN")
  | _ -> "NOFETCH"

(* spec <hex> <addr> <regs> <mem> <fill>: the documented effect of the instruction *)
let spec_case (w : string list) : string =
  let (addr, s) = exec_state w in
  match dec_emu (il_fetch s addr) with
  | EFetch (_, i) ->
      (match sp_exec i addr s with
       | Some s1 -> show_exec false (XOk s1)
       | None -> "NOSPEC")
  | _ -> "NOFETCH"

(* tsafe <hex> <addr>: scratch-register definite-assignment check of the lifted IL *)
let tsafe_case (w : string list) : string =
  let bs = bytes_of_hex (List.nth w 0) in
  let addr = z_of_int (ios (List.nth w 1)) in
  match dec_decode bs with
  | DOk i -> if ts_safe i addr then "SAFE" else "UNSAFE " ^ mnemonic i
  | _ -> "NODECODE"

(* asm_layout <line>...: line = <labelid|->:<S<n>|O<lit>|Y<labelid>|B<size>|-> *)
let asm_case (w : string list) : string =
  let parse_line (t : string) : line =
    match split_on ':' t with
    | [lb; k] ->
        let lab = if lb = "-" then None else Some (n_of_int (ios lb)) in
        let rest () = n_of_int (ios (String.sub k 1 (String.length k - 1))) in
        let st = if k = "-" then None else
          Some (match k.[0] with
                | 'S' -> KSection (rest ()) | 'O' -> KOrg (OLit (rest ())) | 'Y' -> KOrg (OSym (rest ()))
                | 'B' -> KBytes (rest ()) | _ -> failwith ("bad asm kind " ^ k)) in
        { l_label = lab; l_stmt = st }
    | _ -> failwith ("bad asm line " ^ t) in
  match asm_layout (List.map parse_line w) with
  | Inr EDuplicateLabel -> "ERR duplicate_label"
  | Inr EUnknownSection -> "ERR unknown_section"
  | Inr EUndefinedSymbol -> "ERR undefined_symbol"
  | Inl y ->
      let nl l = String.concat "," (List.map (fun x -> string_of_int (int_of_n x)) l) in
      Printf.sprintf "OK syms=%s place=%s a1=%s a2=%s"
        (String.concat "," (List.map (fun (k, v) -> Printf.sprintf "%d:%d" (int_of_n k) (int_of_n v)) y.y_syms))
        (String.concat "," (List.map (fun ((a, sz), e) -> Printf.sprintf "%d:%d:%s" (int_of_n a) (int_of_n sz) (b2s e)) y.y_place))
        (nl y.y_addr1) (nl y.y_addr2)

(* irq_frame <pc> <s> <f> <imr> <vector>: the frame Model/Irq.v pushes: new S, new IMR, new PC, five frame bytes, gate for <isr> *)
let irq_case (w : string list) : string =
  match List.map ios w with
  | [pc; sp; f; imr; vec; isr] ->
      let mem0 = [(z_of_int 1048827, z_of_int imr); (z_of_int 1048570, z_of_int (vec land 255));
                  (z_of_int 1048571, z_of_int ((vec lsr 8) land 255)); (z_of_int 1048572, z_of_int (vec lsr 16))] in
      let s0 = il_mk_state N0 N0 N0 N0 N0 (n_of_int sp) (n_of_int f) (List.init 14 (fun _ -> N0)) mem0 Z0 in
      let s1 = il_set_pc s0 (z_of_int pc) in
      let t = irq_deliver s1 in
      let rs = List.map int_of_n (il_obs_regs t) in
      let frame = List.init 5 (fun j -> string_of_int (int_of_z (irq_mem t (z_of_int (sp - 5 + j))))) in
      Printf.sprintf "s=%d imr=%d pc=%d frame=%s gate=%s" (List.nth rs 6) (int_of_z (irq_mem t (z_of_int 1048827))) (List.nth rs 0)
        (String.concat "." frame) (b2s (irq_gate (z_of_int imr) (z_of_int isr)))
  | _ -> "ERR bad irq_frame"

let handle (w : string list) : string =
  match w with
  | "irq_frame" :: rest -> irq_case rest
  | "asm_layout" :: rest -> asm_case rest
  | "tsafe" :: rest -> tsafe_case rest
  | "spec" :: rest -> spec_case rest
  | "info" :: rest -> info_case rest
  | "render" :: rest -> render_case rest
  | "den" :: rest -> den_case rest
  | "il" :: rest -> il_case rest
  | "exec_py" :: rest -> exec_case true rest
  | "exec1" :: rest -> exec_case false rest
  | "mem_py" :: cfg :: ops -> show_nl (mem_py_run (parse_memcfg false cfg) (List.map parse_mop ops))
  | "mem_rs" :: cfg :: ops -> show_nl (mem_rs_run (parse_memcfg true cfg) (List.map parse_mop ops))
  | "sched" :: clock0 :: budgets :: tasks -> sched_case clock0 budgets tasks
  | "kbd_py" :: pt :: rt :: dl :: iv :: ah :: re :: _irq :: ops ->
      show_nll (kbd_py_run (kcfg_of pt rt dl iv ah re) (List.map parse_kop ops))
  | "kbd_rs" :: pt :: rt :: dl :: iv :: ah :: re :: irq :: ops ->
      show_nll (kbd_rs_run (kcfg_of pt rt dl iv ah re) (s2b irq) (List.map parse_kop ops))
  | "lcd_py" :: ops -> show_nll (lcd_py_run (List.map parse_lop ops))
  | "lcd_rs" :: ops -> show_nll (lcd_rs_run (List.map parse_lop ops))
  | "dec" :: rest -> dec_case rest
  | "regs_py" :: ops -> show_nll (regs_py_run (List.map parse_rop ops))
  | "regs_rs" :: ops -> show_nll (regs_rs_run (List.map parse_rop ops))
  | "timer_py" :: en :: pm :: ps :: isr :: ops ->
      let t = timer_py_init (s2b en) (n_of_int (ios pm)) (n_of_int (ios ps)) in
      show_tobs_list (timer_py_run t (n_of_int (ios isr)) (List.map parse_top ops))
  | "timer_rs" :: en :: pm :: ps :: isr :: ops ->
      let t = timer_rs_init (s2b en) (n_of_int (ios pm)) (n_of_int (ios ps)) (n_of_int (ios isr)) in
      show_tobs_list (timer_rs_run t (List.map parse_top ops))
  | c :: _ -> "ERR unknown-command " ^ c
  | [] -> "ERR empty"

let () =
  try
    while true do
      let line = input_line stdin in
      let out = try handle (words line) with e -> "ERR driver " ^ Printexc.to_string e in
      print_string out; print_char '\n'
    done
  with End_of_file -> ()
