(* model_driver: reads one case per line on stdin, prints one answer line per case.
   Numbers on the wire are decimal OCaml ints (< 2^62); they are converted to/from the
   extracted N/Z/positive/nat datatypes here and nowhere else. *)
open Model

let rec pos_of_int (i : int) : positive =
  if i = 1 then XH else if i land 1 = 0 then XO (pos_of_int (i lsr 1)) else XI (pos_of_int (i lsr 1))
let n_of_int (i : int) : n = if i = 0 then N0 else Npos (pos_of_int i)
let rec int_of_pos (p : positive) : int =
  match p with XH -> 1 | XO q -> 2 * int_of_pos q | XI q -> 2 * int_of_pos q + 1
let int_of_n (x : n) : int = match x with N0 -> 0 | Npos p -> int_of_pos p
let z_of_int (i : int) : z = if i = 0 then Z0 else if i > 0 then Zpos (pos_of_int i) else Zneg (pos_of_int (- i))
let int_of_z (x : z) : int = match x with Z0 -> 0 | Zpos p -> int_of_pos p | Zneg p -> - (int_of_pos p)
let rec nat_of_int (i : int) : nat = if i <= 0 then O else S (nat_of_int (i - 1))
let rec int_of_nat (x : nat) : int = match x with O -> 0 | S m -> 1 + int_of_nat m

let ios = int_of_string
let b2s b = if b then "1" else "0"
let s2b s = s <> "0"
let split_on c s = String.split_on_char c s
let words s = List.filter (fun x -> x <> "") (split_on ' ' s)

(* ---- timer -------------------------------------------------------------------------- *)
let parse_top (s : string) : top =
  match split_on ':' s with
  | ["t"; c] -> TTick (n_of_int (ios c))
  | ["r"; c] -> TReset (n_of_int (ios c))
  | ["n"; a; b] -> TSetNext (n_of_int (ios a), n_of_int (ios b))
  | _ -> failwith ("bad timer op " ^ s)

let show_tobs (((((fm, fs), nm), ns), isr) : tobs) : string =
  Printf.sprintf "%s,%s,%d,%d,%d" (b2s fm) (b2s fs) (int_of_n nm) (int_of_n ns) (int_of_n isr)

let show_tobs_list (r : tobs list option) : string =
  match r with
  | None -> "ERR fuel"
  | Some l -> String.concat ";" (List.map show_tobs l)

(* ---- registers ---------------------------------------------------------------------- *)
let parse_reg (s : string) : reg =
  match s with
  | "A" -> RA | "B" -> RB | "BA" -> RBA | "IL" -> RIL | "IH" -> RIH | "I" -> RI | "X" -> RX | "Y" -> RY
  | "U" -> RU | "S" -> RS | "PC" -> RPC | "F" -> RF | "FC" -> RFC | "FZ" -> RFZ
  | _ -> if String.length s > 4 && String.sub s 0 4 = "TEMP" then RTEMP (nat_of_int (ios (String.sub s 4 (String.length s - 4))))
         else failwith ("bad reg " ^ s)

let parse_rop (s : string) : rop =
  match split_on ':' s with
  | ["s"; r; v] -> OSet (parse_reg r, n_of_int (ios v))
  | ["g"; r] -> OGet (parse_reg r)
  | ["snap"] -> OSnap
  | ["blob"] -> OBlob
  | _ -> failwith ("bad reg op " ^ s)

let show_nl (l : n list) : string = String.concat "," (List.map (fun x -> string_of_int (int_of_n x)) l)
let show_nll (l : n list list) : string = String.concat ";" (List.map show_nl l)

let handle (w : string list) : string =
  match w with
  | "regs_py" :: ops -> show_nll (regs_py_run (List.map parse_rop ops))
  | "regs_rs" :: ops -> show_nll (regs_rs_run (List.map parse_rop ops))
  | "timer_py" :: en :: pm :: ps :: isr :: ops ->
      let t = timer_py_init (s2b en) (n_of_int (ios pm)) (n_of_int (ios ps)) in
      show_tobs_list (timer_py_run t (n_of_int (ios isr)) (List.map parse_top ops))
  | "timer_rs" :: en :: pm :: ps :: isr :: ops ->
      let t = timer_rs_init (s2b en) (n_of_int (ios pm)) (n_of_int (ios ps)) (n_of_int (ios isr)) in
      show_tobs_list (timer_rs_run t (List.map parse_top ops))
  | c :: _ -> "ERR unknown-command " ^ c
  | [] -> "ERR empty"

let () =
  try
    while true do
      let line = input_line stdin in
      let out = try handle (words line) with e -> "ERR driver " ^ Printexc.to_string e in
      print_string out; print_char '\n'
    done
  with End_of_file -> ()
