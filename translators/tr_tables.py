"""tr_tables: regenerate coq/Gen/Tables.v from /repo's current working tree.

Python side: imports the repo's modules (opcode table, PRE tables, register declarations, IMEM
register enum, constants, arch registers, view segments).  Rust side: tokenises the const tables in
opcodes.rs / eval.rs / memory.rs / state.rs.  Fail-closed: anything not understood raises, the check
then reports that the model can no longer be regenerated.
"""
from __future__ import annotations

import ast
import hashlib
import os
import re
import sys
from pathlib import Path

VERIF = Path(__file__).resolve().parent.parent
REPO = Path(os.environ.get("VERIF_REPO", "/repo"))
sys.path.insert(0, str(VERIF / "lib"))
from common import write_if_changed  # noqa: E402

from binja_test_mocks import binja_api  # noqa: F401,E402


class TranslatorError(Exception):
    pass


def fail(msg):
    raise TranslatorError(msg)


# --------------------------------------------------------------------------------------
# Coq text helpers (raw values only)
# --------------------------------------------------------------------------------------
def cN(v: int) -> str:
    if not isinstance(v, int) or v < 0:
        fail(f"not a natural: {v!r}")
    return str(v)


def cstr(s: str) -> str:
    if '"' in s or "\\" in s or "\n" in s:
        fail(f"string not printable: {s!r}")
    return '"' + s + '"%string'


def clist(items) -> str:
    items = list(items)
    return "[" + "; ".join(items) + "]"


def cbool(b) -> str:
    return "true" if b else "false"


def copt(x, f) -> str:
    return "None" if x is None else "(Some " + f(x) + ")"


REGS = {"A": "RA", "B": "RB", "BA": "RBA", "IL": "RIL", "IH": "RIH", "I": "RI", "X": "RX", "Y": "RY",
        "U": "RU", "S": "RS", "F": "RF", "PC": "RPC", "FC": "RFC", "FZ": "RFZ", "IMR": "RIMR"}
IMODES = {"N": "IM_N", "BP_N": "IM_BP_N", "PX_N": "IM_PX_N", "PY_N": "IM_PY_N", "BP_PX": "IM_BP_PX", "BP_PY": "IM_BP_PY"}
RS_IMODES = {"N": "IM_N", "BpN": "IM_BP_N", "PxN": "IM_PX_N", "PyN": "IM_PY_N", "BpPx": "IM_BP_PX", "BpPy": "IM_BP_PY"}
EMODES = {"SIMPLE": "EM_SIMPLE", "POST_INC": "EM_POST_INC", "PRE_DEC": "EM_PRE_DEC", "POSITIVE_OFFSET": "EM_POS_OFF", "NEGATIVE_OFFSET": "EM_NEG_OFF"}
CONDS = {"Z": "CZ", "NZ": "CNZ", "C": "CC", "NC": "CNC"}
ICLS = ["NOP", "RETI", "JP_Abs", "JP_Rel", "CALL", "RET", "RETF", "MV", "MVL", "MVLD", "PRE", "PUSHU", "POPU", "PUSHS", "POPS",
        "ADD", "ADC", "SUB", "SBC", "ADCL", "SBCL", "DADL", "DSBL", "AND", "OR", "XOR", "TEST", "CMP", "CMPW", "CMPP",
        "ROR", "ROL", "SHL", "SHR", "DSLL", "DSRL", "INC", "DEC", "EX", "EXL", "WAIT", "PMDF", "SWAP", "SC", "RC", "TCL",
        "HALT", "OFF", "IR", "RESET", "UnknownInstruction"]
OPTNAMES = {"JPF": "ON_JPF", "CALLF": "ON_CALLF", "MVW": "ON_MVW", "MVP": "ON_MVP", "EXW": "ON_EXW", "EXP": "ON_EXP"}
RKINDS = ["Nop", "Ret", "RetI", "RetF", "JpAbs", "JpRel", "Pre", "Mv", "PushU", "PopU", "PushS", "PopS", "Unknown", "Add", "Sub", "Adc",
          "Sbc", "Pmdf", "Mvl", "Sbcl", "Cmp", "Test", "Xor", "Inc", "Dec", "And", "Or", "Sc", "Rc", "Ex", "Exl", "Dadl", "Cmpw", "Cmpp",
          "Mvw", "Mvp", "Mvld", "Dsbl", "Ror", "Rol", "Dsll", "Dsrl", "Shr", "Shl", "Swap", "Wait", "Halt", "Off", "Tcl", "Ir", "Reset", "Call"]


def reg(name) -> str:
    n = str(getattr(name, "value", name))
    if n not in REGS:
        fail(f"unknown register {n}")
    return REGS[n]


# --------------------------------------------------------------------------------------
# Python tables
# --------------------------------------------------------------------------------------
def py_shape(op) -> str:
    from sc62015.pysc62015.instr import opcodes as O

    t = type(op)
    if t is O.Imm8:
        return "PImm8"
    if t is O.Imm16:
        return "PImm16"
    if t is O.Imm20:
        return "PImm20"
    if t is O.ImmOffset:
        if op.sign not in ("+", "-"):
            fail("ImmOffset sign")
        return f"(PImmOffset {cbool(op.sign == '-')})"
    if t in (O.IMem8, O.IMem16, O.IMem20):
        return f"(PIMem {cN(op.width())})"
    if t is O.Reg:
        return f"(PReg {reg(op.reg)} {cN(op.width())})"
    if t is O.RegB:
        return "PRegB"
    if t is O.RegIL:
        return "PRegIL"
    if t is O.RegIMR:
        return "PRegIMR"
    if t is O.RegF:
        return "PRegF"
    if t is O.RegPC:
        return "PRegPC"
    if t is O.Reg3:
        return "PReg3"
    if t is O.RegPair:
        return f"(PRegPair {cN(op.size)})"
    if t is O.EMemAddr:
        return f"(PEMemAddr {cN(op.width())})"

    def allowed(a):
        return copt(a, lambda l: clist(EMODES[m.name] for m in l))

    if t is O.EMemReg:
        return f"(PEMemReg {cN(op.width)} {allowed(op.allowed_modes)})"
    if t is O.EMemIMem:
        return f"(PEMemIMem {cN(op._width)})"
    if t is O.RegIMemOffset:
        return f"(PRegIMemOffset {cbool(op.order.name == 'DEST_IMEM')} {allowed(op.allowed_modes)})"
    if t is O.EMemIMemOffset:
        return f"(PEMemIMemOffset {cbool(op.order.name == 'DEST_INT_MEM')})"
    fail(f"operand class without a mapping: {t.__name__}")


def py_tables() -> list[str]:
    from sc62015.pysc62015.instr import opcodes as O
    from sc62015.pysc62015.instr.opcode_table import OPCODES
    from sc62015.pysc62015 import constants as K
    from sc62015.pysc62015 import emulator as E

    out = []
    ents = []
    dents = []
    if sorted(OPCODES) != list(range(256)):
        out.append("(* NOTE: python opcode table does not define all 256 opcodes *)")
    for opc in sorted(OPCODES):
        d = OPCODES[opc]
        cls, opts = d if isinstance(d, tuple) else (d, O.Opts())
        cname = cls.__name__
        if cname not in ICLS:
            fail(f"instruction class without a mapping: {cname}")
        icls = "I_Unknown" if cname == "UnknownInstruction" else "I_" + cname
        if opts.name is not None and opts.name not in OPTNAMES:
            fail(f"Opts.name without a mapping: {opts.name}")
        if opts.cond is not None and opts.cond not in CONDS:
            fail(f"cond without a mapping: {opts.cond}")
        ops = [py_shape(o) for o in (opts.ops or [])]
        dents.append(
            "{| d_opc := %s; d_cls := %s; d_optname := %s; d_cond := %s; d_rev := %s; d_ops := %s |}"
            % (cN(opc), icls, copt(opts.name, lambda n: OPTNAMES[n]), copt(opts.cond, lambda c: CONDS[c]), cbool(bool(opts.ops_reversed)), clist(ops)))
        ents.append(
            "{| p_opc := %s; p_cls := %s; p_optname := %s; p_cond := %s; p_rev := %s; p_ops := %s; p_clsname := %s; p_optname_s := %s |}"
            % (cN(opc), icls, copt(opts.name, lambda n: OPTNAMES[n]), copt(opts.cond, lambda c: CONDS[c]), cbool(bool(opts.ops_reversed)),
               clist(ops), cstr(cname), copt(opts.name, cstr)))
    out.append("Definition py_opcodes : list pentry :=\n  " + clist(["\n   " + e for e in ents]) + ".")
    out.append("Definition py_dec_table : list dentry :=\n  " + clist(["\n   " + e for e in dents]) + ".")

    # PRE tables
    pre = []
    for opc in sorted(O.PRE_TABLE[1]):
        pre.append(f"({cN(opc)}, {IMODES[O.PRE_TABLE[1][opc].name]}, {IMODES[O.PRE_TABLE[2][opc].name]})")
    if sorted(O.PRE_TABLE[1]) != sorted(O.PRE_TABLE[2]):
        fail("PRE_TABLE operand tables differ in keys")
    out.append("Definition py_pre_table : list (N * imode * imode) := " + clist(pre) + ".")
    rev = [f"(({IMODES[a.name]}, {IMODES[b.name]}), {cN(v)})" for (a, b), v in sorted(O.REVERSE_PRE_TABLE.items(), key=lambda kv: kv[1])]
    out.append("Definition py_reverse_pre_table : list ((imode * imode) * N) := " + clist(rev) + ".")
    sp = [f"({IMODES[k.name]}, {cN(v)})" for k, v in sorted(O.SINGLE_OPERAND_PRE_LOOKUP.items(), key=lambda kv: kv[1])]
    out.append("Definition py_single_operand_pre : list (imode * N) := " + clist(sp) + ".")
    out.append("Definition py_single_addressable : list N := " + clist(cN(x) for x in sorted(O.SINGLE_ADDRESSABLE_OPCODES)) + ".")
    # which PRE opcodes have class PRE in the table
    # registers
    out.append("Definition py_reg_names : list regname := " + clist(reg(r) for r in O.REG_NAMES) + ".")
    out.append("Definition py_reg_sizes_opcodes : list (regname * N) := " + clist(f"({reg(k)}, {cN(v)})" for k, v in O.REG_SIZES.items()) + ".")
    emu = [(k, v) for k, v in E.REGISTER_SIZE.items() if not k.name.startswith("TEMP")]
    out.append("Definition py_reg_sizes_emulator : list (regname * N) := " + clist(f"({reg(k.name)}, {cN(v)})" for k, v in emu) + ".")
    out.append("Definition py_num_temp_registers : N := " + cN(E.NUM_TEMP_REGISTERS) + ".")
    out.append("Definition py_temp_sizes : list N := " + clist(cN(v) for k, v in E.REGISTER_SIZE.items() if k.name.startswith("TEMP")) + ".")
    # sub-register layout of the emulator register file: (sub, base, shift, mask)
    sub = [f"({reg(k.name)}, {reg(b.name)}, {cN(sh)}, {cN(m)})" for k, (b, sh, m) in E.Registers._SUBREG_INFO.items()]
    out.append("Definition py_subregs_emulator : list (regname * regname * N * N) := " + clist(sub) + ".")
    out.append("Definition py_pc_mask : N := " + cN(K.PC_MASK) + ".")
    # the width each register really has in the emulator's register file: all-ones written through Registers.set, read back
    # through Registers.get (the masks live in code - inline tuples / sets of "address registers" - not only in REGISTER_SIZE)
    probed = []
    for k, _ in emu:
        rf = E.Registers()
        rf.set(k, 0xFFFFFFFF)
        probed.append(f"({reg(k.name)}, {cN(rf.get(k))})")
    out.append("Definition py_probed_masks : list (regname * N) := " + clist(probed) + ".")
    # arch.py
    from sc62015.arch import SC62015
    arch = []
    for nm, ri in SC62015.regs.items():
        if nm == "PS":
            continue
        full = getattr(ri, "full_width_reg", getattr(ri, "name", None))
        arch.append(f"({reg(nm)}, {reg(full)}, {cN(int(ri.size))}, {cN(int(getattr(ri, 'offset', 0) or 0))})")
    out.append("Definition py_regs_arch : list (regname * regname * N * N) := " + clist(arch) + ".  (* name, full-width reg, size, byte offset *)")
    out.append("Definition py_arch_stack_pointer : regname := " + reg(SC62015.stack_pointer) + ".")
    out.append("Definition py_arch_address_size : N := " + cN(int(SC62015.address_size)) + ".")
    # IMEM registers (canonical names only: first name per value) and all aliases
    im = [(m.name, int(m.value)) for m in O.IMEMRegisters]
    out.append("Definition py_imem_regs : list (string * N) := " + clist(f"({cstr(n)}, {cN(v)})" for n, v in im) + ".")
    al = [(n, int(m.value)) for n, m in O.IMEMRegisters.__members__.items()]
    out.append("Definition py_imem_aliases : list (string * N) := " + clist(f"({cstr(n)}, {cN(v)})" for n, v in al) + ".")
    for nm in ("BP", "PX", "PY", "IMR", "USR", "SSR", "UCR", "ISR", "SCR", "LCC"):
        out.append(f"Definition py_imem_{nm} : N := {cN(int(O.IMEMRegisters[nm].value))}.")
    # vectors & constants
    out.append(f"Definition py_interrupt_vector : N := {cN(O.INTERRUPT_VECTOR_ADDR)}.")
    out.append(f"Definition py_entry_point : N := {cN(O.ENTRY_POINT_ADDR)}.")
    out.append(f"Definition py_internal_memory_start : N := {cN(K.INTERNAL_MEMORY_START)}.")
    out.append(f"Definition py_internal_memory_length : N := {cN(K.INTERNAL_MEMORY_LENGTH)}.")
    out.append(f"Definition py_address_space_size : N := {cN(K.ADDRESS_SPACE_SIZE)}.")
    out.append("Definition py_emode_values : list (emode * N) := " + clist(f"({EMODES[m.name]}, {cN(m.value)})" for m in O.EMemRegMode) + ".")
    out.append("Definition py_emem_imem_mode_values : list N := " + clist(cN(m.value) for m in O.EMemIMemMode) + ".  (* SIMPLE, POSITIVE_OFFSET, NEGATIVE_OFFSET *)")
    if [m.name for m in O.EMemIMemMode] != ["SIMPLE", "POSITIVE_OFFSET", "NEGATIVE_OFFSET"]:
        fail("EMemIMemMode members changed")
    # intrinsics.py reset / interrupt vectors as used at run time
    src = (REPO / "sc62015/pysc62015/intrinsics.py").read_text()
    m = re.search(r"reset_vector\s*=\s*memory\.read_byte\((0x[0-9A-Fa-f]+)\)", src)
    if m:
        out.append(f"Definition py_reset_vector_used : N := {cN(int(m.group(1), 16))}.")
    else:
        m = re.search(r"(?:read_(?:long|byte)\()\s*(0x[0-9A-Fa-f]+|ENTRY_POINT_ADDR|INTERRUPT_VECTOR_ADDR)", src)
        if not m:
            fail("cannot find the reset vector read in intrinsics.py")
        tok = m.group(1)
        val = {"ENTRY_POINT_ADDR": O.ENTRY_POINT_ADDR, "INTERRUPT_VECTOR_ADDR": O.INTERRUPT_VECTOR_ADDR}.get(tok)
        out.append(f"Definition py_reset_vector_used : N := {cN(val if val is not None else int(tok, 16))}.")
    # view segments
    from sc62015 import view as V
    for nm, cls in (("rom_view_segments", V.SC62015RomView), ("full_view_segments", V.SC62015FullView)):
        segs = [f"{{| seg_name := {cstr(s.name)}; seg_start := {cN(int(s.start))}; seg_len := {cN(int(s.length))} |}}" for s in cls.SEGMENTS]
        out.append(f"Definition {nm} : list segment := " + clist(segs) + ".")
    # how a disallowed (but valid) EMemReg mode is rejected at decode time: assert or InvalidInstruction
    out.append("Definition py_allowed_mode_violation_is_assert : bool := " + cbool(allowed_violation_is_assert()) + ".")
    return out


def allowed_violation_is_assert() -> bool:
    """Inspect RegIMemOffset.decode / EMemReg.decode: what happens under `if self.allowed_modes is not None:`."""
    src = (REPO / "sc62015/pysc62015/instr/opcodes.py").read_text()
    tree = ast.parse(src)
    kinds = []
    for cls in [n for n in tree.body if isinstance(n, ast.ClassDef) and n.name in ("RegIMemOffset", "EMemReg")]:
        for fn in [n for n in cls.body if isinstance(n, ast.FunctionDef) and n.name == "decode"]:
            found = False
            for node in ast.walk(fn):
                if isinstance(node, ast.If) and "allowed_modes" in ast.unparse(node.test):
                    body0 = node.body[0]
                    if isinstance(body0, ast.Assert):
                        kinds.append("assert")
                    elif isinstance(body0, ast.If) and isinstance(body0.body[0], ast.Raise) and "InvalidInstruction" in ast.unparse(body0.body[0]):
                        kinds.append("invalid")
                    elif isinstance(body0, ast.Raise) and "InvalidInstruction" in ast.unparse(body0) and "not in" in ast.unparse(node.test):
                        kinds.append("invalid")
                    else:
                        fail(f"{cls.name}.decode: allowed_modes check not understood: {ast.unparse(body0)[:80]}")
                    found = True
            if not found:
                fail(f"{cls.name}.decode: no allowed_modes check found")
    if len(kinds) != 2 or len(set(kinds)) != 1:
        fail(f"allowed_modes checks differ between RegIMemOffset and EMemReg: {kinds}")
    return kinds[0] == "assert"


# --------------------------------------------------------------------------------------
# Rust tables (tokenised from source)
# --------------------------------------------------------------------------------------
def strip_rust_comments(s: str) -> str:
    s = re.sub(r"/\*.*?\*/", "", s, flags=re.S)
    return re.sub(r"//[^\n]*", "", s)


def rnum(tok: str) -> int:
    tok = tok.replace("_", "").strip()
    tok = re.sub(r"(u8|u16|u32|u64|usize|i32)$", "", tok)
    return int(tok, 16) if tok.lower().startswith("0x") else int(tok)


def rs_operand(tok: str) -> str:
    tok = tok.strip()
    m = re.fullmatch(r"OperandKind::(\w+)(?:\((.*)\))?", tok)
    if not m:
        fail(f"rust operand not understood: {tok}")
    k, arg = m.group(1), m.group(2)
    simple = {"ImmOffset": "RImmOffset", "EMemImemOffsetDestIntMem": "REMemImemOffsetDestIntMem", "EMemImemOffsetDestExtMem": "REMemImemOffsetDestExtMem",
              "EMemRegModePostPre": "REMemRegModePostPre", "RegB": "RRegB", "RegIL": "RRegIL", "RegIMR": "RRegIMR", "RegF": "RRegF", "Reg3": "RReg3",
              "Placeholder": "RPlaceholder", "ImemPtr": "RImemPtr"}
    if k in simple and arg is None:
        return simple[k]
    one = {"Imm": "RImm", "IMem": "RIMem", "EMemAddr": "REMemAddr", "EMemReg": "REMemReg", "EMemIMem": "REMemIMem", "EMemAddrWidth": "REMemAddrWidth",
           "EMemAddrWidthOp": "REMemAddrWidthOp", "EMemRegWidth": "REMemRegWidth", "EMemRegWidthMode": "REMemRegWidthMode", "EMemIMemWidth": "REMemIMemWidth",
           "IMemWidth": "RIMemWidth", "RegPair": "RRegPair"}
    if k in one and arg is not None:
        return f"({one[k]} {cN(rnum(arg))})"
    if k == "Reg" and arg:
        a, b = [x.strip() for x in arg.split(",")]
        mm = re.fullmatch(r"RegName::(\w+)", a)
        if not mm:
            fail(f"rust Reg operand: {tok}")
        return f"(RReg {reg(mm.group(1))} {cN(rnum(b))})"
    if k == "RegIMemOffset" and arg:
        mm = re.fullmatch(r"RegImemOffsetKind::(DestImem|DestRegOffset)", arg.strip())
        if not mm:
            fail(f"rust RegIMemOffset: {tok}")
        return f"(RRegIMemOffset {cbool(mm.group(1) == 'DestImem')})"
    if k == "Unknown":
        return "RUnknownOp"
    fail(f"rust operand kind without a mapping: {tok}")


def split_top(s: str) -> list[str]:
    parts, depth, cur = [], 0, ""
    for ch in s:
        if ch in "([":
            depth += 1
        elif ch in ")]":
            depth -= 1
        if ch == "," and depth == 0:
            parts.append(cur)
            cur = ""
        else:
            cur += ch
    if cur.strip():
        parts.append(cur)
    return [p.strip() for p in parts if p.strip()]


def rs_tables() -> list[str]:
    out = []
    core = REPO / "sc62015/core/src"
    src = strip_rust_comments((core / "llama/opcodes.rs").read_text())
    m = re.search(r"pub static OPCODES\s*:\s*\[OpcodeEntry;\s*(\d+)\]\s*=\s*\[(.*?)\n\];", src, flags=re.S)
    if not m:
        fail("OPCODES table not found in opcodes.rs")
    declared = int(m.group(1))
    body = m.group(2)
    ents = []
    for em in re.finditer(r"OpcodeEntry\s*\{(.*?)\}\s*,", body, flags=re.S):
        fields = {}
        txt = em.group(1)
        fm = re.search(r"opcode:\s*([^,]+),\s*kind:\s*InstrKind::(\w+),\s*name:\s*\"([^\"]*)\",\s*cond:\s*(None|Some\(\"(\w+)\"\)),\s*ops_reversed:\s*(None|Some\((true|false)\)),\s*operands:\s*&\[(.*?)\]\s*,?\s*$", txt.strip(), flags=re.S)
        if not fm:
            fail(f"rust opcode entry not understood: {txt.strip()[:120]}")
        opc = rnum(fm.group(1))
        kind = fm.group(2)
        if kind not in RKINDS:
            fail(f"rust InstrKind without a mapping: {kind}")
        cond = fm.group(5)
        if cond is not None and cond not in CONDS:
            fail(f"rust cond: {cond}")
        rev = fm.group(7) == "true"
        ops = [rs_operand(t) for t in split_top(fm.group(8))]
        ents.append("{| r_opc := %s; r_kind := K_%s; r_name := %s; r_cond := %s; r_rev := %s; r_ops := %s |}"
                    % (cN(opc), kind, cstr(fm.group(3)), copt(cond, lambda c: CONDS[c]), cbool(rev), clist(ops)))
    if len(ents) != declared:
        fail(f"rust OPCODES: parsed {len(ents)} entries, array declares {declared}")
    out.append("Definition rs_opcodes : list rentry :=\n  " + clist(["\n   " + e for e in ents]) + ".")

    ev = strip_rust_comments((core / "llama/eval.rs").read_text())
    m = re.search(r"const PRE_MODES\s*:[^=]*=\s*&\[(.*?)\];", ev, flags=re.S)
    if not m:
        fail("PRE_MODES not found")
    pre = []
    for t in re.finditer(r"\(\s*([^,]+),\s*AddressingMode::(\w+),\s*AddressingMode::(\w+)\s*\)", m.group(1)):
        pre.append(f"({cN(rnum(t.group(1)))}, {RS_IMODES[t.group(2)]}, {RS_IMODES[t.group(3)]})")
    if not pre:
        fail("PRE_MODES empty")
    out.append("Definition rs_pre_table : list (N * imode * imode) := " + clist(pre) + ".")
    m = re.search(r"const SINGLE_ADDRESSABLE_OPCODES\s*:[^=]*=\s*&\[(.*?)\];", ev, flags=re.S)
    if not m:
        fail("SINGLE_ADDRESSABLE_OPCODES not found")
    out.append("Definition rs_single_addressable : list N := " + clist(cN(rnum(t)) for t in split_top(m.group(1))) + ".")
    for nm, coq in (("INTERRUPT_VECTOR_ADDR", "rs_interrupt_vector"), ("ROM_RESET_VECTOR_ADDR", "rs_reset_vector")):
        m = re.search(r"const %s\s*:\s*u32\s*=\s*([^;]+);" % nm, ev)
        if not m:
            fail(f"{nm} not found in eval.rs")
        out.append(f"Definition {coq} : N := {cN(rnum(m.group(1)))}.")
    lib = strip_rust_comments((core / "lib.rs").read_text())
    m = re.search(r"const INTERRUPT_VECTOR_ADDR\s*:\s*u32\s*=\s*([^;]+);", lib)
    if not m:
        fail("INTERRUPT_VECTOR_ADDR not found in lib.rs")
    out.append(f"Definition rs_interrupt_vector_runtime : N := {cN(rnum(m.group(1)))}.")

    mem = strip_rust_comments((core / "memory.rs").read_text())
    consts = {}
    for t in re.finditer(r"pub const (\w+)\s*:\s*(?:u32|usize)\s*=\s*([^;]+);", mem):
        try:
            consts[t.group(1)] = rnum(t.group(2))
        except ValueError:
            pass
    need = ["INTERNAL_MEMORY_START", "ADDRESS_MASK", "INTERNAL_ADDR_MASK", "EXTERNAL_SPACE", "INTERNAL_SPACE", "INTERNAL_RAM_START", "INTERNAL_RAM_SIZE"]
    for k in need:
        if k not in consts:
            fail(f"memory.rs constant {k} not found")
        out.append(f"Definition rs_{k.lower()} : N := {cN(consts[k])}.")
    im = [(k[5:-7], v) for k, v in consts.items() if k.startswith("IMEM_") and k.endswith("_OFFSET")]
    if len(im) < 10:
        fail("memory.rs IMEM offsets not found")
    out.append("Definition rs_imem_offsets : list (string * N) := " + clist(f"({cstr(n)}, {cN(v)})" for n, v in im) + ".")

    st = strip_rust_comments((core / "llama/state.rs").read_text())
    m = re.search(r"pub fn mask_for\(name: RegName\)\s*->\s*u32\s*\{\s*match name\s*\{(.*?)\n    \}\s*\n\}", st, flags=re.S)
    if not m:
        fail("mask_for not found in state.rs")
    masks = []
    temp_mask = None
    for arm in re.finditer(r"((?:RegName::\w+(?:\(_\))?\s*\|?\s*)+)=>\s*([^,]+),", m.group(1)):
        val = rnum(arm.group(2))
        for r in re.findall(r"RegName::(\w+)(\(_\))?", arm.group(1)):
            if r[0] == "Temp":
                temp_mask = val
            elif r[0] == "Unknown":
                continue
            else:
                masks.append(f"({reg(r[0])}, {cN(val)})")
    if len(masks) < 12 or temp_mask is None:
        fail("mask_for arms not understood")
    out.append("Definition rs_reg_masks : list (regname * N) := " + clist(masks) + ".")
    out.append(f"Definition rs_temp_mask : N := {cN(temp_mask)}.")
    # snapshot register layout
    sn = strip_rust_comments((core / "snapshot.rs").read_text())
    m = re.search(r"pub const SNAPSHOT_REGISTER_LAYOUT\s*:[^=]*=\s*\[(.*?)\];", sn, flags=re.S)
    if not m:
        fail("SNAPSHOT_REGISTER_LAYOUT not found")
    lay = [f"({reg(t.group(1))}, {cN(rnum(t.group(2)))})" for t in re.finditer(r"\(\s*\"(\w+)\"\s*,\s*(\d+)\s*\)", m.group(1))]
    out.append("Definition rs_snapshot_layout : list (regname * N) := " + clist(lay) + ".")
    return out


def py_snapshot_layout() -> list[str]:
    """Register blob layout used by pce500/emulator.py save_snapshot."""
    from pce500 import emulator as PE

    lay = getattr(PE, "_SNAPSHOT_REGISTER_LAYOUT", None)
    if lay is None:
        fail("pce500.emulator._SNAPSHOT_REGISTER_LAYOUT not found")
    items = [f"({reg(str(n).upper())}, {cN(int(w))})" for n, w in lay]
    return ["Definition py_snapshot_layout : list (regname * N) := " + clist(items) + "."]


def main() -> int:
    digest = hashlib.sha256()
    for rel in ("sc62015/pysc62015/instr/opcode_table.py", "sc62015/pysc62015/instr/opcodes.py", "sc62015/pysc62015/constants.py",
                "sc62015/pysc62015/emulator.py", "sc62015/arch.py", "sc62015/view.py", "sc62015/core/src/llama/opcodes.rs",
                "sc62015/core/src/llama/eval.rs", "sc62015/core/src/memory.rs", "sc62015/core/src/llama/state.rs"):
        digest.update((REPO / rel).read_bytes())
    lines = [
        "(* GENERATED by translators/tr_tables.py from the working tree of the repository - do not edit. *)",
        "From Coq Require Import NArith List String.",
        "From BE Require Import Model.TableTypes.",
        "Import ListNotations.",
        "Open Scope N_scope.",
        "",
    ]
    lines += py_tables()
    lines += py_snapshot_layout()
    lines += rs_tables()
    write_if_changed(VERIF / "coq" / "Gen" / "Tables.v", "\n".join(lines) + "\n")
    # the digest of the files that were read goes beside the build, not into Tables.v: an edit that leaves every table
    # unchanged must not force the proofs over the tables to be rebuilt
    (VERIF / ".build").mkdir(exist_ok=True)
    (VERIF / ".build" / "tables_source_digest.txt").write_text(digest.hexdigest() + "\n")
    return 0


if __name__ == "__main__":
    try:
        sys.exit(main())
    except TranslatorError as e:
        print(f"TRANSLATOR-FAILED tr_tables: {e}")
        sys.exit(3)
