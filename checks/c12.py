"""C12 - interrupts are taken only when enabled and pending, and are undone by RETI."""
from __future__ import annotations

import corr

MAIN, HANDLER, STACK = 0xC1000, 0xC2000, 0xB9000
TIMER_BITS = 0x03


def gen(ctx, keys=False):
    rng = ctx.rng
    n = 6000 if ctx.tier == "thorough" else 900
    cases = []
    for _ in range(n):
        blocks = []
        for _ in range(rng.randint(2, 9)):
            r = rng.random()
            if r < 0.45:
                blocks.append("00")
            elif r < 0.60:
                blocks.append("ccfb%02x" % rng.choice([0x80, 0x81, 0x82, 0x83, 0x88, 0x8F, 0x0F, 0x01, 0x00, 0x84]))
            elif r < 0.68:
                blocks.append("ccfc00")                            # firmware only acknowledges (clears) status bits
            elif r < 0.78:
                blocks.append("de")
            elif r < 0.83:
                blocks.append("df")
            elif r < 0.90:
                blocks.append("0903ef")
            else:
                blocks.append("6c00")
        main = "".join(blocks)
        main += "13%02x" % (len(main) // 2 + 2)               # JR back to MAIN
        hbody = ["00"]
        ack = rng.random()
        if ack < 0.5:
            hbody.append("ccfc00")                               # acknowledge: clear ISR
        elif ack < 0.62:
            hbody.append("ccfc02")                               # acknowledge the main timer only: the sub-timer bit stays (or becomes) pending
        if rng.random() < 0.15:
            hbody.append("ccfb%02x" % rng.choice([0x80, 0x83, 0x8F]))   # handler re-enables interrupts itself
        if rng.random() < 0.3:
            hbody.append("6c00")
        hbody.append("01")
        handler = "".join(hbody)
        imr0 = rng.choice([0x00, 0x01, 0x02, 0x04, 0x08, 0x80, 0x81, 0x82, 0x83, 0x88, 0x8F, 0x0F, 0x8C])
        if rng.random() < 0.7:
            ten, mti, sti = 1, rng.choice([2, 3, 5, 9]), rng.choice([0, 4, 7])
        else:
            ten, mti, sti = 0, 0, 0
        nsteps = rng.randint(12, 40)
        evs = [f"{rng.randrange(nsteps)}:onk" for _ in range(rng.choice([0, 0, 1, 2]))]
        if keys and rng.random() < 0.3:
            # matrix key: strobe all columns first, then press (and perhaps release) a key
            main = "ccf0ffccf107" + main[:-4] + "13%02x" % (len(main) // 2 + 6)
            key = rng.choice(["KEY_W", "KEY_R", "KEY_Y", "KEY_I", "KEY_P", "KEY_A", "KEY_Q"])
            k1 = rng.randrange(nsteps)
            evs.append(f"{k1}:key{key}")
            if rng.random() < 0.5:
                evs.append(f"{rng.randrange(k1, nsteps)}:rel{key}")
        elif rng.random() < 0.35:
            # non-zero BP: the program first loads BP (internal memory ECh) and from then on reaches IMR/ISR through the
            # PRE 30h (n) form, so the default (BP+n) forms of the instructions under test no longer coincide with (n)
            pre = lambda b: "30" + b if b.startswith("cc") else b
            body = "".join(pre(b) for b in blocks)
            main = "ccec%02x" % rng.choice([0x20, 0x33, 0x51, 0x80]) + body
            main += "13%02x" % (len(main) // 2 + 2)
            handler = "".join(pre(b) for b in hbody)
        elif rng.random() < 0.3:
            # LCD traffic: display on, a page select (often 4-7), a column select and data writes spread over the main loop,
            # so that snapshot points fall between the select and the data that depends on it
            chip = rng.choice([0x2008, 0x2004, 0xA008, 0x2000])           # left, right, left (mirror window), both
            wr = lambda addr, v: "08%02x" % v + "a8" + addr.to_bytes(3, "little").hex()
            lcd = [wr(chip, 0x3F), wr(chip, 0xB8 | rng.choice([0, 3, 4, 5, 6, 7])), wr(chip, 0x40 | rng.choice([0, 5, 62, 63]))]
            lcd += [wr(chip | 2, rng.randrange(1, 256)) for _ in range(rng.randint(2, 5))]
            mixed = []
            rest = list(blocks)
            for b in lcd:
                mixed.append(b)
                if rest and rng.random() < 0.6:
                    mixed.append(rest.pop())
            main = "".join(mixed + rest)
            main += "13%02x" % (len(main) // 2 + 2)
            nsteps = max(nsteps, 2 * len(lcd) + 8)
        if rng.random() < 0.05:
            # both timers expire on the same cycle (equal long periods, so nothing else arms a request afterwards); the handler
            # acknowledges the main timer only, so the sub-timer request is left over when it returns
            p = rng.choice([20, 24, 30])
            main = "00" * rng.randint(3, 8)
            main += "13%02x" % (len(main) // 2 + 2)
            handler = "00" + "ccfc02" + "00" * rng.randint(0, 2) + "01"
            cases.append((rng.choice([0x83, 0x8B, 0x8F]), 1, p, p, main, handler, p + 18, "-"))
            continue
        if rng.random() < 0.08:
            # a request that arrives inside a handler while its source is masked, and is unmasked by the main program later:
            # one main-timer delivery (long period), the ON key pressed around it, the key source enabled only near the loop's end
            main = "ccfb81" + "00" * rng.randint(10, 14) + "ccfb89" + "000000"
            main += "13%02x" % (len(main) // 2 + 2)
            handler = "00" + "ccfc00" + "00" * rng.randint(3, 6) + "01"
            imr0, ten, mti, sti = 0x81, 1, rng.choice([20, 24, 30]), 0
            nsteps = mti + 24
            ev = f"{rng.randint(mti - 2, mti + 9)}:onk"
            cases.append((imr0, ten, mti, sti, main, handler, nsteps, ev))
            continue
        ev = ",".join(evs) or "-"
        cases.append((imr0, ten, mti, sti, main, handler, nsteps, ev))
    return cases


def fmt(c):
    return " ".join(str(x) for x in c)


def boundaries(code, base):
    """instruction start addresses of a code string placed at base"""
    out, i = set(), 0
    b = bytes.fromhex(code)
    L = {0x00: 1, 0x30: 4, 0x08: 2, 0xA8: 4, 0xCC: 3, 0xDE: 1, 0xDF: 1, 0x09: 2, 0xEF: 1, 0x6C: 2, 0x13: 2, 0x01: 1}
    while i < len(b):
        out.add(base + i)
        i += L[b[i]]
    out.add(base + len(b))
    return out


def handler_writes_imr(handler):
    return "ccfb" in handler


def oracle(ctx, core, case, ans):
    imr0, ten, mti, sti, main, handler, nsteps, ev = case
    obs = []
    for t in ans.split(";"):
        if t.startswith("ERR"):
            break
        f = t.split(",")
        obs.append(dict(pc=int(f[0]), s=int(f[1]), f=int(f[2]), imr=int(f[3]), isr=int(f[4]), inirq=int(f[5]), total=int(f[6]), halted=int(f[7]),
                        frame=[int(x) for x in f[8].split(".")]))
    if not obs:
        return
    bnd = boundaries(main, MAIN) | boundaries(handler, HANDLER)
    mainb = bytes.fromhex(main)
    fresh = 0                       # status bits that became pending and have not been offered to a delivery yet
    prev = dict(pc=MAIN, s=STACK, f=0, imr=imr0, isr=0, inirq=0, total=0, halted=0)
    open_frames = []
    hsteps = {HANDLER, HANDLER + 1}
    cx = {"case": "irq " + fmt(case), "core": core}
    masked_since = {}
    for k, o in enumerate(obs):
        delivered = o["total"] > prev["total"]
        fresh |= o["isr"] & ~prev["isr"] & 0x0F
        fresh &= o["isr"]
        if delivered and o["s"] == prev["s"] and o["inirq"] == 1 and o["pc"] in hsteps and (prev["pc"] - HANDLER) in range(0, 64):
            # the step executed the handler's RETI and took the next request at once: the new frame reuses the bytes of the old one
            ctx.count(core + ":return_and_redelivery_in_one_step")
            fresh = 0
            prev = o
            continue
        if delivered:
            ctx.nontrivial.add(fmt(case))
            fr = o["frame"]
            f_imr, f_f = fr[0], fr[1]
            f_pc = fr[2] | fr[3] << 8 | fr[4] << 16
            nested = prev["inirq"] == 1
            took_and_returned = o["inirq"] == 0 and o["s"] == prev["s"]        # handler of one instruction executed in the same step
            if not took_and_returned:
                if o["s"] != prev["s"] - 5:
                    ctx.report([core, "delivery_does_not_push_exactly_five_bytes"], f"step {k}: S {prev['s']:#x} -> {o['s']:#x}", cx)
                if f_pc not in bnd and not nested:
                    ctx.report([core, "pushed_pc_is_not_an_instruction_boundary_of_the_interrupted_program"], f"step {k}: pushed PC {f_pc:#x}", cx)
                # the Rust runtime executes the instruction at the old PC and delivers in the same step: when that instruction
                # sets flags (INC A), the pushed flags are the new ones, which the trace does not show separately
                hb = bytes.fromhex(handler)
                at = prev["pc"]
                opc = mainb[at - MAIN] if MAIN <= at < MAIN + len(mainb) else (hb[at - HANDLER] if HANDLER <= at < HANDLER + len(hb) else None)
                if (f_f & 3) != (prev["f"] & 3) and not (core == "rs" and opc == 0x6C):
                    ctx.report([core, "pushed_flags_differ_from_current_flags"], f"step {k}: pushed F {f_f} current {prev['f']}", cx)
                if not (f_imr & 0x80):
                    src = "key_or_onkey" if (o["isr"] & 0x0C) else "timer"
                    ctx.report([core, "interrupt_taken_with_master_enable_clear", src], f"step {k}: IMR at delivery {f_imr:#04x}, ISR {o['isr']:#04x}", cx)
                elif (f_imr & o["isr"] & 0x0F) == 0 and (f_imr & prev["isr"] & 0x0F) == 0:
                    ctx.report([core, "interrupt_taken_for_masked_or_idle_source"], f"step {k}: IMR {f_imr:#04x} ISR {o['isr']:#04x}", cx)
                if o["imr"] & 0x80 and not handler_writes_imr(handler):
                    ctx.report([core, "master_enable_not_cleared_on_entry"], f"step {k}: IMR after entry {o['imr']:#04x}", cx)
                if o["pc"] not in hsteps and not handler_writes_imr(handler):
                    ctx.report([core, "does_not_continue_at_the_interrupt_vector"], f"step {k}: PC {o['pc']:#x}", cx)
                open_frames.append(dict(pc=f_pc, f=f_f & 3, imr=f_imr, s=prev["s"], step=k))
                ctx.extra.setdefault("_frames", []).append((core, fmt(case), k, f_pc, prev["s"], f_f, f_imr, fr, o["s"], o["imr"] if not handler_writes_imr(handler) else None))
            fresh &= ~f_imr
        # return from interrupt: in_irq 1 -> 0
        if prev["inirq"] == 1 and o["inirq"] == 0 and open_frames and not delivered:
            fr = open_frames.pop()
            bad = []
            if o["s"] != fr["s"]:
                bad.append(f"S {o['s']:#x} != {fr['s']:#x}")
            if o["pc"] != fr["pc"]:
                bad.append(f"PC {o['pc']:#x} != {fr['pc']:#x}")
            if (o["f"] & 3) != fr["f"]:
                bad.append(f"F {o['f']} != {fr['f']}")
            if not handler_writes_imr(handler) and o["imr"] != fr["imr"]:
                bad.append(f"IMR {o['imr']:#04x} != {fr['imr']:#04x}")
            if bad and len(open_frames) == 0:
                ctx.report([core, "return_from_interrupt_does_not_restore_the_interrupted_state"], f"step {k}: " + "; ".join(bad), cx)
        # no re-entry while the handler has not re-enabled interrupts
        if delivered and prev["inirq"] == 1 and not handler_writes_imr(handler) and not (prev["imr"] & 0x80):
            ctx.report([core, "handler_reentered_with_master_enable_clear"], f"step {k}", cx)
        # halted: nothing executes while no status bit is pending
        if prev["halted"] and o["halted"] and prev["isr"] == 0 and o["isr"] == 0 and (o["pc"], o["s"], o["f"]) != (prev["pc"], prev["s"], prev["f"]):
            ctx.report([core, "halted_cpu_changed_state"], f"step {k}: {prev} -> {o}", cx)
        # HALT (not OFF) resumes as soon as a status bit is pending
        halt_instr = mainb[prev["pc"] - 1 - MAIN] if MAIN < prev["pc"] <= MAIN + len(mainb) else None
        if prev["halted"] and o["halted"] and prev["isr"] != 0 and o["pc"] == prev["pc"] and halt_instr == 0xDE and k >= 2:
            ctx.report([core, "halted_cpu_not_woken_by_pending_status"], f"step {k}: ISR {prev['isr']:#04x} while halted", cx)
        # a request that became pending while it could not be taken must be taken promptly once enabled
        ready = (o["imr"] & 0x80) and (o["imr"] & fresh) and not o["inirq"] and not o["halted"]
        if ready and not delivered:
            masked_since.setdefault("ready", k)
            if k - masked_since["ready"] >= 4:
                srcs = "+".join(nm for b, nm in ((1, "MTI"), (2, "STI"), (4, "KEY"), (8, "ONK")) if o["imr"] & fresh & b)
                ctx.report([core, "enabled_pending_request_not_taken", srcs], f"steps {masked_since['ready']}..{k}: IMR {o['imr']:#04x} ISR {o['isr']:#04x} (fresh bits {fresh:#04x}) and no interrupt", cx)
                masked_since.pop("ready")
        else:
            masked_since.pop("ready", None)
        # the Rust runtime arms a pending request from the live status register at the start of every step: there ANY status bit
        # that is pending and enabled (not only one that became pending since the last delivery) must be taken promptly
        if core == "rs":
            lvl = (o["imr"] & 0x80) and (o["imr"] & o["isr"] & 0x0F) and not o["inirq"] and not o["halted"]
            if lvl and not delivered:
                masked_since.setdefault("level", k)
                if k - masked_since["level"] >= 4:
                    srcs = "+".join(nm for b, nm in ((1, "MTI"), (2, "STI"), (4, "KEY"), (8, "ONK")) if o["imr"] & o["isr"] & b)
                    ctx.report([core, "enabled_pending_status_bit_not_taken", srcs], f"steps {masked_since['level']}..{k}: IMR {o['imr']:#04x} ISR {o['isr']:#04x}, not in a handler, and no interrupt", cx)
                    masked_since.pop("level")
            else:
                masked_since.pop("level", None)
        prev = o


def run(ctx):
    ctx.rule = ("machine-level scenarios on PCE500Emulator.step and CoreRuntime::step: generated main programs over NOP / writes to IMR and ISR / HALT / OFF / WAIT / INC with a JR loop, handlers that acknowledge or not, "
                "re-enable interrupts or not, and return with RETI; initial IMR over 13 mask values; both timers at periods 2-9 (or off) so expiries fall on every instruction boundary of the loop; ON-key presses at random steps; "
                "per step: PC, S, C/Z, IMR, ISR, in-interrupt flag, delivery counter, low-power flag and the five bytes below the previous S; the property is evaluated on the trace of each core: gate (master enable, mask, status), "
                "exact 5-byte frame, master enable cleared, vector, no re-entry, RETI restores PC/F/IMR/S, halted executes nothing and wakes on status, enabled pending request taken within 4 steps, time spent powered off does not change what follows (pairs of runs); non-trivial = at least one delivery; distinct by scenario")
    ctx.trusted += ["correspondence harness: harness/py/irq_cmd.py (PCE500Emulator with a ROM image, public step/press_key, timer fields), verif-harness irq_cmd.rs (CoreRuntime, press_on_key), trace oracle in checks/c12.py",
                    "modelled in Coq: the delivery frame and its inverse RETI over the IL model (Model/Irq.v); NOT modelled: the two controllers' bookkeeping (pending/latched/armed flags) - decided by the trace oracle on both implementations"]
    ctx.assumptions += ["handlers start with a NOP so that a step which delivers and executes the first handler instruction is recognisable on both cores", "BP = 0 so that (BP+0xFB)/(BP+0xFC) address IMR/ISR"]
    ctx.prove(["C12_python_gate_refuted (Props/C12_refuted.v)"])
    _, okr = corr.build_all(ctx, need_model=False)
    cases = gen(ctx, keys=True)
    lines = [fmt(c) for c in cases]
    streams = {"py": ("py", "irq")}
    if okr:
        streams["rs"] = ("rs", "irq")
    outs = corr.run_streams(ctx, lines, streams)
    for core in streams:
        for c, a in zip(cases, outs[core]):
            ctx.evaluations += 1
            ctx.traces += 1
            if a.startswith("ERR") or not a:
                ctx.report([core, "scenario_error"], a[:100], {"case": "irq " + fmt(c)})
                continue
            oracle(ctx, core, c, a)
    # a powered-off CPU stops both timers: how long the machine stays off must not matter.  The same scenario (timers running,
    # OFF in the main loop, the ON key pressed to wake it up) is run with two different numbers of host steps spent off; from
    # the wake-up step on, the two traces must be identical
    offc = []
    for _ in range(200 if ctx.tier == "thorough" else 30):
        a = ctx.rng.randint(1, 4)          # OFF executes at step a, before the first timer expiry (periods >= 11)
        main = "00" * a + "df" + "00" * 12
        main += "13%02x" % (len(main) // 2 + 2)
        handler = "00" + "ccfc00" + "01"
        imr0 = ctx.rng.choice([0x89, 0x8B, 0x81, 0x09])
        mti, sti = ctx.rng.choice([13, 20, 30]), ctx.rng.choice([0, 11, 17])
        k1 = ctx.rng.randint(1, 4)
        k2 = k1 + ctx.rng.randint(3, 25)
        offc.append((a, [(imr0, 1, mti, sti, main, handler, a + 1 + k + 24, f"{a + 1 + k}:onk") for k in (k1, k2)], (k1, k2)))
    ol = [fmt(c) for _, pair, _ in offc for c in pair]
    oo = corr.run_streams(ctx, ol, streams)
    for core in streams:
        res = oo[core]
        for j, (a, pair, (k1, k2)) in enumerate(offc):
            ctx.evaluations += 1
            r1, r2 = res[2 * j].split(";"), res[2 * j + 1].split(";")
            if res[2 * j].startswith("ERR") or res[2 * j + 1].startswith("ERR"):
                ctx.report([core, "scenario_error"], res[2 * j][:100], {"case": "irq " + fmt(pair[0])})
                continue
            t1, t2 = r1[a + 1 + k1:a + 1 + k1 + 22], r2[a + 1 + k2:a + 1 + k2 + 22]
            # delivery counters are cumulative and equal at the wake-up step in both runs; everything else is compared as is
            if t1 != t2:
                d = next(i for i in range(min(len(t1), len(t2))) if t1[i] != t2[i]) if len(t1) == len(t2) else -1
                ctx.report([core, "time_spent_powered_off_changes_what_follows"], f"OFF for {k1} vs {k2} host steps: the traces differ {d} steps after the wake-up ({t1[d] if d >= 0 else len(t1)} vs {t2[d] if d >= 0 else len(t2)})",
                           {"case": "irq " + fmt(pair[0]), "other": "irq " + fmt(pair[1]), "core": core})
            else:
                ctx.nontrivial.add("off:" + fmt(pair[0]))
    ctx.count("powered_off_pairs", len(offc))
    # the model's frame (Model/Irq.v irq_deliver, extracted) against every frame either implementation pushed
    frames = ctx.extra.pop("_frames", [])
    okm, _ = corr.build_all(ctx, need_rust=False)
    if okm and frames:
        fl = [f"{pc} {s0} {ff} {imr} {HANDLER} 0" for (_, _, _, pc, s0, ff, imr, _, _, _) in frames]
        mo = corr.run_streams(ctx, fl, {"model": ("model", "irq_frame")})["model"]
        dis = 0
        for (core, cs, k, pc, s0, ff, imr, fr, s_after, imr_after), m in zip(frames, mo):
            ctx.evaluations += 1
            d = dict(t.split("=") for t in m.split())
            mf = [int(x) for x in d["frame"].split(".")]
            if mf != fr or int(d["s"]) != s_after or (imr_after is not None and int(d["imr"]) != imr_after):
                dis += 1
                if dis <= 5:
                    ctx.broke("correspondence:irq-frame", f"{core} step {k} of `irq {cs}`: pushed {fr} S={s_after} IMR={imr_after}; model {m}")
        ctx.extra.setdefault("disagreements", {})["irq_frame"] = dis
        ctx.count("frames_compared", len(frames))
    ctx.samples = [{"case": lines[0], "python": outs["py"][0][:300]}]
