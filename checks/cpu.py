"""Shared machinery of the CPU-semantics properties (C03-C07): case generation (checks/execgen.py), the four
executors (Coq model of the Python lifter+evaluator, documented-semantics spec, Python emulator, Rust core),
answer parsing, the valid-domain filter and the defect-family classifier used for known findings."""
from __future__ import annotations

import corr
from checks import execgen

PRE = set(execgen.PRE)
IMEM = 0x100000
COUNTED = {"MVL", "MVLD", "ADCL", "SBCL", "DADL", "DSBL", "DSLL", "DSRL", "EXL", "WAIT"}
STACK = {"PUSHS", "POPS", "PUSHU", "POPU", "CALL", "CALLF", "RET", "RETF", "RETI", "IR"}


def parse(line):
    """-> dict with regs (ints), 'w' {addr: val}, optional 'r','wl' lists, 'k', 'len'; None for ERR/other"""
    if not line.startswith("OK "):
        return None
    parts = line.split(" | ")
    d = {}
    for t in parts[0].split()[1:]:
        k, v = t.split("=")
        d[k] = int(v)
    w = {}
    for t in parts[1][2:].split(","):
        if t:
            a, v = t.split("=")
            w[int(a)] = int(v)
    d["w"] = w
    for q in parts[2:]:
        k, v = q.split(":", 1)
        if k in ("r", "wl"):
            d[k] = [int(t) for t in v.split(",") if t]
        else:
            d[k] = v
    return d


def case_key(case):
    """opcode key: 'P' + opcode when prefixed"""
    hx = case[0]
    b0 = int(hx[:2], 16)
    return ("P" + hx[2:4]) if b0 in PRE else hx[:2]


def mnemonic(m):
    k = m.get("k", "")
    return k.split(":")[2] if k.startswith("F:") else None


def domain(case, m):
    """None when the case is inside the property's domain, else the reason it is skipped.
    m = parsed model answer (with access logs)."""
    if m is None:
        return "not-executable"          # lone PRE / unknown opcode: not an accepted instruction
    if not m.get("k", "").startswith("F:"):
        return "not-a-valid-encoding"
    addrs = list(m["w"]) + m.get("r", []) + m.get("wl", [])
    if any(a < 0 or a >= IMEM + 0x100 for a in addrs):
        return "address-outside-address-space"
    mn = mnemonic(m)
    regs = case[2]
    if mn in COUNTED and regs.get("I", 0) == 0:
        return "counted-with-I=0"
    if mn in STACK:
        for r in ("S", "U"):
            v = regs.get(r, 0)
            if v < 8 or v > 0xFFFF0:
                return "stack-pointer-at-edge"
    return None


REGS = ("pc", "ba", "i", "x", "y", "u", "s")


def diff_fields(a, b, flags_only_cz=True):
    """fields in which two parsed answers differ (f compared on C/Z only; f_hi separately)"""
    out = [k for k in REGS if a[k] != b[k]]
    if (a["f"] & 3) != (b["f"] & 3):
        out.append("f")
    if (a["f"] >> 2) != (b["f"] >> 2):
        out.append("f_hi")
    if a["halted"] != b["halted"]:
        out.append("halted")
    if a["w"] != b["w"]:
        out.append("w")
    return out


def wire(cases):
    return [execgen.fmt(c) for c in cases]


def run(ctx, lines, streams):
    return corr.run_streams(ctx, lines, streams)


def canon_err(x):
    return "ERR" if x.startswith("ERR") else x
