"""C02 - encoding is the exact inverse of decoding on every accepted instruction."""
from __future__ import annotations

import common
import corr
from checks import decgen


def dontcare_cases(rng):
    """All don't-care bit patterns of the encodings that carry ignored bits."""
    cases = []
    # 20-bit immediates / absolute addresses: high nibble of the third byte is ignored
    for opc in [0x03, 0x05, 0x0C, 0x0D, 0x0E, 0x0F, 0xDC, 0x88, 0x8C, 0xA8, 0xAF, 0x62, 0xD0, 0xD8, 0xDB]:
        for hi in range(0, 256, 1 if opc in (0x03, 0x0C, 0x88) else 17):
            body = [opc] + ([0x10] if opc in (0xDC,) else []) + [0x34, 0x12, hi] + [0x55, 0x66]
            if opc in (0xD8, 0xDB):
                body = [opc, 0x34, 0x12, hi, 0x20, 0x66]
            cases.append((bytes(body).hex(), "-", rng.randrange(1 << 20)))
    # register selector bytes: bit 3 / bit 7 and the mode nibble (all 256 values)
    for opc in [0x11, 0x6C, 0x7C, 0xD6, 0xD7, 0x90, 0x94, 0xB0, 0xB6, 0xE3, 0xEB, 0x56, 0x5E, 0xE0, 0xE1, 0xE2, 0xE8, 0xE9, 0xEA,
                0x44, 0x45, 0x46, 0x4C, 0x4D, 0x4E, 0xED, 0xFD, 0x98, 0x9C, 0xB8, 0xBE, 0xF0, 0xF1, 0xF2, 0xF3, 0xF8, 0xF9, 0xFA, 0xFB]:
        for b in range(256):
            for pre in ([], [0x32], [0x25]):
                cases.append((bytes(pre + [opc, b, 0x11, 0x22, 0x33, 0x44]).hex(), "-", rng.randrange(1 << 20)))
    return cases


def run(ctx):
    ctx.rule = ("the C01 structural enumeration plus every don't-care bit pattern (high nibble of 20-bit immediates, all 256 selector/mode bytes of the register-carrying opcodes, with and without prefix); "
                "for each accepted string: encode(decode(b)) vs the consumed bytes, second decode with a different tail, text/length/IL equality, text-guard acceptance; "
                "non-trivial = accepted by the decoder; distinct by byte string")
    ctx.trusted += ["translator tr_tables.py", "correspondence harness: harness/py/dec_cmd.py (dec and rt commands), extracted model_driver",
                    "modelled not verified: <Operand>.encode / Instruction.encode and the decode side as in C01; IL equality is compared as the MockLLIL repr"]
    ok, out = common.run_translator("tr_tables", ["Tables.v"])
    if not ok:
        ctx.broke("translator:tr_tables", out.strip()[-300:])
    ctx.prove()
    okm, _ = corr.build_all(ctx, need_rust=False)
    rng = ctx.rng
    cases = dontcare_cases(rng)
    base = decgen.structural_cases(rng, ctx.tier)
    cases += base if ctx.tier == "thorough" else rng.sample(base, 40000)
    lines = [decgen.fmt(c) for c in cases]
    streams = {"py": ("py", "dec")}
    if okm:
        streams["model"] = ("model", "dec")
    outs = corr.run_streams(ctx, lines, streams)
    outs["py"] = [decgen.strip_history(l) for l in outs["py"]]
    corr.compare(ctx, "decode+encode", lines, outs, [("py", "model")])
    # round trip on the implementation
    rtl = [f"{c[0]} {rng.choice(['-', '00', 'ff', '560400', '32', '%04x' % rng.randrange(65536)])} {c[2]}" for c in cases]
    rts, err = corr.run_exec("py", "rt", rtl)
    if len(rts) != len(rtl):
        ctx.broke("correspondence:rt", f"{len(rts)} answers for {len(rtl)}")
        rts = (rts + ["MISSING"] * len(rtl))[: len(rtl)]
    for c, dl, rl, ans in zip(cases, outs["py"], rtl, rts):
        ctx.evaluations += 1
        ctx.traces += 1
        d = decgen.parse(dl).get("D", ["?"])
        ctx.count("D=" + d[0])
        if d[0] == "OK":
            ctx.nontrivial.add(c[0])
            n = int(d[1])
            enc = d[6] if len(d) > 6 else "?"
            if enc != c[0][: 2 * n]:
                ctx.report(["encode_differs", int(d[3])], f"encode(decode({c[0]})) = {enc}, consumed bytes are {c[0][:2 * n]}", {"case": decgen.fmt(c), "answer": dl})
        w = ans.split()
        if not w or not w[0].startswith("RT="):
            ctx.report(["rt_error"], f"round-trip harness failed: {ans[:80]}", {"case": rl})
            continue
        if w[0] in ("RT=NONE",):
            continue
        if w[0] != "RT=OK":
            ctx.report(["rt_raises", w[0]], f"{w[0]} on {c[0]}", {"case": rl, "answer": ans})
            continue
        f = dict(x.split("=") for x in w[3:] if "=" in x)
        opc = int(d[3]) if d[0] == "OK" else -1
        if f.get("bytes") != "1":
            ctx.report(["encode_differs", opc], f"re-encoding {c[0]} gives {w[2]}", {"case": rl, "answer": ans})
        if f.get("lone_pre") == "1":
            continue
        if f.get("second") != "OK":
            ctx.report(["second_decode_fails", opc], f"decoding the re-encoded bytes {w[2]} fails ({f.get('second')})", {"case": rl, "answer": ans})
            continue
        if f.get("len2") != w[1] or f.get("text") != "1" or f.get("il") != "1":
            ctx.report(["second_decode_differs", opc], f"second decode of {w[2]} differs: len2={f.get('len2')} text_equal={f.get('text')} il_equal={f.get('il')}", {"case": rl, "answer": ans})
        if f.get("guard") != "A":
            ctx.report(["text_guard_demotes", opc], f"get_instruction_text demotes the valid instruction {c[0]} to data", {"case": rl, "answer": ans})
    ctx.samples = [{"case": lines[k], "python": outs["py"][k], "roundtrip": rts[k]} for k in (0, 5000, len(lines) - 1)]
