"""C18 - the virtual-time task scheduler wakes tasks exactly on time and in order."""
from __future__ import annotations

import itertools

import common
import corr


def compositions(total, maxparts=5):
    """all ordered partitions of `total` into positive parts (plus zero budgets sprinkled by the caller)"""
    if total == 0:
        yield []
        return
    for first in range(1, total + 1):
        for rest in compositions(total - first):
            if len(rest) < maxparts:
                yield [first] + rest


def gen(ctx):
    rng = ctx.rng
    thorough = ctx.tier == "thorough"
    dur = [0, 1, 2, 5]
    cases = []   # (clock0, budgets, scripts)
    acts = ["s0", "s1", "s2", "s5", "e"]

    def script(maxlen):
        n = rng.randint(0, maxlen)
        out = []
        for _ in range(n):
            a = rng.choice(acts)
            out.append(a if a != "e" else f"e{rng.randint(1, 99)}")
        return out

    tasksets = []
    # small task sets enumerated: 1..3 tasks, scripts of length <= 3 over {sleep 0,1,2,5, emit}
    base_scripts = [[]] + [[a] for a in ["s0", "s1", "s2", "s5", "e7"]] + [[a, b] for a in ["s0", "s1", "s2", "e7"] for b in ["s0", "s1", "s5", "e8"]] \
        + [["s1", "e3", "s1"], ["s0", "s0", "e4"], ["e1", "e2", "s2"], ["s2", "e5", "s0"], ["s5", "e6", "e7"]]
    for _ in range(4000 if thorough else 250):
        k = rng.randint(1, 4)
        tasksets.append([rng.choice(base_scripts) if rng.random() < 0.7 else script(6) for _ in range(k)])
    parts = list(compositions(12)) if thorough else None
    for ts in tasksets:
        clock0 = rng.choice([0, 0, 7, 1000])
        if thorough:
            chosen = rng.sample(parts, 6)
        else:
            chosen = [[rng.randint(1, 6) for _ in range(rng.randint(1, 6))] for _ in range(3)]
        chosen.append([40])                      # one big budget: the canonical run
        for bs in chosen:
            bs = list(bs)
            if rng.random() < 0.3:
                bs.insert(rng.randrange(len(bs) + 1), 0)
            if rng.random() < 0.15:
                # "run until something happens": the largest budget, also issued when the clock is already past zero
                bs += [18446744073709551615] * 6
            else:
                bs += [40] * 6                   # drain remaining events
            cases.append((clock0, bs, ts))
    return cases


def fmt(c):
    clock0, bs, ts = c
    return f"{clock0} {','.join(str(b) for b in bs)} " + " ".join(",".join(s) if s else "-" for s in ts)


def expected_wakes(clock0, script):
    """cycles at which a task must be resumed: spawn cycle, then spawn + prefix sums of its sleeps"""
    out = [clock0]
    c = clock0
    for a in script:
        if a.startswith("s"):
            c += int(a[1:])
            out.append(c)
    return out


def oracle(ctx, case, ans, canon_log):
    clock0, bs, ts = case
    try:
        res, clk, log = [x.strip() for x in ans.split("|")]
    except ValueError:
        ctx.report(["rs", "answer-shape"], f"unparsable answer {ans[:80]}", {"case": fmt(case)})
        return None
    entries = [tuple(int(v) for v in e.split(":")) for e in log.split(",") if e]
    # never earlier / never later: the k-th resumption of task t happens at its k-th requested cycle
    per = {}
    for c, t in entries:
        per.setdefault(t, []).append(c)
    for t, cs in per.items():
        exp = expected_wakes(clock0, ts[t])
        if cs != exp[:len(cs)]:
            ctx.report(["rs", "wake_not_exact"], f"task {t} (script {ts[t]}) resumed at cycles {cs}, requested {exp}", {"case": fmt(case), "answer": ans})
            return entries
    # virtual time never moves backwards
    cyc = [c for c, _ in entries]
    if any(b < a for a, b in zip(cyc, cyc[1:])):
        ctx.report(["rs", "clock_backwards"], f"resumption cycles not monotone: {cyc}", {"case": fmt(case), "answer": ans})
    # budget independence: the log and the canonical (single big budget) log are prefix-comparable - the longer run extends the shorter
    nc = min(len(entries), len(canon_log)) if canon_log is not None else 0
    if canon_log is not None and entries[:nc] != canon_log[:nc]:
        ctx.report(["rs", "order_depends_on_budgets"], f"resumption log {entries[:12]} is not a prefix of the single-budget log {canon_log[:12]}", {"case": fmt(case), "answer": ans})
    # events: exactly once, in emission order (first emit of each resumption)
    returned = [int(r.split(":")[0][1:]) for r in res.split(";") if r.startswith("U")]
    if canon_log is not None:
        # emission order along the canonical log
        ptr = {t: 0 for t in range(len(ts))}
        emitted = []
        for c, t in canon_log:
            s = ts[t]
            i = ptr[t]
            first = None
            while i < len(s) and not s[i].startswith("s"):
                if first is None:
                    first = int(s[i][1:])
                i += 1
            ptr[t] = i + 1
            if first is not None:
                emitted.append(first)
        # only the part of the run that was reached
        reach = 0
        ptr = {t: 0 for t in range(len(ts))}
        exp = []
        for c, t in entries:
            s = ts[t]
            i = ptr[t]
            first = None
            while i < len(s) and not s[i].startswith("s"):
                if first is None:
                    first = int(s[i][1:])
                i += 1
            ptr[t] = i + 1
            if first is not None:
                exp.append(first)
        if returned != exp[:len(returned)] or (len(entries) == len(canon_log) and returned != exp):
            ctx.report(["rs", "events_lost_duplicated_or_reordered"], f"events returned {returned}, emitted in order {exp}", {"case": fmt(case), "answer": ans})
    return entries


def gen_cpu(ctx):
    rng = ctx.rng
    progs = []
    blocks = ["00", "0805", "4003", "0912", "0a3412", "6c04", "7c05", "4201", "cc3055", "8030", "a031", "2805", "3805", "97", "9f", "e4", "f4",
              "0902ef", "1202", "1301", "18020000", "0b0200ef"]
    for _ in range(600 if ctx.tier == "thorough" else 80):
        p = "".join(rng.choice(blocks) for _ in range(rng.randint(2, 12))) + "00" * 8 + "1310"
        n = rng.randint(1, 25)
        slice_ = rng.choice([1, 2, 3, 7, 10000])
        te = rng.random() < 0.6
        progs.append(f"{p} {n} {slice_} {int(te)} {rng.choice([1, 2, 3, 5, 50])} {rng.choice([0, 2, 7, 100])}")
    return progs


def run(ctx):
    ctx.rule = ("task sets of 1..4 scripted tasks (scripts over sleep {0,1,2,5} and emit, incl. several emits per resumption and empty scripts) x budget partitions "
                "(all compositions of 12 sampled in thorough; random partitions, zero budgets, one single-budget canonical run) on the real AsyncDriver; "
                "pairs of those cases run as two AsyncDrivers alive on one thread (three construction orders, budgets issued alternately) against each driver's answer alone; "
                "plus generated programs x slice sizes {1,2,3,7,10000} x timer settings for AsyncRuntimeRunner vs CoreRuntime::step; non-trivial = at least two tasks share a wake cycle or an event is emitted; distinct by text")
    ctx.trusted += ["correspondence harness: verif-harness sched_cmd.rs (scripted futures on AsyncDriver::spawn/run_for with sleep_cycles/emit_event/current_cycle; AsyncRuntimeRunner vs CoreRuntime::step), extracted model_driver",
                    "modelled not verified: async_driver.rs (run_for, CycleSleep, the thread-local channel); async_cpu.rs/async_runtime.rs are exercised against CoreRuntime::step, not modelled (the CPU step is the Rust core itself); async_devices.rs and bin/pce500.rs (CLI, not buildable offline) are outside"]
    ctx.assumptions += ["cycle values far below 2^64 (saturating_add not modelled)", "tasks are finite scripts"]
    ctx.prove()
    okm, okr = corr.build_all(ctx)
    if not okr:
        return
    cases = gen(ctx)
    lines = [fmt(c) for c in cases]
    streams = {"rs": ("rs", "sched")}
    if okm:
        streams["model"] = ("model", "sched")
    # budgets near 2^64 ("run until something happens") are outside the model's domain (unbounded integers, no saturation):
    # those cases run on the implementation only and are judged by the witness oracle
    huge = [i for i, c in enumerate(cases) if max(c[1]) >= 2 ** 62]
    small = [i for i in range(len(cases)) if i not in set(huge)]
    so = corr.run_streams(ctx, [lines[i] for i in small], streams)
    corr.compare(ctx, "sched", [lines[i] for i in small], so, [("rs", "model")])
    ho = corr.run_streams(ctx, [lines[i] for i in huge], {"rs": ("rs", "sched")}) if huge else {"rs": []}
    outs = {"rs": [None] * len(cases)}
    for i, a in zip(small, so["rs"]):
        outs["rs"][i] = a
    for i, a in zip(huge, ho["rs"]):
        outs["rs"][i] = a
    ctx.count("huge_budget_cases", len(huge))
    # canonical logs: per (clock0, task set) the case with the single big budget
    canon = {}
    for c, a in zip(cases, outs["rs"]):
        if c[1][0] == 40 and "|" in a:
            log = a.split("|")[2].strip()
            canon[(c[0], tuple(tuple(s) for s in c[2]))] = [tuple(int(v) for v in e.split(":")) for e in log.split(",") if e]
    for c, a in zip(cases, outs["rs"]):
        ctx.evaluations += 1
        ctx.traces += 1
        key = (c[0], tuple(tuple(s) for s in c[2]))
        entries = oracle(ctx, c, a, canon.get(key))
        if entries:
            cyc = [x for x, _ in entries]
            if len(set(cyc)) < len(cyc) and len(c[2]) > 1 or "U" in a:
                ctx.nontrivial.add(fmt(c))
        ctx.count(f"tasks={len(c[2])}")
    # two drivers alive on the same thread share the thread-local cycle / wake / event channel: each must behave exactly as it
    # does alone (its answer to `sched`), whatever the other one does in between and in whichever order they were constructed
    rng = ctx.rng
    pool = [i for i in small if "|" in (outs["rs"][i] or "")]
    pairs = []
    for _ in range(1500 if ctx.tier == "thorough" else 200):
        ia, ib = rng.choice(pool), rng.choice(pool)
        pairs.append((rng.randint(0, 2), ia, ib))
    plines = [f"{o} {lines[ia]} / {lines[ib]}" for o, ia, ib in pairs]
    pans, _ = corr.run_exec("rs", "sched2", plines)
    for (o, ia, ib), l, a in zip(pairs, plines, pans):
        ctx.evaluations += 1
        ctx.traces += 1
        ctx.count("two_drivers_one_thread")
        halves = [x.strip() for x in a.split("||")]
        want = [outs["rs"][ia].strip(), outs["rs"][ib].strip()]
        if len(halves) != 2:
            ctx.report(["rs", "two_drivers_error"], f"sched2 failed: {a[:120]}", {"case": "sched2 " + l})
            continue
        for name, got, exp, idx in (("A", halves[0], want[0], ia), ("B", halves[1], want[1], ib)):
            if got != exp:
                # say what is wrong in the property's terms by running the witness oracle on the driver's own answer
                ctx.report(["rs", "driver_disturbed_by_another_driver_on_the_thread"],
                           f"driver {name} (construction order {o}) answers '{got[:90]}' next to another driver but '{exp[:90]}' alone "
                           f"(wake cycles requested: {[expected_wakes(cases[idx][0], t) for t in cases[idx][2]]})",
                           {"case": "sched2 " + l, "answer": a, "alone": exp})
                break
        else:
            if cases[ia][0] != cases[ib][0] or len(cases[ia][2]) + len(cases[ib][2]) > 2:
                ctx.nontrivial.add("sched2 " + l)
    # CPU through the scheduler vs synchronous loop
    cpu = gen_cpu(ctx)
    ans, err = corr.run_exec("rs", "asynccpu", cpu)
    for l, a in zip(cpu, ans):
        ctx.evaluations += 1
        ctx.traces += 1
        ctx.count("asynccpu")
        parts = [x.strip() for x in a.split("|")]
        if len(parts) != 4:
            ctx.report(["rs", "asynccpu_error"], f"asynccpu failed: {a[:100]}", {"case": l})
            continue
        sync, split, asy = parts[1][5:], parts[2][6:], parts[3][6:]
        if "sync_ok=1 split_ok=1 async_ok=1" not in parts[0]:
            ctx.count("asynccpu-error-result")
            continue
        if asy != sync:
            ctx.report(["rs", "async_cpu_differs_from_sync"], f"AsyncRuntimeRunner (slice {l.split()[2]}) and CoreRuntime::step({l.split()[1]}) end in different states", {"case": l, "sync": sync, "async": asy})
        elif split != sync:
            ctx.report(["rs", "step_n_differs_from_n_steps"], "CoreRuntime::step(n) and n x step(1) end in different states", {"case": l, "sync": sync, "split": split})
        else:
            ctx.nontrivial.add(l)
    ctx.samples = [{"case": lines[0], "rust": outs["rs"][0], "model": outs.get("model", [""])[0]}, {"asynccpu": cpu[0], "answer": ans[0][:200]}]
