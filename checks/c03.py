"""C03 - disassembly operands name exactly the locations the lifted IL touches."""
from __future__ import annotations

import corr
from checks import cpu, execgen

import re

RUNS = {"ADCL", "SBCL", "DADL", "DSBL", "DSLL", "DSRL"}
IMOP = re.compile(r"\((N|BP_N|PX_N|PY_N|BP_PX|BP_PY)(?::(\d+))?\)")


def imem_addr(tok, case):
    """address of an internal-memory operand as the text states it: (mode, n) under the case's BP/PX/PY (README addressing rules)"""
    mode, n = tok
    n = int(n or 0)
    bp, px, py = (execgen_mem(case, cpu.IMEM + o) for o in (0xEC, 0xED, 0xEE))
    off = {"N": n, "BP_N": bp + n, "PX_N": px + n, "PY_N": py + n, "BP_PX": bp + px, "BP_PY": bp + py}[mode]
    return cpu.IMEM + (off & 0xFF)


def execgen_mem(case, a):
    hx, addr, _regs, mem, fill = case
    if a in mem:
        return mem[a]
    if addr <= a < addr + len(hx) // 2:
        return int(hx[2 * (a - addr):2 * (a - addr) + 2], 16)
    return (a * 167 + fill * 13) % 256 if fill else 0


def family(case, mn, py_r, py_w, den_r, den_w):
    key = cpu.case_key(case)
    touched = set(py_r) | set(py_w)
    if mn == "EXL" and case[2].get("I", 0) >= 2:
        return "EXL_touches_one_cell_pair_instead_of_I"
    if mn in RUNS and any(a < cpu.IMEM for a in touched):
        return "counted_internal_memory_run_leaves_internal_memory"
    if any(cpu.IMEM + 0xEC <= a <= cpu.IMEM + 0xEE for a in set(py_w) | set(den_w)):
        return "instruction_overwrites_BP_PX_PY_it_addresses_with"
    if mn in ("EX", "EXW", "EXP") and key.startswith("P"):
        return "exchange_ignores_PRE_addressing"
    if mn in ("MVL", "MVLD") and key.startswith("P"):
        return "block_move_takes_PRE_mode_from_the_wrong_slot"
    if mn == "JP" and key == "P10":
        return "JP_imem_ignores_PRE_addressing"
    return "unclassified"


def run(ctx):
    ctx.rule = ("(1) render tie: every prefix x opcode x mode-byte structure, the operands Instruction.render() shows (parsed from the token text: "
                "mode (n)/(BP+n)/(PX+n)/(PY+n)/(BP+PX)/(BP+PY), [r3], [r3++], [--r3], [r3+-n], [(m)+-n], [lmn], registers, immediates) vs Model/Static.v render_ops; "
                "(2) access tie: data reads/writes observed through the Memory callbacks while Emulator.execute_instruction runs vs the model evaluator's access log; "
                "(3) property: the set of bytes read as data and the set written equal the documented denotation of the rendered operands (Model/Static.v den_access, extracted) "
                "for random BP/PX/PY (mostly non-zero), pointer registers, I in 1..40 and 256/257, pointer cells in memory; non-trivial = the instruction touches memory; distinct by bytes+state")
    ctx.trusted += ["correspondence harness: harness/py/static_cmd.py (token text -> canonical operand, trusted parser), exec_cmd.py (access recorder around Memory callbacks; fetch reads excluded by phase), extracted model_driver (render, exec_py, den)",
                    "modelled not verified: Instruction.render/_addressing_modes and the operand render methods (Model/Static.v render_ops), lifts (Model/Lift.v), evaluator (Model/IL.v); the denotation den_access is a transcription of the README addressing rules"]
    ctx.assumptions += ["memory cells hold bytes", "domain: accepted encodings, touched addresses inside 0..0x1000FF, I>=1 for counted instructions, stack pointers away from the edges of the address space",
                        "reads are compared as sets (the IL may read a cell several times)"]
    ctx.prove()
    okm, _ = corr.build_all(ctx, need_rust=False)
    if not okm:
        return
    rng = ctx.rng
    ibytes = execgen.instr_bytes(rng, ctx.tier == "thorough")
    rl = [f"{b.hex()} {rng.choice([0, 0x1000, 0xFFFF0, rng.randrange(1 << 20)])}" for b in ibytes]
    outs = corr.run_streams(ctx, rl, {"py": ("py", "render"), "model": ("model", "render")})
    dis = 0
    for l, a, b in zip(rl, outs["py"], outs["model"]):
        if a != b and not (a.startswith("RERR") and b.startswith("RERR")):
            dis += 1
            if dis <= 5:
                ctx.broke("correspondence:render", f"`render {l}` python={a[:200]} model={b[:200]}")
    ctx.extra.setdefault("disagreements", {})["render"] = dis
    ctx.count("render_cases", len(rl))

    cases = execgen.exec_cases(rng, ctx.tier, temps=True)
    lines = cpu.wire(cases)
    outs = corr.run_streams(ctx, lines, {"py": ("py", "exec_py"), "model": ("model", "exec_py"), "den": ("model", "den")})
    rl2 = [f"{c[0]} {c[1]}" for c in cases]
    rend = corr.run_streams(ctx, rl2, {"py": ("py", "render"), "model": ("model", "render")})
    dis = 0
    for case, l, p, m, d, tp, tm in zip(cases, lines, outs["py"], outs["model"], outs["den"], rend["py"], rend["model"]):
        ctx.evaluations += 1
        # the text of the implementation itself: where it shows another internal-memory operand than the model (whose operands
        # are the ones the IL is compared with below), evaluate both under this state and look at what the IL touched
        if tp != tm and tp.startswith("OK") and tm.startswith("OK"):
            kp, km = IMOP.findall(tp), IMOP.findall(tm)
            pq = cpu.parse(p)
            if pq is not None and len(kp) == len(km):
                touched = set(pq.get("r", [])) | set(pq.get("wl", []))
                for a, b in zip(kp, km):
                    if a != b and imem_addr(a, case) != imem_addr(b, case) and imem_addr(b, case) in touched and imem_addr(a, case) not in touched:
                        mn0 = tp.split()[1] if len(tp.split()) > 1 else "?"
                        ctx.report(["py", "text_names_another_internal_memory_cell_than_the_IL_touches", mn0],
                                   f"{mn0} ({case[0]}): the text shows ({a[0]}:{a[1]}) = {imem_addr(a, case):#x}, the IL touches {imem_addr(b, case):#x} and not that cell",
                                   {"case": "exec_py " + l, "text": tp[:200], "il_touches": sorted(touched)[:20]})
                        break
        mcore = m.rsplit(" | k:", 1)[0]
        if cpu.canon_err(p) != cpu.canon_err(mcore):
            dis += 1
            if dis <= 5:
                ctx.broke("correspondence:access-log", f"`exec_py {l[:200]}` python={p[:200]} model={mcore[:200]}")
        pm = cpu.parse(m)
        why = cpu.domain(case, pm)
        if why:
            ctx.count("skipped:" + why)
            continue
        pp = cpu.parse(p)
        if pp is None:
            continue
        ctx.traces += 1
        mn = cpu.mnemonic(pm)
        ctx.count("mn:" + mn)
        if not d.startswith("OK "):
            ctx.count("noden:" + mn)
            continue
        dr, dw = d[3:].split(" | ")
        den_r = sorted(set(int(t) for t in dr[2:].split(",") if t))
        den_w = sorted(set(int(t) for t in dw[2:].split(",") if t))
        py_r = sorted(set(pp.get("r", [])))
        py_w = sorted(set(pp.get("wl", [])))
        if py_r or py_w:
            ctx.nontrivial.add(l)
        bad = []
        if py_r != den_r:
            bad.append("reads")
        if py_w != den_w:
            bad.append("writes")
        if bad:
            fam = family(case, mn, py_r, py_w, den_r, den_w)
            ctx.report(["py", fam] if fam == "instruction_overwrites_BP_PX_PY_it_addresses_with" else ["py", fam, mn], f"{mn} ({case[0]}): the IL's {'/'.join(bad)} differ from what the rendered operands denote",
                       {"case": "exec_py " + l, "il_reads": py_r[:40], "il_writes": py_w[:40], "denoted_reads": den_r[:40], "denoted_writes": den_w[:40]})
    ctx.extra["disagreements"]["access_log"] = dis
    ctx.samples = [{"case": lines[0][:200], "python": outs["py"][0][:200], "denotation": outs["den"][0][:200]}]
