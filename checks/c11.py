"""C11 - the memory bus behaves like memory: separate spaces, immutable ROM, little-endian words."""
from __future__ import annotations

import common
import corr

M24 = 1 << 24


def gen(ctx):
    rng = ctx.rng
    n = 40000 if ctx.tier == "thorough" else 2000
    lines = []
    for _ in range(n):
        # configuration
        card = rng.choice(["1,1,65536", "1,1,65536", "0,1,65536", "1,1,8192", "1,0,32768", "1,1,16384"])
        absent = rng.choice([0, 0, 1])
        mirror = rng.choice([0, 1])
        ro = []
        if rng.random() < 0.3:
            s = rng.choice([0x1000, 0x7FFE, 0xB8000, 0xBFFF0, 0x90000])
            ro.append((s, s + rng.choice([0, 3, 255])))
        ovs = []
        used = []
        for i in range(rng.randint(0, 3)):
            oid = len(ovs) + 1
            kind = rng.random()
            if kind < 0.25:
                st, win = 0xC0000, 0x40000                                  # internal ROM window
                dl = rng.choice([0x40000, 0x3FF00, 0x1000])                 # full image, short image
                roflag = 1
            else:
                st = rng.choice([0x2000, 0x8000, 0x10000, 0x3FFF0, 0x40010, 0x7FF80, 0xB7FF0, 0xBFFF0, 0xF0000, 0xFFF80])
                win = rng.choice([16, 256, 0x1000])
                dl = win if rng.random() < 0.8 else win // 2
                roflag = rng.choice([0, 1])
            if any(st == u for u in used) and rng.random() < 0.5:
                continue
            used.append(st)
            ovs.append(f"{st}:{st + win - 1}:{dl}:{roflag}:{oid}")
        cfg = f"card={card};absent={absent};mirror={mirror};ro={'+'.join(f'{a}-{b}' for a, b in ro)};ov={'+'.join(ovs)}"
        # interesting addresses for this configuration
        hot = [0, 1, 0xFE, 0xFF, 0x100, 0x7FFF, 0x8000, 0x3FFFF, 0x40000, 0x40001, 0x41FFF, 0x42000, 0x4FFFF, 0x50000,
               0x7FFFF, 0x80000, 0x80001, 0x87FFF, 0x88000, 0xB7FFF, 0xB8000, 0xBFFFF, 0xC0000, 0xFFEFF, 0xFFF00, 0xFFFFA, 0xFFFFF,
               0x100000, 0x1000EC, 0x1000FA, 0x1000FE, 0x1000FF, 0x100100, 0x1001FA, 0x200000, 0xFFFFFF]
        for o in ovs:
            st, en, dl = [int(x) for x in o.split(":")[:3]]
            hot += [st - 1, st, st + 1, st + dl - 1, st + dl, en, en + 1]
        for a, b in ro:
            hot += [a - 1, a, b, b + 1]
        ops = []
        for _ in range(rng.randint(4, 40)):
            a = rng.choice(hot) if rng.random() < 0.85 else rng.randrange(0x100100)
            if rng.random() < 0.15:
                a += rng.choice([M24, 3 * M24, 255 * M24])            # 32-bit addresses: 24-bit wrap
            a = max(0, a) & 0xFFFFFFFF
            bits = rng.choice([8, 8, 8, 16, 24]) if rng.random() < 0.97 else 20
            if rng.random() < 0.5:
                ops.append(f"s:{a}:{bits}:{rng.getrandbits(bits) or 1}")
            else:
                ops.append(f"l:{a}:{bits}")
                if rng.random() < 0.3:
                    # the same load again after touching another region: lookups must not depend on the access history
                    ops.append(f"l:{rng.choice(hot) & 0xFFFFFFFF if rng.choice(hot) >= 0 else 0}:8")
                    ops.append(f"l:{a}:{bits}")
            if rng.random() < 0.5 and ops[-1].startswith("s"):
                # read back, byte-wise and as a whole, and through an alias
                ops.append(f"l:{a}:{bits}")
                ops.append(f"l:{a}:8")
                ops.append(f"l:{(a + M24) & 0xFFFFFFFF}:8")
        lines.append(cfg + " " + " ".join(ops))
    return lines


class Ref:
    """What the property says a memory bus is (witness oracle): canonical locations, RAM cells remember, ROM
    and read-only windows never change, internal and external spaces are disjoint, words are little-endian.
    Each implementation's own (consistent) treatment of addresses above 0x1000FF is accepted as its canonical map."""

    def __init__(self, cfg, name):
        self.name = name
        d = dict(f.split("=", 1) for f in cfg.split(";") if "=" in f)
        self.mirror = d.get("mirror") == "1" and name == "rs"
        self.ro = [tuple(int(x) for x in r.split("-")) for r in d.get("ro", "").split("+") if r] if name == "rs" else []
        self.ovs = []
        for t in d.get("ov", "").split("+"):
            if t:
                st, en, dl, ro, i = [int(x) for x in t.split(":")]
                self.ovs.append((st, en, dl, ro, i))
        self.card = name == "py"
        self.absent = d.get("absent") == "1" and name == "rs"

    def fold(self, a24):
        if self.mirror and 0x80000 <= a24 <= 0xBFFFF:
            return 0xB8000 + (a24 & 0x7FFF)
        return a24

    def canon(self, a):
        a24 = a & 0xFFFFFF
        if 0x100000 <= a24 < 0x100100:
            return ("int", a24 - 0x100000)
        if a24 >= 0x100100:
            return ("int", (a24 - 0x100000) & 0xFF) if self.name == "py" else ("ext", a24 & 0xFFFFF)
        return ("ext", self.fold(a24))

    def kind(self, a):
        """'ram' | 'rom' | 'other' for the address as the configuration describes it"""
        a24 = a & 0xFFFFFF
        if a24 >= 0x100000 and (self.name == "py" or a24 < 0x100100):
            return "ram"
        for st, en, dl, ro, i in self.ovs:
            if st <= a24 <= en:
                return "other"               # overlay windows are judged by the model correspondence
        if (self.card or self.absent) and 0x40000 <= a24 <= 0x4FFFF:
            return "other"
        if a24 >= 0x100100:
            # Rust: wraps into external memory; the cell may also be reachable through an overlay-covered alias
            low = a24 & 0xFFFFF
            for st, en, dl, ro, i in self.ovs:
                if st <= low <= en:
                    return "other"
            if (self.absent) and 0x40000 <= low <= 0x4FFFF:
                return "other"
        f = self.fold(a24)
        for s, e in self.ro:
            if s <= f <= e:
                return "rom"
        return "ram"


def oracle(ctx, name, line, ans):
    cfg, *ops = line.split()
    ref = Ref(cfg, name)
    res = ans.split(",")
    if len(res) != len(ops):
        ctx.report([name, "answer-shape"], f"{name}: {len(res)} answers for {len(ops)} ops", {"case": line})
        return
    last = {}       # canonical location -> last byte stored there through a plain RAM address
    label = {}      # canonical location -> name of the listed defect family that may have disturbed it
    unknown = set() # locations whose contents the reference does not claim to know
    romval = {}     # canonical location inside a read-only range -> the byte first read there
    seen_load = {}  # (address, width) -> value of the last identical load with no store since

    def disturb(loc, why=None):
        last.pop(loc, None)
        if why:
            label[loc] = why
        else:
            unknown.add(loc)

    for k, (op, ob) in enumerate(zip(ops, res)):
        q = op.split(":")
        a, bits = int(q[1]), int(q[2])
        nb = max(1, (bits + 7) // 8)
        a24 = a & 0xFFFFFF
        locs = [ref.canon(a + i) for i in range(nb)]
        kinds = [ref.kind(a + i) for i in range(nb)]
        if ob == "NONE":
            ctx.report([name, "load_failed"], f"{name}: {op} returned no value", {"case": " ".join([cfg] + ops[:k + 1])})
            return
        # defect families that apply to this access (Rust multi-byte paths)
        fam = None
        extra = []
        if name == "rs" and nb > 1:
            if (0x100000 <= a24 < 0x100100 and a24 + nb > 0x100100) or (a24 < 0x100000 < a24 + nb):
                fam = "access_crosses_internal_boundary"
                extra = [("ext", (a24 + i) & 0xFFFFF) for i in range(nb)]
            elif ref.mirror and a24 < 0x100000:
                base = ref.fold(a24)
                alt = [("ext", (base + i) & 0xFFFFF) for i in range(nb)]
                if alt != locs:
                    fam = "multibyte_access_in_mirror_window"
                    extra = alt
            if fam is None and len(set(kinds)) > 1:
                fam = "mixed"                 # overlay / read-only edge inside one access: all-or-nothing paths
                extra = [("ext", (ref.fold(a24) + i) & 0xFFFFF) for i in range(nb)] + [("ext", (a24 + i) & 0xFFFFF) for i in range(nb)]
            if fam is None and "rom" in kinds:
                fam = "mixed"
        if name == "py":
            # Python keeps the internal bytes in the last 256 bytes of the external array
            for l, kd in zip(locs, kinds):
                if l[0] == "int":
                    extra.append(("ext", 0xFFF00 + l[1]))
                elif l[0] == "ext" and l[1] >= 0xFFF00 and kd == "ram":
                    extra.append(("int", l[1] - 0xFFF00))
        if q[0] == "s":
            # frame: a store may change only the locations it addresses (and their documented aliases); loads of other
            # locations keep their value.  Accesses under a listed multi-byte defect family invalidate everything.
            if fam:
                seen_load.clear()
            else:
                touched = set(locs) | set(extra)
                for key in [key for key, (_, cells, _) in seen_load.items() if cells & touched]:
                    del seen_load[key]
                for key in seen_load:
                    seen_load[key] = (seen_load[key][0], seen_load[key][1], op)
            v = int(q[3])
            for i, (l, kd) in enumerate(zip(locs, kinds)):
                if fam:
                    disturb(l, None if fam == "mixed" else fam)
                elif kd == "ram":
                    last[l] = (v >> (8 * i)) & 0xFF
                    unknown.discard(l)
                    label.pop(l, None)
                elif kd == "other":
                    disturb(l)
                # rom: a store must not change anything
            for l in extra:
                disturb(l, "internal_memory_aliases_external_top" if name == "py" else (None if fam == "mixed" else fam))
            continue
        got = int(ob)
        # reading is not an operation on memory: the same load, with no store in between, returns the same value
        if (a, bits) in seen_load and seen_load[(a, bits)][0] != got:
            before, _, st = seen_load[(a, bits)]
            if st is None:
                ctx.report([name, "load_value_changes_without_a_store"], f"{name}: {op} reads {got:#x}; the same load read {before:#x} before and nothing was stored in between",
                           {"case": " ".join([cfg] + ops[:k + 1]), "got": got, "expected": before})
            else:
                ctx.report([name, "store_changes_another_location"], f"{name}: {op} reads {got:#x}; the same load read {before:#x} before and the only stores since (last: {st}) address other locations",
                           {"case": " ".join([cfg] + ops[:k + 1]), "got": got, "expected": before})
            return
        seen_load[(a, bits)] = (got, frozenset(locs) | frozenset(extra), None)
        if bits != 20 and fam is None and all(kd == "rom" for kd in kinds):
            # read-only window: whatever is read there first is what must be read there ever after, whatever was stored in between
            for i, l in enumerate(locs):
                b = (got >> (8 * i)) & 0xFF
                if l in romval and romval[l] != b:
                    ctx.report([name, "read_only_location_changed"], f"{name}: {op} reads {b:#x} at {l}, which read {romval[l]:#x} before; it lies in a read-only range",
                               {"case": " ".join([cfg] + ops[:k + 1]), "got": b, "expected": romval[l]})
                    return
                romval.setdefault(l, b)
            continue
        if bits == 20 or fam == "mixed" or any(kd != "ram" for kd in kinds):
            continue                          # overlay / card windows: contents judged by the model correspondence
        exp = 0
        known = True
        why = fam
        for i, l in enumerate(locs):
            if l in label:
                why = why or label[l]
            if l in unknown or l not in last:
                known = False
            else:
                exp |= last[l] << (8 * i)
        if why and (not known or got != exp):
            if known or any(l in label for l in locs) or fam:
                # a listed defect family is involved: report it under that family's signature when it shows
                if known and got != exp or (not known and any(l in label for l in locs) and all((l in last) or (l in label) for l in locs)):
                    vals = {l: last.get(l) for l in locs}
                    if known:
                        ctx.report([name, why], f"{name}: {op} reads {got:#x}, the bytes last stored at those locations compose to {exp:#x}", {"case": " ".join([cfg] + ops[:k + 1]), "got": got, "expected": exp})
                        return
            continue
        if known and got != exp:
            ctx.report([name, "ram_read_differs"], f"{name}: {op} reads {got:#x}, the bytes last stored at those locations compose to {exp:#x}", {"case": " ".join([cfg] + ops[:k + 1]), "got": got, "expected": exp})
            return


def run(ctx):
    ctx.rule = ("random configurations (card present/absent/size/read-only, Rust absent-slot overlay, RAM/ROM overlays incl. overlapping and short-data ones, full/short ROM image at 0xC0000, mirror on/off, read-only ranges) "
                "x sequences of 8/16/24(/20)-bit loads and stores at boundary-biased 32-bit addresses (internal/external edge, mirror window edges, overlay and card edges, +k*2^24 aliases); "
                "non-trivial = a store followed by a load of an overlapping location; distinct by text")
    ctx.trusted += ["correspondence harness: harness/py/mem_cmd.py (PCE500Memory read_bytes/write_bytes, MemoryOverlay, card API), verif-harness mem_cmd.rs (MemoryImage load/store, add_overlay, mirror, read-only ranges), extracted model_driver",
                    "modelled not verified: pce500/memory.py + memory_bus.py byte paths and card handlers, memory.rs load/store paths; keyboard/LCD overlays, perfetto, access logs, dirty tracking, python_ranges not modelled; the CPU-facing RuntimeBus of lib.rs is exercised by C06/C12, not here"]
    ctx.prove()
    okr_ref, _ = common.coq_make(["Props/C11_refuted.vo"])
    ctx.extra["refuted_witnesses_still_reproduce"] = bool(okr_ref)
    okm, okr = corr.build_all(ctx)
    lines = gen(ctx)
    streams = {"py": ("py", "mem_py")}
    if okr:
        streams["rs"] = ("rs", "mem_rs")
    if okm:
        streams["mpy"] = ("model", "mem_py")
        streams["mrs"] = ("model", "mem_rs")
    outs = corr.run_streams(ctx, lines, streams)
    corr.compare(ctx, "membus", lines, outs, [("py", "mpy"), ("rs", "mrs")])
    for i, l in enumerate(lines):
        ctx.evaluations += 1
        ctx.traces += 1
        ops = l.split()[1:]
        if any(o.startswith("s:") for o in ops) and any(o.startswith("l:") for o in ops):
            ctx.nontrivial.add(l)
        for o in ops:
            ctx.count(o.split(":")[0] + o.split(":")[2])
        for nm in ("py", "rs"):
            if nm in outs:
                a = outs[nm][i]
                if a.startswith("ERR") or a == "MISSING":
                    ctx.report([nm, "error", a[:30]], f"{nm} failed: {a}", {"case": l})
                else:
                    oracle(ctx, nm, l, a)
    ctx.samples = [{"case": lines[0][:400], "python": outs["py"][0][:200], "rust": outs.get("rs", [""])[0][:200]}]
