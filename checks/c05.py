"""C05 - branch metadata given to Binary Ninja matches where execution actually goes."""
from __future__ import annotations

import corr
from checks import cpu, execgen

MASK = 0xFFFFF
BODY = ["00", "0805", "6c00", "7c00", "ce", "97", "9f", "4003", "4803"]     # stack-neutral, no control flow


def parse_info(a):
    if not a.startswith("len="):
        return None
    ln, br = a.split()
    out = []
    if br != "br=-":
        for t in br[3:].split(","):
            k, v = t.split(":")
            out.append((k, None if v == "-" else int(v)))
    return int(ln[4:]), out


def cond_true(mn, f):
    c, z = f & 1, (f >> 1) & 1
    for suf, val in (("NZ", z == 0), ("NC", c == 0), ("Z", z == 1), ("C", c == 1)):
        if mn.endswith(suf) and mn[:-len(suf)] in ("JP", "JR"):
            return val
    return None


def pair_cases(ctx):
    """call .. stack-neutral body .. return programs: (case, kind, steps, call_addr, call_len)"""
    rng = ctx.rng
    out = []
    n = 4000 if ctx.tier == "thorough" else 500
    for _ in range(n):
        kind = rng.choice(["CALL", "CALLF", "IR"])
        addr = rng.choice([0x1000, 0x2FFFD, 0x2FFFC, 0x1FFFE, 0x3FFFB, rng.randrange(0x100, 0xF0000), rng.randrange(0x100, 0xF0000)])
        body = [rng.choice(BODY) for _ in range(rng.randrange(0, 4))]
        mem = execgen.rand_mem(rng)
        regs = execgen.rand_regs(rng)
        regs["S"] = rng.choice([0x8000, 0xBFFF0, rng.randrange(0x100, 0xF0000)])
        regs["U"] = rng.randrange(0x100, 0xF0000)
        if kind == "CALL":
            tgt16 = rng.randrange(0x10000)
            target = (addr & 0xF0000) | tgt16
            code = bytes([0x04, tgt16 & 0xFF, tgt16 >> 8])
            ret = "06"
        elif kind == "CALLF":
            target = rng.randrange(0x100, 0xF0000)
            code = bytes([0x05, target & 0xFF, (target >> 8) & 0xFF, target >> 16])
            ret = "07"
        else:
            target = rng.randrange(0x100, 0xF0000)
            code = bytes([0xFE])
            ret = "01"
            for i in range(3):
                mem[0xFFFFA + i] = (target >> (8 * i)) & 0xFF
            mem[cpu.IMEM + 0xFB] = rng.randrange(256)
        if abs(target - addr) < 64 or abs(regs["S"] - addr) < 64 or abs(regs["S"] - target) < 64:
            continue
        prog = bytes.fromhex("".join(body) + ret)
        for i, b in enumerate(prog):
            mem[target + i] = b
        steps = 1 + len(body) + 1
        out.append(((code.hex(), addr, regs, mem, 0), kind, steps, addr, len(code)))
    return out


def run(ctx):
    ctx.rule = ("(1) metadata tie: get_instruction_info (length, branch list) vs Model/Static.v analyze on every prefix x opcode x mode-byte structure at ordinary and page-edge addresses; "
                "(2) static vs dynamic: every valid instruction executed on the Python emulator from random states; reported taken/fall-through/call targets compared (mod 2^20) with the PC reached under the actual flag values, "
                "'no branch reported' => PC = address+length (IR excepted), 'PC elsewhere' => a branch is reported; (3) inverse pairs: CALL..RET, CALLF..RETF, IR..RETI around random stack-neutral bodies at random and page-edge addresses: "
                "resume address, S, F and IMR restored; non-trivial = control transfer instruction or pair; distinct by bytes+state")
    ctx.trusted += ["correspondence harness: harness/py/static_cmd.py info (SC62015.get_instruction_info), exec_cmd.py, extracted model_driver (info, exec_py)",
                    "modelled not verified: <Instruction>.analyze (Model/Static.v), lifts and evaluator as for C04; theorems cover JR*/JP* immediate forms at instruction level; CALL/RET/IR and the 'reports a branch iff it can leave' clause are decided by the static-vs-dynamic comparison on the implementation"]
    ctx.assumptions += ["inverse pairs: callee body is stack-neutral and does not overwrite the saved frame", "targets compared modulo the 20-bit PC"]
    ctx.prove()
    okm, _ = corr.build_all(ctx, need_rust=False)
    if not okm:
        return
    rng = ctx.rng
    cases = execgen.exec_cases(rng, ctx.tier, temps=False)
    il = [f"{c[0]} {c[1]}" for c in cases]
    outs = corr.run_streams(ctx, il, {"py": ("py", "info"), "model": ("model", "info")})
    dis = 0
    for l, a, b in zip(il, outs["py"], outs["model"]):
        if a != b and not (a.startswith("ERR") and b.startswith("ERR")):
            dis += 1
            if dis <= 5:
                ctx.broke("correspondence:info", f"`info {l}` python={a} model={b}")
    ctx.extra.setdefault("disagreements", {})["info"] = dis
    # the answer for (bytes, address) must not depend on what was asked before: the same bytes queried again at other
    # addresses of the same 64K page, in one process, against the model's answer for each address
    hist = []
    for c, a in zip(cases, outs["py"]):
        if "br=" in a and not a.endswith("br=-") and len(hist) < (6000 if ctx.tier == "thorough" else 900):
            base = c[1] & 0xFF0000
            for off in (c[1] & 0xFFFF, ((c[1] & 0xFFFF) + 0x100) & 0xFFFF, ((c[1] & 0xFFFF) ^ 0x2040) & 0xFFFF):
                hist.append(f"{c[0]} {base | off}")
    if hist:
        ho = corr.run_streams(ctx, hist, {"py": ("py", "info")}, sharded=False)["py"]
        hm = corr.run_streams(ctx, hist, {"model": ("model", "info")})["model"]
        for l, a, b in zip(hist, ho, hm):
            ctx.evaluations += 1
            if a != b and not (a.startswith("ERR") and b.startswith("ERR")):
                ctx.report(["py", "instruction_info_depends_on_earlier_queries"], f"`info {l}` answered {a[:120]} after other queries in the same process; the analysis of these bytes at this address is {b[:120]}", {"case": "info " + l, "answer": a, "expected": b})
        ctx.count("info_history_queries", len(hist))
    infos = outs["py"]
    lines = cpu.wire(cases)
    ex = corr.run_streams(ctx, lines, {"py": ("py", "exec1"), "model": ("model", "exec_py")})
    for case, l, inf, p, m in zip(cases, lines, infos, ex["py"], ex["model"]):
        ctx.evaluations += 1
        pm = cpu.parse(m)
        why = cpu.domain(case, pm)
        if why:
            ctx.count("skipped:" + why)
            continue
        pp = cpu.parse(p)
        pi = parse_info(inf)
        if pp is None or pi is None:
            if pp is not None and pi is None:
                ctx.report(["py", "accepted_by_emulator_rejected_by_info", cpu.mnemonic(pm)], f"get_instruction_info returned {inf} for an instruction the emulator executes", {"case": "exec1 " + l, "info": inf})
            continue
        ctx.traces += 1
        mn = cpu.mnemonic(pm)
        ln, brs = pi
        addr = case[1]
        ft = (addr + ln) & MASK
        pc = pp["pc"]
        kinds = [k for k, _ in brs]
        if brs:
            ctx.nontrivial.add(l)
        ctx.count("branches:" + ("+".join(kinds) or "none"))
        what = None
        if not brs:
            if pc != ft and mn != "IR":
                what = ("continues_elsewhere_without_reporting_a_branch", f"no branch reported but PC={pc:#x}, address+length={ft:#x}")
        elif "T" in kinds or "F" in kinds:
            t = dict(brs)
            taken = cond_true(mn, case[2].get("F", 0))
            exp = (t.get("T") if taken else t.get("F"))
            if taken is None or exp is None:
                what = ("conditional_branch_shape", f"branches {brs} for {mn}")
            elif pc != exp & MASK:
                what = ("reported_target_differs_from_execution", f"condition {'holds' if taken else 'fails'}: reported {exp & MASK:#x}, executed PC={pc:#x}")
        elif kinds[0] in ("U", "C"):
            exp = brs[0][1]
            if exp is None or pc != exp & MASK:
                what = ("reported_target_differs_from_execution", f"reported {brs[0]}, executed PC={pc:#x}")
        if what:
            ctx.report(["py", what[0], mn], f"{mn} ({case[0]} at {addr:#x}): {what[1]}", {"case": "exec1 " + l, "info": inf, "python": p[:200]})
    # inverse pairs
    pairs = pair_cases(ctx)
    plines = [execgen.fmt(c) + f" {steps}" for c, _, steps, _, _ in pairs]
    po = corr.run_streams(ctx, plines, {"py": ("py", "exec1"), "model": ("model", "exec1")})
    for (case, kind, steps, addr, ln), l, p, m in zip(pairs, plines, po["py"], po["model"]):
        ctx.evaluations += 1
        mcore = m.rsplit(" | k:", 1)[0]
        if cpu.canon_err(p) != cpu.canon_err(mcore):
            ctx.broke("correspondence:pairs", f"`exec1 {l[:200]}` python={p[:160]} model={mcore[:160]}")
        pp = cpu.parse(p)
        if pp is None:
            continue
        ctx.traces += 1
        ctx.nontrivial.add(l)
        ctx.count("pair:" + kind)
        regs, mem = case[2], case[3]
        bad = []
        if pp["pc"] != (addr + ln) & MASK:
            bad.append(f"resumes at {pp['pc']:#x}, expected {(addr + ln) & MASK:#x}")
        if pp["s"] != regs["S"]:
            bad.append(f"S={pp['s']:#x}, was {regs['S']:#x}")
        if kind == "IR":
            if (pp["f"] & 3) != (regs["F"] & 3):
                bad.append(f"F={pp['f'] & 3}, was {regs['F'] & 3}")
            imr_after = pp["w"].get(cpu.IMEM + 0xFB, mem.get(cpu.IMEM + 0xFB))
            if imr_after != mem.get(cpu.IMEM + 0xFB):
                bad.append(f"IMR={imr_after}, was {mem.get(cpu.IMEM + 0xFB)}")
        if bad:
            edge = "page_edge" if ((addr + ln) >> 16) != (addr >> 16) else "plain"
            ctx.report(["py", "call_return_pair_not_inverse", kind, edge], f"{kind} at {addr:#x} .. return: " + "; ".join(bad), {"case": "exec1 " + l, "python": p[:300]})
    ctx.samples = [{"info": il[0], "python": infos[0]}, {"pair": plines[0][:200] if plines else "", "python": po["py"][0][:200] if plines else ""}]
