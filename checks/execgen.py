"""Shared generator of single-instruction execution cases (C03-C07).

case = (hexbytes, addr, regs dict, mem dict, fill); wire form:  <hex> <addr> <k=v,...|-> <a=v,...|-> <fill>
"""
from __future__ import annotations

from checks import decgen

PRE = decgen.PRE
IMEM = 0x100000
EDGE20 = [0, 1, 2, 0xFF, 0x100, 0xFFFF, 0x10000, 0x7FFFF, 0x80000, 0xFFFFD, 0xFFFFE, 0xFFFFF]


def rand_regs(rng, small_i=True, temps=False):
    r = {}
    r["BA"] = rng.choice([0, 1, 0xFF, 0x100, 0xFFFF, rng.randrange(1 << 16), rng.randrange(1 << 16)])
    if small_i:
        r["I"] = rng.choice([1, 1, 2, 3, 4, 5, 7, 0, rng.randrange(1, 40), 0x100, 0x101])
    else:
        r["I"] = rng.randrange(1 << 16)
    for k in ("X", "Y", "U", "S"):
        r[k] = rng.choice(EDGE20 + [rng.randrange(1 << 20)] * 6 + [IMEM - rng.randrange(1, 300)])
    r["F"] = rng.choice([0, 1, 2, 3, 0, 1, 2, 3, rng.randrange(256)])
    if temps:
        for i in range(14):
            r[f"TEMP{i}"] = rng.randrange(1 << 24)
    return r


def rand_mem(rng):
    m = {}
    for off in (0xEC, 0xED, 0xEE):                       # BP PX PY
        m[IMEM + off] = rng.choice([0, 0, 1, 0x10, 0x80, 0xFF, rng.randrange(256), rng.randrange(256)])
    if rng.random() < 0.5:
        m[IMEM + 0xFB] = rng.randrange(256)              # IMR
    return m


def instr_bytes(rng, thorough=False):
    """Instruction byte strings covering prefix x opcode x mode byte; 7 bytes each (decoders take what they need)."""
    out = []
    prefixes = [[]] + [[p] for p in PRE]
    for pre in prefixes:
        for opc in range(256):
            seconds = decgen.MODE_BYTES + rng.sample(range(256), 3)
            if thorough:
                seconds = seconds + rng.sample(range(256), 24)
            for b2 in seconds:
                rest = [rng.randrange(256) for _ in range(5)]
                if rng.random() < 0.3:
                    rest[0] = rng.choice([0, 1, 0xEC, 0xED, 0xEE, 0xFB, 0xFE, 0xFF])
                out.append(bytes(pre + [opc, b2] + rest))
    return out


def exec_cases(rng, tier, temps=False):
    cases = []
    for bs in instr_bytes(rng, tier == "thorough"):
        addr = rng.choice([0, 0x1000, 0xFFFF0, 0x2FFFE, 0x1FFFD, 0xFFFE, rng.randrange(1 << 20), rng.randrange(1 << 20)])
        fill = rng.choice([0, rng.randrange(1, 1000), rng.randrange(1, 1000)])
        cases.append((bs.hex(), addr, rand_regs(rng, temps=temps), rand_mem(rng), fill))
    return cases


def fmt(case):
    hx, addr, regs, mem, fill = case
    rs = ",".join(f"{k}={v}" for k, v in regs.items()) or "-"
    ms = ",".join(f"{k}={v}" for k, v in mem.items()) or "-"
    return f"{hx} {addr} {rs} {ms} {fill}"


# long counted runs ("all iteration counts"): block moves with I in the thousands.  They are run on the implementation only
# (the model's memory is a closure chain, quadratic in the run length) and judged by what the documentation says of every
# counted instruction whatever the data: it ends with I = 0 at the next instruction, a post-increment pointer has advanced by I.
LONG = [("e324", "X"), ("e325", "Y"), ("eb24", "X"), ("eb25", "Y"), ("d3", None), ("db", None), ("cb", None), ("cf", None)]


def long_cases(rng, tier):
    out = []
    for _ in range(32 if tier == "thorough" else 8):
        op, ptr = rng.choice(LONG)
        bs = bytes.fromhex(op) + bytes([rng.choice([0x10, 0x40, 0x80]), 0x00, 0x00, 0x03, 0x00][: 7 - len(op) // 2])
        regs = rand_regs(rng)
        # counts in the upper half of the 16-bit counter (negative when read as signed) in both tiers: the first two cases always
        regs["I"] = rng.choice([0x2000, 0x2001, 0x2400, 0x3000, 0x4000, 0x8001, 0x9000, 0xFFFF] + ([0x8000, rng.randrange(0x1000, 0x10000)] if tier == "thorough" else []))
        if len(out) < 2:
            regs["I"] = rng.choice([0x8001, 0x8002, 0xC000, 0xFFFF, rng.randrange(0x8001, 0x10000)])
        regs["X"] = rng.choice([0x20000, 0x40000, 0x80000])
        regs["Y"] = rng.choice([0x30000, 0x50000, 0x90000])
        out.append(((bs.hex(), rng.choice([0x1000, 0xC0000]), regs, rand_mem(rng), 0), ptr, len(op) // 2))
    return out
